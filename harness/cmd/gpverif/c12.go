package main

import (
	"encoding/hex"
	"fmt"
	"math/rand"
	"net"
	"os"
	"os/exec"
	"path/filepath"
	"sort"
	"strconv"
	"strings"
	"time"

	"github.com/gopacket/gopacket"
	"github.com/gopacket/gopacket/layers"
	"github.com/gopacket/gopacket/reassembly"
	"github.com/gopacket/gopacket/tcpassembly"
)

// C12: assemblers sharing one StreamPool, every interleaving.
//
// A controller runs exactly one assembler goroutine between the `verif` yield points of
// tcpassembly / reassembly (pool.miss, conn.lock, pool.remove, conn.retry, and the start of
// every Assemble/FlushAll call), tracks connection-lock ownership from conn.lock / conn.unlock,
// and so makes a real execution deterministic given the schedule in the case.
//
// ops:  pkg:t|r                       tcpassembly | reassembly
//
//	th:<tid>:<op>,<op>,...        program of one assembler; op = fl (FlushAll) or a packet
//	                              <flow a..><dir 0|1><flags S|F|SF|->.<seq>.<payload hex>
//	sched:<tid>,<tid>,...         schedule; an entry naming a thread that cannot step is skipped,
//	                              afterwards the lowest enabled thread runs until none is enabled;
//	                              when every thread returned an extra assembler calls FlushAll
//	race:<rounds>                 (support run) free-running workloads under a -race build
//
// Observation: one line per factory.New / Reassembled / ReassemblyComplete / panic with the thread,
// the stream number and the connection object whose lock the thread holds, then
// final=done|stuck|hang;conns=<key>:<object>:<stream>,...;free=<recycled objects, top first>.
type c12 struct{}

func init() { register("C12", c12{}) }

type c12Pkt struct {
	flow     int
	dir      int
	syn, fin bool
	seq      uint32
	bytes    []byte
	ts       int // capture timestamp, seconds after the base time
}
type c12Op struct {
	flush bool
	age   int // flush: >0 = FlushOlderThan / FlushCloseOlderThan(base+age s); 0 = FlushAll
	pkt   c12Pkt
}
type c12Case struct {
	pkg   string
	progs [][]c12Op
	sched []int
	race  int
}

func c12ParseOp(s string) (c12Op, error) {
	if s == "fl" {
		return c12Op{flush: true}, nil
	}
	if strings.HasPrefix(s, "fo") {
		n, err := strconv.Atoi(s[2:])
		if err != nil || n <= 0 {
			return c12Op{}, fmt.Errorf("flush %q", s)
		}
		return c12Op{flush: true, age: n}, nil
	}
	parts := strings.Split(s, ".")
	ts := 0
	if len(parts) == 4 {
		n, err := strconv.Atoi(parts[3])
		if err != nil {
			return c12Op{}, err
		}
		ts, parts = n, parts[:3]
	}
	if len(parts) != 3 || len(parts[0]) < 3 {
		return c12Op{}, fmt.Errorf("packet %q", s)
	}
	hd := parts[0]
	p := c12Pkt{flow: int(hd[0] - 'a'), dir: int(hd[1] - '0'), ts: ts}
	if p.flow < 0 || p.flow > 25 || p.dir < 0 || p.dir > 1 {
		return c12Op{}, fmt.Errorf("packet %q", s)
	}
	p.syn = strings.Contains(hd[2:], "S")
	p.fin = strings.Contains(hd[2:], "F")
	sq, err := strconv.ParseUint(parts[1], 10, 32)
	if err != nil {
		return c12Op{}, err
	}
	p.seq = uint32(sq)
	b, err := hex.DecodeString(parts[2])
	if err != nil {
		return c12Op{}, err
	}
	p.bytes = b
	return c12Op{pkt: p}, nil
}

func c12Parse(c Case) (p c12Case, err error) {
	p.pkg = "t"
	for _, op := range c.Ops {
		name, arg, _ := strings.Cut(op, ":")
		switch name {
		case "pkg":
			if arg != "t" && arg != "r" {
				return p, fmt.Errorf("pkg %q", arg)
			}
			p.pkg = arg
		case "th":
			_, body, _ := strings.Cut(arg, ":")
			var prog []c12Op
			if body != "" {
				for _, s := range strings.Split(body, ",") {
					o, e := c12ParseOp(s)
					if e != nil {
						return p, e
					}
					prog = append(prog, o)
				}
			}
			p.progs = append(p.progs, prog)
		case "sched":
			if arg != "" {
				for _, s := range strings.Split(arg, ",") {
					n, e := strconv.Atoi(s)
					if e != nil {
						return p, e
					}
					p.sched = append(p.sched, n)
				}
			}
		case "race":
			p.race, _ = strconv.Atoi(arg)
		case "explore":
		default:
			return p, fmt.Errorf("op %q", op)
		}
	}
	return p, nil
}

// ---------------------------------------------------------------- flows / keys
func c12Flows(flow, dir int) (gopacket.Flow, gopacket.Flow) {
	a := layers.NewIPEndpoint(net.IPv4(10, 0, 0, byte(1+flow)))
	b := layers.NewIPEndpoint(net.IPv4(10, 0, 1, byte(1+flow)))
	pa := layers.NewTCPPortEndpoint(layers.TCPPort(1000))
	pb := layers.NewTCPPortEndpoint(layers.TCPPort(2000))
	if dir == 0 {
		return gopacket.NewFlow(layers.EndpointIPv4, a.Raw(), b.Raw()), gopacket.NewFlow(layers.EndpointTCPPort, pa.Raw(), pb.Raw())
	}
	return gopacket.NewFlow(layers.EndpointIPv4, b.Raw(), a.Raw()), gopacket.NewFlow(layers.EndpointTCPPort, pb.Raw(), pa.Raw())
}

func c12KeyName(netFlow, tcpFlow gopacket.Flow) string {
	src, _ := netFlow.Endpoints()
	raw := src.Raw()
	if len(raw) != 4 {
		return "??"
	}
	if raw[2] == 0 {
		return fmt.Sprintf("%c0", 'a'+raw[3]-1)
	}
	return fmt.Sprintf("%c1", 'a'+raw[3]-1)
}

// ---------------------------------------------------------------- controller
type c12Thread struct {
	id       int
	resume   chan struct{}
	started  bool
	done     bool
	site     string      // yield site the thread is parked at ("" = gate before its first call)
	want     interface{} // conn.lock: the connection whose lock it is about to take
	prog     []c12Op
	tasm     *tcpassembly.Assembler
	rasm     *reassembly.Assembler
	panicked bool
	curPkt   *c12Pkt // the packet of the Assemble call in progress (nil during FlushAll)
	recycled bool    // the object this thread looked up was taken from the free list again before the thread locked it
}

type c12Msg struct {
	tid  int
	done bool
}

type c12Stream struct {
	id        int
	key       string // key given to factory.New
	ctl       *c12Ctl
	completes int
}

type c12Ctl struct {
	pkg          string
	threads      []*c12Thread
	cur          int
	back         chan c12Msg
	owner        map[interface{}]int // connection object -> thread holding its lock
	connID       map[interface{}]int
	nconn        int
	streams      []*c12Stream
	events       []string
	oracle       []string
	tags         map[string]bool
	kept         map[int]bool         // streams seen in a pool entry
	evicted      map[int]bool         // streams whose pool entry was deleted by the remove of another object
	trailEvicted map[int]bool         // streams whose open connection lost its pool entry to the unlocked second remove()
	tainted      map[interface{}]bool // objects on which a stale assembler (recycled in between) processed a packet
	dirBytes     map[string][]byte    // (flow,dir) -> payload bytes delivered, in event order
	tpool        *tcpassembly.StreamPool
	rpool        *reassembly.StreamPool
	ts           time.Time
	nops         int
	trace        [][]int // enabled set at every decision of the main phase
	chosen       []int
}

func (ctl *c12Ctl) fail(clause, detail string) {
	for _, o := range ctl.oracle {
		if strings.HasPrefix(o, clause+"\t") {
			return
		}
	}
	ctl.oracle = append(ctl.oracle, clause+"\t"+detail)
}

// hook is installed in both packages; it runs on the goroutine of the one running thread
func (ctl *c12Ctl) hook(site string, obj interface{}) {
	th := ctl.threads[ctl.cur]
	switch site {
	case "pool.new":
		if _, ok := ctl.connID[obj]; !ok {
			ctl.connID[obj] = ctl.nconn
			ctl.nconn++
		} else {
			ctl.tags["recycle"] = true
			delete(ctl.tainted, obj)
			for _, o := range ctl.threads {
				if o.site == "conn.lock" && o.want == obj {
					o.recycled = true
				}
			}
		}
		return
	case "conn.unlock":
		if o, ok := ctl.owner[obj]; ok && o == th.id {
			delete(ctl.owner, obj)
		} else {
			ctl.fail("C12:harness-lock-tracking", "unlock of a lock not recorded as held")
		}
		return
	}
	th.site, th.want = site, obj
	ctl.back <- c12Msg{tid: th.id}
	<-th.resume
	if site == "pool.remove" {
		ctl.noteRemove(obj, th.id) // the pool section of remove runs now
	}
	if site == "conn.lock" {
		ctl.owner[obj] = th.id
	}
	th.site, th.want = "", nil
}

// noteRemove: remove(conn) deletes the map entry of conn.key; when that entry holds another
// object, that object's stream loses its pool entry without being completed
func (ctl *c12Ctl) noteRemove(obj interface{}, tid int) {
	key, _, _ := ctl.connInfo(obj)
	owner, locked := ctl.owner[obj]
	unlocked := !locked || owner != tid // reassembly FlushWithOptions: second remove() after the lock was released
	if unlocked {
		ctl.tags["trailing-remove"] = true
	}
	check := func(k string, c interface{}) {
		if k != key {
			return
		}
		_, st, closed := ctl.connInfo(c)
		id := ctl.streamID(st)
		if id < 0 {
			return
		}
		if unlocked && !closed {
			ctl.trailEvicted[id] = true
		} else if c != obj {
			ctl.evicted[id] = true
		}
	}
	if ctl.pkg == "t" {
		es, _ := tcpassembly.VerifPoolState(ctl.tpool)
		for _, e := range es {
			check(c12KeyName(e.Net, e.Transport), e.Conn)
		}
	} else {
		es, _ := reassembly.VerifPoolState(ctl.rpool)
		for _, e := range es {
			check(c12KeyName(e.Net, e.Transport), e.Conn)
		}
	}
}

func (ctl *c12Ctl) rank(obj interface{}) int {
	if id, ok := ctl.connID[obj]; ok {
		return id
	}
	return 1 << 30
}

func (ctl *c12Ctl) heldBy(tid int) (interface{}, int) {
	var held interface{}
	n := 0
	for o, t := range ctl.owner {
		if t == tid {
			held = o
			n++
		}
	}
	return held, n
}

func (ctl *c12Ctl) connInfo(obj interface{}) (string, interface{}, bool) {
	if ctl.pkg == "t" {
		n, t, s, closed := tcpassembly.VerifConnInfo(obj)
		return c12KeyName(n, t), s, closed
	}
	n, t, s, closed := reassembly.VerifConnInfo(obj)
	return c12KeyName(n, t), s, closed
}

// callback bookkeeping shared by the two stream types
func (ctl *c12Ctl) callback(s *c12Stream, what string) {
	held, n := ctl.heldBy(ctl.cur)
	c := -1
	if n == 1 {
		c = ctl.connID[held]
		_, st, _ := ctl.connInfo(held)
		if !ctl.connLocked(held) {
			ctl.fail("C12:mutex", fmt.Sprintf("callback on stream %d although the mutex of connection object %d is not held", s.id, c))
		}
		if !ctl.streamIs(st, s) {
			ctl.fail("C12:mutex", fmt.Sprintf("callback on stream %d while holding the lock of object %d, which owns another stream", s.id, c))
		}
	} else {
		ctl.fail("C12:mutex", fmt.Sprintf("callback on stream %d by thread %d holding %d connection locks", s.id, ctl.cur, n))
	}
	// the packet being assembled belongs to the connection the stream was created for
	if pk := ctl.threads[ctl.cur].curPkt; pk != nil {
		k := fmt.Sprintf("%c%d", 'a'+pk.flow, pk.dir)
		rk := fmt.Sprintf("%c%d", 'a'+pk.flow, 1-pk.dir)
		if !(s.key == k || (ctl.pkg == "r" && s.key == rk)) {
			ctl.wrongStream(fmt.Sprintf("a packet of %s caused a callback on the stream created for %s", k, s.key))
		}
	}
	ctl.events = append(ctl.events, fmt.Sprintf("%s;t=%d;s=%d;c=%d", what, ctl.cur, s.id, c))
}

func (ctl *c12Ctl) wrongStream(what string) {
	how := "the connection object was NOT recycled in between"
	held, n := ctl.heldBy(ctl.cur)
	if ctl.threads[ctl.cur].recycled || (n == 1 && ctl.tainted[held]) {
		how = "the connection object was closed, recycled and reset for the other key between an assembler's lookup and its conn.mu.Lock()"
	}
	ctl.fail("C12:wrong-stream", what+"; "+how)
}

func (ctl *c12Ctl) checkBytes(s *c12Stream, sgdir int, b []byte) {
	// payload bytes carry (flow+1)<<4 | dir<<3 | index
	flow := int(s.key[0] - 'a')
	dir := int(s.key[1]-'0') ^ sgdir
	for _, x := range b {
		if int(x>>4) != flow+1 || int(x>>3)&1 != dir {
			ctl.wrongStream(fmt.Sprintf("stream of %s received byte %02x of another connection", s.key, x))
		}
		k := fmt.Sprintf("%c%d", 'a'+int(x>>4)-1, int(x>>3)&1)
		ctl.dirBytes[k] = append(ctl.dirBytes[k], x)
	}
}

// tcpassembly stream
type c12TStream struct{ *c12Stream }

func (s c12TStream) Reassembled(rs []tcpassembly.Reassembly) {
	var parts []string
	for _, r := range rs {
		fl := "-"
		switch {
		case r.Start && r.End:
			fl = "SE"
		case r.Start:
			fl = "S"
		case r.End:
			fl = "E"
		}
		parts = append(parts, fmt.Sprintf("%d/%s/%s", r.Skip, hex.EncodeToString(r.Bytes), fl))
		s.ctl.checkBytes(s.c12Stream, 0, r.Bytes)
	}
	if s.completes > 0 {
		s.ctl.fail("C12:data-after-complete", fmt.Sprintf("stream %d", s.id))
	}
	s.ctl.callback(s.c12Stream, "reasm")
	s.ctl.events[len(s.ctl.events)-1] += ";d=0;ch=" + strings.Join(parts, ",")
}
func (s c12TStream) ReassemblyComplete() {
	s.completes++
	s.ctl.callback(s.c12Stream, "complete")
}

type c12TFactory struct{ ctl *c12Ctl }

func (f c12TFactory) New(netFlow, tcpFlow gopacket.Flow) tcpassembly.Stream {
	return c12TStream{f.ctl.newStream(netFlow, tcpFlow)}
}

func (ctl *c12Ctl) newStream(netFlow, tcpFlow gopacket.Flow) *c12Stream {
	s := &c12Stream{id: len(ctl.streams), key: c12KeyName(netFlow, tcpFlow), ctl: ctl}
	ctl.streams = append(ctl.streams, s)
	ctl.events = append(ctl.events, fmt.Sprintf("new;t=%d;k=%s;s=%d", ctl.cur, s.key, s.id))
	return s
}

// reassembly stream
type c12RStream struct{ *c12Stream }

func (s *c12RStream) Accept(tcp *layers.TCP, ci gopacket.CaptureInfo, dir reassembly.TCPFlowDirection, nextSeq reassembly.Sequence, start *bool, ac reassembly.AssemblerContext) bool {
	return true
}
func (s *c12RStream) ReassembledSG(sg reassembly.ScatterGather, ac reassembly.AssemblerContext) {
	dir, start, end, skip := sg.Info()
	l, _ := sg.Lengths()
	b := sg.Fetch(l)
	fl := "-"
	switch {
	case start && end:
		fl = "SE"
	case start:
		fl = "S"
	case end:
		fl = "E"
	}
	d := 0
	if dir == reassembly.TCPDirServerToClient {
		d = 1
	}
	s.ctl.checkBytes(s.c12Stream, d, b)
	if s.completes > 0 {
		s.ctl.fail("C12:data-after-complete", fmt.Sprintf("stream %d", s.id))
	}
	s.ctl.callback(s.c12Stream, "reasm")
	s.ctl.events[len(s.ctl.events)-1] += fmt.Sprintf(";d=%d;ch=%d/%s/%s", d, skip, hex.EncodeToString(b), fl)
}
func (s *c12RStream) ReassemblyComplete(ac reassembly.AssemblerContext) bool {
	s.completes++
	s.ctl.callback(s.c12Stream, "complete")
	return true
}

type c12RFactory struct{ ctl *c12Ctl }

func (f c12RFactory) New(netFlow, tcpFlow gopacket.Flow, tcp *layers.TCP, ac reassembly.AssemblerContext) reassembly.Stream {
	return &c12RStream{f.ctl.newStream(netFlow, tcpFlow)}
}

type c12Ctx struct{ ci gopacket.CaptureInfo }

func (c *c12Ctx) GetCaptureInfo() gopacket.CaptureInfo { return c.ci }

// the mutex oracle compares interface values: the stream stored in the connection is the
// value the factory returned
func (ctl *c12Ctl) streamIs(st interface{}, s *c12Stream) bool {
	switch v := st.(type) {
	case c12TStream:
		return v.c12Stream == s
	case *c12RStream:
		return v.c12Stream == s
	}
	return false
}

func (ctl *c12Ctl) runOp(th *c12Thread, op c12Op) {
	ctl.nops++
	th.curPkt = nil
	th.recycled = false
	if op.flush {
		switch {
		case ctl.pkg == "t" && op.age > 0:
			th.tasm.FlushOlderThan(ctl.ts.Add(time.Duration(op.age) * time.Second))
		case ctl.pkg == "t":
			th.tasm.FlushAll()
		case op.age > 0:
			th.rasm.FlushCloseOlderThan(ctl.ts.Add(time.Duration(op.age) * time.Second))
		default:
			th.rasm.FlushAll()
		}
		return
	}
	ts := ctl.ts.Add(time.Duration(op.pkt.ts) * time.Second)
	p := op.pkt
	th.curPkt = &p
	defer func() { th.curPkt = nil }()
	nf, tf := c12Flows(p.flow, p.dir)
	_ = tf
	tcp := &layers.TCP{Seq: p.seq, SYN: p.syn, FIN: p.fin}
	if p.dir == 0 {
		tcp.SrcPort, tcp.DstPort = 1000, 2000
	} else {
		tcp.SrcPort, tcp.DstPort = 2000, 1000
	}
	tcp.Payload = append([]byte(nil), p.bytes...)
	if ctl.pkg == "t" {
		th.tasm.AssembleWithTimestamp(nf, tcp, ts)
	} else {
		th.rasm.AssembleWithContext(nf, tcp, &c12Ctx{gopacket.CaptureInfo{Timestamp: ts}})
	}
}

func (ctl *c12Ctl) threadMain(th *c12Thread) {
	defer func() {
		if r := recover(); r != nil {
			th.panicked = true
			ctl.events = append(ctl.events, fmt.Sprintf("panic;t=%d", th.id))
			ctl.fail("C12:panic", fmt.Sprint(r))
			// locks recorded as held by a dead thread stay held (as they would in the real program)
			if ctl.pkg == "r" {
				// AssembleWithContext unlocks by defer; the notification ran as well
			}
		}
		th.done = true
		ctl.back <- c12Msg{tid: th.id, done: true}
	}()
	<-th.resume
	for i, op := range th.prog {
		if i > 0 {
			th.site = "op.start"
			ctl.back <- c12Msg{tid: th.id}
			<-th.resume
			th.site = ""
		}
		ctl.runOp(th, op)
	}
}

func (ctl *c12Ctl) enabled(th *c12Thread) bool {
	if th.done {
		return false
	}
	if th.site == "conn.lock" {
		_, held := ctl.owner[th.want]
		return !held
	}
	return true
}

func (ctl *c12Ctl) enabledSet() []int {
	var e []int
	for _, th := range ctl.threads {
		if ctl.enabled(th) {
			e = append(e, th.id)
		}
	}
	return e
}

// one step of thread t; false when the thread did not come back in time
func (ctl *c12Ctl) step(t int) bool {
	th := ctl.threads[t]
	ctl.cur = t
	if !th.started {
		th.started = true
		go ctl.threadMain(th)
	}
	if th.site == "conn.lock" {
		_, c, closed := ctl.connInfoOf(th.want)
		_ = c
		if closed {
			ctl.tags["close-between-lookup-and-lock"] = true
		}
		if ctl.connLocked(th.want) {
			ctl.fail("C12:harness-lock-tracking", "a connection mutex is held although no thread is recorded as its owner")
		}
		if th.recycled && !closed {
			ctl.tainted[th.want] = true // a packet of the old connection is about to be processed on the reused object
		}
	}
	th.resume <- struct{}{}
	if _, ok := recvBusyAware(ctl.back, 5*time.Second); !ok {
		return false
	}
	ctl.checkPool()
	return true
}

func (ctl *c12Ctl) connLocked(obj interface{}) bool {
	if ctl.pkg == "t" {
		return tcpassembly.VerifConnLocked(obj)
	}
	return reassembly.VerifConnLocked(obj)
}

func (ctl *c12Ctl) connInfoOf(obj interface{}) (string, interface{}, bool) { return ctl.connInfo(obj) }

// C12:one-entry on the real pool, after every step
func (ctl *c12Ctl) checkPool() {
	type ent struct {
		key  string
		conn interface{}
	}
	var ents []ent
	var free []interface{}
	if ctl.pkg == "t" {
		es, f := tcpassembly.VerifPoolState(ctl.tpool)
		for _, e := range es {
			ents = append(ents, ent{c12KeyName(e.Net, e.Transport), e.Conn})
		}
		free = f
	} else {
		es, f := reassembly.VerifPoolState(ctl.rpool)
		for _, e := range es {
			ents = append(ents, ent{c12KeyName(e.Net, e.Transport), e.Conn})
		}
		free = f
	}
	seenConn := map[interface{}]string{}
	keys := map[string]bool{}
	for _, e := range ents {
		keys[e.key] = true
		if k0, dup := seenConn[e.conn]; dup {
			ctl.fail("C12:one-entry", fmt.Sprintf("one connection object under keys %s and %s", k0, e.key))
		}
		seenConn[e.conn] = e.key
		ck, st, _ := ctl.connInfo(e.conn)
		if ck != e.key {
			ctl.fail("C12:one-entry", fmt.Sprintf("entry %s holds a connection whose key is %s", e.key, ck))
		}
		for _, s := range ctl.streams {
			if ctl.streamIs(st, s) {
				ctl.kept[s.id] = true
			}
		}
	}
	if ctl.pkg == "r" {
		for k := range keys {
			rev := k[:1] + string('0'+('1'-k[1]))
			if keys[rev] {
				ctl.fail("C12:one-entry", fmt.Sprintf("both directions %s and %s have their own entry", k, rev))
			}
		}
	}
	// the free list: objects the harness has seen (others were never handed out)
	var seenFree []interface{}
	for _, f := range free {
		if _, known := ctl.connID[f]; !known {
			continue
		}
		for _, g := range seenFree {
			if g == f {
				ctl.fail("C12:one-entry", "a connection object is twice in the free list")
			}
		}
		seenFree = append(seenFree, f)
		if k, in := seenConn[f]; in {
			ctl.fail("C12:one-entry", fmt.Sprintf("the connection of %s is also in the free list", k))
		}
	}
}

func (ctl *c12Ctl) finalLine(status string) string {
	var conns []string
	var free []interface{}
	if ctl.pkg == "t" {
		es, f := tcpassembly.VerifPoolState(ctl.tpool)
		free = f
		for _, e := range es {
			_, st, _ := ctl.connInfo(e.Conn)
			conns = append(conns, fmt.Sprintf("%s:%d:%d", c12KeyName(e.Net, e.Transport), ctl.rank(e.Conn), ctl.streamID(st)))
		}
	} else {
		es, f := reassembly.VerifPoolState(ctl.rpool)
		free = f
		for _, e := range es {
			_, st, _ := ctl.connInfo(e.Conn)
			conns = append(conns, fmt.Sprintf("%s:%d:%d", c12KeyName(e.Net, e.Transport), ctl.rank(e.Conn), ctl.streamID(st)))
		}
	}
	sort.Strings(conns)
	var fr []string
	for i := len(free) - 1; i >= 0; i-- { // top of the stack first
		if id, ok := ctl.connID[free[i]]; ok {
			fr = append(fr, strconv.Itoa(id))
		}
	}
	return fmt.Sprintf("final=%s;conns=%s;free=%s", status, strings.Join(conns, ","), strings.Join(fr, ","))
}

func (ctl *c12Ctl) streamID(st interface{}) int {
	for _, s := range ctl.streams {
		if ctl.streamIs(st, s) {
			return s.id
		}
	}
	return -1
}

// tcpassembly assemblers of finished cases (each owns a 2 MB page cache), reused with VerifRebind
var c12AsmCache []*tcpassembly.Assembler

func (ctl *c12Ctl) addThread(prog []c12Op) *c12Thread {
	th := &c12Thread{id: len(ctl.threads), resume: make(chan struct{}), prog: prog}
	if ctl.pkg == "t" {
		if n := len(c12AsmCache); n > 0 {
			th.tasm, c12AsmCache = c12AsmCache[n-1], c12AsmCache[:n-1]
			th.tasm.VerifRebind(ctl.tpool)
		} else {
			th.tasm = tcpassembly.NewAssembler(ctl.tpool)
		}
	} else {
		th.rasm = reassembly.NewAssembler(ctl.rpool)
	}
	if len(prog) == 0 {
		th.done = true
	}
	ctl.threads = append(ctl.threads, th)
	return th
}

// c12Execute runs one case on the real code.  When record is set the enabled sets of the main
// phase are kept (for the exhaustive enumeration of schedules).
func c12Execute(p c12Case, record bool) (*c12Ctl, string) {
	ctl := &c12Ctl{pkg: p.pkg, back: make(chan c12Msg), owner: map[interface{}]int{}, connID: map[interface{}]int{},
		tags: map[string]bool{}, kept: map[int]bool{}, evicted: map[int]bool{}, trailEvicted: map[int]bool{}, tainted: map[interface{}]bool{}, dirBytes: map[string][]byte{},
		ts: time.Unix(1700000000, 0)}
	if p.pkg == "t" {
		ctl.tpool = tcpassembly.NewStreamPool(c12TFactory{ctl})
	} else {
		ctl.rpool = reassembly.NewStreamPool(c12RFactory{ctl})
	}
	for _, prog := range p.progs {
		ctl.addThread(prog)
	}
	tcpassembly.VerifSetController(ctl.hook, ctl.rank)
	reassembly.VerifSetController(ctl.hook, ctl.rank)
	defer tcpassembly.VerifSetController(nil, nil)
	defer reassembly.VerifSetController(nil, nil)

	status := ""
	steps := 0
	livelock := false
	runRest := func() bool {
		for {
			e := ctl.enabledSet()
			if len(e) == 0 {
				return true
			}
			if steps++; steps > c12MaxSteps {
				livelock = true
				return true
			}
			if record {
				ctl.trace = append(ctl.trace, e)
				ctl.chosen = append(ctl.chosen, e[0])
			}
			if !ctl.step(e[0]) {
				return false
			}
		}
	}
	ok := true
	for _, t := range p.sched {
		if t < 0 || t >= len(ctl.threads) || !ctl.enabled(ctl.threads[t]) {
			continue
		}
		if record {
			ctl.trace = append(ctl.trace, ctl.enabledSet())
			ctl.chosen = append(ctl.chosen, t)
		}
		if steps++; steps > c12MaxSteps {
			break
		}
		if !ctl.step(t) {
			ok = false
			break
		}
	}
	if ok {
		ok = runRest()
	}
	allDone := true
	for _, th := range ctl.threads {
		if !th.done {
			allDone = false
		}
	}
	switch {
	case !ok:
		status = "hang"
		ctl.fail("C12:stuck", "a thread did not reach its next yield point within 5 s")
	case livelock:
		status = "fuel"
		ctl.fail("C12:stuck", fmt.Sprintf("no termination within %d steps (livelock)", c12MaxSteps))
	case !allDone:
		status = "stuck"
		ctl.fail("C12:stuck", "threads remain but none can step")
	default:
		record = false
		ctl.addThread([]c12Op{{flush: true}})
		if runRest() {
			status = "done"
			if livelock {
				status = "fuel"
				ctl.fail("C12:stuck", fmt.Sprintf("no termination within %d steps (livelock)", c12MaxSteps))
			} else if !ctl.threads[len(ctl.threads)-1].done {
				status = "stuck"
				ctl.fail("C12:stuck", "the final FlushAll cannot step")
			}
		} else {
			status = "hang"
			ctl.fail("C12:stuck", "the final FlushAll did not reach its next yield point within 5 s")
		}
	}
	if status == "done" {
		for _, th := range ctl.threads {
			if th.tasm != nil {
				c12AsmCache = append(c12AsmCache, th.tasm)
			}
		}
	}
	return ctl, status
}

func (c12) Run(c Case) Result {
	p, err := c12Parse(c)
	if err != nil {
		return Result{Obs: []string{"parse-error"}, Oracle: []string{"harness-parse\t" + err.Error()}}
	}
	if p.race > 0 {
		return c12RaceRun(p)
	}
	ctl, status := c12Execute(p, false)
	var res Result
	res.Obs = append(res.Obs, ctl.events...)
	res.Obs = append(res.Obs, ctl.finalLine(status))
	// C12:complete-once
	for _, s := range ctl.streams {
		if s.completes > 1 {
			ctl.fail("C12:complete-once", fmt.Sprintf("stream %d of %s completed %d times", s.id, s.key, s.completes))
		}
		if status == "done" && ctl.kept[s.id] && s.completes != 1 {
			how := "its pool entry was never deleted by another object's remove"
			if ctl.trailEvicted[s.id] {
				how = "the pool entry of its open connection was deleted by the second remove(conn) that reassembly's FlushWithOptions makes after releasing the connection lock"
			} else if ctl.evicted[s.id] {
				how = "its pool entry was deleted by the remove of a recycled connection object that carried the same key"
			}
			ctl.fail("C12:complete-once", fmt.Sprintf("stream %d of %s was in the pool and is completed %d times after the final FlushAll; %s", s.id, s.key, s.completes, how))
		}
	}
	// C12:inorder: a direction fed in increasing order by one assembler is delivered in that order
	for k, feeders := range c12Feeders(p) {
		if len(feeders) != 1 {
			continue
		}
		b := ctl.dirBytes[k]
		for i := 1; i < len(b); i++ {
			if b[i]&7 <= b[i-1]&7 {
				ctl.fail("C12:inorder", fmt.Sprintf("direction %s fed in order by thread %d delivered %s", k, feeders[0], hex.EncodeToString(b)))
				break
			}
		}
	}
	for t := range ctl.tags {
		res.Tags = append(res.Tags, t)
	}
	res.Oracle = ctl.oracle
	return res
}

// directions whose data packets all come from one thread, in increasing payload index order
func c12Feeders(p c12Case) map[string][]int {
	out := map[string][]int{}
	last := map[string]int{}
	bad := map[string]bool{}
	for t, prog := range p.progs {
		for _, op := range prog {
			if op.flush || len(op.pkt.bytes) == 0 {
				continue
			}
			k := fmt.Sprintf("%c%d", 'a'+op.pkt.flow, op.pkt.dir)
			f := out[k]
			if len(f) == 0 || f[len(f)-1] != t {
				out[k] = append(f, t)
			}
			idx := int(op.pkt.bytes[0] & 7)
			if l, ok := last[k]; ok && idx <= l {
				bad[k] = true
			}
			last[k] = int(op.pkt.bytes[len(op.pkt.bytes)-1] & 7)
		}
	}
	for k := range bad {
		out[k] = nil
	}
	return out
}

// ---------------------------------------------------------------- generators
const c12ISN = 1000

// bound on the number of steps of one execution (a correct run of the largest generated case
// takes a few hundred)
const c12MaxSteps = 3000

func c12Payload(flow, dir, idx, n int) string {
	b := make([]byte, n)
	for i := range b {
		b[i] = byte((flow+1)<<4 | dir<<3 | (idx+i)&7)
	}
	return hex.EncodeToString(b)
}

// the packets of one direction: SYN at ISN, nd data segments of 2 bytes at ISN+1+2i, FIN after them
func c12DirPackets(flow, dir, nd int, syn, fin bool) []string {
	var out []string
	k := fmt.Sprintf("%c%d", 'a'+flow, dir)
	if syn {
		out = append(out, fmt.Sprintf("%sS.%d.", k, c12ISN))
	}
	for i := 0; i < nd; i++ {
		out = append(out, fmt.Sprintf("%s-.%d.%s", k, c12ISN+1+2*i, c12Payload(flow, dir, 2*i, 2)))
	}
	if fin {
		out = append(out, fmt.Sprintf("%sF.%d.", k, c12ISN+1+2*nd))
	}
	return out
}

func c12MkCase(id, pkg string, progs [][]string, sched []int) Case {
	ops := []string{"pkg:" + pkg}
	for i, pr := range progs {
		ops = append(ops, fmt.Sprintf("th:%d:%s", i, strings.Join(pr, ",")))
	}
	ss := make([]string, len(sched))
	for i, t := range sched {
		ss[i] = strconv.Itoa(t)
	}
	ops = append(ops, "sched:"+strings.Join(ss, ","))
	return Case{ID: id, Prop: "C12", Ops: ops}
}

// a random workload: nthr assemblers, the packets of a few directions dealt to them
func c12RandomWorkload(rng *rand.Rand, pkg string, nthr int) [][]string {
	progs := make([][]string, nthr)
	nflows := 1 + rng.Intn(2)
	style := rng.Intn(4)
	for f := 0; f < nflows; f++ {
		for d := 0; d < 2; d++ {
			if d == 1 && rng.Intn(4) == 0 {
				continue
			}
			nd := rng.Intn(3)
			pk := c12DirPackets(f, d, nd, rng.Intn(8) != 0, rng.Intn(3) != 0)
			if len(pk) > 3 {
				pk = append(pk[:2], pk[len(pk)-1])
			}
			switch style {
			case 0: // one assembler per direction
				t := (2*f + d) % nthr
				progs[t] = append(progs[t], pk...)
			case 1: // each packet to a random assembler
				for _, x := range pk {
					t := rng.Intn(nthr)
					progs[t] = append(progs[t], x)
				}
			default: // mostly one assembler per direction, the last packet elsewhere
				t := rng.Intn(nthr)
				for i, x := range pk {
					if i == len(pk)-1 && rng.Intn(2) == 0 {
						progs[rng.Intn(nthr)] = append(progs[rng.Intn(nthr)], x)
						continue
					}
					progs[t] = append(progs[t], x)
				}
			}
		}
	}
	// re-open a closed connection / another flow after a close, so that objects are recycled
	if rng.Intn(2) == 0 {
		t := rng.Intn(nthr)
		f := rng.Intn(nflows + 1)
		progs[t] = append(progs[t], c12DirPackets(f, rng.Intn(2), rng.Intn(2), true, rng.Intn(2) == 0)...)
	}
	if rng.Intn(5) == 0 {
		t := rng.Intn(nthr)
		progs[t] = append(progs[t], "fl")
	}
	// capture timestamps 1..6 s; an age-based flusher (FlushOlderThan / FlushCloseOlderThan) somewhere
	for t := range progs {
		np := make([]string, len(progs[t])) // fresh slices: the programs above may share backing arrays
		for i, op := range progs[t] {
			np[i] = op
			if op != "fl" {
				np[i] = fmt.Sprintf("%s.%d", op, 1+rng.Intn(6))
			}
		}
		progs[t] = np
	}
	if rng.Intn(3) == 0 {
		t := rng.Intn(nthr)
		at := rng.Intn(len(progs[t]) + 1)
		fo := fmt.Sprintf("fo%d", 2+rng.Intn(7))
		progs[t] = append(progs[t][:at], append([]string{fo}, progs[t][at:]...)...)
	}
	for t := range progs {
		if len(progs[t]) > 7 {
			progs[t] = progs[t][:7]
		}
	}
	return progs
}

func c12RandomSched(rng *rand.Rand, nthr, n int) []int {
	s := make([]int, n)
	burst := rng.Intn(3)
	cur := rng.Intn(nthr)
	for i := range s {
		if burst == 0 || rng.Intn(burst+1) == 0 {
			cur = rng.Intn(nthr)
		}
		s[i] = cur
	}
	return s
}

// all schedules of a workload by depth-first enumeration on the real code (stateless search:
// every schedule is a fresh execution); at most max schedules
func c12AllSchedules(pkg string, progs [][]string, max int, emit func(sched []int)) int {
	var cs c12Case
	c := c12MkCase("", pkg, progs, nil)
	cs, _ = c12Parse(c)
	n := 0
	var explore func(prefix []int)
	explore = func(prefix []int) {
		if n >= max {
			return
		}
		cs.sched = prefix
		ctl, _ := c12Execute(cs, true)
		n++
		full := append([]int(nil), ctl.chosen...)
		emit(full)
		for i := len(prefix); i < len(full); i++ {
			for _, t := range ctl.trace[i] {
				if t != full[i] {
					np := append(append([]int(nil), full[:i]...), t)
					explore(np)
				}
			}
		}
	}
	explore(nil)
	return n
}

// Directed schedules for the two narrow windows a random schedule rarely hits.
func c12Directed(rng *rand.Rand) []Case {
	var cases []Case
	rep := func(t, n int) []int {
		s := make([]int, n)
		for i := range s {
			s[i] = t
		}
		return s
	}
	cat := func(parts ...[]int) []int {
		var s []int
		for _, p := range parts {
			s = append(s, p...)
		}
		return s
	}
	// (1) close between snapshot and lock: a flusher takes its snapshot of the pool at every point of
	// assembler 0's progress, assembler 0 then runs to the end (closing the connection while an
	// out-of-order page is still queued), and only then does the flusher lock the connection.
	closers := map[string][][]string{
		"t": {
			{"a0S.1000..1", "a0-.1003.1213.1", "a0F.1001..2"},                    // in-order FIN, page [1003,1005) queued
			{"a0S.1000..1", "a0F.1003..1", "a0-.1001.1011.2"},                    // queued FIN page pulled in by the data: End
			{"a0S.1000..1", "a0-.1005.1415.1", "a0-.1003.1213.1", "a0F.1001..2"}, // two pages queued behind the hole
		},
		"r": {
			{"a0S.1000..1", "a1S.1000..1", "a0-.1003.1213.1", "a0F.1001..2", "a1F.1001..2"},
			{"a0S.1000..1", "a0-.1003.1213.1", "a1S.1000..1", "a1F.1001..2", "a0F.1001..2"},
		},
	}
	for _, pkg := range []string{"t", "r"} {
		for wi, a := range closers[pkg] {
			for _, fl := range []string{"fo10", "fl", "fo2"} {
				progs := [][]string{a, {fl, "b0S.1000..3"}}
				for i := 0; i <= 3*len(a)+2; i++ {
					cases = append(cases, c12MkCase(fmt.Sprintf("C12-dir-snap-%s-%d-%s-%d", pkg, wi, fl, i), pkg, progs,
						cat(rep(0, i), rep(1, 1), rep(0, 40), rep(1, 20))))
				}
			}
		}
	}
	// (2) lose the lookup race twice: assembler 1's single packet looks the connection up, finds it closed
	// when it gets the lock, looks up again, obtains the successor and that one is closed, too.
	twice := [][]string{{"a0S.1000..1", "a0-.1003.1213.1", "a0F.1001..1", "a0S.1000..2", "a0F.1001..2"}, {"a0-.1001.1011.3"}}
	twiceFin := [][]string{{"a0S.1000..1", "a0F.1001..1", "a0S.1000..2", "a0-.1003.1213.2", "a0F.1001..2"}, {"a0F.1001..3"}}
	for wi, progs := range [][][]string{twice, twiceFin} {
		n := 3*len(progs[0]) + 2
		for i := 3; i < n; i++ {
			for j := i; j < n; j++ {
				for k := j; k < n; k++ {
					for _, pkg := range []string{"t", "r"} {
						if pkg == "r" && (i+j+k)%5 != 0 {
							continue
						}
						cases = append(cases, c12MkCase(fmt.Sprintf("C12-dir-twice-%s-%d-%d-%d-%d", pkg, wi, i, j, k), pkg, progs,
							cat(rep(0, i), rep(1, 1), rep(0, j-i), rep(1, 1), rep(0, k-j), rep(1, 1), rep(0, 40), rep(1, 20))))
					}
				}
			}
		}
	}
	// the same with three assemblers: the successor connection is made and closed by a third one
	three := [][]string{{"a0S.1000..1", "a0-.1003.1213.1", "a0F.1001..1"}, {"a0-.1001.1011.3"}, {"a0S.1000..2", "a0F.1001..2", "a0S.1000..3"}}
	for i := 0; i < 150; i++ {
		pkg := "t"
		if i%5 == 4 {
			pkg = "r"
		}
		// thread 0 until its FIN is being processed, then bursts of 1 and 2
		s := cat(rep(0, 6+rng.Intn(5)), rep(1, 1), rep(0, 1+rng.Intn(4)))
		for len(s) < 40 {
			s = append(s, rep(1+rng.Intn(2), 1+rng.Intn(4))...)
		}
		cases = append(cases, c12MkCase(fmt.Sprintf("C12-dir-three-%d", i), pkg, three, s))
	}
	return cases
}

func (c12) Gen(rng *rand.Rand, tier string) []Case {
	var cases []Case
	cases = append(cases, c12Directed(rng)...)
	nrand := 300
	if tier == "thorough" {
		nrand = 3000
	}
	for i := 0; i < nrand; i++ {
		pkg := "t"
		if i%2 == 1 {
			pkg = "r"
		}
		nthr := 2 + rng.Intn(2)
		progs := c12RandomWorkload(rng, pkg, nthr)
		cases = append(cases, c12MkCase(fmt.Sprintf("C12-rnd-%d", i), pkg, progs, c12RandomSched(rng, nthr, 10+rng.Intn(40))))
	}
	if tier == "thorough" {
		// exhaustive: every schedule of 2 assemblers over small packet sets, at most 6000 schedules per workload
		work := []struct {
			name  string
			progs [][]string
		}{
			{"bothdir", [][]string{{"a0S.1000.", "a0-.1001.1011"}, {"a1S.1000.", "a1-.1001.1819"}}},
			{"closerecycle", [][]string{{"a0S.1000.", "a0F.1001.", "b0S.1000."}, {"a0-.1001.1011"}}},
			{"samedir", [][]string{{"a0S.1000.", "a0-.1003.1213"}, {"a0-.1001.1011", "a0F.1005."}}},
			{"flusher", [][]string{{"a0S.1000.", "a0-.1001.1011", "b0S.1000."}, {"fl", "a0-.1003.1213"}}},
			{"ageflusher", [][]string{{"a0S.1000..1", "a0-.1003.1213.1", "a0F.1001..2"}, {"fo10", "a0S.1000..3"}}},
		}
		for _, w := range work {
			for _, pkg := range []string{"t", "r"} {
				k := 0
				c12AllSchedules(pkg, w.progs, 6000, func(sched []int) {
					cases = append(cases, c12MkCase(fmt.Sprintf("C12-all-%s-%s-%d", w.name, pkg, k), pkg, w.progs, sched))
					k++
				})
			}
		}
		cases = append(cases, Case{ID: "C12-race", Prop: "C12", Ops: []string{"race:200"}})
	}
	return cases
}

// ---------------------------------------------------------------- -race support run
// c12RaceRun builds harness/cmd/c12race with -race and lets the same kinds of workloads run freely;
// every distinct pair of racing functions is one oracle line.  Testing, not proof.
func c12RaceRun(p c12Case) Result {
	var res Result
	root, _ := os.Getwd()
	dir := filepath.Join(root, "harness")
	exe := filepath.Join(dir, "bin", "c12race")
	mod := filepath.Join(dir, "bin", "go.mod")
	build := exec.Command("go", "build", "-race", "-modfile", mod, "-tags", "verif", "-o", exe, "./cmd/c12race")
	build.Dir = dir
	if out, err := build.CombinedOutput(); err != nil {
		res.Obs = []string{"race-build-failed"}
		res.Oracle = []string{"harness-race-build\t" + strings.ReplaceAll(string(out), "\n", " | ")}
		return res
	}
	cmd := exec.Command(exe, strconv.Itoa(p.race))
	cmd.Env = append(os.Environ(), "GORACE=halt_on_error=0 history_size=2")
	out, _ := cmd.CombinedOutput()
	reports := strings.Split(string(out), "WARNING: DATA RACE")
	seen := map[string]bool{}
	for _, r := range reports[1:] {
		fns := map[string]bool{}
		for _, blk := range strings.Split(r, "\n\n") {
			lines := strings.Split(strings.TrimSpace(blk), "\n")
			if len(lines) < 2 || !(strings.HasPrefix(lines[0], "Write at") || strings.HasPrefix(lines[0], "Read at") ||
				strings.HasPrefix(lines[0], "Previous write at") || strings.HasPrefix(lines[0], "Previous read at")) {
				continue
			}
			fn := strings.TrimSpace(lines[1])
			if i := strings.LastIndex(fn, "("); i > 0 {
				fn = fn[:i]
			}
			fn = strings.TrimPrefix(fn, "github.com/gopacket/gopacket/")
			fns[fn] = true
		}
		var l []string
		for f := range fns {
			l = append(l, f)
		}
		sort.Strings(l)
		key := strings.Join(l, " vs ")
		if key != "" && !seen[key] {
			seen[key] = true
			res.Oracle = append(res.Oracle, "C12:race\t"+key)
		}
	}
	res.Obs = []string{fmt.Sprintf("race-run;reports=%d", len(reports)-1)}
	res.Tags = []string{"race-support-run"}
	return res
}
