package main

import (
	"encoding/hex"
	"fmt"
	"math/rand"
	"net"
	"sort"
	"strconv"
	"strings"
	"time"

	"github.com/gopacket/gopacket/ip4defrag"
	"github.com/gopacket/gopacket/ip6defrag"
	"github.com/gopacket/gopacket/layers"
)

// C13: IP defragmentation.
//
// Ops (one defragmenter of each family per case):
//
//	f4:src,dst,id,ihl,len,flags,off,ts,ttl,proto,tos,opthex,plhex   DefragIPv4WithTimestamp
//	d4:ts                                                            DiscardOlderThan (v4)
//	f6:src,dst,id,off,more,nh,tc,flow,hl,plhex                       DefragIPv6
//	d6:k                                                             DiscardOlderThan (v6) k=0: the epoch, k=1: far future
//
// Observations: r=none | r=err | r=panic | r=pass | r=dg;<fields> | r=discard;n=<count>
type c13 struct{}

func init() { register("C13", c13{}) }

// ---------------------------------------------------------------- fragments as data

type c13f4 struct {
	src, dst            uint32
	id, ihl, length     int
	flags, off          int
	ts                  int64
	ttl, proto, tos     int
	opt, pl             []byte
	passthrough, reject bool // by the reference reading of RFC 791 / the documented checks
	overLimit           bool // FragOffset above the implementation's limit 8183 (RFC 791 allows up to 8191)
}

func (f c13f4) op() string {
	return fmt.Sprintf("f4:%d,%d,%d,%d,%d,%d,%d,%d,%d,%d,%d,%s,%s", f.src, f.dst, f.id, f.ihl, f.length, f.flags, f.off,
		f.ts, f.ttl, f.proto, f.tos, hex.EncodeToString(f.opt), hex.EncodeToString(f.pl))
}

func c13parse4(arg string) (c13f4, error) {
	a := strings.Split(arg, ",")
	if len(a) != 13 {
		return c13f4{}, fmt.Errorf("f4 needs 13 args, got %d", len(a))
	}
	n := make([]int64, 11)
	for i := 0; i < 11; i++ {
		v, err := strconv.ParseInt(a[i], 10, 64)
		if err != nil {
			return c13f4{}, err
		}
		n[i] = v
	}
	opt, err := hex.DecodeString(a[11])
	if err != nil {
		return c13f4{}, err
	}
	pl, err := hex.DecodeString(a[12])
	if err != nil {
		return c13f4{}, err
	}
	f := c13f4{src: uint32(n[0]), dst: uint32(n[1]), id: int(n[2]), ihl: int(n[3]), length: int(n[4]), flags: int(n[5]),
		off: int(n[6]), ts: n[7], ttl: int(n[8]), proto: int(n[9]), tos: int(n[10]), opt: opt, pl: pl}
	f.passthrough = f.flags&2 != 0 || (f.flags&1 == 0 && f.off == 0)
	// the documented checks, in exact arithmetic
	fs := f.length - 4*f.ihl
	f.overLimit = f.off > 8183
	f.reject = (f.flags&1 != 0 && fs < 8) || f.off > 8191 || f.off*8+f.length > 65535 || fs < 0
	return f, nil
}

func c13ip4(v uint32) net.IP { return net.IP{byte(v >> 24), byte(v >> 16), byte(v >> 8), byte(v)} }
func c13ip6(v uint32) net.IP {
	ip := make(net.IP, 16)
	ip[0], ip[1] = 0x20, 0x01
	ip[12], ip[13], ip[14], ip[15] = byte(v>>24), byte(v>>16), byte(v>>8), byte(v)
	return ip
}
func c13ipval(ip net.IP) uint32 {
	if len(ip) < 4 {
		return 0
	}
	b := ip[len(ip)-4:]
	return uint32(b[0])<<24 | uint32(b[1])<<16 | uint32(b[2])<<8 | uint32(b[3])
}

func c13layer4(f c13f4) *layers.IPv4 {
	ip := &layers.IPv4{
		Version: 4, IHL: uint8(f.ihl), TOS: uint8(f.tos), Length: uint16(f.length), Id: uint16(f.id),
		Flags: layers.IPv4Flag(f.flags), FragOffset: uint16(f.off), TTL: uint8(f.ttl), Protocol: layers.IPProtocol(f.proto),
		SrcIP: c13ip4(f.src), DstIP: c13ip4(f.dst),
	}
	if len(f.opt) > 0 {
		// the option bytes are opaque to the defragmenter: one option carrying them verbatim
		o := layers.IPv4Option{OptionType: f.opt[0]}
		if len(f.opt) > 1 {
			o.OptionLength = f.opt[1]
			o.OptionData = append([]byte{}, f.opt[2:]...)
		}
		ip.Options = []layers.IPv4Option{o}
	}
	ip.Payload = append([]byte{}, f.pl...)
	return ip
}

func c13optHex(os []layers.IPv4Option) string {
	var b []byte
	for _, o := range os {
		b = append(b, o.OptionType)
		if o.OptionData != nil {
			b = append(b, o.OptionLength)
			b = append(b, o.OptionData...)
		}
	}
	return hex.EncodeToString(b)
}

type c13key struct {
	src, dst uint32
	id       int
}

// ---------------------------------------------------------------- running a case

type c13round struct {
	seen     map[int]bool // index (into the key's distinct fragment list) seen in this round
	presence int          // 0 absent, 1 present, 2 unknown
	times    []int64
}

func (c13) Run(c Case) Result {
	var res Result
	d4 := ip4defrag.NewIPv4Defragmenter()
	d6 := ip6defrag.NewIPv6Defragmenter()
	tags := map[string]bool{}

	// ---- pre-pass over the ops: which keys are "valid sets" (exact 8-aligned partition of one datagram)
	type keyinfo struct {
		frags    []c13f4 // distinct fragments (ignoring ts) in order of first appearance
		valid    bool
		original []byte
		count    int
	}
	keys4 := map[c13key]*keyinfo{}
	same4 := func(a, b c13f4) bool {
		return a.ihl == b.ihl && a.length == b.length && a.flags == b.flags && a.off == b.off && a.ttl == b.ttl &&
			a.proto == b.proto && a.tos == b.tos && string(a.opt) == string(b.opt) && string(a.pl) == string(b.pl)
	}
	var parsed4 []c13f4
	var opKinds []string
	for _, op := range c.Ops {
		name, arg, _ := strings.Cut(op, ":")
		opKinds = append(opKinds, name)
		if name != "f4" {
			parsed4 = append(parsed4, c13f4{})
			continue
		}
		f, err := c13parse4(arg)
		if err != nil {
			panic("bad op " + op + ": " + err.Error())
		}
		parsed4 = append(parsed4, f)
		if f.passthrough {
			continue
		}
		k := c13key{f.src, f.dst, f.id}
		ki := keys4[k]
		if ki == nil {
			ki = &keyinfo{}
			keys4[k] = ki
		}
		ki.count++
		dup := false
		for _, g := range ki.frags {
			if same4(f, g) {
				dup = true
				tags["duplicate"] = true
			}
		}
		if !dup {
			ki.frags = append(ki.frags, f)
		}
		if f.ihl > 5 {
			tags["options-header"] = true
		}
	}
	for _, ki := range keys4 {
		if ki.count > 8192 {
			tags["too-many"] = true
		}
		fr := append([]c13f4(nil), ki.frags...)
		sort.SliceStable(fr, func(i, j int) bool { return fr[i].off < fr[j].off })
		ok := len(fr) >= 1
		pos := 0
		var orig []byte
		for i, f := range fr {
			last := i == len(fr)-1
			if f.reject || f.ihl < 5 || f.ihl > 15 || len(f.opt) != 4*f.ihl-20 || f.length != 4*f.ihl+len(f.pl) || len(f.pl) == 0 ||
				f.off*8 != pos || f.flags&^1 != 0 || (f.flags&1 != 0) == last || (!last && len(f.pl)%8 != 0) ||
				f.ihl != fr[0].ihl || string(f.opt) != string(fr[0].opt) || f.ttl != fr[0].ttl || f.proto != fr[0].proto || f.tos != fr[0].tos {
				ok = false
				break
			}
			pos += len(f.pl)
			orig = append(orig, f.pl...)
		}
		if ok && 4*fr[0].ihl+pos > 65535 {
			ok = false
		}
		ki.valid, ki.original = ok, orig
		// structural tags
		for i := range fr {
			for j := i + 1; j < len(fr); j++ {
				a0, a1, b0, b1 := fr[i].off*8, fr[i].off*8+len(fr[i].pl), fr[j].off*8, fr[j].off*8+len(fr[j].pl)
				if a0 < b1 && b0 < a1 {
					tags["overlap"] = true
				}
			}
		}
		cov, hole := 0, false
		for _, f := range fr {
			if f.off*8 > cov {
				hole = true
			}
			if e := f.off*8 + len(f.pl); e > cov {
				cov = e
			}
		}
		if hole {
			tags["hole"] = true
		}
	}
	// interleaving / final-first
	firstSeen := map[c13key]int{}
	lastSeen := map[c13key]int{}
	for i, f := range parsed4 {
		if opKinds[i] != "f4" || f.passthrough {
			continue
		}
		k := c13key{f.src, f.dst, f.id}
		if _, ok := firstSeen[k]; !ok {
			firstSeen[k] = i
			if f.flags&1 == 0 && f.off > 0 {
				tags["out-of-order-final-first"] = true
			}
		}
		lastSeen[k] = i
	}
	for k, a := range firstSeen {
		for k2, b := range firstSeen {
			if k != k2 && ((b > a && b < lastSeen[k]) || (lastSeen[k2] > a && lastSeen[k2] < lastSeen[k])) {
				tags["other-key-interleaved"] = true
			}
		}
	}

	// ---- oracle state
	rounds := map[c13key]*c13round{}
	fed4 := map[c13key][]c13f4{} // every non-passthrough fragment handed over so far (safety oracle)
	// v6
	type f6rec struct {
		off  int
		pl   []byte
		more bool
	}
	fed6 := map[string][]f6rec{} // keyed by src>dst#id
	type k6info struct {
		frags []f6rec
		valid bool
		orig  []byte
	}
	keys6 := map[uint32]*k6info{}
	for _, op := range c.Ops {
		name, arg, _ := strings.Cut(op, ":")
		if name != "f6" {
			continue
		}
		a := strings.Split(arg, ",")
		id64, _ := strconv.ParseUint(a[2], 10, 32)
		off, _ := strconv.Atoi(a[3])
		pl, _ := hex.DecodeString(a[9])
		r := f6rec{off, pl, a[4] == "1"}
		ki := keys6[uint32(id64)]
		if ki == nil {
			ki = &k6info{}
			keys6[uint32(id64)] = ki
		}
		dup := false
		for _, g := range ki.frags {
			if g.off == r.off && g.more == r.more && string(g.pl) == string(r.pl) {
				dup = true
				tags["duplicate"] = true
			}
		}
		if !dup {
			ki.frags = append(ki.frags, r)
		}
	}
	for _, ki := range keys6 {
		fr := append([]f6rec(nil), ki.frags...)
		sort.SliceStable(fr, func(i, j int) bool { return fr[i].off < fr[j].off })
		ok, pos := len(fr) >= 2, 0
		var orig []byte
		for i, f := range fr {
			last := i == len(fr)-1
			if f.off*8 != pos || f.more == last || len(f.pl) == 0 || (!last && len(f.pl)%8 != 0) {
				ok = false
				break
			}
			pos += len(f.pl)
			orig = append(orig, f.pl...)
		}
		ki.valid, ki.orig = ok, orig
	}
	seen6 := map[uint32]map[int]bool{}
	done6 := map[uint32]bool{}
	srcs6 := map[uint32]map[string]bool{}

	fail := func(clause, detail string) { res.Oracle = append(res.Oracle, clause+"\t"+detail) }

	for step, op := range c.Ops {
		name, arg, _ := strings.Cut(op, ":")
		switch name {
		case "f4":
			f := parsed4[step]
			in := c13layer4(f)
			var out *layers.IPv4
			var err error
			panicked := false
			func() {
				defer func() {
					if r := recover(); r != nil {
						panicked = true
					}
				}()
				out, err = d4.DefragIPv4WithTimestamp(in, time.Unix(0, f.ts))
			}()
			k := c13key{f.src, f.dst, f.id}
			var obs string
			switch {
			case panicked:
				obs = "r=panic"
				fail("C13:panic", fmt.Sprintf("step %d: DefragIPv4WithTimestamp panicked", step))
			case err != nil:
				obs = "r=err"
			case out == nil:
				obs = "r=none"
			case out == in:
				obs = "r=pass"
			default:
				obs = fmt.Sprintf("r=dg;len=%d;flags=%d;off=%d;ihl=%d;id=%d;ttl=%d;proto=%d;tos=%d;src=%d;dst=%d;opt=%s;pl=%s",
					out.Length, out.Flags, out.FragOffset, out.IHL, out.Id, out.TTL, out.Protocol, out.TOS,
					c13ipval(out.SrcIP), c13ipval(out.DstIP), c13optHex(out.Options), hex.EncodeToString(out.Payload))
			}
			res.Obs = append(res.Obs, obs)
			kind := strings.SplitN(obs, ";", 2)[0][2:]
			// ---- oracle
			if f.passthrough {
				if kind != "pass" {
					fail("C13:passthrough", fmt.Sprintf("step %d: unfragmented/DF packet not returned unchanged (%s)", step, kind))
				}
				continue
			}
			if kind == "pass" {
				fail("C13:passthrough", fmt.Sprintf("step %d: a fragment was passed through", step))
			}
			if !f.reject {
				fed4[k] = append(fed4[k], f)
			}
			rd := rounds[k]
			if rd == nil {
				rd = &c13round{seen: map[int]bool{}}
				rounds[k] = rd
			}
			if kind == "dg" {
				// safety: every byte was placed at that offset by a fragment of this key handed over earlier
				if int(out.Length) != 4*int(out.IHL)+len(out.Payload) {
					fail("C13:length", fmt.Sprintf("step %d: Length=%d but 4*IHL+|payload|=%d", step, out.Length, 4*int(out.IHL)+len(out.Payload)))
				}
				if 4*int(out.IHL)+len(out.Payload) > 65535 {
					fail("C13:oversize", fmt.Sprintf("step %d: returned a datagram of %d header + %d payload bytes (> 65535), Length=%d", step, 4*int(out.IHL), len(out.Payload), out.Length))
				}
				if out.Flags != 0 || out.FragOffset != 0 {
					fail("C13:frag-fields", fmt.Sprintf("step %d: Flags=%d FragOffset=%d", step, out.Flags, out.FragOffset))
				}
				for x, b := range out.Payload {
					okb := false
					for _, g := range fed4[k] {
						if i := x - g.off*8; i >= 0 && i < len(g.pl) && g.pl[i] == b {
							okb = true
							break
						}
					}
					if !okb {
						fail("C13:safety", fmt.Sprintf("step %d: payload byte %d (=%02x) of the returned %d-byte datagram was placed there by no fragment", step, x, b, len(out.Payload)))
						break
					}
				}
			}
			ki := keys4[k]
			if ki != nil && ki.valid && rd.presence != 2 && f.overLimit && kind == "err" {
				// a fragment of a valid datagram refused because of its offset: RFC 791 allows offsets up to 8191
				fail("C13:offset-limit", fmt.Sprintf("step %d: fragment of a valid %d-byte datagram refused, FragOffset %d > 8183", step, len(ki.original), f.off))
				rd.presence = 2
			}
			if ki != nil && ki.valid && rd.presence != 2 {
				idx := -1
				for i, g := range ki.frags {
					if same4(f, g) {
						idx = i
					}
				}
				rd.seen[idx] = true
				if len(rd.seen) == len(ki.frags) {
					// the last missing fragment has arrived
					want := ki.original
					if kind != "dg" {
						fail("C13:complete", fmt.Sprintf("step %d: all %d fragments (ihl=%d) of the %d-byte datagram have arrived, got %s", step, len(ki.frags), f.ihl, len(want), kind))
					} else {
						if string(out.Payload) != string(want) {
							fail("C13:payload", fmt.Sprintf("step %d: payload differs from the original (%d vs %d bytes)", step, len(out.Payload), len(want)))
						}
						if int(out.IHL) != f.ihl || c13optHex(out.Options) != hex.EncodeToString(f.opt) || int(out.Id) != f.id ||
							int(out.TTL) != f.ttl || int(out.Protocol) != f.proto || int(out.TOS) != f.tos ||
							c13ipval(out.SrcIP) != f.src || c13ipval(out.DstIP) != f.dst {
							fail("C13:header", fmt.Sprintf("step %d: header fields of the datagram differ from the fragments'", step))
						}
					}
					rd.seen = map[int]bool{}
				} else if kind != "none" {
					fail("C13:early", fmt.Sprintf("step %d: %d of %d fragments have arrived, got %s", step, len(rd.seen), len(ki.frags), kind))
				}
			}
			// presence tracking for the discard oracle
			switch {
			case kind == "dg":
				rd.presence, rd.times = 0, nil
			case kind == "none":
				if rd.presence == 0 {
					rd.presence = 1
				}
				rd.times = append(rd.times, f.ts)
			case kind == "err" && (f.reject || f.overLimit):
				// rejected before any state is touched
			default:
				rd.presence = 2
				rd.times = append(rd.times, f.ts)
			}
		case "d4":
			ts, _ := strconv.ParseInt(arg, 10, 64)
			n := -1
			func() {
				defer func() { recover() }()
				n = d4.DiscardOlderThan(time.Unix(0, ts))
			}()
			res.Obs = append(res.Obs, fmt.Sprintf("r=discard;n=%d", n))
			lo, hi := 0, 0
			for _, rd := range rounds {
				if rd.presence == 0 || len(rd.times) == 0 {
					continue
				}
				all, some := true, false
				for _, t := range rd.times {
					if t < ts {
						some = true
					} else {
						all = false
					}
				}
				if all && rd.presence == 1 {
					lo++
				}
				if some {
					hi++
				}
				switch {
				case all:
					// forgotten (if it was there at all)
					rd.presence, rd.times = 0, nil
					rd.seen = map[int]bool{}
				case some:
					rd.presence = 2
				}
			}
			if n < lo || n > hi {
				fail("C13:discard", fmt.Sprintf("step %d: DiscardOlderThan(%d) returned %d, expected between %d and %d", step, ts, n, lo, hi))
			}
		case "f6":
			a := strings.Split(arg, ",")
			if len(a) != 10 {
				panic("bad op " + op)
			}
			num := func(i int) uint64 { v, _ := strconv.ParseUint(a[i], 10, 64); return v }
			pl, _ := hex.DecodeString(a[9])
			ip := &layers.IPv6{Version: 6, TrafficClass: uint8(num(6)), FlowLabel: uint32(num(7)), NextHeader: layers.IPProtocolIPv6Fragment,
				HopLimit: uint8(num(8)), SrcIP: c13ip6(uint32(num(0))), DstIP: c13ip6(uint32(num(1)))}
			fg := &layers.IPv6Fragment{NextHeader: layers.IPProtocol(num(5)), FragmentOffset: uint16(num(3)), MoreFragments: a[4] == "1",
				Identification: uint32(num(2))}
			fg.Payload = append([]byte{}, pl...)
			var out *layers.IPv6
			panicked := false
			func() {
				defer func() {
					if r := recover(); r != nil {
						panicked = true
					}
				}()
				out = d6.DefragIPv6(ip, fg)
			}()
			id := uint32(num(2))
			kind := "none"
			switch {
			case panicked:
				kind = "panic"
				res.Obs = append(res.Obs, "r=panic")
				fail("C13:panic", fmt.Sprintf("step %d: DefragIPv6 panicked", step))
			case out == nil:
				res.Obs = append(res.Obs, "r=none")
			default:
				kind = "dg"
				res.Obs = append(res.Obs, fmt.Sprintf("r=dg6;nh=%d;tc=%d;flow=%d;hl=%d;src=%d;dst=%d;pl=%s", out.NextHeader, out.TrafficClass,
					out.FlowLabel, out.HopLimit, c13ipval(out.SrcIP), c13ipval(out.DstIP), hex.EncodeToString(out.Payload)))
			}
			fk := a[0] + ">" + a[1] + "#" + a[2]
			fed6[fk] = append(fed6[fk], f6rec{int(num(3)), pl, a[4] == "1"})
			if srcs6[id] == nil {
				srcs6[id] = map[string]bool{}
			}
			srcs6[id][a[0]+">"+a[1]] = true
			if len(srcs6[id]) > 1 {
				tags["v6-same-id-other-flow"] = true
			}
			if kind == "dg" {
				for x, b := range out.Payload {
					okb := false
					for _, g := range fed6[fmt.Sprintf("%d>%d#%d", c13ipval(out.SrcIP), c13ipval(out.DstIP), id)] {
						if i := x - g.off*8; i >= 0 && i < len(g.pl) && g.pl[i] == b {
							okb = true
							break
						}
					}
					if !okb {
						// was it supplied by a fragment with this identification of another flow?
						mixed := false
						for fk, gs := range fed6 {
							if !strings.HasSuffix(fk, "#"+a[2]) {
								continue
							}
							for _, g := range gs {
								if i := x - g.off*8; i >= 0 && i < len(g.pl) && g.pl[i] == b {
									mixed = true
								}
							}
						}
						if mixed {
							fail("C13:v6-flow-mix", fmt.Sprintf("step %d: payload byte %d of the returned %d-byte datagram comes from a fragment of another (src,dst) with the same identification", step, x, len(out.Payload)))
						} else {
							fail("C13:v6-safety", fmt.Sprintf("step %d: payload byte %d of the returned %d-byte datagram was placed there by no fragment", step, x, len(out.Payload)))
						}
						break
					}
				}
			}
			if ki := keys6[id]; ki != nil && ki.valid && len(srcs6[id]) == 1 {
				if seen6[id] == nil {
					seen6[id] = map[int]bool{}
				}
				for i, g := range ki.frags {
					if g.off == int(num(3)) && g.more == (a[4] == "1") && string(g.pl) == string(pl) {
						seen6[id][i] = true
					}
				}
				if len(seen6[id]) == len(ki.frags) {
					if kind != "dg" {
						fail("C13:v6-complete", fmt.Sprintf("step %d: all %d fragments have arrived, got %s", step, len(ki.frags), kind))
					} else if string(out.Payload) != string(ki.orig) {
						fail("C13:v6-payload", fmt.Sprintf("step %d: payload differs from the original", step))
					}
					done6[id] = true
					seen6[id] = map[int]bool{}
				} else if kind != "none" && done6[id] {
					fail("C13:v6-redelivery", fmt.Sprintf("step %d: the datagram was already returned; %d of %d fragments have arrived since, got it again", step, len(seen6[id]), len(ki.frags)))
				} else if kind != "none" {
					fail("C13:v6-early", fmt.Sprintf("step %d: %d of %d fragments have arrived, got %s", step, len(seen6[id]), len(ki.frags), kind))
				}
			}
		case "d6":
			t := time.Unix(0, 0)
			if arg == "1" {
				t = time.Now().Add(24 * time.Hour)
			}
			n := -1
			func() {
				defer func() { recover() }()
				n = d6.DiscardOlderThan(t)
			}()
			res.Obs = append(res.Obs, fmt.Sprintf("r=discard;n=%d", n))
			if arg == "1" {
				seen6 = map[uint32]map[int]bool{}
				done6 = map[uint32]bool{}
			}
		default:
			panic("unknown op " + op)
		}
	}
	for t := range tags {
		res.Tags = append(res.Tags, t)
	}
	return res
}

// ---------------------------------------------------------------- generators

type c13gen struct {
	rng *rand.Rand
	ts  int64
}

func (g *c13gen) bytes(n int) []byte {
	b := make([]byte, n)
	g.rng.Read(b)
	return b
}

// partition cuts [0,n) at 8-aligned points into k pieces (k is reduced when n is small)
func (g *c13gen) partition(n, k int) [][2]int {
	units := (n + 7) / 8
	if k > units {
		k = units
	}
	cuts := map[int]bool{}
	for len(cuts) < k-1 {
		cuts[1+g.rng.Intn(units-1)] = true
	}
	var cs []int
	for c := range cuts {
		cs = append(cs, c)
	}
	sort.Ints(cs)
	var out [][2]int
	prev := 0
	for _, c := range cs {
		out = append(out, [2]int{prev * 8, c * 8})
		prev = c
	}
	out = append(out, [2]int{prev * 8, n})
	return out
}

// datagram makes the fragments of one valid datagram
func (g *c13gen) datagram(k c13key, ihl, n, pieces int) []c13f4 {
	opt := g.bytes(4*ihl - 20)
	if len(opt) > 0 {
		opt[0] = []byte{0x07, 0x44, 0x83, 0x89, 0x94}[g.rng.Intn(5)]
		opt[1] = byte(len(opt))
	}
	pl := g.bytes(n)
	ttl, proto, tos := 1+g.rng.Intn(255), []int{1, 6, 17, 47}[g.rng.Intn(4)], g.rng.Intn(256)
	var out []c13f4
	parts := g.partition(n, pieces)
	for i, p := range parts {
		fl := 1
		if i == len(parts)-1 {
			fl = 0
		}
		out = append(out, c13f4{src: k.src, dst: k.dst, id: k.id, ihl: ihl, length: 4*ihl + p[1] - p[0], flags: fl, off: p[0] / 8,
			ttl: ttl, proto: proto, tos: tos, opt: opt, pl: pl[p[0]:p[1]]})
	}
	return out
}

func (g *c13gen) key() c13key {
	return c13key{uint32(0x0a000000 + g.rng.Intn(4)), uint32(0x0a000100 + g.rng.Intn(3)), 1 + g.rng.Intn(5)}
}

func (g *c13gen) size() int {
	switch r := g.rng.Intn(100); {
	case r < 45:
		return 1 + g.rng.Intn(96)
	case r < 80:
		return 97 + g.rng.Intn(400)
	case r < 97:
		return 500 + g.rng.Intn(3000)
	default:
		return 60000 + g.rng.Intn(5456)
	}
}

// arrival turns the fragment sets of several keys into one interleaved op sequence:
// each set permuted, with duplicates, timestamps non-decreasing
func (g *c13gen) arrival(sets [][]c13f4, dupProb float64, finalFirst bool) []string {
	var seqs [][]c13f4
	for _, s := range sets {
		p := append([]c13f4(nil), s...)
		g.rng.Shuffle(len(p), func(i, j int) { p[i], p[j] = p[j], p[i] })
		if finalFirst && len(p) > 1 {
			for i := range p {
				if p[i].flags&1 == 0 {
					p[0], p[i] = p[i], p[0]
				}
			}
		}
		var q []c13f4
		for i, f := range p {
			q = append(q, f)
			for g.rng.Float64() < dupProb {
				q = append(q, p[g.rng.Intn(i+1)])
			}
		}
		seqs = append(seqs, q)
	}
	var ops []string
	for {
		var live []int
		for i, s := range seqs {
			if len(s) > 0 {
				live = append(live, i)
			}
		}
		if len(live) == 0 {
			break
		}
		i := live[g.rng.Intn(len(live))]
		f := seqs[i][0]
		seqs[i] = seqs[i][1:]
		g.ts += int64(g.rng.Intn(3))
		f.ts = g.ts
		ops = append(ops, f.op())
	}
	return ops
}

func (g *c13gen) distinctKeys(n int) []c13key {
	var ks []c13key
	for len(ks) < n {
		k := g.key()
		dup := false
		for _, x := range ks {
			if x == k {
				dup = true
			}
		}
		if !dup {
			ks = append(ks, k)
		}
	}
	return ks
}

func (g *c13gen) validCase(big bool) Case {
	nk := 1 + g.rng.Intn(4)
	ks := g.distinctKeys(nk)
	var sets [][]c13f4
	for i, k := range ks {
		ihl := 5
		if g.rng.Intn(2) == 0 {
			ihl = 5 + g.rng.Intn(11)
		}
		n := g.size()
		if big && i == 0 {
			n = 60000 + g.rng.Intn(5516)
		}
		if !big && n > 4000 {
			n = 1 + g.rng.Intn(4000)
		}
		if n > 65535-4*ihl {
			n = 65535 - 4*ihl
		}
		pieces := 1 + g.rng.Intn(9)
		if n > 60000 {
			pieces = 2 + g.rng.Intn(60)
		}
		fr := g.datagram(k, ihl, n, pieces)
		if i > 0 && g.rng.Intn(3) == 0 && len(fr) > 1 {
			// another key that stays partial
			fr = fr[:len(fr)-1]
		}
		sets = append(sets, fr)
	}
	dp := []float64{0, 0.15, 0.4}[g.rng.Intn(3)]
	ops := g.arrival(sets, dp, g.rng.Intn(4) == 0)
	// unfragmented and DF packets pass through
	for i := g.rng.Intn(3); i > 0; i-- {
		k := g.key()
		f := c13f4{src: k.src, dst: k.dst, id: k.id, ihl: 5, length: 20 + 12, flags: []int{0, 2, 3, 2}[g.rng.Intn(4)], off: 0, ts: g.ts, ttl: 64, proto: 17, pl: g.bytes(12)}
		if f.flags == 3 {
			f.off = g.rng.Intn(3)
		}
		at := g.rng.Intn(len(ops) + 1)
		ops = append(ops[:at], append([]string{f.op()}, ops[at:]...)...)
	}
	// a discard that forgets nothing (cut-off before everything) or everything (at the end)
	if g.rng.Intn(4) == 0 {
		at := g.rng.Intn(len(ops) + 1)
		ops = append(ops[:at], append([]string{"d4:0"}, ops[at:]...)...)
	}
	if g.rng.Intn(3) == 0 {
		ops = append(ops, fmt.Sprintf("d4:%d", g.ts+1))
	}
	return Case{Prop: "C13", Ops: ops}
}

// discardCase: partial datagrams of several keys, a cut-off in the middle, then the rest
func (g *c13gen) discardCase() Case {
	ks := g.distinctKeys(2 + g.rng.Intn(3))
	var ops []string
	var rest [][]c13f4
	var cut int64
	for _, k := range ks {
		fr := g.datagram(k, 5+g.rng.Intn(3), 24+g.rng.Intn(200), 2+g.rng.Intn(4))
		g.rng.Shuffle(len(fr), func(i, j int) { fr[i], fr[j] = fr[j], fr[i] })
		n := 1 + g.rng.Intn(len(fr)-1+1)
		if n >= len(fr) {
			n = len(fr) - 1
		}
		if n < 1 {
			n = 1
		}
		for _, f := range fr[:n] {
			g.ts += 1 + int64(g.rng.Intn(5))
			f.ts = g.ts
			ops = append(ops, f.op())
		}
		if g.rng.Intn(2) == 0 && cut == 0 {
			cut = g.ts + 1
		}
		rest = append(rest, fr)
	}
	if cut == 0 {
		cut = g.ts + 1
	}
	ops = append(ops, fmt.Sprintf("d4:%d", cut))
	g.ts += 10
	// after the discard every datagram is sent again in full
	ops = append(ops, g.arrival(rest, 0.1, false)...)
	ops = append(ops, fmt.Sprintf("d4:%d", g.ts+100))
	return Case{Prop: "C13", Ops: ops}
}

// hostile fragments over a small universe of offsets and lengths
func (g *c13gen) hostileCase() Case {
	k := g.key()
	ihl := 5
	if g.rng.Intn(3) == 0 {
		ihl = 5 + g.rng.Intn(4)
	}
	opt := g.bytes(4*ihl - 20)
	base := g.bytes(96) // the "true" content; conflicting fragments carry other bytes
	var ops []string
	n := 2 + g.rng.Intn(6)
	mk := func(off, ln, mf int, conflicting bool) c13f4 {
		pl := make([]byte, ln)
		for i := range pl {
			if off*8+i < len(base) && !conflicting {
				pl[i] = base[off*8+i]
			} else {
				pl[i] = byte(g.rng.Intn(256))
			}
		}
		g.ts++
		return c13f4{src: k.src, dst: k.dst, id: k.id, ihl: ihl, length: 4*ihl + ln, flags: mf, off: off, ts: g.ts, ttl: 9, proto: 17, opt: opt, pl: pl}
	}
	for i := 0; i < n; i++ {
		off := g.rng.Intn(7)
		ln := 8 * (1 + g.rng.Intn(4))
		mf := 1
		if g.rng.Intn(3) == 0 {
			mf = 0
			if g.rng.Intn(2) == 0 {
				ln = 1 + g.rng.Intn(20)
			}
		}
		f := mk(off, ln, mf, g.rng.Intn(4) == 0)
		switch g.rng.Intn(14) {
		case 0: // undersized non-final
			f.flags = 1
			if n := g.rng.Intn(8); n < len(f.pl) {
				f.pl = f.pl[:n]
			}
			f.length = 4*ihl + len(f.pl)
		case 1: // offset near the maximum
			f.off = 8180 + g.rng.Intn(6)
		case 2: // length field that makes offset+length wrap
			f.off = 8100 + g.rng.Intn(84)
			f.length = 600 + g.rng.Intn(64936)
			if g.rng.Intn(2) == 0 {
				f.pl = g.bytes(f.length - 4*ihl)
			}
		case 3: // Length smaller than the header
			f.length = g.rng.Intn(4 * ihl)
		case 4: // payload shorter than Length says (truncated capture)
			if len(f.pl) > 1 {
				f.pl = f.pl[:g.rng.Intn(len(f.pl))]
			}
		case 5: // payload longer than Length says
			f.pl = append(f.pl, g.bytes(1+g.rng.Intn(9))...)
		case 6: // non-final whose length is not a multiple of 8
			f.flags = 1
			f.pl = append(f.pl, g.bytes(1+g.rng.Intn(7))...)
			f.length = 4*ihl + len(f.pl)
		case 7: // other header length than its siblings
			f.ihl = 5 + g.rng.Intn(11)
			f.opt = g.bytes(4*f.ihl - 20)
			f.length = 4*f.ihl + len(f.pl)
		case 8:
			f.flags |= 4
		}
		ops = append(ops, f.op())
		if g.rng.Intn(5) == 0 {
			ops = append(ops, f.op())
		}
	}
	return Case{Prop: "C13", Ops: ops}
}

// allen: two or three fragments realising one interval relation, plus what is needed to make the
// counters agree (Highest == Current) so that build runs
func (g *c13gen) allenCases() []Case {
	var out []Case
	k := c13key{0x0a000001, 0x0a000101, 7}
	base := g.bytes(128)
	mk := func(a, b int, final, conflict bool, ihl int) c13f4 {
		pl := append([]byte(nil), base[a:b]...)
		if conflict {
			for i := range pl {
				pl[i] ^= 0x5a
			}
		}
		fl := 1
		if final {
			fl = 0
		}
		g.ts++
		return c13f4{src: k.src, dst: k.dst, id: k.id, ihl: ihl, length: 4*ihl + b - a, flags: fl, off: a / 8, ts: g.ts, ttl: 3, proto: 17,
			opt: make([]byte, 4*ihl-20), pl: pl}
	}
	// X = [16,48); Y ranges over intervals in every Allen relation to X; then fillers
	rel := [][2]int{{0, 8}, {0, 16}, {8, 32}, {16, 32}, {24, 40}, {32, 48}, {16, 48}, {8, 48}, {16, 56}, {8, 56}, {40, 64}, {48, 64}, {56, 72}}
	for _, r := range rel {
		for _, conflict := range []bool{false, true} {
			for variant := 0; variant < 6; variant++ {
				ihl := 5 + variant%2
				x := mk(16, 48, false, false, ihl)
				y := mk(r[0], r[1], false, conflict, ihl)
				fs := []c13f4{x, y}
				// fillers: head, tail (final) and sometimes a fragment that pads Current up to Highest
				fs = append(fs, mk(0, 16, false, false, ihl))
				end := 72 + 8*g.rng.Intn(3)
				if variant >= 2 {
					fs = append(fs, mk(end-8-8*g.rng.Intn(2), end, true, false, ihl))
				} else {
					fs = append(fs, mk(48, end, true, false, ihl))
				}
				if variant >= 4 {
					fs = append(fs, mk(8*g.rng.Intn(6), 48+8*g.rng.Intn(3), false, g.rng.Intn(2) == 0, ihl))
				}
				g.rng.Shuffle(len(fs), func(i, j int) { fs[i], fs[j] = fs[j], fs[i] })
				var ops []string
				for _, f := range fs {
					ops = append(ops, f.op())
				}
				out = append(out, Case{Prop: "C13", Ops: ops})
			}
		}
	}
	return out
}

// counterCase: hostile sets built so that Σlen == max end (the completion test of the code) although the
// set has an overlap and a hole of the same size
func (g *c13gen) counterCase() Case {
	k := g.key()
	ihl := 5 + g.rng.Intn(2)
	base := g.bytes(160)
	u := func() int { return 1 + g.rng.Intn(3) }
	a := u()     // [0,a)
	ov := 1 + g.rng.Intn(a) // overlap size (units)
	hole := ov
	b := u()
	// fragments (units): [0,a)  [a-ov, a)  then hole [a, a+hole) then [a+hole, a+hole+b) final
	type iv struct{ s, e int; final bool }
	ivs := []iv{{0, a, false}, {a - ov, a, false}, {a + hole, a + hole + b, true}}
	if g.rng.Intn(2) == 0 {
		// overlap hanging over the end of the first: [a-ov, a+x) with hole after
		ivs = []iv{{0, a, false}, {a - ov, a + 1, false}, {a + 1 + hole, a + 1 + hole + b, true}}
	}
	g.rng.Shuffle(len(ivs), func(i, j int) { ivs[i], ivs[j] = ivs[j], ivs[i] })
	var ops []string
	for _, v := range ivs {
		fl := 1
		if v.final {
			fl = 0
		}
		g.ts++
		f := c13f4{src: k.src, dst: k.dst, id: k.id, ihl: ihl, length: 4*ihl + 8*(v.e-v.s), flags: fl, off: v.s, ts: g.ts, ttl: 5, proto: 6,
			opt: make([]byte, 4*ihl-20), pl: base[8*v.s : 8*v.e]}
		ops = append(ops, f.op())
	}
	return Case{Prop: "C13", Ops: ops}
}

// tooMany: more than IPv4MaximumFragmentListLen fragments for one key
func (g *c13gen) tooManyCase(variant int) Case {
	k := g.key()
	var ops []string
	g.ts++
	first := c13f4{src: k.src, dst: k.dst, id: k.id, ihl: 5, length: 28, flags: 1, off: 0, ts: g.ts, ttl: 5, proto: 17, pl: g.bytes(8)}
	ops = append(ops, first.op())
	total := 8192 + g.rng.Intn(6)
	for i := 0; i < total; i++ {
		g.ts++
		var f c13f4
		if variant == 0 {
			// zero-length final fragments beyond a hole: each is appended to the list
			f = c13f4{src: k.src, dst: k.dst, id: k.id, ihl: 5, length: 20, flags: 0, off: 2, ts: g.ts, ttl: 5, proto: 17}
		} else {
			// 8-byte fragments at ascending offsets leaving a hole at [8,16)
			off := 2 + i
			if off > 8183 {
				off = 8183
			}
			f = c13f4{src: k.src, dst: k.dst, id: k.id, ihl: 5, length: 28, flags: 1, off: off, ts: g.ts, ttl: 5, proto: 17, pl: []byte{byte(i), 1, 2, 3, 4, 5, 6, byte(i >> 8)}}
			if off == 8183 {
				f.flags = 0
				f.length = 20
				f.pl = nil
			}
		}
		ops = append(ops, f.op())
	}
	// the key starts afresh afterwards
	fr := g.datagram(k, 5, 40, 3)
	for i := range fr {
		g.ts++
		fr[i].ts = g.ts
		ops = append(ops, fr[i].op())
	}
	return Case{Prop: "C13", Ops: ops}
}

// permCases: every arrival order of the fragments of one datagram with one duplicate at every position
func (g *c13gen) permCases(nfrag int, ihl int, withDup bool) []Case {
	var out []Case
	k := c13key{0x0a000002, 0x0a000102, 9}
	fr := g.datagram(k, ihl, 8*nfrag-3, nfrag)
	other := g.datagram(c13key{0x0a000002, 0x0a000102, 10}, 5, 24, 2)
	idx := make([]int, len(fr))
	for i := range idx {
		idx[i] = i
	}
	var rec func(int)
	emit := func(order []int) {
		var ops []string
		for i, j := range order {
			f := fr[j]
			f.ts = int64(i)
			ops = append(ops, f.op())
			if i == 0 {
				o := other[0]
				ops = append(ops, o.op())
			}
		}
		out = append(out, Case{Prop: "C13", Ops: ops})
	}
	rec = func(i int) {
		if i == len(idx) {
			if !withDup {
				emit(idx)
				return
			}
			// one duplicate of element d inserted right after position p >= position of d
			for p := 0; p < len(idx); p++ {
				for d := 0; d <= p; d++ {
					order := append([]int(nil), idx[:p+1]...)
					order = append(order, idx[d])
					order = append(order, idx[p+1:]...)
					emit(order)
				}
			}
			return
		}
		for j := i; j < len(idx); j++ {
			idx[i], idx[j] = idx[j], idx[i]
			rec(i + 1)
			idx[i], idx[j] = idx[j], idx[i]
		}
	}
	rec(0)
	return out
}

// ---- IPv6
func (g *c13gen) v6Case(hostile bool) Case {
	var ops []string
	nk := 1 + g.rng.Intn(3)
	type fr6 struct {
		src, dst, id, off, more, nh int
		pl                          []byte
	}
	var seqs [][]fr6
	usedID := map[int]bool{}
	for i := 0; i < nk; i++ {
		id := 1 + g.rng.Intn(1000)
		for usedID[id] {
			id++
		}
		usedID[id] = true
		n := 9 + g.rng.Intn(300)
		pl := g.bytes(n)
		parts := g.partition(n, 2+g.rng.Intn(6))
		src, dst := 1+g.rng.Intn(3), 10+g.rng.Intn(3)
		var s []fr6
		for j, p := range parts {
			more := 1
			if j == len(parts)-1 {
				more = 0
			}
			s = append(s, fr6{src, dst, id, p[0] / 8, more, 17, pl[p[0]:p[1]]})
		}
		g.rng.Shuffle(len(s), func(a, b int) { s[a], s[b] = s[b], s[a] })
		if hostile {
			switch g.rng.Intn(5) {
			case 0: // hole
				if len(s) > 2 {
					s = s[:len(s)-1]
				}
			case 1: // non-multiple-of-8 middle fragment
				for j := range s {
					if s[j].more == 1 {
						s[j].pl = append(append([]byte(nil), s[j].pl...), g.bytes(1+g.rng.Intn(7))...)
						break
					}
				}
			case 2: // overlapping fragment
				j := g.rng.Intn(len(s))
				e := s[j]
				e.off += 1
				e.pl = g.bytes(8 * (1 + g.rng.Intn(3)))
				s = append(s, e)
			case 3: // same identification, another flow
				j := g.rng.Intn(len(s))
				s[j].src = 7
				s[j].pl = g.bytes(len(s[j].pl))
			case 4: // duplicates after completion
				s = append(s, s[g.rng.Intn(len(s))])
			}
		} else if g.rng.Intn(3) == 0 {
			// duplicates before completion: insert a copy of an earlier fragment before the last one
			j := g.rng.Intn(len(s) - 1)
			last := s[len(s)-1]
			s = append(append(s[:len(s)-1:len(s)-1], s[j]), last)
		}
		seqs = append(seqs, s)
	}
	for {
		var live []int
		for i, s := range seqs {
			if len(s) > 0 {
				live = append(live, i)
			}
		}
		if len(live) == 0 {
			break
		}
		i := live[g.rng.Intn(len(live))]
		f := seqs[i][0]
		seqs[i] = seqs[i][1:]
		// the NextHeader of the result is the last fragment's; the other header fields the first one's
		nh, tc := f.nh, 3
		if g.rng.Intn(3) == 0 {
			nh = []int{6, 17, 58, 44}[g.rng.Intn(4)]
		}
		if f.off != 0 && g.rng.Intn(3) == 0 {
			tc = 9
		}
		ops = append(ops, fmt.Sprintf("f6:%d,%d,%d,%d,%d,%d,%d,%d,%d,%s", f.src, f.dst, f.id, f.off, f.more, nh, tc, 77, 64, hex.EncodeToString(f.pl)))
	}
	switch g.rng.Intn(4) {
	case 0:
		ops = append(ops, "d6:1")
	case 1:
		ops = append(ops, "d6:0")
	}
	return Case{Prop: "C13", Ops: ops}
}

// offsetLimitCase: a valid datagram whose last fragment starts above byte 8*8183
func (g *c13gen) offsetLimitCase() Case {
	k := g.key()
	n := 65473 + g.rng.Intn(40)
	pl := g.bytes(n)
	cut := 8 * (8184 + g.rng.Intn((n-1)/8-8184+1))
	mid := 8 * (1 + g.rng.Intn(cut/8-1))
	var fr []c13f4
	for _, p := range [][2]int{{0, mid}, {mid, cut}, {cut, n}} {
		fl := 1
		if p[1] == n {
			fl = 0
		}
		fr = append(fr, c13f4{src: k.src, dst: k.dst, id: k.id, ihl: 5, length: 20 + p[1] - p[0], flags: fl, off: p[0] / 8, ttl: 7, proto: 17, pl: pl[p[0]:p[1]]})
	}
	return Case{Prop: "C13", Ops: g.arrival([][]c13f4{fr}, 0, false)}
}

// mixedIHLCase: the offset-0 fragment carries (non-copied) IP options, the others the plain 20-byte
// header, as real stacks fragment; payload chosen so that 4*IHL_first + payload = total lies around the
// 65535 limit (every fragment is acceptable on its own); the first fragment arrives at position pos of
// the arrival order (nfrag-1 = last: its IHL becomes the header of the result).
func (g *c13gen) mixedIHLCase(ihl1, total, nfrag, pos int) Case {
	k := g.key()
	n := total - 4*ihl1
	if n > 65515 {
		n = 65515
	}
	pl := g.bytes(n)
	opt := g.bytes(4*ihl1 - 20)
	if len(opt) > 1 {
		opt[0], opt[1] = 7, byte(len(opt)-1) // record route (not copied on fragmentation) + end of list
		opt[len(opt)-1] = 0
	}
	// cuts: first fragment short, last fragment starts at or below 8*8183
	cuts := []int{0, 8 * (1 + g.rng.Intn(64))}
	lastCut := 8 * (8183 - g.rng.Intn(40))
	for i := 2; i < nfrag-1; i++ {
		cuts = append(cuts, cuts[1]+8*(1+g.rng.Intn((lastCut-cuts[1])/8-1)))
	}
	cuts = append(cuts, lastCut, n)
	sort.Ints(cuts)
	var first c13f4
	var rest []c13f4
	for i := 0; i+1 < len(cuts); i++ {
		a, b := cuts[i], cuts[i+1]
		if a == b {
			continue
		}
		fl := 1
		if b == n {
			fl = 0
		}
		f := c13f4{src: k.src, dst: k.dst, id: k.id, ihl: 5, length: 20 + b - a, flags: fl, off: a / 8, ttl: 33, proto: 17, pl: pl[a:b]}
		if a == 0 {
			f.ihl, f.length, f.opt = ihl1, 4*ihl1+b-a, opt
			first = f
		} else {
			rest = append(rest, f)
		}
	}
	g.rng.Shuffle(len(rest), func(i, j int) { rest[i], rest[j] = rest[j], rest[i] })
	if pos > len(rest) {
		pos = len(rest)
	}
	seq := append(append(append([]c13f4(nil), rest[:pos]...), first), rest[pos:]...)
	var ops []string
	for _, f := range seq {
		g.ts++
		f.ts = g.ts
		ops = append(ops, f.op())
	}
	return Case{Prop: "C13", Ops: ops}
}

func (c13) Gen(rng *rand.Rand, tier string) []Case {
	g := &c13gen{rng: rng, ts: 1000}
	var out []Case
	nValid, nHostile, nCounter, nDiscard, nV6, nBig := 500, 500, 150, 80, 200, 6
	if tier == "thorough" {
		nValid, nHostile, nCounter, nDiscard, nV6, nBig = 5000, 6000, 1000, 600, 2000, 60
	}
	// all arrival orders of 4 fragments with one duplicate (ihl 5 and 7); thorough: up to 6
	out = append(out, g.permCases(3, 6, true)...)
	out = append(out, g.permCases(4, 7, true)...)
	out = append(out, g.permCases(5, 5, false)...)
	if tier == "thorough" {
		out = append(out, g.permCases(5, 15, true)...)
		out = append(out, g.permCases(6, 6, true)...)
	}
	out = append(out, g.allenCases()...)
	for i := 0; i < nValid; i++ {
		out = append(out, g.validCase(false))
	}
	for i := 0; i < nBig; i++ {
		out = append(out, g.validCase(true))
	}
	for i := 0; i < nHostile; i++ {
		out = append(out, g.hostileCase())
	}
	for i := 0; i < nCounter; i++ {
		out = append(out, g.counterCase())
	}
	for i := 0; i < nDiscard; i++ {
		out = append(out, g.discardCase())
	}
	for i := 0; i < nV6; i++ {
		out = append(out, g.v6Case(i%2 == 1))
	}
	out = append(out, g.tooManyCase(0), g.tooManyCase(1))
	out = append(out, g.offsetLimitCase())
	// mixed header lengths around the 65535 limit: quick keeps a handful (65 KB payloads)
	out = append(out, g.mixedIHLCase(15, 65575, 3, 2), // over the limit, long header last: must be refused
		g.mixedIHLCase(15, 65535, 3, 2),  // exactly at the limit, long header last
		g.mixedIHLCase(15, 65536, 4, 3),  // one byte over
		g.mixedIHLCase(11, 65570, 3, 0),  // over for the first header, which arrives first (20-byte header wins)
		g.mixedIHLCase(7, 65540, 4, 1))   // first fragment in the middle
	if tier == "thorough" {
		for i := 0; i < 60; i++ {
			ihl1 := 6 + g.rng.Intn(10)
			nfrag := 3 + g.rng.Intn(3)
			out = append(out, g.mixedIHLCase(ihl1, 65500+g.rng.Intn(101), nfrag, g.rng.Intn(nfrag)))
		}
		for _, tot := range []int{65534, 65535, 65536, 65537} {
			for pos := 0; pos < 3; pos++ {
				out = append(out, g.mixedIHLCase(15, tot, 3, pos), g.mixedIHLCase(6, tot, 3, pos))
			}
		}
	}
	return out
}
