package main

// Leapol: EAPOL header codec of layers/eapol.go (C19, C05, C06, C07, C01 for EAPOL; EAPOLKey is not part of it).
// Ops: dec dec2 ser rt (lmisc_common.go) plus new:<version>.<type>.<length>,<fcd>,<payloadhex> and rtn: likewise.

import (
	"fmt"
	"math/rand"
	"strings"

	"github.com/gopacket/gopacket"
	"github.com/gopacket/gopacket/layers"
)

type leapol struct{}

func init() { register("Leapol", leapol{}) }

var leapolDesc = &lmDesc{
	id: "Leapol", name: "EAPOL", ser: true,
	fresh: func() gopacket.Layer { return &layers.EAPOL{} },
	decode: func(l gopacket.Layer, data []byte, fb gopacket.DecodeFeedback) error {
		return l.(*layers.EAPOL).DecodeFromBytes(data, fb)
	},
	fields: func(l gopacket.Layer) string {
		e := l.(*layers.EAPOL)
		return fmt.Sprintf("v=%d;t=%d;len=%d", e.Version, uint8(e.Type), e.Length)
	},
	next: func(l gopacket.Layer, _ *lmBuilder) string {
		e := l.(*layers.EAPOL)
		if e.NextLayerType() == e.Type.LayerType() {
			return fmt.Sprint(uint8(e.Type))
		}
		return fmt.Sprintf("other%d", e.NextLayerType())
	},
	fromSpec: func(spec string) gopacket.Layer {
		f := strings.Split(spec, ".")
		return &layers.EAPOL{Version: uint8(lnAtoi(f[0])), Type: layers.EAPOLType(lnAtoi(f[1])), Length: uint16(lnAtoi(f[2]))}
	},
	tags: func(l gopacket.Layer, cls string, data []byte) []string {
		if cls == "ok" && int(l.(*layers.EAPOL).Length) != len(data)-4 {
			return []string{"length-field-mismatch"}
		}
		return nil
	},
}

func (leapol) Run(c Case) Result { return lmRun(leapolDesc, c) }

func (leapol) Gen(rng *rand.Rand, tier string) []Case {
	valid := func(rng *rand.Rand) []byte {
		pl := lnRandBytes(rng, lnPick(rng, 0, 1, 5, 95, 33))
		h := []byte{byte(lnPick(rng, 1, 2, 3, 0, 255)), byte(lnPick(rng, 0, 1, 2, 3, 4, 255, rng.Intn(256))), 0, 0}
		lmPut16(h[2:], lnPick(rng, len(pl), len(pl), 0, 1, 65535, len(pl)+1))
		return append(h, pl...)
	}
	g := lmGenCfg{
		valid:  valid,
		hdrLen: func(p []byte) int { return 4 },
		spec: func(rng *rand.Rand) string {
			return fmt.Sprintf("%d.%d.%d", lnPick(rng, 0, 1, 2, 255), lnPick(rng, 0, 3, 255, rng.Intn(256)), lnPick(rng, 0, 1, 95, 65535, rng.Intn(65536)))
		},
		seeds: lnEthSeeds(0x888e),
		extra: func(rng *rand.Rand, add func(ops ...string)) {
			for t := 0; t < 256; t++ { // every type value (NextLayerType table lookup)
				add("tag:type-every-value", "dec:"+lnHex([]byte{2, byte(t), 0, 1, 0x77}))
				if t%8 == 0 {
					add("tag:type-every-value", "rt:"+lnHex([]byte{byte(t), byte(t), byte(t), byte(t)})+",0102")
				}
			}
		},
	}
	return lmGen(leapolDesc, g, rng, tier)
}
