package main

// Lgre: GRE (layers/gre.go): flags, optional checksum/offset/key/seq/ack, source-route entries,
// checksum, SerializeTo.  One sub-check serving C19, C05, C06, C07, C01.
//
// ops:
//   dec:<hex>                      DecodeFromBytes into a fresh object, render
//   dec2:<hexA>,<hexB>             decode A then B into the same object
//   ser:<hex>,<fcd>,<payload>      decode (may fail: residue), SerializeTo over payload
//   rt:<hex>,<payload>             decode, serialize with fix+csum, decode again
//   nser:<fcd>,<payload>,<fields>  SerializeTo of a value built from public fields
//   nrt:<payload>,<fields>         round trip of a value built from public fields
//   nlt:<p>                        EthernetType(p).LayerType()
// <fields>: flags.recur.gflags.version.proto.csum.offset.key.seq.ack.routing
//   flags = 6 characters 0/1: ChecksumPresent RoutingPresent KeyPresent SeqPresent StrictSourceRoute AckPresent
//   routing = af~off~len~infohex|...

import (
	"fmt"
	"math/rand"
	"strings"

	"github.com/gopacket/gopacket"
	"github.com/gopacket/gopacket/layers"
)

type lgre struct{}

func init() { register("Lgre", lgre{}) }

func lgreRouting(g *layers.GRE) string {
	var parts []string
	n := 0
	for r := g.GRERouting; r != nil && n < 100000; r = r.Next {
		parts = append(parts, fmt.Sprintf("%d~%d~%d~%s", r.AddressFamily, r.SREOffset, r.SRELength, n6hex(r.RoutingInformation)))
		n++
	}
	return strings.Join(parts, "|")
}

func lgreFields(g *layers.GRE) string {
	return fmt.Sprintf("fl=%d%d%d%d%d%d;recur=%d;gflags=%d;ver=%d;proto=%d;offset=%d;key=%d;seq=%d;ack=%d;routing=%s",
		n6b2i(g.ChecksumPresent), n6b2i(g.RoutingPresent), n6b2i(g.KeyPresent), n6b2i(g.SeqPresent), n6b2i(g.StrictSourceRoute), n6b2i(g.AckPresent),
		g.RecursionControl, g.Flags, g.Version, uint16(g.Protocol), g.Offset, g.Key, g.Seq, g.Ack, lgreRouting(g))
}

func lgreState(g *layers.GRE) string {
	return fmt.Sprintf("%s;csum=%d;c=%s;p=%s;next=%d", lgreFields(g), g.Checksum, n6hex(g.Contents), n6big(g.Payload), int(g.NextLayerType()))
}

func lgreRender(g *layers.GRE) string { return "render=" + strings.Join(n6layerRender(g), ",") }

func lgreBuild(fields string) *layers.GRE {
	f := strings.Split(fields, ".")
	g := &layers.GRE{}
	fl := f[0]
	g.ChecksumPresent, g.RoutingPresent, g.KeyPresent = fl[0] == '1', fl[1] == '1', fl[2] == '1'
	g.SeqPresent, g.StrictSourceRoute, g.AckPresent = fl[3] == '1', fl[4] == '1', fl[5] == '1'
	g.RecursionControl, g.Flags, g.Version = uint8(n6atoi(f[1])), uint8(n6atoi(f[2])), uint8(n6atoi(f[3]))
	g.Protocol = layers.EthernetType(n6atoi(f[4]))
	g.Checksum, g.Offset = uint16(n6atoi(f[5])), uint16(n6atoi(f[6]))
	g.Key, g.Seq, g.Ack = uint32(n6atoi(f[7])), uint32(n6atoi(f[8])), uint32(n6atoi(f[9]))
	if f[10] != "" {
		tail := &g.GRERouting
		for _, p := range strings.Split(f[10], "|") {
			q := strings.Split(p, "~")
			r := &layers.GRERouting{AddressFamily: uint16(n6atoi(q[0])), SREOffset: uint8(n6atoi(q[1])), SRELength: uint8(n6atoi(q[2]))}
			if q[3] != "" {
				r.RoutingInformation = n6unhex(q[3])
			}
			*tail = r
			tail = &r.Next
		}
	}
	return g
}

func (lgre) Run(c Case) Result {
	var res Result
	tags := map[string]bool{}
	for _, op := range c.Ops {
		name, a := n6args(op)
		switch name {
		case "nlt":
			res.Obs = append(res.Obs, fmt.Sprintf("lt=%d", int(layers.EthernetType(n6atoi(a[0])).LayerType())))
			tags["dispatch-table"] = true
		case "dec":
			data := n6unhex(a[0])
			g := &layers.GRE{}
			df := &n6fb{}
			cls := n6decode(func() error { return g.DecodeFromBytes(data, df) })
			rend := lgreRender(g)
			res.Obs = append(res.Obs, fmt.Sprintf("cls=%s;trunc=%d;%s;%s", cls, n6b2i(df.t), lgreState(g), rend))
			if cls == "panic" || cls == "stuck" {
				res.Oracle = append(res.Oracle, n6oracle("C19:"+cls, "GRE DecodeFromBytes: %s on %s", cls, a[0]))
			}
			if strings.Contains(rend, "panic") {
				res.Oracle = append(res.Oracle, n6oracle("C01:render", "GRE renderer panics after decoding %s (%s)", a[0], rend))
			}
			if cls == "err" && df.t {
				tags["truncated-prefix-of-valid"] = true
			}
			if cls == "err" && g.GRERouting != nil {
				tags["error-after-add"] = true
			}
			if g.RoutingPresent {
				tags["routing"] = true
			}
			if len(data) > 1 && data[0]&0x40 != 0 {
				tags["option-length-extreme"] = true
			}
		case "dec2":
			da, db := n6unhex(a[0]), n6unhex(a[1])
			g := &layers.GRE{}
			clsA := n6decode(func() error { return g.DecodeFromBytes(da, &n6fb{}) })
			if g.GRERouting != nil || g.Key != 0 || g.Seq != 0 || g.Ack != 0 {
				tags["residue-options"] = true
			}
			df := &n6fb{}
			cls := n6decode(func() error { return g.DecodeFromBytes(db, df) })
			rend := lgreRender(g)
			res.Obs = append(res.Obs, fmt.Sprintf("cls=%s;trunc=%d;%s;%s", cls, n6b2i(df.t), lgreState(g), rend))
			fg := &layers.GRE{}
			fdf := &n6fb{}
			fcls := n6decode(func() error { return fg.DecodeFromBytes(n6clip(db), fdf) })
			if cls != fcls || df.t != fdf.t || (fcls == "ok" && lgreState(g) != lgreState(fg)) {
				res.Oracle = append(res.Oracle, n6oracle("C05:stale", "GRE after %s (%s): reused %s;%s fresh %s;%s", a[0], clsA, cls, lgreState(g), fcls, lgreState(fg)))
			}
			if cls == "panic" || cls == "stuck" {
				res.Oracle = append(res.Oracle, n6oracle("C19:"+cls, "GRE DecodeFromBytes: %s on %s after %s", cls, a[1], a[0]))
			}
			if strings.Contains(rend, "panic") {
				res.Oracle = append(res.Oracle, n6oracle("C01:render", "GRE renderer panics after decoding %s then %s", a[0], a[1]))
			}
		case "ser", "nser":
			var fcd string
			var payload []byte
			var mk func() *layers.GRE
			if name == "ser" {
				fcd, payload = a[1], n6payload(a[2])
				data := n6unhex(a[0])
				mk = func() *layers.GRE {
					g := &layers.GRE{}
					n6decode(func() error { return g.DecodeFromBytes(n6clip(data), &n6fb{}) })
					return g
				}
				if n6decode(func() error { return (&layers.GRE{}).DecodeFromBytes(n6clip(data), &n6fb{}) }) != "ok" {
					tags["error-residue"] = true
				}
			} else {
				fcd, payload = a[0], n6payload(a[1])
				mk = func() *layers.GRE { return lgreBuild(a[2]) }
			}
			fix, csum, mode := n6flags(fcd)
			g := mk()
			cls, out := n6serialize(g, payload, fix, csum, mode)
			res.Obs = append(res.Obs, fmt.Sprintf("cls=%s;out=%s;%s;csum=%d", cls, n6big(out), lgreFields(g), g.Checksum))
			if cls == "panic" {
				res.Oracle = append(res.Oracle, n6oracle("C07:panic", "GRE SerializeTo panics: %s", op[:min(len(op), 300)]))
			}
			for m := 0; m < 3; m++ {
				g2 := mk()
				cls2, out2 := n6serialize(g2, payload, fix, csum, m)
				if cls2 != cls || string(out2) != string(out) {
					res.Oracle = append(res.Oracle, n6oracle("C07:junk-dependence", "GRE buffer mode %d gives %s %s, mode %d gives %s %s", mode, cls, n6big(out), m, cls2, n6big(out2)))
					break
				}
				cls3, out3 := n6serialize(g2, payload, fix, csum, m)
				if cls3 != cls2 || string(out3) != string(out2) {
					res.Oracle = append(res.Oracle, n6oracle("C07:repeat", "GRE second SerializeTo gives %s %s, first %s %s", cls3, n6big(out3), cls2, n6big(out2)))
					break
				}
			}
			if mode == 1 {
				tags["dirty-buffer"] = true
			}
			if !fix {
				tags["no-fixlengths"] = true
			}
			if len(payload)%2 == 1 {
				tags["odd-payload"] = true
			}
			if g.RoutingPresent {
				tags["routing"] = true
			}
			if g.RoutingPresent && g.AckPresent {
				tags["routing-and-ack"] = true
			}
		case "rt", "nrt":
			var payload []byte
			var g *layers.GRE
			first := "ok"
			if name == "rt" {
				payload = n6payload(a[1])
				g = &layers.GRE{}
				first = n6decode(func() error { return g.DecodeFromBytes(n6unhex(a[0]), &n6fb{}) })
			} else {
				payload = n6payload(a[0])
				g = lgreBuild(a[1])
			}
			scls, out := n6serialize(g, payload, true, true, 0)
			g2 := &layers.GRE{}
			df2 := &n6fb{}
			cls2 := "err"
			if scls == "ok" {
				cls2 = n6decode(func() error { return g2.DecodeFromBytes(n6clip(out), df2) })
			}
			rend := lgreRender(g2)
			res.Obs = append(res.Obs, fmt.Sprintf("scls=%s;cls=%s;trunc=%d;%s;%s", scls, cls2, n6b2i(df2.t), lgreState(g2), rend))
			if scls == "panic" {
				res.Oracle = append(res.Oracle, n6oracle("C07:panic", "GRE SerializeTo panics: %s", op[:min(len(op), 300)]))
			}
			if first == "ok" && scls == "err" {
				res.Oracle = append(res.Oracle, n6oracle("C06:serialize-error", "GRE SerializeTo fails on a decoded / in-range value"))
			}
			if first == "ok" && scls == "ok" {
				wantCsum := g.Checksum
				if !g.ChecksumPresent {
					wantCsum = 0
				}
				if cls2 != "ok" || df2.t || lgreFields(g2) != lgreFields(g) || g2.Checksum != wantCsum || string(g2.Payload) != string(payload) {
					res.Oracle = append(res.Oracle, n6oracle("C06:roundtrip", "GRE wrote %s; got %s trunc=%d %s csum=%d payload %s; want %s csum=%d payload %s", n6big(out), cls2, n6b2i(df2.t),
						lgreFields(g2), g2.Checksum, n6big(g2.Payload), lgreFields(g), wantCsum, n6big(payload)))
				} else {
					cls3, out3 := n6serialize(g2, payload, true, true, 0)
					if cls3 != "ok" || string(out3) != string(out) {
						res.Oracle = append(res.Oracle, n6oracle("C06:fixpoint", "GRE re-serializing the decoded layer gives %s %s, first %s", cls3, n6big(out3), n6big(out)))
					}
				}
			}
			if len(payload)%2 == 1 {
				tags["odd-payload"] = true
			}
			if g.RoutingPresent {
				tags["routing"] = true
			}
			if g.RoutingPresent && g.AckPresent {
				tags["routing-and-ack"] = true
			}
		default:
			panic("Lgre: unknown op " + op)
		}
	}
	res.Tags = n6tagset(tags)
	return res
}

// ---------------------------------------------------------------- generators

// a valid GRE header built field by field; flags = bit mask C R K S s A
func lgreValid(rng *rand.Rand, c, r, k, s, ssr, a bool, nsre int) []byte {
	b0 := byte(rng.Intn(8))
	b1 := byte(rng.Intn(32))<<3 | byte(n6pick(rng, 0, 0, 1, rng.Intn(8)))
	if c {
		b0 |= 0x80
	}
	if r {
		b0 |= 0x40
	}
	if k {
		b0 |= 0x20
	}
	if s {
		b0 |= 0x10
	}
	if ssr {
		b0 |= 0x08
	}
	if a {
		b1 |= 0x80
	} else {
		b1 &^= 0x80
	}
	pr := n6pick(rng, 0x0800, 0x86dd, 0x6558, 0x880b, 0x8847, rng.Intn(65536))
	b := []byte{b0, b1, byte(pr >> 8), byte(pr)}
	if c || r {
		b = append(b, n6randBytes(rng, 4)...)
	}
	if k {
		b = append(b, n6randBytes(rng, 4)...)
	}
	if s {
		b = append(b, n6randBytes(rng, 4)...)
	}
	if r {
		for i := 0; i < nsre; i++ {
			l := n6pick(rng, 0, 1, 4, 4, 8, 16, 255)
			af := n6pick(rng, 0x0800, 0x86dd, 1+rng.Intn(65535))
			b = append(b, byte(af>>8), byte(af), byte(rng.Intn(256)), byte(l))
			b = append(b, n6randBytes(rng, l)...)
		}
		b = append(b, 0, 0, 0, 0)
	}
	if a {
		b = append(b, n6randBytes(rng, 4)...)
	}
	return b
}

func lgreRandValid(rng *rand.Rand) []byte {
	r := rng.Intn(3) == 0
	return lgreValid(rng, rng.Intn(2) == 0, r, rng.Intn(2) == 0, rng.Intn(2) == 0, rng.Intn(4) == 0, rng.Intn(3) == 0, rng.Intn(4))
}

func lgrePayload(rng *rand.Rand) string {
	n := n6pick(rng, 0, 0, 1, 2, 3, 20, 21, 64, 1451)
	if rng.Intn(8) == 0 {
		return fmt.Sprintf("*%dxff", n)
	}
	return n6hex(n6randBytes(rng, n))
}

func lgreFieldsRand(rng *rand.Rand, inRange bool) string {
	fl := make([]byte, 6)
	for i := range fl {
		fl[i] = '0' + byte(rng.Intn(2))
	}
	if rng.Intn(2) == 0 {
		fl[1] = '0'
	}
	recur, gflags, ver := rng.Intn(8), rng.Intn(16), rng.Intn(8)
	csum, off, key, seq, ack := rng.Intn(65536), rng.Intn(65536), rng.Uint32(), rng.Uint32(), rng.Uint32()
	var rt []string
	if fl[1] == '1' || !inRange && rng.Intn(3) == 0 {
		for i, n := 0, rng.Intn(4); i < n; i++ {
			l := n6pick(rng, 0, 1, 4, 8, 255)
			il := l
			if !inRange && rng.Intn(2) == 0 {
				il = n6pick(rng, 0, l/2, l+3)
			}
			af := 1 + rng.Intn(65535)
			if !inRange && rng.Intn(4) == 0 {
				af = 0
			}
			rt = append(rt, fmt.Sprintf("%d~%d~%d~%s", af, rng.Intn(256), l, n6hex(n6randBytes(rng, il))))
		}
	}
	if inRange {
		if fl[0] == '0' && fl[1] == '0' {
			off = 0
		}
		if fl[2] == '0' {
			key = 0
		}
		if fl[3] == '0' {
			seq = 0
		}
		if fl[5] == '0' {
			ack = 0
		}
	} else {
		recur, gflags, ver = rng.Intn(256), rng.Intn(256), rng.Intn(256)
	}
	return fmt.Sprintf("%s.%d.%d.%d.%d.%d.%d.%d.%d.%d.%s", fl, recur, gflags, ver, n6pick(rng, 0x0800, 0x86dd, rng.Intn(65536)), csum, off, key, seq, ack, strings.Join(rt, "|"))
}

func (lgre) Gen(rng *rand.Rand, tier string) []Case {
	var out []Case
	add := func(ops ...string) { out = append(out, Case{Prop: "Lgre", Ops: ops}) }
	scale := 1
	if tier == "thorough" {
		scale = 10
	}
	// the dispatch table: every entry found at development time, their neighbours, random values;
	// thorough: all 65536
	known := []int{0, 418, 1810, 2048, 2054, 8192, 25944, 33024, 34525, 34827, 34887, 34888, 34915, 34916, 34958, 34984, 35006, 35020, 36864, 65535}
	var ops []string
	for _, p := range known {
		for _, q := range []int{p - 1, p, p + 1} {
			if q >= 0 && q < 65536 {
				ops = append(ops, fmt.Sprintf("nlt:%d", q))
			}
		}
	}
	for i := 0; i < 200; i++ {
		ops = append(ops, fmt.Sprintf("nlt:%d", rng.Intn(65536)))
	}
	add(ops...)
	if tier == "thorough" {
		for p := 0; p < 65536; p += 1024 {
			var o []string
			for q := p; q < p+1024; q++ {
				o = append(o, fmt.Sprintf("nlt:%d", q))
			}
			add(o...)
		}
	}
	// seeds: GRE layers of the test-suite's packet literals
	for _, b := range n6seedLayers(layers.LayerTypeGRE) {
		add("dec:" + n6hex(b))
		add(fmt.Sprintf("rt:%s,%s", n6hex(b), lgrePayload(rng)))
		for cut := 0; cut <= min(len(b), 40); cut++ {
			add("dec:" + n6hex(b[:cut]))
		}
		for pos := 0; pos < min(len(b), 12); pos++ {
			for _, v := range []byte{0, 1, 255, 0x40, 0xc0, b[pos] ^ 0x80, b[pos] ^ 0x40} {
				m := append([]byte(nil), b...)
				m[pos] = v
				add("dec:" + n6hex(m))
			}
		}
	}
	// every flag combination (C R K S ssr A = 64) with 0..3 routing entries
	for mask := 0; mask < 64; mask++ {
		c, r, k, s, ssr, a := mask&32 != 0, mask&16 != 0, mask&8 != 0, mask&4 != 0, mask&2 != 0, mask&1 != 0
		for rep := 0; rep < scale; rep++ {
			b := lgreValid(rng, c, r, k, s, ssr, a, rng.Intn(4))
			pl := n6randBytes(rng, n6pick(rng, 0, 1, 8, 21))
			full := append(append([]byte(nil), b...), pl...)
			add("dec:" + n6hex(full))
			add(fmt.Sprintf("rt:%s,%s", n6hex(full), lgrePayload(rng)))
			if rep == 0 && mask%3 == 0 || r {
				for cut := 0; cut < len(b); cut++ { // every truncation length
					add("dec:" + n6hex(b[:cut]))
				}
			}
			add(fmt.Sprintf("ser:%s,%d%d%d,%s", n6hex(full), rng.Intn(2), rng.Intn(2), rng.Intn(3), lgrePayload(rng)))
			if r {
				for _, fcd := range []string{"000", "111", "011", "101"} {
					add(fmt.Sprintf("ser:%s,%s,%s", n6hex(full), fcd, lgrePayload(rng)))
				}
				// SRE length bytes forced to 0, 1, max, off by one, exactly the rest
				off := 8
				if k {
					off += 4
				}
				if s {
					off += 4
				}
				for off+3 < len(b) {
					l := int(b[off+3])
					for _, v := range []int{0, 1, 255, l + 1, l - 1, len(b) - off - 4, len(b) - off - 3} {
						m := append([]byte(nil), full...)
						m[off+3] = byte(v)
						add("dec:" + n6hex(m))
						if rng.Intn(4) == 0 {
							add(fmt.Sprintf("ser:%s,%d%d%d,%s", n6hex(m), rng.Intn(2), rng.Intn(2), rng.Intn(3), lgrePayload(rng)))
						}
					}
					if b[off] == 0 && b[off+1] == 0 && l == 0 {
						break
					}
					off += 4 + l
				}
			}
		}
	}
	// reuse
	for rep := 0; rep < 40*scale; rep++ {
		a := lgreValid(rng, true, rep%2 == 0, true, true, true, true, 1+rng.Intn(3))
		var b []byte
		switch rep % 6 {
		case 0:
			b = lgreValid(rng, false, false, false, false, false, false, 0)
		case 1:
			b = lgreRandValid(rng)
		case 2:
			b = lgreValid(rng, false, true, false, false, false, false, 2)
			b = b[:len(b)-1-rng.Intn(min(len(b)-1, 9))]
		case 3:
			b = lgreRandValid(rng)[:rng.Intn(4)]
		case 4:
			b = lgreValid(rng, true, false, rng.Intn(2) == 0, false, false, rng.Intn(2) == 0, 0)
		case 5:
			b, a = a, lgreValid(rng, true, true, true, true, false, true, 3)[:20]
		}
		add(fmt.Sprintf("dec2:%s,%s", n6hex(a), n6hex(append(b, n6randBytes(rng, rng.Intn(5))...))))
	}
	// values built from public fields
	for rep := 0; rep < 60*scale; rep++ {
		add(fmt.Sprintf("nrt:%s,%s", lgrePayload(rng), lgreFieldsRand(rng, true)))
		add(fmt.Sprintf("nser:%d%d%d,%s,%s", rng.Intn(2), rng.Intn(2), rng.Intn(3), lgrePayload(rng), lgreFieldsRand(rng, rng.Intn(2) == 0)))
	}
	// the checksum at its extremes
	add("nrt:*64xff,100000.0.0.0.65535.0.65535.0.0.0.")
	add("nrt:*64x00,100000.0.0.0.0.0.0.0.0.0.")
	add("nrt:*3xff,101101.7.15.7.65535.0.65535.4294967295.4294967295.4294967295.")
	// malformed stream
	for i := 0; i < 250*scale; i++ {
		b := n6randBytes(rng, rng.Intn(60))
		if len(b) > 0 && rng.Intn(2) == 0 {
			b[0] |= 0x40
		}
		add("dec:" + n6hex(b))
		if i%3 == 0 {
			add(fmt.Sprintf("ser:%s,%d%d%d,%s", n6hex(b), rng.Intn(2), rng.Intn(2), rng.Intn(3), lgrePayload(rng)))
		}
	}
	// a long routing list
	{
		b := []byte{0x40, 0, 8, 0, 0, 0, 0, 0}
		for i := 0; i < 300; i++ {
			b = append(b, 0, 2, byte(i), 1, byte(i))
		}
		b = append(b, 0, 0, 0, 0)
		add("dec:" + n6hex(b))
		add(fmt.Sprintf("rt:%s,0102", n6hex(b)))
		add("dec:" + n6hex(b[:len(b)-2]))
	}
	_ = gopacket.LayerTypeZero
	return out
}
