package main

// C16: PacketSource.  A case is a data-source history plus a harness script.
//
//	cfg:<plain|zc|concat>,<nocopy>
//	p:<hex>,<ts>,<caplen>,<len>,<ifidx>   e:<kind>   s:   (start of the next sub-source, concat only)
//	next start restart grant:n grantall recv:n cancel fin fcan:n setopt:nocopy=0|1
//
// The scripted source hands out its history through a gate (tokens), so that the harness
// decides when each read of the background goroutine returns; before every action the
// harness waits until the producer cannot move (waiting for a token, blocked on the full
// channel, or gone).  Observations are those of runner/c16.ml.
import (
	"context"
	"encoding/hex"
	"errors"
	"fmt"
	"io"
	"math/rand"
	"os"
	"runtime"
	"strconv"
	"strings"
	"sync"
	"syscall"
	"time"

	"github.com/gopacket/gopacket"
)

type c16 struct{}

func init() { register("C16", c16{}) }

// ---------------------------------------------------------------- error values
type c16NetErr struct {
	timeout bool
	wrap    error
}

func (e *c16NetErr) Error() string   { return "scripted net error" }
func (e *c16NetErr) Timeout() bool   { return e.timeout }
func (e *c16NetErr) Temporary() bool { return true }
func (e *c16NetErr) Unwrap() error   { return e.wrap }

var c16Errs = map[string]error{
	"to":      &c16NetErr{timeout: true},
	"toeof":   &c16NetErr{timeout: true, wrap: io.EOF},
	"eagain":  syscall.EAGAIN,
	"nettemp": &c16NetErr{timeout: false},
	"eintr":   syscall.EINTR,
	"tmp":     errors.New("transient"),
	"oclosed": os.ErrClosed,
	"eof":     io.EOF,
	"weof":    fmt.Errorf("scripted: %w", io.EOF),
	"ueof":    io.ErrUnexpectedEOF,
	"noprog":  io.ErrNoProgress,
	"cpipe":   io.ErrClosedPipe,
	"sbuf":    io.ErrShortBuffer,
	"ebadf":   syscall.EBADF,
	"pebadf":  &os.PathError{Op: "read", Path: "scripted", Err: syscall.EBADF},
	"cfile":   errors.New("read scripted: use of closed file"),
}

// the oracle's own reading of the property: which results end the input, which are transient
var c16Terminal = map[string]bool{"eof": true, "weof": true, "ueof": true, "noprog": true, "cpipe": true,
	"sbuf": true, "ebadf": true, "pebadf": true, "cfile": true}
var c16TimeoutClass = map[string]bool{"to": true, "toeof": true, "eagain": true}
var c16EOFLike = map[string]bool{"eof": true, "weof": true, "toeof": true} // errors.Is(err, io.EOF): ends a concatenated sub-source

func c16ErrName(err error) string {
	for k, e := range c16Errs {
		if e == err {
			return k
		}
	}
	return "other"
}

// ---------------------------------------------------------------- scripted sources
type c16Item struct {
	pkt  bool
	data []byte
	ci   gopacket.CaptureInfo
	kind string
}

var c16Garbage = []byte{0xde, 0xad, 0xbe, 0xef}

type c16Sub struct {
	items []c16Item
	pos   int
	buf   []byte // non-nil: zero-copy, one reused buffer
}

func (s *c16Sub) read() ([]byte, gopacket.CaptureInfo, error) {
	if s.pos >= len(s.items) {
		return nil, gopacket.CaptureInfo{}, io.EOF
	}
	it := s.items[s.pos]
	s.pos++
	if !it.pkt {
		// "If err != nil, then data/ci will be ignored"
		return c16Garbage, gopacket.CaptureInfo{CaptureLength: 4, Length: 9999, InterfaceIndex: 77}, c16Errs[it.kind]
	}
	if s.buf != nil {
		n := copy(s.buf, it.data)
		return s.buf[:n], it.ci, nil
	}
	d := make([]byte, len(it.data))
	copy(d, it.data)
	return d, it.ci, nil
}
func (s *c16Sub) ReadPacketData() ([]byte, gopacket.CaptureInfo, error) { return s.read() }

type c16Ret struct {
	pkt         bool
	data        []byte // copy of what the source returned
	ci          gopacket.CaptureInfo
	kind        string
	byProducer  bool
	afterCancel bool // the read returned after the harness had decided to cancel (projection of the select race)
	afterDone   bool // the read returned after cancel() had returned
	nocopy      bool // DecodeOptions.NoCopy when the read returned (the packet is decoded with it)
}

type c16Gate struct {
	mu                 sync.Mutex
	cond               *sync.Cond
	inner              func() ([]byte, gopacket.CaptureInfo, error)
	tokens             int
	open               bool
	waiting            bool
	entered            int
	returned           int
	pkts               int
	inPull             bool // the harness itself is calling NextPacket
	cancelT            bool // cancel() is about to be called
	cancelD            bool // cancel() has returned
	nocopy             bool // current value of ps.DecodeOptions.NoCopy (assigned by the harness only while the producer is quiescent)
	enteredAfterCancel int
	log                []c16Ret
}

func (g *c16Gate) read() ([]byte, gopacket.CaptureInfo, error) {
	g.mu.Lock()
	g.entered++
	pull := g.inPull
	if g.cancelD {
		g.enteredAfterCancel++
	}
	if !pull {
		for !g.open && g.tokens == 0 {
			g.waiting = true
			g.cond.Wait()
		}
		g.waiting = false
		if !g.open {
			g.tokens--
		}
	}
	g.mu.Unlock()
	d, ci, err := g.inner()
	g.mu.Lock()
	g.returned++
	r := c16Ret{byProducer: !pull, afterCancel: g.cancelT, afterDone: g.cancelD, nocopy: g.nocopy}
	if err == nil {
		g.pkts++
		r.pkt = true
		r.data = append([]byte(nil), d...)
		r.ci = ci
	} else {
		r.kind = c16ErrName(err)
	}
	g.log = append(g.log, r)
	g.mu.Unlock()
	return d, ci, err
}
func (g *c16Gate) ReadPacketData() ([]byte, gopacket.CaptureInfo, error) { return g.read() }

type c16ZCGate struct{ g *c16Gate }

func (z c16ZCGate) ZeroCopyReadPacketData() ([]byte, gopacket.CaptureInfo, error) { return z.g.read() }

// the harness decoder: payload layer; marks the packet truncated when the first byte has the top bit set
var c16Decoder = gopacket.DecodeFunc(func(data []byte, p gopacket.PacketBuilder) error {
	pl := gopacket.Payload(data)
	p.AddLayer(&pl)
	p.SetApplicationLayer(&pl)
	if len(data) > 0 && data[0]&0x80 != 0 {
		p.SetTruncated()
	}
	return nil
})

// ---------------------------------------------------------------- generator
func c16RandPkt(rng *rand.Rand, tiny bool) string {
	n := rng.Intn(7)
	if !tiny {
		switch rng.Intn(12) {
		case 0:
			n = 0
		case 1:
			n = 64
		case 2:
			n = 1500 + rng.Intn(2)
		}
	}
	d := make([]byte, n)
	for i := range d {
		d[i] = byte(rng.Intn(256))
	}
	if n > 0 && rng.Intn(4) == 0 {
		d[0] |= 0x80
	}
	capl := n
	ln := n
	switch rng.Intn(6) {
	case 0:
		ln = n + 1 + rng.Intn(100)
	case 1:
		if n > 0 {
			ln = n - 1
		}
	case 2:
		capl = n + 1
	}
	ts := rng.Int63n(1 << 50)
	return fmt.Sprintf("p:%s,%d,%d,%d,%d", hex.EncodeToString(d), ts, capl, ln, rng.Intn(4))
}

var c16Transient = []string{"to", "toeof", "eagain", "nettemp", "eintr", "tmp", "oclosed"}
var c16TermKinds = []string{"eof", "weof", "ueof", "noprog", "cpipe", "sbuf", "ebadf", "pebadf", "cfile"}

// a history: packets with a few transient errors, perhaps a terminal error somewhere
func c16RandHist(rng *rand.Rand, maxPk int, maxTransient int, terminal bool) []string {
	var h []string
	n := rng.Intn(maxPk + 1)
	tr := 0
	for i := 0; i < n; i++ {
		if tr < maxTransient && rng.Intn(5) == 0 {
			h = append(h, "e:"+c16Transient[rng.Intn(len(c16Transient))])
			tr++
		}
		h = append(h, c16RandPkt(rng, false))
	}
	if terminal && rng.Intn(2) == 0 {
		pos := rng.Intn(len(h) + 1)
		t := "e:" + c16TermKinds[rng.Intn(len(c16TermKinds))]
		h = append(h[:pos], append([]string{t}, h[pos:]...)...)
	}
	return h
}

func c16Cfg(rng *rand.Rand) (string, []string) {
	k, c := c16Cfg0(rng)
	if rng.Intn(3) == 0 {
		c[0] += fmt.Sprintf(",%d,%d", rng.Intn(2), rng.Intn(2))
	}
	return k, c
}

func c16Cfg0(rng *rand.Rand) (string, []string) {
	switch r := rng.Intn(10); {
	case r < 4:
		return "plain", []string{fmt.Sprintf("cfg:plain,%d", rng.Intn(2))}
	case r < 8:
		nc := 0
		if rng.Intn(4) == 0 {
			nc = 1
		}
		return "zc", []string{fmt.Sprintf("cfg:zc,%d", nc)}
	default:
		return "concat", []string{fmt.Sprintf("cfg:concat,%d", rng.Intn(2))}
	}
}

func c16History(rng *rand.Rand, kind string, maxPk int) []string {
	if kind != "concat" {
		return c16RandHist(rng, maxPk, 2, true)
	}
	var h []string
	ns := 1 + rng.Intn(4)
	for i := 0; i < ns; i++ {
		if i > 0 {
			h = append(h, "s:")
		}
		if rng.Intn(5) == 0 {
			continue // empty sub-source
		}
		h = append(h, c16RandHist(rng, 1+maxPk/2, 1, true)...)
	}
	return h
}

func c16CountPk(h []string) int {
	n := 0
	for _, o := range h {
		if strings.HasPrefix(o, "p:") {
			n++
		}
	}
	return n
}

func (c16) Gen(rng *rand.Rand, tier string) []Case {
	var out []Case
	nctx := 0
	add := func(ops ...[]string) {
		var all []string
		for _, o := range ops {
			all = append(all, o...)
		}
		// how the context of a cancelling script ends (5th cfg field): 0 cancel(), 1 a context whose Err() is
		// DeadlineExceeded (as WithTimeout/WithDeadline give), 2 one ending with an arbitrary error
		cancels := false
		for _, o := range all {
			if o == "cancel" || strings.HasPrefix(o, "fcan:") {
				cancels = true
			}
		}
		if cancels && len(all) > 0 && strings.HasPrefix(all[0], "cfg:") {
			nctx++
			if k := nctx % 3; k != 0 {
				f := strings.Split(all[0], ",")
				for len(f) < 4 {
					f = append(f, "0")
				}
				all[0] = strings.Join(append(f[:4], strconv.Itoa(k)), ",")
			}
		}
		out = append(out, Case{Prop: "C16", Ops: all})
	}
	n := 110
	nfull := 1
	if tier == "thorough" {
		n = 2500
		nfull = 8
	}
	for i := 0; i < n; i++ {
		// (a) pull interface
		kind, cfg := c16Cfg(rng)
		h := c16History(rng, kind, 8)
		var sc []string
		for k := 0; k < len(h)+2; k++ {
			sc = append(sc, "next")
		}
		add(cfg, h, sc)
		// (b) channel, immediate consumer
		kind, cfg = c16Cfg(rng)
		h = c16History(rng, kind, 10)
		add(cfg, h, []string{"start", "grantall", "fin"})
		// (c) channel, gated reads and a slow consumer
		kind, cfg = c16Cfg(rng)
		h = c16History(rng, kind, 10)
		sc = []string{"start"}
		if rng.Intn(4) == 0 {
			sc = []string{"next", "next", "start"}
		}
		for k := rng.Intn(6); k > 0; k-- {
			switch rng.Intn(5) {
			case 0, 1:
				sc = append(sc, fmt.Sprintf("grant:%d", 1+rng.Intn(4)))
			case 2, 3:
				sc = append(sc, fmt.Sprintf("recv:%d", 1+rng.Intn(4)))
			default:
				sc = append(sc, "restart")
			}
		}
		sc = append(sc, "fin")
		add(cfg, h, sc)
		// (c') options assigned at random points, also between two PacketsCtx calls (no Lazy/Pool here:
		// lazy decoding of a view is outside the model)
		kind, cfg = c16Cfg0(rng)
		h = c16History(rng, kind, 8)
		flip := func() string { return fmt.Sprintf("setopt:nocopy=%d", rng.Intn(2)) }
		switch rng.Intn(4) {
		case 0: // pull interface
			sc = nil
			for k := 0; k < len(h)+1; k++ {
				if rng.Intn(3) == 0 {
					sc = append(sc, flip())
				}
				sc = append(sc, "next")
			}
		case 1: // the seeded scenario: accepted first call, NoCopy switched, second call
			if kind == "zc" {
				cfg[0] = "cfg:zc,0"
			}
			sc = []string{"start", fmt.Sprintf("grant:%d", rng.Intn(4)), "setopt:nocopy=1", "restart", fmt.Sprintf("grant:%d", 1+rng.Intn(3)), fmt.Sprintf("recv:%d", rng.Intn(3)), flip(), "restart", "fin"}
		case 2:
			sc = []string{flip(), "start", flip(), "restart", "grantall", "fin"}
		default:
			sc = []string{"start"}
			for k := 2 + rng.Intn(6); k > 0; k-- {
				switch rng.Intn(6) {
				case 0, 1:
					sc = append(sc, fmt.Sprintf("grant:%d", 1+rng.Intn(3)))
				case 2:
					sc = append(sc, fmt.Sprintf("recv:%d", 1+rng.Intn(3)))
				case 3:
					sc = append(sc, "restart")
				default:
					sc = append(sc, flip())
				}
			}
			sc = append(sc, "fin")
		}
		add(cfg, h, sc)
		// (d) cancellation at a quiescent point
		kind, cfg = c16Cfg(rng)
		h = c16History(rng, kind, 8)
		switch rng.Intn(5) {
		case 0:
			sc = []string{"cancel", "start", "grantall", "fin"}
		case 1:
			sc = []string{"start", fmt.Sprintf("grant:%d", rng.Intn(6)), "cancel", "fin"}
		case 2:
			sc = []string{"start", fmt.Sprintf("grant:%d", 1+rng.Intn(6)), fmt.Sprintf("recv:%d", 1+rng.Intn(3)), "cancel", "grant:1", "recv:9", "fin"}
		case 3:
			sc = []string{"start", "grantall", "cancel", "fin"}
		default:
			sc = []string{"start", fmt.Sprintf("grant:%d", rng.Intn(4)), "cancel", "restart", "grant:2", "fin"}
		}
		add(cfg, h, sc)
		// (e) cancellation racing a free-running producer and consumer (projected observation)
		kind, cfg = c16Cfg(rng)
		h = c16History(rng, kind, 12)
		add(cfg, h, []string{"start", fmt.Sprintf("fcan:%d", rng.Intn(c16CountPk(h)+2))})
	}
	// (g) exhaustive small scope: every history over a 6-letter alphabet up to a depth, for each source kind
	// (concat: split after the first item), under four scripts
	alpha := []string{"p:0102,10,2,2,1", "p:81,20,1,3,2", "e:to", "e:tmp", "e:ueof", "e:weof"}
	depth := 2
	if tier == "thorough" {
		depth = 4
	}
	var hists [][]string
	var rec func(prefix []string, d int)
	rec = func(prefix []string, d int) {
		hists = append(hists, append([]string(nil), prefix...))
		if d == 0 {
			return
		}
		for _, a := range alpha {
			rec(append(prefix, a), d-1)
		}
	}
	rec(nil, depth)
	for _, h := range hists {
		for _, cfg := range []string{"cfg:plain,1", "cfg:zc,0", "cfg:concat,0"} {
			hh := h
			if cfg == "cfg:concat,0" && len(h) > 1 {
				hh = append(append(append([]string(nil), h[:1]...), "s:"), h[1:]...)
			}
			var pulls []string
			for k := 0; k < len(h)+1; k++ {
				pulls = append(pulls, "next")
			}
			add([]string{cfg}, hh, pulls)
			add([]string{cfg}, hh, []string{"start", "grantall", "fin"})
			add([]string{cfg}, hh, []string{"start", "grant:1", "recv:1", "cancel", "fin"})
			add([]string{cfg}, hh, []string{"next", "cancel", "start", "grantall", "fin"})
		}
	}
	// (f) more packets than the channel holds: producer blocked in the send
	for i := 0; i < nfull; i++ {
		for v := 0; v < 3; v++ {
			kind, cfg := c16Cfg(rng)
			if kind == "zc" {
				cfg[0] = "cfg:zc,0"
			} else if kind == "concat" {
				cfg[0] = "cfg:plain,0"
			} else {
				cfg[0] = "cfg:plain," + strings.Split(cfg[0], ",")[1]
			}
			var h []string
			npk := 1001 + rng.Intn(6)
			for k := 0; k < npk; k++ {
				h = append(h, fmt.Sprintf("p:%02x%02x,%d,2,2,0", k>>8, k&0xff, k))
				if k == 500 && v == 1 {
					h = append(h, "e:to")
				}
			}
			switch v {
			case 0:
				add(cfg, h, []string{"start", "grantall", "cancel", "fin"})
			case 1:
				add(cfg, h, []string{"start", "grantall", "recv:3", "grantall", "fin"})
			default:
				add(cfg, h, []string{"start", "grantall", "recv:2", "cancel", "recv:5", "fin"})
			}
		}
	}
	return out
}

// a context that ends when the harness says so, with an Err() other than context.Canceled
type c16Ctx struct {
	mu    sync.Mutex
	done  chan struct{}
	ended bool
	err   error
}

func (c *c16Ctx) Deadline() (time.Time, bool)   { return time.Time{}, false }
func (c *c16Ctx) Done() <-chan struct{}         { return c.done }
func (c *c16Ctx) Value(interface{}) interface{} { return nil }
func (c *c16Ctx) Err() error {
	c.mu.Lock()
	defer c.mu.Unlock()
	if c.ended {
		return c.err
	}
	return nil
}
func (c *c16Ctx) end() {
	c.mu.Lock()
	defer c.mu.Unlock()
	if !c.ended {
		c.ended = true
		close(c.done)
	}
}

// ---------------------------------------------------------------- run
type c16Deliv struct {
	p    gopacket.Packet
	snap []byte // Data() when it was handed over
}

type c16Run struct {
	kind          string
	nocopy        bool
	lazy          bool // Lazy / Pool decode options: exercised, the model's observables do not depend on them
	pool          bool
	items         [][]c16Item
	gate          *c16Gate
	ps            *gopacket.PacketSource
	ctx           context.Context
	cancel        context.CancelFunc
	ctxKind       int
	ch            chan gopacket.Packet
	baseline      int
	cancelled     bool
	heldAtCancel  int
	pktsAtCancel  int
	deliv         []c16Deliv
	nPull         int // packets handed over by NextPacket
	nChan         int // packets received from the channel
	closedSeen    bool
	guardBypassed bool // a PacketsCtx call succeeded on a zero-copy source with NoCopy on
	finDone       bool
	fcanDone      bool
	stuck         bool
	tags          map[string]bool
	res           *Result
}

func (r *c16Run) gor() int { return runtime.NumGoroutine() - r.baseline }

func (r *c16Run) blockedFull() bool {
	if r.ch == nil || r.cancelled {
		return false
	}
	g := r.gate
	g.mu.Lock()
	defer g.mu.Unlock()
	return len(r.ch) == cap(r.ch) && g.entered == g.returned && g.pkts == r.nPull+r.nChan+len(r.ch)+1
}

func (r *c16Run) quiescent() bool {
	if r.ch == nil {
		return true
	}
	if r.gor() <= 0 {
		return true
	}
	g := r.gate
	g.mu.Lock()
	w := g.waiting
	g.mu.Unlock()
	if w {
		return true
	}
	return r.blockedFull()
}

func (r *c16Run) sync() bool {
	deadline := newBusyDL(4 * time.Second)
	for i := 0; ; i++ {
		if r.quiescent() {
			return true
		}
		if i < 300 {
			runtime.Gosched()
		} else {
			time.Sleep(50 * time.Microsecond)
		}
		if i%64 == 63 && deadline.expired() {
			r.stuck = true
			return false
		}
	}
}

func (r *c16Run) reads() int {
	r.gate.mu.Lock()
	defer r.gate.mu.Unlock()
	return r.gate.returned
}

// number of buffered packets that were read before the cancel (a packet read after it may or
// may not have been sent: projected away)
func (r *c16Run) chanLen() int {
	if r.ch == nil {
		return 0
	}
	l := len(r.ch)
	if r.cancelled {
		rest := r.pktsAtCancel - r.heldAtCancel - r.nonExtraDelivered()
		if rest < l {
			l = rest
		}
		if l < 0 {
			l = 0
		}
	}
	return l
}

// the k-th packet handed over corresponds to the k-th packet the source returned
func (r *c16Run) retOf(k int) *c16Ret {
	g := r.gate
	g.mu.Lock()
	defer g.mu.Unlock()
	n := 0
	for i := range g.log {
		if g.log[i].pkt {
			if n == k {
				return &g.log[i]
			}
			n++
		}
	}
	return nil
}

func (r *c16Run) isExtra(k int) bool {
	rt := r.retOf(k)
	return rt != nil && rt.afterCancel
}

func (r *c16Run) nonExtraDelivered() int {
	n := 0
	for k := range r.deliv {
		if !r.isExtra(k) {
			n++
		}
	}
	return n
}

func c16Pobs(p gopacket.Packet) string {
	m := p.Metadata()
	tr := 0
	if m.Truncated {
		tr = 1
	}
	return fmt.Sprintf("%s/%d/%d/%d/%d/%d", hex.EncodeToString(p.Data()), m.CaptureInfo.Timestamp.UnixNano(),
		m.CaptureInfo.CaptureLength, m.CaptureInfo.Length, m.CaptureInfo.InterfaceIndex, tr)
}

func (r *c16Run) take(p gopacket.Packet) {
	p.Layers() // force decoding
	r.deliv = append(r.deliv, c16Deliv{p, append([]byte(nil), p.Data()...)})
}

// one non-blocking receive; ok=false,closed=false: empty
func (r *c16Run) tryRecv() (got bool, closed bool) {
	select {
	case p, ok := <-r.ch:
		if !ok {
			r.closedSeen = true
			return false, true
		}
		r.nChan++
		r.take(p)
		return true, false
	default:
		return false, false
	}
}

func (r *c16Run) pobsFrom(from int) string {
	var s []string
	for k := from; k < len(r.deliv); k++ {
		if !r.isExtra(k) {
			s = append(s, c16Pobs(r.deliv[k].p))
		}
	}
	return strings.Join(s, ",")
}

func (r *c16Run) countFrom(from int) int {
	n := 0
	for k := from; k < len(r.deliv); k++ {
		if !r.isExtra(k) {
			n++
		}
	}
	return n
}

func (r *c16Run) doCancel() {
	if r.blockedFull() {
		r.heldAtCancel = 1
		r.tags["cancel-mid-send"] = true
	}
	g := r.gate
	g.mu.Lock()
	g.cancelT = true
	r.pktsAtCancel = g.pkts
	g.mu.Unlock()
	r.cancelled = true
	r.cancel()
	g.mu.Lock()
	g.cancelD = true
	g.mu.Unlock()
}

// receive until closed (blocking, with a watchdog); returns whether the close was seen
func (r *c16Run) drain(max int) bool {
	last := time.Now()
	for i := 0; max < 0 || i < max; {
		got, closed := r.tryRecv()
		if closed {
			return true
		}
		if got {
			i++
			last = time.Now()
			continue
		}
		if r.gor() <= 0 && len(r.ch) == 0 {
			// the goroutine is gone: if the channel was closed the next receive says so
			if _, closed := r.tryRecv(); closed {
				return true
			}
			if len(r.ch) == 0 {
				return false
			}
			continue
		}
		if time.Since(last) > 4*time.Second && time.Since(last) > busyScale(4*time.Second) {
			r.stuck = true
			return false
		}
		runtime.Gosched()
	}
	return false
}

func (r *c16Run) settle() int {
	deadline := newBusyDL(2 * time.Second)
	for r.gor() > 0 && !deadline.expired() {
		time.Sleep(100 * time.Microsecond)
	}
	g := r.gor()
	if g < 0 {
		g = 0
	}
	return g
}

func c16ParseItem(op string) (c16Item, bool) {
	name, arg, _ := strings.Cut(op, ":")
	switch name {
	case "p":
		a := strings.Split(arg, ",")
		if len(a) != 5 {
			return c16Item{}, false
		}
		d, _ := hex.DecodeString(a[0])
		ts, _ := strconv.ParseInt(a[1], 10, 64)
		cl, _ := strconv.Atoi(a[2])
		ln, _ := strconv.Atoi(a[3])
		ix, _ := strconv.Atoi(a[4])
		return c16Item{pkt: true, data: d, ci: gopacket.CaptureInfo{Timestamp: time.Unix(0, ts), CaptureLength: cl, Length: ln, InterfaceIndex: ix}}, true
	case "e":
		if _, ok := c16Errs[arg]; !ok {
			return c16Item{}, false
		}
		return c16Item{kind: arg}, true
	}
	return c16Item{}, false
}

func (c16) Run(c Case) Result {
	var res Result
	r := &c16Run{kind: "plain", tags: map[string]bool{}, res: &res}
	r.items = [][]c16Item{nil}
	var script []string
	for _, op := range c.Ops {
		name, arg, _ := strings.Cut(op, ":")
		switch name {
		case "cfg":
			a := strings.Split(arg, ",")
			r.kind = a[0]
			r.nocopy = len(a) > 1 && a[1] == "1"
			r.lazy = len(a) > 2 && a[2] == "1"
			r.pool = len(a) > 3 && a[3] == "1"
			if len(a) > 4 {
				r.ctxKind, _ = strconv.Atoi(a[4])
			}
		case "p", "e":
			if it, ok := c16ParseItem(op); ok {
				r.items[len(r.items)-1] = append(r.items[len(r.items)-1], it)
			}
		case "s":
			r.items = append(r.items, nil)
		case "orig":
		default:
			script = append(script, op)
		}
	}
	// sources
	maxLen := 0
	for _, h := range r.items {
		for _, it := range h {
			if it.pkt && len(it.data) > maxLen {
				maxLen = len(it.data)
			}
		}
	}
	r.gate = &c16Gate{nocopy: r.nocopy}
	r.gate.cond = sync.NewCond(&r.gate.mu)
	var opts []gopacket.PacketSourceOption
	if r.nocopy {
		opts = append(opts, gopacket.WithNoCopy(true))
	}
	if r.lazy {
		opts = append(opts, gopacket.WithLazy(true))
	}
	if r.pool {
		opts = append(opts, gopacket.WithPool(true))
	}
	switch r.kind {
	case "zc":
		sub := &c16Sub{items: r.items[0], buf: make([]byte, maxLen)}
		r.gate.inner = sub.read
		r.ps = gopacket.NewZeroCopyPacketSource(c16ZCGate{r.gate}, c16Decoder, opts...)
	case "concat":
		var subs []gopacket.PacketDataSource
		for _, h := range r.items {
			subs = append(subs, &c16Sub{items: h})
		}
		cc := gopacket.ConcatFinitePacketDataSources(subs...)
		r.gate.inner = cc.ReadPacketData
		r.ps = gopacket.NewPacketSource(r.gate, c16Decoder, opts...)
	default:
		sub := &c16Sub{items: r.items[0]}
		r.gate.inner = sub.read
		r.ps = gopacket.NewPacketSource(r.gate, c16Decoder, opts...)
	}
	r.ctx, r.cancel = context.WithCancel(context.Background())
	if r.ctxKind != 0 {
		c := &c16Ctx{done: make(chan struct{}), err: context.DeadlineExceeded}
		if r.ctxKind == 2 {
			c.err = errors.New("scripted context end")
		}
		r.ctx, r.cancel = c, c.end
		r.tags["context-ends-not-by-cancel"] = true
	}
	r.baseline = runtime.NumGoroutine()

	obs := func(s string) {
		if r.stuck {
			s = "stuck"
		}
		res.Obs = append(res.Obs, s)
	}
	startPanicked := false
	for _, op := range script {
		name, arg, _ := strings.Cut(op, ":")
		n, _ := strconv.Atoi(arg)
		switch name {
		case "next":
			if r.ch != nil {
				obs("next=skip")
				continue
			}
			var p gopacket.Packet
			var err error
			panicked := false
			func() {
				defer func() {
					if recover() != nil {
						panicked = true
					}
				}()
				r.gate.mu.Lock()
				r.gate.inPull = true
				r.gate.mu.Unlock()
				p, err = r.ps.NextPacket()
			}()
			r.gate.mu.Lock()
			r.gate.inPull = false
			r.gate.mu.Unlock()
			switch {
			case panicked:
				obs("next=panic")
			case err != nil:
				obs("next=err;e=" + c16ErrName(err))
				if p != nil {
					res.Oracle = append(res.Oracle, "C16:pull\tnon-nil packet returned with an error")
				}
			default:
				r.nPull++
				r.take(p)
				obs("next=ok;pk=" + c16Pobs(p))
			}
		case "start", "restart":
			if name == "restart" {
				r.sync()
			}
			ctx := r.ctx
			if name == "restart" && r.ch != nil {
				ctx = context.Background() // a second call's context is ignored
			}
			var ch chan gopacket.Packet
			panicked := false
			func() {
				defer func() {
					if recover() != nil {
						panicked = true
					}
				}()
				ch = r.ps.PacketsCtx(ctx)
			}()
			unsafeNow := r.kind == "zc" && r.nocopy
			if panicked && !unsafeNow {
				res.Oracle = append(res.Oracle, "C16:guard\tPacketsCtx refused although the source is not zero-copy with NoCopy")
			}
			if !panicked && unsafeNow {
				r.guardBypassed = true
				res.Oracle = append(res.Oracle, "C16:guard\tzero-copy source with NoCopy accepted by a PacketsCtx call ("+name+")")
			}
			switch {
			case panicked:
				startPanicked = true
				obs(name + "=panic")
			case r.ch != nil && ch != r.ch:
				obs(name + "=diff")
				res.Oracle = append(res.Oracle, "C16:same-channel\tsecond PacketsCtx call returned another channel")
			default:
				r.ch = ch
				obs(name + "=ok")
			}
		case "setopt":
			// the public field; assigned only while the background reader cannot move
			r.sync()
			v := arg == "nocopy=1"
			if v != r.nocopy {
				r.tags["option-flip"] = true
			}
			r.gate.mu.Lock()
			r.nocopy = v
			r.gate.nocopy = v
			r.ps.DecodeOptions.NoCopy = v
			r.gate.mu.Unlock()
			obs("setopt")
		case "grant", "grantall":
			if r.ch == nil {
				obs("nostart")
				continue
			}
			r.sync()
			r.gate.mu.Lock()
			if name == "grantall" {
				r.gate.open = true
			} else {
				r.gate.tokens += n
			}
			r.gate.waiting = false
			r.gate.cond.Broadcast()
			r.gate.mu.Unlock()
			r.sync()
			if r.blockedFull() {
				r.tags["buffer-full"] = true
			}
			obs(fmt.Sprintf("reads=%d;len=%d", r.reads(), r.chanLen()))
		case "cancel":
			r.sync()
			r.doCancel()
			r.sync()
			obs(fmt.Sprintf("reads=%d;len=%d", r.reads(), r.chanLen()))
		case "recv":
			if r.ch == nil {
				obs("nostart")
				continue
			}
			from := len(r.deliv)
			closed := 0
			for i := 0; i < n; i++ {
				r.sync()
				got, cl := r.tryRecv()
				if cl {
					closed = 1
				}
				if !got {
					break
				}
				if r.isExtra(len(r.deliv) - 1) {
					i-- // a packet read after the cancel: not counted (projected away)
				}
			}
			r.sync()
			obs(fmt.Sprintf("recv=%d;pk=%s;closed=%d;reads=%d;len=%d", r.countFrom(from), r.pobsFrom(from), closed, r.reads(), r.chanLen()))
		case "fin":
			if r.ch == nil {
				obs("nostart")
				continue
			}
			from := len(r.deliv)
			r.gate.mu.Lock()
			r.gate.open = true
			r.gate.waiting = false
			r.gate.cond.Broadcast()
			r.gate.mu.Unlock()
			closed := 0
			if r.drain(-1) {
				closed = 1
			}
			g := r.settle()
			r.finDone = true
			var fin []string
			for k := range r.deliv {
				if r.isExtra(k) {
					continue
				}
				if d := r.deliv[k].p.Data(); len(d) == 0 {
					fin = append(fin, "-")
				} else {
					fin = append(fin, hex.EncodeToString(d))
				}
			}
			obs(fmt.Sprintf("fin=%d;pk=%s;closed=%d;reads=%d;gor=%d;final=%s", r.countFrom(from), r.pobsFrom(from), closed, r.reads(), g, strings.Join(fin, ",")))
			if closed == 0 {
				res.Oracle = append(res.Oracle, "C16:close\tchannel not closed after the data source ended / the context was cancelled")
			}
			if g != 0 {
				res.Oracle = append(res.Oracle, fmt.Sprintf("C16:leak\t%d goroutine(s) left after close", g))
			}
		case "fcan":
			if r.ch == nil {
				obs("nostart")
				continue
			}
			r.gate.mu.Lock()
			r.gate.open = true
			r.gate.waiting = false
			r.gate.cond.Broadcast()
			r.gate.mu.Unlock()
			closed := 0
			if r.drain(n) {
				closed = 1
			}
			r.doCancel()
			r.fcanDone = true
			if closed == 1 || r.drain(-1) {
				closed = 1
			}
			g := r.settle()
			obs(fmt.Sprintf("fcan;closed=%d;gor=%d", closed, g))
			if closed == 0 {
				res.Oracle = append(res.Oracle, "C16:close\tchannel not closed after cancel")
			}
			if g != 0 {
				res.Oracle = append(res.Oracle, fmt.Sprintf("C16:leak\t%d goroutine(s) left after cancel", g))
			}
		default:
			obs("bad-op")
		}
	}
	_ = startPanicked
	// cleanup: let the goroutine go, whatever the script did
	if r.ch != nil {
		r.cancel()
		r.gate.mu.Lock()
		r.gate.open = true
		r.gate.cond.Broadcast()
		r.gate.mu.Unlock()
		deadline := newBusyDL(2 * time.Second)
		for r.gor() > 0 && !deadline.expired() {
			select {
			case <-r.ch:
			default:
				time.Sleep(50 * time.Microsecond)
			}
		}
	}
	if r.stuck {
		res.Oracle = append(res.Oracle, "C16:stuck\tproducer or consumer made no progress within the watchdog time")
	}
	r.oracle()
	for t := range r.tags {
		res.Tags = append(res.Tags, t)
	}
	return res
}

func c16CIEq(a, b gopacket.CaptureInfo) bool {
	return a.Timestamp.Equal(b.Timestamp) && a.CaptureLength == b.CaptureLength && a.Length == b.Length &&
		a.InterfaceIndex == b.InterfaceIndex && len(a.AncillaryData) == len(b.AncillaryData)
}

// ---------------------------------------------------------------- the property, stated on what was observed
func (r *c16Run) oracle() {
	res := r.res
	fail := func(clause, f string, a ...interface{}) {
		res.Oracle = append(res.Oracle, clause+"\t"+fmt.Sprintf(f, a...))
	}
	// what the data source is specified to produce
	var flat []c16Item
	if r.kind == "concat" {
		for _, h := range r.items {
			for _, it := range h {
				if !it.pkt && c16EOFLike[it.kind] {
					break
				}
				flat = append(flat, it)
			}
		}
		if len(r.items) > 1 {
			r.tags["concat"] = true
		}
	} else {
		flat = r.items[0]
	}
	log := r.gate.log
	// (1) the source itself (concat): what was returned is the specified sequence, then EOF
	for i, rt := range log {
		switch {
		case i < len(flat):
			w := flat[i]
			if w.pkt != rt.pkt || (w.pkt && (string(w.data) != string(rt.data) || !c16CIEq(w.ci, rt.ci))) || (!w.pkt && w.kind != rt.kind) {
				fail("C16:source", "read %d returned something else than item %d of the specified sequence", i, i)
			}
		default:
			if rt.pkt || rt.kind != "eof" {
				fail("C16:source", "read %d after the end of the history did not return io.EOF", i)
			}
		}
	}
	// (2) exactly once, in order, intact, with metadata
	k := 0
	for _, rt := range log {
		if !rt.pkt {
			continue
		}
		if k >= len(r.deliv) {
			break
		}
		d := r.deliv[k]
		// decoded NoCopy from the reused buffer: a view, overwritten by the next read (by design on the
		// pull interface; on the channel interface only reachable by assigning the option after the start)
		view := r.kind == "zc" && rt.nocopy
		viaChan := k >= r.nPull
		if !(view && viaChan) && string(d.snap) != string(rt.data) {
			fail("C16:order", "packet %d handed over has bytes %x, the source returned %x", k, d.snap, rt.data)
		}
		m := d.p.Metadata()
		if !c16CIEq(m.CaptureInfo, rt.ci) {
			fail("C16:meta", "packet %d carries capture info %v, read with %v", k, m.CaptureInfo, rt.ci)
		}
		wantTr := (len(rt.data) > 0 && rt.data[0]&0x80 != 0) || rt.ci.CaptureLength < rt.ci.Length
		if m.Truncated != wantTr {
			fail("C16:truncated", "packet %d truncated=%v want %v", k, m.Truncated, wantTr)
		}
		// immutability: copying decode or a source that hands out fresh arrays
		if !view && string(d.p.Data()) != string(rt.data) {
			fail("C16:immutable", "packet %d changed after delivery: %x, was %x", k, d.p.Data(), rt.data)
		}
		if view && viaChan && r.guardBypassed && string(d.p.Data()) != string(rt.data) {
			fail("C16:immutable", "packet %d delivered on the channel from a zero-copy source was overwritten: %x, was %x", k, d.p.Data(), rt.data)
		}
		k++
	}
	npk := 0
	for _, rt := range log {
		if rt.pkt {
			npk++
		}
	}
	if len(r.deliv) > npk {
		fail("C16:order", "%d packets handed over, the source returned %d", len(r.deliv), npk)
	}
	// (3) the background reader: retries transient errors, stops at the first end-of-input, loses nothing
	stopped := false
	var lastProd *c16Ret
	nprod := 0
	for i := range log {
		rt := &log[i]
		if !rt.byProducer {
			continue
		}
		nprod++
		if stopped {
			fail("C16:stop", "background reader read again (read %d) after an end-of-input error", i)
		}
		if !rt.pkt {
			switch {
			case c16Terminal[rt.kind]:
				stopped = true
				if i < len(flat) {
					r.tags["terminal-error"] = true
				}
			case c16TimeoutClass[rt.kind]:
				r.tags["timeout-retry"] = true
			default:
				r.tags["temp-error-retry"] = true
			}
		}
		lastProd = rt
	}
	if r.kind == "zc" && nprod+r.nPull > 0 {
		r.tags["zero-copy"] = true
	}
	if r.finDone && !r.cancelled && r.ch != nil {
		if lastProd == nil || lastProd.pkt || !c16Terminal[lastProd.kind] {
			fail("C16:stop", "channel closed although the last read of the background reader was not an end-of-input error")
		}
		if len(r.deliv) != npk {
			fail("C16:lost", "%d packets read, %d handed over", npk, len(r.deliv))
		}
	}
	// (4) cancellation
	if r.cancelled {
		if r.gate.enteredAfterCancel > 1 {
			fail("C16:cancel", "%d reads started after the cancel", r.gate.enteredAfterCancel)
		}
		extra := 0
		for k := range r.deliv {
			if rt := r.retOf(k); rt != nil && rt.afterDone {
				extra++
			}
		}
		if extra > 1 {
			fail("C16:cancel", "%d packets read after the cancel were delivered", extra)
		}
		if (r.finDone || r.fcanDone) && r.ch != nil {
			lost := npk - len(r.deliv)
			// at most one packet is dropped: the one in hand at the cancel or the one whose read was in progress
			if lost > 1 {
				fail("C16:lost", "%d packets read but not delivered after cancel", lost)
			}
		}
	}
}
