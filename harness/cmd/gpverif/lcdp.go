package main

// Lcdp: the CiscoDiscovery layer (header + raw TLV list) of layers/cdp.go (C19, C01; decoder function only).  Ops: dec.
// The CiscoDiscoveryInfo layer decoded next is not part of this sub-check (the recording builder stops after the first layer).

import (
	"fmt"
	"math/rand"
	"strings"

	"github.com/gopacket/gopacket"
	"github.com/gopacket/gopacket/layers"
)

type lcdp struct{}

func init() { register("Lcdp", lcdp{}) }

var lcdpDesc = &lmDesc{
	id: "Lcdp", name: "CiscoDiscovery",
	fresh:    func() gopacket.Layer { return &layers.CiscoDiscovery{} },
	decodeFn: func(data []byte, b *lmBuilder) error { return layers.LayerTypeCiscoDiscovery.Decode(data, b) },
	fields: func(l gopacket.Layer) string {
		c := l.(*layers.CiscoDiscovery)
		var vs []string
		for _, v := range c.Values {
			vs = append(vs, fmt.Sprintf("%d.%d.%s", uint16(v.Type), v.Length, lnHex(v.Value)))
		}
		return fmt.Sprintf("v=%d;ttl=%d;ck=%d;nv=%d;vals=%s", c.Version, c.TTL, c.Checksum, len(c.Values), strings.Join(vs, "|"))
	},
	next: func(l gopacket.Layer, b *lmBuilder) string {
		if b == nil || !b.nextSet {
			return "none"
		}
		if _, ok := b.next.(gopacket.DecodeFunc); ok {
			return "cdpinfo"
		}
		return fmt.Sprintf("other%T", b.next)
	},
	extra: func(l gopacket.Layer) []func() {
		c := l.(*layers.CiscoDiscovery)
		return []func(){func() {
			for _, v := range c.Values {
				_ = v.Type.String()
			}
		}}
	},
	tags: func(l gopacket.Layer, cls string, data []byte) []string {
		if c := l.(*layers.CiscoDiscovery); cls == "ok" && len(c.Values) > 1 {
			return []string{"several-values"}
		}
		return nil
	},
}

func (lcdp) Run(c Case) Result { return lmRun(lcdpDesc, c) }
func (lcdp) Gen(rng *rand.Rand, tier string) []Case {
	tlv := func(ty, ln int, v []byte) []byte { return append([]byte{byte(ty >> 8), byte(ty), byte(ln >> 8), byte(ln)}, v...) }
	hdr := func(rng *rand.Rand) []byte { return []byte{byte(lnPick(rng, 1, 2, 2, 2)), byte(rng.Intn(256)), byte(rng.Intn(256)), byte(rng.Intn(256))} }
	valid := func(rng *rand.Rand) []byte {
		p := hdr(rng)
		for k := lnPick(rng, 0, 1, 2, 3, 8); k > 0; k-- {
			n := lnPick(rng, 0, 1, 2, 5, 17, 40)
			p = append(p, tlv(lnPick(rng, 1, 2, 3, 4, 5, 6, 0x1a, 0x1f, 0, 65535), n+4, lnRandBytes(rng, n))...)
		}
		return p
	}
	return lmGen(lcdpDesc, lmGenCfg{valid: valid, hdrLen: func(p []byte) int { return len(p) },
		extra: func(rng *rand.Rand, add func(ops ...string)) {
			for v := 0; v < 256; v++ { // every version octet
				p := valid(rng)
				p[0] = byte(v)
				add("tag:octet-every-value", "dec:"+lnHex(p))
			}
			for _, rest := range []int{0, 1, 4, 20} { // length field of the last TLV: below the header, against what is left, extremes
				for _, ln := range []int{0, 1, 3, 4, 5, rest + 3, rest + 4, rest + 5, 255, 256, 65535} {
					add("tag:value-length-extreme", "dec:"+lnHex(append(append(hdr(rng), tlv(1, 6, []byte{65, 66})...), tlv(lnPick(rng, 1, 5, 9), ln, lnRandBytes(rng, rest))...)))
				}
			}
			for k := 0; k <= 4; k++ { // TLV header cut
				add("tag:value-header-cut", "dec:"+lnHex(append(hdr(rng), tlv(3, 4, nil)[:k]...)))
			}
			big := append(hdr(rng), tlv(1, 65535, lnRandBytes(rng, 65531))...)
			add("tag:value-length-extreme", "dec:"+lnHex(big))
			add("tag:value-length-extreme", "dec:"+lnHex(append(big, tlv(2, 5, []byte{1})...)))
			add("tag:value-length-extreme", "dec:"+lnHex(big[:len(big)-1]))
		}}, rng, tier)
}
