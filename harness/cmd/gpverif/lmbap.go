package main

// Lmbap: layers/modbus.go decoder sub-check (C19, C05, C01 for Modbus; no SerializeTo) including the registered decoder
// decodeModbus, which runs through layers/base.go decodingLayerDecoder.
// Ops: dec dec2 (lmisc_common.go) plus decf:<hex> — the registered decoder on a recording PacketBuilder; obs:
//   cls=..;tr=..;added=0|1;<fields>;c=..;p=..;next=none|<id>

import (
	"fmt"
	"math/rand"

	"github.com/gopacket/gopacket"
	"github.com/gopacket/gopacket/layers"
)

type lmbap struct{}

func init() { register("Lmbap", lmbap{}) }

var lmbapDesc = &lmDesc{
	id: "Lmbap", name: "Modbus",
	fresh: func() gopacket.Layer { return &layers.Modbus{} },
	decode: func(l gopacket.Layer, data []byte, fb gopacket.DecodeFeedback) error {
		return l.(*layers.Modbus).DecodeFromBytes(data, fb)
	},
	fields: func(l gopacket.Layer) string {
		m := l.(*layers.Modbus)
		v := 0
		if err := m.Validate(); err == layers.ErrModbusInvalidProtocol {
			v = 1
		} else if err != nil {
			v = 2
		}
		return fmt.Sprintf("tid=%d;pid=%d;len=%d;unit=%d;fc=%d;exc=%s;rr=%s;valid=%d;ec=%d", m.TransactionID, m.ProtocolID, m.Length, m.UnitID, m.FunctionCode,
			lnB(m.Exception), lnHex(m.ReqResp), v, byte(m.GetExceptionCode()))
	},
	next: lmNextConst(gopacket.LayerTypeZero, "zero", func(l gopacket.Layer) gopacket.LayerType { return l.(*layers.Modbus).NextLayerType() }),
	extra: func(l gopacket.Layer) []func() {
		m := l.(*layers.Modbus)
		return []func(){func() {
			_ = m.Validate()
			_ = m.IsException()
			_ = m.GetFunction().String()
			_ = m.GetExceptionCode().String()
			_ = m.CanDecode()
		}}
	},
	tags: func(l gopacket.Layer, cls string, data []byte) []string {
		m := l.(*layers.Modbus)
		var t []string
		if cls == "ok" && m.Exception {
			t = append(t, "exception-response")
		}
		if cls == "ok" && len(m.Payload) > 0 {
			t = append(t, "trailing-bytes-as-payload")
		}
		if cls == "ok" && len(m.ReqResp) == 0 {
			t = append(t, "empty-data")
		}
		if cls == "err" && len(data) >= 8 {
			t = append(t, "error-after-fields-set")
		}
		return t
	},
}

func (lmbap) Run(c Case) (res Result) {
	fn := false
	for _, op := range c.Ops {
		if name, _ := lnOp(op); name == "decf" {
			fn = true
		}
	}
	if !fn {
		return lmRun(lmbapDesc, c)
	}
	d := lmbapDesc
	for _, op := range c.Ops {
		name, a := lnOp(op)
		switch name {
		case "tag":
			res.Tags = append(res.Tags, a[0])
		case "decf":
			data := lnCopy(lnUnhex(a[0]))
			b := &lmBuilder{}
			cls := lnClass(func() error { return layers.LayerTypeModbus.Decode(data, b) })
			var l gopacket.Layer = d.fresh()
			if len(b.layers) > 0 {
				l = b.layers[0]
			}
			c, p := lmBase(l)
			nx := "none"
			if b.nextSet {
				nx = fmt.Sprintf("%v", b.next)
			}
			res.Obs = append(res.Obs, fmt.Sprintf("cls=%s;tr=%s;added=%d;%s;c=%s;p=%s;next=%s", cls, lnB(b.tr), len(b.layers), d.fields(l), lnHex(c), lnHex(p), nx))
			if cls == "panic" {
				res.Oracle = append(res.Oracle, "C19:panic\tdecodeModbus panicked")
			}
			if (cls == "ok") != (len(b.layers) == 1) {
				res.Oracle = append(res.Oracle, fmt.Sprintf("C01:error-discipline\tdecoder class %s but %d layers added", cls, len(b.layers)))
			}
			if lnRender(l, d.extra(l)...) != "ok" {
				res.Oracle = append(res.Oracle, "C01:render-panic\trenderer/accessor panicked after decoder class "+cls)
			}
			if cls == "err" {
				res.Tags = append(res.Tags, "decode-error")
			}
			res.Tags = append(res.Tags, "registered-decoder")
		default:
			panic("Lmbap: op " + op + " mixed with decf")
		}
	}
	return
}

// mbqBuild: length field = consistent + delta; rr request/response octets; trailing octets
func mbqBuild(rng *rand.Rand, fc int, rr int, delta int, trail int) []byte {
	h := make([]byte, 8)
	lmPut16(h[0:], rng.Intn(65536))
	lmPut16(h[2:], lnPick(rng, 0, 0, 0, 1, 65535))
	v := rr + 2 + delta
	if v < 0 {
		v = 0
	}
	lmPut16(h[4:], v)
	h[6] = byte(rng.Intn(256))
	h[7] = byte(fc)
	h = append(h, lnRandBytes(rng, rr)...)
	return append(h, lnRandBytes(rng, trail)...)
}

func (lmbap) Gen(rng *rand.Rand, tier string) []Case {
	valid := func(rng *rand.Rand) []byte {
		return mbqBuild(rng, lnPick(rng, 1, 3, 16, 0x81, 0x83, 0x2b, 0, 255), lnPick(rng, 0, 1, 2, 4, 5, 100, 252), lnPick(rng, 0, 0, 0, 0, 1, -1), lnPick(rng, 0, 0, 0, 3, 12))
	}
	g := lmGenCfg{
		valid:  valid,
		hdrLen: func(p []byte) int { if len(p) > 14 { return 14 }; return len(p) },
		seeds:  lsTCPPayloads(502),
		extra: func(rng *rand.Rand, add func(ops ...string)) {
			both := func(tag string, p []byte) {
				add("tag:"+tag, "dec:"+lnHex(p))
				add("tag:"+tag, "decf:"+lnHex(p))
				add("tag:"+tag, "dec2:"+lnHex(mbqBuild(rng, 0x83, 3, 0, 2))+","+lnHex(p))
			}
			// length field 0, 1, 2 (end = 6, 7, 8), right, off by one, 255/256, 65535, with 0..3 data octets present
			for _, rr := range []int{0, 1, 3} {
				for _, lf := range []int{0, 1, 2, 3, rr + 1, rr + 2, rr + 3, 255, 256, 65529, 65530, 65535} {
					p := mbqBuild(rng, 3, rr, 0, 0)
					lmPut16(p[4:], lf)
					both("length-extreme", p)
				}
			}
			// every function code, with one data octet (the exception code when the high bit is set) and without
			for fc := 0; fc < 256; fc++ {
				both("function-code-every-value", mbqBuild(rng, fc, 1, 0, 0))
				add("tag:function-code-every-value", "dec:"+lnHex(mbqBuild(rng, fc, 0, 0, 0)))
			}
			// every truncation through the registered decoder too; trailing octets
			p := mbqBuild(rng, 0x90, 4, 0, 3)
			for k := 0; k <= len(p); k++ {
				add("tag:truncated-prefix-of-valid", "decf:"+lnHex(p[:k]))
			}
			for i := 0; i < 40; i++ {
				add("decf:" + lnHex(valid(rng)))
				add("tag:malformed", "decf:"+lnHex(lnRandBytes(rng, lnPick(rng, 0, 1, 7, 8, 9, 12, 30))))
			}
		},
	}
	return lmGen(lmbapDesc, g, rng, tier)
}
