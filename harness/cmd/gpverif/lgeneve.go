package main

// Lgeneve: layers/geneve.go codec sub-check (C19, C05, C06, C07, C01 for Geneve, as repaired on agent-fixer).
// Ops: dec dec2 ser rt (lmisc_common.go) plus
//   new:<ver>.<optlen>.<oam>.<crit>.<proto>.<vni>.<opts>,<fcd>,<payloadhex>  and rtn: likewise, where <opts> is "-" or
//   options joined by "+", each <class>~<type>~<flags>~<length>~<datahex>.

import (
	"fmt"
	"math/rand"
	"strings"

	"github.com/gopacket/gopacket"
	"github.com/gopacket/gopacket/layers"
)

type lgeneve struct{}

func init() { register("Lgeneve", lgeneve{}) }

func gnOpts(os []*layers.GeneveOption) string {
	s := make([]string, len(os))
	for i, o := range os {
		s[i] = fmt.Sprintf("%d~%d~%d~%d~%s", o.Class, o.Type, o.Flags, o.Length, lnHex(o.Data))
	}
	return strings.Join(s, "+")
}

var lgeneveDesc = &lmDesc{
	id: "Lgeneve", name: "Geneve", ser: true,
	fresh: func() gopacket.Layer { return &layers.Geneve{} },
	decode: func(l gopacket.Layer, data []byte, fb gopacket.DecodeFeedback) error {
		return l.(*layers.Geneve).DecodeFromBytes(data, fb)
	},
	fields: func(l gopacket.Layer) string {
		g := l.(*layers.Geneve)
		return fmt.Sprintf("ver=%d;ol=%d;oam=%s;crit=%s;proto=%d;vni=%d;opts=%s", g.Version, g.OptionsLength, lnB(g.OAMPacket), lnB(g.CriticalOption),
			uint16(g.Protocol), g.VNI, gnOpts(g.Options))
	},
	next: func(l gopacket.Layer, _ *lmBuilder) string {
		g := l.(*layers.Geneve)
		if g.NextLayerType() == g.Protocol.LayerType() {
			return fmt.Sprint(uint16(g.Protocol))
		}
		return fmt.Sprintf("other%d", g.NextLayerType())
	},
	fromSpec: func(spec string) gopacket.Layer {
		f := strings.Split(spec, ".")
		g := &layers.Geneve{Version: uint8(lnAtoi(f[0])), OptionsLength: uint8(lnAtoi(f[1])), OAMPacket: f[2] == "1", CriticalOption: f[3] == "1",
			Protocol: layers.EthernetType(lnAtoi(f[4])), VNI: uint32(lnAtoi(f[5]))}
		if f[6] != "-" {
			for _, o := range strings.Split(f[6], "+") {
				q := strings.Split(o, "~")
				g.Options = append(g.Options, &layers.GeneveOption{Class: uint16(lnAtoi(q[0])), Type: uint8(lnAtoi(q[1])), Flags: uint8(lnAtoi(q[2])), Length: uint8(lnAtoi(q[3])), Data: lnUnhex(q[4])})
			}
		}
		return g
	},
	// C06 hypothesis: 2-bit version, 24-bit VNI, option data in whole words of at most 124 octets, 3-bit flags, at most 252 option octets
	inDomain: func(l gopacket.Layer, _ []byte) bool {
		g := l.(*layers.Geneve)
		total := 0
		for _, o := range g.Options {
			if len(o.Data)%4 != 0 || len(o.Data) > 124 || o.Flags > 7 {
				return false
			}
			total += 4 + len(o.Data)
		}
		return g.Version < 4 && g.VNI < 1<<24 && total <= 252
	},
	tags: func(l gopacket.Layer, cls string, data []byte) []string {
		g := l.(*layers.Geneve)
		var t []string
		if cls == "ok" && len(g.Options) > 0 {
			t = append(t, "options")
		}
		if cls == "err" && len(data) >= 8 && len(g.Options) > 0 {
			t = append(t, "error-after-add")
		}
		if cls == "err" && len(data) >= 8 {
			t = append(t, "error-after-fields-set")
		}
		return t
	},
}

func (lgeneve) Run(c Case) Result { return lmRun(lgeneveDesc, c) }

// gnBuild: header with the options given as (declared 5-bit length field, bytes present) pairs
func gnBuild(rng *rand.Rand, b0hi int, optWords int, opts [][2]int, payload []byte) []byte {
	h := make([]byte, 8)
	h[0] = byte(b0hi<<6 | optWords&0x3f)
	h[1] = byte(lnPick(rng, 0, 0x80, 0x40, 0xc0, 0xff, rng.Intn(256)))
	lmPut16(h[2:], lnPick(rng, 0x6558, 0x0800, 0x86dd, 0, 65535))
	lmPut32(h[4:], uint32(lnPick(rng, 0, 1, 0xffffff, rng.Intn(1<<24)))<<8|uint32(lnPick(rng, 0, 0, 0xff)))
	for _, o := range opts {
		oh := []byte{byte(rng.Intn(256)), byte(rng.Intn(256)), byte(rng.Intn(256)), byte(rng.Intn(8)<<5 | o[0]&0x1f)}
		h = append(h, oh...)
		h = append(h, lnRandBytes(rng, o[1])...)
	}
	return append(h, payload...)
}

func (lgeneve) Gen(rng *rand.Rand, tier string) []Case {
	valid := func(rng *rand.Rand) []byte {
		k := lnPick(rng, 0, 0, 1, 2, 3, 5)
		var opts [][2]int
		words := 0
		for i := 0; i < k; i++ {
			w := lnPick(rng, 0, 1, 2, 3, 7)
			opts = append(opts, [2]int{w, 4 * w})
			words += 1 + w
		}
		switch rng.Intn(8) {
		case 0:
			words += lnPick(rng, 1, -1, 2) // options area longer / shorter than the options
		case 1:
			if k > 0 {
				opts[k-1][0] += lnPick(rng, 1, 3, 31) // last option claims more than is there
			}
		}
		if words < 0 {
			words = 0
		}
		return gnBuild(rng, lnPick(rng, 0, 0, 0, 1, 2, 3), words, opts, lnRandBytes(rng, lnPick(rng, 0, 1, 14, 33)))
	}
	g := lmGenCfg{
		valid: valid,
		hdrLen: func(p []byte) int { if len(p) < 1 { return 0 }; return 8 + 4*int(p[0]&0x3f) },
		residue: func(rng *rand.Rand) []byte {
			return gnBuild(rng, 3, 6, [][2]int{{1, 4}, {2, 8}, {0, 0}}, []byte{1, 2, 3})
		},
		n: 50,
		spec: func(rng *rand.Rand) string {
			k := lnPick(rng, 0, 1, 2, 3)
			var os []string
			for i := 0; i < k; i++ {
				dl := lnPick(rng, 0, 4, 8, 124, 128, 3, 5, 6, 252)
				os = append(os, fmt.Sprintf("%d~%d~%d~%d~%s", lnPick(rng, 0, 0x0102, 65535), rng.Intn(256), lnPick(rng, 0, 1, 7, 8, 255), lnPick(rng, 4+dl&^3, 0, 3, 4, 255)%256, lnHex(lnRandBytes(rng, dl))))
			}
			o := "-"
			if k > 0 {
				o = strings.Join(os, "+")
			}
			return fmt.Sprintf("%d.%d.%d.%d.%d.%d.%s", lnPick(rng, 0, 1, 3, 4, 255), lnPick(rng, 0, 4, 8, 252, 255, 3), rng.Intn(2), rng.Intn(2), lnPick(rng, 0x6558, 0, 65535),
				lnPick(rng, 0, 1, 0xffffff, 0x1000000, 0xffffffff), o)
		},
		seeds: lmUDPSeeds(6081),
		extra: func(rng *rand.Rand, add func(ops ...string)) {
			// options length field 0,1,max against what is present; option length field 0,1,31 at the end of the area
			for _, words := range []int{0, 1, 2, 32, 62, 63} {
				for _, d := range []int{-1, 0, 1} {
					n := 4*words + d
					if n < 0 {
						continue
					}
					p := gnBuild(rng, 0, words, nil, nil)
					p = append(p, make([]byte, n)...) // zero options: each 4 zero octets is an empty option
					add("tag:option-length-extreme", "dec:"+lnHex(p))
					add("tag:option-length-extreme", "dec2:"+lnHex(gnBuild(rng, 1, 3, [][2]int{{2, 8}}, nil))+","+lnHex(p))
					if words <= 2 {
						add("tag:option-length-extreme", "rt:"+lnHex(p)+",0102")
					}
				}
			}
			for _, w := range []int{0, 1, 30, 31} {
				for _, area := range []int{1, w + 1, w + 2, 63} {
					p := gnBuild(rng, 0, area, [][2]int{{w, 4 * w}}, make([]byte, 4*64))
					add("tag:option-length-extreme", "dec:"+lnHex(p))
					add("tag:option-length-extreme", "ser:"+lnHex(p)+","+lnFCD[rng.Intn(len(lnFCD))]+",00")
				}
			}
			// 63 empty options (the fuel bound of the model)
			p := gnBuild(rng, 0, 63, nil, nil)
			p = append(p, make([]byte, 252)...)
			add("tag:max-options", "dec:"+lnHex(p))
			add("tag:max-options", "rt:"+lnHex(p)+",01")
			for b := 0; b < 256; b++ { // every first byte (version, options length)
				add("tag:first-byte-every-value", "dec:"+lnHex(append([]byte{byte(b), 0, 0x65, 0x58, 0, 0, 1, 0}, make([]byte, 40)...)))
			}
		},
	}
	return lmGen(lgeneveDesc, g, rng, tier)
}
