package main

// Lusbsub: the content-only USB sub-layers of layers/usb.go — USBControl, USBInterrupt, USBBulk (C19, C05, C01; no SerializeTo).
// The first op selects the type: L:control, L:interrupt or L:bulk; then dec / dec2 / decf (the registered decoder function).

import (
	"math/rand"

	"github.com/gopacket/gopacket"
	"github.com/gopacket/gopacket/layers"
)

type lusbsub struct{}

func init() { register("Lusbsub", lusbsub{}) }

func lusbsubDesc(name string, fresh func() gopacket.Layer, dec func(gopacket.Layer, []byte, gopacket.DecodeFeedback) error, nx func(gopacket.Layer) gopacket.LayerType) *lmDesc {
	return &lmDesc{id: "Lusbsub", name: name, fresh: fresh, decode: dec,
		fields: func(l gopacket.Layer) string { return "k=" + name },
		next:   lmNextConst(gopacket.LayerTypePayload, "payload", nx),
		extra: func(l gopacket.Layer) []func() {
			return []func(){func() { _ = l.LayerType().String() }}
		}}
}

var lusbsubDescs = map[string]*lmDesc{
	"L:control": lusbsubDesc("USBControl", func() gopacket.Layer { return &layers.USBControl{} },
		func(l gopacket.Layer, d []byte, fb gopacket.DecodeFeedback) error { return l.(*layers.USBControl).DecodeFromBytes(d, fb) },
		func(l gopacket.Layer) gopacket.LayerType { return l.(*layers.USBControl).NextLayerType() }),
	"L:interrupt": lusbsubDesc("USBInterrupt", func() gopacket.Layer { return &layers.USBInterrupt{} },
		func(l gopacket.Layer, d []byte, fb gopacket.DecodeFeedback) error { return l.(*layers.USBInterrupt).DecodeFromBytes(d, fb) },
		func(l gopacket.Layer) gopacket.LayerType { return l.(*layers.USBInterrupt).NextLayerType() }),
	"L:bulk": lusbsubDesc("USBBulk", func() gopacket.Layer { return &layers.USBBulk{} },
		func(l gopacket.Layer, d []byte, fb gopacket.DecodeFeedback) error { return l.(*layers.USBBulk).DecodeFromBytes(d, fb) },
		func(l gopacket.Layer) gopacket.LayerType { return l.(*layers.USBBulk).NextLayerType() }),
}
var lusbsubTypes = map[string]gopacket.LayerType{"L:control": layers.LayerTypeUSBControl, "L:interrupt": layers.LayerTypeUSBInterrupt, "L:bulk": layers.LayerTypeUSBBulk}

func (lusbsub) Run(c Case) Result {
	d, ok := lusbsubDescs[c.Ops[0]]
	if !ok {
		panic("Lusbsub: first op must be L:control, L:interrupt or L:bulk")
	}
	rest := Case{Prop: c.Prop, Ops: c.Ops[1:]}
	var r Result
	if lsHasDecf(rest) {
		r = lsRunDecf(lsDecfCfg{d: d, lt: lusbsubTypes[c.Ops[0]], next: func(l gopacket.Layer, b *lmBuilder) string {
			if b.next == gopacket.Decoder(gopacket.LayerTypePayload) {
				return "t0"
			}
			return "other"
		}}, rest)
	} else {
		r = lmRun(d, rest)
	}
	r.Tags = append(r.Tags, "kind-"+c.Ops[0][2:])
	return r
}

func (lusbsub) Gen(rng *rand.Rand, tier string) []Case {
	var out []Case
	// usbmon packets of the test files: what follows the 40-octet header (and the setup block) is what these layers receive
	var seeds [][]byte
	for _, s := range lnSeeds() {
		if len(s) > 40 && len(s) < 200 && s[8] == 'S' || len(s) > 40 && len(s) < 200 && s[8] == 'C' {
			seeds = append(seeds, s[40:])
		}
	}
	for _, k := range []string{"L:control", "L:interrupt", "L:bulk"} {
		d := lusbsubDescs[k]
		g := lmGenCfg{valid: func(rng *rand.Rand) []byte { return lnRandBytes(rng, lnPick(rng, 0, 1, 2, 8, 9, 64, 300)) }, hdrLen: func(p []byte) int { return len(p) }, n: 20, seeds: seeds,
			residue: func(rng *rand.Rand) []byte { return lnRandBytes(rng, lnPick(rng, 1, 8, 100)) },
			extra: func(rng *rand.Rand, add func(ops ...string)) {
				for _, n := range []int{0, 1, 7, 8, 9, 1500, 65535} {
					p := lnRandBytes(rng, n)
					add("tag:length-extreme", "dec:"+lnHex(p))
					add("tag:length-extreme", "decf:"+lnHex(p))
					add("tag:length-extreme", "dec2:"+lnHex(lnRandBytes(rng, 9))+","+lnHex(p))
				}
				for i := 0; i < 20; i++ {
					add("decf:" + lnHex(lnRandBytes(rng, rng.Intn(40))))
				}
			}}
		for _, c := range lmGen(d, g, rng, tier) {
			out = append(out, Case{Prop: "Lusbsub", Ops: append([]string{k}, c.Ops...)})
		}
	}
	return out
}
