package main

// Lsflow: layers/sflow.go decoder sub-check (C19, C05, C01 for SFlowDatagram; there is no SerializeTo, so
// C06/C07 do not apply).  Ops: dec, dec2, tag (lmisc_common.go).
// Observed fields: header words and the decoded samples/records printed as generic trees —
// numbers in hex, byte strings as x<hex>, lists as [a,b,...] — exactly as runner/lsflow.ml prints the
// model's trees.  A record is [kind, fields...] where kind is fixed by the Go TYPE of the record.
// The packet embedded in a raw packet flow record is observed through Header.Data() only.

import (
	"fmt"
	"math/rand"
	"strconv"
	"strings"

	"github.com/gopacket/gopacket"
	"github.com/gopacket/gopacket/layers"
)

type lsflow struct{}

func init() { register("Lsflow", lsflow{}) }

func sfU(x uint64) string { return strconv.FormatUint(x, 16) }
func sfB(b []byte) string { return "x" + lnHex(b) }
func sfL(items ...string) string {
	return "[" + strings.Join(items, ",") + "]"
}
func sfUs(xs ...uint32) []string {
	out := make([]string, len(xs))
	for i, x := range xs {
		out[i] = sfU(uint64(x))
	}
	return out
}
func sfCat(parts ...[]string) string {
	var all []string
	for _, p := range parts {
		all = append(all, p...)
	}
	return sfL(all...)
}

func sfBaseF(k int, b layers.SFlowBaseFlowRecord) []string {
	return []string{sfU(uint64(k)), sfU(uint64(b.EnterpriseID)), sfU(uint64(b.Format)), sfU(uint64(b.FlowDataLength))}
}
func sfBaseC(k int, b layers.SFlowBaseCounterRecord) []string {
	return []string{sfU(uint64(k)), sfU(uint64(b.EnterpriseID)), sfU(uint64(b.Format)), sfU(uint64(b.FlowDataLength))}
}
func sfIP4(r layers.SFlowIpv4Record) []string {
	return []string{sfU(uint64(r.Length)), sfU(uint64(r.Protocol)), sfB(r.IPSrc), sfB(r.IPDst), sfU(uint64(r.PortSrc)), sfU(uint64(r.PortDst)), sfU(uint64(r.TCPFlags)), sfU(uint64(r.TOS))}
}
func sfIP6(r layers.SFlowIpv6Record) []string {
	return []string{sfU(uint64(r.Length)), sfU(uint64(r.Protocol)), sfB(r.IPSrc), sfB(r.IPDst), sfU(uint64(r.PortSrc)), sfU(uint64(r.PortDst)), sfU(uint64(r.TCPFlags)), sfU(uint64(r.Priority))}
}

func sfRec(r layers.SFlowRecord) string {
	switch v := r.(type) {
	case layers.SFlowRawPacketFlowRecord:
		var hd []byte
		if v.Header != nil {
			hd = v.Header.Data()
		}
		return sfCat(sfBaseF(1, v.SFlowBaseFlowRecord), sfUs(uint32(v.HeaderProtocol), v.FrameLength, v.PayloadRemoved, v.HeaderLength), []string{sfB(hd)})
	case layers.SFlowEthernetFrameFlowRecord:
		return sfCat(sfBaseF(2, v.SFlowBaseFlowRecord), sfUs(v.FrameLength), []string{sfB(v.SrcMac), sfB(v.DstMac)}, sfUs(v.Type))
	case layers.SFlowIpv4Record:
		return sfCat([]string{"3"}, sfIP4(v))
	case layers.SFlowIpv6Record:
		return sfCat([]string{"4"}, sfIP6(v))
	case layers.SFlowExtendedSwitchFlowRecord:
		return sfCat(sfBaseF(1001, v.SFlowBaseFlowRecord), sfUs(v.IncomingVLAN, v.IncomingVLANPriority, v.OutgoingVLAN, v.OutgoingVLANPriority))
	case layers.SFlowExtendedRouterFlowRecord:
		return sfCat(sfBaseF(1002, v.SFlowBaseFlowRecord), []string{sfB(v.NextHop)}, sfUs(v.NextHopSourceMask, v.NextHopDestinationMask))
	case layers.SFlowExtendedGatewayFlowRecord:
		paths := make([]string, len(v.ASPath))
		for i, p := range v.ASPath {
			paths[i] = sfL(sfU(uint64(p.Type)), sfU(uint64(p.Count)), sfL(sfUs(p.Members...)...))
		}
		return sfCat(sfBaseF(1003, v.SFlowBaseFlowRecord), []string{sfB(v.NextHop)}, sfUs(v.AS, v.SourceAS, v.PeerAS, v.ASPathCount),
			[]string{sfL(paths...), sfL(sfUs(v.Communities...)...)}, sfUs(v.LocalPref))
	case layers.SFlowExtendedUserFlow:
		return sfCat(sfBaseF(1004, v.SFlowBaseFlowRecord), sfUs(uint32(v.SourceCharSet)), []string{sfB([]byte(v.SourceUserID))}, sfUs(uint32(v.DestinationCharSet)), []string{sfB([]byte(v.DestinationUserID))})
	case layers.SFlowExtendedURLRecord:
		return sfCat(sfBaseF(1005, v.SFlowBaseFlowRecord), sfUs(uint32(v.Direction)), []string{sfB([]byte(v.URL)), sfB([]byte(v.Host))})
	case layers.SFlowExtendedIpv4TunnelEgressRecord:
		return sfCat(sfBaseF(1023, v.SFlowBaseFlowRecord), sfIP4(v.SFlowIpv4Record))
	case layers.SFlowExtendedIpv4TunnelIngressRecord:
		return sfCat(sfBaseF(1024, v.SFlowBaseFlowRecord), sfIP4(v.SFlowIpv4Record))
	case layers.SFlowExtendedIpv6TunnelEgressRecord:
		return sfCat(sfBaseF(1025, v.SFlowBaseFlowRecord), sfIP6(v.SFlowIpv6Record))
	case layers.SFlowExtendedIpv6TunnelIngressRecord:
		return sfCat(sfBaseF(1026, v.SFlowBaseFlowRecord), sfIP6(v.SFlowIpv6Record))
	case layers.SFlowExtendedDecapsulateEgressRecord:
		return sfCat(sfBaseF(1027, v.SFlowBaseFlowRecord), sfUs(v.InnerHeaderOffset))
	case layers.SFlowExtendedDecapsulateIngressRecord:
		return sfCat(sfBaseF(1028, v.SFlowBaseFlowRecord), sfUs(v.InnerHeaderOffset))
	case layers.SFlowExtendedVniEgressRecord:
		return sfCat(sfBaseF(1029, v.SFlowBaseFlowRecord), sfUs(v.VNI))
	case layers.SFlowExtendedVniIngressRecord:
		return sfCat(sfBaseF(1030, v.SFlowBaseFlowRecord), sfUs(v.VNI))
	case layers.SFlowGenericInterfaceCounters:
		return sfCat(sfBaseC(1, v.SFlowBaseCounterRecord), sfUs(v.IfIndex, v.IfType), []string{sfU(v.IfSpeed)}, sfUs(v.IfDirection, v.IfStatus), []string{sfU(v.IfInOctets)},
			sfUs(v.IfInUcastPkts, v.IfInMulticastPkts, v.IfInBroadcastPkts, v.IfInDiscards, v.IfInErrors, v.IfInUnknownProtos), []string{sfU(v.IfOutOctets)},
			sfUs(v.IfOutUcastPkts, v.IfOutMulticastPkts, v.IfOutBroadcastPkts, v.IfOutDiscards, v.IfOutErrors, v.IfPromiscuousMode))
	case layers.SFlowEthernetCounters:
		return sfCat(sfBaseC(2, v.SFlowBaseCounterRecord), sfUs(v.AlignmentErrors, v.FCSErrors, v.SingleCollisionFrames, v.MultipleCollisionFrames, v.SQETestErrors,
			v.DeferredTransmissions, v.LateCollisions, v.ExcessiveCollisions, v.InternalMacTransmitErrors, v.CarrierSenseErrors, v.FrameTooLongs, v.InternalMacReceiveErrors, v.SymbolErrors))
	case layers.SFlowVLANCounters:
		return sfCat(sfBaseC(5, v.SFlowBaseCounterRecord), sfUs(v.VlanID), []string{sfU(v.Octets)}, sfUs(v.UcastPkts, v.MulticastPkts, v.BroadcastPkts, v.Discards))
	case layers.SFlowLACPCounters:
		return sfCat(sfBaseC(7, v.SFlowBaseCounterRecord), []string{sfB(v.ActorSystemID), sfB(v.PartnerSystemID)}, sfUs(v.AttachedAggID, v.LacpPortState.PortStateAll,
			v.LACPDUsRx, v.MarkerPDUsRx, v.MarkerResponsePDUsRx, v.UnknownRx, v.IllegalRx, v.LACPDUsTx, v.MarkerPDUsTx, v.MarkerResponsePDUsTx))
	case layers.SFlowProcessorCounters:
		return sfCat(sfBaseC(1001, v.SFlowBaseCounterRecord), sfUs(v.FiveSecCpu, v.OneMinCpu, v.FiveMinCpu), []string{sfU(v.TotalMemory), sfU(v.FreeMemory)})
	case layers.SFlowOpenflowPortCounters:
		return sfCat(sfBaseC(1004, v.SFlowBaseCounterRecord), []string{sfU(v.DatapathID)}, sfUs(v.PortNo))
	case layers.SFlowPORTNAME:
		return sfCat(sfBaseC(1005, v.SFlowBaseCounterRecord), sfUs(v.Len), []string{sfB([]byte(v.Str))})
	case layers.SFlowAppresourcesCounters:
		return sfCat(sfBaseC(2203, v.SFlowBaseCounterRecord), sfUs(v.UserTime, v.SystemTime), []string{sfU(v.MemUsed), sfU(v.MemMax)}, sfUs(v.FdOpen, v.FdMax, v.ConnOpen, v.ConnMax))
	case layers.SFlowOVSDPCounters:
		return sfCat(sfBaseC(2207, v.SFlowBaseCounterRecord), sfUs(v.NHit, v.NMissed, v.NLost, v.NMaskHit, v.NFlows, v.NMasks))
	}
	return fmt.Sprintf("unknown-record-type-%T", r)
}

func sfRecs(rs []layers.SFlowRecord) string {
	out := make([]string, len(rs))
	for i, r := range rs {
		out[i] = sfRec(r)
	}
	return sfL(out...)
}

func sfFields(l gopacket.Layer) string {
	s := l.(*layers.SFlowDatagram)
	fs := make([]string, len(s.FlowSamples))
	for i, f := range s.FlowSamples {
		fs[i] = sfCat(sfUs(uint32(f.EnterpriseID), uint32(f.Format), f.SampleLength, f.SequenceNumber, uint32(f.SourceIDClass), uint32(f.SourceIDIndex),
			f.SamplingRate, f.SamplePool, f.Dropped, f.InputInterfaceFormat, f.InputInterface, f.OutputInterfaceFormat, f.OutputInterface, f.RecordCount), []string{sfRecs(f.Records)})
	}
	cs := make([]string, len(s.CounterSamples))
	for i, c := range s.CounterSamples {
		cs[i] = sfCat(sfUs(uint32(c.EnterpriseID), uint32(c.Format), c.SampleLength, c.SequenceNumber, uint32(c.SourceIDClass), uint32(c.SourceIDIndex), c.RecordCount), []string{sfRecs(c.Records)})
	}
	return fmt.Sprintf("ver=%x;agent=%s;sub=%x;seq=%x;up=%x;n=%x;fs=%s;cs=%s", s.DatagramVersion, lnHex(s.AgentAddress), s.SubAgentID, s.SequenceNumber,
		s.AgentUptime, s.SampleCount, sfL(fs...), sfL(cs...))
}

// the String methods and accessors of the file, on everything the decoder left behind
func sfExtra(l gopacket.Layer) []func() {
	s := l.(*layers.SFlowDatagram)
	return []func(){func() {
		_ = s.Payload()
		_ = s.NextLayerType()
		_ = s.CanDecode()
		recs := func(rs []layers.SFlowRecord) {
			for _, r := range rs {
				_ = fmt.Sprintf("%v", r)
				switch v := r.(type) {
				case layers.SFlowRawPacketFlowRecord:
					_ = v.GetType().String()
					_ = v.HeaderProtocol.String()
					if v.Header != nil {
						_ = v.Header.String()
						_ = v.Header.Dump()
					}
				case layers.SFlowExtendedGatewayFlowRecord:
					_ = v.GetType().String()
					for _, p := range v.ASPath {
						_ = p.String()
						_ = p.Type.String()
					}
				case layers.SFlowExtendedURLRecord:
					_ = v.Direction.String()
				case layers.SFlowExtendedUserFlow:
					_ = v.GetType().String()
				case layers.SFlowGenericInterfaceCounters:
					_ = v.GetType().String()
				case layers.SFlowEthernetCounters:
					_ = v.GetType().String()
				case layers.SFlowVLANCounters:
					_ = v.GetType().String()
				case layers.SFlowLACPCounters:
					_ = v.GetType().String()
				case layers.SFlowProcessorCounters:
					_ = v.GetType().String()
				case layers.SFlowOpenflowPortCounters:
					_ = v.GetType().String()
				case layers.SFlowPORTNAME:
					_ = v.GetType().String()
				case layers.SFlowAppresourcesCounters:
					_ = v.GetType().String()
				case layers.SFlowOVSDPCounters:
					_ = v.GetType().String()
				}
			}
		}
		for _, f := range s.FlowSamples {
			_ = f.GetType().String()
			_ = f.Format.String()
			_ = f.EnterpriseID.String()
			_ = f.SourceIDClass.String()
			recs(f.GetRecords())
		}
		for _, c := range s.CounterSamples {
			_ = c.GetType().String()
			_ = c.Format.String()
			_ = c.SourceIDClass.String()
			recs(c.GetRecords())
		}
	}}
}

var lsflowDesc = &lmDesc{
	id: "Lsflow", name: "SFlowDatagram", ser: false,
	fresh: func() gopacket.Layer { return &layers.SFlowDatagram{} },
	decode: func(l gopacket.Layer, data []byte, fb gopacket.DecodeFeedback) error {
		return l.(*layers.SFlowDatagram).DecodeFromBytes(data, fb)
	},
	fields: sfFields,
	next: func(l gopacket.Layer, _ *lmBuilder) string {
		if l.(*layers.SFlowDatagram).NextLayerType() == gopacket.LayerTypePayload {
			return "payload"
		}
		return "other"
	},
	extra: sfExtra,
	tags: func(l gopacket.Layer, cls string, data []byte) []string {
		s := l.(*layers.SFlowDatagram)
		var t []string
		n := len(s.FlowSamples) + len(s.CounterSamples)
		if cls == "err" && n > 0 {
			t = append(t, "error-after-add")
		}
		if cls == "err" && len(data) >= 28 {
			t = append(t, "error-after-fields-set")
		}
		if cls == "ok" && n > 1 {
			t = append(t, "multi-sample")
		}
		if int64(s.SampleCount)*8 > int64(len(data)) && len(data) >= 28 {
			t = append(t, "count-exceeds-data")
		}
		nrec, want := 0, int64(0)
		for _, f := range s.FlowSamples {
			nrec += len(f.Records)
			want += int64(f.RecordCount)
			for _, r := range f.Records {
				switch v := r.(type) {
				case layers.SFlowRawPacketFlowRecord:
					t = append(t, "raw-header")
				case layers.SFlowExtendedGatewayFlowRecord:
					t = append(t, "gateway-record")
					if len(v.ASPath) > 1 {
						t = append(t, "multi-as-path")
					}
				case layers.SFlowExtendedURLRecord, layers.SFlowExtendedUserFlow:
					t = append(t, "string-record")
				}
			}
		}
		for _, c := range s.CounterSamples {
			nrec += len(c.Records)
			want += int64(c.RecordCount)
		}
		if cls == "ok" && int64(nrec) < want {
			t = append(t, "skipped-record")
		}
		return t
	},
}

func (lsflow) Run(c Case) Result { return lmRun(lsflowDesc, c) }

// ---------------------------------------------------------------- builders (by the harness, not the library)

func sfW(vs ...uint32) []byte {
	b := make([]byte, 4*len(vs))
	for i, v := range vs {
		lmPut32(b[4*i:], v)
	}
	return b
}

func sfCatB(parts ...[]byte) []byte {
	var out []byte
	for _, p := range parts {
		out = append(out, p...)
	}
	return append([]byte(nil), out...)
}

func sfXdr(s []byte) []byte { // length word, bytes, zero padding
	out := append(sfW(uint32(len(s))), s...)
	for len(out)%4 != 0 {
		out = append(out, 0)
	}
	return out
}

func sfAddr(rng *rand.Rand, t uint32) []byte {
	switch t {
	case 1:
		return append(sfW(1), lnRandBytes(rng, 4)...)
	case 2:
		return append(sfW(2), lnRandBytes(rng, 16)...)
	}
	return sfW(t)
}

func sfHeader(rng *rand.Rand, atype uint32, count uint32) []byte {
	return sfCatB(sfW(5), sfAddr(rng, atype), sfW(rng.Uint32(), rng.Uint32(), rng.Uint32(), count))
}

var sfFlowKinds = []int{1, 2, 3, 4, 1001, 1002, 1003, 1004, 1005, 1006, 1007, 1008, 1009, 1010, 1011, 1012, 1023, 1024, 1025, 1026, 1027, 1028, 1029, 1030, 9, 2000}
var sfCounterKinds = []int{1, 2, 3, 4, 5, 7, 1001, 1004, 1005, 2203, 2207, 6, 999}

// bodies of fixed size (octets behind tag and length words)
var sfFlowBody = map[int]int{2: 24, 3: 24, 4: 48, 1001: 16, 1023: 32, 1024: 32, 1025: 56, 1026: 56, 1027: 4, 1028: 4, 1029: 4, 1030: 4}
var sfCounterBody = map[int]int{1: 88, 2: 52, 5: 28, 7: 56, 1001: 28, 1004: 12, 2203: 40, 2207: 24}

func sfSmallU32(rng *rand.Rand) uint32 {
	switch rng.Intn(4) {
	case 0:
		return uint32(rng.Intn(4))
	case 1:
		return rng.Uint32()
	}
	return uint32(rng.Intn(70000))
}

func sfFlowRecord(rng *rand.Rand, ty int, ent uint32) []byte {
	var body []byte
	if n, ok := sfFlowBody[ty]; ok && ent == 0 {
		body = lnRandBytes(rng, n)
	} else if ent != 0 {
		body = lnRandBytes(rng, lnPick(rng, 0, 4, 8, 12, 5, 6, 7, 1, 3, 20))
	} else {
		switch ty {
		case 1:
			var hdr []byte
			seeds := lnSeeds()
			if len(seeds) > 0 && rng.Intn(3) > 0 {
				s := seeds[rng.Intn(len(seeds))]
				k := lnPick(rng, 14, 15, 18, 34, 35, 42, 54, 60, 64)
				if k > len(s) {
					k = len(s)
				}
				hdr = s[:k]
			} else {
				hdr = lnRandBytes(rng, rng.Intn(40))
			}
			body = sfCatB(sfW(uint32(rng.Intn(16)), sfSmallU32(rng), sfSmallU32(rng)), sfXdr(hdr))
		case 1002:
			body = sfCatB(sfAddr(rng, uint32(lnPick(rng, 1, 1, 2, 2, 0, 3))), sfW(rng.Uint32(), rng.Uint32()))
		case 1003:
			body = sfCatB(sfAddr(rng, uint32(lnPick(rng, 1, 1, 2, 2, 0, 3))), sfW(rng.Uint32(), rng.Uint32(), rng.Uint32()))
			np := lnPick(rng, 0, 1, 1, 2, 3)
			body = append(body, sfW(uint32(np))...)
			for i := 0; i < np; i++ {
				nm := lnPick(rng, 0, 1, 2, 3, 5)
				body = append(body, sfW(uint32(lnPick(rng, 1, 2, 2, 0, 7)), uint32(nm))...)
				body = append(body, lnRandBytes(rng, 4*nm)...)
			}
			nc := lnPick(rng, 0, 1, 2, 6)
			body = append(body, sfW(uint32(nc))...)
			body = append(body, lnRandBytes(rng, 4*nc)...)
			body = append(body, sfW(rng.Uint32())...)
		case 1004:
			body = sfCatB(sfW(uint32(rng.Intn(120))), sfXdr(lnRandBytes(rng, rng.Intn(9))), sfW(uint32(rng.Intn(2300))), sfXdr(lnRandBytes(rng, rng.Intn(9))))
		case 1005:
			body = sfCatB(sfW(uint32(rng.Intn(4))), sfXdr(lnRandBytes(rng, rng.Intn(11))), sfXdr(lnRandBytes(rng, rng.Intn(9))))
		default:
			body = lnRandBytes(rng, lnPick(rng, 0, 4, 8, 12, 5, 6, 7, 1, 3, 20))
		}
	}
	ln := uint32(len(body))
	if ty == 3 || ty == 4 {
		// decodeSFlowIpv{4,6}Record has no tag/length header of its own: the two words are read as Length and Protocol
		return sfCatB(sfW(ent<<12|uint32(ty), ln), body)
	}
	return sfCatB(sfW(ent<<12|uint32(ty), ln), body)
}

func sfCounterRecord(rng *rand.Rand, ty int, ent uint32) []byte {
	var body []byte
	if n, ok := sfCounterBody[ty]; ok {
		body = lnRandBytes(rng, n)
	} else if ty == 1005 {
		body = sfXdr(lnRandBytes(rng, rng.Intn(13)))
	} else {
		body = lnRandBytes(rng, lnPick(rng, 0, 4, 8, 12, 5, 6, 7, 1, 3, 20))
	}
	return sfCatB(sfW(ent<<12|uint32(ty), uint32(len(body))), body)
}

// sample header; returns the bytes and the offset of the record count word
func sfSample(rng *rand.Rand, ty int, ent uint32, recs [][]byte) []byte {
	var h []byte
	src := rng.Uint32()
	switch ty {
	case 1:
		h = sfW(rng.Uint32(), src, sfSmallU32(rng), sfSmallU32(rng), sfSmallU32(rng), rng.Uint32(), rng.Uint32())
	case 3:
		h = sfW(rng.Uint32(), rng.Uint32(), src, sfSmallU32(rng), sfSmallU32(rng), sfSmallU32(rng), rng.Uint32(), rng.Uint32(), rng.Uint32(), rng.Uint32())
	case 2:
		h = sfW(rng.Uint32(), src)
	case 4:
		h = sfW(rng.Uint32(), rng.Uint32(), src)
	default:
		h = sfW(rng.Uint32(), src)
	}
	body := sfCatB(h, sfW(uint32(len(recs))))
	for _, r := range recs {
		body = append(body, r...)
	}
	return sfCatB(sfW(ent<<12|uint32(ty), uint32(len(body))), body)
}

func sfRandRecord(rng *rand.Rand, flow bool) []byte {
	if flow {
		ent := uint32(0)
		if rng.Intn(6) == 0 {
			ent = uint32(1 + rng.Intn(5000))
		}
		ty := sfFlowKinds[rng.Intn(len(sfFlowKinds))]
		if ty >= 1006 && ty <= 1012 || ty == 9 || ty == 2000 { // always-error kinds: rare in random datagrams
			if rng.Intn(4) > 0 {
				ty = lnPick(rng, 1, 1, 1001, 1002, 1003, 1004, 1005)
			}
		}
		return sfFlowRecord(rng, ty, ent)
	}
	ty := sfCounterKinds[rng.Intn(len(sfCounterKinds))]
	if ty == 3 || ty == 4 || ty == 6 || ty == 999 {
		if rng.Intn(4) > 0 {
			ty = lnPick(rng, 1, 2, 5, 7, 1001, 1005)
		}
	}
	return sfCounterRecord(rng, ty, uint32(lnPick(rng, 0, 0, 0, 7)))
}

func sfRandDatagram(rng *rand.Rand) []byte {
	ns := lnPick(rng, 1, 1, 2, 2, 3, 4)
	var samples [][]byte
	for i := 0; i < ns; i++ {
		ty := lnPick(rng, 1, 2, 3, 4)
		nr := lnPick(rng, 0, 1, 1, 2, 2, 3)
		var recs [][]byte
		for j := 0; j < nr; j++ {
			recs = append(recs, sfRandRecord(rng, ty == 1 || ty == 3))
		}
		samples = append(samples, sfSample(rng, ty, uint32(lnPick(rng, 0, 0, 0, 3)), recs))
	}
	d := sfHeader(rng, uint32(lnPick(rng, 1, 1, 1, 2, 2, 0)), uint32(ns))
	for _, s := range samples {
		d = append(d, s...)
	}
	return sfCatB(d)
}

// a datagram that certainly decodes with both kinds of sample (dec2 residue)
func sfResidue(rng *rand.Rand) []byte {
	f := sfSample(rng, 1, 0, [][]byte{sfFlowRecord(rng, 1001, 0), sfFlowRecord(rng, 1003, 0)})
	c := sfSample(rng, 2, 0, [][]byte{sfCounterRecord(rng, 1, 0), sfCounterRecord(rng, 1005, 0)})
	f2 := sfSample(rng, 3, 0, [][]byte{sfFlowRecord(rng, 1, 0)})
	return sfCatB(sfHeader(rng, 2, 3), f, c, f2)
}

func sfForced(rem int) []uint32 {
	vs := []uint32{0, 1, 2, 3, 4, 5, 7, 8, 0x7fffffff, 0x80000000, 0xfffffffc, 0xfffffffd, 0xfffffffe, 0xffffffff}
	for _, d := range []int{-8, -5, -4, -3, -1, 0, 1, 3, 4} {
		if rem+d >= 0 {
			vs = append(vs, uint32(rem+d))
		}
	}
	for _, d := range []int{-2, -1, 0, 1} {
		if rem/4+d >= 0 {
			vs = append(vs, uint32(rem/4+d))
		}
	}
	return vs
}

func sfSeeds() [][]byte {
	var out [][]byte
	out = append(out, lmUDPSeeds(6343)...)
	for _, s := range lnSeeds() {
		if len(s) >= 28 && s[0] == 0 && s[1] == 0 && s[2] == 0 && s[3] == 5 && s[4] == 0 && s[5] == 0 && s[6] == 0 && (s[7] == 1 || s[7] == 2) {
			out = append(out, s)
		}
	}
	return out
}

func (lsflow) Gen(rng *rand.Rand, tier string) []Case {
	var out []Case
	add := func(ops ...string) { out = append(out, Case{Prop: "Lsflow", Ops: ops}) }
	hx := lnHex
	thorough := tier == "thorough"
	reps := 1
	if thorough {
		reps = 4
	}
	dec := func(tag string, p []byte) {
		add("tag:"+tag, "dec:"+hx(p))
	}
	dec2 := func(tag string, a, p []byte) {
		add("tag:"+tag, "dec2:"+hx(a)+","+hx(p))
	}

	// A. every record kind last in a one-sample datagram: truncations, forced words, trailing record
	type kind struct {
		flow bool
		ty   int
		ent  uint32
	}
	var kinds []kind
	for _, t := range sfFlowKinds {
		kinds = append(kinds, kind{true, t, 0})
	}
	kinds = append(kinds, kind{true, 1, 77}, kind{true, 1003, 1})
	for _, t := range sfCounterKinds {
		kinds = append(kinds, kind{false, t, 0})
	}
	kinds = append(kinds, kind{false, 1, 9})
	rich := func(k kind) bool {
		return k.flow && (k.ent != 0 || k.ty == 1 || k.ty == 1002 || k.ty == 1003 || k.ty == 1004 || k.ty == 1005 || (k.ty >= 1006 && k.ty <= 1012)) ||
			!k.flow && (k.ty == 1005 || k.ty == 3 || k.ty == 4 || k.ty == 2)
	}
	for rep := 0; rep < reps; rep++ {
		for _, k := range kinds {
			for _, expanded := range []bool{false, true} {
				sty := 2
				if k.flow {
					sty = 1
				}
				if expanded {
					sty += 2
				}
				var rec []byte
				if k.flow {
					rec = sfFlowRecord(rng, k.ty, k.ent)
				} else {
					rec = sfCounterRecord(rng, k.ty, k.ent)
				}
				var pre [][]byte
				if rng.Intn(2) == 0 {
					if k.flow {
						pre = append(pre, sfFlowRecord(rng, lnPick(rng, 1001, 1002, 1), 0))
					} else {
						pre = append(pre, sfCounterRecord(rng, lnPick(rng, 5, 1005, 1004), 0))
					}
				}
				hdr := sfHeader(rng, uint32(lnPick(rng, 1, 2)), 1)
				smp := sfSample(rng, sty, 0, append(append([][]byte(nil), pre...), rec))
				d := sfCatB(hdr, smp)
				recStart := len(d) - len(rec)
				dec("record-kind", d)
				dec2("record-kind", sfResidue(rng), d)
				// a second record / second sample behind it: the decoder must have consumed exactly the record
				var trail []byte
				if k.flow {
					trail = sfFlowRecord(rng, 1001, 0)
				} else {
					trail = sfCounterRecord(rng, 1004, 0)
				}
				smp2 := sfSample(rng, sty, 0, append(append(append([][]byte(nil), pre...), rec), trail))
				dec("record-then-record", sfCatB(hdr, smp2))
				d2 := sfCatB(hdr, smp, sfSample(rng, lnPick(rng, 1, 2, 3, 4), 0, nil))
				lmPut32(d2[len(hdr)-4:], 2)
				dec("record-then-sample", d2)
				if expanded && !rich(k) && !thorough {
					continue
				}
				// truncations: all from the start of the sample on
				for n := len(hdr); n < len(d); n++ {
					if n < recStart-4 && n%4 != 0 && !thorough {
						continue
					}
					dec("truncated-prefix-of-valid", d[:n])
					if n%3 == 0 {
						dec2("truncated-prefix-of-valid", sfResidue(rng), d[:n])
					}
				}
				// forced words (counts, lengths, address types, tags) in the last record and the count word before the records
				first := recStart
				if len(pre) == 0 {
					first -= 4
				}
				for off := first; off+4 <= len(d); off += 4 {
					vals := sfForced(len(d) - off - 4)
					for _, v := range vals {
						if !rich(k) && !thorough && rng.Intn(5) > 0 {
							continue
						}
						m := lnCopy(d)
						lmPut32(m[off:], v)
						add("tag:field-extreme", "tag:consistent-length-cut", "dec:"+hx(m))
						// the same with a trailing record, so a length that swallows too much or too little shows
						if rng.Intn(4) == 0 {
							m2 := sfCatB(hdr, smp2)
							if off+4 <= len(m2) {
								lmPut32(m2[off:], v)
								add("tag:field-extreme", "dec:"+hx(m2))
							}
						}
					}
				}
			}
		}
	}

	// B. header: agent address types, sample counts, truncations
	for _, at := range []uint32{1, 2, 0, 3, 4, 0x80000001, 0xffffffff} {
		smp := sfSample(rng, 2, 0, [][]byte{sfCounterRecord(rng, 5, 0)})
		for _, cnt := range []uint32{0, 1, 2, 3, 0x7fffffff, 0x80000000, 0xffffffff} {
			d := sfCatB(sfHeader(rng, at, cnt), smp)
			add("tag:field-extreme", "tag:count-forced", "dec:"+hx(d))
			add("tag:field-extreme", "tag:count-forced", "dec:"+hx(sfCatB(d, smp)))
			add("tag:field-extreme", "tag:count-forced", "dec2:"+hx(sfResidue(rng))+","+hx(d))
		}
		d := sfCatB(sfHeader(rng, at, 1), smp)
		for n := 0; n <= 48 && n <= len(d); n++ {
			dec("truncated-prefix-of-valid", d[:n])
			dec2("truncated-prefix-of-valid", sfResidue(rng), d[:n])
		}
	}
	// C. sample tags and record counts
	for _, sty := range []uint32{0, 1, 2, 3, 4, 5, 0xfff, 0x1001, 0x5002, 0xfffff003, 0xabcde004, 0xffffffff} {
		for _, nrec := range []uint32{0, 1, 2, 3, 0x7fffffff, 0xffffffff} {
			var recs [][]byte
			ty := int(sty & 0xfff)
			for j := 0; j < 2; j++ {
				recs = append(recs, sfRandRecord(rng, ty == 1 || ty == 3))
			}
			smp := sfSample(rng, ty, sty>>12, recs)
			// the record count word is the last word of the sample header
			cntOff := len(smp)
			for _, r := range recs {
				cntOff -= len(r)
			}
			lmPut32(smp[cntOff-4:], nrec)
			d := sfCatB(sfHeader(rng, 1, 1), smp)
			add("tag:field-extreme", "tag:count-forced", "dec:"+hx(d))
			if nrec < 4 {
				add("tag:field-extreme", "tag:count-forced", "dec2:"+hx(sfResidue(rng))+","+hx(d))
			}
		}
	}
	// D. seeds from layers/sflow_test.go
	seeds := sfSeeds()
	for i, s := range seeds {
		dec("seed", s)
		dec2("seed", sfResidue(rng), s)
		dec2("seed", seeds[(i+1)%len(seeds)], s)
		step := 16
		if thorough {
			step = 4
		}
		for n := 0; n < len(s); n++ {
			if n%step == 0 || n > len(s)-40 || n < 40 {
				add("tag:seed", "tag:truncated-prefix-of-valid", "dec:"+hx(s[:n]))
			}
		}
		nm := 60
		if thorough {
			nm = 400
		}
		for j := 0; j < nm; j++ {
			m := lnCopy(s)
			off := 4 * rng.Intn(len(m)/4)
			vals := sfForced(len(m) - off - 4)
			lmPut32(m[off:], vals[rng.Intn(len(vals))])
			add("tag:seed", "tag:field-extreme", "dec:"+hx(m))
		}
	}
	// E. random multi-sample datagrams, one random forced word
	ne := 250 * reps
	for i := 0; i < ne; i++ {
		d := sfRandDatagram(rng)
		dec("random-valid", d)
		dec2("random-valid", sfRandDatagram(rng), d)
		m := lnCopy(d)
		off := 4 * rng.Intn(len(m)/4)
		vals := sfForced(len(m) - off - 4)
		lmPut32(m[off:], vals[rng.Intn(len(vals))])
		add("tag:field-extreme", "dec:"+hx(m))
		add("tag:field-extreme", "dec2:"+hx(d)+","+hx(m))
		if i%5 == 0 {
			n := rng.Intn(len(d) + 1)
			dec("truncated-prefix-of-valid", d[:n])
			dec2("truncated-prefix-of-valid", d, d[:n])
		}
	}
	// F. malformed stream
	for i := 0; i < 120*reps; i++ {
		q := lnRandBytes(rng, lnPick(rng, 0, 1, 4, 7, 8, 12, 27, 28, 29, 32, 40, 60, rng.Intn(120)))
		if len(q) >= 8 && rng.Intn(2) == 0 {
			copy(q, sfW(5, uint32(lnPick(rng, 1, 2, 0))))
		}
		dec("malformed", q)
		dec2("malformed", sfResidue(rng), q)
	}
	return out
}
