package main

// helpers shared by the layer sub-checks of agent lnet4 (Lip4, Ludp, Leth, Ldot1q, Licmp4)

import (
	"encoding/hex"
	"fmt"
	"go/ast"
	"go/parser"
	"go/token"
	"math/rand"
	"os"
	"path/filepath"
	"sort"
	"strconv"
	"strings"
	"sync"

	"github.com/gopacket/gopacket"
)

// lnFeedback records SetTruncated like a PacketBuilder would.
type lnFeedback struct{ tr bool }

func (f *lnFeedback) SetTruncated() { f.tr = true }

func lnHex(b []byte) string { return hex.EncodeToString(b) }

func lnUnhex(s string) []byte {
	b, err := hex.DecodeString(s)
	if err != nil {
		panic("bad hex in case: " + s)
	}
	return b
}

func lnB(v bool) string {
	if v {
		return "1"
	}
	return "0"
}

// lnOp splits "name:rest" at the first colon and rest at commas.
func lnOp(op string) (string, []string) {
	i := strings.IndexByte(op, ':')
	if i < 0 {
		return op, nil
	}
	return op[:i], strings.Split(op[i+1:], ",")
}

func lnAtoi(s string) int {
	n, err := strconv.Atoi(s)
	if err != nil {
		panic("bad int in case: " + s)
	}
	return n
}

// lnClass runs f and classifies the result as ok|err|panic.
func lnClass(f func() error) (cls string) {
	defer func() {
		if r := recover(); r != nil {
			cls = "panic"
		}
	}()
	if err := f(); err != nil {
		return "err"
	}
	return "ok"
}

// lnRender calls the reflective renderers and the given extra accessors on a layer.
func lnRender(l gopacket.Layer, extra ...func()) string {
	return lnClass(func() error {
		_ = gopacket.LayerString(l)
		_ = gopacket.LayerDump(l)
		_ = gopacket.LayerGoString(l)
		if s, ok := l.(fmt.Stringer); ok {
			_ = s.String()
		}
		for _, f := range extra {
			f()
		}
		return nil
	})
}

// lnBuf returns a serialize buffer already holding payload: d=0 fresh, d=1 dirty (pre-filled with
// 0xAA by a large prepend+append, then cleared), d=2 pre-sized.
func lnBuf(d int, payload []byte) gopacket.SerializeBuffer {
	var b gopacket.SerializeBuffer
	switch d {
	case 1:
		b = gopacket.NewSerializeBuffer()
		n := 512 + len(payload)
		p, _ := b.PrependBytes(n)
		for i := range p {
			p[i] = 0xAA
		}
		a, _ := b.AppendBytes(n)
		for i := range a {
			a[i] = 0xAA
		}
		b.Clear()
	case 2:
		b = gopacket.NewSerializeBufferExpectedSize(96, len(payload)+96)
	default:
		b = gopacket.NewSerializeBuffer()
	}
	pl, _ := b.AppendBytes(len(payload))
	copy(pl, payload)
	return b
}

// lnSerialize runs l.SerializeTo on a buffer of kind d holding payload.
func lnSerialize(l gopacket.SerializableLayer, d int, payload []byte, fix, csum bool) (cls string, out []byte) {
	b := lnBuf(d, payload)
	cls = lnClass(func() error {
		return l.SerializeTo(b, gopacket.SerializeOptions{FixLengths: fix, ComputeChecksums: csum})
	})
	if cls == "ok" {
		out = append([]byte(nil), b.Bytes()...)
	}
	return
}

var (
	lnSeedOnce sync.Once
	lnSeedData [][]byte
)

// lnSeeds returns the []byte{...} literals of layers/*_test.go of the repository under test,
// parsed with go/ast at run time (never imported).
func lnSeeds() [][]byte {
	lnSeedOnce.Do(func() {
		repo := os.Getenv("VERIF_REPO")
		if repo == "" {
			repo = "/repo"
		}
		files, _ := filepath.Glob(filepath.Join(repo, "layers", "*_test.go"))
		sort.Strings(files)
		fset := token.NewFileSet()
		for _, fn := range files {
			f, err := parser.ParseFile(fset, fn, nil, 0)
			if err != nil {
				continue
			}
			ast.Inspect(f, func(n ast.Node) bool {
				cl, ok := n.(*ast.CompositeLit)
				if !ok {
					return true
				}
				at, ok := cl.Type.(*ast.ArrayType)
				if !ok {
					return true
				}
				id, ok := at.Elt.(*ast.Ident)
				if !ok || id.Name != "byte" || len(cl.Elts) < 14 || len(cl.Elts) > 2000 {
					return true
				}
				buf := make([]byte, 0, len(cl.Elts))
				for _, e := range cl.Elts {
					bl, ok := e.(*ast.BasicLit)
					if !ok {
						return true
					}
					v, err := strconv.ParseUint(bl.Value, 0, 8)
					if err != nil {
						return true
					}
					buf = append(buf, byte(v))
				}
				lnSeedData = append(lnSeedData, buf)
				return false
			})
		}
	})
	return lnSeedData
}

// lnEthSeeds: payloads of the Ethernet frames among the seeds whose EtherType is et
// (one 802.1Q tag skipped when skipVlan).
func lnEthSeeds(et uint16) [][]byte {
	var out [][]byte
	for _, s := range lnSeeds() {
		if len(s) >= 14 && uint16(s[12])<<8|uint16(s[13]) == et {
			out = append(out, s[14:])
		}
	}
	return out
}

func lnRandBytes(rng *rand.Rand, n int) []byte {
	b := make([]byte, n)
	for i := range b {
		b[i] = byte(rng.Intn(256))
	}
	return b
}

func lnPick(rng *rand.Rand, xs ...int) int { return xs[rng.Intn(len(xs))] }

func lnCopy(b []byte) []byte { return append([]byte(nil), b...) }

// lnFCD enumerates the option triples "<f><c><d>".
var lnFCD = []string{"110", "111", "112", "000", "001", "100", "101", "010", "011", "002", "102", "012"}

func lnParseFCD(s string) (f, c bool, d int) {
	if len(s) != 3 {
		panic("bad fcd " + s)
	}
	return s[0] == '1', s[1] == '1', int(s[2] - '0')
}

// lnJunkOracle serializes with the three buffer kinds and twice in a row; mk builds a new equal layer value.
func lnJunkOracle(mk func() gopacket.SerializableLayer, payload []byte, fix, csum bool) (oracle []string) {
	var outs [3][]byte
	var clss [3]string
	for d := 0; d < 3; d++ {
		clss[d], outs[d] = lnSerialize(mk(), d, payload, fix, csum)
		if clss[d] == "panic" {
			oracle = append(oracle, fmt.Sprintf("C07:panic\tSerializeTo panicked (buffer kind %d)", d))
			return
		}
	}
	for d := 1; d < 3; d++ {
		if clss[d] != clss[0] || string(outs[d]) != string(outs[0]) {
			oracle = append(oracle, fmt.Sprintf("C07:junk-dependence\tbuffer kind %d gives %s %s, fresh buffer gives %s %s", d, clss[d], lnHex(outs[d]), clss[0], lnHex(outs[0])))
			break
		}
	}
	// same object serialized twice (FixLengths/ComputeChecksums mutate it)
	l := mk()
	c1, o1 := lnSerialize(l, 0, payload, fix, csum)
	c2, o2 := lnSerialize(l, 1, payload, fix, csum)
	if c2 == "panic" {
		oracle = append(oracle, "C07:panic\tsecond SerializeTo panicked")
	} else if c1 != c2 || string(o1) != string(o2) {
		oracle = append(oracle, fmt.Sprintf("C07:repeat\tfirst %s %s second %s %s", c1, lnHex(o1), c2, lnHex(o2)))
	}
	return
}
