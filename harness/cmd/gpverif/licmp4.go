package main

// Licmp4: layers/icmp4.go codec sub-check (C19, C05, C06, C07, C01 for ICMPv4).
// Ops:  dec:<hex>  dec2:<hexA>,<hexB>  ser:<hex>,<fcd>,<payloadhex>  rt:<hex>,<payloadhex>
//       new:<typecode>.<csum>.<id>.<seq>,<fcd>,<payloadhex>

import (
	"bytes"
	"fmt"
	"math/rand"
	"strings"

	"github.com/gopacket/gopacket"
	"github.com/gopacket/gopacket/layers"
)

type licmp4 struct{}

func init() { register("Licmp4", licmp4{}) }

func ic4Fields(i *layers.ICMPv4) string {
	return fmt.Sprintf("tc=%d;ck=%d;id=%d;seq=%d", uint16(i.TypeCode), i.Checksum, i.Id, i.Seq)
}

func ic4Obs(cls string, tr bool, i *layers.ICMPv4) string {
	next := "payload"
	if i.NextLayerType() != gopacket.LayerTypePayload {
		next = fmt.Sprintf("other%d", i.NextLayerType())
	}
	render := lnRender(i, func() { _ = i.TypeCode.String(); _ = i.TypeCode.GoString() })
	return fmt.Sprintf("cls=%s;tr=%s;%s;c=%s;p=%s;next=%s;render=%s", cls, lnB(tr), ic4Fields(i), lnHex(i.Contents), lnHex(i.Payload), next, render)
}

func ic4Decode(i *layers.ICMPv4, data []byte) (string, bool) {
	fb := &lnFeedback{}
	cls := lnClass(func() error { return i.DecodeFromBytes(lnCopy(data), fb) })
	return cls, fb.tr
}

func ic4RefValid(msg []byte) bool {
	var s uint64
	for k := 0; k+1 < len(msg); k += 2 {
		s += uint64(msg[k])<<8 | uint64(msg[k+1])
	}
	if len(msg)%2 == 1 {
		s += uint64(msg[len(msg)-1]) << 8
	}
	for s > 0xffff {
		s = s>>16 + s&0xffff
	}
	return s == 0xffff
}

func (licmp4) Run(c Case) (res Result) {
	for _, op := range c.Ops {
		name, a := lnOp(op)
		switch name {
		case "tag":
			res.Tags = append(res.Tags, a[0])
		case "dec":
			i := &layers.ICMPv4{}
			cls, tr := ic4Decode(i, lnUnhex(a[0]))
			obs := ic4Obs(cls, tr, i)
			res.Obs = append(res.Obs, obs)
			if cls == "panic" {
				res.Oracle = append(res.Oracle, "C19:panic\tICMPv4.DecodeFromBytes panicked")
			}
			if strings.HasSuffix(obs, "render=panic") {
				res.Oracle = append(res.Oracle, "C01:render-panic\trenderer or TypeCode.String panicked after decode class "+cls)
			}
		case "dec2":
			i := &layers.ICMPv4{}
			ic4Decode(i, lnUnhex(a[0]))
			if len(i.Payload) > 0 {
				res.Tags = append(res.Tags, "residue-payload")
			}
			cls, tr := ic4Decode(i, lnUnhex(a[1]))
			obs := ic4Obs(cls, tr, i)
			res.Obs = append(res.Obs, obs)
			fr := &layers.ICMPv4{}
			fcls, ftr := ic4Decode(fr, lnUnhex(a[1]))
			fobs := ic4Obs(fcls, ftr, fr)
			if cls == "panic" {
				res.Oracle = append(res.Oracle, "C19:panic\tICMPv4.DecodeFromBytes panicked on a reused object")
			} else if cls != fcls || tr != ftr || (cls == "ok" && obs != fobs) {
				res.Oracle = append(res.Oracle, fmt.Sprintf("C05:stale\treused: %s fresh: %s", obs, fobs))
			}
		case "ser", "new":
			var mk func() *layers.ICMPv4
			if name == "ser" {
				data := lnUnhex(a[0])
				mk = func() *layers.ICMPv4 { i := &layers.ICMPv4{}; ic4Decode(i, data); return i }
			} else {
				f := strings.Split(a[0], ".")
				mk = func() *layers.ICMPv4 {
					return &layers.ICMPv4{TypeCode: layers.ICMPv4TypeCode(lnAtoi(f[0])), Checksum: uint16(lnAtoi(f[1])), Id: uint16(lnAtoi(f[2])), Seq: uint16(lnAtoi(f[3]))}
				}
			}
			fix, csum, d := lnParseFCD(a[1])
			payload := lnUnhex(a[2])
			i := mk()
			cls, out := lnSerialize(i, d, payload, fix, csum)
			res.Obs = append(res.Obs, fmt.Sprintf("cls=%s;out=%s;%s", cls, lnHex(out), ic4Fields(i)))
			if d == 1 {
				res.Tags = append(res.Tags, "dirty-buffer")
			}
			if !csum {
				res.Tags = append(res.Tags, "no-checksum")
			}
			if len(payload)%2 == 1 {
				res.Tags = append(res.Tags, "odd-payload")
			}
			if csum && cls == "ok" && !ic4RefValid(out) {
				res.Oracle = append(res.Oracle, "C08:emitted\temitted ICMPv4 checksum fails the reference one's complement check")
			}
			res.Oracle = append(res.Oracle, lnJunkOracle(func() gopacket.SerializableLayer { return mk() }, payload, fix, csum)...)
		case "rt":
			payload := lnUnhex(a[1])
			i := &layers.ICMPv4{}
			if cls, _ := ic4Decode(i, lnUnhex(a[0])); cls != "ok" {
				res.Obs = append(res.Obs, "first="+cls)
				break
			}
			scls, out := lnSerialize(i, 0, payload, true, true)
			if scls != "ok" {
				res.Obs = append(res.Obs, "ser="+scls)
				res.Oracle = append(res.Oracle, "C06:roundtrip\tdecoded layer cannot be serialized: "+scls)
				break
			}
			res.Tags = append(res.Tags, "roundtrip")
			if len(payload)%2 == 1 {
				res.Tags = append(res.Tags, "odd-payload")
			}
			i2 := &layers.ICMPv4{}
			cls2, tr2 := ic4Decode(i2, out)
			res.Obs = append(res.Obs, ic4Obs(cls2, tr2, i2))
			switch {
			case cls2 != "ok":
				res.Oracle = append(res.Oracle, "C06:roundtrip\tsecond decode: "+cls2)
			case tr2:
				res.Oracle = append(res.Oracle, "C06:roundtrip\tsecond decode sets truncated")
			default:
				if f1, f2 := ic4Fields(i), ic4Fields(i2); f1 != f2 {
					res.Oracle = append(res.Oracle, fmt.Sprintf("C06:roundtrip\tfields differ: written %s read %s", f1, f2))
				}
				if !bytes.Equal(i2.Payload, payload) {
					res.Oracle = append(res.Oracle, "C06:roundtrip\tpayload differs")
				}
				c3, out3 := lnSerialize(i2, 1, payload, true, true)
				if c3 != "ok" || !bytes.Equal(out3, out) {
					res.Oracle = append(res.Oracle, "C06:fixpoint\tre-serialized bytes differ")
				}
				if !ic4RefValid(out) {
					res.Oracle = append(res.Oracle, "C08:emitted\temitted ICMPv4 checksum fails the reference one's complement check")
				}
			}
		default:
			panic("Licmp4: unknown op " + op)
		}
	}
	return
}

func (licmp4) Gen(rng *rand.Rand, tier string) []Case {
	var out []Case
	add := func(ops ...string) { out = append(out, Case{Prop: "Licmp4", Ops: ops}) }
	scale := 1
	if tier == "thorough" {
		scale = 8
	}
	hx := lnHex
	payloads := func() []byte { return lnRandBytes(rng, lnPick(rng, 0, 1, 2, 3, 7, 8, 33, 56, 64)) }
	msg := func() []byte {
		h := lnRandBytes(rng, 8)
		h[0] = byte(lnPick(rng, 0, 3, 4, 5, 8, 9, 10, 11, 12, 13, 14, 15, 16, 17, 18, 19, 255, rng.Intn(256)))
		h[1] = byte(lnPick(rng, 0, 1, 2, 3, 15, 16, 255))
		return append(h, payloads()...)
	}
	// every type with a few codes: exercises ICMPv4TypeCode.String on known/unknown types and codes
	for t := 0; t < 256; t++ {
		for _, code := range []int{0, 1, 4, 16, 255} {
			if t > 20 && code != 0 && code != 255 && scale == 1 {
				continue
			}
			add("tag:typecode-sweep", "dec:"+hx([]byte{byte(t), byte(code), 0, 0, 0, 1, 0, 2, 0xab}))
		}
	}
	for i := 0; i < 80*scale; i++ {
		p := msg()
		add("dec:" + hx(p))
		add("rt:" + hx(p) + "," + hx(payloads()))
		pl := payloads()
		for _, fcd := range lnFCD[:6] {
			add("ser:" + hx(p) + "," + fcd + "," + hx(pl))
		}
		add("ser:" + hx(p) + "," + lnFCD[6+rng.Intn(6)] + "," + hx(payloads()))
		if i%4 == 0 {
			for k := 0; k <= 9 && k <= len(p); k++ {
				add("tag:truncated-prefix-of-valid", "dec:"+hx(p[:k]))
				add("tag:truncated-prefix-of-valid", "dec2:"+hx(msg())+","+hx(p[:k]))
				add("tag:truncated-prefix-of-valid", "ser:"+hx(p[:k])+","+lnFCD[rng.Intn(len(lnFCD))]+","+hx(payloads()))
			}
		}
		add("dec2:" + hx(msg()) + "," + hx(p))
	}
	for i := 0; i < 150*scale; i++ {
		spec := fmt.Sprintf("%d.%d.%d.%d", lnPick(rng, 0, 0x0800, 0x0301, 65535, rng.Intn(65536)), lnPick(rng, 0, 65535, rng.Intn(65536)),
			lnPick(rng, 0, 65535, rng.Intn(65536)), lnPick(rng, 0, 65535, rng.Intn(65536)))
		add("new:" + spec + "," + lnFCD[rng.Intn(len(lnFCD))] + "," + hx(payloads()))
	}
	// payloads solved so that the checksum comes out 0x0000 and 0xffff
	for i := 0; i < 10*scale; i++ {
		for _, want := range []uint32{0xffff, 0x0000 + 1, 0xfffe} {
			pl := lnRandBytes(rng, 2+2*rng.Intn(8))
			pl[len(pl)-2], pl[len(pl)-1] = 0, 0
			tc, id, seq := rng.Intn(65536), rng.Intn(65536), rng.Intn(65536)
			S := uint32(tc) + uint32(id) + uint32(seq)
			for k := 0; k+1 < len(pl); k += 2 {
				S += uint32(pl[k])<<8 | uint32(pl[k+1])
			}
			for S > 0xffff {
				S = S>>16 + S&0xffff
			}
			x := (want + 0xffff - S) % 0xffff
			pl[len(pl)-2], pl[len(pl)-1] = byte(x>>8), byte(x)
			add("tag:csum-solved", fmt.Sprintf("new:%d.0.%d.%d,11%d,%s", tc, id, seq, rng.Intn(3), hx(pl)))
		}
	}
	// seeds: ICMPv4 messages inside the IPv4 packet literals of layers/*_test.go
	n := 0
	for _, s := range lnEthSeeds(0x0800) {
		if len(s) < 28 || s[9] != 1 || s[0]&15 != 5 {
			continue
		}
		if n++; tier != "thorough" && n > 25 {
			break
		}
		m := s[20:]
		if len(m) > 300 {
			m = m[:300]
		}
		add("dec:" + hx(m))
		add("rt:" + hx(m) + "," + hx(m[8:]))
		add("ser:" + hx(m) + "," + lnFCD[rng.Intn(len(lnFCD))] + "," + hx(m[8:]))
	}
	for i := 0; i < 80*scale; i++ {
		q := lnRandBytes(rng, lnPick(rng, 0, 1, 7, 8, 9, rng.Intn(40)))
		add("dec:" + hx(q))
		add("dec2:" + hx(msg()) + "," + hx(q))
	}
	if tier == "thorough" {
		for _, n := range []int{1472, 65507, 65535, 70001} {
			add("tag:big-payload", "rt:"+hx(msg()[:8])+","+hx(lnRandBytes(rng, n)))
		}
	}
	return out
}
