package main

// Llldp: layers/lldp.go codec sub-check (C19, C06, C07, C01 for LinkLayerDiscovery and the LinkLayerDiscoveryInfo pass of
// decodeLinkLayerDiscovery; the layer has no DecodeFromBytes, so C05 does not apply and there is no dec2 op).
// Ops: dec ser rt (lmisc_common.go) plus
//   new:<csub>.<cidhex>.<psub>.<pidhex>.<ttl>.<vals>,<fcd>,<payloadhex> and rtn: likewise; <vals> = "-" or values joined by "+",
//   each <type>~<length>~<valuehex>.

import (
	"fmt"
	"math/rand"
	"strings"
	"sync"

	"github.com/gopacket/gopacket"
	"github.com/gopacket/gopacket/layers"
)

type llldp struct{}

func init() { register("Llldp", llldp{}) }

type llSide struct {
	info *layers.LinkLayerDiscoveryInfo
	n    int
}

var llSideMap sync.Map // *layers.LinkLayerDiscovery -> llSide (what else the decoder added to the packet)

func llCaps(c layers.LLDPCapabilities) int {
	v := 0
	for i, b := range []bool{c.Other, c.Repeater, c.Bridge, c.WLANAP, c.Router, c.Phone, c.DocSis, c.StationOnly, c.CVLAN, c.SVLAN, c.TMPR} {
		if b {
			v |= 1 << uint(i)
		}
	}
	return v
}

func llCore(c *layers.LinkLayerDiscovery) string {
	vs := make([]string, len(c.Values))
	for i, v := range c.Values {
		vs[i] = fmt.Sprintf("%d~%d~%s", v.Type, v.Length, lnHex(v.Value))
	}
	return fmt.Sprintf("cs=%d;cid=%s;ps=%d;pid=%s;ttl=%d;vals=%s", c.ChassisID.Subtype, lnHex(c.ChassisID.ID), c.PortID.Subtype, lnHex(c.PortID.ID), c.TTL, strings.Join(vs, "|"))
}

func llFields(l gopacket.Layer) string {
	c := l.(*layers.LinkLayerDiscovery)
	side := llSide{info: &layers.LinkLayerDiscoveryInfo{}}
	if s, ok := llSideMap.Load(c); ok {
		side = s.(llSide)
	}
	in := side.info
	os := make([]string, len(in.OrgTLVs))
	for i, o := range in.OrgTLVs {
		os[i] = fmt.Sprintf("%d~%d~%s", uint32(o.OUI), o.SubType, lnHex(o.Info))
	}
	m := in.MgmtAddress
	return fmt.Sprintf("%s;pd=%s;sn=%s;sd=%s;scap=%d;ecap=%d;mgmt=%d~%s~%d~%d~%s;orgs=%s;added=%d", llCore(c), lnHex([]byte(in.PortDescription)), lnHex([]byte(in.SysName)),
		lnHex([]byte(in.SysDescription)), llCaps(in.SysCapabilities.SystemCap), llCaps(in.SysCapabilities.EnabledCap), m.Subtype, lnHex(m.Address), m.InterfaceSubtype,
		m.InterfaceNumber, lnHex([]byte(m.OID)), strings.Join(os, "|"), side.n)
}

// llInfoAccepts: would the Info pass of the decoder accept these values (the C06 hypothesis on Values)?
func llInfoAccepts(vs []layers.LinkLayerDiscoveryValue) bool {
	for _, v := range vs {
		n := len(v.Value)
		switch v.Type {
		case 7, 127:
			if n < 4 {
				return false
			}
		case 8:
			if n < 9 {
				return false
			}
			ml := int(v.Value[0])
			if ml < 1 || n < ml+7 || n < ml+7+int(v.Value[ml+6]) {
				return false
			}
		}
	}
	return true
}

var llldpDesc = &lmDesc{
	id: "Llldp", name: "LinkLayerDiscovery", ser: true,
	fresh: func() gopacket.Layer { return &layers.LinkLayerDiscovery{} },
	decodeFn: func(data []byte, b *lmBuilder) error {
		err := layers.LayerTypeLinkLayerDiscovery.Decode(data, b)
		if len(b.layers) > 0 {
			side := llSide{info: &layers.LinkLayerDiscoveryInfo{}, n: len(b.layers)}
			if len(b.layers) > 1 {
				side.info = b.layers[1].(*layers.LinkLayerDiscoveryInfo)
			}
			llSideMap.Store(b.layers[0].(*layers.LinkLayerDiscovery), side)
		}
		return err
	},
	fields: llFields,
	next: func(l gopacket.Layer, b *lmBuilder) string {
		if b != nil && b.nextSet {
			return "set"
		}
		return "0"
	},
	fromSpec: func(spec string) gopacket.Layer {
		f := strings.Split(spec, ".")
		c := &layers.LinkLayerDiscovery{ChassisID: layers.LLDPChassisID{Subtype: layers.LLDPChassisIDSubType(lnAtoi(f[0])), ID: lnUnhex(f[1])},
			PortID: layers.LLDPPortID{Subtype: layers.LLDPPortIDSubType(lnAtoi(f[2])), ID: lnUnhex(f[3])}, TTL: uint16(lnAtoi(f[4]))}
		if f[5] != "-" {
			for _, vs := range strings.Split(f[5], "+") {
				q := strings.Split(vs, "~")
				c.Values = append(c.Values, layers.LinkLayerDiscoveryValue{Type: layers.LLDPTLVType(lnAtoi(q[0])), Length: uint16(lnAtoi(q[1])), Value: lnUnhex(q[2])})
			}
		}
		return c
	},
	// C06 hypothesis: nothing in the buffer before the layer (it is appended), non-zero subtypes, ids of 1..510 octets, values of types other than
	// End/ChassisID/PortID/TTL below 128 with Length = len(Value) <= 511 that the Info pass accepts.
	inDomain: func(l gopacket.Layer, payload []byte) bool {
		c := l.(*layers.LinkLayerDiscovery)
		if len(payload) != 0 || c.ChassisID.Subtype == 0 || c.PortID.Subtype == 0 || len(c.ChassisID.ID) < 1 || len(c.ChassisID.ID) > 510 ||
			len(c.PortID.ID) < 1 || len(c.PortID.ID) > 510 {
			return false
		}
		for _, v := range c.Values {
			if v.Type < 4 || v.Type > 127 || int(v.Length) != len(v.Value) || v.Length > 511 {
				return false
			}
		}
		return llInfoAccepts(c.Values)
	},
	rtPayload: func(l gopacket.Layer, payload []byte) []byte { return nil },
	extra: func(l gopacket.Layer) []func() {
		c := l.(*layers.LinkLayerDiscovery)
		return []func(){func() {
			_, _ = c.ChassisID.Subtype.String(), c.PortID.Subtype.String()
			for _, v := range c.Values {
				_ = v.Type.String()
			}
			if s, ok := llSideMap.Load(c); ok {
				in := s.(llSide).info
				_ = gopacket.LayerString(in)
				_ = gopacket.LayerDump(in)
				_ = gopacket.LayerGoString(in)
				_, _ = in.MgmtAddress.Subtype.String(), in.MgmtAddress.InterfaceSubtype.String()
				// the typed decoders of the organisation-specific TLVs (not modelled: exercised for panics only)
				_, _ = in.Decode8021()
				_, _ = in.Decode8023()
				_, _ = in.Decode8021Qbg()
				_, _ = in.DecodeMedia()
				_, _ = in.DecodeCisco2()
				_, _ = in.DecodeProfinet()
			}
		}}
	},
	tags: func(l gopacket.Layer, cls string, data []byte) []string {
		c := l.(*layers.LinkLayerDiscovery)
		var t []string
		if s, ok := llSideMap.Load(c); ok {
			side := s.(llSide)
			if cls == "err" {
				t = append(t, "error-after-add")
			}
			if len(side.info.OrgTLVs) > 0 {
				t = append(t, "org-tlv")
			}
			if side.info.MgmtAddress.Subtype != 0 {
				t = append(t, "mgmt-address")
			}
		}
		for _, v := range c.Values {
			if v.Length > 255 {
				t = append(t, "nine-bit-length")
			}
		}
		return t
	},
}

func init() {
	llldpDesc.rtFields = func(l gopacket.Layer) string { return llCore(l.(*layers.LinkLayerDiscovery)) }
}

func (llldp) Run(c Case) Result { return lmRun(llldpDesc, c) }

// llTLV: one TLV; decl < 0 means len(value).
func llTLV(t int, value []byte, decl int) []byte {
	if decl < 0 {
		decl = len(value)
	}
	return append([]byte{byte(t<<1) | byte(decl>>8&1), byte(decl)}, value...)
}

// llMgmt: management address value: address string length, subtype, address, interface subtype, number, OID length, OID.
func llMgmt(rng *rand.Rand, addr []byte, mlen int, oid []byte, olen int) []byte {
	if mlen < 0 {
		mlen = len(addr) + 1
	}
	if olen < 0 {
		olen = len(oid)
	}
	b := append([]byte{byte(mlen), byte(lnPick(rng, 1, 2, 6, 0))}, addr...)
	b = append(b, byte(lnPick(rng, 1, 2, 3)), 0, 0, byte(rng.Intn(256)), byte(rng.Intn(256)), byte(olen))
	return append(b, oid...)
}

func (llldp) Gen(rng *rand.Rand, tier string) []Case {
	var out []Case
	hx := lnHex
	add := func(tag string, ops ...string) {
		all := []string{}
		if tag != "" {
			all = append(all, "tag:"+tag)
		}
		out = append(out, Case{Prop: "Llldp", Ops: append(all, ops...)})
	}
	scale := 1
	if tier == "thorough" {
		scale = 6
	}
	fcd := func() string { return lnFCD[rng.Intn(len(lnFCD))] }
	mand := func() []byte {
		m := llTLV(1, append([]byte{byte(lnPick(rng, 4, 1, 7, 5))}, lnRandBytes(rng, lnPick(rng, 6, 1, 4, 17))...), -1)
		m = append(m, llTLV(2, append([]byte{byte(lnPick(rng, 5, 3, 7, 1))}, lnRandBytes(rng, lnPick(rng, 6, 1, 3, 12))...), -1)...)
		return append(m, llTLV(3, []byte{byte(rng.Intn(2)), byte(rng.Intn(256))}, -1)...)
	}
	optTLV := func() []byte {
		switch rng.Intn(9) {
		case 0:
			return llTLV(4, []byte("port 1/1"), -1)
		case 1:
			return llTLV(5, []byte("switch.example"), -1)
		case 2:
			return llTLV(6, lnRandBytes(rng, lnPick(rng, 0, 20, 255, 256, 300)), -1)
		case 3:
			return llTLV(7, lnRandBytes(rng, lnPick(rng, 4, 4, 5)), -1)
		case 4:
			return llTLV(8, llMgmt(rng, lnRandBytes(rng, lnPick(rng, 4, 16, 6, 0)), -1, lnRandBytes(rng, lnPick(rng, 0, 0, 3, 9)), -1), -1)
		case 5:
			oui := [][]byte{{0, 0x80, 0xc2}, {0, 0x12, 0x0f}, {0, 0x12, 0xbb}, {0, 1, 0x42}, {0, 0x0e, 0xcf}, {1, 2, 3}}[rng.Intn(6)]
			return llTLV(127, append(append(lnCopy(oui), byte(lnPick(rng, 1, 2, 3, 4, 7))), lnRandBytes(rng, lnPick(rng, 0, 1, 2, 4, 5, 9))...), -1)
		default:
			return llTLV(lnPick(rng, 9, 10, 64, 126), lnRandBytes(rng, lnPick(rng, 0, 1, 7)), -1)
		}
	}
	valid := func() []byte {
		m := mand()
		for k := lnPick(rng, 0, 1, 2, 3, 5); k > 0; k-- {
			m = append(m, optTLV()...)
		}
		return append(m, 0, 0)
	}
	full := func(tag string, p []byte) {
		add(tag, "dec:"+hx(p))
		add(tag, "ser:"+hx(p)+","+fcd()+","+hx(lnRandBytes(rng, lnPick(rng, 0, 0, 3))))
		add(tag, "rt:"+hx(p)+",")
	}
	// (1) random valid packets; all option combinations on some
	for i := 0; i < 60*scale; i++ {
		p := valid()
		full("", p)
		if i < 10*scale {
			for _, f := range lnFCD[:6] {
				add("", "ser:"+hx(p)+","+f+","+hx(lnRandBytes(rng, lnPick(rng, 0, 2))))
			}
		}
	}
	// (2) every truncation
	for i := 0; i < 3*scale; i++ {
		p := valid()
		for k := 0; k <= len(p); k++ {
			if k > 60 && k < len(p)-6 && k%7 != 0 {
				continue
			}
			add("truncated-prefix-of-valid", "dec:"+hx(p[:k]))
			if k%4 == 0 {
				add("truncated-prefix-of-valid", "ser:"+hx(p[:k])+","+fcd()+",")
			}
		}
	}
	// (3) mandatory TLVs: missing, reordered, duplicated, value lengths 0..3 (consistent cuts: the TLV ends at every boundary of its value),
	//     subtype 0, End missing / carrying a value / followed by more TLVs
	ch := llTLV(1, []byte{4, 1, 2, 3, 4, 5, 6}, -1)
	po := llTLV(2, []byte{5, 'e', 't', 'h'}, -1)
	tt := llTLV(3, []byte{0, 120}, -1)
	end := []byte{0, 0}
	cat := func(ps ...[]byte) []byte {
		var m []byte
		for _, p := range ps {
			m = append(m, p...)
		}
		return m
	}
	for _, p := range [][]byte{cat(ch, po, tt, end), cat(po, ch, tt, end), cat(tt, po, ch, end), cat(ch, po, end), cat(ch, tt, end), cat(po, tt, end), cat(ch, po, tt),
		cat(ch, po, tt, llTLV(5, []byte("x"), -1)), cat(ch, ch, po, tt, end), cat(ch, po, tt, tt, end), cat(ch, po, tt, end, llTLV(5, []byte("after end"), -1)),
		cat(ch, po, tt, llTLV(0, []byte{1, 2, 3}, -1)), cat(end, ch, po, tt), cat(ch, po, tt, llTLV(9, nil, -1)), cat(llTLV(9, nil, -1), llTLV(9, nil, -1), llTLV(9, nil, -1), end),
		cat(ch, po, llTLV(9, nil, -1), end), cat(llTLV(1, []byte{0, 1, 2}, -1), po, tt, end), cat(ch, llTLV(2, []byte{0, 1}, -1), tt, end)} {
		full("mandatory-tlv", p)
	}
	for t := 1; t <= 3; t++ {
		for n := 0; n <= 3; n++ {
			x := llTLV(t, []byte{7, 8, 9}[:n], -1)
			parts := [][]byte{ch, po, tt}
			parts[t-1] = x
			full("consistent-length-cut", cat(parts[0], parts[1], parts[2], end))
			full("consistent-length-cut", cat(ch, po, tt, x, end)) // a second, short one after a good one
		}
	}
	// (4) TLV length field against the data: 0, 1, exact, +-1, 255, 256 (ninth bit), 511, for each TLV kind, last and followed by End
	for _, t := range []int{1, 2, 3, 4, 7, 8, 127, 9, 0} {
		for _, n := range []int{0, 1, 2, 4, 9, 20} {
			for _, d := range []int{-1, 0, 1, n - 1, n + 1, n + 2, 255, 256, 257, 511} {
				if d < -1 {
					continue
				}
				x := llTLV(t, lnRandBytes(rng, n), d)
				add("tlv-length-extreme", "dec:"+hx(cat(ch, po, tt, x, end)))
				add("tlv-length-extreme", "dec:"+hx(cat(ch, po, tt, x)))
			}
		}
	}
	for _, n := range []int{255, 256, 257, 300, 511} { // values that need the ninth length bit
		p := cat(ch, po, tt, llTLV(6, lnRandBytes(rng, n), -1), llTLV(127, append([]byte{0, 0x80, 0xc2, 1}, lnRandBytes(rng, n-4)...), -1), end)
		full("nine-bit-length", p)
	}
	// (5) management address: address string length 0..255 and OID length 0..255 against the value length; consistent cuts: the TLV ends
	//     exactly at every internal boundary of the value (TLV length = bytes present)
	for _, ml := range []int{0, 1, 2, 5, 6, 17, 31, 32, 200, 248, 249, 250, 254, 255} {
		for _, ol := range []int{0, 1, 3, 128, 244, 250, 251, 255} {
			for _, have := range []int{0, 4, 31, 250} {
				v := llMgmt(rng, lnRandBytes(rng, have), ml, lnRandBytes(rng, lnPick(rng, 0, 3, 250)), ol)
				if len(v) > 511 {
					v = v[:511]
				}
				add("mgmt-length-extreme", "dec:"+hx(cat(ch, po, tt, llTLV(8, v, -1), end)))
				if rng.Intn(6) == 0 {
					add("mgmt-length-extreme", "dec:"+hx(cat(ch, po, tt, llTLV(8, v, -1), llTLV(5, lnRandBytes(rng, 300), -1), end))) // bytes after the value (capacity)
					add("mgmt-length-extreme", "ser:"+hx(cat(ch, po, tt, llTLV(8, v, -1), end))+","+fcd()+",")
				}
			}
		}
	}
	for i := 0; i < 2*scale; i++ {
		v := llMgmt(rng, lnRandBytes(rng, lnPick(rng, 4, 6)), -1, lnRandBytes(rng, 5), -1)
		for k := 0; k <= len(v); k++ {
			full("consistent-length-cut", cat(ch, po, tt, llTLV(8, v[:k], -1), end))
			add("consistent-length-cut", "dec:"+hx(cat(ch, po, tt, llTLV(8, v[:k], -1), llTLV(6, lnRandBytes(rng, 40), -1), end)))
		}
	}
	for _, t := range []int{7, 127} { // capabilities and organisation-specific values of every short length
		for k := 0; k <= 6; k++ {
			full("consistent-length-cut", cat(ch, po, tt, llTLV(t, []byte{0, 0x80, 0xc2, 3, 0, 5, 1}[:k], -1), end))
		}
	}
	// (5b) organisation-specific TLVs of every OUI/subtype the typed decoders know, with Info of every length 0..n (consistent cuts), as the
	//      last TLV before End and followed by a long TLV; protocol-identity and location sub-lengths forced
	type orgT struct {
		oui []byte
		sub int
		n   int
	}
	var orgs []orgT
	for sub := 1; sub <= 7; sub++ {
		orgs = append(orgs, orgT{[]byte{0, 0x80, 0xc2}, sub, 8})
	}
	for sub := 1; sub <= 4; sub++ {
		orgs = append(orgs, orgT{[]byte{0, 0x12, 0x0f}, sub, 9})
	}
	orgs = append(orgs, orgT{[]byte{0, 0x13, 0xbf}, 0, 10}, orgT{[]byte{0, 1, 0x42}, 1, 2})
	for sub := 1; sub <= 11; sub++ {
		orgs = append(orgs, orgT{[]byte{0, 0x12, 0xbb}, sub, 6})
	}
	for _, sub := range []int{1, 2, 4, 5, 6} {
		orgs = append(orgs, orgT{[]byte{0, 0x0e, 0xcf}, sub, 55})
	}
	for _, o := range orgs {
		for k := 0; k <= o.n; k++ {
			if k > 22 && k < o.n-3 {
				continue
			}
			inf := lnRandBytes(rng, k)
			x := llTLV(127, append(append(lnCopy(o.oui), byte(o.sub)), inf...), -1)
			add("org-info-length", "dec:"+hx(cat(ch, po, tt, x, end)))
			add("org-info-length", "dec:"+hx(cat(ch, po, tt, x, llTLV(6, lnRandBytes(rng, 300), -1), end)))
		}
	}
	for _, l := range []int{0, 1, 2, 3, 4, 200, 255} { // 802.1 protocol identity: length octet against the octets present
		for _, have := range []int{0, 1, 3} {
			x := llTLV(127, append([]byte{0, 0x80, 0xc2, 4, byte(l)}, lnRandBytes(rng, have)...), -1)
			add("org-info-length", "dec:"+hx(cat(ch, po, tt, x, end)))
		}
	}
	for _, f := range []int{0, 1, 2, 3, 4} { // MED location: format x octets present; civic address lines with lengths 0, exact, beyond
		for k := 0; k <= 18; k++ {
			x := llTLV(127, append([]byte{0, 0x12, 0xbb, 3, byte(f)}, lnRandBytes(rng, k)...), -1)
			add("org-info-length", "dec:"+hx(cat(ch, po, tt, x, end)))
		}
		for _, al := range []int{0, 1, 2, 3, 200} {
			x := llTLV(127, append([]byte{0, 0x12, 0xbb, 3, 2, 9, 1, 'D', 'E', 1, byte(al)}, []byte("ab")...), -1)
			add("org-info-length", "dec:"+hx(cat(ch, po, tt, x, end)))
		}
	}
	// (6) field-built layers
	for i := 0; i < 150*scale; i++ {
		var vs []string
		for k := lnPick(rng, 0, 1, 1, 2, 3); k > 0; k-- {
			n := lnPick(rng, 0, 1, 4, 9, 20)
			val := lnRandBytes(rng, n)
			ty := lnPick(rng, 4, 5, 6, 7, 9, 127, 126, 8, 0, 1, 3, 128, 255)
			if ty == 8 && rng.Intn(2) == 0 {
				val = llMgmt(rng, lnRandBytes(rng, 4), -1, lnRandBytes(rng, 2), -1)
				n = len(val)
			}
			vs = append(vs, fmt.Sprintf("%d~%d~%s", ty, lnPick(rng, n, n, n, n, 0, n+1, n+7, 511, 512, 700), hx(val)))
		}
		v := "-"
		if len(vs) > 0 {
			v = strings.Join(vs, "+")
		}
		spec := fmt.Sprintf("%d.%s.%d.%s.%d.%s", lnPick(rng, 4, 4, 7, 0, 255), hx(lnRandBytes(rng, lnPick(rng, 6, 6, 1, 0, 510, 511, 520))), lnPick(rng, 5, 5, 3, 0, 255),
			hx(lnRandBytes(rng, lnPick(rng, 4, 4, 1, 0, 510, 511))), lnPick(rng, 0, 120, 65535), v)
		add("field-extreme", "new:"+spec+","+fcd()+","+hx(lnRandBytes(rng, lnPick(rng, 0, 0, 3))))
		add("field-extreme", "rtn:"+spec+",")
	}
	// (7) seeds (EtherType 0x88cc frames of layers/*_test.go) and a malformed stream
	ns := 0
	for _, s := range lnEthSeeds(0x88cc) {
		if ns++; ns > 30*scale {
			break
		}
		full("seed", s)
	}
	for i := 0; i < 100*scale; i++ {
		q := lnRandBytes(rng, lnPick(rng, 0, 1, 2, 3, 9, 20, rng.Intn(80)))
		if rng.Intn(2) == 0 {
			q = append(cat(ch, po, tt), q...)
		}
		add("malformed", "dec:"+hx(q))
		add("malformed", "ser:"+hx(q)+","+fcd()+",")
	}
	return out
}
