package main

// helpers shared by the sub-checks of agent lsmall (Lgtp2, Lctp, Lapsp, Lague, Lmdp, ...)

import (
	"encoding/hex"
	"fmt"
	"go/ast"
	"go/parser"
	"go/token"
	"os"
	"path/filepath"
	"sort"
	"strconv"
	"strings"
	"sync"

	"github.com/gopacket/gopacket"
)

var (
	lsHexOnce sync.Once
	lsHexData [][]byte
)

// lsHexSeeds returns the packets that layers/*_test.go of the repository under test give as hexadecimal string
// literals (hex.DecodeString input), parsed with go/ast at run time; lnSeeds covers the []byte{...} literals.
func lsHexSeeds() [][]byte {
	lsHexOnce.Do(func() {
		repo := os.Getenv("VERIF_REPO")
		if repo == "" {
			repo = "/repo"
		}
		files, _ := filepath.Glob(filepath.Join(repo, "layers", "*_test.go"))
		sort.Strings(files)
		fset := token.NewFileSet()
		for _, fn := range files {
			f, err := parser.ParseFile(fset, fn, nil, 0)
			if err != nil {
				continue
			}
			ast.Inspect(f, func(n ast.Node) bool {
				bl, ok := n.(*ast.BasicLit)
				if !ok || bl.Kind != token.STRING {
					return true
				}
				s, err := strconv.Unquote(bl.Value)
				if err != nil {
					return true
				}
				s = strings.Join(strings.Fields(s), "")
				if len(s) < 28 || len(s)%2 != 0 || len(s) > 4000 {
					return true
				}
				b, err := hex.DecodeString(s)
				if err != nil {
					return true
				}
				lsHexData = append(lsHexData, b)
				return true
			})
		}
	})
	return lsHexData
}

// lsUDPPayloads: UDP payloads to or from the given port inside Ethernet/IPv4 or Ethernet/IPv6 frames among all
// test-file packets (byte-slice and hex-string literals).
func lsUDPPayloads(port int) [][]byte {
	var out [][]byte
	all := append(append([][]byte(nil), lnSeeds()...), lsHexSeeds()...)
	for _, s := range all {
		if len(s) < 14 {
			continue
		}
		et := int(s[12])<<8 | int(s[13])
		var u []byte
		switch {
		case et == 0x0800 && len(s) > 34 && s[14]>>4 == 4 && s[23] == 17:
			ihl := int(s[14]&0xf) * 4
			if ihl >= 20 && 14+ihl < len(s) {
				u = s[14+ihl:]
			}
		case et == 0x86dd && len(s) > 54 && s[20] == 17:
			u = s[54:]
		}
		if len(u) > 8 && (int(u[2])<<8|int(u[3]) == port || int(u[0])<<8|int(u[1]) == port) {
			out = append(out, u[8:])
		}
	}
	return out
}

// lsSnapSeeds: what follows an LLC/SNAP header (aa aa 03, OUI, EtherType et) anywhere inside a test-file packet
// (e.g. behind RadioTap/802.11 headers).
func lsSnapSeeds(et uint16) [][]byte {
	var out [][]byte
	all := append(append([][]byte(nil), lnSeeds()...), lsHexSeeds()...)
	for _, s := range all {
		for i := 0; i+8 < len(s); i++ {
			if s[i] == 0xaa && s[i+1] == 0xaa && s[i+2] == 0x03 && uint16(s[i+6])<<8|uint16(s[i+7]) == et {
				out = append(out, s[i+8:])
				break
			}
		}
	}
	return out
}

// lsTCPPayloads: non-empty TCP payloads to or from the given port inside Ethernet/IPv4 frames among all test-file packets.
func lsTCPPayloads(port int) [][]byte {
	var out [][]byte
	all := append(append([][]byte(nil), lnSeeds()...), lsHexSeeds()...)
	for _, s := range all {
		if len(s) < 54 || int(s[12])<<8|int(s[13]) != 0x0800 || s[14]>>4 != 4 || s[23] != 6 {
			continue
		}
		ihl := int(s[14]&0xf) * 4
		if ihl < 20 || 14+ihl+20 > len(s) {
			continue
		}
		t := s[14+ihl:]
		off := int(t[12]>>4) * 4
		if off < 20 || off >= len(t) {
			continue
		}
		if int(t[0])<<8|int(t[1]) == port || int(t[2])<<8|int(t[3]) == port {
			out = append(out, t[off:])
		}
	}
	return out
}

// lsDecfCfg: the registered decoder of a layer type run on a recording PacketBuilder (op decf:<hex>); obs:
//   cls=..;tr=..;added=N;<fields of the added layer, or of a zero layer>;c=..;p=..;next=none|<id>
type lsDecfCfg struct {
	d    *lmDesc
	lt   gopacket.LayerType
	conv func(gopacket.Layer) gopacket.Layer         // the added layer as the pointer type d.fields expects (nil = as it is)
	next func(l gopacket.Layer, b *lmBuilder) string // name of the decoder handed to NextDecoder
}

func lsHasDecf(c Case) bool {
	for _, op := range c.Ops {
		if name, _ := lnOp(op); name == "decf" {
			return true
		}
	}
	return false
}

func lsRunDecf(g lsDecfCfg, c Case) (res Result) {
	d := g.d
	for _, op := range c.Ops {
		name, a := lnOp(op)
		switch name {
		case "tag":
			res.Tags = append(res.Tags, a[0])
		case "G":
		case "decf":
			data := lnCopy(lnUnhex(a[0]))
			b := &lmBuilder{}
			cls := lnClass(func() error { return g.lt.Decode(data, b) })
			l := d.fresh()
			if len(b.layers) > 0 {
				l = b.layers[0]
				if g.conv != nil {
					l = g.conv(l)
				}
			}
			cc, pp := lmBase(l)
			nx := "none"
			if b.nextSet {
				nx = g.next(l, b)
			}
			res.Obs = append(res.Obs, fmt.Sprintf("cls=%s;tr=%s;added=%d;%s;c=%s;p=%s;next=%s", cls, lnB(b.tr), len(b.layers), d.fields(l), lnHex(cc), lnHex(pp), nx))
			if cls == "panic" {
				res.Oracle = append(res.Oracle, "C19:panic\tthe registered "+d.name+" decoder panicked")
			}
			if (cls == "ok") != (len(b.layers) == 1) {
				res.Oracle = append(res.Oracle, fmt.Sprintf("C01:error-discipline\tdecoder class %s but %d layers added", cls, len(b.layers)))
			}
			var extra []func()
			if d.extra != nil {
				extra = d.extra(l)
			}
			if lnRender(l, extra...) != "ok" {
				res.Oracle = append(res.Oracle, "C01:render-panic\trenderer/accessor panicked after decoder class "+cls)
			}
			if cls == "err" {
				res.Tags = append(res.Tags, "decode-error")
			}
			res.Tags = append(res.Tags, "registered-decoder")
		default:
			panic(d.id + ": op " + op + " mixed with decf")
		}
	}
	return
}
