package main

// Lntp: layers/ntp.go codec sub-check (C19, C05, C06, C07, C01 for NTP).
// Ops: dec dec2 ser rt (lmisc_common.go) plus
//   new:<li>.<ver>.<mode>.<stratum>.<poll>.<prec>.<rootdelay>.<rootdisp>.<refid>.<t1>.<t2>.<t3>.<t4>.<exthex|->,<fcd>,<payloadhex>
//   (poll/prec signed decimal, timestamps hex) and rtn: likewise.

import (
	"fmt"
	"math/rand"
	"strconv"
	"strings"

	"github.com/gopacket/gopacket"
	"github.com/gopacket/gopacket/layers"
)

type lntp struct{}

func init() { register("Lntp", lntp{}) }

func lmHex64(s string) uint64 {
	v, err := strconv.ParseUint(s, 16, 64)
	if err != nil {
		panic("bad hex64 " + s)
	}
	return v
}

var lntpDesc = &lmDesc{
	id: "Lntp", name: "NTP", ser: true,
	fresh: func() gopacket.Layer { return &layers.NTP{} },
	decode: func(l gopacket.Layer, data []byte, fb gopacket.DecodeFeedback) error {
		return l.(*layers.NTP).DecodeFromBytes(data, fb)
	},
	fields: func(l gopacket.Layer) string {
		n := l.(*layers.NTP)
		return fmt.Sprintf("li=%d;v=%d;m=%d;st=%d;poll=%d;prec=%d;rd=%d;rdisp=%d;ref=%d;t=%x.%x.%x.%x;ext=%s", n.LeapIndicator, n.Version, n.Mode, n.Stratum,
			n.Poll, n.Precision, uint32(n.RootDelay), uint32(n.RootDispersion), uint32(n.ReferenceID), uint64(n.ReferenceTimestamp), uint64(n.OriginTimestamp),
			uint64(n.ReceiveTimestamp), uint64(n.TransmitTimestamp), lnHex(n.ExtensionBytes))
	},
	next: func(l gopacket.Layer, _ *lmBuilder) string {
		if t := l.(*layers.NTP).NextLayerType(); t != gopacket.LayerTypeZero {
			return fmt.Sprintf("other%d", t)
		}
		return "zero"
	},
	fromSpec: func(spec string) gopacket.Layer {
		f := strings.Split(spec, ".")
		return &layers.NTP{LeapIndicator: layers.NTPLeapIndicator(lnAtoi(f[0])), Version: layers.NTPVersion(lnAtoi(f[1])), Mode: layers.NTPMode(lnAtoi(f[2])),
			Stratum: layers.NTPStratum(lnAtoi(f[3])), Poll: layers.NTPLog2Seconds(lnAtoi(f[4])), Precision: layers.NTPLog2Seconds(lnAtoi(f[5])),
			RootDelay: layers.NTPFixed16Seconds(lnAtoi(f[6])), RootDispersion: layers.NTPFixed16Seconds(lnAtoi(f[7])), ReferenceID: layers.NTPReferenceID(lnAtoi(f[8])),
			ReferenceTimestamp: layers.NTPTimestamp(lmHex64(f[9])), OriginTimestamp: layers.NTPTimestamp(lmHex64(f[10])), ReceiveTimestamp: layers.NTPTimestamp(lmHex64(f[11])),
			TransmitTimestamp: layers.NTPTimestamp(lmHex64(f[12])), ExtensionBytes: lmHexOrDash(f[13])}
	},
	// C06 hypothesis: 2/3/3-bit leap, version, mode; and no payload under the layer (the decoder keeps none; SerializeTo appends
	// ExtensionBytes behind the buffer's content, so a payload would come back in front of the extensions)
	inDomain: func(l gopacket.Layer, payload []byte) bool {
		n := l.(*layers.NTP)
		return n.LeapIndicator < 4 && n.Version < 8 && n.Mode < 8 && len(payload) == 0
	},
	rtPayload: func(l gopacket.Layer, payload []byte) []byte { return nil },
	extra: func(l gopacket.Layer) []func() { n := l.(*layers.NTP); return []func(){func() { _ = n.Payload() }} },
	tags: func(l gopacket.Layer, cls string, data []byte) []string {
		if cls == "ok" && len(data) > 48 {
			return []string{"extension-bytes"}
		}
		return nil
	},
}

func (lntp) Run(c Case) Result { return lmRun(lntpDesc, c) }

func (lntp) Gen(rng *rand.Rand, tier string) []Case {
	valid := func(rng *rand.Rand) []byte {
		h := lnRandBytes(rng, 48)
		h[0] = byte(lnPick(rng, 0x23, 0x24, 0xe3, 0x00, 0xff, rng.Intn(256)))
		h[2], h[3] = byte(lnPick(rng, 6, 0, 127, 128, 255)), byte(lnPick(rng, 0xec, 0, 127, 128, 255))
		if rng.Intn(4) == 0 {
			for i := 16; i < 48; i++ {
				h[i] = byte(lnPick(rng, 0, 0xff))
			}
		}
		return append(h, lnRandBytes(rng, lnPick(rng, 0, 0, 1, 4, 20, 33))...)
	}
	g := lmGenCfg{
		valid:  valid,
		hdrLen: func(p []byte) int { return 48 },
		n:      40,
		spec: func(rng *rand.Rand) string {
			t := func() string { return lnPick2(rng, "0", "1", "ffffffffffffffff", "8000000000000000", "7fffffffffffffff", fmt.Sprintf("%x", rng.Uint64())) }
			return fmt.Sprintf("%d.%d.%d.%d.%d.%d.%d.%d.%d.%s.%s.%s.%s.%s", lnPick(rng, 0, 3, 4, 255), lnPick(rng, 4, 0, 7, 8, 255), lnPick(rng, 3, 0, 7, 8, 255), lnPick(rng, 0, 1, 255),
				lnPick(rng, 0, 6, -1, 127, -128), lnPick(rng, 0, -20, 127, -128), lnPick(rng, 0, 1, 1<<32-1), lnPick(rng, 0, 1, 1<<32-1), lnPick(rng, 0, 1, 1<<32-1),
				t(), t(), t(), t(), lnPick2(rng, "-", "", "00", "0102030405"))
		},
		seeds: append(lmUDPSeeds(123), lmUDPSeeds(1123)...),
		extra: func(rng *rand.Rand, add func(ops ...string)) {
			for b := 0; b < 256; b++ { // every flags byte, every poll/precision byte
				p := lnRandBytes(rng, 48)
				p[0], p[2], p[3] = byte(b), byte(b), byte(255-b)
				add("tag:first-byte-every-value", "dec:"+lnHex(p))
				if b%4 == 0 {
					add("tag:first-byte-every-value", "rt:"+lnHex(p)+",")
				}
			}
			for _, n := range []int{47, 48, 49} {
				add("tag:length-extreme", "dec:"+lnHex(lnRandBytes(rng, n)))
				add("tag:length-extreme", "rt:"+lnHex(lnRandBytes(rng, n))+",")
			}
		},
	}
	return lmGen(lntpDesc, g, rng, tier)
}
