package main

// Lospf: layers/ospf.go codec sub-check (C19, C05, C01 for OSPFv2 and OSPFv3; the layers have no SerializeTo, so C06 and C07
// do not apply and there are no ser/rt ops).  Ops: dec dec2 (lmisc_common.go); the first op of a case is G:2 or G:3 and selects
// the layer type.  Content (an interface{}) is printed as a tagged tree: nil | <n> | x<hex> | [a,b,...]; the tags are those of
// coq/Model/LospfModel.v.

import (
	"fmt"
	"math/rand"
	"strings"

	"github.com/gopacket/gopacket"
	"github.com/gopacket/gopacket/layers"
)

type lospf struct{}

func init() { register("Lospf", lospf{}) }

func osL(xs ...string) string { return "[" + strings.Join(xs, ",") + "]" }
func osN(v interface{}) string { return fmt.Sprint(v) }
func osB(b []byte) string      { return "x" + lnHex(b) }

func osHdr(h layers.LSAheader) string {
	return osL(osN(h.LSAge), osN(h.LSType), osN(h.LinkStateID), osN(h.AdvRouter), osN(h.LSSeqNumber), osN(h.LSChecksum), osN(h.Length), osN(h.LSOptions))
}

func osU32s(xs []uint32) string {
	s := make([]string, len(xs))
	for i, x := range xs {
		s[i] = osN(x)
	}
	return osL(s...)
}

func osPrefixes(ps []layers.Prefix) string {
	s := make([]string, len(ps))
	for i, p := range ps {
		s[i] = osL(osN(p.PrefixLength), osN(p.PrefixOptions), osN(p.Metric), osB(p.AddressPrefix))
	}
	return osL(s...)
}

func osHdrs(hs []layers.LSAheader) string {
	s := make([]string, len(hs))
	for i, h := range hs {
		s[i] = osHdr(h)
	}
	return osL(s...)
}

func osContent(c interface{}) string {
	switch v := c.(type) {
	case nil:
		return "nil"
	case layers.HelloPkgV2:
		return osL("1", osN(v.InterfaceID), osN(v.RtrPriority), osN(v.Options), osN(v.HelloInterval), osN(v.RouterDeadInterval), osN(v.DesignatedRouterID),
			osN(v.BackupDesignatedRouterID), osU32s(v.NeighborID), osN(v.NetworkMask))
	case layers.HelloPkg:
		return osL("2", osN(v.InterfaceID), osN(v.RtrPriority), osN(v.Options), osN(v.HelloInterval), osN(v.RouterDeadInterval), osN(v.DesignatedRouterID),
			osN(v.BackupDesignatedRouterID), osU32s(v.NeighborID))
	case layers.DbDescPkg:
		return osL("3", osN(v.Options), osN(v.InterfaceMTU), osN(v.Flags), osN(v.DDSeqNumber), osHdrs(v.LSAinfo))
	case []layers.LSReq:
		s := make([]string, len(v))
		for i, r := range v {
			s[i] = osL(osN(r.LSType), osN(r.LSID), osN(r.AdvRouter))
		}
		return osL("4", osL(s...))
	case layers.LSUpdate:
		s := make([]string, len(v.LSAs))
		for i, l := range v.LSAs {
			s[i] = osL(osHdr(l.LSAheader), osContent(l.Content))
		}
		return osL("5", osN(v.NumOfLSAs), osL(s...))
	case []layers.LSAheader:
		return osL("6", osHdrs(v))
	case layers.RouterLSAV2:
		s := make([]string, len(v.Routers))
		for i, r := range v.Routers {
			s[i] = osL(osN(r.Type), osN(r.LinkID), osN(r.LinkData), osN(r.Metric))
		}
		return osL("11", osN(v.Flags), osN(v.Links), osL(s...))
	case layers.ASExternalLSAV2:
		return osL("12", osN(v.NetworkMask), osN(v.ExternalBit), osN(v.Metric), osN(v.ForwardingAddress), osN(v.ExternalRouteTag))
	case layers.NetworkLSAV2:
		return osL("13", osN(v.NetworkMask), osU32s(v.AttachedRouter))
	case layers.RouterLSA:
		s := make([]string, len(v.Routers))
		for i, r := range v.Routers {
			s[i] = osL(osN(r.Type), osN(r.Metric), osN(r.InterfaceID), osN(r.NeighborInterfaceID), osN(r.NeighborRouterID))
		}
		return osL("14", osN(v.Flags), osN(v.Options), osL(s...))
	case layers.NetworkLSA:
		return osL("15", osN(v.Options), osU32s(v.AttachedRouter))
	case layers.InterAreaPrefixLSA:
		return osL("16", osN(v.Metric), osN(v.PrefixLength), osN(v.PrefixOptions), osB(v.AddressPrefix))
	case layers.InterAreaRouterLSA:
		return osL("17", osN(v.Options), osN(v.Metric), osN(v.DestinationRouterID))
	case layers.ASExternalLSA:
		if v.ExternalRouteTag != 0 || v.RefLinkStateID != 0 {
			return "unmodelled-field"
		}
		return osL("18", osN(v.Flags), osN(v.Metric), osN(v.PrefixLength), osN(v.PrefixOptions), osN(v.RefLSType), osB(v.AddressPrefix), osB(v.ForwardingAddress))
	case layers.LinkLSA:
		return osL("19", osN(v.RtrPriority), osN(v.Options), osB(v.LinkLocalAddress), osN(v.NumOfPrefixes), osPrefixes(v.Prefixes))
	case layers.IntraAreaPrefixLSA:
		return osL("20", osN(v.NumOfPrefixes), osN(v.RefLSType), osN(v.RefLinkStateID), osN(v.RefAdvRouter), osPrefixes(v.Prefixes))
	}
	return fmt.Sprintf("other(%T)", c)
}

func osCommon(o *layers.OSPF) string {
	return fmt.Sprintf("ver=%d;type=%d;plen=%d;rid=%d;aid=%d;csum=%d", o.Version, uint8(o.Type), o.PacketLength, o.RouterID, o.AreaID, o.Checksum)
}

var lospf2Desc = &lmDesc{
	id: "Lospf", name: "OSPFv2",
	fresh: func() gopacket.Layer { return &layers.OSPFv2{} },
	decode: func(l gopacket.Layer, data []byte, fb gopacket.DecodeFeedback) error {
		return l.(*layers.OSPFv2).DecodeFromBytes(data, fb)
	},
	fields: func(l gopacket.Layer) string {
		o := l.(*layers.OSPFv2)
		return fmt.Sprintf("%s;au=%d;auth=%x;inst=0;rsv=0;content=%s", osCommon(&o.OSPF), o.AuType, o.Authentication, osContent(o.Content))
	},
	next: func(l gopacket.Layer, _ *lmBuilder) string {
		if t := l.(*layers.OSPFv2).NextLayerType(); t != gopacket.LayerTypeZero {
			return fmt.Sprintf("other%d", t)
		}
		return "0"
	},
	extra: func(l gopacket.Layer) []func() {
		o := l.(*layers.OSPFv2)
		return []func(){func() { _, _ = o.Type.String(), o.CanDecode() }}
	},
}

var lospf3Desc = &lmDesc{
	id: "Lospf", name: "OSPFv3",
	fresh: func() gopacket.Layer { return &layers.OSPFv3{} },
	decode: func(l gopacket.Layer, data []byte, fb gopacket.DecodeFeedback) error {
		return l.(*layers.OSPFv3).DecodeFromBytes(data, fb)
	},
	fields: func(l gopacket.Layer) string {
		o := l.(*layers.OSPFv3)
		return fmt.Sprintf("%s;au=0;auth=0;inst=%d;rsv=%d;content=%s", osCommon(&o.OSPF), o.Instance, o.Reserved, osContent(o.Content))
	},
	next: func(l gopacket.Layer, _ *lmBuilder) string {
		if t := l.(*layers.OSPFv3).NextLayerType(); t != gopacket.LayerTypeZero {
			return fmt.Sprintf("other%d", t)
		}
		return "0"
	},
	extra: func(l gopacket.Layer) []func() {
		o := l.(*layers.OSPFv3)
		return []func(){func() { _, _ = o.Type.String(), o.CanDecode() }}
	},
}

func osTags(obs []string) []string {
	var t []string
	for _, o := range obs {
		i := strings.Index(o, "content=")
		if i < 0 {
			continue
		}
		c := o[i+8:]
		for tag, name := range map[string]string{"[1,": "hello", "[2,": "hello", "[3,": "db-description", "[4,": "ls-request", "[5,": "ls-update", "[6,": "ls-ack"} {
			if strings.HasPrefix(c, tag) {
				t = append(t, name)
			}
		}
		if strings.HasPrefix(c, "[5,") {
			for _, k := range []string{"11", "12", "13", "14", "15", "16", "17", "18", "19", "20"} {
				if strings.Contains(c, "],["+k+",") {
					t = append(t, "lsa-body-"+k)
				}
			}
		}
		if strings.HasPrefix(o, "cls=err") && strings.Contains(o, ";type=") && !strings.Contains(o, "ver=0;type=0;plen=0;rid=0") {
			t = append(t, "error-after-fields-set")
		}
	}
	return t
}

func (lospf) Run(c Case) Result {
	d := lospf2Desc
	for _, op := range c.Ops {
		if op == "G:3" {
			d = lospf3Desc
		}
	}
	r := lmRun(d, c)
	r.Tags = append(r.Tags, osTags(r.Obs)...)
	return r
}

// ---- builders
func osPut16(b []byte, v int)    { b[0], b[1] = byte(v>>8), byte(v) }
func osU32(v uint32) []byte      { return []byte{byte(v >> 24), byte(v >> 16), byte(v >> 8), byte(v)} }
func osCat(ps ...[]byte) []byte {
	var m []byte
	for _, p := range ps {
		m = append(m, p...)
	}
	return m
}

// osPkt: common header (24 octets for v2, 16 for v3) + body; plen < 0 means the real length.
func osPkt(rng *rand.Rand, v, typ int, body []byte, plen int) []byte {
	hl := 24
	if v == 3 {
		hl = 16
	}
	h := lnRandBytes(rng, hl)
	h[0], h[1] = byte(v), byte(typ)
	if plen < 0 {
		plen = hl + len(body)
	}
	osPut16(h[2:], plen)
	return append(h, body...)
}

// osLSAHdr: 20-octet LSA header; v2 has options/type octets, v3 a 16-bit type.
func osLSAHdr(rng *rand.Rand, v, lstype, length int) []byte {
	h := lnRandBytes(rng, 20)
	if v == 2 {
		h[3] = byte(lstype)
	} else {
		osPut16(h[2:], lstype)
	}
	osPut16(h[18:], length)
	return h
}

// osLSABody: a well-formed body for the LSA type (after the 20-octet header) and the offsets of its internal boundaries.
func osLSABody(rng *rand.Rand, lstype int) (b []byte, bounds []int) {
	mark := func() { bounds = append(bounds, len(b)) }
	switch lstype {
	case 1: // Router-LSA v2: flags, 0, #links, links of 12
		b = append(b, byte(rng.Intn(8)), 0, 0, 2)
		mark()
		for i := 0; i < 2; i++ {
			b = append(b, lnRandBytes(rng, 12)...)
			bounds = append(bounds, len(b)-8, len(b)-4, len(b)-2)
			mark()
		}
	case 5, 7: // AS-external v2
		b = append(b, lnRandBytes(rng, 16)...)
		bounds = append(bounds, 4, 5, 8, 12, 16)
	case 2, 0x2002: // Network-LSA: mask/options + routers
		b = append(b, lnRandBytes(rng, 4)...)
		mark()
		for i := 0; i < 3; i++ {
			b = append(b, lnRandBytes(rng, 4)...)
			mark()
		}
	case 0x2001:
		b = append(b, lnRandBytes(rng, 4)...)
		mark()
		for i := 0; i < 2; i++ {
			b = append(b, lnRandBytes(rng, 16)...)
			bounds = append(bounds, len(b)-12, len(b)-8, len(b)-4)
			mark()
		}
	case 0x2003:
		b = append(b, lnRandBytes(rng, 4)...)
		b = append(b, 64, 0, 0, 0)
		bounds = append(bounds, 4, 5, 6, 8)
		b = append(b, lnRandBytes(rng, 8)...)
		mark()
	case 0x2004:
		b = append(b, lnRandBytes(rng, 12)...)
		bounds = append(bounds, 4, 8, 12)
	case 0x4005, 0x2007:
		fl := byte(lnPick(rng, 0, 2, 2, 7))
		b = append(b, fl, 0, 0, 10, 64, 0, 0, 0)
		bounds = append(bounds, 1, 4, 5, 6, 8)
		b = append(b, lnRandBytes(rng, 8)...)
		mark()
		if fl&2 != 0 {
			b = append(b, lnRandBytes(rng, 16)...)
			bounds = append(bounds, len(b)-1)
			mark()
		}
	case 8: // Link-LSA: prio+options, link-local address, #prefixes, prefixes
		b = append(b, lnRandBytes(rng, 20)...)
		b = append(b, 0, 0, 0, 2)
		bounds = append(bounds, 4, 20, 24)
		for i := 0; i < 2; i++ {
			pl := lnPick(rng, 0, 32, 64, 128)
			b = append(b, byte(pl), 0, 0, 0)
			bounds = append(bounds, len(b)-3, len(b)-2)
			mark()
			b = append(b, lnRandBytes(rng, pl/8)...)
			mark()
		}
	case 0x2009: // Intra-Area-Prefix: #prefixes, ref type, ref id, ref adv, prefixes (the code advances by 4 + prefix length)
		b = append(b, 0, 2)
		b = append(b, lnRandBytes(rng, 10)...)
		bounds = append(bounds, 2, 4, 8, 12)
		for i := 0; i < 2; i++ {
			pl := lnPick(rng, 0, 8, 16)
			b = append(b, byte(pl), 0, 0, 5)
			bounds = append(bounds, len(b)-3, len(b)-2)
			mark()
			b = append(b, lnRandBytes(rng, pl)...)
			bounds = append(bounds, len(b)-pl+pl/8)
			mark()
		}
	default:
		b = lnRandBytes(rng, 8)
		mark()
	}
	return
}

var osLSATypes = map[int][]int{2: {1, 2, 5, 7, 8, 3, 4, 9}, 3: {0x2001, 0x2002, 0x2003, 0x2004, 0x4005, 0x2007, 8, 0x2009, 1, 2, 5, 0x2008}}

func osLSA(rng *rand.Rand, v, lstype int) []byte {
	b, _ := osLSABody(rng, lstype)
	return append(osLSAHdr(rng, v, lstype, 20+len(b)), b...)
}

func (lospf) Gen(rng *rand.Rand, tier string) []Case {
	var out []Case
	hx := lnHex
	scale := 1
	if tier == "thorough" {
		scale = 6
	}
	for _, v := range []int{2, 3} {
		v := v
		G := fmt.Sprintf("G:%d", v)
		add := func(tag string, ops ...string) {
			all := []string{G}
			if tag != "" {
				all = append(all, "tag:"+tag)
			}
			out = append(out, Case{Prop: "Lospf", Ops: append(all, ops...)})
		}
		fixed := map[int]int{1: 20, 2: 8, 3: 0, 4: 4, 5: 0} // fixed part of each packet body
		if v == 3 {
			fixed = map[int]int{1: 20, 2: 12, 3: 0, 4: 4, 5: 0}
		}
		step := map[int]int{1: 4, 2: 20, 3: 12, 5: 20}
		body := func(typ, k int) []byte {
			switch typ {
			case 1, 2, 3, 5:
				b := lnRandBytes(rng, fixed[typ])
				for i := 0; i < k; i++ {
					if typ == 2 || typ == 5 {
						b = append(b, osLSAHdr(rng, v, osLSATypes[v][rng.Intn(4)], 20+rng.Intn(30))...)
					} else {
						b = append(b, lnRandBytes(rng, step[typ])...)
					}
				}
				return b
			case 4:
				b := osU32(uint32(k))
				for i := 0; i < k; i++ {
					b = append(b, osLSA(rng, v, osLSATypes[v][rng.Intn(len(osLSATypes[v]))])...)
				}
				return b
			}
			return lnRandBytes(rng, lnPick(rng, 0, 4, 20))
		}
		valid := func() []byte {
			typ := lnPick(rng, 1, 2, 3, 4, 4, 5)
			return osPkt(rng, v, typ, body(typ, lnPick(rng, 0, 1, 2, 3)), -1)
		}
		residue := func() []byte { // leaves a large Content behind
			return osPkt(rng, v, 4, body(4, 3), -1)
		}
		full := func(tag string, p []byte) {
			add(tag, "dec:"+hx(p))
			add(tag, "dec2:"+hx(residue())+","+hx(p))
		}
		// (1) random valid packets of every type
		for i := 0; i < 80*scale; i++ {
			full("", valid())
		}
		// (2) every truncation (header kept: the packet length then exceeds the data) and every consistent cut (packet length = bytes present)
		for typ := 0; typ <= 6; typ++ {
			p := osPkt(rng, v, typ, body(typ, 2), -1)
			for k := 0; k <= len(p); k++ {
				if k > 70 && k < len(p)-4 && k%5 != 0 {
					continue
				}
				add("truncated-prefix-of-valid", "dec:"+hx(p[:k]))
				if k >= 4 {
					q := lnCopy(p[:k])
					osPut16(q[2:], k)
					add("consistent-length-cut", "dec:"+hx(q))
					if k%3 == 0 {
						add("consistent-length-cut", "dec2:"+hx(residue())+","+hx(q))
					}
				}
			}
		}
		// (3) packet length field forced: 0, 1, header, header+fixed-1.., beyond the data, 65535; data longer than the packet length
		for typ := 1; typ <= 5; typ++ {
			p := osPkt(rng, v, typ, body(typ, 2), -1)
			hl := len(p) - len(body(typ, 0)) // not exact for type 4; only used as a pivot
			for _, pl := range []int{0, 1, 15, 16, 23, 24, 27, 28, 31, 32, 35, 36, 43, 44, 47, 48, hl - 1, hl, hl + 1, len(p) - 1, len(p), len(p) + 1, 65535} {
				if pl < 0 {
					continue
				}
				q := lnCopy(p)
				osPut16(q[2:], pl)
				full("packet-length-extreme", q)
				add("packet-length-extreme", "dec:"+hx(append(q, lnRandBytes(rng, 24)...)))
			}
		}
		// (4) unknown packet types and versions: Content must not survive from the previous packet
		for _, typ := range []int{0, 6, 7, 255} {
			p := osPkt(rng, v, typ, lnRandBytes(rng, lnPick(rng, 0, 8, 40)), -1)
			full("unknown-type", p)
		}
		// (5) Link State Update: LSA count against the LSAs present; LSA length field 0, 19, 20, 21, body-1, body+1, beyond the data, 65535;
		//     consistent cuts: each LSA type ends exactly at every internal boundary of its body (LSA length and packet length rewritten),
		//     as the last LSA and followed by another one
		for _, lt := range osLSATypes[v] {
			b, bounds := osLSABody(rng, lt)
			whole := append(osLSAHdr(rng, v, lt, 20+len(b)), b...)
			next := osLSA(rng, v, osLSATypes[v][0])
			for _, n := range []int{0, 1, 2, 3, 1 << 16, 1<<32 - 1} {
				add("lsa-count-extreme", "dec:"+hx(osPkt(rng, v, 4, osCat(osU32(uint32(n)), whole, next), -1)))
			}
			for _, ll := range []int{0, 1, 19, 20, 21, 23, 24, 25, 20 + len(b) - 1, 20 + len(b) + 1, 20 + len(b) + len(next), 20 + len(b) + len(next) + 1, 65535} {
				q := lnCopy(whole)
				osPut16(q[18:], ll)
				full("lsa-length-extreme", osPkt(rng, v, 4, osCat(osU32(1), q), -1))
				add("lsa-length-extreme", "dec:"+hx(osPkt(rng, v, 4, osCat(osU32(2), q, next), -1)))
			}
			cuts := append([]int{0, 1, 2, 3, 4}, bounds...)
			for _, c := range cuts {
				if c > len(b) {
					continue
				}
				q := lnCopy(whole[:20+c])
				osPut16(q[18:], 20+c)
				full("consistent-length-cut", osPkt(rng, v, 4, osCat(osU32(1), q), -1))
				add("consistent-length-cut", "dec:"+hx(osPkt(rng, v, 4, osCat(osU32(2), q, next), -1)))
			}
		}
		// (6) inner counts: Link-LSA / Intra-Area-Prefix prefix counts and prefix lengths forced
		for _, lt := range []int{8, 0x2009} {
			for _, num := range []int{0, 1, 2, 3, 255, 65535} {
				for _, pl := range []int{0, 1, 7, 8, 64, 128, 129, 255} {
					b, _ := osLSABody(rng, lt)
					if lt == 8 {
						b[20], b[21], b[22], b[23] = 0, 0, byte(num>>8), byte(num)
						if rng.Intn(8) == 0 {
							b[20] = 0xff
						}
						b[24] = byte(pl)
					} else {
						b[0], b[1] = byte(num>>8), byte(num)
						b[12] = byte(pl)
					}
					add("prefix-count-length-extreme", "dec:"+hx(osPkt(rng, v, 4, osCat(osU32(1), osLSAHdr(rng, v, lt, 20+len(b)), b), -1)))
				}
			}
		}
		// (7) seeds (IP protocol 89 payloads of layers/*_test.go) and a malformed stream
		ns := 0
		seeds := lmIPSeeds(89)
		for _, s := range lnEthSeeds(0x86dd) {
			if len(s) > 40 && s[6] == 89 {
				seeds = append(seeds, s[40:])
			}
		}
		for _, s := range seeds {
			if len(s) > 0 && int(s[0]) == v {
				if ns++; ns > 30*scale {
					break
				}
				full("seed", s)
			}
		}
		for i := 0; i < 100*scale; i++ {
			q := lnRandBytes(rng, lnPick(rng, 0, 1, 15, 16, 23, 24, 28, 44, rng.Intn(120)))
			if len(q) >= 4 && rng.Intn(3) > 0 {
				q[0], q[1] = byte(v), byte(1+rng.Intn(5))
				osPut16(q[2:], len(q)-rng.Intn(2))
			}
			full("malformed", q)
		}
	}
	return out
}
