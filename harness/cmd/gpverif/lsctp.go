package main

// Lsctp: layers/sctp.go sub-check: SCTP common header (decode, serialize, CRC32c) and the chunk
// walk of packet decoding with recovery off (C19 C01 C05 C06 C07 for the SCTP layer).
//
// Ops:
//   tbl:<payloadLT>,<port>=<lt>,...   SCTPPort.LayerType() of the ports of the case (model only)
//   dec:<hex>                         SCTP.DecodeFromBytes on a fresh object
//   dec2:<hexA>,<hexB>                A then B into the same object
//   ser:<hex>,<f><c><d>,<payloadhex>  decode, SerializeTo over payload (ComputeChecksums=c; buffer d=0 fresh,
//                                     1 dirty 0xAA, 2 pre-sized)
//   rt:<hex>,<payloadhex>             decode, serialize with checksum, decode again
//   pkt:<hex>[,<extrahex>]            gopacket.NewPacket(data, LayerTypeSCTP, NoCopy+SkipDecodeRecovery):
//                                     the chunk layers; extra = spare capacity behind the data

import (
	"encoding/hex"
	"fmt"
	"go/ast"
	"go/parser"
	"go/token"
	"math/rand"
	"os"
	"path/filepath"
	"sort"
	"strconv"
	"strings"

	"github.com/gopacket/gopacket"
	"github.com/gopacket/gopacket/layers"
)

type lsctp struct{}

func init() { register("Lsctp", lsctp{}) }

func lsctpDecode(s *layers.SCTP, data []byte) (cls string) {
	d := append([]byte(nil), data...)
	defer func() {
		if r := recover(); r != nil {
			cls = "panic"
		}
	}()
	if err := s.DecodeFromBytes(d, gopacket.NilDecodeFeedback); err != nil {
		return "err"
	}
	return "ok"
}

func lsctpCore(s *layers.SCTP) string {
	return fmt.Sprintf("sp=%d;dp=%d;vtag=%d", uint16(s.SrcPort), uint16(s.DstPort), s.VerificationTag)
}

func lsctpFields(s *layers.SCTP) string {
	sport, dport := "", ""
	func() {
		defer func() { recover() }()
		a, b := s.TransportFlow().Endpoints()
		sport, dport = hex.EncodeToString(a.Raw()), hex.EncodeToString(b.Raw())
	}()
	return fmt.Sprintf("%s;sum=%d;c=%x;p=%x;sport=%s;dport=%s", lsctpCore(s), s.Checksum, s.Contents, s.Payload, sport, dport)
}

func lsctpRenderLayer(l gopacket.Layer) bool {
	ok := true
	for _, f := range []func(){
		func() { _ = gopacket.LayerString(l) },
		func() { _ = gopacket.LayerDump(l) },
		func() { _ = gopacket.LayerGoString(l) },
	} {
		if ltcpTry(f) != "ok" {
			ok = false
		}
	}
	return ok
}

func lsctpSer(s *layers.SCTP, payload []byte, cs bool, d byte) (cls string, out []byte) {
	defer func() {
		if r := recover(); r != nil {
			cls, out = "panic", nil
		}
	}()
	buf := ltcpBuf(d)
	opts := gopacket.SerializeOptions{ComputeChecksums: cs}
	if err := gopacket.Payload(payload).SerializeTo(buf, opts); err != nil {
		return "err", nil
	}
	if err := s.SerializeTo(buf, opts); err != nil {
		return "err", nil
	}
	return "ok", append([]byte(nil), buf.Bytes()...)
}

func lsctpChdr(c *layers.SCTPChunk) string {
	return fmt.Sprintf("%d/%d/%d/%d/%d/%d", uint8(c.Type), c.Flags, c.Length, c.ActualLength, len(c.Contents), len(c.LayerPayload()))
}

func lsctpParams(n int, get func(i int) layers.SCTPParameter) string {
	var ps []string
	for i := 0; i < n; i++ {
		p := get(i)
		ps = append(ps, fmt.Sprintf("%d.%d.%d.%x", p.Type, p.Length, p.ActualLength, p.Value))
	}
	return strings.Join(ps, "+")
}

func lsctpInts16(l []uint16) string {
	var s []string
	for _, v := range l {
		s = append(s, strconv.Itoa(int(v)))
	}
	return strings.Join(s, ".")
}
func lsctpInts32(l []uint32) string {
	var s []string
	for _, v := range l {
		s = append(s, strconv.FormatUint(uint64(v), 10))
	}
	return strings.Join(s, ".")
}

func lsctpChunk(l gopacket.Layer) (string, bool) {
	switch c := l.(type) {
	case *layers.SCTPData:
		ube := ltcpBit(c.Unordered, 4) | ltcpBit(c.BeginFragment, 2) | ltcpBit(c.EndFragment, 1)
		return fmt.Sprintf("data(%s|%d|%d|%d|%d|%d|%x)", lsctpChdr(&c.SCTPChunk), ube, c.TSN, c.StreamId, c.StreamSequence, uint32(c.PayloadProtocol), c.Payload), true
	case *layers.SCTPInit:
		return fmt.Sprintf("init(%s|%d|%d|%d|%d|%d|%s)", lsctpChdr(&c.SCTPChunk), c.InitiateTag, c.AdvertisedReceiverWindowCredit,
			c.OutboundStreams, c.InboundStreams, c.InitialTSN,
			lsctpParams(len(c.Parameters), func(i int) layers.SCTPParameter { return layers.SCTPParameter(c.Parameters[i]) })), true
	case *layers.SCTPSack:
		return fmt.Sprintf("sack(%s|%d|%d|%d|%d|%s|%s)", lsctpChdr(&c.SCTPChunk), c.CumulativeTSNAck, c.AdvertisedReceiverWindowCredit,
			c.NumGapACKs, c.NumDuplicateTSNs, lsctpInts16(c.GapACKs), lsctpInts32(c.DuplicateTSNs)), true
	case *layers.SCTPHeartbeat:
		return fmt.Sprintf("hb(%s|%s)", lsctpChdr(&c.SCTPChunk),
			lsctpParams(len(c.Parameters), func(i int) layers.SCTPParameter { return layers.SCTPParameter(c.Parameters[i]) })), true
	case *layers.SCTPError:
		return fmt.Sprintf("err(%s|%s)", lsctpChdr(&c.SCTPChunk),
			lsctpParams(len(c.Parameters), func(i int) layers.SCTPParameter { return layers.SCTPParameter(c.Parameters[i]) })), true
	case *layers.SCTPShutdown:
		return fmt.Sprintf("shut(%s|%d)", lsctpChdr(&c.SCTPChunk), c.CumulativeTSNAck), true
	case *layers.SCTPShutdownAck:
		return fmt.Sprintf("shutack(%s)", lsctpChdr(&c.SCTPChunk)), true
	case *layers.SCTPCookieEcho:
		return fmt.Sprintf("cookie(%s|%x)", lsctpChdr(&c.SCTPChunk), c.Cookie), true
	case *layers.SCTPEmptyLayer:
		return fmt.Sprintf("empty(%s)", lsctpChdr(&c.SCTPChunk)), true
	}
	return "", false
}

func (lsctp) Run(c Case) Result {
	var res Result
	tags := map[string]bool{}
	for k, v := range map[string]string{"tp": "truncated-prefix-of-valid", "cl": "option-length-extreme", "pl": "option-length-extreme"} {
		if strings.Contains(c.ID, "-"+k+"-") {
			tags[v] = true
		}
	}
	hasTbl := false
	orc := func(clause, detail string) { res.Oracle = append(res.Oracle, clause+"\t"+detail) }
	showDec := func(s *layers.SCTP, cls string) string {
		if cls == "panic" {
			orc("C19:panic", "SCTP.DecodeFromBytes panicked")
		}
		next := "next=-"
		if hasTbl {
			next = fmt.Sprintf("next=%d", int(s.NextLayerType()))
		}
		r := "render=ok"
		if !lsctpRenderLayer(s) || ltcpTry(func() { _ = s.TransportFlow().String() }) != "ok" {
			r = "render=panic"
			orc("C01:render-panic", "SCTP layer renderer panicked")
		}
		return fmt.Sprintf("cls=%s;%s;%s;%s", cls, lsctpFields(s), next, r)
	}
	for _, op := range c.Ops {
		name, arg, _ := strings.Cut(op, ":")
		args := strings.Split(arg, ",")
		switch name {
		case "tbl":
			hasTbl = true
		case "dec":
			s := &layers.SCTP{}
			res.Obs = append(res.Obs, showDec(s, lsctpDecode(s, ltcpHex(args[0]))))
		case "dec2":
			s := &layers.SCTP{}
			lsctpDecode(s, ltcpHex(args[0]))
			tags["residue-options"] = true
			cls := lsctpDecode(s, ltcpHex(args[1]))
			res.Obs = append(res.Obs, showDec(s, cls))
			f := &layers.SCTP{}
			clsF := lsctpDecode(f, ltcpHex(args[1]))
			if clsF != cls || (cls == "ok" && lsctpFields(f) != lsctpFields(s)) {
				orc("C05:stale", "reused: "+lsctpFields(s)+" fresh: "+lsctpFields(f))
			}
		case "ser":
			s := &layers.SCTP{}
			dcls := lsctpDecode(s, ltcpHex(args[0]))
			cs, d := args[1][1] == '1', args[1][2]
			payload := ltcpHex(args[2])
			cls, out := lsctpSer(s, payload, cs, d)
			res.Obs = append(res.Obs, fmt.Sprintf("dcls=%s;cls=%s;out=%x", dcls, cls, out))
			if cls == "panic" {
				orc("C07:panic", "SCTP.SerializeTo panicked")
			}
			if d == '1' {
				tags["dirty-buffer"] = true
			}
			if len(payload)%2 == 1 {
				tags["odd-payload"] = true
			}
			if !cs {
				tags["no-fixlengths"] = true
			}
			for _, d2 := range []byte{'0', '1', '2'} {
				cls2, out2 := lsctpSer(s, payload, cs, d2)
				if cls2 != cls || string(out2) != string(out) {
					orc("C07:junk-dependence", fmt.Sprintf("buffer %c gives %s %x, buffer %c gives %s %x", d, cls, out, d2, cls2, out2))
					break
				}
			}
		case "rt":
			s := &layers.SCTP{}
			dcls := lsctpDecode(s, ltcpHex(args[0]))
			if dcls != "ok" {
				res.Obs = append(res.Obs, "dcls="+dcls)
				break
			}
			payload := ltcpHex(args[1])
			if len(payload)%2 == 1 {
				tags["odd-payload"] = true
			}
			scls, out := lsctpSer(s, payload, true, '0')
			if scls != "ok" {
				orc("C06:roundtrip", "serialize "+scls)
				res.Obs = append(res.Obs, "dcls=ok;scls="+scls)
				break
			}
			s2 := &layers.SCTP{}
			cls2 := lsctpDecode(s2, out)
			res.Obs = append(res.Obs, fmt.Sprintf("dcls=ok;scls=ok;cls=%s;%s", cls2, lsctpFields(s2)))
			if cls2 != "ok" || lsctpCore(s2) != lsctpCore(s) || string(s2.Payload) != string(payload) {
				orc("C06:roundtrip", "written "+lsctpCore(s)+" read "+cls2+" "+lsctpCore(s2))
			} else {
				// the checksum written must be the CRC32c of the packet with a zero checksum field, and
				// re-serializing the decoded layer reproduces the bytes
				cls3, out3 := lsctpSer(s2, s2.Payload, true, '1')
				if cls3 != "ok" || string(out3) != string(out) {
					orc("C06:fixpoint", fmt.Sprintf("first %x again %s %x", out, cls3, out3))
				}
			}
		case "pkt":
			data := ltcpHex(args[0])
			var extra []byte
			if len(args) > 1 {
				extra = ltcpHex(args[1])
			}
			arr := make([]byte, len(data)+len(extra))
			copy(arr, data)
			copy(arr[len(data):], extra)
			var p gopacket.Packet
			cls := ltcpTry(func() {
				p = gopacket.NewPacket(arr[:len(data)], layers.LayerTypeSCTP, gopacket.DecodeOptions{NoCopy: true, SkipDecodeRecovery: true})
			})
			if cls == "panic" {
				orc("C19:panic", "packet decoding with SkipDecodeRecovery panicked")
				res.Obs = append(res.Obs, "cls=panic")
				break
			}
			if p.ErrorLayer() != nil {
				cls = "err"
			}
			var chunks []string
			render := "ok"
			var first *layers.SCTP
			for i, l := range p.Layers() {
				if i == 0 {
					first, _ = l.(*layers.SCTP)
				}
				if s, ok := lsctpChunk(l); ok {
					chunks = append(chunks, s)
				}
				if !lsctpRenderLayer(l) {
					render = "panic"
				}
			}
			if ltcpTry(func() { _ = p.String(); _ = p.Dump() }) != "ok" {
				render = "panic"
			}
			if render != "ok" {
				orc("C01:render-panic", "a renderer panicked on the decoded SCTP packet")
			}
			if cls == "err" && len(chunks) > 0 {
				tags["error-after-add"] = true
			}
			if first == nil {
				first = &layers.SCTP{}
			}
			res.Obs = append(res.Obs, fmt.Sprintf("cls=%s;tr=%s;%s;chunks=%s;render=%s", cls, ltcpB(p.Metadata().Truncated), lsctpCore(first), strings.Join(chunks, ","), render))
		}
	}
	for k := range tags {
		res.Tags = append(res.Tags, k)
	}
	return res
}

// ---------------------------------------------------------------- generators

func lsctpHdr(sp, dp uint16, vtag, sum uint32) []byte {
	return []byte{byte(sp >> 8), byte(sp), byte(dp >> 8), byte(dp), byte(vtag >> 24), byte(vtag >> 16), byte(vtag >> 8), byte(vtag),
		byte(sum >> 24), byte(sum >> 16), byte(sum >> 8), byte(sum)}
}

// chunk with header (type, flags, length = 4+len(body)) and padding to 4
func lsctpMk(typ, flags byte, body []byte) []byte {
	l := 4 + len(body)
	c := append([]byte{typ, flags, byte(l >> 8), byte(l)}, body...)
	for len(c)%4 != 0 {
		c = append(c, 0)
	}
	return c
}

func lsctpParam(typ uint16, val []byte) []byte {
	l := 4 + len(val)
	p := append([]byte{byte(typ >> 8), byte(typ), byte(l >> 8), byte(l)}, val...)
	for len(p)%4 != 0 {
		p = append(p, 0)
	}
	return p
}

// one well-formed chunk of each kind (several shapes)
func lsctpValidChunks(rng *rand.Rand) []ltcpNamed {
	var out []ltcpNamed
	add := func(n string, b []byte) { out = append(out, ltcpNamed{n, b}) }
	for _, n := range []int{0, 1, 3, 4, 9} {
		add("data", lsctpMk(0, byte(rng.Intn(8)), append(ltcpFill(12, 0x10), ltcpFill(n, 0x61)...)))
	}
	initBody := ltcpFill(16, 0x20)
	add("init", lsctpMk(1, 0, initBody))
	add("init", lsctpMk(1, 0, append(append([]byte(nil), initBody...), lsctpParam(5, []byte{10, 0, 0, 1})...)))
	add("initack", lsctpMk(2, 0, append(append(append([]byte(nil), initBody...), lsctpParam(7, ltcpFill(6, 0x30))...), lsctpParam(0xc000, nil)...)))
	add("sack", lsctpMk(3, 0, []byte{0, 0, 0, 9, 0, 0, 16, 0, 0, 0, 0, 0}))
	add("sack", lsctpMk(3, 0, append([]byte{0, 0, 0, 9, 0, 0, 16, 0, 0, 2, 0, 1}, ltcpFill(12, 0x40)...)))
	add("sack", lsctpMk(3, 0, append([]byte{0, 0, 0, 9, 0, 0, 16, 0, 0, 1, 0, 0}, ltcpFill(4, 0x40)...)))
	add("hb", lsctpMk(4, 0, lsctpParam(1, ltcpFill(8, 0x50))))
	add("hb", lsctpMk(4, 0, lsctpParam(1, ltcpFill(6, 0x50))[:10]))
	add("hback", lsctpMk(5, 0, lsctpParam(1, ltcpFill(12, 0x50))))
	add("abort", lsctpMk(6, 1, nil))
	add("abort", lsctpMk(6, 0, lsctpParam(12, ltcpFill(5, 0x55))))
	add("shutdown", lsctpMk(7, 0, []byte{0, 0, 1, 2}))
	add("shutack", lsctpMk(8, 0, nil))
	add("error", lsctpMk(9, 0, append(lsctpParam(1, []byte{0, 5, 0, 0}), lsctpParam(2, ltcpFill(3, 0x56))...)))
	add("cookie", lsctpMk(10, 0, ltcpFill(7, 0x60)))
	add("cookie", lsctpMk(10, 0, nil))
	add("cookieack", lsctpMk(11, 0, nil))
	add("shutcomp", lsctpMk(14, 1, nil))
	add("unknown", lsctpMk(0x40, 0, ltcpFill(4, 0x70)))
	return out
}

func lsctpWithTbl(ops ...string) []string {
	ports := map[uint16]bool{}
	for _, op := range ops {
		name, arg, _ := strings.Cut(op, ":")
		args := strings.Split(arg, ",")
		n := 0
		switch name {
		case "dec", "rt", "ser":
			n = 1
		case "dec2":
			n = 2
		}
		for _, h := range args[:n] {
			b := ltcpHex(h)
			if len(b) >= 4 {
				ports[uint16(b[0])<<8|uint16(b[1])] = true
				ports[uint16(b[2])<<8|uint16(b[3])] = true
			}
		}
	}
	var ps []int
	for p := range ports {
		ps = append(ps, int(p))
	}
	sort.Ints(ps)
	s := fmt.Sprintf("tbl:%d", int(gopacket.LayerTypePayload))
	for _, p := range ps {
		s += fmt.Sprintf(",%d=%d", p, int(layers.SCTPPort(p).LayerType()))
	}
	return append([]string{s}, ops...)
}

// SCTP packets (common header onwards) found in the []byte literals of layers/*_test.go
func lsctpSeeds() [][]byte {
	repo := os.Getenv("VERIF_REPO")
	if repo == "" {
		repo = "/repo"
	}
	files, _ := filepath.Glob(filepath.Join(repo, "layers", "*_test.go"))
	sort.Strings(files)
	var out [][]byte
	seen := map[string]bool{}
	for _, f := range files {
		fset := token.NewFileSet()
		af, err := parser.ParseFile(fset, f, nil, 0)
		if err != nil {
			continue
		}
		ast.Inspect(af, func(n ast.Node) bool {
			cl, ok := n.(*ast.CompositeLit)
			if !ok {
				return true
			}
			at, ok := cl.Type.(*ast.ArrayType)
			if !ok || at.Len != nil {
				return true
			}
			if id, ok := at.Elt.(*ast.Ident); !ok || id.Name != "byte" {
				return true
			}
			if len(cl.Elts) < 40 {
				return true
			}
			b := make([]byte, 0, len(cl.Elts))
			for _, e := range cl.Elts {
				bl, ok := e.(*ast.BasicLit)
				if !ok {
					return true
				}
				v, err := strconv.ParseUint(bl.Value, 0, 8)
				if err != nil {
					return true
				}
				b = append(b, byte(v))
			}
			func() {
				defer func() { recover() }()
				p := gopacket.NewPacket(b, layers.LinkTypeEthernet, gopacket.Default)
				if l := p.Layer(layers.LayerTypeSCTP); l != nil {
					s := l.(*layers.SCTP)
					seg := append(append([]byte(nil), s.Contents...), s.Payload...)
					if len(seg) <= 400 && !seen[string(seg)] {
						seen[string(seg)] = true
						out = append(out, seg)
					}
				}
			}()
			return true
		})
	}
	return out
}

func (lsctp) Gen(rng *rand.Rand, tier string) []Case {
	var out []Case
	thorough := tier == "thorough"
	n := 0
	add := func(kind string, ops ...string) {
		n++
		out = append(out, Case{ID: fmt.Sprintf("Lsctp-%s-%d", kind, n), Prop: "Lsctp", Ops: lsctpWithTbl(ops...)})
	}
	hx := hex.EncodeToString
	extra := ltcpFill(40, 0xc0)
	ports := []uint16{0, 80, 2905, 3868, 36412, 9899, 65535}
	randHdr := func() []byte {
		return lsctpHdr(ports[rng.Intn(len(ports))], ports[rng.Intn(len(ports))], rng.Uint32(), rng.Uint32())
	}
	payloads := [][]byte{nil, {1}, {1, 2}, ltcpFill(7, 9), ltcpFill(64, 3)}
	// (a) common header: every truncation, reuse, serialization into fresh/dirty/pre-sized buffers, round trip
	for i := 0; i < 12; i++ {
		h := append(randHdr(), payloads[rng.Intn(len(payloads))]...)
		for k := 0; k <= 13 && k <= len(h); k++ {
			add("tp", "dec:"+hx(h[:k]))
		}
		add("valid", "dec:"+hx(h))
		h2 := append(randHdr(), payloads[rng.Intn(len(payloads))]...)
		add("reuse", "dec2:"+hx(h)+","+hx(h2))
		add("reuse", "dec2:"+hx(h)+","+hx(h2[:11]))
		for _, cs := range []string{"0", "1"} {
			for _, d := range []string{"0", "1", "2"} {
				add("ser", "ser:"+hx(h[:12])+",0"+cs+d+","+hx(payloads[rng.Intn(len(payloads))]))
			}
		}
		add("ser", "ser:"+hx(h[:5])+",011,"+hx(payloads[rng.Intn(len(payloads))]))
		add("rt", "rt:"+hx(h)+","+hx(payloads[i%len(payloads)]))
	}
	// (b) chunk walk: each well-formed chunk alone and in sequences, every truncation of the packet,
	//     with and without spare capacity
	chunks := lsctpValidChunks(rng)
	var pkts [][]byte
	for _, c := range chunks {
		pkts = append(pkts, append(randHdr(), c.b...))
	}
	nseq := 25
	if thorough {
		nseq = 300
	}
	for i := 0; i < nseq; i++ {
		p := randHdr()
		for j := 1 + rng.Intn(4); j > 0; j-- {
			p = append(p, chunks[rng.Intn(len(chunks))].b...)
		}
		pkts = append(pkts, p)
	}
	for i, p := range pkts {
		add("pkt", "pkt:"+hx(p))
		add("pkt", "pkt:"+hx(p)+","+hx(extra))
		for k := 12; k < len(p); k++ {
			add("tp", "pkt:"+hx(p[:k]))
			if (k+i)%3 == 0 || thorough {
				add("tp", "pkt:"+hx(p[:k])+","+hx(extra))
			}
		}
	}
	// (c) the length field of each chunk kind forced to its extremes, as the only/last chunk and followed by another
	lens := []int{0, 1, 3, 4, 5, 7, 8, 9, 12, 15, 16, 17, 19, 20, 21, 24, 0xffff}
	for _, c := range chunks {
		for _, L := range append(lens, len(c.b)-1, len(c.b)+1, len(c.b)+4) {
			if L < 0 {
				continue
			}
			m := append([]byte(nil), c.b...)
			m[2], m[3] = byte(L>>8), byte(L)
			p := append(randHdr(), m...)
			add("cl", "pkt:"+hx(p))
			add("cl", "pkt:"+hx(append(append([]byte(nil), p...), lsctpMk(11, 0, nil)...)))
			if L%4 == 1 {
				add("cl", "pkt:"+hx(p)+","+hx(extra))
			}
		}
	}
	// (d) parameter length fields and Sack counts forced to extremes
	for _, typ := range []byte{1, 4, 9} {
		for _, pl := range []int{0, 1, 3, 4, 5, 6, 7, 8, 9, 12, 13, 0xffff} {
			for _, vlen := range []int{0, 2, 4, 8} {
				par := lsctpParam(1, ltcpFill(vlen, 0x77))
				par[2], par[3] = byte(pl>>8), byte(pl)
				body := par
				if typ == 1 {
					body = append(ltcpFill(16, 0x20), par...)
				}
				for _, cut := range []int{0, 1, 2, 3} {
					b := body
					if cut < len(b) {
						b = b[:len(b)-cut]
					}
					p := append(randHdr(), lsctpMk(typ, 0, b)...)
					add("pl", "pkt:"+hx(p))
					if cut == 0 {
						add("pl", "pkt:"+hx(p)+","+hx(extra))
					}
				}
			}
		}
	}
	for _, ng := range []int{0, 1, 2, 3, 0xffff} {
		for _, nd := range []int{0, 1, 2, 0xffff} {
			for _, have := range []int{0, 2, 4, 6, 8, 12} {
				body := append([]byte{0, 0, 0, 9, 0, 0, 16, 0, byte(ng >> 8), byte(ng), byte(nd >> 8), byte(nd)}, ltcpFill(have, 0x40)...)
				p := append(randHdr(), lsctpMk(3, 0, body)...)
				add("pl", "pkt:"+hx(p))
				add("pl", "pkt:"+hx(append(append([]byte(nil), p...), lsctpMk(7, 0, []byte{0, 0, 0, 1})...)))
			}
		}
	}
	// (e) SCTP packets of the repository's tests: whole, every truncation, length bytes forced
	for i, s := range lsctpSeeds() {
		add("seed", "pkt:"+hx(s))
		add("seed", "dec:"+hx(s))
		add("seedrt", "rt:"+hx(s)+","+hx(s[12:]))
		if i < 10 || thorough {
			for k := 0; k < len(s) && k < 120; k++ {
				add("tp", "pkt:"+hx(s[:k]))
			}
			for j := 12; j < len(s) && j < 60; j++ {
				for _, v := range []byte{0, 1, 255} {
					m := append([]byte(nil), s...)
					m[j] = v
					add("cl", "pkt:"+hx(m))
				}
			}
		}
	}
	// (f) malformed stream
	nm := 400
	if thorough {
		nm = 6000
	}
	types := []byte{0, 1, 2, 3, 4, 5, 6, 7, 8, 9, 10, 11, 14, 15, 0x40, 0xff}
	for i := 0; i < nm; i++ {
		p := randHdr()
		for j := 1 + rng.Intn(3); j > 0; j-- {
			l := rng.Intn(28)
			c := make([]byte, l)
			rng.Read(c)
			if l > 0 {
				c[0] = types[rng.Intn(len(types))]
			}
			if l > 3 {
				c[2] = 0
				c[3] = byte(rng.Intn(l + 6))
			}
			if l > 7 && rng.Intn(2) == 0 { // plausible parameter / count fields
				c[6], c[7] = 0, byte(rng.Intn(12))
			}
			p = append(p, c...)
		}
		if rng.Intn(3) == 0 {
			add("mal", "pkt:"+hx(p)+","+hx(extra[:rng.Intn(len(extra))]))
		} else {
			add("mal", "pkt:"+hx(p))
		}
	}
	return out
}
