package main

// Lip6skip: layers/ip6.go IPv6ExtensionSkipper (a DecodingLayer, not a gopacket.Layer) — C19, C05.  Ops: dec dec2 (lmisc_common.go).
// The skipper is wrapped in a harness type that adds a LayerType method, so that the shared driver can hold it.

import (
	"fmt"
	"math/rand"

	"github.com/gopacket/gopacket"
	"github.com/gopacket/gopacket/layers"
)

type lip6skip struct{}

func init() { register("Lip6skip", lip6skip{}) }

type skipWrap struct{ layers.IPv6ExtensionSkipper }

func (s *skipWrap) LayerType() gopacket.LayerType { return gopacket.LayerTypePayload }

var lip6skipDesc = &lmDesc{
	id: "Lip6skip", name: "IPv6ExtensionSkipper",
	fresh: func() gopacket.Layer { return &skipWrap{} },
	decode: func(l gopacket.Layer, data []byte, fb gopacket.DecodeFeedback) error {
		return l.(*skipWrap).IPv6ExtensionSkipper.DecodeFromBytes(data, fb)
	},
	fields: func(l gopacket.Layer) string { return fmt.Sprintf("nh=%d", uint8(l.(*skipWrap).NextHeader)) },
	next: func(l gopacket.Layer, _ *lmBuilder) string {
		s := l.(*skipWrap)
		if s.NextLayerType() != s.NextHeader.LayerType() {
			return "mismatch"
		}
		return fmt.Sprintf("t%d", uint8(s.NextHeader))
	},
	extra: func(l gopacket.Layer) []func() {
		s := l.(*skipWrap)
		return []func(){func() { _ = s.CanDecode(); _ = s.NextHeader.String() }}
	},
	tags: func(l gopacket.Layer, cls string, data []byte) []string {
		if cls == "ok" && len(data) > 8 && data[1] > 0 {
			return []string{"long-extension"}
		}
		return nil
	},
}

func (lip6skip) Run(c Case) Result { return lmRun(lip6skipDesc, c) }

func skBuild(rng *rand.Rand, nh int, hl int, present int, payload int) []byte {
	p := []byte{byte(nh), byte(hl)}
	p = append(p, lnRandBytes(rng, present)...)
	return append(p, lnRandBytes(rng, payload)...)
}

func (lip6skip) Gen(rng *rand.Rand, tier string) []Case {
	valid := func(rng *rand.Rand) []byte {
		hl := lnPick(rng, 0, 0, 1, 2, 5)
		return skBuild(rng, lnPick(rng, 6, 17, 58, 43, 44, 60, 0, 59, 255), hl, hl*8+6, lnPick(rng, 0, 1, 20))
	}
	g := lmGenCfg{
		valid:  valid,
		hdrLen: func(p []byte) int { h := int(p[1])*8 + 8; if h > len(p) { return len(p) }; return h },
		extra: func(rng *rand.Rand, add func(ops ...string)) {
			// header length octet 0, 1, 2, 30, 31, 254, 255 against exactly, one fewer and one more octets than it announces
			for _, hl := range []int{0, 1, 2, 30, 31, 254, 255} {
				for _, d := range []int{-1, 0, 1} {
					p := skBuild(rng, 17, hl, hl*8+6+d, 0)
					add("tag:length-extreme", "dec:"+lnHex(p))
					add("tag:length-extreme", "dec2:"+lnHex(valid(rng))+","+lnHex(p))
				}
			}
			for nh := 0; nh < 256; nh++ { // every next-header value
				add("tag:next-header-every-value", "dec:"+lnHex(skBuild(rng, nh, 0, 6, 4)))
			}
		},
	}
	return lmGen(lip6skipDesc, g, rng, tier)
}
