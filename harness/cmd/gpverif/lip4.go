package main

// Lip4: layers/ip4.go codec sub-check (C19, C05, C06, C07, C01 for IPv4).
// Ops:  dec:<hex>  dec2:<hexA>,<hexB>  ser:<hex>,<fcd>,<payloadhex>  rt:<hex>,<payloadhex>
//       new:<spec>,<fcd>,<payloadhex>  tag:<name> (no observation)
// spec = ver.ihl.tos.len.id.fl.fo.ttl.pr.ck.srchex.dsthex.padhex.opts ; opts = t-l-hex/t-l-hex...

import (
	"bytes"
	"fmt"
	"math/rand"
	"net"
	"strings"

	"github.com/gopacket/gopacket"
	"github.com/gopacket/gopacket/layers"
)

type lip4 struct{}

func init() { register("Lip4", lip4{}) }

func ip4Opts(ip *layers.IPv4) string {
	var s []string
	for _, o := range ip.Options {
		s = append(s, fmt.Sprintf("%d-%d-%s", o.OptionType, o.OptionLength, lnHex(o.OptionData)))
	}
	return strings.Join(s, "/")
}

func ip4Next(ip *layers.IPv4) (s string) {
	defer func() {
		if recover() != nil {
			s = "panic"
		}
	}()
	lt := ip.NextLayerType()
	switch {
	case lt == gopacket.LayerTypeFragment:
		return "frag"
	case lt == ip.Protocol.LayerType():
		return fmt.Sprintf("p%d", uint8(ip.Protocol))
	}
	return fmt.Sprintf("other%d", lt)
}

func ip4Fields(ip *layers.IPv4) string {
	return fmt.Sprintf("ver=%d;ihl=%d;tos=%d;len=%d;id=%d;fl=%d;fo=%d;ttl=%d;pr=%d;ck=%d;src=%s;dst=%s;opts=%s;pad=%s",
		ip.Version, ip.IHL, ip.TOS, ip.Length, ip.Id, uint8(ip.Flags), ip.FragOffset, ip.TTL, uint8(ip.Protocol), ip.Checksum,
		lnHex(ip.SrcIP), lnHex(ip.DstIP), ip4Opts(ip), lnHex(ip.Padding))
}

func ip4Obs(cls string, tr bool, ip *layers.IPv4) string {
	render := lnRender(ip, func() { _ = ip.NetworkFlow() })
	return fmt.Sprintf("cls=%s;tr=%s;%s;c=%s;p=%s;next=%s;render=%s", cls, lnB(tr), ip4Fields(ip),
		lnHex(ip.Contents), lnHex(ip.Payload), ip4Next(ip), render)
}

func ip4Decode(ip *layers.IPv4, data []byte) (string, bool) {
	fb := &lnFeedback{}
	cls := lnClass(func() error { return ip.DecodeFromBytes(lnCopy(data), fb) })
	return cls, fb.tr
}

func ip4FromSpec(spec string) *layers.IPv4 {
	f := strings.Split(spec, ".")
	if len(f) != 14 {
		panic("bad ip4 spec " + spec)
	}
	ip := &layers.IPv4{Version: uint8(lnAtoi(f[0])), IHL: uint8(lnAtoi(f[1])), TOS: uint8(lnAtoi(f[2])), Length: uint16(lnAtoi(f[3])),
		Id: uint16(lnAtoi(f[4])), Flags: layers.IPv4Flag(lnAtoi(f[5])), FragOffset: uint16(lnAtoi(f[6])), TTL: uint8(lnAtoi(f[7])),
		Protocol: layers.IPProtocol(lnAtoi(f[8])), Checksum: uint16(lnAtoi(f[9]))}
	if f[10] != "" {
		ip.SrcIP = net.IP(lnUnhex(f[10]))
	}
	if f[11] != "" {
		ip.DstIP = net.IP(lnUnhex(f[11]))
	}
	if f[12] != "" {
		ip.Padding = lnUnhex(f[12])
	}
	if f[13] != "" {
		for _, o := range strings.Split(f[13], "/") {
			p := strings.Split(o, "-")
			opt := layers.IPv4Option{OptionType: uint8(lnAtoi(p[0])), OptionLength: uint8(lnAtoi(p[1]))}
			if p[2] != "" {
				opt.OptionData = lnUnhex(p[2])
			}
			ip.Options = append(ip.Options, opt)
		}
	}
	return ip
}

func ip4SerObs(cls string, out []byte, ip *layers.IPv4) string {
	return fmt.Sprintf("cls=%s;out=%s;%s", cls, lnHex(out), ip4Fields(ip))
}

func ip4OptTotal(ip *layers.IPv4) int {
	n := 0
	for _, o := range ip.Options {
		if o.OptionType <= 1 {
			n++
		} else {
			n += int(o.OptionLength)
		}
	}
	return n
}

func (lip4) Run(c Case) (res Result) {
	for _, op := range c.Ops {
		name, a := lnOp(op)
		switch name {
		case "tag":
			res.Tags = append(res.Tags, a[0])
		case "dec":
			ip := &layers.IPv4{}
			cls, tr := ip4Decode(ip, lnUnhex(a[0]))
			res.Obs = append(res.Obs, ip4Obs(cls, tr, ip))
			if cls == "panic" {
				res.Oracle = append(res.Oracle, "C19:panic\tIPv4.DecodeFromBytes panicked")
			}
			if strings.HasSuffix(res.Obs[len(res.Obs)-1], "render=panic") {
				res.Oracle = append(res.Oracle, "C01:render-panic\trenderer or NetworkFlow panicked after decode class "+cls)
			}
			if cls == "err" && (len(ip.Contents) > 0 || len(ip.Options) > 0) {
				res.Tags = append(res.Tags, "error-after-add")
			}
		case "dec2":
			ip := &layers.IPv4{}
			ip4Decode(ip, lnUnhex(a[0]))
			if len(ip.Options) > 0 {
				res.Tags = append(res.Tags, "residue-options")
			}
			if len(ip.Padding) > 0 {
				res.Tags = append(res.Tags, "residue-padding")
			}
			cls, tr := ip4Decode(ip, lnUnhex(a[1]))
			obs := ip4Obs(cls, tr, ip)
			res.Obs = append(res.Obs, obs)
			fr := &layers.IPv4{}
			fcls, ftr := ip4Decode(fr, lnUnhex(a[1]))
			fobs := ip4Obs(fcls, ftr, fr)
			if cls == "panic" {
				res.Oracle = append(res.Oracle, "C19:panic\tIPv4.DecodeFromBytes panicked on a reused object")
			} else if cls != fcls || tr != ftr || (cls == "ok" && obs != fobs) {
				res.Oracle = append(res.Oracle, fmt.Sprintf("C05:stale\treused: %s fresh: %s", obs, fobs))
			}
		case "ser", "new":
			var mk func() *layers.IPv4
			if name == "ser" {
				data := lnUnhex(a[0])
				mk = func() *layers.IPv4 { ip := &layers.IPv4{}; ip4Decode(ip, data); return ip }
			} else {
				mk = func() *layers.IPv4 { return ip4FromSpec(a[0]) }
			}
			fix, csum, d := lnParseFCD(a[1])
			payload := lnUnhex(a[2])
			ip := mk()
			if ob := ip4OptTotal(ip); ob >= 36 && ob <= 44 {
				res.Tags = append(res.Tags, fmt.Sprintf("option-bytes-%d", ob))
			}
			if ip4OptTotal(ip)%4 != 0 {
				res.Tags = append(res.Tags, "pad-residue")
			}
			if len(ip.Options) >= 2 {
				res.Tags = append(res.Tags, "two-or-more-options")
			}
			cls, out := lnSerialize(ip, d, payload, fix, csum)
			res.Obs = append(res.Obs, ip4SerObs(cls, out, ip))
			if d == 1 {
				res.Tags = append(res.Tags, "dirty-buffer")
			}
			if !fix {
				res.Tags = append(res.Tags, "no-fixlengths")
			}
			if len(payload)%2 == 1 {
				res.Tags = append(res.Tags, "odd-payload")
			}
			res.Oracle = append(res.Oracle, lnJunkOracle(func() gopacket.SerializableLayer { return mk() }, payload, fix, csum)...)
		case "rt", "bigrt", "newrt":
			// newrt:<spec>,<payloadhex>: like rt, on a layer built from public fields that is well-formed when its
			// options take at most 40 bytes (the generator only emits such specs); beyond 40 SerializeTo must refuse
			var payload []byte
			if name == "rt" || name == "newrt" {
				payload = lnUnhex(a[1])
			} else {
				payload = udpLCG(lnAtoi(a[1]), lnAtoi(a[2])) // bigrt:<hex>,<n>,<seed>: n pseudo-random payload bytes, summarised observation
				res.Tags = append(res.Tags, "big-payload")
			}
			ip := &layers.IPv4{}
			if name == "newrt" {
				ip = ip4FromSpec(a[0])
			} else if cls, _ := ip4Decode(ip, lnUnhex(a[0])); cls != "ok" {
				res.Obs = append(res.Obs, "first="+cls)
				break
			}
			optBytes := ip4OptTotal(ip)
			if optBytes >= 36 {
				res.Tags = append(res.Tags, fmt.Sprintf("option-bytes-%d", optBytes))
			}
			scls, out := lnSerialize(ip, 0, payload, true, true)
			if scls != "ok" {
				res.Obs = append(res.Obs, "ser="+scls)
				if scls == "panic" {
					res.Oracle = append(res.Oracle, "C07:panic\tSerializeTo panicked")
				} else if optBytes <= 40 {
					res.Oracle = append(res.Oracle, fmt.Sprintf("C06:roundtrip\tlayer with %d option bytes (<= 40) cannot be serialized: error", optBytes))
				}
				break
			}
			if optBytes > 40 {
				res.Oracle = append(res.Oracle, fmt.Sprintf("C06:roundtrip\tlayer with %d option bytes (> 40, IHL > 15) was serialized", optBytes))
			}
			if len(ip.Options) >= 2 {
				res.Tags = append(res.Tags, "two-or-more-options")
			}
			if len(payload)%2 == 1 {
				res.Tags = append(res.Tags, "odd-payload")
			}
			ip2 := &layers.IPv4{}
			cls2, tr2 := ip4Decode(ip2, out)
			if name != "bigrt" {
				res.Obs = append(res.Obs, ip4Obs(cls2, tr2, ip2))
			} else {
				res.Obs = append(res.Obs, fmt.Sprintf("cls=%s;tr=%s;%s;clen=%d;plen=%d", cls2, lnB(tr2), ip4Fields(ip2), len(ip2.Contents), len(ip2.Payload)))
			}
			if len(out) > 65535 {
				// outside the range of C06_ip4_roundtrip: the datagram does not fit the 16 bit total length
				res.Tags = append(res.Tags, "length-overflow")
				break
			}
			switch {
			case cls2 != "ok":
				res.Oracle = append(res.Oracle, "C06:roundtrip\tsecond decode: "+cls2)
			case tr2:
				res.Oracle = append(res.Oracle, "C06:roundtrip\tsecond decode sets truncated")
			default:
				ip.Padding, ip2.Padding = bytes.TrimRight(ip.Padding, "\x00"), bytes.TrimRight(ip2.Padding, "\x00")
				p1, p2 := ip.Padding, ip2.Padding
				ip.Padding, ip2.Padding = nil, nil
				if f1, f2 := ip4Fields(ip), ip4Fields(ip2); f1 != f2 {
					res.Oracle = append(res.Oracle, fmt.Sprintf("C06:roundtrip\tfields differ: written %s read %s", f1, f2))
				}
				if !bytes.Equal(ip2.Payload, payload) {
					res.Oracle = append(res.Oracle, "C06:roundtrip\tpayload differs")
				}
				if !bytes.Equal(p1, p2) {
					res.Oracle = append(res.Oracle, fmt.Sprintf("C06:roundtrip-padding\tnon-zero Padding %s not preserved (read back %s)", lnHex(p1), lnHex(p2)))
					res.Tags = append(res.Tags, "padding-lost")
				}
				c3, out3 := lnSerialize(ip2, 1, payload, true, true)
				if c3 != "ok" || !bytes.Equal(out3, out) {
					res.Oracle = append(res.Oracle, fmt.Sprintf("C06:fixpoint\tre-serialized %s %s, first %s", c3, lnHex(out3), lnHex(out)))
				}
			}
		default:
			panic("Lip4: unknown op " + op)
		}
	}
	return
}

// ---------------------------------------------------------------- generators

func ip4Csum(h []byte) uint16 {
	var s uint32
	for i := 0; i+1 < len(h); i += 2 {
		s += uint32(h[i])<<8 | uint32(h[i+1])
	}
	for s > 0xffff {
		s = s>>16 + s&0xffff
	}
	return ^uint16(s)
}

// ip4OptArea builds an option area (multiple of 4, <= 40 bytes); returns it and the offsets of length bytes.
func ip4OptArea(rng *rand.Rand) (area []byte, lenOffs []int) {
	k := rng.Intn(6)
	for i := 0; i < k && len(area) < 30; i++ {
		switch rng.Intn(4) {
		case 0:
			area = append(area, 1)
		default:
			l := 3 + rng.Intn(8)
			t := byte(lnPick(rng, 7, 68, 130, 131, 136, 137, 148, 2+rng.Intn(250)))
			area = append(area, t, byte(l))
			lenOffs = append(lenOffs, len(area)-1)
			area = append(area, lnRandBytes(rng, l-2)...)
		}
	}
	eol := rng.Intn(3)
	if len(area)%4 != 0 || eol == 0 && k > 0 {
		if eol != 1 {
			area = append(area, 0)
			extra := (4 - len(area)%4) % 4
			if rng.Intn(4) == 0 && len(area)+extra+4 <= 40 {
				extra += 4
			}
			for i := 0; i < extra; i++ {
				if eol == 0 {
					area = append(area, 0)
				} else {
					area = append(area, byte(1+rng.Intn(255)))
				}
			}
		} else {
			for len(area)%4 != 0 {
				area = append(area, 1)
			}
		}
	}
	return
}

// ip4Packet builds a valid datagram field by field.
func ip4Packet(rng *rand.Rand, area, payload []byte) []byte {
	hl := 20 + len(area)
	h := make([]byte, hl)
	h[0] = 4<<4 | byte(hl/4)
	h[1] = byte(rng.Intn(256))
	tot := hl + len(payload)
	h[2], h[3] = byte(tot>>8), byte(tot)
	h[4], h[5] = byte(rng.Intn(256)), byte(rng.Intn(256))
	switch rng.Intn(6) {
	case 0:
		h[6] = 0x20 // MF
	case 1:
		h[6], h[7] = byte(rng.Intn(32)), byte(rng.Intn(256))
	case 2:
		h[6] = 0x40 // DF
	case 3:
		h[6] = byte(rng.Intn(256))
	}
	h[8] = byte(rng.Intn(256))
	h[9] = byte(lnPick(rng, 1, 6, 17, 47, 41, 58, 132, rng.Intn(256)))
	copy(h[12:20], lnRandBytes(rng, 8))
	copy(h[20:], area)
	ck := ip4Csum(h)
	h[10], h[11] = byte(ck>>8), byte(ck)
	return append(h, payload...)
}

func ip4RandPacket(rng *rand.Rand) ([]byte, []int) {
	var area []byte
	var lo []int
	if rng.Intn(3) != 0 {
		area, lo = ip4OptArea(rng)
	}
	pl := lnPick(rng, 0, 1, 2, 3, 8, 21, 64, rng.Intn(40))
	return ip4Packet(rng, area, lnRandBytes(rng, pl)), lo
}

func ip4RandSpec(rng *rand.Rand, extreme bool) string {
	b := func(vals ...int) int { return lnPick(rng, append(vals, rng.Intn(256))...) }
	w := func(vals ...int) int { return lnPick(rng, append(vals, rng.Intn(65536))...) }
	addr := func() string {
		if !extreme {
			return lnHex(lnRandBytes(rng, 4))
		}
		switch rng.Intn(8) {
		case 0:
			return ""
		case 1:
			return lnHex(lnRandBytes(rng, lnPick(rng, 1, 3, 5, 15, 17, 20)))
		case 2:
			return "00000000000000000000ffff" + lnHex(lnRandBytes(rng, 4))
		case 3:
			return lnHex(lnRandBytes(rng, 16))
		}
		return lnHex(lnRandBytes(rng, 4))
	}
	var opts []string
	k := rng.Intn(6)
	for i := 0; i < k; i++ {
		switch r := rng.Intn(10); {
		case r == 0:
			opts = append(opts, fmt.Sprintf("0-%d-", lnPick(rng, 0, 1, 7)))
		case r <= 2:
			opts = append(opts, fmt.Sprintf("1-%d-", lnPick(rng, 0, 1, 9)))
		default:
			l := 3 + rng.Intn(9)
			dl := l - 2
			if extreme {
				switch rng.Intn(8) {
				case 0:
					l = lnPick(rng, 0, 1, 2)
					dl = rng.Intn(3)
				case 1:
					dl = l - 1 // data longer than announced
				case 2, 3:
					dl = rng.Intn(l - 1) // short data
				case 4:
					l = lnPick(rng, 40, 100, 128, 200, 255)
					dl = rng.Intn(l - 1)
				}
			}
			opts = append(opts, fmt.Sprintf("%d-%d-%s", 2+rng.Intn(254), l, lnHex(lnRandBytes(rng, dl))))
		}
	}
	ver, ihl, fl, fo := 4, 5, rng.Intn(8), rng.Intn(8192)
	if extreme {
		ver, ihl, fl, fo = b(0, 4, 15, 16, 255), b(0, 5, 15, 16, 255), b(0, 7, 8, 255), w(0, 8191, 8192, 65535)
	}
	return fmt.Sprintf("%d.%d.%d.%d.%d.%d.%d.%d.%d.%d.%s.%s.%s.%s", ver, ihl, b(0), w(0, 20), w(0), fl, fo, b(0, 255), b(6, 17), w(0, 65535),
		addr(), addr(), lnHex(lnRandBytes(rng, rng.Intn(4))), strings.Join(opts, "/"))
}

func (lip4) Gen(rng *rand.Rand, tier string) []Case {
	var out []Case
	add := func(ops ...string) { out = append(out, Case{Prop: "Lip4", Ops: ops}) }
	scale := 1
	if tier == "thorough" {
		scale = 8
	}
	hx := lnHex
	payloads := func() []byte { return lnRandBytes(rng, lnPick(rng, 0, 1, 2, 3, 7, 8, 33, 64)) }

	// (a) valid datagrams: decode, serialize in all option/buffer combinations, round trip
	for i := 0; i < 60*scale; i++ {
		p, _ := ip4RandPacket(rng)
		add("dec:" + hx(p))
		add("rt:" + hx(p) + "," + hx(payloads()))
		pl := payloads()
		for _, fcd := range lnFCD[:6] {
			add("ser:" + hx(p) + "," + fcd + "," + hx(pl))
		}
		add("ser:" + hx(p) + "," + lnFCD[6+rng.Intn(6)] + "," + hx(payloads()))
	}
	// (b) truncation at every length, and every length-like field forced to its extremes
	for i := 0; i < 12*scale; i++ {
		p, lo := ip4RandPacket(rng)
		hl := int(p[0]&15) * 4
		for k := 0; k <= hl+2 && k <= len(p); k++ {
			add("tag:truncated-prefix-of-valid", "dec:"+hx(p[:k]))
		}
		for ihl := 0; ihl < 16; ihl++ {
			q := lnCopy(p)
			q[0] = q[0]&0xf0 | byte(ihl)
			add("dec:" + hx(q))
		}
		for _, L := range []int{0, 1, 19, 20, 21, hl - 1, hl, hl + 1, len(p) - 1, len(p) + 1, len(p) + 1000, 65535} {
			q := lnCopy(p)
			q[2], q[3] = byte(L>>8), byte(L)
			add("dec:" + hx(q))
			if rng.Intn(4) == 0 {
				add("ser:" + hx(q) + "," + lnFCD[rng.Intn(len(lnFCD))] + "," + hx(payloads()))
			}
		}
		for _, off := range lo {
			rem := hl - (20 + off - 1)
			for _, v := range []int{0, 1, 2, 3, rem - 1, rem, rem + 1, 255} {
				if v < 0 {
					continue
				}
				q := lnCopy(p)
				q[20+off] = byte(v)
				add("tag:option-length-extreme", "dec:"+hx(q))
				add("tag:option-length-extreme", "ser:"+hx(q)+","+lnFCD[rng.Intn(len(lnFCD))]+","+hx(payloads()))
				if rng.Intn(3) == 0 {
					p2, _ := ip4RandPacket(rng)
					add("tag:option-length-extreme", "dec2:"+hx(q)+","+hx(p2))
				}
			}
		}
		// an option type as the very last byte of the header
		if hl > 20 {
			q := lnCopy(p)
			q[hl-1] = 0x83
			add("tag:option-length-extreme", "dec:"+hx(q))
		}
	}
	// (c) reuse: first packet chosen to leave options and (non-zero) padding behind
	for i := 0; i < 80*scale; i++ {
		var a []byte
		for {
			a, _ = ip4RandPacket(rng)
			if int(a[0]&15) > 5 {
				break
			}
		}
		b, _ := ip4RandPacket(rng)
		switch rng.Intn(5) {
		case 0:
			b = b[:rng.Intn(len(b)+1)]
		case 1:
			b = ip4Packet(rng, nil, lnRandBytes(rng, rng.Intn(9)))
		case 2:
			b = ip4Packet(rng, []byte{1, 1, 1, 1}, nil)
		}
		add("dec2:" + hx(a) + "," + hx(b))
	}
	// (d) layers built from public fields, in range and out of range
	for i := 0; i < 150*scale; i++ {
		spec := ip4RandSpec(rng, i%3 != 0)
		add("new:" + spec + "," + lnFCD[rng.Intn(len(lnFCD))] + "," + hx(payloads()))
	}
	// (e) packet literals of layers/*_test.go as seeds
	seeds := lnEthSeeds(0x0800)
	for i, s := range seeds {
		if tier != "thorough" && i >= 40 {
			break
		}
		if len(s) > 200 {
			s = s[:200]
		}
		add("dec:" + hx(s))
		add("rt:" + hx(s) + "," + hx(payloads()))
		add("ser:" + hx(s) + "," + lnFCD[rng.Intn(len(lnFCD))] + "," + hx(payloads()))
		if i+1 < len(seeds) {
			t := seeds[i+1]
			if len(t) > 200 {
				t = t[:200]
			}
			add("dec2:" + hx(s) + "," + hx(t))
		}
		for k := 0; k < 24 && k < len(s); k += 1 + rng.Intn(3) {
			add("tag:truncated-prefix-of-valid", "dec:"+hx(s[:k]))
		}
	}
	// (f) malformed stream
	for i := 0; i < 150*scale; i++ {
		n := lnPick(rng, 0, 1, 19, 20, 21, 24, 40, 60, 61, rng.Intn(80))
		q := lnRandBytes(rng, n)
		if n > 0 && rng.Intn(2) == 0 {
			q[0] = 0x40 | byte(5+rng.Intn(11))
		}
		if n > 3 && rng.Intn(2) == 0 {
			q[2], q[3] = 0, byte(rng.Intn(n+4))
		}
		add("dec:" + hx(q))
		if i%3 == 0 {
			add("ser:" + hx(q) + "," + lnFCD[rng.Intn(len(lnFCD))] + "," + hx(payloads()))
			p, _ := ip4RandPacket(rng)
			add("dec2:" + hx(q) + "," + hx(p))
		}
	}
	// (h) option lists totalling 36..44 bytes in every composition: 40 (IHL 15) is the last size a header
	// can hold, 41.. must be refused.  Built from fields (all sizes) and decoded from bytes (IHL 14, 15).
	type optc struct {
		t, l int
		d []byte
	}
	opt := func(l int) optc { return optc{lnPick(rng, 7, 68, 130, 131, 137), l, lnRandBytes(rng, l-2)} }
	nop, eolo := optc{1, 1, nil}, optc{0, 1, nil}
	rep := func(o func() optc, n int) (r []optc) {
		for i := 0; i < n; i++ {
			r = append(r, o())
		}
		return
	}
	comps := func(T int) (wf, other [][]optc) {
		nops := func(n int) []optc { return rep(func() optc { return nop }, n) }
		all := [][]optc{
			{opt(T)},                                   // one long option
			append([]optc{nop}, opt(T-1)),               // ping -R: NOP + record route
			nops(T),                                    // only NOPs
			append(rep(func() optc { return opt(3) }, T/3), nops(T%3)...), // many 3 byte options
			append(rep(func() optc { return opt(4) }, T/4), nops(T%4)...), // many 4 byte options
			append(rep(func() optc { return opt(lnPick(rng, 3, 5, 8, 11)) }, 2), opt(T-22)), // mixed
		}
		for i, c := range all {
			if i == 5 { // fix the mixed one up to exactly T
				sum := 0
				for _, o := range c[:2] {
					sum += o.l
				}
				c[2] = opt(T - sum)
			}
			if T%4 == 0 {
				wf = append(wf, c)
			} else {
				other = append(other, c)
			}
		}
		// end-of-options terminated: well-formed for every T
		wf = append(wf, []optc{opt(T - 1), eolo}, append(nops(T-4), opt(3), eolo), []optc{opt(T - 4), nop, nop, nop, eolo})
		return
	}
	specOf := func(c []optc, payloadLen int, pad string) string {
		var os []string
		sum := 0
		for _, o := range c {
			os = append(os, fmt.Sprintf("%d-%d-%s", o.t, o.l, hx(o.d)))
			sum += o.l
		}
		words := (sum + 3) / 4
		return fmt.Sprintf("4.%d.0.%d.%d.%d.%d.64.17.0.%s.%s.%s.%s", (5+words)%256, 20+4*words+payloadLen, rng.Intn(65536), rng.Intn(8), rng.Intn(8192),
			hx(lnRandBytes(rng, 4)), hx(lnRandBytes(rng, 4)), pad, strings.Join(os, "/"))
	}
	areaOf := func(c []optc) (a []byte) {
		for _, o := range c {
			if o.t <= 1 {
				a = append(a, byte(o.t))
			} else {
				a = append(append(a, byte(o.t), byte(o.l)), o.d...)
			}
		}
		return
	}
	for T := 36; T <= 44; T++ {
		wf, other := comps(T)
		for _, c := range wf {
			pl := payloads()
			add("tag:option-bytes-boundary", "newrt:"+specOf(c, len(pl), "")+","+hx(pl))
			add("tag:option-bytes-boundary", "new:"+specOf(c, len(pl), "")+",11"+fmt.Sprint(rng.Intn(3))+","+hx(pl))
			add("tag:option-bytes-boundary", "new:"+specOf(c, len(pl), hx(lnRandBytes(rng, rng.Intn(4))))+",0"+fmt.Sprint(rng.Intn(2))+fmt.Sprint(rng.Intn(3))+","+hx(pl))
			if a := areaOf(c); len(a) <= 40 {
				for len(a)%4 != 0 { // after the EOL: padding, zero or not
					a = append(a, byte(rng.Intn(2)*rng.Intn(256)))
				}
				p := ip4Packet(rng, a, payloads())
				add("tag:option-bytes-boundary", "dec:"+hx(p))
				add("tag:option-bytes-boundary", "rt:"+hx(p)+","+hx(payloads()))
				add("tag:option-bytes-boundary", "ser:"+hx(p)+",11"+fmt.Sprint(rng.Intn(3))+","+hx(pl))
				add("tag:option-bytes-boundary", "ser:"+hx(p)+",0"+fmt.Sprint(rng.Intn(2))+fmt.Sprint(rng.Intn(3))+","+hx(pl))
			}
		}
		for _, c := range other {
			pl := payloads()
			add("tag:option-bytes-boundary", "new:"+specOf(c, len(pl), "")+",11"+fmt.Sprint(rng.Intn(3))+","+hx(pl))
			add("tag:option-bytes-boundary", "new:"+specOf(c, len(pl), "")+",0"+fmt.Sprint(rng.Intn(2))+fmt.Sprint(rng.Intn(3))+","+hx(pl))
		}
	}
	// (i) serializer guards from both sides: OptionLength 0..3 (must be >= 2) with OptionData of
	// OptionLength-3 .. OptionLength-1 bytes (must be <= OptionLength-2), alone and after three NOPs
	for l := 0; l <= 4; l++ {
		for dl := l - 3; dl <= l-1; dl++ {
			if dl < 0 {
				continue
			}
			for _, pre := range []string{"", "1-1-/1-1-/1-1-/"} {
				spec := fmt.Sprintf("4.5.0.0.1.0.0.64.17.0.0a000001.0a000002..%s9-%d-%s", pre, l, hx(lnRandBytes(rng, dl)))
				for _, fcd := range []string{"110", "111", "001"} {
					add("tag:option-length-extreme", "new:"+spec+","+fcd+","+hx(payloads()))
				}
			}
		}
	}
	// address lengths around 4 and 16 (AddressTo4: 4 bytes, or 16 bytes v4-mapped)
	for _, n := range []int{0, 3, 4, 5, 15, 16, 17} {
		a := lnRandBytes(rng, n)
		if n == 16 {
			a = append(append(make([]byte, 10), 0xff, 0xff), lnRandBytes(rng, 4)...)
		}
		add("new:4.5.0.0.1.0.0.64.17.0."+hx(a)+".0a000002..,110,"+hx(payloads()))
		add("new:4.5.0.0.1.0.0.64.17.0.0a000001."+hx(a)+"..,111,"+hx(payloads()))
	}
	// (g') total length 65535-3 .. 65535+3 (header + payload), without and with options: the 16 bit
	// Length field at its bound, the wrap beyond it, and Length 0 (TSO rule) at exactly 65536
	for _, withOpts := range []bool{false, true} {
		var p []byte
		for {
			p, _ = ip4RandPacket(rng)
			if (int(p[0]&15) > 5) == withOpts {
				break
			}
		}
		hl := int(p[0]&15) * 4
		for k := -3; k <= 3; k++ {
			add("tag:length-boundary", fmt.Sprintf("bigrt:%s,%d,%d", hx(p[:hl]), 65535-hl+k, rng.Intn(1<<30)))
		}
		add("tag:length-boundary", fmt.Sprintf("bigrt:%s,%d,%d", hx(p[:hl]), 65536+20-hl, rng.Intn(1<<30)))
	}
	// (g) large payloads around the uint16 length boundary
	for _, n := range []int{1480, 65514, 65515, 65516} {
		if tier != "thorough" && n > 1500 {
			continue
		}
		p, _ := ip4RandPacket(rng)
		add("rt:" + hx(p) + "," + hx(lnRandBytes(rng, n)))
	}
	return out
}
