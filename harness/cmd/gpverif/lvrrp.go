package main

// Lvrrp: layers/vrrp.go decoder sub-check (C19, C05, C01 for VRRPv2; no SerializeTo, so no ser/rt ops).
// Ops: dec dec2 (lmisc_common.go).

import (
	"fmt"
	"math/rand"
	"strings"

	"github.com/gopacket/gopacket"
	"github.com/gopacket/gopacket/layers"
)

type lvrrp struct{}

func init() { register("Lvrrp", lvrrp{}) }

var lvrrpDesc = &lmDesc{
	id: "Lvrrp", name: "VRRPv2",
	fresh: func() gopacket.Layer { return &layers.VRRPv2{} },
	decode: func(l gopacket.Layer, data []byte, fb gopacket.DecodeFeedback) error {
		return l.(*layers.VRRPv2).DecodeFromBytes(data, fb)
	},
	fields: func(l gopacket.Layer) string {
		v := l.(*layers.VRRPv2)
		ips := make([]string, len(v.IPAddress))
		for i, ip := range v.IPAddress {
			ips[i] = lnHex(ip)
		}
		return fmt.Sprintf("v=%d;t=%d;vrid=%d;prio=%d;cnt=%d;auth=%d;adv=%d;cs=%d;ips=%s", v.Version, uint8(v.Type), v.VirtualRtrID, v.Priority,
			v.CountIPAddr, uint8(v.AuthType), v.AdverInt, v.Checksum, strings.Join(ips, "."))
	},
	next: func(l gopacket.Layer, _ *lmBuilder) string {
		if t := l.(*layers.VRRPv2).NextLayerType(); t != gopacket.LayerTypeZero {
			return fmt.Sprintf("other%d", t)
		}
		return "zero"
	},
	extra: func(l gopacket.Layer) []func() {
		v := l.(*layers.VRRPv2)
		return []func(){func() { _ = v.Payload(); _ = v.Type.String(); _ = v.AuthType.String() }}
	},
	tags: func(l gopacket.Layer, cls string, data []byte) []string {
		var t []string
		if cls == "err" && len(data) >= 8 {
			t = append(t, "error-after-fields-set")
		}
		if cls == "ok" && len(data) > 8+4*int(l.(*layers.VRRPv2).CountIPAddr) {
			t = append(t, "trailing-auth-data")
		}
		if cls == "ok" && l.(*layers.VRRPv2).CountIPAddr == 255 {
			t = append(t, "max-addresses")
		}
		return t
	},
}

func (lvrrp) Run(c Case) Result { return lmRun(lvrrpDesc, c) }

func vrrpBuild(rng *rand.Rand, b0, cnt, present int) []byte {
	h := []byte{byte(b0), byte(rng.Intn(256)), byte(lnPick(rng, 100, 0, 255)), byte(cnt), byte(lnPick(rng, 0, 1, 2, 255)), byte(lnPick(rng, 1, 0, 255)), 0, 0}
	lmPut16(h[6:], rng.Intn(65536))
	return append(h, lnRandBytes(rng, present)...)
}

func (lvrrp) Gen(rng *rand.Rand, tier string) []Case {
	g := lmGenCfg{
		valid: func(rng *rand.Rand) []byte {
			cnt := lnPick(rng, 1, 1, 2, 3, 0, 5, rng.Intn(8))
			n := 4*cnt + lnPick(rng, 0, 0, 8, -1, 1)
			if n < 0 {
				n = 0
			}
			return vrrpBuild(rng, lnPick(rng, 0x21, 0x21, 0x21, 0x31, 0x20, 0x22, 0xf1, rng.Intn(256)), cnt, n)
		},
		hdrLen:  func(p []byte) int { if len(p) < 4 { return len(p) }; return 8 + 4*int(p[3]) },
		residue: func(rng *rand.Rand) []byte { return vrrpBuild(rng, 0x21, 3, 12+8) },
		seeds:   lmIPSeeds(112),
		extra: func(rng *rand.Rand, add func(ops ...string)) {
			for _, cnt := range []int{0, 1, 2, 63, 64, 254, 255} {
				for _, d := range []int{-1, 0, 1, 8} {
					n := 4*cnt + d
					if n < 0 {
						continue
					}
					p := vrrpBuild(rng, 0x21, cnt, n)
					add("tag:length-extreme", "dec:"+lnHex(p))
					add("tag:length-extreme", "dec2:"+lnHex(vrrpBuild(rng, 0x21, 3, 20))+","+lnHex(p))
				}
			}
			for b := 0; b < 256; b++ { // every version/type byte
				add("tag:type-every-value", "dec:"+lnHex(vrrpBuild(rng, b, 1, 4)))
				if b%8 == 0 {
					add("tag:type-every-value", "dec2:"+lnHex(vrrpBuild(rng, 0x21, 2, 8))+","+lnHex(vrrpBuild(rng, b, 1, 4)))
				}
			}
		},
	}
	return lmGen(lvrrpDesc, g, rng, tier)
}
