package main

// Ldhcp4: layers/dhcpv4.go codec sub-check (C19, C05, C06, C07, C01 for DHCPv4 with its options walk).
// Ops: dec dec2 ser rt (lmisc_common.go) plus
//   new:<op>.<htype>.<hlen>.<hops>.<xid>.<secs>.<flags>.<ci>.<yi>.<si>.<gi>.<chaddr>.<sname>.<file>.<opts>,<fcd>,<payloadhex> and rtn:
//   (addresses and byte fields in hex, "-" = nil; <opts> = "-" or options joined by "+", each <type>~<length>~<datahex|->).

import (
	"fmt"
	"math/rand"
	"net"
	"strings"

	"github.com/gopacket/gopacket"
	"github.com/gopacket/gopacket/layers"
)

type ldhcp4 struct{}

func init() { register("Ldhcp4", ldhcp4{}) }

func dhOpts(os layers.DHCPOptions) string {
	s := make([]string, len(os))
	for i, o := range os {
		s[i] = fmt.Sprintf("%d~%d~%s", uint8(o.Type), o.Length, lnHex(o.Data))
	}
	return strings.Join(s, "+")
}

var ldhcp4Desc = &lmDesc{
	id: "Ldhcp4", name: "DHCPv4", ser: true,
	fresh: func() gopacket.Layer { return &layers.DHCPv4{} },
	decode: func(l gopacket.Layer, data []byte, fb gopacket.DecodeFeedback) error {
		return l.(*layers.DHCPv4).DecodeFromBytes(data, fb)
	},
	fields: func(l gopacket.Layer) string {
		d := l.(*layers.DHCPv4)
		return fmt.Sprintf("op=%d;ht=%d;hl=%d;hops=%d;xid=%d;secs=%d;fl=%d;ci=%s;yi=%s;si=%s;gi=%s;ch=%s;sn=%s;file=%s;opts=%s", uint8(d.Operation), uint16(d.HardwareType),
			d.HardwareLen, d.RelayHops, d.Xid, d.Secs, d.Flags, lnHex(d.ClientIP), lnHex(d.YourClientIP), lnHex(d.NextServerIP), lnHex(d.RelayAgentIP),
			lnHex(d.ClientHWAddr), lnHex(d.ServerName), lnHex(d.File), dhOpts(d.Options))
	},
	next: func(l gopacket.Layer, _ *lmBuilder) string {
		if t := l.(*layers.DHCPv4).NextLayerType(); t != gopacket.LayerTypePayload {
			return fmt.Sprintf("other%d", t)
		}
		return "payload"
	},
	fromSpec: func(spec string) gopacket.Layer {
		f := strings.Split(spec, ".")
		d := &layers.DHCPv4{Operation: layers.DHCPOp(lnAtoi(f[0])), HardwareType: layers.LinkType(lnAtoi(f[1])), HardwareLen: uint8(lnAtoi(f[2])), RelayHops: uint8(lnAtoi(f[3])),
			Xid: uint32(lnAtoi(f[4])), Secs: uint16(lnAtoi(f[5])), Flags: uint16(lnAtoi(f[6])), ClientIP: net.IP(lmHexOrDash(f[7])), YourClientIP: net.IP(lmHexOrDash(f[8])),
			NextServerIP: net.IP(lmHexOrDash(f[9])), RelayAgentIP: net.IP(lmHexOrDash(f[10])), ClientHWAddr: net.HardwareAddr(lmHexOrDash(f[11])),
			ServerName: lmHexOrDash(f[12]), File: lmHexOrDash(f[13])}
		if f[14] != "-" {
			for _, os := range strings.Split(f[14], "+") {
				q := strings.Split(os, "~")
				d.Options = append(d.Options, layers.DHCPOption{Type: layers.DHCPOpt(lnAtoi(q[0])), Length: uint8(lnAtoi(q[1])), Data: lmHexOrDash(q[2])})
			}
		}
		return d
	},
	// C06 hypothesis (with FixLengths): 4-octet addresses, hardware address of at most 16 octets, 64/128-octet sname/file, options
	// other than End with at most 255 data octets (Pad without data)
	inDomain: func(l gopacket.Layer, _ []byte) bool {
		d := l.(*layers.DHCPv4)
		if len(d.ClientIP) != 4 || len(d.YourClientIP) != 4 || len(d.NextServerIP) != 4 || len(d.RelayAgentIP) != 4 || len(d.ClientHWAddr) > 16 ||
			len(d.ServerName) != 64 || len(d.File) != 128 || uint32(d.HardwareType) > 255 {
			return false
		}
		for _, o := range d.Options {
			if o.Type == layers.DHCPOptEnd || len(o.Data) > 255 || (o.Type == layers.DHCPOptPad && (len(o.Data) > 0 || o.Length != 0)) {
				return false
			}
		}
		return true
	},
	rtPayload: func(l gopacket.Layer, payload []byte) []byte { return nil },
	extra: func(l gopacket.Layer) []func() {
		d := l.(*layers.DHCPv4)
		return []func(){func() {
			_ = d.Len()
			_ = d.Options.String()
			_ = d.Operation.String()
			for _, o := range d.Options {
				_ = o.String()
				_ = o.Type.String()
			}
		}}
	},
	tags: func(l gopacket.Layer, cls string, data []byte) []string {
		d := l.(*layers.DHCPv4)
		var t []string
		if cls == "ok" && len(d.Options) > 0 {
			t = append(t, "options")
		}
		if cls == "ok" && len(data) == 240 {
			t = append(t, "no-options-area")
		}
		if cls == "err" && len(data) >= 240 && len(d.Options) > 0 {
			t = append(t, "error-after-add")
		}
		if cls == "err" && len(data) >= 240 {
			t = append(t, "error-after-fields-set")
		}
		for _, o := range d.Options {
			if o.Type == layers.DHCPOptPad {
				t = append(t, "pad-option")
				break
			}
		}
		return t
	},
}

func (ldhcp4) Run(c Case) Result { return lmRun(ldhcp4Desc, c) }

// dhBuild: BOOTP header (hlen as given) + magic + raw option bytes
func dhBuild(rng *rand.Rand, hlen int, opts []byte) []byte {
	h := lnRandBytes(rng, 240)
	h[0], h[1], h[2], h[3] = byte(lnPick(rng, 1, 2, 0, 255)), byte(lnPick(rng, 1, 6, 0, 255)), byte(hlen), byte(rng.Intn(4))
	if rng.Intn(2) == 0 {
		for i := 44; i < 236; i++ {
			h[i] = 0
		}
	}
	h[236], h[237], h[238], h[239] = 0x63, 0x82, 0x53, 0x63
	return append(h, opts...)
}

func dhOpt(t int, declared int, data []byte) []byte {
	if declared < 0 {
		declared = len(data)
	}
	return append([]byte{byte(t), byte(declared)}, data...)
}

func (ldhcp4) Gen(rng *rand.Rand, tier string) []Case {
	ropts := func(rng *rand.Rand) []byte {
		var o []byte
		for k := lnPick(rng, 0, 1, 2, 3, 5); k > 0; k-- {
			switch rng.Intn(6) {
			case 0:
				o = append(o, 0) // pad
			default:
				t := lnPick(rng, 53, 1, 3, 6, 12, 50, 51, 54, 55, 61, 82, 254, rng.Intn(254)+1)
				o = append(o, dhOpt(t, -1, lnRandBytes(rng, lnPick(rng, 1, 4, 4, 0, 2, 8, 17)))...)
			}
		}
		return o
	}
	valid := func(rng *rand.Rand) []byte {
		o := ropts(rng)
		switch rng.Intn(6) {
		case 0: // no end option
		case 1:
			o = append(o, 255)
			o = append(o, lnRandBytes(rng, lnPick(rng, 1, 5, 20))...) // bytes behind End
		default:
			o = append(o, 255)
		}
		return dhBuild(rng, lnPick(rng, 6, 6, 6, 0, 1, 16), o)
	}
	g := lmGenCfg{
		valid:   valid,
		hdrLen:  func(p []byte) int { return len(p) },
		n:       40,
		residue: func(rng *rand.Rand) []byte { return dhBuild(rng, 16, append(append(dhOpt(53, -1, []byte{1}), dhOpt(55, -1, []byte{1, 3, 6, 15})...), 0, 0, 255)) },
		spec: func(rng *rand.Rand) string {
			ip := func() string { return lnPick2(rng, "-", "", "0a000001", "00000000000000000000ffff0a000001", "20010db8000000000000000000000001", "0a0000") }
			bs := func(ns ...int) string {
				n := ns[rng.Intn(len(ns))]
				if n < 0 {
					return "-"
				}
				return lnHex(lnRandBytes(rng, n))
			}
			var os []string
			for k := lnPick(rng, 0, 1, 2, 3); k > 0; k-- {
				t := lnPick(rng, 53, 0, 255, 12, 1, 51)
				dl := lnPick(rng, 0, 1, 4, 4, 255, 256)
				d := "-"
				if dl > 0 || rng.Intn(2) == 0 {
					d = lnHex(lnRandBytes(rng, dl))
				}
				os = append(os, fmt.Sprintf("%d~%d~%s", t, lnPick(rng, dl, dl, dl, 0, 255, dl+1)%256, d))
			}
			o := "-"
			if len(os) > 0 {
				o = strings.Join(os, "+")
			}
			return fmt.Sprintf("%d.%d.%d.%d.%d.%d.%d.%s.%s.%s.%s.%s.%s.%s.%s", lnPick(rng, 1, 2, 255), lnPick(rng, 1, 6, 255, 256), lnPick(rng, 6, 0, 16, 17, 255), rng.Intn(256),
				rng.Int63n(1<<32), rng.Intn(65536), lnPick(rng, 0, 0x8000, 65535), ip(), ip(), ip(), ip(), bs(6, 6, 0, -1, 16, 17, 20), bs(64, 64, 0, -1, 10, 65, 100), bs(128, 128, 0, -1, 129), o)
		},
		seeds: append(lmUDPSeeds(67), lmUDPSeeds(68)...),
		extra: func(rng *rand.Rand, add func(ops ...string)) {
			// hardware length 0,1,6,15,16,17,255 (the chaddr field holds 16)
			for _, hl := range []int{0, 1, 6, 15, 16, 17, 128, 255} {
				p := dhBuild(rng, hl, []byte{255})
				add("tag:hwlen-extreme", "dec:"+lnHex(p))
				add("tag:hwlen-extreme", "dec2:"+lnHex(dhBuild(rng, 16, append(dhOpt(53, -1, []byte{1}), 255)))+","+lnHex(p))
				add("tag:hwlen-extreme", "rt:"+lnHex(p)+",")
			}
			// the last option: length octet 0, 1, exact, one more, 255; cut after the type octet; missing End; only End; only Pads
			for _, dl := range []int{0, 1, 4, 255} {
				for _, decl := range []int{0, 1, dl, dl + 1, 255} {
					p := dhBuild(rng, 6, append(dhOpt(53, -1, []byte{5}), dhOpt(12, decl, lnRandBytes(rng, dl))...))
					add("tag:option-length-extreme", "dec:"+lnHex(p))
					add("tag:option-length-extreme", "dec2:"+lnHex(dhBuild(rng, 6, append(dhOpt(51, -1, []byte{0, 0, 14, 16}), 255)))+","+lnHex(p))
					add("tag:option-length-extreme", "ser:"+lnHex(p)+","+lnFCD[rng.Intn(len(lnFCD))]+",")
					add("tag:option-length-extreme", "rt:"+lnHex(append(p, 255))+",")
				}
			}
			for _, tail := range [][]byte{{}, {53}, {255}, {0}, {0, 0, 0}, {0, 255}, {53, 1}, {0, 53}, {255, 53, 1, 1}} {
				p := dhBuild(rng, 6, tail)
				add("tag:options-area-boundary", "dec:"+lnHex(p))
				add("tag:options-area-boundary", "dec2:"+lnHex(dhBuild(rng, 6, append(dhOpt(53, -1, []byte{1}), 255)))+","+lnHex(p))
				add("tag:options-area-boundary", "rt:"+lnHex(p)+",")
			}
			// bad magic cookie
			p := dhBuild(rng, 6, []byte{255})
			p[239] ^= 1
			add("tag:bad-magic", "dec:"+lnHex(p))
			add("tag:bad-magic", "dec2:"+lnHex(dhBuild(rng, 6, append(dhOpt(53, -1, []byte{1}), 255)))+","+lnHex(p))
			add("tag:bad-magic", "ser:"+lnHex(p)+",110,")
			// rendering: message type / address / uint32 / parameter list options with wrong data lengths
			for _, t := range []int{53, 1, 54, 50, 51, 58, 55, 12, 119} {
				for _, dl := range []int{0, 1, 3, 4, 5} {
					q := dhBuild(rng, 6, append(dhOpt(t, -1, lnRandBytes(rng, dl)), 255))
					add("tag:render-option", "dec:"+lnHex(q))
				}
			}
		},
	}
	return lmGen(ldhcp4Desc, g, rng, tier)
}
