package main

// Lasfpong: layers/asf_presencepong.go (ASF presence pong codec) sub-check: C19, C05, C06, C07, C01.
// Ops: dec dec2 ser new rt rtn.  Spec of a field-built layer: ent.o0.o1.o2.o3.ipmi.asf1.sec.dash

import (
	"fmt"
	"math/rand"
	"strings"

	"github.com/gopacket/gopacket"
	"github.com/gopacket/gopacket/layers"
)

type lasfpong struct{}

func init() { register("Lasfpong", lasfpong{}) }

var lasfpongDesc = &lmDesc{
	id: "Lasfpong", name: "ASFPresencePong", ser: true,
	fresh: func() gopacket.Layer { return &layers.ASFPresencePong{} },
	decode: func(l gopacket.Layer, data []byte, fb gopacket.DecodeFeedback) error {
		return l.(*layers.ASFPresencePong).DecodeFromBytes(data, fb)
	},
	fields: func(l gopacket.Layer) string {
		a := l.(*layers.ASFPresencePong)
		return fmt.Sprintf("ent=%d;oem=%s;ipmi=%s;asf1=%s;sec=%s;dash=%s;dcmi=%s", a.Enterprise, lnHex(a.OEM[:]), lnB(a.IPMI), lnB(a.ASFv1), lnB(a.SecurityExtensions), lnB(a.DASH), lnB(a.SupportsDCMI()))
	},
	next: func(l gopacket.Layer, _ *lmBuilder) string {
		if t := l.(*layers.ASFPresencePong).NextLayerType(); t != gopacket.LayerTypePayload {
			return fmt.Sprintf("other%d", t)
		}
		return "0"
	},
	fromSpec: func(spec string) gopacket.Layer {
		f := strings.Split(spec, ".")
		return &layers.ASFPresencePong{Enterprise: uint32(lnAtoi(f[0])), OEM: [4]byte{byte(lnAtoi(f[1])), byte(lnAtoi(f[2])), byte(lnAtoi(f[3])), byte(lnAtoi(f[4]))},
			IPMI: f[5] == "1", ASFv1: f[6] == "1", SecurityExtensions: f[7] == "1", DASH: f[8] == "1"}
	},
	extra: func(l gopacket.Layer) []func() {
		a := l.(*layers.ASFPresencePong)
		return []func(){func() { _, _ = a.SupportsDCMI(), a.CanDecode() }}
	},
	tags: func(l gopacket.Layer, cls string, data []byte) []string {
		if a := l.(*layers.ASFPresencePong); cls == "ok" && a.SupportsDCMI() {
			return []string{"dcmi"}
		}
		return nil
	},
}

func (lasfpong) Run(c Case) Result { return lmRun(lasfpongDesc, c) }

func (lasfpong) Gen(rng *rand.Rand, tier string) []Case {
	valid := func(rng *rand.Rand) []byte {
		p := lmHdrGen(16)(rng)
		if rng.Intn(3) == 0 {
			lmPut32(p[0:], uint32(lnPick(rng, 36465, 36465, 4542, 36464)))
			p[8] = byte(lnPick(rng, 0x81, 0x81, 0x80, 0x01, 0xff))
		}
		return p
	}
	var seeds [][]byte
	for _, s := range lmUDPSeeds(623) { // RMCP (4) + ASF header (8) + presence pong
		if len(s) > 12 && s[8] == 0x40 {
			seeds = append(seeds, s[12:])
		}
	}
	for _, s := range lnSeeds() { // the 16-octet presence pong literals of asf_presencepong_test.go
		if len(s) == 16 && s[10]|s[11]|s[12]|s[13]|s[14]|s[15] == 0 {
			seeds = append(seeds, s)
		}
	}
	return lmGen(lasfpongDesc, lmGenCfg{valid: valid, hdrLen: func([]byte) int { return 16 }, seeds: seeds,
		// maximal residue: every field set
		residue: func(rng *rand.Rand) []byte {
			p := lnRandBytes(rng, 16+rng.Intn(3))
			for i := 0; i < 10; i++ {
				p[i] = 0xff
			}
			return p
		},
		spec: func(rng *rand.Rand) string {
			return fmt.Sprintf("%d.%d.%d.%d.%d.%d.%d.%d.%d", lnPick(rng, 0, 36465, 36465, 4542, 0xffffffff, 36466), lnPick(rng, 0, 1, 255), lnPick(rng, 0, 255), lnPick(rng, 0, 128), rng.Intn(256),
				rng.Intn(2), rng.Intn(2), rng.Intn(2), rng.Intn(2))
		},
		extra: func(rng *rand.Rand, add func(ops ...string)) {
			lmEveryOctet(lasfpongDesc, 16, []int{8, 9, 10, 15}, true)(rng, add)
			for b := 0; b < 16; b++ { // every combination of the four flags, field-built
				s := fmt.Sprintf("36465.1.2.3.4.%d.%d.%d.%d", b&1, b>>1&1, b>>2&1, b>>3&1)
				add("tag:field-extreme", "new:"+s+","+lnFCD[rng.Intn(len(lnFCD))]+","+lnHex(lnRandBytes(rng, 3)))
				add("tag:field-extreme", "rtn:"+s+","+lnHex(lnRandBytes(rng, b)))
			}
			for k := 0; k <= 17; k++ { // every truncation against a fully set residue
				p := lnRandBytes(rng, 17)
				add("tag:truncated-prefix-of-valid", "dec2:ffffffffffffffffffffffffffffffffffff,"+lnHex(p[:k]))
			}
		}}, rng, tier)
}
