package main

// Licmp6: ICMPv6 header (layers/icmp6.go) and the NDP messages with their option list
// (layers/icmp6msg.go).  One sub-check serving C19, C05, C06, C07, C01 for these types.
//
// kinds: hdr rs ra ns na rd opts (opts = the ICMPv6Options type used directly)
// ops:
//   dec:<k>,<hex>                    DecodeFromBytes into a fresh object, then render
//   dec2:<k>,<hexA>,<hexB>           decode A then B into the same object
//   ser:<k>,<hex>,<fcd>,<payload>,<ph>   decode (may fail: residue), SerializeTo over payload
//   rt:<k>,<hex>,<payload>,<ph>      decode, serialize with fix+csum, decode again
//   nser:<k>,<fcd>,<payload>,<ph>,<fields>  SerializeTo of a value built from public fields
//   nrt:<k>,<payload>,<ph>,<fields>  round trip of a value built from public fields
//   ostr:<type>,<datahex>            ICMPv6Option{type,data}.String()
// <ph> = "-" (no network layer attached) or <srchex>.<dsthex> (IPv6 layer attached with
// SetNetworkLayerForChecksum); only hdr uses it.
// <fields>: hdr  tc.csum ;  others  hop.flags.life.reach.retrans.tgthex.dsthex.opts  with
// opts = t~hex|t~hex...

import (
	"fmt"
	"math/rand"
	"net"
	"strings"

	"github.com/gopacket/gopacket"
	"github.com/gopacket/gopacket/layers"
)

type licmp6 struct{}

func init() { register("Licmp6", licmp6{}) }

var licmp6Kinds = []string{"hdr", "rs", "ra", "ns", "na", "rd", "opts", "echo"}

func licmp6HdrLen(k string) int {
	switch k {
	case "rs":
		return 4
	case "ra":
		return 12
	case "ns", "na":
		return 20
	case "rd":
		return 36
	case "hdr", "echo":
		return 4
	}
	return 0
}

// licmp6Obj is one layer object of a kind.
type licmp6Obj struct {
	k    string
	hdr  *layers.ICMPv6
	rs   *layers.ICMPv6RouterSolicitation
	ra   *layers.ICMPv6RouterAdvertisement
	ns   *layers.ICMPv6NeighborSolicitation
	na   *layers.ICMPv6NeighborAdvertisement
	rd   *layers.ICMPv6Redirect
	opts *layers.ICMPv6Options
	echo *layers.ICMPv6Echo
}

func licmp6New(k string) *licmp6Obj {
	o := &licmp6Obj{k: k}
	switch k {
	case "hdr":
		o.hdr = &layers.ICMPv6{}
	case "rs":
		o.rs = &layers.ICMPv6RouterSolicitation{}
	case "ra":
		o.ra = &layers.ICMPv6RouterAdvertisement{}
	case "ns":
		o.ns = &layers.ICMPv6NeighborSolicitation{}
	case "na":
		o.na = &layers.ICMPv6NeighborAdvertisement{}
	case "rd":
		o.rd = &layers.ICMPv6Redirect{}
	case "opts":
		o.opts = &layers.ICMPv6Options{}
	case "echo":
		o.echo = &layers.ICMPv6Echo{}
	default:
		panic("bad kind " + k)
	}
	return o
}

func (o *licmp6Obj) decode(data []byte, df gopacket.DecodeFeedback) error {
	switch o.k {
	case "hdr":
		return o.hdr.DecodeFromBytes(data, df)
	case "rs":
		return o.rs.DecodeFromBytes(data, df)
	case "ra":
		return o.ra.DecodeFromBytes(data, df)
	case "ns":
		return o.ns.DecodeFromBytes(data, df)
	case "na":
		return o.na.DecodeFromBytes(data, df)
	case "rd":
		return o.rd.DecodeFromBytes(data, df)
	case "echo":
		return o.echo.DecodeFromBytes(data, df)
	}
	return o.opts.DecodeFromBytes(data, df)
}

func (o *licmp6Obj) serializable() gopacket.SerializableLayer {
	switch o.k {
	case "hdr":
		return o.hdr
	case "rs":
		return o.rs
	case "ra":
		return o.ra
	case "ns":
		return o.ns
	case "na":
		return o.na
	case "rd":
		return o.rd
	case "echo":
		return o.echo
	}
	return licmp6OptsLayer{o.opts}
}

// ICMPv6Options has SerializeTo but no LayerType: wrap it.
type licmp6OptsLayer struct{ o *layers.ICMPv6Options }

func (l licmp6OptsLayer) LayerType() gopacket.LayerType { return gopacket.LayerTypePayload }
func (l licmp6OptsLayer) SerializeTo(b gopacket.SerializeBuffer, opts gopacket.SerializeOptions) error {
	return l.o.SerializeTo(b, opts)
}

func (o *licmp6Obj) layer() gopacket.Layer {
	switch o.k {
	case "hdr":
		return o.hdr
	case "rs":
		return o.rs
	case "ra":
		return o.ra
	case "ns":
		return o.ns
	case "na":
		return o.na
	case "rd":
		return o.rd
	case "echo":
		return o.echo
	}
	return nil
}

func (o *licmp6Obj) options() layers.ICMPv6Options {
	switch o.k {
	case "rs":
		return o.rs.Options
	case "ra":
		return o.ra.Options
	case "ns":
		return o.ns.Options
	case "na":
		return o.na.Options
	case "rd":
		return o.rd.Options
	case "opts":
		return *o.opts
	}
	return nil
}

func licmp6OptsStr(os layers.ICMPv6Options) string {
	var parts []string
	for _, op := range os {
		parts = append(parts, fmt.Sprintf("%d~%s", uint8(op.Type), n6hex(op.Data)))
	}
	return strings.Join(parts, "|")
}

// fields: the canonical field list without contents/payload (what C06 compares)
func (o *licmp6Obj) fields() string {
	switch o.k {
	case "hdr":
		return fmt.Sprintf("tc=%d;csum=%d", uint16(o.hdr.TypeCode), o.hdr.Checksum)
	case "rs":
		return "opts=" + licmp6OptsStr(o.rs.Options)
	case "ra":
		return fmt.Sprintf("hop=%d;flags=%d;life=%d;reach=%d;retrans=%d;opts=%s", o.ra.HopLimit, o.ra.Flags,
			o.ra.RouterLifetime, o.ra.ReachableTime, o.ra.RetransTimer, licmp6OptsStr(o.ra.Options))
	case "ns":
		return fmt.Sprintf("tgt=%s;opts=%s", n6hex(o.ns.TargetAddress), licmp6OptsStr(o.ns.Options))
	case "na":
		return fmt.Sprintf("flags=%d;tgt=%s;opts=%s", o.na.Flags, n6hex(o.na.TargetAddress), licmp6OptsStr(o.na.Options))
	case "rd":
		return fmt.Sprintf("tgt=%s;dst=%s;opts=%s", n6hex(o.rd.TargetAddress), n6hex(o.rd.DestinationAddress), licmp6OptsStr(o.rd.Options))
	case "echo":
		return fmt.Sprintf("id=%d;seq=%d", o.echo.Identifier, o.echo.SeqNumber)
	}
	return "opts=" + licmp6OptsStr(*o.opts)
}

func (o *licmp6Obj) base() (c, p []byte) {
	switch o.k {
	case "hdr":
		return o.hdr.Contents, o.hdr.Payload
	case "rs":
		return o.rs.Contents, o.rs.Payload
	case "ra":
		return o.ra.Contents, o.ra.Payload
	case "ns":
		return o.ns.Contents, o.ns.Payload
	case "na":
		return o.na.Contents, o.na.Payload
	case "rd":
		return o.rd.Contents, o.rd.Payload
	case "echo":
		return o.echo.Contents, o.echo.Payload
	}
	return nil, nil
}

// state: fields, contents, payload, NextLayerType
func (o *licmp6Obj) state() string {
	s := o.fields()
	if o.k == "opts" {
		return s
	}
	c, p := o.base()
	next := 0
	switch o.k {
	case "hdr":
		next = int(o.hdr.NextLayerType())
	case "rs":
		next = int(o.rs.NextLayerType())
	case "ra":
		next = int(o.ra.NextLayerType())
	case "ns":
		next = int(o.ns.NextLayerType())
	case "na":
		next = int(o.na.NextLayerType())
	case "rd":
		next = int(o.rd.NextLayerType())
	case "echo":
		next = int(o.echo.NextLayerType())
	}
	return fmt.Sprintf("%s;c=%s;p=%s;next=%d", s, n6hex(c), n6hex(p), next)
}

// render: LayerString, LayerDump, LayerGoString, and String() of every option
func (o *licmp6Obj) render() string {
	r := []string{"ok", "ok", "ok"}
	if l := o.layer(); l != nil {
		r = n6layerRender(l)
	}
	os := "ok"
	for _, op := range o.options() {
		op := op
		if n6render(func() { _ = op.String() }) == "panic" {
			os = "panic"
		}
	}
	return "render=" + strings.Join(append(r, os), ",")
}

func (o *licmp6Obj) attach(ph string) {
	if o.k != "hdr" || ph == "-" {
		return
	}
	s, d, _ := strings.Cut(ph, ".")
	ip := &layers.IPv6{SrcIP: net.IP(n6unhex(s)), DstIP: net.IP(n6unhex(d))}
	if len(ip.SrcIP) == 0 {
		ip.SrcIP = nil
	}
	if len(ip.DstIP) == 0 {
		ip.DstIP = nil
	}
	o.hdr.SetNetworkLayerForChecksum(ip)
}

// licmp6PHValid: an IPv6 network layer with two 16-byte addresses is attached
func licmp6PHValid(ph string) bool {
	s, d, ok := strings.Cut(ph, ".")
	return ok && len(s) == 32 && len(d) == 32
}

func licmp6ParseOpts(s string) layers.ICMPv6Options {
	var os layers.ICMPv6Options
	if s == "" {
		return os
	}
	for _, p := range strings.Split(s, "|") {
		t, d, _ := strings.Cut(p, "~")
		os = append(os, layers.ICMPv6Option{Type: layers.ICMPv6Opt(n6atoi(t)), Data: n6unhex(d)})
	}
	return os
}

func licmp6Build(k, fields string) *licmp6Obj {
	o := licmp6New(k)
	f := strings.Split(fields, ".")
	if k == "hdr" {
		o.hdr.TypeCode = layers.ICMPv6TypeCode(n6atoi(f[0]))
		o.hdr.Checksum = uint16(n6atoi(f[1]))
		return o
	}
	if k == "echo" {
		o.echo.Identifier, o.echo.SeqNumber = uint16(n6atoi(f[0])), uint16(n6atoi(f[1]))
		return o
	}
	hop, flags, life, reach, retrans := n6atoi(f[0]), n6atoi(f[1]), n6atoi(f[2]), n6atoi(f[3]), n6atoi(f[4])
	var tgt, dst net.IP
	if f[5] != "" {
		tgt = net.IP(n6unhex(f[5]))
	}
	if f[6] != "" {
		dst = net.IP(n6unhex(f[6]))
	}
	os := licmp6ParseOpts(f[7])
	switch k {
	case "rs":
		o.rs.Options = os
	case "ra":
		o.ra.HopLimit, o.ra.Flags, o.ra.RouterLifetime = uint8(hop), uint8(flags), uint16(life)
		o.ra.ReachableTime, o.ra.RetransTimer, o.ra.Options = uint32(reach), uint32(retrans), os
	case "ns":
		o.ns.TargetAddress, o.ns.Options = tgt, os
	case "na":
		o.na.Flags, o.na.TargetAddress, o.na.Options = uint8(flags), tgt, os
	case "rd":
		o.rd.TargetAddress, o.rd.DestinationAddress, o.rd.Options = tgt, dst, os
	case "opts":
		*o.opts = os
	}
	return o
}

// ---------------------------------------------------------------- Run

func (licmp6) Run(c Case) Result {
	var res Result
	tags := map[string]bool{}
	for _, op := range c.Ops {
		name, a := n6args(op)
		switch name {
		case "dec":
			k, data := a[0], n6unhex(a[1])
			o := licmp6New(k)
			df := &n6fb{}
			cls := n6decode(func() error { return o.decode(data, df) })
			rend := o.render()
			res.Obs = append(res.Obs, fmt.Sprintf("cls=%s;trunc=%d;%s;%s", cls, n6b2i(df.t), o.state(), rend))
			if cls == "panic" || cls == "stuck" {
				res.Oracle = append(res.Oracle, n6oracle("C19:"+cls, "%s DecodeFromBytes: %s on %s", k, cls, a[1]))
			}
			if strings.Contains(rend, "panic") {
				res.Oracle = append(res.Oracle, n6oracle("C01:render", "%s renderer panics after decoding %s (%s)", k, a[1], rend))
			}
			if cls == "err" && df.t {
				tags["truncated-prefix-of-valid"] = true
			}
			licmp6DataTags(k, data, tags)
			if cls == "err" && len(o.options()) > 0 {
				tags["error-after-add"] = true
			}
		case "dec2":
			k, da, db := a[0], n6unhex(a[1]), n6unhex(a[2])
			o := licmp6New(k)
			dfa := &n6fb{}
			clsA := n6decode(func() error { return o.decode(da, dfa) })
			if len(o.options()) > 0 {
				tags["residue-options"] = true
			}
			df := &n6fb{}
			cls := n6decode(func() error { return o.decode(db, df) })
			rend := o.render()
			res.Obs = append(res.Obs, fmt.Sprintf("cls=%s;trunc=%d;%s;%s", cls, n6b2i(df.t), o.state(), rend))
			// oracle C05: same result as a fresh object
			fo := licmp6New(k)
			fdf := &n6fb{}
			fcls := n6decode(func() error { return fo.decode(n6clip(db), fdf) })
			if cls != fcls || df.t != fdf.t || (fcls == "ok" && o.state() != fo.state()) {
				res.Oracle = append(res.Oracle, n6oracle("C05:stale", "%s after %s (%s): reused %s;%s fresh %s;%s", k, a[1], clsA, cls, o.state(), fcls, fo.state()))
			}
			if cls == "panic" || cls == "stuck" {
				res.Oracle = append(res.Oracle, n6oracle("C19:"+cls, "%s DecodeFromBytes: %s on %s after %s", k, cls, a[2], a[1]))
			}
			if strings.Contains(rend, "panic") {
				res.Oracle = append(res.Oracle, n6oracle("C01:render", "%s renderer panics after decoding %s then %s", k, a[1], a[2]))
			}
		case "ser", "nser":
			var k, fcd, ph string
			var payload []byte
			mk := func() *licmp6Obj { return nil }
			if name == "ser" {
				k, fcd, payload, ph = a[0], a[2], n6unhex(a[3]), a[4]
				data := n6unhex(a[1])
				mk = func() *licmp6Obj {
					o := licmp6New(k)
					n6decode(func() error { return o.decode(n6clip(data), &n6fb{}) })
					o.attach(ph)
					return o
				}
				if n6decode(func() error { return licmp6New(k).decode(n6clip(data), &n6fb{}) }) != "ok" {
					tags["error-residue"] = true
				}
			} else {
				k, fcd, payload, ph = a[0], a[1], n6unhex(a[2]), a[3]
				mk = func() *licmp6Obj { o := licmp6Build(k, a[4]); o.attach(ph); return o }
			}
			fix, csum, mode := n6flags(fcd)
			o := mk()
			cls, out := n6serialize(o.serializable(), payload, fix, csum, mode)
			res.Obs = append(res.Obs, fmt.Sprintf("cls=%s;out=%s;%s", cls, n6hex(out), o.fields()))
			if cls == "panic" {
				res.Oracle = append(res.Oracle, n6oracle("C07:panic", "%s SerializeTo panics: %s", k, op))
			}
			// oracle C07: same bytes whatever the buffer history, and on repetition
			for m := 0; m < 3; m++ {
				o2 := mk()
				cls2, out2 := n6serialize(o2.serializable(), payload, fix, csum, m)
				if cls2 != cls || string(out2) != string(out) {
					res.Oracle = append(res.Oracle, n6oracle("C07:junk-dependence", "%s buffer mode %d gives %s %s, mode %d gives %s %s", k, mode, cls, n6hex(out), m, cls2, n6hex(out2)))
					break
				}
				cls3, out3 := n6serialize(o2.serializable(), payload, fix, csum, m)
				if cls3 != cls2 || string(out3) != string(out2) {
					res.Oracle = append(res.Oracle, n6oracle("C07:repeat", "%s second SerializeTo gives %s %s, first %s %s", k, cls3, n6hex(out3), cls2, n6hex(out2)))
					break
				}
			}
			if mode == 1 {
				tags["dirty-buffer"] = true
			}
			if !fix {
				tags["no-fixlengths"] = true
			}
			if len(payload)%2 == 1 {
				tags["odd-payload"] = true
			}
			if len(o.options()) >= 2 {
				tags["multi-option"] = true
			}
		case "rt", "nrt":
			var k, ph string
			var payload []byte
			var o *licmp6Obj
			first := "ok"
			if name == "rt" {
				k, payload, ph = a[0], n6unhex(a[2]), a[3]
				o = licmp6New(k)
				df := &n6fb{}
				first = n6decode(func() error { return o.decode(n6unhex(a[1]), df) })
			} else {
				k, payload, ph = a[0], n6unhex(a[1]), a[2]
				o = licmp6Build(k, a[3])
			}
			o.attach(ph)
			scls, out := n6serialize(o.serializable(), payload, true, true, 0)
			o2 := licmp6New(k)
			df2 := &n6fb{}
			cls2 := "err"
			if scls == "ok" {
				cls2 = n6decode(func() error { return o2.decode(n6clip(out), df2) })
			}
			rend := o2.render()
			res.Obs = append(res.Obs, fmt.Sprintf("scls=%s;cls=%s;trunc=%d;%s;%s", scls, cls2, n6b2i(df2.t), o2.state(), rend))
			if scls == "panic" {
				res.Oracle = append(res.Oracle, n6oracle("C07:panic", "%s SerializeTo panics: %s", k, op))
			}
			// oracle C06, for values in the protocol's range: decoded without error (rt) or built
			// in range (nrt); NDP messages carry no payload
			if first == "ok" && scls == "err" && (k != "hdr" || licmp6PHValid(ph)) {
				res.Oracle = append(res.Oracle, n6oracle("C06:serialize-error", "%s SerializeTo fails on a decoded / in-range value", k))
			}
			inScope := first == "ok" && scls == "ok" && (k == "hdr" || k == "echo" || len(payload) == 0)
			if inScope {
				_, p2 := o2.base()
				wantP := payload
				if k != "hdr" && k != "echo" {
					wantP = nil
				}
				if cls2 != "ok" || df2.t || o2.fields() != o.fields() || string(p2) != string(wantP) {
					res.Oracle = append(res.Oracle, n6oracle("C06:roundtrip", "%s wrote %s; got %s trunc=%d %s payload %s; want %s payload %s", k, n6hex(out), cls2, n6b2i(df2.t), o2.fields(), n6hex(p2), o.fields(), n6hex(wantP)))
				} else {
					o2.attach(ph)
					cls3, out3 := n6serialize(o2.serializable(), payload, true, true, 0)
					if cls3 != "ok" || string(out3) != string(out) {
						res.Oracle = append(res.Oracle, n6oracle("C06:fixpoint", "%s re-serializing the decoded layer gives %s %s, first %s", k, cls3, n6hex(out3), n6hex(out)))
					}
				}
			}
			if len(o.options()) >= 2 {
				tags["multi-option"] = true
			}
			if len(payload)%2 == 1 {
				tags["odd-payload"] = true
			}
		case "ostr":
			opt := layers.ICMPv6Option{Type: layers.ICMPv6Opt(n6atoi(a[0])), Data: n6unhex(a[1])}
			r := n6render(func() { _ = opt.String() })
			res.Obs = append(res.Obs, "os="+r)
			if r == "panic" {
				res.Oracle = append(res.Oracle, n6oracle("C01:render", "ICMPv6Option{Type:%s,Data:%s}.String() panics", a[0], a[1]))
			}
			tags["option-string"] = true
		default:
			panic("Licmp6: unknown op " + op)
		}
	}
	res.Tags = n6tagset(tags)
	return res
}

// tags computed from the input bytes: extreme option length bytes
func licmp6DataTags(k string, data []byte, tags map[string]bool) {
	if k == "hdr" || k == "echo" {
		return
	}
	off := licmp6HdrLen(k)
	n := 0
	for off+1 < len(data) {
		l := int(data[off+1])
		if l == 0 || l == 255 || off+l*8 > len(data) {
			tags["option-length-extreme"] = true
			break
		}
		off += l * 8
		n++
	}
	if n >= 2 {
		tags["multi-option"] = true
	}
}

// ---------------------------------------------------------------- generators

var licmp6OptTypes = []int{1, 2, 3, 4, 5, 25, 0, 14, 24, 255}

func licmp6RandOpt(rng *rand.Rand) []byte {
	t := licmp6OptTypes[rng.Intn(len(licmp6OptTypes))]
	l8 := n6pick(rng, 1, 1, 1, 2, 2, 3, 4, 5)
	switch t {
	case 3:
		if rng.Intn(3) > 0 {
			l8 = 4
		}
	case 5:
		if rng.Intn(3) > 0 {
			l8 = 1
		}
	case 25:
		l8 = n6pick(rng, 1, 2, 3, 5, 7)
	}
	b := n6randBytes(rng, l8*8)
	b[0], b[1] = byte(t), byte(l8)
	return b
}

func licmp6ValidBody(rng *rand.Rand, k string, nopts int) []byte {
	b := n6randBytes(rng, licmp6HdrLen(k))
	switch k {
	case "rs", "ns", "rd":
		copy(b, []byte{0, 0, 0, 0})
	case "na":
		b[1], b[2], b[3] = 0, 0, 0
	}
	if k == "echo" {
		return append(b, n6randBytes(rng, n6pick(rng, 0, 1, 8, 33))...)
	}
	if k == "hdr" {
		b[0] = byte(n6pick(rng, 128, 129, 133, 134, 135, 136, 137, 130, 131, 132, 143, 1, 2, 3, 4, rng.Intn(256)))
		b[1] = byte(n6pick(rng, 0, 0, 1, 4, rng.Intn(256)))
		return append(b, n6randBytes(rng, n6pick(rng, 0, 1, 4, 7, 20, 21, 24, 33))...)
	}
	for i := 0; i < nopts; i++ {
		b = append(b, licmp6RandOpt(rng)...)
	}
	return b
}

func licmp6RandPH(rng *rand.Rand) string {
	switch rng.Intn(12) {
	case 0:
		return "-"
	case 1:
		return n6hex(n6randBytes(rng, 4)) + "." + n6hex(n6randBytes(rng, 16))
	case 2:
		return n6hex(n6randBytes(rng, 16)) + "."
	}
	return n6hex(n6randBytes(rng, 16)) + "." + n6hex(n6randBytes(rng, 16))
}

func licmp6ValidPH(rng *rand.Rand) string {
	if rng.Intn(4) == 0 {
		return strings.Repeat("ff", 16) + "." + strings.Repeat("ff", 16)
	}
	return n6hex(n6randBytes(rng, 16)) + "." + n6hex(n6randBytes(rng, 16))
}

func licmp6Payload(rng *rand.Rand) []byte {
	n := n6pick(rng, 0, 0, 1, 2, 3, 8, 21, 64, 65, 1451)
	if rng.Intn(8) == 0 {
		b := make([]byte, n)
		for i := range b {
			b[i] = 0xff
		}
		return b
	}
	return n6randBytes(rng, n)
}

func licmp6FieldsNDP(rng *rand.Rand, inRange bool) string {
	tl, dl := 16, 16
	if !inRange {
		tl, dl = n6pick(rng, 0, 4, 15, 16, 17, 40), n6pick(rng, 0, 4, 16, 20)
	}
	var opts []string
	for i, n := 0, rng.Intn(5); i < n; i++ {
		dlen := n6pick(rng, 6, 6, 14, 22, 30)
		if !inRange {
			dlen = n6pick(rng, 0, 1, 5, 6, 7, 14, 2038, 2039, 2046)
		}
		opts = append(opts, fmt.Sprintf("%d~%s", licmp6OptTypes[rng.Intn(len(licmp6OptTypes))], n6hex(n6randBytes(rng, dlen))))
	}
	return fmt.Sprintf("%d.%d.%d.%d.%d.%s.%s.%s", rng.Intn(256), rng.Intn(256), rng.Intn(65536), rng.Uint32(), rng.Uint32(),
		n6hex(n6randBytes(rng, tl)), n6hex(n6randBytes(rng, dl)), strings.Join(opts, "|"))
}

func (licmp6) Gen(rng *rand.Rand, tier string) []Case {
	var out []Case
	add := func(ops ...string) { out = append(out, Case{Prop: "Licmp6", Ops: ops}) }
	scale := 1
	if tier == "thorough" {
		scale = 12
	}
	ndp := []string{"rs", "ra", "ns", "na", "rd", "opts"}
	// seeds from the repository's tests: the ICMPv6 layers of every packet literal
	var seedHdr [][]byte
	seedBody := map[string][][]byte{}
	for _, b := range n6seedLayers(layers.LayerTypeICMPv6) {
		seedHdr = append(seedHdr, b)
		if len(b) >= 4 {
			switch b[0] {
			case 128, 129:
				seedBody["echo"] = append(seedBody["echo"], b[4:])
			case 133:
				seedBody["rs"] = append(seedBody["rs"], b[4:])
			case 134:
				seedBody["ra"] = append(seedBody["ra"], b[4:])
			case 135:
				seedBody["ns"] = append(seedBody["ns"], b[4:])
			case 136:
				seedBody["na"] = append(seedBody["na"], b[4:])
			case 137:
				seedBody["rd"] = append(seedBody["rd"], b[4:])
			}
		}
	}
	for _, b := range seedHdr {
		add("dec:hdr," + n6hex(b))
		add(fmt.Sprintf("rt:hdr,%s,%s,%s", n6hex(b), n6hex(b[min(4, len(b)):]), licmp6ValidPH(rng)))
		for _, cut := range []int{0, 1, 3, 4, 5} {
			if cut < len(b) {
				add("dec:hdr," + n6hex(b[:cut]))
			}
		}
	}
	for _, b := range seedBody["echo"] {
		add("dec:echo," + n6hex(b))
		add(fmt.Sprintf("rt:echo,%s,%s,-", n6hex(b), n6hex(b[min(4, len(b)):])))
		for cut := 0; cut < min(len(b), 6); cut++ {
			add("dec:echo," + n6hex(b[:cut]))
		}
	}
	for _, k := range ndp {
		for _, b := range seedBody[k] {
			add(fmt.Sprintf("dec:%s,%s", k, n6hex(b)))
			add(fmt.Sprintf("rt:%s,%s,,-", k, n6hex(b)))
			for cut := 0; cut < len(b); cut++ { // every truncation length of the real packets
				add(fmt.Sprintf("dec:%s,%s", k, n6hex(b[:cut])))
			}
			for i := licmp6HdrLen(k) + 1; i < len(b); i += 8 { // length bytes to extremes (positions approximate)
				for _, v := range []byte{0, 1, 255, b[i] + 1, b[i] - 1} {
					m := append([]byte(nil), b...)
					m[i] = v
					add(fmt.Sprintf("dec:%s,%s", k, n6hex(m)))
				}
			}
		}
	}
	// harness-built valid messages, their truncations and length-field mutations
	for _, k := range licmp6Kinds {
		for rep := 0; rep < 2*scale; rep++ {
			for nopts := 0; nopts <= 5; nopts++ {
				if (k == "hdr" || k == "echo") && nopts > 1 {
					break
				}
				b := licmp6ValidBody(rng, k, nopts)
				add(fmt.Sprintf("dec:%s,%s", k, n6hex(b)))
				ph := licmp6ValidPH(rng)
				pl := []byte(nil)
				if k == "hdr" || k == "echo" {
					pl = licmp6Payload(rng)
				} else if rng.Intn(6) == 0 {
					pl = licmp6Payload(rng)
				}
				add(fmt.Sprintf("rt:%s,%s,%s,%s", k, n6hex(b), n6hex(pl), ph))
				if rep == 0 {
					step := 1
					if len(b) > 60 {
						step = 3
					}
					for cut := 0; cut < len(b); cut += step {
						add(fmt.Sprintf("dec:%s,%s", k, n6hex(b[:cut])))
					}
				}
				// option length bytes forced to 0, 1, max, off by one
				if k != "hdr" && k != "echo" {
					off := licmp6HdrLen(k)
					for off+1 < len(b) {
						l := int(b[off+1])
						for _, v := range []int{0, 1, 255, l + 1, l - 1} {
							m := append([]byte(nil), b...)
							m[off+1] = byte(v)
							add(fmt.Sprintf("dec:%s,%s", k, n6hex(m)))
							if rng.Intn(4) == 0 {
								add(fmt.Sprintf("ser:%s,%s,%d%d%d,,-", k, n6hex(m), rng.Intn(2), rng.Intn(2), rng.Intn(3)))
							}
						}
						off += l * 8
					}
				}
				// serialization: all option combinations x buffer modes on some, random on the rest
				if rep == 0 {
					for _, fcd := range []string{"000", "110", "111", "112", "011", "101"} {
						add(fmt.Sprintf("ser:%s,%s,%s,%s,%s", k, n6hex(b), fcd, n6hex(licmp6Payload(rng)), licmp6RandPH(rng)))
					}
				} else {
					add(fmt.Sprintf("ser:%s,%s,%d%d%d,%s,%s", k, n6hex(b), rng.Intn(2), rng.Intn(2), rng.Intn(3), n6hex(licmp6Payload(rng)), licmp6RandPH(rng)))
				}
			}
		}
	}
	// reuse: first packet leaves maximal residue (many options), second has fewer / none / fails
	for _, k := range licmp6Kinds {
		for rep := 0; rep < 6*scale; rep++ {
			a := licmp6ValidBody(rng, k, 1+rng.Intn(5))
			var b []byte
			switch rep % 6 {
			case 0:
				b = licmp6ValidBody(rng, k, 0)
			case 1:
				b = licmp6ValidBody(rng, k, 1+rng.Intn(2))
			case 2:
				b = licmp6ValidBody(rng, k, 2)
				b = b[:max(0, len(b)-1-rng.Intn(7))] // second option cut
			case 3:
				b = licmp6ValidBody(rng, k, 0)
				if len(b) > 0 {
					b = b[:rng.Intn(len(b))] // too short: early error, everything stale
				}
			case 4:
				b = append(licmp6ValidBody(rng, k, 1), 1, 0, 0, 0, 0, 0, 0, 0) // zero-length option after one good one
			case 5:
				a2 := licmp6ValidBody(rng, k, 3)
				b, a = a, a2[:min(len(a2), licmp6HdrLen(k)+9)] // first decode fails midway
			}
			add(fmt.Sprintf("dec2:%s,%s,%s", k, n6hex(a), n6hex(b)))
		}
	}
	// values built from public fields
	for _, k := range licmp6Kinds {
		for rep := 0; rep < 8*scale; rep++ {
			if k == "echo" {
				f := fmt.Sprintf("%d.%d", rng.Intn(65536), rng.Intn(65536))
				add(fmt.Sprintf("nrt:echo,%s,-,%s", n6hex(licmp6Payload(rng)), f))
				add(fmt.Sprintf("nser:echo,%d%d%d,%s,-,%s", rng.Intn(2), rng.Intn(2), rng.Intn(3), n6hex(licmp6Payload(rng)), f))
				continue
			}
			if k == "hdr" {
				f := fmt.Sprintf("%d.%d", rng.Intn(65536), rng.Intn(65536))
				add(fmt.Sprintf("nrt:hdr,%s,%s,%s", n6hex(licmp6Payload(rng)), licmp6ValidPH(rng), f))
				add(fmt.Sprintf("nser:hdr,%d%d%d,%s,%s,%s", rng.Intn(2), rng.Intn(2), rng.Intn(3), n6hex(licmp6Payload(rng)), licmp6RandPH(rng), f))
				continue
			}
			add(fmt.Sprintf("nrt:%s,,-,%s", k, licmp6FieldsNDP(rng, true)))
			add(fmt.Sprintf("nser:%s,%d%d%d,%s,-,%s", k, rng.Intn(2), rng.Intn(2), rng.Intn(3), n6hex(licmp6Payload(rng)), licmp6FieldsNDP(rng, rng.Intn(3) == 0)))
			add(fmt.Sprintf("nser:%s,111,,-,%s", k, licmp6FieldsNDP(rng, false)))
		}
	}
	// the all-ones packets: the checksum comes out at the extremes
	for _, n := range []int{0, 1, 2, 36, 37} {
		add(fmt.Sprintf("nrt:hdr,%s,%s,65535.0", strings.Repeat("ff", n), strings.Repeat("ff", 16)+"."+strings.Repeat("ff", 16)))
		add(fmt.Sprintf("nrt:hdr,%s,%s,0.0", strings.Repeat("00", n), strings.Repeat("00", 16)+"."+strings.Repeat("00", 16)))
	}
	// ICMPv6Option.String on every type of interest x data lengths around each bound
	for _, t := range []int{0, 1, 2, 3, 4, 5, 6, 24, 25, 26, 255} {
		for _, n := range []int{0, 1, 2, 5, 6, 7, 13, 14, 21, 22, 23, 29, 30, 31, 38, 54} {
			add(fmt.Sprintf("ostr:%d,%s", t, n6hex(n6randBytes(rng, n))))
		}
	}
	// malformed stream
	for i := 0; i < 150*scale; i++ {
		k := licmp6Kinds[rng.Intn(len(licmp6Kinds))]
		b := n6randBytes(rng, rng.Intn(80))
		if len(b) > licmp6HdrLen(k)+1 && rng.Intn(2) == 0 {
			b[licmp6HdrLen(k)+1] = byte(n6pick(rng, 0, 1, 1, 2, 255))
		}
		add(fmt.Sprintf("dec:%s,%s", k, n6hex(b)))
		if i%3 == 0 {
			add(fmt.Sprintf("ser:%s,%s,%d%d%d,%s,%s", k, n6hex(b), rng.Intn(2), rng.Intn(2), rng.Intn(3), n6hex(licmp6Payload(rng)), licmp6RandPH(rng)))
		}
	}
	// long option lists and a 1500-byte message
	for _, k := range []string{"ra", "opts"} {
		b := licmp6ValidBody(rng, k, 0)
		for len(b) < 1480 {
			b = append(b, licmp6RandOpt(rng)...)
		}
		add(fmt.Sprintf("dec:%s,%s", k, n6hex(b)))
		add(fmt.Sprintf("rt:%s,%s,,-", k, n6hex(b)))
		m := append(licmp6ValidBody(rng, k, 0), 1, 255)
		m = append(m, n6randBytes(rng, 2038)...)
		add(fmt.Sprintf("rt:%s,%s,,-", k, n6hex(m)))
		add(fmt.Sprintf("dec:%s,%s", k, n6hex(m[:len(m)-1])))
	}
	return out
}
