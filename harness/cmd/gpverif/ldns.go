package main

// Ldns: DNS (layers/dns.go): header, questions, resource records, name decompression, per-type
// RDATA, SerializeTo.  One sub-check serving C19, C05, C06, C07, C01.
//
// ops:
//   dec:<hex>                      DecodeFromBytes into a fresh object, render
//   dec2:<hexA>,<hexB>             decode A then B into the same object
//   ser:<hex>,<fcd>,<payload>      decode (may fail: residue), SerializeTo over payload
//   rt:<hex>,<payload>             decode, serialize with fix+csum, decode again
//   nser:<fcd>,<payload>,<value>   SerializeTo of a value built from public fields
//   nrt:<payload>,<value>          round trip of a value built from public fields
// <value>: <hdr>;<questions>;<answers>;<authorities>;<additionals>   (lists joined by |)
//   hdr      = id.qr.op.aa.tc.rd.ra.z.rc.qd.an.ns.ar
//   question = namehex~type~class
//   record   = namehex~type~class~ttl~dlen~datahex~iphex~nshex~cnamehex~ptrhex~txts~txthex~soa~srv~mx~naptr~opt~rrsig~dnskey~svcb~uri
//   txts = n:hex.hex...   soa = mnamehex.rnamehex.serial.refresh.retry.expire.minimum
//   srv = prio.weight.port.namehex   mx = pref.namehex   naptr = order.pref.flagshex.servicehex.regexphex.replhex
//   opt = n:code-datahex.code-datahex   rrsig = covered.alg.labels.ottl.exp.inc.tag.signerhex.sighex
//   dnskey = flags.proto.alg.keyhex   svcb = prio.targethex.n:key-valhex_key-valhex   uri = prio.weight.targethex

import (
	"bufio"
	"encoding/hex"
	"fmt"
	"io"
	"math/rand"
	"net"
	"os"
	"os/exec"
	"path/filepath"
	"runtime/debug"
	"strings"
	"time"

	"github.com/gopacket/gopacket"
	"github.com/gopacket/gopacket/layers"
)

type ldns struct{}

func init() {
	register("Ldns", ldns{})
	commands["ldnscanary"] = ldnsCanaryMain
}

// ---------------------------------------------------------------- protection against unrecoverable crashes
//
// decodeName is recursive; a defect in its recursion guard ends in a fatal "stack overflow", which no
// recover() catches and which would take the whole harness down.  Every byte string is therefore
// decoded FIRST in a long-lived child process (this executable with the sub-command ldnscanary,
// running with a small stack cap).  If the child dies on an input, or does not answer within 10 s,
// the input is recorded as class panic / stuck (oracle C19:panic / C19:stuck) and is never decoded
// in this process; the child is restarted for the next input.

func ldnsCanaryMain(args []string) {
	debug.SetMaxStack(48 << 20)
	in := bufio.NewReaderSize(os.Stdin, 1<<22)
	out := bufio.NewWriter(os.Stdout)
	for {
		line, err := in.ReadString('\n')
		if err != nil {
			return
		}
		if data, derr := hex.DecodeString(strings.TrimSpace(line)); derr == nil {
			func() {
				defer func() { recover() }()
				d := &layers.DNS{}
				if d.DecodeFromBytes(n6clip(data), &n6fb{}) == nil {
					_ = d.SerializeTo(gopacket.NewSerializeBuffer(), gopacket.SerializeOptions{FixLengths: true})
				}
			}()
		}
		out.WriteString("ok\n")
		out.Flush()
	}
}

type ldnsCanaryProc struct {
	cmd *exec.Cmd
	in  io.WriteCloser
	out *bufio.Reader
}

var (
	ldnsCan     *ldnsCanaryProc
	ldnsCanOff  bool
	ldnsVerdict = map[string]string{}
)

func ldnsCanaryStart() *ldnsCanaryProc {
	exe, err := os.Executable()
	if err != nil {
		return nil
	}
	cmd := exec.Command(exe, "ldnscanary")
	in, err1 := cmd.StdinPipe()
	out, err2 := cmd.StdoutPipe()
	if err1 != nil || err2 != nil || cmd.Start() != nil {
		return nil
	}
	return &ldnsCanaryProc{cmd, in, bufio.NewReader(out)}
}

func (c *ldnsCanaryProc) stop() {
	c.in.Close()
	c.cmd.Process.Kill()
	c.cmd.Wait()
}

// ldnsSafe returns "" when decoding data is survivable, else the class to report (panic, stuck).
func ldnsSafe(data []byte) string {
	if ldnsCanOff {
		return ""
	}
	key := string(data)
	if v, ok := ldnsVerdict[key]; ok {
		return v
	}
	if ldnsCan == nil {
		if ldnsCan = ldnsCanaryStart(); ldnsCan == nil {
			ldnsCanOff = true // no child process available: run unprotected
			return ""
		}
	}
	c := ldnsCan
	v := ""
	if _, err := io.WriteString(c.in, hex.EncodeToString(data)+"\n"); err != nil {
		v = "panic"
	} else {
		ch := make(chan error, 1)
		go func() { _, err := c.out.ReadString('\n'); ch <- err }()
		if err, ok := recvBusyAware(ch, 10*time.Second); !ok {
			v = "stuck"
		} else if err != nil {
			v = "panic" // the child died while decoding this input
		}
	}
	if v != "" {
		c.stop()
		ldnsCan = nil
	}
	ldnsVerdict[key] = v
	return v
}

// ldnsDecode = DecodeFromBytes into d under the canary and the in-process watchdog.
func ldnsDecode(d *layers.DNS, data []byte, df gopacket.DecodeFeedback) string {
	if v := ldnsSafe(data); v != "" {
		return v
	}
	return n6decode(func() error { return d.DecodeFromBytes(data, df) })
}

// ---------------------------------------------------------------- canonical printing

func ldnsQ(q *layers.DNSQuestion) string {
	return fmt.Sprintf("%s~%d~%d", n6hex(q.Name), uint16(q.Type), uint16(q.Class))
}

func ldnsTxts(t [][]byte) string {
	p := make([]string, len(t))
	for i, s := range t {
		p[i] = n6hex(s)
	}
	return fmt.Sprintf("%d:%s", len(t), strings.Join(p, "."))
}

func ldnsR(r *layers.DNSResourceRecord) string {
	soa := fmt.Sprintf("%s.%s.%d.%d.%d.%d.%d", n6hex(r.SOA.MName), n6hex(r.SOA.RName), r.SOA.Serial, r.SOA.Refresh, r.SOA.Retry, r.SOA.Expire, r.SOA.Minimum)
	srv := fmt.Sprintf("%d.%d.%d.%s", r.SRV.Priority, r.SRV.Weight, r.SRV.Port, n6hex(r.SRV.Name))
	mx := fmt.Sprintf("%d.%s", r.MX.Preference, n6hex(r.MX.Name))
	naptr := fmt.Sprintf("%d.%d.%s.%s.%s.%s", r.NAPTR.Order, r.NAPTR.Preference, n6hex(r.NAPTR.Flags), n6hex(r.NAPTR.Service), n6hex(r.NAPTR.Regexp), n6hex(r.NAPTR.Replacement))
	opts := make([]string, len(r.OPT))
	for i, o := range r.OPT {
		opts[i] = fmt.Sprintf("%d-%s", uint16(o.Code), n6hex(o.Data))
	}
	g := &r.RRSIG
	rrsig := fmt.Sprintf("%d.%d.%d.%d.%d.%d.%d.%s.%s", uint16(g.TypeCovered), uint8(g.Algorithm), g.Labels, g.OriginalTTL, g.Expiration, g.Inception, g.KeyTag, n6hex(g.SignerName), n6hex(g.Signature))
	dnskey := fmt.Sprintf("%d.%d.%d.%s", uint16(r.DNSKEY.Flags), uint8(r.DNSKEY.Protocol), uint8(r.DNSKEY.Algorithm), n6hex(r.DNSKEY.PublicKey))
	params := make([]string, len(r.SVCB.Params))
	for i, p := range r.SVCB.Params {
		params[i] = fmt.Sprintf("%d-%s", uint16(p.Key), n6hex(p.Value))
	}
	svcb := fmt.Sprintf("%d.%s.%d:%s", r.SVCB.Priority, n6hex(r.SVCB.Target), len(params), strings.Join(params, "_"))
	uri := fmt.Sprintf("%d.%d.%s", r.URI.Priority, r.URI.Weight, n6hex(r.URI.Target))
	return fmt.Sprintf("%s~%d~%d~%d~%d~%s~%s~%s~%s~%s~%s~%s~%s~%s~%s~%s~%d:%s~%s~%s~%s~%s", n6hex(r.Name), uint16(r.Type), uint16(r.Class), r.TTL, r.DataLength,
		n6hex(r.Data), n6hex(r.IP), n6hex(r.NS), n6hex(r.CNAME), n6hex(r.PTR), ldnsTxts(r.TXTs), n6hex(r.TXT), soa, srv, mx,
		naptr, len(opts), strings.Join(opts, "."), rrsig, dnskey, svcb, uri)
}

func ldnsRs(rs []layers.DNSResourceRecord) string {
	p := make([]string, len(rs))
	for i := range rs {
		p[i] = ldnsR(&rs[i])
	}
	return strings.Join(p, "|")
}

func ldnsHdr(d *layers.DNS) string {
	return fmt.Sprintf("%d.%d.%d.%d.%d.%d.%d.%d.%d.%d.%d.%d.%d", d.ID, n6b2i(d.QR), uint8(d.OpCode), n6b2i(d.AA), n6b2i(d.TC), n6b2i(d.RD), n6b2i(d.RA),
		d.Z, uint8(d.ResponseCode), d.QDCount, d.ANCount, d.NSCount, d.ARCount)
}

func ldnsFields(d *layers.DNS) string {
	qs := make([]string, len(d.Questions))
	for i := range d.Questions {
		qs[i] = ldnsQ(&d.Questions[i])
	}
	return fmt.Sprintf("h=%s;q=%s;an=%s;ns=%s;ar=%s", ldnsHdr(d), strings.Join(qs, "|"), ldnsRs(d.Answers), ldnsRs(d.Authorities), ldnsRs(d.Additionals))
}

func ldnsState(d *layers.DNS) string {
	return fmt.Sprintf("%s;c=%d;p=%d;next=%d", ldnsFields(d), len(d.Contents), len(d.LayerPayload()), int(d.NextLayerType()))
}

// fields that survive a decode -> serialize -> decode even when the first message used name
// compression inside RDATA (DataLength and Data describe the wire form, not the value)
func ldnsValueR(r *layers.DNSResourceRecord) string {
	c := *r
	c.DataLength, c.Data = 0, nil
	if c.Type != layers.DNSTypeTXT && c.Type != layers.DNSTypeHINFO && c.Type != layers.DNSTypeA && c.Type != layers.DNSTypeAAAA {
		c.TXT, c.IP = nil, nil
	}
	return ldnsR(&c)
}

func ldnsValue(d *layers.DNS) string {
	var p []string
	p = append(p, ldnsHdr(d))
	for i := range d.Questions {
		p = append(p, ldnsQ(&d.Questions[i]))
	}
	for _, rs := range [][]layers.DNSResourceRecord{d.Answers, d.Authorities, d.Additionals} {
		p = append(p, "/")
		for i := range rs {
			p = append(p, ldnsValueR(&rs[i]))
		}
	}
	return strings.Join(p, "|")
}

func ldnsRender(d *layers.DNS) string {
	return "render=" + n6render(func() {
		_ = gopacket.LayerString(d)
		_ = gopacket.LayerDump(d)
		_ = gopacket.LayerGoString(d)
		for _, rs := range [][]layers.DNSResourceRecord{d.Answers, d.Authorities, d.Additionals} {
			for i := range rs {
				_ = rs[i].String()
				_ = rs[i].SVCB.String()
				_ = rs[i].RRSIG.String()
				_ = rs[i].DNSKEY.String()
				for _, o := range rs[i].OPT {
					_ = o.String()
				}
				_ = rs[i].Type.String() + rs[i].Class.String()
			}
		}
		_ = d.OpCode.String() + d.ResponseCode.String()
	})
}

// ---------------------------------------------------------------- values built from public fields

func ldnsBytes(s string) []byte {
	if s == "" {
		return nil
	}
	return n6unhex(s)
}

func ldnsBuildR(s string) layers.DNSResourceRecord {
	f := strings.Split(s, "~")
	var r layers.DNSResourceRecord
	r.Name = ldnsBytes(f[0])
	r.Type, r.Class = layers.DNSType(n6atoi(f[1])), layers.DNSClass(n6atoi(f[2]))
	r.TTL, r.DataLength = uint32(n6atoi(f[3])), uint16(n6atoi(f[4]))
	r.Data = ldnsBytes(f[5])
	if f[6] != "" {
		r.IP = net.IP(n6unhex(f[6]))
	}
	r.NS, r.CNAME, r.PTR = ldnsBytes(f[7]), ldnsBytes(f[8]), ldnsBytes(f[9])
	cnt, list, _ := strings.Cut(f[10], ":")
	if n := n6atoi(cnt); n > 0 {
		for _, h := range strings.Split(list, ".") {
			r.TXTs = append(r.TXTs, n6unhex(h))
		}
	}
	r.TXT = ldnsBytes(f[11])
	so := strings.Split(f[12], ".")
	r.SOA = layers.DNSSOA{MName: ldnsBytes(so[0]), RName: ldnsBytes(so[1]), Serial: uint32(n6atoi(so[2])), Refresh: uint32(n6atoi(so[3])),
		Retry: uint32(n6atoi(so[4])), Expire: uint32(n6atoi(so[5])), Minimum: uint32(n6atoi(so[6]))}
	sv := strings.Split(f[13], ".")
	r.SRV = layers.DNSSRV{Priority: uint16(n6atoi(sv[0])), Weight: uint16(n6atoi(sv[1])), Port: uint16(n6atoi(sv[2])), Name: ldnsBytes(sv[3])}
	m := strings.Split(f[14], ".")
	r.MX = layers.DNSMX{Preference: uint16(n6atoi(m[0])), Name: ldnsBytes(m[1])}
	if len(f) <= 15 {
		return r
	}
	na := strings.Split(f[15], ".")
	r.NAPTR = layers.DNSNAPTR{Order: uint16(n6atoi(na[0])), Preference: uint16(n6atoi(na[1])), Flags: ldnsBytes(na[2]), Service: ldnsBytes(na[3]),
		Regexp: ldnsBytes(na[4]), Replacement: ldnsBytes(na[5])}
	ocnt, olist, _ := strings.Cut(f[16], ":")
	if n6atoi(ocnt) > 0 {
		for _, o := range strings.Split(olist, ".") {
			c, d, _ := strings.Cut(o, "-")
			r.OPT = append(r.OPT, layers.DNSOPT{Code: layers.DNSOptionCode(n6atoi(c)), Data: n6unhex(d)})
		}
	}
	sg := strings.Split(f[17], ".")
	r.RRSIG = layers.DNSRRSIG{TypeCovered: layers.DNSType(n6atoi(sg[0])), Algorithm: layers.DNSSECAlgorithm(n6atoi(sg[1])), Labels: uint8(n6atoi(sg[2])),
		OriginalTTL: uint32(n6atoi(sg[3])), Expiration: uint32(n6atoi(sg[4])), Inception: uint32(n6atoi(sg[5])), KeyTag: uint16(n6atoi(sg[6])),
		SignerName: ldnsBytes(sg[7]), Signature: ldnsBytes(sg[8])}
	dk := strings.Split(f[18], ".")
	r.DNSKEY = layers.DNSKEY{Flags: layers.DNSKEYFlag(n6atoi(dk[0])), Protocol: layers.DNSKEYProtocol(n6atoi(dk[1])), Algorithm: layers.DNSSECAlgorithm(n6atoi(dk[2])),
		PublicKey: ldnsBytes(dk[3])}
	sb := strings.Split(f[19], ".")
	r.SVCB = layers.DNSSVCB{Priority: uint16(n6atoi(sb[0])), Target: ldnsBytes(sb[1])}
	pcnt, plist, _ := strings.Cut(sb[2], ":")
	if n6atoi(pcnt) > 0 {
		for _, o := range strings.Split(plist, "_") {
			k, v, _ := strings.Cut(o, "-")
			r.SVCB.Params = append(r.SVCB.Params, layers.DNSSvcParam{Key: layers.DNSSvcParamKey(n6atoi(k)), Value: n6unhex(v)})
		}
	}
	u := strings.Split(f[20], ".")
	r.URI = layers.DNSURI{Priority: uint16(n6atoi(u[0])), Weight: uint16(n6atoi(u[1])), Target: ldnsBytes(u[2])}
	return r
}

func ldnsBuildRs(s string) []layers.DNSResourceRecord {
	if s == "" {
		return nil
	}
	var out []layers.DNSResourceRecord
	for _, p := range strings.Split(s, "|") {
		out = append(out, ldnsBuildR(p))
	}
	return out
}

func ldnsBuild(v string) *layers.DNS {
	parts := strings.Split(v, ";")
	h := strings.Split(parts[0], ".")
	d := &layers.DNS{}
	d.ID, d.QR, d.OpCode = uint16(n6atoi(h[0])), h[1] == "1", layers.DNSOpCode(n6atoi(h[2]))
	d.AA, d.TC, d.RD, d.RA = h[3] == "1", h[4] == "1", h[5] == "1", h[6] == "1"
	d.Z, d.ResponseCode = uint8(n6atoi(h[7])), layers.DNSResponseCode(n6atoi(h[8]))
	d.QDCount, d.ANCount, d.NSCount, d.ARCount = uint16(n6atoi(h[9])), uint16(n6atoi(h[10])), uint16(n6atoi(h[11])), uint16(n6atoi(h[12]))
	if parts[1] != "" {
		for _, q := range strings.Split(parts[1], "|") {
			f := strings.Split(q, "~")
			d.Questions = append(d.Questions, layers.DNSQuestion{Name: ldnsBytes(f[0]), Type: layers.DNSType(n6atoi(f[1])), Class: layers.DNSClass(n6atoi(f[2]))})
		}
	}
	d.Answers, d.Authorities, d.Additionals = ldnsBuildRs(parts[2]), ldnsBuildRs(parts[3]), ldnsBuildRs(parts[4])
	return d
}

// ---------------------------------------------------------------- serialization

func ldnsBuffer(mode int, payload []byte) gopacket.SerializeBuffer {
	var b gopacket.SerializeBuffer
	switch mode {
	case 1:
		b = gopacket.NewSerializeBuffer()
		p, _ := b.PrependBytes(len(payload) + 200000)
		for i := range p {
			p[i] = 0xAA
		}
		a, _ := b.AppendBytes(256)
		for i := range a {
			a[i] = 0xAA
		}
		b.Clear()
	case 2:
		b = gopacket.NewSerializeBufferExpectedSize(len(payload)+8192, 64)
	default:
		b = gopacket.NewSerializeBuffer()
	}
	p, _ := b.PrependBytes(len(payload))
	copy(p, payload)
	return b
}

func ldnsSerialize(d *layers.DNS, payload []byte, fix, csum bool, mode int) (cls string, out []byte) {
	b := ldnsBuffer(mode, payload)
	cls = n6call(func() error {
		return d.SerializeTo(b, gopacket.SerializeOptions{FixLengths: fix, ComputeChecksums: csum})
	})
	if cls == "ok" {
		out = n6clip(b.Bytes())
	}
	return
}

func ldnsAfter(d *layers.DNS) string {
	var dl []string
	for _, rs := range [][]layers.DNSResourceRecord{d.Answers, d.Authorities, d.Additionals} {
		for i := range rs {
			dl = append(dl, fmt.Sprint(rs[i].DataLength))
		}
	}
	return fmt.Sprintf("cnt=%d.%d.%d.%d;dl=%s", d.QDCount, d.ANCount, d.NSCount, d.ARCount, strings.Join(dl, "."))
}

// the RDATA types whose encoder exists (DNSResourceRecord.encode); HINFO and unknown types decode
// but do not serialize ("not supported")
var ldnsEncodable = map[layers.DNSType]bool{1: true, 28: true, 2: true, 5: true, 12: true, 6: true, 15: true, 16: true, 33: true,
	35: true, 256: true, 41: true, 46: true, 48: true, 64: true, 65: true}

func ldnsNameFits(n []byte) bool { return len(n)+2 <= 255 }

// ldnsWellFormed: the precondition of C06 for a DECODED value: every record type has an encoder,
// A/AAAA carry an address of the right size, every decompressed name still fits 255 octets.
func ldnsWellFormed(d *layers.DNS) bool {
	for i := range d.Questions {
		if !ldnsNameFits(d.Questions[i].Name) {
			return false
		}
	}
	for _, rs := range [][]layers.DNSResourceRecord{d.Answers, d.Authorities, d.Additionals} {
		for i := range rs {
			r := &rs[i]
			if !ldnsEncodable[r.Type] || !ldnsNameFits(r.Name) {
				return false
			}
			switch r.Type {
			case layers.DNSTypeA:
				if len(r.IP) != 4 {
					return false
				}
			case layers.DNSTypeAAAA:
				if len(r.IP) != 16 {
					return false
				}
			}
			for _, n := range [][]byte{r.NS, r.CNAME, r.PTR, r.SOA.MName, r.SOA.RName, r.SRV.Name, r.MX.Name, r.NAPTR.Replacement, r.RRSIG.SignerName, r.SVCB.Target} {
				if !ldnsNameFits(n) {
					return false
				}
			}
		}
	}
	return true
}

// ---------------------------------------------------------------- Run

func ldnsTagsOf(data []byte, tags map[string]bool) {
	for i := 12; i+1 < len(data); i++ {
		if data[i]&0xc0 == 0xc0 {
			tags["compression-pointer"] = true
			break
		}
	}
}

func (ldns) Run(c Case) Result {
	var res Result
	tags := map[string]bool{}
	for _, op := range c.Ops {
		name, a := n6args(op)
		switch name {
		case "dec":
			data := n6unhex(a[0])
			d := &layers.DNS{}
			df := &n6fb{}
			cls := ldnsDecode(d, data, df)
			rend := ldnsRender(d)
			res.Obs = append(res.Obs, fmt.Sprintf("cls=%s;trunc=%d;%s;%s", cls, n6b2i(df.t), ldnsState(d), rend))
			if cls == "panic" || cls == "stuck" {
				res.Oracle = append(res.Oracle, n6oracle("C19:"+cls, "DNS DecodeFromBytes: %s on %s", cls, n6big(data)))
			}
			if strings.Contains(rend, "panic") {
				res.Oracle = append(res.Oracle, n6oracle("C01:render", "DNS renderer panics after decoding %s", n6big(data)))
			}
			if cls != "panic" && len(data) >= 12 && string(d.Contents) != string(data) {
				res.Oracle = append(res.Oracle, n6oracle("C19:contents", "DNS Contents differ from the input %s", n6big(data)))
			}
			if cls == "err" && df.t {
				tags["truncated-prefix-of-valid"] = true
			}
			if cls == "err" && len(d.Questions)+len(d.Answers)+len(d.Authorities)+len(d.Additionals) > 0 {
				tags["residue-records"] = true
			}
			ldnsTagsOf(data, tags)
			for _, rs := range [][]layers.DNSResourceRecord{d.Answers, d.Authorities, d.Additionals} {
				for i := range rs {
					if rs[i].Type == layers.DNSTypeOPT {
						tags["opt-record"] = true
					}
					if rs[i].DataLength == 0 || rs[i].DataLength > 512 {
						tags["rdlength-extreme"] = true
					}
				}
			}
			for _, t := range a[1:] {
				tags[t] = true
			}
		case "dec2":
			da, db := n6unhex(a[0]), n6unhex(a[1])
			d := &layers.DNS{}
			clsA := ldnsDecode(d, da, &n6fb{})
			if len(d.Questions)+len(d.Answers)+len(d.Authorities)+len(d.Additionals) > 0 {
				tags["residue-records"] = true
			}
			df := &n6fb{}
			cls := ldnsDecode(d, db, df)
			rend := ldnsRender(d)
			res.Obs = append(res.Obs, fmt.Sprintf("cls=%s;trunc=%d;%s;%s", cls, n6b2i(df.t), ldnsState(d), rend))
			fd := &layers.DNS{}
			fdf := &n6fb{}
			fcls := ldnsDecode(fd, n6clip(db), fdf)
			if cls != fcls || df.t != fdf.t || (len(db) >= 12 && ldnsState(d) != ldnsState(fd)) {
				res.Oracle = append(res.Oracle, n6oracle("C05:stale", "DNS after %s (%s): reused %s;%s fresh %s;%s", n6big(da), clsA, cls, ldnsState(d), fcls, ldnsState(fd)))
			}
			if cls == "ok" {
				// the reused object must also serialize like the fresh one (private name metadata)
				c1, o1 := ldnsSerialize(d, nil, true, true, 0)
				c2, o2 := ldnsSerialize(fd, nil, true, true, 0)
				if c1 != c2 || string(o1) != string(o2) {
					res.Oracle = append(res.Oracle, n6oracle("C05:stale", "DNS after %s: reused object serializes to %s %s, fresh to %s %s", n6big(da), c1, n6big(o1), c2, n6big(o2)))
				}
			}
			if cls == "panic" || cls == "stuck" {
				res.Oracle = append(res.Oracle, n6oracle("C19:"+cls, "DNS DecodeFromBytes: %s on %s after %s", cls, n6big(db), n6big(da)))
			}
			if strings.Contains(rend, "panic") {
				res.Oracle = append(res.Oracle, n6oracle("C01:render", "DNS renderer panics after decoding %s then %s", n6big(da), n6big(db)))
			}
			ldnsTagsOf(db, tags)
		case "ser", "nser":
			var fcd string
			var payload []byte
			var mk func() *layers.DNS
			if name == "ser" {
				fcd, payload = a[1], n6payload(a[2])
				data := n6unhex(a[0])
				mk = func() *layers.DNS {
					d := &layers.DNS{}
					ldnsDecode(d, n6clip(data), &n6fb{})
					return d
				}
				if c0 := ldnsDecode(&layers.DNS{}, n6clip(data), &n6fb{}); c0 != "ok" {
					if c0 == "panic" || c0 == "stuck" {
						res.Oracle = append(res.Oracle, n6oracle("C19:"+c0, "DNS DecodeFromBytes: %s on %s", c0, n6big(data)))
					}
					tags["error-residue"] = true
				}
				ldnsTagsOf(data, tags)
			} else {
				fcd, payload = a[0], n6payload(a[1])
				mk = func() *layers.DNS { return ldnsBuild(a[2]) }
				tags["public-fields"] = true
			}
			fix, csum, mode := n6flags(fcd)
			d := mk()
			cls, out := ldnsSerialize(d, payload, fix, csum, mode)
			res.Obs = append(res.Obs, fmt.Sprintf("cls=%s;out=%s;%s", cls, n6hex(out), ldnsAfter(d)))
			if cls == "panic" {
				res.Oracle = append(res.Oracle, n6oracle("C07:panic", "DNS SerializeTo panics: %s", op[:min(len(op), 400)]))
			}
			for m := 0; m < 3; m++ {
				d2 := mk()
				cls2, out2 := ldnsSerialize(d2, payload, fix, csum, m)
				if cls2 != cls || string(out2) != string(out) {
					res.Oracle = append(res.Oracle, n6oracle("C07:junk-dependence", "DNS buffer mode %d gives %s %s, mode %d gives %s %s", mode, cls, n6big(out), m, cls2, n6big(out2)))
					break
				}
				cls3, out3 := ldnsSerialize(d2, payload, fix, csum, m)
				if cls3 != cls2 || string(out3) != string(out2) {
					res.Oracle = append(res.Oracle, n6oracle("C07:repeat", "DNS second SerializeTo gives %s %s, first %s %s", cls3, n6big(out3), cls2, n6big(out2)))
					break
				}
			}
			if mode == 1 {
				tags["dirty-buffer"] = true
			}
			if !fix {
				tags["no-fixlengths"] = true
			}
			if cls == "err" {
				tags["serialize-error"] = true
			}
		case "rt", "nrt":
			var payload []byte
			var d *layers.DNS
			first := "ok"
			if name == "rt" {
				payload = n6payload(a[1])
				d = &layers.DNS{}
				data := n6unhex(a[0])
				first = ldnsDecode(d, data, &n6fb{})
				if first == "panic" || first == "stuck" {
					res.Oracle = append(res.Oracle, n6oracle("C19:"+first, "DNS DecodeFromBytes: %s on %s", first, n6big(data)))
				}
				ldnsTagsOf(data, tags)
			} else {
				payload = n6payload(a[0])
				d = ldnsBuild(a[1])
				tags["public-fields"] = true
			}
			wf := ldnsWellFormed(d)
			before := ldnsValue(d)
			scls, out := ldnsSerialize(d, payload, true, true, 0)
			d2 := &layers.DNS{}
			df2 := &n6fb{}
			cls2 := "err"
			var wire []byte
			if scls == "ok" {
				wire = n6clip(out[:len(out)-len(payload)])
				cls2 = ldnsDecode(d2, wire, df2)
			}
			rend := ldnsRender(d2)
			res.Obs = append(res.Obs, fmt.Sprintf("scls=%s;cls=%s;trunc=%d;%s;%s", scls, cls2, n6b2i(df2.t), ldnsState(d2), rend))
			if scls == "panic" {
				res.Oracle = append(res.Oracle, n6oracle("C07:panic", "DNS SerializeTo panics: %s", op[:min(len(op), 400)]))
			}
			if name == "rt" && first == "ok" && wf && scls == "err" {
				res.Oracle = append(res.Oracle, n6oracle("C06:serialize-error", "DNS SerializeTo fails on a decoded well-formed value: %s", a[0]))
			}
			// C06 is about values in the range of the wire format (ldnsWellFormed = the hypothesis dns_encodable of
			// C06_dns_decoded_roundtrip); e.g. an AAAA record decoded with 4 address bytes serializes (as the
			// IPv4-mapped address, net.IP.To16) but is not such a value.  Model and code are compared on all of them.
			if name == "rt" && first == "ok" && scls == "ok" && wf {
				tags["roundtrip-checked"] = true
				if string(out[len(out)-len(payload):]) != string(payload) {
					res.Oracle = append(res.Oracle, n6oracle("C06:roundtrip", "DNS SerializeTo changed the payload"))
				}
				after := ldnsValue(d2)
				// the serializer stored the counts and DataLengths (FixLengths) in d
				if cls2 != "ok" || df2.t || after != ldnsValue(d) {
					res.Oracle = append(res.Oracle, n6oracle("C06:roundtrip", "DNS %s wrote %s; got %s trunc=%d %s; want %s (before FixLengths %s)", a[0], n6big(wire), cls2, n6b2i(df2.t), after, ldnsValue(d), before))
				} else {
					cls3, out3 := ldnsSerialize(d2, payload, true, true, 0)
					if cls3 != "ok" || string(out3) != string(out) {
						res.Oracle = append(res.Oracle, n6oracle("C06:fixpoint", "DNS re-serializing the decoded layer gives %s %s, first %s", cls3, n6big(out3), n6big(out)))
					} else {
						// second generation: the full state (DataLength, Data included) is now stable
						d3 := &layers.DNS{}
						cls4 := ldnsDecode(d3, n6clip(out3[:len(out3)-len(payload)]), &n6fb{})
						if cls4 != "ok" || ldnsState(d3) != ldnsState(d2) {
							res.Oracle = append(res.Oracle, n6oracle("C06:fixpoint", "DNS second-generation decode differs: %s %s vs %s", cls4, ldnsState(d3), ldnsState(d2)))
						}
					}
				}
			}
		default:
			panic("Ldns: unknown op " + op)
		}
	}
	res.Tags = n6tagset(tags)
	return res
}

// ---------------------------------------------------------------- generators

// message builder: the harness writes the wire format itself
type ldnsMsg struct {
	b     []byte
	names []int // offsets at which a name (or a suffix of one) starts: pointer targets
}

var ldnsWords = []string{"www", "example", "com", "org", "a", "mail", "ns1", "_sip", "_tcp", "xn--bcher-kva", "local", "in-addr", "arpa", "10", "b"}

// style: 0 plain labels + root, 1 ends with a pointer to an earlier name, 2 a label with a literal
// dot or backslash, 3 root only, 4 pointer only, 5 long labels
func (m *ldnsMsg) name(rng *rand.Rand, style int) {
	if (style == 1 || style == 4) && len(m.names) == 0 {
		style = 0
	}
	if style == 3 {
		m.b = append(m.b, 0)
		return
	}
	if style != 4 {
		n := 1 + rng.Intn(3)
		for i := 0; i < n; i++ {
			var l []byte
			switch {
			case style == 2 && (i == 0 || rng.Intn(2) == 0):
				l = []byte(ldnsWords[rng.Intn(len(ldnsWords))] + string([]byte{byte(n6pick(rng, '.', '\\', '.'))}) + ldnsWords[rng.Intn(len(ldnsWords))])
				if rng.Intn(4) == 0 {
					l = append(l, '\\', byte(n6pick(rng, '0', '1', '.', '\\', 'x')), '9', '9')
				}
			case style == 5:
				l = n6randBytes(rng, n6pick(rng, 62, 63, 63, 40))
				for k := range l {
					l[k] = 'a' + l[k]%26
				}
			case rng.Intn(12) == 0:
				l = n6randBytes(rng, 1+rng.Intn(6)) // arbitrary bytes incl. 0, '.', '\\'
			default:
				l = []byte(ldnsWords[rng.Intn(len(ldnsWords))])
			}
			if len(l) > 63 {
				l = l[:63]
			}
			m.names = append(m.names, len(m.b))
			m.b = append(m.b, byte(len(l)))
			m.b = append(m.b, l...)
		}
	}
	if style == 1 || style == 4 {
		t := m.names[rng.Intn(len(m.names))]
		if style == 4 {
			m.names = append(m.names, len(m.b))
		}
		m.b = append(m.b, 0xc0|byte(t>>8), byte(t))
	} else {
		m.b = append(m.b, 0)
	}
}

func (m *ldnsMsg) u16(v int) { m.b = append(m.b, byte(v>>8), byte(v)) }
func (m *ldnsMsg) u32(v uint32) {
	m.b = append(m.b, byte(v>>24), byte(v>>16), byte(v>>8), byte(v))
}

func ldnsStyle(rng *rand.Rand) int { return n6pick(rng, 0, 0, 0, 1, 1, 1, 2, 3, 4, 5) }

var ldnsTypes1 = []int{1, 28, 2, 5, 12, 15, 16, 6, 33, 13, 41, 256, 48, 35, 64, 65, 46}

// rdata of the given type appended at the end of m (names may point backwards)
func (m *ldnsMsg) rdata(rng *rand.Rand, t int) {
	switch t {
	case 1:
		m.b = append(m.b, n6randBytes(rng, 4)...)
	case 28:
		m.b = append(m.b, n6randBytes(rng, 16)...)
	case 2, 5, 12:
		m.name(rng, ldnsStyle(rng))
	case 15:
		m.u16(rng.Intn(65536))
		m.name(rng, ldnsStyle(rng))
	case 16, 13:
		for i, n := 0, 1+rng.Intn(3); i < n; i++ {
			l := n6pick(rng, 0, 1, 5, 20, 255)
			m.b = append(m.b, byte(l))
			m.b = append(m.b, n6randBytes(rng, l)...)
		}
	case 6:
		m.name(rng, ldnsStyle(rng))
		m.name(rng, ldnsStyle(rng))
		m.b = append(m.b, n6randBytes(rng, 20)...)
	case 33:
		m.b = append(m.b, n6randBytes(rng, 6)...)
		m.name(rng, ldnsStyle(rng))
	case 256: // URI
		m.b = append(m.b, n6randBytes(rng, 4+n6pick(rng, 0, 1, 12, 40))...)
	case 41: // OPT: options code, length, data
		for i, n := 0, rng.Intn(4); i < n; i++ {
			l := n6pick(rng, 0, 1, 4, 8, 20)
			m.u16(n6pick(rng, 3, 8, 10, 12, rng.Intn(65536)))
			m.u16(l)
			m.b = append(m.b, n6randBytes(rng, l)...)
		}
	case 48: // DNSKEY
		m.b = append(m.b, n6randBytes(rng, 4+n6pick(rng, 0, 1, 32, 64))...)
	case 35: // NAPTR
		m.b = append(m.b, n6randBytes(rng, 4)...)
		for i := 0; i < 3; i++ {
			l := n6pick(rng, 0, 1, 5, 30)
			m.b = append(m.b, byte(l))
			m.b = append(m.b, n6randBytes(rng, l)...)
		}
		m.name(rng, ldnsStyle(rng))
	case 64, 65: // SVCB, HTTPS
		m.u16(rng.Intn(3))
		m.name(rng, ldnsStyle(rng))
		for i, n := 0, rng.Intn(4); i < n; i++ {
			l := n6pick(rng, 0, 2, 4, 16)
			m.u16(n6pick(rng, 0, 1, 3, 4, 6, rng.Intn(65536)))
			m.u16(l)
			m.b = append(m.b, n6randBytes(rng, l)...)
		}
	case 46: // RRSIG
		m.b = append(m.b, n6randBytes(rng, 18)...)
		m.name(rng, ldnsStyle(rng))
		m.b = append(m.b, n6randBytes(rng, n6pick(rng, 0, 1, 32, 64))...)
	default:
		m.b = append(m.b, n6randBytes(rng, rng.Intn(12))...)
	}
}

// rr appends one record; returns the offset of its RDLENGTH field
func (m *ldnsMsg) rr(rng *rand.Rand, t int) int {
	if t == 41 && rng.Intn(3) != 0 {
		m.b = append(m.b, 0)
	} else {
		m.name(rng, ldnsStyle(rng))
	}
	m.u16(t)
	m.u16(n6pick(rng, 1, 1, 1, 255, 3, 4096, rng.Intn(65536)))
	m.u32(uint32(n6pick(rng, 0, 300, 86400, 0x01000000, 0x17008000, int(rng.Uint32()>>1), int(rng.Uint32()))))
	lenAt := len(m.b)
	m.u16(0)
	m.rdata(rng, t)
	n := len(m.b) - lenAt - 2
	m.b[lenAt], m.b[lenAt+1] = byte(n>>8), byte(n)
	return lenAt
}

type ldnsLayout struct {
	lenAts []int // offsets of the RDLENGTH fields
	qEnd   int
}

// a valid message: header, nq questions, records of the given types split into the three sections
func ldnsValid(rng *rand.Rand, nq int, types []int) ([]byte, ldnsLayout) {
	m := &ldnsMsg{}
	var lay ldnsLayout
	m.u16(rng.Intn(65536))
	m.b = append(m.b, byte(rng.Intn(256))&^0x40, byte(rng.Intn(256)))
	an := 0
	if len(types) > 0 {
		an = rng.Intn(len(types) + 1)
	}
	ns := 0
	if len(types)-an > 0 {
		ns = rng.Intn(len(types) - an + 1)
	}
	m.u16(nq)
	m.u16(an)
	m.u16(ns)
	m.u16(len(types) - an - ns)
	for i := 0; i < nq; i++ {
		m.name(rng, n6pick(rng, 0, 0, 2, 3, 5, 1))
		m.u16(n6pick(rng, 1, 28, 255, 16, rng.Intn(65536)))
		m.u16(n6pick(rng, 1, 1, 255, rng.Intn(65536)))
	}
	lay.qEnd = len(m.b)
	for _, t := range types {
		lay.lenAts = append(lay.lenAts, m.rr(rng, t))
	}
	return m.b, lay
}

func ldnsRandTypes(rng *rand.Rand, n int) []int {
	t := make([]int, n)
	for i := range t {
		if rng.Intn(10) == 0 {
			t[i] = n6pick(rng, 0, 3, 10, 99, 255, 257, 65535) // types without an RDATA decoder
		} else {
			t[i] = ldnsTypes1[rng.Intn(len(ldnsTypes1))]
		}
	}
	return t
}

// types whose RDATA decoder is not in the model (none any more): inputs using them would be kept
// out of the comparison
var ldnsUnmodelled = map[int]bool{}

// ldnsModelled walks the message the way the decoder does (without decompressing) and reports
// whether no record with an unmodelled RDATA type and RDLENGTH > 0 is reached.
func ldnsModelled(data []byte) bool {
	if len(data) < 12 {
		return true
	}
	skip := func(off int) int {
		for off < len(data) {
			b := data[off]
			switch {
			case b == 0:
				return off + 1
			case b&0xc0 == 0xc0:
				return off + 2
			case b&0xc0 != 0:
				return -1
			}
			off += int(b) + 1
		}
		return -1
	}
	off := 12
	qd := int(data[4])<<8 | int(data[5])
	for i := 0; i < qd; i++ {
		off = skip(off)
		if off < 0 || off+4 > len(data) {
			return true
		}
		off += 4
	}
	n := (int(data[6])<<8 | int(data[7])) + (int(data[8])<<8 | int(data[9])) + (int(data[10])<<8 | int(data[11]))
	for i := 0; i < n; i++ {
		off = skip(off)
		if off < 0 || off+10 > len(data) {
			return true
		}
		t := int(data[off])<<8 | int(data[off+1])
		dl := int(data[off+8])<<8 | int(data[off+9])
		if off+10+dl > len(data) {
			return true
		}
		if ldnsUnmodelled[t] {
			return false
		}
		off += 10 + dl
	}
	return true
}

// seeds: the DNS layers of the test-suite's packet literals, and the raw byte literals of
// layers/dns*_test.go taken as DNS messages (and as the UDP payload of an Ethernet/IPv4 frame)
func ldnsSeeds() [][]byte {
	seen := map[string]bool{}
	var out [][]byte
	add := func(b []byte) {
		if len(b) > 0 && len(b) <= 4096 && !seen[string(b)] {
			seen[string(b)] = true
			out = append(out, n6clip(b))
		}
	}
	for _, b := range n6seedLayers(layers.LayerTypeDNS) {
		add(b)
	}
	for _, s := range n6seeds() {
		if ok, _ := filepath.Match("dns*_test.go", s.file); !ok {
			continue
		}
		add(s.data)
		if len(s.data) > 42 && s.data[12] == 8 && s.data[13] == 0 && s.data[14]>>4 == 4 && s.data[23] == 17 {
			ihl := int(s.data[14]&15) * 4
			if len(s.data) > 14+ihl+8 {
				add(s.data[14+ihl+8:])
			}
		}
	}
	return out
}

func ldnsPayload(rng *rand.Rand) string {
	return n6hex(n6randBytes(rng, n6pick(rng, 0, 0, 0, 1, 7)))
}

func ldnsFCD(rng *rand.Rand) string {
	return fmt.Sprintf("%d%d%d", rng.Intn(2), rng.Intn(2), rng.Intn(3))
}

// random presentation-form name for values built from public fields
func ldnsPresName(rng *rand.Rand, inRange bool) string {
	if rng.Intn(8) == 0 {
		return n6pick2(rng, "", "2e")
	}
	var s []byte
	for i, n := 0, 1+rng.Intn(3); i < n; i++ {
		if i > 0 {
			s = append(s, '.')
		}
		s = append(s, ldnsWords[rng.Intn(len(ldnsWords))]...)
		if rng.Intn(5) == 0 {
			s = append(s, []byte(n6pick2(rng, `\.`, `\\`, `\065`, `\255`, `\000`))...)
		}
	}
	if !inRange {
		switch rng.Intn(8) {
		case 0:
			s = append(s, '\\')
		case 1:
			s = append(s, []byte(n6pick2(rng, `\25`, `\256`, `\9a9`, `\x`, `\99`))...)
		case 2:
			s = append(s, []byte("..")...)
		case 3:
			s = append([]byte{'.'}, s...)
		case 4:
			for len(s) < 64+rng.Intn(3) {
				s = append(s, 'x')
			}
		case 5:
			for len(s) < 250+rng.Intn(10) {
				s = append(s, 'y', 'z', '.')
			}
		case 6:
			s = append(s, '.')
		}
	} else if rng.Intn(6) == 0 {
		s = append(s, '.')
	}
	return n6hex(s)
}

func n6pick2(rng *rand.Rand, xs ...string) string { return xs[rng.Intn(len(xs))] }

func ldnsValueRand(rng *rand.Rand, inRange bool) string {
	nm := func() string { return ldnsPresName(rng, inRange || rng.Intn(2) == 0) }
	rec := func() string {
		t := ldnsTypes1[rng.Intn(len(ldnsTypes1))]
		if !inRange && rng.Intn(6) == 0 {
			t = n6pick(rng, 0, 10, 99, 65535)
		}
		if inRange && t == 13 {
			t = 16
		}
		ip := ""
		switch t {
		case 1:
			ip = n6hex(n6randBytes(rng, 4))
			if rng.Intn(4) == 0 {
				ip = "00000000000000000000ffff" + ip
			}
		case 28:
			ip = n6hex(n6randBytes(rng, 16))
		}
		if !inRange && rng.Intn(3) == 0 {
			ip = n6hex(n6randBytes(rng, n6pick(rng, 0, 3, 5, 15, 16, 17, 20)))
		}
		var txts []string
		ntx := 0
		if t == 16 || !inRange && rng.Intn(4) == 0 {
			ntx = 1 + rng.Intn(3)
			for i := 0; i < ntx; i++ {
				l := n6pick(rng, 0, 1, 10, 255)
				if !inRange && rng.Intn(4) == 0 {
					l = n6pick(rng, 256, 300)
				}
				txts = append(txts, n6hex(n6randBytes(rng, l)))
			}
		}
		e := func() string { return "" }
		ns, cn, pt, sm, sr, sv, mxn := e(), e(), e(), e(), e(), e(), e()
		switch t {
		case 2:
			ns = nm()
		case 5:
			cn = nm()
		case 12:
			pt = nm()
		case 6:
			sm, sr = nm(), nm()
		case 33:
			sv = nm()
		case 15:
			mxn = nm()
		}
		hx := func(n int) string { return n6hex(n6randBytes(rng, n)) }
		big := func() int {
			if !inRange && rng.Intn(6) == 0 {
				return n6pick(rng, 256, 300)
			}
			return n6pick(rng, 0, 1, 8, 40, 255)
		}
		nan, sgn, sbt := "", "", ""
		switch t {
		case 35:
			nan = nm()
		case 46:
			sgn = nm()
		case 64, 65:
			sbt = nm()
		}
		var opts, params []string
		if t == 41 || !inRange && rng.Intn(5) == 0 {
			for i, n := 0, rng.Intn(4); i < n; i++ {
				opts = append(opts, fmt.Sprintf("%d-%s", rng.Intn(65536), hx(n6pick(rng, 0, 1, 8, 30))))
			}
		}
		if t == 64 || t == 65 || !inRange && rng.Intn(5) == 0 {
			for i, n := 0, rng.Intn(4); i < n; i++ {
				params = append(params, fmt.Sprintf("%d-%s", rng.Intn(65536), hx(n6pick(rng, 0, 2, 4, 16))))
			}
		}
		naptr := fmt.Sprintf("%d.%d.%s.%s.%s.%s", rng.Intn(65536), rng.Intn(65536), hx(big()), hx(big()), hx(big()), nan)
		rrsig := fmt.Sprintf("%d.%d.%d.%d.%d.%d.%d.%s.%s", rng.Intn(65536), rng.Intn(256), rng.Intn(256), rng.Uint32(), rng.Uint32(), rng.Uint32(), rng.Intn(65536), sgn, hx(n6pick(rng, 0, 1, 64)))
		dnskey := fmt.Sprintf("%d.%d.%d.%s", rng.Intn(65536), rng.Intn(256), rng.Intn(256), hx(n6pick(rng, 0, 1, 32)))
		svcb := fmt.Sprintf("%d.%s.%d:%s", rng.Intn(65536), sbt, len(params), strings.Join(params, "_"))
		uri := fmt.Sprintf("%d.%d.%s", rng.Intn(65536), rng.Intn(65536), hx(n6pick(rng, 0, 1, 20)))
		return fmt.Sprintf("%s~%d~%d~%d~%d~%s~%s~%s~%s~%s~%d:%s~%s~%s.%s.%d.%d.%d.%d.%d~%d.%d.%d.%s~%d.%s~%s~%d:%s~%s~%s~%s~%s", nm(), t, n6pick(rng, 1, 1, 255, rng.Intn(65536)), rng.Uint32(),
			rng.Intn(65536), "", ip, ns, cn, pt, ntx, strings.Join(txts, "."), "", sm, sr, rng.Uint32(), rng.Uint32(), rng.Uint32(), rng.Uint32(), rng.Uint32(),
			rng.Intn(65536), rng.Intn(65536), rng.Intn(65536), sv, rng.Intn(65536), mxn,
			naptr, len(opts), strings.Join(opts, "."), rrsig, dnskey, svcb, uri)
	}
	list := func(n int) string {
		var p []string
		for i := 0; i < n; i++ {
			p = append(p, rec())
		}
		return strings.Join(p, "|")
	}
	var qs []string
	for i, n := 0, rng.Intn(3); i < n; i++ {
		qs = append(qs, fmt.Sprintf("%s~%d~%d", nm(), n6pick(rng, 1, 28, 255, rng.Intn(65536)), n6pick(rng, 1, 255, rng.Intn(65536))))
	}
	op, z, rc := rng.Intn(16), rng.Intn(8), rng.Intn(16)
	if !inRange {
		op, z, rc = rng.Intn(256), rng.Intn(256), rng.Intn(256)
	}
	hdr := fmt.Sprintf("%d.%d.%d.%d.%d.%d.%d.%d.%d.%d.%d.%d.%d", rng.Intn(65536), rng.Intn(2), op, rng.Intn(2), rng.Intn(2), rng.Intn(2), rng.Intn(2), z, rc,
		rng.Intn(4), rng.Intn(4), rng.Intn(4), rng.Intn(4))
	return fmt.Sprintf("%s;%s;%s;%s;%s", hdr, strings.Join(qs, "|"), list(rng.Intn(3)), list(rng.Intn(2)), list(rng.Intn(2)))
}

func (ldns) Gen(rng *rand.Rand, tier string) []Case {
	var out []Case
	add := func(ops ...string) { out = append(out, Case{Prop: "Ldns", Ops: ops}) }
	addDec := func(b []byte, tag string) {
		if !ldnsModelled(b) {
			return
		}
		if tag != "" {
			add("dec:" + n6hex(b) + "," + tag)
		} else {
			add("dec:" + n6hex(b))
		}
	}
	addAll := func(b []byte) {
		if !ldnsModelled(b) {
			return
		}
		add("dec:" + n6hex(b))
		add(fmt.Sprintf("rt:%s,%s", n6hex(b), ldnsPayload(rng)))
		add(fmt.Sprintf("ser:%s,%s,%s", n6hex(b), ldnsFCD(rng), ldnsPayload(rng)))
	}
	scale := 1
	if tier == "thorough" {
		scale = 8
	}
	// ---- seeds from the repository's tests
	seeds := ldnsSeeds()
	for _, b := range seeds {
		addAll(b)
		if ldnsModelled(b) {
			add(fmt.Sprintf("ser:%s,111,", n6hex(b)))
			add(fmt.Sprintf("ser:%s,001,", n6hex(b)))
		}
		step := 1
		if tier != "thorough" {
			step = 1 + len(b)/24
		}
		for cut := 0; cut < len(b); cut += step {
			addDec(b[:cut], "")
		}
		for k := 0; k < 5*scale; k++ {
			m := append([]byte(nil), b...)
			pos := rng.Intn(len(m))
			m[pos] = byte(n6pick(rng, 0, 1, 255, 0xc0, 0x40, 0x80, int(m[pos])^0x80, int(m[pos])+1, rng.Intn(256)))
			addDec(m, "")
			if k%4 == 0 && ldnsModelled(m) {
				add(fmt.Sprintf("ser:%s,%s,%s", n6hex(m), ldnsFCD(rng), ldnsPayload(rng)))
			}
		}
	}
	// ---- valid messages built field by field
	for rep := 0; rep < 45*scale; rep++ {
		b, lay := ldnsValid(rng, rng.Intn(3), ldnsRandTypes(rng, rng.Intn(5)))
		addAll(b)
		if rep%5 == 0 {
			for cut := 0; cut < len(b); cut++ { // every truncation length
				addDec(b[:cut], "")
			}
		}
		// counts forced
		for _, pos := range []int{4, 6, 8, 10} {
			cur := int(b[pos])<<8 | int(b[pos+1])
			for _, v := range []int{0, 1, cur + 1, cur - 1, 65535} {
				if v < 0 {
					continue
				}
				m := append([]byte(nil), b...)
				m[pos], m[pos+1] = byte(v>>8), byte(v)
				addDec(m, "")
				if rng.Intn(6) == 0 && ldnsModelled(m) {
					add(fmt.Sprintf("ser:%s,%s,%s", n6hex(m), ldnsFCD(rng), ldnsPayload(rng)))
				}
			}
		}
		// RDLENGTH forced: 0, 1, max, off by one, exactly the rest of the message (+-1)
		for _, at := range lay.lenAts {
			cur := int(b[at])<<8 | int(b[at+1])
			rest := len(b) - at - 2
			for _, v := range []int{0, 1, 65535, cur + 1, cur - 1, rest, rest + 1, rest - 1, n6pick(rng, 2, 3, 4, 16, 17, 18)} {
				if v < 0 {
					continue
				}
				m := append([]byte(nil), b...)
				m[at], m[at+1] = byte(v>>8), byte(v)
				addDec(m, "rdlength-extreme")
				if rng.Intn(5) == 0 && ldnsModelled(m) {
					add(fmt.Sprintf("ser:%s,%s,%s", n6hex(m), ldnsFCD(rng), ldnsPayload(rng)))
					add(fmt.Sprintf("rt:%s,", n6hex(m)))
				}
			}
		}
	}
	// ---- every type alone with every section, all buffer kinds
	for _, t := range ldnsTypes1 {
		for rep := 0; rep < 3*scale; rep++ {
			b, _ := ldnsValid(rng, 1, []int{t, t})
			addAll(b)
			for _, fcd := range []string{"110", "111", "112", "000", "001"} {
				add(fmt.Sprintf("ser:%s,%s,%s", n6hex(b), fcd, ldnsPayload(rng)))
			}
		}
	}
	// ---- name decompression: pointer targets and loops
	hdr := func(qd, an int) []byte {
		return []byte{0, 1, 0x81, 0x80, byte(qd >> 8), byte(qd), byte(an >> 8), byte(an), 0, 0, 0, 0}
	}
	qtail := []byte{0, 1, 0, 1}
	{
		// pointer to itself, to the header, to the end, one before the end, beyond the end, forward
		for _, tgt := range []int{12, 0, 2, 13, 14, 18, 17, 16, 19, 0x3fff, 11} {
			b := append(hdr(1, 0), 0xc0|byte(tgt>>8), byte(tgt))
			b = append(b, qtail...)
			addDec(b, "pointer-loop")
			addDec(append(append([]byte(nil), b...), 3, 'a', 'b', 'c', 0), "pointer-loop")
			add(fmt.Sprintf("rt:%s,", n6hex(b)))
		}
		// two names pointing at each other
		b := append(hdr(2, 0), 1, 'a', 0xc0, 19, 0, 1, 0, 1, 1, 'b', 0xc0, 12, 0, 1, 0, 1)
		addDec(b, "pointer-loop")
		// chains of pointers of depth 1..: the recursion limit is 255 levels
		for _, depth := range []int{1, 2, 3, 10, 100, 252, 253, 254, 255, 256, 257, 300} {
			// question = root at offset 12; record 1 (type 99) carries the chain as opaque RDATA: link i
			// points at link i-1, the first at the root name; record 2's owner name points at the last
			full := append(hdr(1, 2), 0)
			full = append(full, qtail...)
			full = append(full, 0, 0, 99, 0, 1, 0, 0, 0, 0, 0, 0)
			lenAt := len(full) - 2
			prev := 12
			for i := 0; i < depth; i++ {
				at := len(full)
				if i%2 == 0 {
					full = append(full, 1, byte('a'+i%26))
				}
				full = append(full, 0xc0|byte(prev>>8), byte(prev))
				prev = at
			}
			n := len(full) - lenAt - 2
			full[lenAt], full[lenAt+1] = byte(n>>8), byte(n)
			full = append(full, 0xc0|byte(prev>>8), byte(prev), 0, 1, 0, 1, 0, 0, 0, 1, 0, 4, 1, 2, 3, 4)
			addDec(full, "pointer-loop")
			add(fmt.Sprintf("rt:%s,", n6hex(full)))
		}
		// label lengths 63, 64 (0x40), 0x80, 0xbf; names of total length 254, 255, 256
		for _, l := range []int{62, 63, 64, 0x7f, 0x80, 0xbf} {
			m := append(hdr(1, 0), byte(l))
			for i := 0; i < l&0x3f+(l&0x40); i++ {
				m = append(m, 'x')
			}
			m = append(m, 0)
			m = append(m, qtail...)
			addDec(m, "label-length")
			add(fmt.Sprintf("rt:%s,", n6hex(m)))
		}
		for _, total := range []int{200, 250, 252, 253, 254, 255, 256, 257, 258, 300} {
			m := hdr(1, 0)
			left := total - 1
			for left > 0 {
				l := min(left-1, 40)
				if l <= 0 {
					break
				}
				m = append(m, byte(l))
				for i := 0; i < l; i++ {
					m = append(m, 'n')
				}
				left -= l + 1
			}
			m = append(m, 0)
			m = append(m, qtail...)
			addDec(m, "name-length")
			add(fmt.Sprintf("rt:%s,", n6hex(m)))
			add(fmt.Sprintf("ser:%s,101,", n6hex(m)))
		}
		// a long name reached through a pointer: the decompressed name exceeds 255 octets
		{
			m := hdr(1, 1)
			for i := 0; i < 6; i++ {
				m = append(m, 40)
				for k := 0; k < 40; k++ {
					m = append(m, 'p')
				}
			}
			m = append(m, 0)
			m = append(m, qtail...)
			for i := 0; i < 2; i++ {
				m = append(m, 30)
				for k := 0; k < 30; k++ {
					m = append(m, 'q')
				}
			}
			m = append(m, 0xc0, 12, 0, 1, 0, 1, 0, 0, 0, 1, 0, 4, 9, 9, 9, 9)
			addAll(m)
		}
	}
	// ---- RDATA cut at every length with a CONSISTENT RDLENGTH (the record ends where its RDLENGTH says,
	// the message stays well formed, a further record follows): every internal field boundary of every
	// RDATA decoder — after each fixed field, each length-prefixed string, each name — is reached
	for _, t := range ldnsTypes1 {
		for rep := 0; rep < 2*scale; rep++ {
			m := &ldnsMsg{}
			m.b = append(m.b, hdr(1, 2)...)
			m.name(rng, n6pick(rng, 0, 0, 2))
			m.u16(1)
			m.u16(1)
			lenAt := m.rr(rng, t)
			rdata := append([]byte(nil), m.b[lenAt+2:]...)
			trailer := []byte{0xc0, 12, 0, 1, 0, 1, 0, 0, 0, 5, 0, 4, 10, 0, 0, 1}
			for k := 0; k <= len(rdata); k++ {
				msg := append([]byte(nil), m.b[:lenAt]...)
				msg = append(msg, byte(k>>8), byte(k))
				msg = append(msg, rdata[:k]...)
				msg = append(msg, trailer...)
				add("dec:" + n6hex(msg) + ",rdata-cut-consistent")
				if k%5 == 0 {
					add(fmt.Sprintf("rt:%s,", n6hex(msg)))
				}
				if k == len(rdata) || rng.Intn(12) == 0 {
					add(fmt.Sprintf("ser:%s,%s,", n6hex(msg), ldnsFCD(rng)))
				}
			}
		}
	}
	// ---- pointer cycles of length 1, 2, 3 in owner names and inside RDATA names
	{
		// 3-cycle across three questions
		b := append(hdr(3, 0), 1, 'a', 0xc0, 28, 0, 1, 0, 1, 1, 'b', 0xc0, 12, 0, 1, 0, 1, 1, 'c', 0xc0, 20, 0, 1, 0, 1)
		addDec(b, "pointer-loop")
		add(fmt.Sprintf("rt:%s,", n6hex(b)))
		// an NS record whose RDATA name points at itself / at its own owner name which points at the RDATA
		for _, t := range []int{2, 5, 12, 15, 6, 33, 35, 46, 64} {
			pre := map[int]int{15: 2, 33: 6, 35: 7, 46: 18, 64: 2}[t]
			m := append(hdr(0, 1), 1, 'x', 0, byte(t>>8), byte(t), 0, 1, 0, 0, 0, 1, 0, byte(pre+2))
			rd := len(m)
			m = append(m, make([]byte, pre)...)
			m = append(m, 0xc0|byte((rd+pre)>>8), byte(rd+pre)) // the RDATA name points at itself
			addDec(m, "pointer-loop")
			rd2 := 12 + 2 + 10 + pre
			m2 := append(hdr(0, 1), 0xc0|byte(rd2>>8), byte(rd2), byte(t>>8), byte(t), 0, 1, 0, 0, 0, 1, 0, byte(pre+2)) // owner -> RDATA name
			m2 = append(m2, make([]byte, pre)...)
			m2 = append(m2, 0xc0, 12) // RDATA name -> owner
			addDec(m2, "pointer-loop")
		}
	}
	// ---- labels that need preservation (literal dot / backslash), alone and behind pointers
	for rep := 0; rep < 25*scale; rep++ {
		m := &ldnsMsg{}
		m.b = append(m.b, hdr(1, 2)...)
		m.name(rng, 2)
		m.u16(1)
		m.u16(1)
		m.rr(rng, n6pick(rng, 5, 2, 12, 15, 6, 33))
		m.rr(rng, n6pick(rng, 5, 2, 12, 15, 6, 33, 1))
		addAll(m.b)
		add(fmt.Sprintf("dec:%s,preserved-labels", n6hex(m.b)))
		add(fmt.Sprintf("ser:%s,111,", n6hex(m.b)))
	}
	// ---- reuse: the first message leaves many records; the second has fewer / none / fails
	for rep := 0; rep < 60*scale; rep++ {
		a, _ := ldnsValid(rng, 1+rng.Intn(2), ldnsRandTypes(rng, 2+rng.Intn(4)))
		var b []byte
		switch rep % 7 {
		case 0:
			b, _ = ldnsValid(rng, 0, nil)
		case 1:
			b, _ = ldnsValid(rng, rng.Intn(2), ldnsRandTypes(rng, rng.Intn(3)))
		case 2:
			b, _ = ldnsValid(rng, 1, ldnsRandTypes(rng, 3))
			b = b[:12+rng.Intn(len(b)-12)]
		case 3:
			b = a[:rng.Intn(12)]
		case 4:
			b, _ = ldnsValid(rng, 2, []int{6, 33, 15})
			b = b[:len(b)-1-rng.Intn(5)]
		case 5:
			b, _ = ldnsValid(rng, 1, []int{1})
		case 6:
			b = append([]byte(nil), a...)
			b[7]++ // one answer more than there is
		}
		if ldnsModelled(a) && ldnsModelled(b) {
			add(fmt.Sprintf("dec2:%s,%s", n6hex(a), n6hex(b)))
		}
	}
	for i := 0; i+1 < len(seeds) && i < 40*scale; i++ {
		if ldnsModelled(seeds[i]) && ldnsModelled(seeds[i+1]) {
			add(fmt.Sprintf("dec2:%s,%s", n6hex(seeds[i]), n6hex(seeds[i+1])))
			add(fmt.Sprintf("dec2:%s,%s", n6hex(seeds[i+1]), n6hex(seeds[i])))
		}
	}
	// ---- values built from public fields
	for rep := 0; rep < 120*scale; rep++ {
		add(fmt.Sprintf("nrt:%s,%s", ldnsPayload(rng), ldnsValueRand(rng, true)))
		add(fmt.Sprintf("nser:%s,%s,%s", ldnsFCD(rng), ldnsPayload(rng), ldnsValueRand(rng, rng.Intn(3) == 0)))
	}
	// ---- malformed stream
	for i := 0; i < 200*scale; i++ {
		b := n6randBytes(rng, rng.Intn(80))
		if len(b) >= 12 {
			for _, p := range []int{4, 6, 8, 10} {
				b[p] = 0
				b[p+1] = byte(rng.Intn(3))
			}
		}
		addDec(b, "")
		if i%3 == 0 && ldnsModelled(b) {
			add(fmt.Sprintf("ser:%s,%s,%s", n6hex(b), ldnsFCD(rng), ldnsPayload(rng)))
		}
	}
	// ---- many records
	{
		types := make([]int, 400)
		for i := range types {
			types[i] = ldnsTypes1[i%len(ldnsTypes1)]
		}
		b, _ := ldnsValid(rng, 3, types)
		addAll(b)
	}
	return out
}
