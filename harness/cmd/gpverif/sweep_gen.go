// Sweep, part 3: seeds from the working tree, input generation, sharded execution, witness minimisation.
package main

import (
	"bufio"
	"bytes"
	"encoding/binary"
	"encoding/hex"
	"fmt"
	"io"
	"math/rand"
	"os"
	"path/filepath"
	"runtime"
	"runtime/debug"
	"runtime/pprof"
	"sort"
	"strconv"
	"strings"
	"sync"
	"sync/atomic"
	"syscall"
	"time"

	"github.com/gopacket/gopacket"
	"github.com/gopacket/gopacket/layers"
	"github.com/gopacket/gopacket/pcapgo"

	"gpverif/sweepast"
)

// ---------------------------------------------------------------- seeds

type sweepSeed struct {
	name  string
	data  []byte
	first gopacket.LayerType // known first layer (captures), or -1
}

func sweepSeeds(repo string) (seeds []sweepSeed, notes []string) {
	lits, err := sweepast.TestLiterals(filepath.Join(repo, "layers"))
	if err != nil {
		notes = append(notes, "tie:seeds\tcannot parse layers/*_test.go: "+sweepClean(err.Error()))
	}
	for _, l := range lits {
		seeds = append(seeds, sweepSeed{l.Name, l.Data, -1})
	}
	nl := len(seeds)
	var caps []string
	for _, pat := range []string{"layers/testdata/*.pcap", "layers/testdata/*.pcapng", "pcapgo/tests/*.pcap", "pcapgo/tests/*.pcapng", "pcapgo/tests/*/*.pcapng", "pcapgo/*.pcap", "pcapgo/*.pcapng", "pcap/*.pcap"} {
		m, _ := filepath.Glob(filepath.Join(repo, pat))
		sort.Strings(m)
		caps = append(caps, m...)
	}
	for _, f := range caps {
		func() {
			defer func() { recover() }()
			fh, err := os.Open(f)
			if err != nil {
				return
			}
			defer fh.Close()
			var src interface {
				ReadPacketData() ([]byte, gopacket.CaptureInfo, error)
			}
			var link layers.LinkType
			if strings.HasSuffix(f, ".pcapng") {
				rd, err := pcapgo.NewNgReader(fh, pcapgo.DefaultNgReaderOptions)
				if err != nil {
					return
				}
				src, link = rd, rd.LinkType()
			} else {
				rd, err := pcapgo.NewReader(fh)
				if err != nil {
					return
				}
				src, link = rd, rd.LinkType()
			}
			for i := 0; i < 40; i++ {
				d, _, err := src.ReadPacketData()
				if err != nil {
					return
				}
				if len(d) == 0 || len(d) > 2048 {
					continue
				}
				first := gopacket.LayerType(-1)
				func() {
					defer func() { recover() }()
					first = link.LayerType()
				}()
				seeds = append(seeds, sweepSeed{fmt.Sprintf("%s#%d", filepath.Base(f), i), append([]byte(nil), d...), first})
			}
		}()
	}
	nc := len(seeds) - nl
	fz, _ := filepath.Glob(filepath.Join(repo, "layers/testdata/fuzz/*/*"))
	sort.Strings(fz)
	for _, f := range fz {
		b, err := os.ReadFile(f)
		if err != nil {
			continue
		}
		for _, ln := range strings.Split(string(b), "\n") {
			if strings.HasPrefix(ln, "[]byte(") && strings.HasSuffix(ln, ")") {
				if s, err := strconv.Unquote(ln[7 : len(ln)-1]); err == nil && len(s) > 0 {
					seeds = append(seeds, sweepSeed{"fuzz/" + filepath.Base(f)[:8], []byte(s), -1})
				}
			}
		}
	}
	if nl < 50 {
		notes = append(notes, fmt.Sprintf("tie:seeds\tonly %d byte literals found in layers/*_test.go (expected ~180)", nl))
	}
	_ = nc
	return
}

// seeds whose plain decoding hung while the inputs were being derived (index -> Case)
var sweepPairHangs sync.Map

func sweepNorm(n string) string {
	return strings.Map(func(r rune) rune {
		switch {
		case r >= 'A' && r <= 'Z':
			return r + 32
		case r >= 'a' && r <= 'z', r >= '0' && r <= '9':
			return r
		}
		return -1
	}, n)
}

// sweepNameMatch: seed "diameter_test.go:15" and layer type "Diameter".
func sweepNameMatch(seedName string, lt gopacket.LayerType) bool {
	i := strings.Index(seedName, "_test.go")
	if i < 0 {
		return false
	}
	stem, tn := sweepNorm(seedName[:i]), sweepNorm(lt.String())
	if len(stem) < 3 || len(tn) < 3 {
		return false
	}
	return strings.Contains(tn, stem) || strings.Contains(stem, tn)
}

// sweepPair is an input for one layer type, found inside a seed at the offset where that layer starts.
type sweepPair struct {
	lt    gopacket.LayerType
	data  []byte
	score int // number of layers of the packet it came from (a proxy for "valid")
	src   string
	inner []int // offsets inside data where the seed's inner layers start
}

func sweepPairs(dom *sweepDom, seeds []sweepSeed, perType int) map[gopacket.LayerType][]sweepPair {
	byKey := map[string]*sweepPair{}
	add := func(lt gopacket.LayerType, d []byte, score int, src string, inner []int) {
		if len(d) == 0 {
			return
		}
		k := strconv.Itoa(int(lt)) + ":" + string(d)
		if p, ok := byKey[k]; ok {
			if score > p.score {
				p.score = score
			}
			return
		}
		byKey[k] = &sweepPair{lt, append([]byte(nil), d...), score, src, inner}
	}
	type job struct {
		s     sweepSeed
		first gopacket.LayerType
	}
	var jobs []job
	for _, s := range seeds {
		if s.first >= 0 {
			jobs = append(jobs, job{s, s.first})
			continue
		}
		for _, lt := range dom.registered {
			jobs = append(jobs, job{s, lt})
		}
	}
	type found struct {
		lt    gopacket.LayerType
		d     []byte
		score int
		src   string
		inner []int
	}
	res := make([][]found, len(jobs))
	fin := make([]int32, len(jobs))
	var hungFirst sync.Map
	var nHung int64
	sweepPool(len(jobs),
		func(i int, phase *atomic.Value) {
			j := jobs[i]
			phase.Store("C19:seed-decode:" + j.s.name)
			var fs []found
			func() {
				defer func() { recover() }()
				pk := gopacket.NewPacket(j.s.data, j.first, gopacket.DecodeOptions{DecodeStreamsAsDatagrams: true})
				ls := pk.Layers()
				good := 0
				for _, l := range ls {
					if _, bad := l.(*gopacket.DecodeFailure); !bad {
						good++
					}
				}
				// a literal of X_test.go that decodes cleanly as the layer type named X is taken even when it is a single
				// layer (raw Diameter, sFlow, BFD ... messages); otherwise two layers are required to rule out lenient decoders
				named := pk.ErrorLayer() == nil && good >= 1 && sweepNameMatch(j.s.name, j.first)
				if !(j.s.first >= 0 || named || (pk.ErrorLayer() == nil && good >= 2) || good >= 3) {
					return
				}
				score := good
				if pk.ErrorLayer() == nil {
					score += 10
				}
				if named {
					score += 20
				}
				for li, l := range ls {
					if _, bad := l.(*gopacket.DecodeFailure); bad {
						continue
					}
					d := append(append([]byte(nil), l.LayerContents()...), l.LayerPayload()...)
					// where the following layers start inside d (layers are contiguous: contents, then the next layer)
					var inner []int
					off := len(l.LayerContents())
					for _, m := range ls[li+1:] {
						if _, bad := m.(*gopacket.DecodeFailure); bad || off <= 0 || off >= len(d) || len(inner) >= 6 {
							break
						}
						inner = append(inner, off)
						if len(m.LayerContents()) == 0 {
							break
						}
						off += len(m.LayerContents())
					}
					fs = append(fs, found{l.LayerType(), d, score, j.s.name, inner})
				}
			}()
			if atomic.CompareAndSwapInt32(&fin[i], 0, 1) {
				res[i] = fs
			}
		},
		func(i int) bool {
			_, bad := hungFirst.Load(jobs[i].first)
			return bad || atomic.LoadInt64(&nHung) > 6
		},
		func(i int, phase string, goid int64) {
			// decoding a seed hung: the seed becomes an explicit case so that the main run reports it
			atomic.CompareAndSwapInt32(&fin[i], 0, 1)
			atomic.AddInt64(&nHung, 1)
			hungFirst.Store(jobs[i].first, true)
			sweepPairHangs.Store(i, sweepCase(jobs[i].first, "seedhang", 0x0001, jobs[i].s.data))
		})
	for _, fs := range res {
		for _, f := range fs {
			add(f.lt, f.d, f.score, f.src, f.inner)
		}
	}
	out := map[gopacket.LayerType][]sweepPair{}
	for _, p := range byKey {
		out[p.lt] = append(out[p.lt], *p)
	}
	for lt, ps := range out {
		sort.Slice(ps, func(i, j int) bool {
			if ps[i].score != ps[j].score {
				return ps[i].score > ps[j].score
			}
			if len(ps[i].data) != len(ps[j].data) {
				return len(ps[i].data) < len(ps[j].data)
			}
			return bytes.Compare(ps[i].data, ps[j].data) < 0
		})
		if len(ps) > perType {
			ps = ps[:perType]
		}
		out[lt] = ps
	}
	return out
}

// ---------------------------------------------------------------- generation

func sweepCase(lt gopacket.LayerType, kind string, mask int, data []byte) Case {
	nm := lt.String()
	if pn, ok := sweepDomain().pseudoName[lt]; ok {
		nm = pn
	}
	name := strings.Map(func(r rune) rune {
		if r == ',' || r == ' ' || r == '\t' || r == '/' || r < 33 || r > 126 {
			return '_'
		}
		return r
	}, nm)
	return Case{Prop: "Sweep", Ops: []string{fmt.Sprintf("in:%d,%s/%s,%04x,%s", int(lt), name, kind, mask, hex.EncodeToString(data))}}
}

func sweepMask(rng *rand.Rand, n int) int {
	m := 0
	for i := 0; i < n; i++ {
		m |= 1 << uint(rng.Intn(16))
	}
	return m
}

// sweepLenMutations: "length-like fields extended" - bytes / 16-bit words (either endianness) in the first 64 bytes
// whose value looks like a length or a count of what follows are pushed up and down.
func sweepLenMutations(x []byte) [][]byte {
	var out [][]byte
	L := len(x)
	lim := L
	if lim > 64 {
		lim = 64
	}
	mut := func(f func(b []byte)) {
		y := append([]byte(nil), x...)
		f(y)
		out = append(out, y)
	}
	for i := 0; i < lim; i++ {
		b := int(x[i])
		rest := L - i - 1
		like := b != 0 && (abs(b-rest) <= 8 || abs(b*4-rest) <= 8 || abs(b*8-rest) <= 8 || abs(b-L) <= 8 || abs(b*4-L) <= 4 || b&0x0f*4 == L-rest+i && false)
		if like {
			for _, v := range []int{b + 1, b - 1, b + 8, b * 2, 0xfe} {
				v := v
				if v >= 0 && v <= 255 && v != b {
					mut(func(y []byte) { y[i] = byte(v) })
				}
			}
		}
		if i+1 < L {
			for _, bo := range []binary.ByteOrder{binary.BigEndian, binary.LittleEndian} {
				w := int(bo.Uint16(x[i:]))
				rest := L - i - 2
				if w != 0 && (abs(w-rest) <= 16 || abs(w-L) <= 16 || abs(w*4-rest) <= 8) {
					bo := bo
					for _, v := range []int{w + 1, w - 1, w + 8, w + 256, 0xffff, 0x8000} {
						v := v
						if v >= 0 && v <= 0xffff && v != w {
							mut(func(y []byte) { bo.PutUint16(y[i:], uint16(v)) })
						}
					}
				}
			}
		}
	}
	// low nibble as a header length in words (IPv4 IHL, TCP data offset in the high nibble)
	if L > 0 {
		for _, v := range []byte{x[0]&0xf0 | 0x0f, x[0]&0xf0 | 0x06, x[0]&0x0f | 0xf0} {
			v := v
			if v != x[0] {
				mut(func(y []byte) { y[0] = v })
			}
		}
	}
	if L > 12 {
		for _, v := range []byte{x[12]&0x0f | 0xf0, x[12]&0x0f | 0x60} {
			v := v
			if v != x[12] {
				mut(func(y []byte) { y[12] = v })
			}
		}
	}
	return out
}

// sweepConsistentLen returns x cut or zero-extended to newLen with its length fields made consistent with the
// new extent (changed=false when no field qualified, i.e. the result is a plain truncation/extension).
// A field is 1..4 bytes wide, big- or little-endian, non-zero, and, with L=len(x), delta=newLen-L:
//
//	header fields (every mode): at offset o within 64 bytes of a base b (b = 0 or the start of an inner layer of
//	  the seed) whose value is Lb-c, Lb-(o-b)-c or Lb-(o-b)-w-c for Lb = L-b and c in {0,4,8,12,20};
//	tail fields (mode 1: width >= 2, mode 2: every width): anywhere in the last 1 KiB, whose value is the
//	  distance from s to the end of the input for s in {o+w, o, o-1, o-2, o-4, o-5, o-8}: the length of an
//	  inner TLV / AVP / option that ends exactly where the input ends.
//
// Every qualifying field gets value+delta (skipped when that does not fit); wider fields win over the
// narrower ones they contain.
func sweepConsistentLen(x []byte, inner []int, newLen int, mode int) (y []byte, changed bool) {
	L := len(x)
	delta := newLen - L
	y = make([]byte, newLen)
	copy(y, x)
	lim := L
	if newLen < lim {
		lim = newLen
	}
	done := make([]bool, lim)
	get := func(o, w int, le bool) int {
		v := 0
		for i := 0; i < w; i++ {
			if le {
				v |= int(x[o+i]) << (8 * uint(i))
			} else {
				v = v<<8 | int(x[o+i])
			}
		}
		return v
	}
	put := func(o, w int, le bool, v int) {
		for i := 0; i < w; i++ {
			if le {
				y[o+i] = byte(v >> (8 * uint(i)))
			} else {
				y[o+i] = byte(v >> (8 * uint(w-1-i)))
			}
			done[o+i] = true
		}
		changed = true
	}
	try := func(o, w int, match func(v int) bool) {
		if o < 0 || o+w > lim {
			return
		}
		for i := 0; i < w; i++ {
			if done[o+i] {
				return
			}
		}
		for _, le := range []bool{false, true} {
			if le && w == 1 {
				break
			}
			v := get(o, w, le)
			if v == 0 || !match(v) {
				continue
			}
			nv := v + delta
			if nv < 0 || nv >= 1<<(8*uint(w)) {
				continue
			}
			put(o, w, le, nv)
			return
		}
	}
	consts := []int{0, 4, 8, 12, 20}
	bases := append([]int{0}, inner...)
	for w := 4; w >= 1; w-- {
		for _, b := range bases {
			Lb := L - b
			for o := b; o < b+64; o++ {
				rel := o - b
				try(o, w, func(v int) bool {
					for _, c := range consts {
						if v == Lb-c || v == Lb-rel-c || v == Lb-rel-w-c {
							return true
						}
					}
					return false
				})
			}
		}
		if mode == 0 || (mode == 1 && w < 2) {
			continue
		}
		lo := L - 1024
		if lo < 0 {
			lo = 0
		}
		for o := L - 1; o >= lo; o-- {
			try(o, w, func(v int) bool {
				for _, s := range []int{o + w, o, o - 1, o - 2, o - 4, o - 5, o - 8} {
					if s >= 0 && v == L-s {
						return true
					}
				}
				return false
			})
		}
	}
	return y, changed
}

func abs(a int) int {
	if a < 0 {
		return -a
	}
	return a
}

type sweepBudget struct {
	perType    int     // seed inputs per layer type
	truncAll   int     // truncate at every length up to this, then sparsely
	forceFrac  float64 // fraction of the 64x5 forced-byte mutants kept
	genLen     int     // generated inputs: every length 0..genLen
	genRand    int     // random inputs per length
	wholeFirst float64 // fraction of (seed, registered type) "whole seed as first layer" cases kept
	combos     int     // option sets sampled per mutated input
	lenFrac    float64 // fraction of the length-field mutants kept
	genStep    int     // generated inputs longer than 64 bytes: every genStep-th length
	clFrac     float64 // fraction of the consistent-length cut/extension variants kept (cuts of 1..4 bytes always)
}

func sweepBudgetFor(tier string) sweepBudget {
	if tier == "thorough" {
		return sweepBudget{perType: 40, truncAll: 1 << 20, forceFrac: 1, genLen: 128, genRand: 8, wholeFirst: 1, combos: 3, lenFrac: 1, genStep: 1, clFrac: 1}
	}
	return sweepBudget{perType: 10, truncAll: 160, forceFrac: 0.2, genLen: 128, genRand: 2, wholeFirst: 0.15, combos: 1, lenFrac: 0.6, genStep: 2, clFrac: 0.2}
}

func (sweep) Gen(rng *rand.Rand, tier string) []Case {
	t0 := time.Now()
	lap := func(what string) {
		if os.Getenv("SWEEP_TIMING") != "" {
			fmt.Fprintf(os.Stderr, "sweep: %-10s %6.1fs\n", what, time.Since(t0).Seconds())
		}
	}
	if tier == "thorough" {
		debug.SetGCPercent(100)
	} else {
		debug.SetGCPercent(400)
	}
	if pf := os.Getenv("SWEEP_PROF"); pf != "" {
		if f, err := os.Create(pf); err == nil {
			pprof.StartCPUProfile(f)
			defer pprof.StopCPUProfile()
		}
	}
	dom := sweepDomain()
	seed := rng.Int63()
	bud := sweepBudgetFor(tier)
	seeds, notes := sweepSeeds(dom.repo)
	dom.tie = append(dom.tie, notes...)
	lap("seeds")
	pairs := sweepPairs(dom, seeds, bud.perType)
	lap("pairs")

	cases := []Case{{ID: "Sweep-tie", Prop: "Sweep", Ops: []string{"tie:"}}}
	{
		var hs []Case
		sweepPairHangs.Range(func(_, v interface{}) bool {
			hs = append(hs, v.(Case))
			return true
		})
		sort.Slice(hs, func(i, j int) bool { return hs[i].Ops[0] < hs[j].Ops[0] })
		cases = append(cases, hs...)
	}
	// one shard per registered layer type, each with its own rng derived from the seed
	targets := append(append([]gopacket.LayerType(nil), dom.registered...), dom.pseudo...)
	shards := make([][]Case, len(targets))
	var wg sync.WaitGroup
	sem := make(chan struct{}, runtime.GOMAXPROCS(0))
	for si, lt := range targets {
		wg.Add(1)
		sem <- struct{}{}
		go func(si int, lt gopacket.LayerType) {
			defer wg.Done()
			defer func() { <-sem }()
			r := rand.New(rand.NewSource(seed ^ int64(lt)*0x9E3779B97F4A7C))
			var out []Case
			add := func(kind string, mask int, d []byte) { out = append(out, sweepCase(lt, kind, mask, d)) }
			// (1) inputs found inside the seeds at the offset where this layer starts
			for _, p := range pairs[lt] {
				x := p.data
				if len(x) > 65536 {
					x = x[:65536]
				}
				add("whole", 0xffff, x)
				for n := 0; n < len(x); n++ {
					if n > bud.truncAll && n%16 != 0 && len(x)-n > 8 {
						continue
					}
					add("trunc", sweepMask(r, bud.combos), x[:n])
				}
				lim := len(x)
				if lim > 64 {
					lim = 64
				}
				for i := 0; i < lim; i++ {
					for _, v := range []byte{0x00, 0x01, 0x7f, 0x80, 0xff} {
						if x[i] == v || r.Float64() >= bud.forceFrac {
							continue
						}
						y := append([]byte(nil), x...)
						y[i] = v
						add("force", sweepMask(r, bud.combos), y)
					}
				}
				for _, y := range sweepLenMutations(x) {
					if r.Float64() < bud.lenFrac {
						add("len", sweepMask(r, bud.combos), y)
					}
				}
				// consistent-length truncation / extension: the input is cut (or extended) AND the length fields that
				// described the old extent are rewritten, so that an outer "message length" check does not stop the
				// decoder before it reaches the inner framing (see sweepConsistentLen)
				{
					L := len(x)
					var newLens []int
					for d := 1; d <= 8 && d < L; d++ {
						newLens = append(newLens, L-d)
					}
					for k := 0; k < 3 && L > 10; k++ {
						newLens = append(newLens, 1+r.Intn(L-9))
					}
					for _, d := range []int{1, 2, 3, 4, 8} {
						if L+d <= 65536 {
							newLens = append(newLens, L+d)
						}
					}
					for _, nl := range newLens {
						var prev [][]byte
						for mode := 0; mode < 3; mode++ {
							always := mode == 1 && nl < L && L-nl <= 4
							keep := always || r.Float64() < bud.clFrac
							y, changed := sweepConsistentLen(x, p.inner, nl, mode)
							if !keep || !changed {
								continue
							}
							dup := false
							for _, q := range prev {
								if bytes.Equal(q, y) {
									dup = true
								}
							}
							if dup {
								continue
							}
							prev = append(prev, y)
							add("clcut", sweepMask(r, bud.combos), y)
						}
					}
				}
				// repeat what follows a plausible fixed header: makes multi-chunk / multi-TLV inputs
				for _, k := range []int{2, 4, 8, 12, 16, 20} {
					if k < len(x) && len(x)+len(x)-k <= 65536 {
						add("dup", sweepMask(r, bud.combos), append(append([]byte(nil), x...), x[k:]...))
					}
				}
				add("tail", sweepMask(r, bud.combos), append(append([]byte(nil), x...), 0xff, 0xff, 0xff, 0xff))
				add("tail", sweepMask(r, bud.combos), append(append([]byte(nil), x...), make([]byte, 9)...))
			}
			// (2) every seed whole, as the first layer of this decoder (sampled in the quick tier)
			for _, s := range seeds {
				if lt > -1000 && r.Float64() < bud.wholeFirst {
					add("first", sweepMask(r, bud.combos), s.data)
				}
			}
			// (3) generated inputs: every length, all-zero / all-0xff / incrementing / random
			for n := 0; n <= bud.genLen; n++ {
				if n > 64 && n%bud.genStep != 0 {
					continue
				}
				z := make([]byte, n)
				add("gen", sweepMask(r, bud.combos), z)
				f := bytes.Repeat([]byte{0xff}, n)
				add("gen", sweepMask(r, bud.combos), f)
				inc := make([]byte, n)
				for i := range inc {
					inc[i] = byte(i + 1)
				}
				add("gen", sweepMask(r, bud.combos), inc)
				for k := 0; k < bud.genRand; k++ {
					b := make([]byte, n)
					r.Read(b)
					if k%2 == 1 {
						// small values are more likely to pass version / length checks
						for i := range b {
							b[i] &= 0x0f >> uint(r.Intn(3))
						}
					}
					add("gen", sweepMask(r, bud.combos), b)
				}
			}
			for _, n := range []int{255, 256, 1500, 4096, 65535, 65536} {
				if tier != "thorough" && n > 4096 {
					// the 16-bit boundary, cheaply: offsets kept in a uint16 wrap here
					if n == 65535 {
						add("gen", sweepMask(r, bud.combos), make([]byte, n))
					} else {
						add("gen", sweepMask(r, bud.combos), bytes.Repeat([]byte{0xff}, n))
					}
					continue
				}
				b := make([]byte, n)
				r.Read(b)
				add("gen", sweepMask(r, bud.combos), b)
				add("gen", sweepMask(r, bud.combos), make([]byte, n))
				add("gen", sweepMask(r, bud.combos), bytes.Repeat([]byte{0xff}, n))
			}
			shards[si] = out
		}(si, lt)
	}
	wg.Wait()
	seen := map[string]bool{}
	for si, sh := range shards {
		for _, c := range sh {
			if seen[c.Ops[0]] {
				continue
			}
			seen[c.Ops[0]] = true
			cases = append(cases, c)
		}
		shards[si] = nil
	}
	seen = nil
	for i := range cases {
		if cases[i].ID == "" {
			cases[i].ID = fmt.Sprintf("Sweep-%d-%d", seed&0xffff, i)
		}
	}
	lap("generate")
	if os.Getenv("SWEEP_TIMING") != "" {
		tot := 0
		for _, c := range cases {
			tot += len(c.Ops[0])
		}
		fmt.Fprintf(os.Stderr, "sweep: %d cases, %d MB of op text, %d seeds, %d layer types + %d pseudo\n", len(cases), tot>>20, len(seeds), len(dom.registered), len(dom.pseudo))
	}
	if os.Getenv("SWEEP_DRY") != "" {
		os.Exit(0)
	}
	results := sweepRunAll(cases, tier)
	lap("run")
	if hf := os.Getenv("SWEEP_HEAP"); hf != "" {
		if f, err := os.Create(hf); err == nil {
			runtime.GC()
			pprof.WriteHeapProfile(f)
			f.Close()
		}
	}
	mins := sweepMinimise(cases, results)
	lap("minimise")
	// minimised witnesses first: ./check reports the first failing case per clause
	all := append(mins, cases...)
	sweepWriteSites(all)
	return all
}

// ---------------------------------------------------------------- sharded execution with a watchdog

var (
	sweepCacheMu sync.Mutex
	sweepCache   = map[string]Result{}
)

func sweepCacheGet(c Case) (Result, bool) {
	if len(c.Ops) != 1 {
		return Result{}, false
	}
	sweepCacheMu.Lock()
	defer sweepCacheMu.Unlock()
	r, ok := sweepCache[c.Ops[0]]
	return r, ok
}

type sweepSlot struct {
	state int32 // 0 running, 1 done, 2 abandoned
	idx   int
	start int64
	phase atomic.Value
	goid  int64
	tid   int
	cpu0  time.Duration // CPU time of the worker's OS thread when the current phase was first seen running long
	last  string        // phase at the previous look of the watchdog
	since int64         // when that phase was first seen
}

// A call "hangs" when one phase of a case (one call into gopacket) has kept the worker thread busy for more than
// sweepCPULimit of CPU time (robust against a loaded machine), or has made no progress for sweepWallLimit of
// wall-clock time (blocked).  The biggest inputs (64 KiB decoding into 32 000 layers) need about 1.5 s per call.
const (
	sweepCPULimit  = 5 * time.Second
	sweepWallLimit = 90 * time.Second
)

// sweepThreadCPU reads utime+stime of one thread of this process from /proc (10 ms resolution).
func sweepThreadCPU(tid int) time.Duration {
	b, err := os.ReadFile(fmt.Sprintf("/proc/self/task/%d/stat", tid))
	if err != nil {
		return 0
	}
	s := string(b)
	if i := strings.LastIndex(s, ")"); i >= 0 {
		s = s[i+1:]
	}
	f := strings.Fields(s)
	if len(f) < 13 {
		return 0
	}
	ut, _ := strconv.ParseInt(f[11], 10, 64)
	st, _ := strconv.ParseInt(f[12], 10, 64)
	return time.Duration(ut+st) * 10 * time.Millisecond
}

func sweepOverLimit(tid int, cpu0 time.Duration, start int64, now int64) bool {
	if now-start < int64(sweepCPULimit) {
		return false
	}
	if now-start > int64(sweepWallLimit) {
		return true
	}
	return sweepThreadCPU(tid)-cpu0 > sweepCPULimit
}

// sweepPool runs job(i) for i in [0,n) on GOMAXPROCS worker goroutines, each locked to an OS thread, under the
// hang limits.  A job that exceeds them is abandoned (its goroutine cannot be stopped and keeps spinning): hung(i, phase,
// goroutine id) is called and a replacement worker is started.  skip(i) is asked before each job.
func sweepPool(n int, job func(i int, phase *atomic.Value), skip func(i int) bool, hung func(i int, phase string, goid int64)) {
	var next int64
	nw := runtime.GOMAXPROCS(0)
	var mu sync.Mutex
	live := map[*sweepSlot]bool{}
	var wg sync.WaitGroup
	var worker func()
	worker = func() {
		// wg.Done is called exactly once per worker: here on a normal exit, by the watchdog when it abandons the
		// worker (which may never return)
		runtime.LockOSThread() // so that the thread's CPU time is this worker's
		goid := sweepGoid()
		tid := syscall.Gettid()
		for {
			i := int(atomic.AddInt64(&next, 1) - 1)
			if i >= n {
				wg.Done()
				return
			}
			if skip != nil && skip(i) {
				continue
			}
			sl := &sweepSlot{idx: i, start: time.Now().UnixNano(), goid: goid, tid: tid}
			sl.phase.Store("start")
			mu.Lock()
			live[sl] = true
			mu.Unlock()
			job(i, &sl.phase)
			mu.Lock()
			delete(live, sl)
			mu.Unlock()
			if !atomic.CompareAndSwapInt32(&sl.state, 0, 1) {
				return // abandoned by the watchdog; a replacement worker is already running
			}
		}
	}
	for w := 0; w < nw; w++ {
		wg.Add(1)
		go worker()
	}
	stop := make(chan struct{})
	go func() {
		t := time.NewTicker(100 * time.Millisecond)
		defer t.Stop()
		for {
			select {
			case <-stop:
				return
			case <-t.C:
			}
			now := time.Now().UnixNano()
			var suspects, over []*sweepSlot
			mu.Lock()
			for sl := range live {
				suspects = append(suspects, sl)
			}
			mu.Unlock()
			for _, sl := range suspects {
				ph, _ := sl.phase.Load().(string)
				if ph != sl.last || sl.since == 0 {
					sl.last, sl.since, sl.cpu0 = ph, now, 0
					continue
				}
				if now-sl.since < int64(sweepCPULimit) {
					continue
				}
				if sl.cpu0 == 0 {
					// first time this phase is seen running long: start its CPU account here
					sl.cpu0 = sweepThreadCPU(sl.tid) + 1
					continue
				}
				if sweepOverLimit(sl.tid, sl.cpu0, sl.since, now) {
					over = append(over, sl)
				}
			}
			for _, sl := range over {
				ph, _ := sl.phase.Load().(string)
				if atomic.CompareAndSwapInt32(&sl.state, 0, 2) {
					hung(sl.idx, ph, sl.goid)
					mu.Lock()
					delete(live, sl)
					mu.Unlock()
					wg.Add(1)
					go worker()
					wg.Done() // for the abandoned worker
				}
			}
		}
	}()
	wg.Wait()
	close(stop)
}

func sweepRunAll(cases []Case, tier string) []Result {
	results := make([]Result, len(cases))
	done := make([]int32, len(cases))
	var hungTypes sync.Map
	var nHung, fuse int64
	sweepPool(len(cases),
		func(i int, phase *atomic.Value) {
			res := sweepRunCase(cases[i], phase)
			if atomic.CompareAndSwapInt32(&done[i], 0, 1) {
				results[i] = res
			}
		},
		func(i int) bool {
			// a hung goroutine cannot be stopped and keeps its thread busy: once an input of a layer type has hung,
			// the remaining inputs of that first layer type are skipped (and everything after 12 hangs, or once an
			// abandoned goroutine has allocated more than 6 GiB: a decoder that loops while appending)
			if h := atomic.LoadInt64(&nHung); h > 0 && i%512 == 0 && atomic.LoadInt64(&fuse) == 0 {
				var ms runtime.MemStats
				runtime.ReadMemStats(&ms)
				if ms.HeapAlloc > 6<<30 {
					atomic.StoreInt64(&fuse, 1)
				}
			}
			if lt, _, _, ok := sweepParse(cases[i]); ok {
				if _, bad := hungTypes.Load(lt); bad || atomic.LoadInt64(&nHung) > 12 || atomic.LoadInt64(&fuse) != 0 {
					results[i] = Result{Obs: []string{"skipped-after-hang=1"}, Tags: []string{"skipped-after-hang"}}
					return true
				}
			}
			return false
		},
		func(i int, phase string, goid int64) {
			res := sweepHangResult(cases[i], phase, goid)
			if atomic.CompareAndSwapInt32(&done[i], 0, 1) {
				results[i] = res
			}
			atomic.AddInt64(&nHung, 1)
			if lt, _, _, ok := sweepParse(cases[i]); ok {
				hungTypes.Store(lt, true)
			}
		})
	sweepCacheMu.Lock()
	for i, c := range cases {
		sweepCache[c.Ops[0]] = results[i]
	}
	sweepCacheMu.Unlock()
	return results
}

// ---------------------------------------------------------------- witnesses

func sweepKeyOf(line string) string {
	// clause \t site=...;kind=...;...
	parts := strings.SplitN(line, "\t", 2)
	if len(parts) < 2 {
		return line
	}
	f := strings.Split(parts[1], ";")
	if len(f) >= 3 && strings.HasPrefix(f[2], "src=") {
		return parts[0] + "\t" + f[0] + ";" + f[1] + ";" + f[2]
	}
	if len(f) >= 2 {
		return parts[0] + "\t" + f[0] + ";" + f[1]
	}
	return parts[0] + "\t" + parts[1]
}

type sweepGroup struct {
	key   string
	count int
	best  int // index of the shortest failing case
	blen  int
}

var sweepGroups []*sweepGroup
var sweepMinLines = map[string]string{}

// sweepMinimise: per (clause, site, kind) keep the shortest failing input and minimise it at byte level
// (cut the tail, then zero single bytes), re-running the real case each time.
func sweepMinimise(cases []Case, results []Result) []Case {
	groups := map[string]*sweepGroup{}
	for i, r := range results {
		for _, ol := range r.Oracle {
			k := sweepKeyOf(ol)
			_, _, d, ok := sweepParse(cases[i])
			n := len(d)
			if !ok {
				n = 0
			}
			g := groups[k]
			if g == nil {
				g = &sweepGroup{key: k, best: i, blen: n}
				groups[k] = g
			}
			g.count++
			if n < g.blen {
				g.best, g.blen = i, n
			}
		}
	}
	var gs []*sweepGroup
	for _, g := range groups {
		gs = append(gs, g)
	}
	sort.Slice(gs, func(i, j int) bool { return gs[i].key < gs[j].key })
	sweepGroups = gs
	mins := make([]Case, len(gs))
	var wg sync.WaitGroup
	sem := make(chan struct{}, runtime.GOMAXPROCS(0))
	for gi, g := range gs {
		wg.Add(1)
		sem <- struct{}{}
		go func(gi int, g *sweepGroup) {
			defer wg.Done()
			defer func() { <-sem }()
			c := cases[g.best]
			lt, _, data, ok := sweepParse(c)
			if !ok || strings.Contains(g.key, ":hang\t") {
				// a hanging case is not re-run: every run would leave a spinning thread behind
				mins[gi] = Case{ID: fmt.Sprintf("SweepMin-%d", gi), Prop: "Sweep", Ops: c.Ops}
				return
			}
			kindName := strings.Split(c.Ops[0], ",")[1]
			budget := 400
			fails := func(mask int, d []byte) bool {
				if budget <= 0 {
					return false
				}
				budget--
				cc := sweepCase(lt, "min", mask, d)
				res := (sweep{}).runGuarded(cc)
				for _, ol := range res.Oracle {
					if sweepKeyOf(ol) == g.key {
						return true
					}
				}
				return false
			}
			_ = kindName
			_, mask, _, _ := sweepParse(c)
			// reduce the option mask to a single set when possible
			for b := 0; b < 16; b++ {
				if mask&(1<<uint(b)) != 0 && mask != 1<<uint(b) && fails(1<<uint(b), data) {
					mask = 1 << uint(b)
					break
				}
			}
			cur := append([]byte(nil), data...)
			if fails(mask, cur) {
				// cut the tail: binary then linear
				for step := len(cur) / 2; step >= 1; step /= 2 {
					for len(cur) >= step && fails(mask, cur[:len(cur)-step]) {
						cur = cur[:len(cur)-step]
					}
				}
				// cut the head is not meaningful (the layer starts at 0); zero bytes instead
				for i := 0; i < len(cur) && budget > 0; i++ {
					if cur[i] == 0 {
						continue
					}
					old := cur[i]
					cur[i] = 0
					if !fails(mask, cur) {
						cur[i] = old
					}
				}
			} else {
				cur = data
			}
			mc := sweepCase(lt, "min", mask, cur)
			mc.ID = fmt.Sprintf("SweepMin-%d", gi)
			mins[gi] = mc
		}(gi, g)
	}
	wg.Wait()
	// results of the minimised cases into the cache
	for _, mc := range mins {
		if _, ok := sweepCacheGet(mc); !ok {
			res := (sweep{}).runGuarded(mc)
			sweepCacheMu.Lock()
			sweepCache[mc.Ops[0]] = res
			sweepCacheMu.Unlock()
		}
	}
	for gi, g := range gs {
		sweepMinLines[g.key] = mins[gi].Line()
	}
	return mins
}

// runGuarded runs one case in a goroutine (and OS thread) of its own under the hang limits (no cache).
func (sweep) runGuarded(c Case) Result {
	done := make(chan Result, 1)
	var phase atomic.Value
	phase.Store("start")
	ids := make(chan [2]int64, 1)
	go func() {
		runtime.LockOSThread()
		ids <- [2]int64{sweepGoid(), int64(syscall.Gettid())}
		done <- sweepRunCase(c, &phase)
	}()
	id := <-ids
	since := time.Now().UnixNano()
	cpu0 := sweepThreadCPU(int(id[1]))
	last := "start"
	t := time.NewTicker(50 * time.Millisecond)
	defer t.Stop()
	for {
		select {
		case r := <-done:
			return r
		case <-t.C:
			now := time.Now().UnixNano()
			if ph, _ := phase.Load().(string); ph != last {
				last, since, cpu0 = ph, now, sweepThreadCPU(int(id[1]))
				continue
			}
			if sweepOverLimit(int(id[1]), cpu0, since, now) {
				return sweepHangResult(c, last, id[0])
			}
		}
	}
}

// sweepWriteSites writes <dir>/sweep_sites.tsv (triage aid): clause, site;kind, count, minimised case.
func sweepWriteSites(all []Case) {
	dir := ""
	for i, a := range os.Args {
		if a == "-dir" && i+1 < len(os.Args) {
			dir = os.Args[i+1]
		}
	}
	if dir == "" {
		return
	}
	os.MkdirAll(dir, 0o755)
	f, err := os.Create(filepath.Join(dir, "sweep_sites.tsv"))
	if err != nil {
		return
	}
	defer f.Close()
	w := bufio.NewWriter(f)
	defer w.Flush()
	for _, g := range sweepGroups {
		fmt.Fprintf(w, "%s\t%d\t%s\n", g.key, g.count, sweepMinLines[g.key])
	}
	_ = io.EOF
}
