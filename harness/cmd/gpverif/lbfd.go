package main

// Lbfd: layers/bfd.go codec sub-check (C19, C05, C06, C07, C01 for BFD incl. the authentication section).
// Ops: dec dec2 ser rt (lmisc_common.go) plus
//   new:<ver>.<diag>.<state>.<PFCADM bits>.<mult>.<my>.<your>.<tx>.<rx>.<echo>.<auth>,<fcd>,<payloadhex> and rtn: likewise,
//   <auth> = n (nil) or <type>~<keyid>~<seq>~<datahex>.

import (
	"fmt"
	"math/rand"
	"strings"

	"github.com/gopacket/gopacket"
	"github.com/gopacket/gopacket/layers"
)

type lbfd struct{}

func init() { register("Lbfd", lbfd{}) }

var lbfdDesc = &lmDesc{
	id: "Lbfd", name: "BFD", ser: true,
	fresh: func() gopacket.Layer { return &layers.BFD{} },
	decode: func(l gopacket.Layer, data []byte, fb gopacket.DecodeFeedback) error {
		return l.(*layers.BFD).DecodeFromBytes(data, fb)
	},
	fields: func(l gopacket.Layer) string {
		d := l.(*layers.BFD)
		au := "n"
		if d.AuthHeader != nil {
			au = fmt.Sprintf("%d~%d~%d~%s", uint8(d.AuthHeader.AuthType), uint8(d.AuthHeader.KeyID), uint32(d.AuthHeader.SequenceNumber), lnHex(d.AuthHeader.Data))
		}
		return fmt.Sprintf("v=%d;diag=%d;st=%d;fl=%s%s%s%s%s%s;mult=%d;my=%d;your=%d;tx=%d;rx=%d;echo=%d;auth=%s", uint8(d.Version), uint8(d.Diagnostic), uint8(d.State),
			lnB(d.Poll), lnB(d.Final), lnB(d.ControlPlaneIndependent), lnB(d.AuthPresent), lnB(d.Demand), lnB(d.Multipoint), uint8(d.DetectMultiplier),
			uint32(d.MyDiscriminator), uint32(d.YourDiscriminator), uint32(d.DesiredMinTxInterval), uint32(d.RequiredMinRxInterval), uint32(d.RequiredMinEchoRxInterval), au)
	},
	next: func(l gopacket.Layer, _ *lmBuilder) string {
		if t := l.(*layers.BFD).NextLayerType(); t != gopacket.LayerTypeZero {
			return fmt.Sprintf("other%d", t)
		}
		return "zero"
	},
	fromSpec: func(spec string) gopacket.Layer {
		f := strings.Split(spec, ".")
		d := &layers.BFD{Version: layers.BFDVersion(lnAtoi(f[0])), Diagnostic: layers.BFDDiagnostic(lnAtoi(f[1])), State: layers.BFDState(lnAtoi(f[2])),
			Poll: f[3][0] == '1', Final: f[3][1] == '1', ControlPlaneIndependent: f[3][2] == '1', AuthPresent: f[3][3] == '1', Demand: f[3][4] == '1', Multipoint: f[3][5] == '1',
			DetectMultiplier: layers.BFDDetectMultiplier(lnAtoi(f[4])), MyDiscriminator: layers.BFDDiscriminator(lnAtoi(f[5])), YourDiscriminator: layers.BFDDiscriminator(lnAtoi(f[6])),
			DesiredMinTxInterval: layers.BFDTimeInterval(lnAtoi(f[7])), RequiredMinRxInterval: layers.BFDTimeInterval(lnAtoi(f[8])), RequiredMinEchoRxInterval: layers.BFDTimeInterval(lnAtoi(f[9]))}
		if f[10] != "n" {
			q := strings.Split(f[10], "~")
			d.AuthHeader = &layers.BFDAuthHeader{AuthType: layers.BFDAuthType(lnAtoi(q[0])), KeyID: layers.BFDAuthKeyID(lnAtoi(q[1])), SequenceNumber: layers.BFDAuthSequenceNumber(lnAtoi(q[2])), Data: lnUnhex(q[3])}
		}
		return d
	},
	// C06 hypothesis: 3-bit version, 5-bit diagnostic, 2-bit state; an authentication header exactly when the A bit is set,
	// of a known type; whole packet below 256 octets; nothing under the layer (the length octet covers the packet; the auth
	// section is appended behind the buffer's content)
	inDomain: func(l gopacket.Layer, payload []byte) bool {
		d := l.(*layers.BFD)
		if d.Version > 7 || d.Diagnostic > 31 || d.State > 3 || len(payload) != 0 {
			return false
		}
		if d.AuthHeader != nil {
			t := d.AuthHeader.AuthType
			return d.AuthPresent && t >= 1 && t <= 5 && d.Length() < 256
		}
		return true
	},
	rtPayload: func(l gopacket.Layer, payload []byte) []byte { return nil },
	extra: func(l gopacket.Layer) []func() {
		d := l.(*layers.BFD)
		return []func(){func() {
			_ = d.Payload()
			_ = d.Length()
			_, _, _ = d.Diagnostic.String(), d.State.String(), d.Version
			if d.AuthHeader != nil {
				_ = d.AuthHeader.AuthType.String()
				_ = d.AuthHeader.Length()
			}
		}}
	},
	tags: func(l gopacket.Layer, cls string, data []byte) []string {
		d := l.(*layers.BFD)
		var t []string
		if cls == "ok" && d.AuthHeader != nil {
			t = append(t, fmt.Sprintf("auth-type-%d", minInt(int(d.AuthHeader.AuthType), 6)))
		}
		if cls == "ok" && d.AuthPresent && d.AuthHeader == nil {
			t = append(t, "auth-bit-without-section")
		}
		if cls == "err" && len(data) >= 24 && int(data[3]) == len(data) {
			t = append(t, "error-after-fields-set")
		}
		return t
	},
}

func minInt(a, b int) int {
	if a < b {
		return a
	}
	return b
}

func (lbfd) Run(c Case) Result { return lmRun(lbfdDesc, c) }

// bfdBuild: control packet with the given flags octet and authentication section bytes; lenDelta is added to the length octet.
func bfdBuild(rng *rand.Rand, flags byte, auth []byte, lenDelta int) []byte {
	h := make([]byte, 24)
	h[0] = byte(lnPick(rng, 0x20, 0x21, 0x3f, 0x00, 0xff, rng.Intn(256)))
	h[1] = flags
	h[2] = byte(lnPick(rng, 3, 0, 1, 255))
	h[3] = byte(24 + len(auth) + lenDelta)
	for i := 4; i < 24; i += 4 {
		lmPut32(h[i:], uint32(lnPick(rng, 0, 1, 1000000, 1<<32-1, rng.Int())))
	}
	return append(h, auth...)
}

func bfdAuth(rng *rand.Rand, t int, dataLen int) []byte {
	a := []byte{byte(t), 0, byte(rng.Intn(256))}
	if t >= 2 && t <= 5 {
		a = append(a, 0)
		a = append(a, lnRandBytes(rng, 4)...)
	}
	a = append(a, lnRandBytes(rng, dataLen)...)
	a[1] = byte(len(a))
	return a
}

func (lbfd) Gen(rng *rand.Rand, tier string) []Case {
	valid := func(rng *rand.Rand) []byte {
		fl := byte(lnPick(rng, 0xc0, 0x48, 0x20, 0x00, 0xff, rng.Intn(256)))
		switch rng.Intn(3) {
		case 0:
			return bfdBuild(rng, fl&^4, nil, 0)
		case 1:
			t := lnPick(rng, 1, 2, 3, 4, 5)
			return bfdBuild(rng, fl|4, bfdAuth(rng, t, lnPick(rng, 0, 1, 16, 20)), 0)
		}
		return bfdBuild(rng, fl, lnRandBytes(rng, lnPick(rng, 0, 1, 2, 3, 4, 7, 8, 9)), 0)
	}
	g := lmGenCfg{
		valid:   valid,
		hdrLen:  func(p []byte) int { return len(p) },
		residue: func(rng *rand.Rand) []byte { return bfdBuild(rng, 0xc4, bfdAuth(rng, lnPick(rng, 1, 2, 4), 16), 0) },
		spec: func(rng *rand.Rand) string {
			au := "n"
			if rng.Intn(3) != 0 {
				au = fmt.Sprintf("%d~%d~%d~%s", lnPick(rng, 1, 2, 3, 4, 5, 0, 6, 255), rng.Intn(256), lnPick(rng, 0, 1, 1<<32-1), lnHex(lnRandBytes(rng, lnPick(rng, 0, 1, 16, 20, 223, 224, 228, 229, 240))))
			}
			return fmt.Sprintf("%d.%d.%d.%s.%d.%d.%d.%d.%d.%d.%s", lnPick(rng, 1, 0, 7, 8, 255), lnPick(rng, 0, 1, 31, 32, 255), lnPick(rng, 0, 3, 4, 255),
				fmt.Sprintf("%d%d%d%d%d%d", rng.Intn(2), rng.Intn(2), rng.Intn(2), lnPick(rng, 1, 1, 0), rng.Intn(2), rng.Intn(2)), lnPick(rng, 3, 0, 255),
				lnPick(rng, 0, 1, 1<<32-1), lnPick(rng, 0, 1, 1<<32-1), lnPick(rng, 0, 1000000, 1<<32-1), lnPick(rng, 0, 1000000, 1<<32-1), lnPick(rng, 0, 1<<32-1), au)
		},
		seeds: append(lmUDPSeeds(3784), lmUDPSeeds(4784)...),
		extra: func(rng *rand.Rand, add func(ops ...string)) {
			for b := 0; b < 256; b++ { // every first octet and every flags octet (without and with a password section)
				p := bfdBuild(rng, byte(b)&^4, nil, 0)
				p[0] = byte(b)
				add("tag:octet-every-value", "dec:"+lnHex(p))
				q := bfdBuild(rng, byte(b), bfdAuth(rng, 1, 4), 0)
				add("tag:octet-every-value", "dec:"+lnHex(q))
				if b%4 == 0 {
					add("tag:octet-every-value", "rt:"+lnHex(q)+",")
				}
			}
			// authentication section: every type 0..7 and 255 x section lengths 0..9 (the sequence number needs 8), A bit set / clear
			for _, t := range []int{0, 1, 2, 3, 4, 5, 6, 7, 255} {
				for n := 0; n <= 9; n++ {
					sec := lnRandBytes(rng, n)
					if n > 0 {
						sec[0] = byte(t)
					}
					for _, fl := range []byte{0xc4, 0xc0} {
						p := bfdBuild(rng, fl, sec, 0)
						add("tag:auth-section-extreme", "dec:"+lnHex(p))
						add("tag:auth-section-extreme", "dec2:"+lnHex(bfdBuild(rng, 0xc4, bfdAuth(rng, 2, 16), 0))+","+lnHex(p))
						add("tag:auth-section-extreme", "ser:"+lnHex(p)+","+lnFCD[rng.Intn(len(lnFCD))]+",")
						add("tag:auth-section-extreme", "rt:"+lnHex(p)+",")
					}
				}
			}
			// the length octet against the octets present
			for _, d := range []int{-24, -1, 1, 2, 100} {
				p := bfdBuild(rng, 0xc0, nil, d)
				add("tag:length-extreme", "dec:"+lnHex(p))
				add("tag:length-extreme", "dec2:"+lnHex(bfdBuild(rng, 0xc4, bfdAuth(rng, 1, 8), 0))+","+lnHex(p))
			}
			big := bfdBuild(rng, 0xc4, bfdAuth(rng, 1, 228), 0) // 255 octets
			add("tag:length-extreme", "dec:"+lnHex(big))
			add("tag:length-extreme", "rt:"+lnHex(big)+",")
			add("tag:length-extreme", "dec:"+lnHex(append(big, 0))) // 256 octets: the length octet cannot say so
		},
	}
	return lmGen(lbfdDesc, g, rng, tier)
}
