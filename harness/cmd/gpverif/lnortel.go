package main

// Lnortel: layers/ndp.go Nortel Discovery decoder sub-check (C19, C01; decoder function only).  Ops: dec.

import (
	"fmt"
	"math/rand"

	"github.com/gopacket/gopacket"
	"github.com/gopacket/gopacket/layers"
)

type lnortel struct{}

func init() { register("Lnortel", lnortel{}) }

var lnortelDesc = &lmDesc{
	id: "Lnortel", name: "NortelDiscovery",
	fresh:    func() gopacket.Layer { return &layers.NortelDiscovery{} },
	decodeFn: func(data []byte, b *lmBuilder) error { return layers.LayerTypeNortelDiscovery.Decode(data, b) },
	fields: func(l gopacket.Layer) string {
		n := l.(*layers.NortelDiscovery)
		return fmt.Sprintf("ip=%s;seg=%s;ch=%d;bp=%d;st=%d;nl=%d", lnHex(n.IPAddress), lnHex(n.SegmentID), uint8(n.Chassis), uint8(n.Backplane), uint8(n.State), n.NumLinks)
	},
	next: func(l gopacket.Layer, b *lmBuilder) string {
		if b == nil || !b.nextSet {
			return "none"
		}
		return fmt.Sprintf("other%T", b.next)
	},
	extra: func(l gopacket.Layer) []func() {
		n := l.(*layers.NortelDiscovery)
		return []func(){func() { _, _, _ = n.Chassis.String(), n.Backplane.String(), n.State.String() }}
	},
}

func (lnortel) Run(c Case) Result { return lmRun(lnortelDesc, c) }
func (lnortel) Gen(rng *rand.Rand, tier string) []Case {
	return lmGen(lnortelDesc, lmGenCfg{valid: lmHdrGen(11), hdrLen: func([]byte) int { return 11 }, extra: lmEveryOctet(lnortelDesc, 11, []int{7, 8, 9, 10}, false)}, rng, tier)
}
