//go:build cgo

package main

// Support oracle for C14pcap (testing only, not modelled): the same file read through libpcap
// (package pcap, cgo) must give the same packets.  Used on whole files inside the property's
// hypotheses, with 1 <= snaplen <= 262144 (libpcap replaces other values) and seconds < 2^31
// (older libpcap versions read tv_sec as a signed 32-bit value).

import (
	"fmt"
	"io"
	"os"
	"path/filepath"

	"github.com/gopacket/gopacket/pcap"
)

func init() { c14LibpcapRead = c14ReadWithLibpcap }

func c14ReadWithLibpcap(file []byte, maxPkts int) ([]pcRes, error) {
	dir := filepath.Join("work", "tmp")
	if err := os.MkdirAll(dir, 0o755); err != nil {
		dir = os.TempDir()
	}
	f, err := os.CreateTemp(dir, "c14-*.pcap")
	if err != nil {
		return nil, err
	}
	name := f.Name()
	defer os.Remove(name)
	if _, err := f.Write(file); err != nil {
		f.Close()
		return nil, err
	}
	f.Close()
	h, err := pcap.OpenOffline(name)
	if err != nil {
		return nil, fmt.Errorf("OpenOffline: %v", err)
	}
	defer h.Close()
	var out []pcRes
	for i := 0; i <= maxPkts; i++ {
		data, ci, err := h.ReadPacketData()
		if err == io.EOF {
			out = append(out, pcRes{cls: "eof"})
			return out, nil
		}
		if err != nil {
			out = append(out, pcRes{cls: "err", detail: err.Error()})
			return out, nil
		}
		out = append(out, pcRes{cls: "ok", sec: ci.Timestamp.Unix(), nsec: int64(ci.Timestamp.Nanosecond()),
			caplen: ci.CaptureLength, length: ci.Length, data: append([]byte(nil), data...)})
	}
	return out, nil
}
