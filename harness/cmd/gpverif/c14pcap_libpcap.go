//go:build cgo

package main

// Support oracle for C14pcap (testing only, not modelled): the same file read through libpcap
// (package pcap, cgo) must give the same packets.  Used on whole files inside the property's
// hypotheses, with 1 <= snaplen <= 262144 (libpcap replaces other values) and seconds < 2^31
// (older libpcap versions read tv_sec as a signed 32-bit value).

import (
	"fmt"
	"io"
	"os"
	"path/filepath"

	"github.com/gopacket/gopacket/pcap"
)

func init() { c14LibpcapRead = c14ReadWithLibpcap }

func c14ReadWithLibpcap(file []byte, maxPkts int) ([]pcRes, error) {
	dir := filepath.Join("work", "tmp")
	if err := os.MkdirAll(dir, 0o755); err != nil {
		dir = os.TempDir()
	}
	f, err := os.CreateTemp(dir, "c14-*.pcap")
	if err != nil {
		return nil, err
	}
	name := f.Name()
	defer os.Remove(name)
	if _, err := f.Write(file); err != nil {
		f.Close()
		return nil, err
	}
	f.Close()
	h, err := pcap.OpenOffline(name)
	if err != nil {
		return nil, fmt.Errorf("OpenOffline: %v", err)
	}
	out := c14DrainHandle(h, maxPkts)
	h.Close()
	// the same file through the other offline entry point (an *os.File handed to libpcap)
	if of, err := os.Open(name); err == nil {
		c14KeptFiles = append(c14KeptFiles, of) // libpcap's fclose owns the descriptor from here on: never let Go close it
		h2, err := pcap.OpenOfflineFile(of)
		if err != nil {
			return nil, fmt.Errorf("OpenOfflineFile: %v", err)
		}
		out2 := c14DrainHandle(h2, maxPkts)
		h2.Close()
		if !c14SameRes(out, out2) {
			return out2, nil
		}
	}
	return out, nil
}

var c14KeptFiles []*os.File

func c14SameRes(a, b []pcRes) bool {
	if len(a) != len(b) {
		return false
	}
	for i := range a {
		x, y := a[i], b[i]
		if x.cls != y.cls || x.sec != y.sec || x.nsec != y.nsec || x.caplen != y.caplen || x.length != y.length || string(x.data) != string(y.data) {
			return false
		}
	}
	return true
}

func c14DrainHandle(h *pcap.Handle, maxPkts int) []pcRes {
	var out []pcRes
	for i := 0; i <= maxPkts; i++ {
		data, ci, err := h.ReadPacketData()
		if err == io.EOF {
			return append(out, pcRes{cls: "eof"})
		}
		if err != nil {
			return append(out, pcRes{cls: "err", detail: err.Error()})
		}
		out = append(out, pcRes{cls: "ok", sec: ci.Timestamp.Unix(), nsec: int64(ci.Timestamp.Nanosecond()),
			caplen: ci.CaptureLength, length: ci.Length, data: append([]byte(nil), data...)})
	}
	return out
}
