package main

// Larp: layers/arp.go codec sub-check (C19, C05, C06, C07, C01 for ARP).
// Ops: dec dec2 ser rt (lmisc_common.go) plus
//   new:<addrtype>.<proto>.<hwsize>.<protsize>.<op>.<shw>.<sprot>.<dhw>.<dprot>,<fcd>,<payloadhex>  and rtn: likewise
//   (addresses in hex, "-" = nil)

import (
	"fmt"
	"math/rand"
	"strings"

	"github.com/gopacket/gopacket"
	"github.com/gopacket/gopacket/layers"
)

type larp struct{}

func init() { register("Larp", larp{}) }

func lmHexOrDash(s string) []byte {
	if s == "-" {
		return nil
	}
	return lnUnhex(s)
}

var larpDesc = &lmDesc{
	id: "Larp", name: "ARP", ser: true,
	fresh: func() gopacket.Layer { return &layers.ARP{} },
	decode: func(l gopacket.Layer, data []byte, fb gopacket.DecodeFeedback) error {
		return l.(*layers.ARP).DecodeFromBytes(data, fb)
	},
	fields: func(l gopacket.Layer) string {
		a := l.(*layers.ARP)
		return fmt.Sprintf("at=%d;pr=%d;hs=%d;ps=%d;op=%d;shw=%s;sp=%s;dhw=%s;dp=%s", uint16(a.AddrType), uint16(a.Protocol),
			a.HwAddressSize, a.ProtAddressSize, a.Operation, lnHex(a.SourceHwAddress), lnHex(a.SourceProtAddress), lnHex(a.DstHwAddress), lnHex(a.DstProtAddress))
	},
	next: func(l gopacket.Layer, _ *lmBuilder) string {
		if t := l.(*layers.ARP).NextLayerType(); t != gopacket.LayerTypePayload {
			return fmt.Sprintf("other%d", t)
		}
		return "payload"
	},
	fromSpec: func(spec string) gopacket.Layer {
		f := strings.Split(spec, ".")
		return &layers.ARP{AddrType: layers.LinkType(lnAtoi(f[0])), Protocol: layers.EthernetType(lnAtoi(f[1])),
			HwAddressSize: uint8(lnAtoi(f[2])), ProtAddressSize: uint8(lnAtoi(f[3])), Operation: uint16(lnAtoi(f[4])),
			SourceHwAddress: lmHexOrDash(f[5]), SourceProtAddress: lmHexOrDash(f[6]), DstHwAddress: lmHexOrDash(f[7]), DstProtAddress: lmHexOrDash(f[8])}
	},
	// C06 hypothesis: address pairs of equal length below 256 (FixLengths writes uint8(len))
	inDomain: func(l gopacket.Layer, _ []byte) bool {
		a := l.(*layers.ARP)
		return len(a.SourceHwAddress) == len(a.DstHwAddress) && len(a.SourceProtAddress) == len(a.DstProtAddress) &&
			len(a.SourceHwAddress) < 256 && len(a.SourceProtAddress) < 256
	},
	tags: func(l gopacket.Layer, cls string, data []byte) []string {
		a := l.(*layers.ARP)
		var t []string
		if cls == "ok" && (a.HwAddressSize == 0 || a.ProtAddressSize == 0) {
			t = append(t, "zero-size-address")
		}
		if cls == "ok" && (a.HwAddressSize == 255 || a.ProtAddressSize == 255) {
			t = append(t, "max-size-address")
		}
		if cls == "err" && len(data) >= 8 {
			t = append(t, "error-after-fields-set")
		}
		return t
	},
}

func (larp) Run(c Case) Result { return lmRun(larpDesc, c) }

func larpBuild(rng *rand.Rand, hs, ps int, payload []byte) []byte {
	h := make([]byte, 8+2*hs+2*ps)
	lmPut16(h[0:], lnPick(rng, 1, 6, 0, 65535, rng.Intn(65536)))
	lmPut16(h[2:], lnPick(rng, 0x0800, 0x86dd, 0, 65535, rng.Intn(65536)))
	h[4], h[5] = byte(hs), byte(ps)
	lmPut16(h[6:], lnPick(rng, 1, 2, 0, 65535, rng.Intn(65536)))
	copy(h[8:], lnRandBytes(rng, 2*hs+2*ps))
	return append(h, payload...)
}

func (larp) Gen(rng *rand.Rand, tier string) []Case {
	sizes := func() (int, int) {
		return lnPick(rng, 6, 6, 6, 0, 1, 8, 20, 255, rng.Intn(256)), lnPick(rng, 4, 4, 4, 0, 1, 16, 255, rng.Intn(256))
	}
	valid := func(rng *rand.Rand) []byte {
		hs, ps := sizes()
		return larpBuild(rng, hs, ps, lnRandBytes(rng, lnPick(rng, 0, 0, 1, 18, 33)))
	}
	g := lmGenCfg{
		valid:  valid,
		hdrLen: func(p []byte) int { if len(p) < 6 { return len(p) }; return 8 + 2*int(p[4]) + 2*int(p[5]) },
		residue: func(rng *rand.Rand) []byte { return larpBuild(rng, 6+rng.Intn(3), 4+rng.Intn(3), lnRandBytes(rng, 5)) },
		spec: func(rng *rand.Rand) string {
			al := func(n int) string {
				if n == 0 && rng.Intn(2) == 0 {
					return "-"
				}
				return lnHex(lnRandBytes(rng, n))
			}
			hs, ps := lnPick(rng, 6, 0, 1, 255, 256, 257, 300), lnPick(rng, 4, 0, 1, 16, 255, 256, 260)
			hs2, ps2 := hs, ps
			switch rng.Intn(6) {
			case 0:
				hs2 = lnPick(rng, 0, hs+1, 5)
			case 1:
				ps2 = lnPick(rng, 0, ps+1, 3)
			}
			return fmt.Sprintf("%d.%d.%d.%d.%d.%s.%s.%s.%s", lnPick(rng, 1, 0, 65535), lnPick(rng, 0x0800, 0, 65535),
				lnPick(rng, 0, 6, 255, hs%256), lnPick(rng, 0, 4, 255, ps%256), lnPick(rng, 1, 2, 65535), al(hs), al(ps), al(hs2), al(ps2))
		},
		seeds: lnEthSeeds(0x0806),
		extra: func(rng *rand.Rand, add func(ops ...string)) {
			// every length/size field forced to 0,1,max and off-by-one around the bound the code checks
			for _, hs := range []int{0, 1, 6, 127, 128, 255} {
				for _, ps := range []int{0, 1, 4, 127, 128, 255} {
					p := larpBuild(rng, hs, ps, nil)
					for _, k := range []int{len(p) - 1, len(p), len(p) + 1} {
						q := append(lnCopy(p), 0x77)[:k]
						add("tag:length-extreme", "dec:"+lnHex(q))
						add("tag:length-extreme", "dec2:"+lnHex(larpBuild(rng, 6, 4, []byte{1, 2, 3}))+","+lnHex(q))
						add("tag:length-extreme", "ser:"+lnHex(q)+","+lnFCD[rng.Intn(len(lnFCD))]+",0102")
						add("tag:length-extreme", "rt:"+lnHex(q)+",010203")
					}
				}
			}
		},
	}
	return lmGen(larpDesc, g, rng, tier)
}
