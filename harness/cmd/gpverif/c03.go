package main

// C03 — lazy decoding is observationally equivalent to eager decoding.
// Scripted decoder families (pcore.go) run on the real packet.go builder and on the Coq
// model; the implementation-side oracle C03:lazy-vs-eager runs every accessor program on a
// lazy and an eager packet of the same bytes (scripted families and real protocol stacks).

import (
	"math/rand"
	"strconv"

	"github.com/gopacket/gopacket"
)

type c03 struct{}

func init() { register("C03", c03{}) }

// hand-written families aimed at the mechanisms the property is about
func c03Fixed() []Case {
	var out []Case
	progs := [][]string{
		{"lk", "nw", "tr", "ap", "er", "ls", "st", "du"},
		{"er", "lk"},
		{"L:1902", "L:1900", "C:1901,1902", "tr", "ls"},
		{"tr", "L:1", "st"},
		{"du", "er"},
		{"C:1990,1", "nw", "nw", "ls"},
	}
	fams := [][]string{
		// four nested single-layer decoders, each setting its kind
		{"dec:1900/1900.2.r!a0+l0!n1901!-", "dec:1901/1901.3.r!a0+n0!n1902!-", "dec:1902/1902.2.r!a0+t0!n1903!-", "dec:1903/1903.99999.e!a0+p0!r!-"},
		// a decoder adding two layers, then an error after an add
		{"dec:1900/1900.1.r+1901.0.r!a0+a1+l1!n1902!-", "dec:1902/1902.1.r!a0+x!f!-"},
		// panic after an add in the third decoder
		{"dec:1900/1900.1.r!a0+l0!n1901!-", "dec:1901/1901.1.r!a0+n0!n1902!-", "dec:1902/1902.1.r+1.0.r!a0+t0+a1!p!-"},
		// self-recursive chunk decoder (SCTP-like), data dependent variants, DSAD switch
		{"dec:1900/1900.2.r!a0+l0!n2100!-", "dec:2100/2100.1.r!a0!n2100!-/1.2.r!a0+t0!n2100!r"},
		// continuation into an unregistered type / a type without decoder / nil decoder
		{"dec:1900/1900.1.r!a0!n1950!-/1900.1.r!a0!n1951!-/1900.1.r!a0!z!-"},
		// map-path ids, negative id
		{"dec:-7/-7.1.r!a0+l0!n2101!-", "dec:2101/2101.2.r+-7.0.e!a0+a1+p1!r!-"},
	}
	firsts := []int{1900, 1900, 1900, 1900, 1900, -7}
	id := 0
	for fi, fam := range fams {
		for _, prog := range progs {
			for _, o := range []string{"o:10000", "o:11001", "o:00000", "o:10100"} {
				for _, d := range []string{"d:0102030405060708", "d:02", "d:00ff10"} {
					ops := []string{o, d, "f:" + strconv.Itoa(firsts[fi])}
					ops = append(ops, fam...)
					ops = append(ops, prog...)
					out = append(out, Case{ID: "C03-fixed-" + strconv.Itoa(id), Prop: "C03", Ops: ops})
					id++
				}
			}
		}
	}
	return out
}

func (c03) Gen(rng *rand.Rand, tier string) []Case {
	g := pcGen{rng: rng}
	out := c03Fixed()
	n := 1500
	if tier == "thorough" {
		n = 20000
	}
	for i := 0; i < n; i++ {
		f := g.genFamily(rng.Intn(6) == 0, rng.Intn(10) == 0)
		o := pcOptCombos[rng.Intn(16)]
		if rng.Intn(3) != 0 {
			o.Lazy = true // the lazy machine is what has states worth exploring
		}
		if rng.Intn(12) == 0 {
			o.SkipDecodeRecovery = true
		}
		data := g.genData(true)
		out = append(out, pcMakeCase("C03", o, data, f.ids[0], f, g.genProgram(f, 12)))
	}
	if tier == "thorough" {
		// all programs of length <= 4 over the ten accessors on a few families
		for k := 0; k < 3; k++ {
			f := g.genFamily(false, false)
			for len(f.ids) < 3 {
				f = g.genFamily(false, false)
			}
			lt, ct := 1, "1,1990"
			if len(f.types) > 0 {
				lt = f.types[len(f.types)-1]
				ct = strconv.Itoa(f.types[0]) + "," + strconv.Itoa(lt)
			}
			acc := []string{"L:" + strconv.Itoa(lt), "C:" + ct, "lk", "nw", "tr", "ap", "er", "ls", "st", "du"}
			data := g.genData(false)
			o := gopacket.DecodeOptions{Lazy: true, DecodeStreamsAsDatagrams: k == 1}
			var rec func(prefix []string, d int)
			rec = func(prefix []string, d int) {
				out = append(out, pcMakeCase("C03", o, data, f.ids[0], f, append([]string(nil), prefix...)))
				if d == 0 {
					return
				}
				for _, a := range acc {
					rec(append(prefix, a), d-1)
				}
			}
			rec(nil, 4)
		}
	}
	out = append(out, g.genReal("C03", tier, true)...)
	return out
}

func (c03) Run(c Case) Result {
	return pcGuard("C03:lazy-vs-eager", func() Result { return c03Run(c) })
}

func c03Run(c Case) Result {
	var res Result
	pc, err := pcParseCase(c)
	if err != nil {
		res.Obs = []string{"bad-case=" + strconv.Quote(err.Error())}
		res.Oracle = []string{"harness-bad-case\t" + err.Error()}
		return res
	}
	if pc.real != "" {
		return pcRunReal("C03", pc)
	}
	ex := pcExecute(pc, pc.opts)
	res.Obs = ex.observations()
	res.Tags = pcTags(pc, ex)
	ex.dispose()
	fails, skipped := pcOracleLazyEager(pc)
	res.Oracle = fails
	if skipped != "" {
		res.Tags = append(res.Tags, "oracle-skipped-"+skipped)
	}
	return res
}
