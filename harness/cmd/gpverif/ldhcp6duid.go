package main

// Ldhcp6duid: the DHCPv6 DUID codec of layers/dhcpv6.go (DHCPv6DUID.DecodeFromBytes / Encode / Len / String): C19, C05, C06, C07, C01.
// A DUID is not a layer: the harness wraps it (Contents/Payload nil; SerializeTo prepends Encode() to the payload; String() is the
// DUID's own).  Ops: dec dec2 ser new rt rtn.  Spec of a field-built DUID: type.hw.en.time.lla.id (hex, "-" = nil)

import (
	"fmt"
	"math/rand"
	"strings"

	"github.com/gopacket/gopacket"
	"github.com/gopacket/gopacket/layers"
)

type ldhcp6duid struct{}

func init() { register("Ldhcp6duid", ldhcp6duid{}) }

type duidLayer struct{ d *layers.DHCPv6DUID }

func (duidLayer) LayerType() gopacket.LayerType { return gopacket.LayerTypePayload }
func (duidLayer) LayerContents() []byte         { return nil }
func (duidLayer) LayerPayload() []byte          { return nil }
func (w duidLayer) String() string              { return w.d.String() }
func (w duidLayer) SerializeTo(b gopacket.SerializeBuffer, _ gopacket.SerializeOptions) error {
	enc := w.d.Encode()
	if len(enc) != w.d.Len() {
		panic("Encode length differs from Len")
	}
	p, err := b.PrependBytes(len(enc))
	if err != nil {
		return err
	}
	copy(p, enc)
	return nil
}

func duidHex(s string) []byte {
	if s == "-" {
		return nil
	}
	return lnUnhex(s)
}

var ldhcp6duidDesc = &lmDesc{
	id: "Ldhcp6duid", name: "DHCPv6DUID", ser: true,
	fresh: func() gopacket.Layer { return duidLayer{&layers.DHCPv6DUID{}} },
	decode: func(l gopacket.Layer, data []byte, _ gopacket.DecodeFeedback) error {
		d := make([]byte, len(data))
		copy(d, data)
		return l.(duidLayer).d.DecodeFromBytes(d)
	},
	fields: func(l gopacket.Layer) string {
		d := l.(duidLayer).d
		return fmt.Sprintf("ty=%d;hw=%s;en=%s;time=%s;lla=%s;id=%s", uint16(d.Type), lnHex(d.HardwareType), lnHex(d.EnterpriseNumber), lnHex(d.Time), lnHex(d.LinkLayerAddress), lnHex(d.Identifier))
	},
	next: func(gopacket.Layer, *lmBuilder) string { return "none" },
	fromSpec: func(spec string) gopacket.Layer {
		f := strings.Split(spec, ".")
		return duidLayer{&layers.DHCPv6DUID{Type: layers.DHCPv6DUIDType(lnAtoi(f[0])), HardwareType: duidHex(f[1]), EnterpriseNumber: duidHex(f[2]), Time: duidHex(f[3]),
			LinkLayerAddress: duidHex(f[4]), Identifier: duidHex(f[5])}}
	},
	// C06 domain: what DecodeFromBytes produces (fixed-size fields have their size, the others are empty), and no payload (the
	// trailing field of a DUID takes every remaining octet)
	inDomain: func(l gopacket.Layer, payload []byte) bool {
		d := l.(duidLayer).d
		if len(payload) != 0 {
			return false
		}
		switch d.Type {
		case 1:
			return len(d.HardwareType) == 2 && len(d.Time) == 4 && len(d.EnterpriseNumber) == 0 && len(d.Identifier) == 0
		case 2:
			return len(d.EnterpriseNumber) == 4 && len(d.HardwareType) == 0 && len(d.Time) == 0 && len(d.LinkLayerAddress) == 0
		case 3:
			return len(d.HardwareType) == 2 && len(d.Time) == 0 && len(d.EnterpriseNumber) == 0 && len(d.Identifier) == 0
		}
		return len(d.HardwareType) == 0 && len(d.Time) == 0 && len(d.EnterpriseNumber) == 0 && len(d.Identifier) == 0
	},
	extra: func(l gopacket.Layer) []func() {
		d := l.(duidLayer).d
		return []func(){func() { _, _, _ = d.String(), d.Type.String(), d.Len() }}
	},
	tags: func(l gopacket.Layer, cls string, data []byte) []string {
		if cls == "ok" {
			return []string{fmt.Sprintf("duid-type-%d", int(min(uint16(l.(duidLayer).d.Type), 4)))}
		}
		return nil
	},
}

func (ldhcp6duid) Run(c Case) Result { return lmRun(ldhcp6duidDesc, c) }

func (ldhcp6duid) Gen(rng *rand.Rand, tier string) []Case {
	mk := func(rng *rand.Rand, ty int) []byte {
		p := []byte{byte(ty >> 8), byte(ty)}
		switch ty {
		case 1:
			return append(p, lnRandBytes(rng, 6+lnPick(rng, 0, 1, 6, 8, 20))...)
		case 2:
			return append(p, lnRandBytes(rng, 4+lnPick(rng, 0, 1, 8, 16))...)
		}
		return append(p, lnRandBytes(rng, 2+lnPick(rng, 0, 1, 6, 8))...)
	}
	valid := func(rng *rand.Rand) []byte { return mk(rng, lnPick(rng, 1, 2, 3, 1, 2, 3, 0, 4, 256, 65535)) }
	hexOr := func(b []byte) string {
		if len(b) == 0 {
			return "-"
		}
		return lnHex(b)
	}
	// DUIDs inside the DHCPv6 packets of the test files: client/server id options (codes 1, 2) of UDP 546/547 payloads
	var seeds [][]byte
	for _, port := range []int{546, 547} {
		for _, u := range lsUDPPayloads(port) {
			for o := 4; o+4 <= len(u); {
				code, ln := int(u[o])<<8|int(u[o+1]), int(u[o+2])<<8|int(u[o+3])
				if o+4+ln > len(u) {
					break
				}
				if code == 1 || code == 2 {
					seeds = append(seeds, u[o+4:o+4+ln])
				}
				o += 4 + ln
			}
		}
	}
	g := lmGenCfg{valid: valid, hdrLen: func(p []byte) int { return len(p) }, seeds: seeds,
		// maximal residue: an LLT DUID (sets HardwareType, Time, LinkLayerAddress) or an EN one (EnterpriseNumber, Identifier)
		residue: func(rng *rand.Rand) []byte { return mk(rng, lnPick(rng, 1, 2)) },
		spec: func(rng *rand.Rand) string {
			f := func(ns ...int) string { return hexOr(lnRandBytes(rng, lnPick(rng, ns...))) }
			return fmt.Sprintf("%d.%s.%s.%s.%s.%s", lnPick(rng, 0, 1, 1, 2, 2, 3, 3, 4, 65535), f(0, 1, 2, 2, 3), f(0, 3, 4, 4, 5), f(0, 3, 4, 4, 5), f(0, 1, 6, 20), f(0, 1, 8))
		},
		extra: func(rng *rand.Rand, add func(ops ...string)) {
			for ty := 0; ty <= 5; ty++ { // every truncation of every type, into a fresh object and after each kind of residue
				p := mk(rng, ty)
				for k := 0; k <= len(p); k++ {
					add("tag:truncated-prefix-of-valid", "dec:"+lnHex(p[:k]))
					for _, rt := range []int{1, 2, 3} {
						add("tag:truncated-prefix-of-valid", "dec2:"+lnHex(mk(rng, rt))+","+lnHex(p[:k]))
					}
					add("tag:error-residue", "ser:"+lnHex(p[:k])+",000,")
					add("rt:" + lnHex(p[:k]) + ",")
				}
			}
			// the DUIDs of dhcpv6_test.go (field-built there too; the test files have no DHCPv6 packet literal)
			add("tag:seed", "rtn:1.0001.-.1c38262d.080027fe8f95.-,")
			add("tag:seed", "rtn:1.0001.-.1c3825e8.080027d410bb.-,")
			add("tag:seed", "new:1.0001.-.1c38262d.080027fe8f95.-,111,")
			for a := 1; a <= 4; a++ { // type change on a reused object, all ordered pairs
				for b := 0; b <= 4; b++ {
					add("tag:type-change", "dec2:"+lnHex(mk(rng, a))+","+lnHex(mk(rng, b)))
				}
			}
			for ty := 0; ty < 256; ty++ { // every low type octet
				add("tag:octet-every-value", "dec:"+lnHex(mk(rng, ty)))
				if ty%8 == 0 {
					add("tag:octet-every-value", "rt:"+lnHex(mk(rng, ty))+",")
				}
			}
			for i := 0; i < 60; i++ { // in-domain round trips of field-built DUIDs
				ty := lnPick(rng, 1, 2, 3, 0, 9, 65535)
				h, e, t, a, id := "-", "-", "-", hexOr(lnRandBytes(rng, lnPick(rng, 0, 6, 8))), "-"
				switch ty {
				case 1:
					h, t = lnHex(lnRandBytes(rng, 2)), lnHex(lnRandBytes(rng, 4))
				case 2:
					e, a, id = lnHex(lnRandBytes(rng, 4)), "-", hexOr(lnRandBytes(rng, lnPick(rng, 0, 1, 10)))
				case 3:
					h = lnHex(lnRandBytes(rng, 2))
				}
				add("tag:field-extreme", fmt.Sprintf("rtn:%d.%s.%s.%s.%s.%s,", ty, h, e, t, a, id))
			}
		}}
	return lmGen(ldhcp6duidDesc, g, rng, tier)
}
