package main

// Shared helpers of the lnet6 layer sub-checks (Licmp6, Lip6, Lgre).

import (
	"crypto/md5"
	"encoding/hex"
	"fmt"
	"go/ast"
	"go/parser"
	"go/token"
	"math/rand"
	"os"
	"path/filepath"
	"sort"
	"strconv"
	"strings"
	"sync"
	"time"

	"github.com/gopacket/gopacket"
	"github.com/gopacket/gopacket/layers"
)

// n6fb records SetTruncated.
type n6fb struct{ t bool }

func (f *n6fb) SetTruncated() { f.t = true }

func n6b2i(b bool) int {
	if b {
		return 1
	}
	return 0
}

// n6clip returns a copy whose capacity equals its length: Go slice expressions are bounded by
// the capacity, so spare capacity could hide a missing length check.
func n6clip(b []byte) []byte {
	c := make([]byte, len(b))
	copy(c, b)
	return c[:len(c):len(c)]
}

func n6unhex(s string) []byte {
	b, err := hex.DecodeString(s)
	if err != nil {
		panic("bad hex in case: " + s)
	}
	return n6clip(b)
}

func n6hex(b []byte) string { return hex.EncodeToString(b) }

// n6call runs f and reports the class of its result: ok, err or panic.
func n6call(f func() error) (cls string) {
	defer func() {
		if r := recover(); r != nil {
			cls = "panic"
		}
	}()
	if err := f(); err != nil {
		return "err"
	}
	return "ok"
}

// n6decode runs a DecodeFromBytes call under a watchdog: a decoder that does not return within
// 3 s is reported as class "stuck" (its goroutine is abandoned; after 3 such cases no further
// decode is attempted so that a hanging decoder cannot eat the machine).
var n6stuck int

func n6decode(f func() error) string {
	if n6stuck >= 3 {
		return "stuck"
	}
	ch := make(chan string, 1)
	go func() { ch <- n6call(f) }()
	if c, ok := recvBusyAware(ch, 3*time.Second); ok {
		return c
	}
	n6stuck++
	return "stuck"
}

// n6render runs a renderer and reports ok or panic.
func n6render(f func()) (cls string) {
	defer func() {
		if r := recover(); r != nil {
			cls = "panic"
		}
	}()
	f()
	return "ok"
}

// n6layerRender renders a layer with the three generic renderers.
func n6layerRender(l gopacket.Layer) []string {
	return []string{
		n6render(func() { _ = gopacket.LayerString(l) }),
		n6render(func() { _ = gopacket.LayerDump(l) }),
		n6render(func() { _ = gopacket.LayerGoString(l) }),
	}
}

// n6buffer makes a serialize buffer holding payload: mode 0 fresh, 1 dirty (memory pre-filled
// with 0xAA by a large prepend+append, then Clear), 2 pre-sized.
func n6buffer(mode int, payload []byte) gopacket.SerializeBuffer {
	var b gopacket.SerializeBuffer
	switch mode {
	case 1:
		b = gopacket.NewSerializeBuffer()
		n := len(payload) + 16384
		p, _ := b.PrependBytes(n)
		for i := range p {
			p[i] = 0xAA
		}
		a, _ := b.AppendBytes(256)
		for i := range a {
			a[i] = 0xAA
		}
		b.Clear()
	case 2:
		b = gopacket.NewSerializeBufferExpectedSize(len(payload)+8192, 64)
	default:
		b = gopacket.NewSerializeBuffer()
	}
	p, _ := b.PrependBytes(len(payload))
	copy(p, payload)
	return b
}

// n6serialize runs SerializeTo over payload in a buffer of the given mode.
func n6serialize(l gopacket.SerializableLayer, payload []byte, fix, csum bool, mode int) (cls string, out []byte) {
	b := n6buffer(mode, payload)
	cls = n6call(func() error {
		return l.SerializeTo(b, gopacket.SerializeOptions{FixLengths: fix, ComputeChecksums: csum})
	})
	if cls == "ok" {
		out = n6clip(b.Bytes())
	}
	return
}

func n6flags(s string) (fix, csum bool, mode int) {
	if len(s) != 3 {
		panic("bad flags " + s)
	}
	return s[0] == '1', s[1] == '1', int(s[2] - '0')
}

func n6atoi(s string) int {
	n, err := strconv.Atoi(s)
	if err != nil {
		panic("bad int in case: " + s)
	}
	return n
}

func n6args(op string) (name string, args []string) {
	name, rest, found := strings.Cut(op, ":")
	if !found {
		return name, nil
	}
	return name, strings.Split(rest, ",")
}

// ---------------------------------------------------------------- seeds from the test-suite

type n6seed struct {
	file string
	data []byte
}

var (
	n6seedOnce sync.Once
	n6seedList []n6seed
)

func n6repo() string {
	if r := os.Getenv("VERIF_REPO"); r != "" {
		return r
	}
	return "/repo"
}

// n6seeds returns the []byte{...} literals of layers/*_test.go (parsed, not imported).
func n6seeds() []n6seed {
	n6seedOnce.Do(func() {
		files, _ := filepath.Glob(filepath.Join(n6repo(), "layers", "*_test.go"))
		sort.Strings(files)
		fset := token.NewFileSet()
		for _, fn := range files {
			f, err := parser.ParseFile(fset, fn, nil, 0)
			if err != nil {
				continue
			}
			ast.Inspect(f, func(n ast.Node) bool {
				cl, ok := n.(*ast.CompositeLit)
				if !ok {
					return true
				}
				at, ok := cl.Type.(*ast.ArrayType)
				if !ok || at.Len != nil {
					return true
				}
				id, ok := at.Elt.(*ast.Ident)
				if !ok || id.Name != "byte" {
					return true
				}
				var b []byte
				for _, e := range cl.Elts {
					bl, ok := e.(*ast.BasicLit)
					if !ok {
						return true
					}
					v, err := strconv.ParseInt(bl.Value, 0, 64)
					if err != nil || v < 0 || v > 255 {
						return true
					}
					b = append(b, byte(v))
				}
				if len(b) >= 14 {
					n6seedList = append(n6seedList, n6seed{filepath.Base(fn), b})
				}
				return true
			})
		}
	})
	return n6seedList
}

// n6seedLayers decodes every seed as an Ethernet frame and returns contents++payload of each
// layer of the wanted type.
func n6seedLayers(t gopacket.LayerType) [][]byte {
	var out [][]byte
	seen := map[string]bool{}
	for _, s := range n6seeds() {
		func() {
			defer func() { recover() }()
			p := gopacket.NewPacket(s.data, layers.LinkTypeEthernet, gopacket.Default)
			for _, l := range p.Layers() {
				if l.LayerType() == t {
					b := append(append([]byte(nil), l.LayerContents()...), l.LayerPayload()...)
					if !seen[string(b)] {
						seen[string(b)] = true
						out = append(out, b)
					}
				}
			}
		}()
	}
	return out
}

func n6randBytes(rng *rand.Rand, n int) []byte {
	b := make([]byte, n)
	for i := range b {
		b[i] = byte(rng.Intn(256))
	}
	return b
}

func n6pick(rng *rand.Rand, xs ...int) int { return xs[rng.Intn(len(xs))] }

func n6tagset(m map[string]bool) []string {
	var out []string
	for t := range m {
		out = append(out, t)
	}
	sort.Strings(out)
	return out
}

func n6oracle(clause, format string, a ...interface{}) string {
	return clause + "\t" + fmt.Sprintf(format, a...)
}

// n6payload parses a payload argument: hex, or *<n>x<hexbyte> for n repetitions of one byte.
func n6payload(s string) []byte {
	if strings.HasPrefix(s, "*") {
		ns, bs, _ := strings.Cut(s[1:], "x")
		n := n6atoi(ns)
		v := n6unhex(bs)
		b := make([]byte, n)
		for i := range b {
			b[i] = v[0]
		}
		return b
	}
	return n6unhex(s)
}

// n6big prints a byte string as hex, or as md5:<len>:<digest> when it is longer than 2048 bytes.
func n6big(b []byte) string {
	if len(b) <= 2048 {
		return n6hex(b)
	}
	return fmt.Sprintf("md5:%d:%x", len(b), md5.Sum(b))
}
