package main

// Lpppoe: layers/pppoe.go codec sub-check (C19, C06, C07, C01 for PPPoE; no DecodeFromBytes, so no C05 ops).
// Ops: dec ser rt (lmisc_common.go; decoding runs the registered decoder of LayerTypePPPoE on a recording
// PacketBuilder), new:<version>.<type>.<code>.<session>.<length>,<fcd>,<payloadhex> and rtn: likewise.

import (
	"fmt"
	"math/rand"
	"strings"

	"github.com/gopacket/gopacket"
	"github.com/gopacket/gopacket/layers"
)

type lpppoe struct{}

func init() { register("Lpppoe", lpppoe{}) }

var lpppoeDesc = &lmDesc{
	id: "Lpppoe", name: "PPPoE", ser: true,
	fresh:    func() gopacket.Layer { return &layers.PPPoE{} },
	decodeFn: func(data []byte, b *lmBuilder) error { return layers.LayerTypePPPoE.Decode(data, b) },
	fields: func(l gopacket.Layer) string {
		p := l.(*layers.PPPoE)
		return fmt.Sprintf("v=%d;t=%d;code=%d;sid=%d;len=%d", p.Version, p.Type, uint8(p.Code), p.SessionId, p.Length)
	},
	next: func(l gopacket.Layer, b *lmBuilder) string {
		if b == nil || !b.nextSet {
			return "none"
		}
		if c, ok := b.next.(layers.PPPoECode); ok {
			return fmt.Sprint(uint8(c))
		}
		return fmt.Sprintf("other%T", b.next)
	},
	fromSpec: func(spec string) gopacket.Layer {
		f := strings.Split(spec, ".")
		return &layers.PPPoE{Version: uint8(lnAtoi(f[0])), Type: uint8(lnAtoi(f[1])), Code: layers.PPPoECode(lnAtoi(f[2])), SessionId: uint16(lnAtoi(f[3])), Length: uint16(lnAtoi(f[4]))}
	},
	inDomain: func(l gopacket.Layer, payload []byte) bool {
		p := l.(*layers.PPPoE)
		return p.Version < 16 && p.Type < 16 && len(payload) < 65536
	},
	tags: func(l gopacket.Layer, cls string, data []byte) []string {
		if cls == "ok" && len(data) > 6+int(l.(*layers.PPPoE).Length) {
			return []string{"trailing-bytes-dropped"}
		}
		if cls == "ok" && l.(*layers.PPPoE).Length == 0 {
			return []string{"zero-length"}
		}
		return nil
	},
}

func (lpppoe) Run(c Case) Result { return lmRun(lpppoeDesc, c) }

func (lpppoe) Gen(rng *rand.Rand, tier string) []Case {
	build := func(rng *rand.Rand, plen, declared int) []byte {
		h := make([]byte, 6)
		h[0] = byte(lnPick(rng, 0x11, 0x11, 0x00, 0xff, rng.Intn(256)))
		h[1] = byte(lnPick(rng, 0x00, 0x09, 0x07, 0x65, 0xa7, 0xff, rng.Intn(256)))
		lmPut16(h[2:], lnPick(rng, 0, 1, 65535, rng.Intn(65536)))
		lmPut16(h[4:], declared)
		return append(h, lnRandBytes(rng, plen)...)
	}
	valid := func(rng *rand.Rand) []byte {
		n := lnPick(rng, 0, 1, 2, 8, 33, 64)
		return build(rng, n+lnPick(rng, 0, 0, 0, 1, 5), n)
	}
	var seeds [][]byte
	seeds = append(seeds, lnEthSeeds(0x8863)...)
	seeds = append(seeds, lnEthSeeds(0x8864)...)
	g := lmGenCfg{
		valid:  valid,
		hdrLen: func(p []byte) int { if len(p) < 6 { return len(p) }; return 6 + (int(p[4])<<8 | int(p[5])) },
		spec: func(rng *rand.Rand) string {
			return fmt.Sprintf("%d.%d.%d.%d.%d", lnPick(rng, 1, 0, 15, 16, 255), lnPick(rng, 1, 0, 15, 16, 255), lnPick(rng, 0, 9, 255), lnPick(rng, 0, 1, 65535), lnPick(rng, 0, 1, 7, 8, 65535))
		},
		seeds: seeds,
		extra: func(rng *rand.Rand, add func(ops ...string)) {
			// the declared length against the bytes present: 0, 1, exact, one more, one less, max
			for _, n := range []int{0, 1, 2, 40} {
				for _, d := range []int{0, 1, n - 1, n, n + 1, 255, 256, 65535} {
					if d < 0 {
						continue
					}
					p := build(rng, n, d)
					add("tag:length-extreme", "dec:"+lnHex(p))
					add("tag:length-extreme", "rt:"+lnHex(p)+",c021")
					add("tag:length-extreme", "ser:"+lnHex(p)+","+lnFCD[rng.Intn(len(lnFCD))]+",c021")
				}
			}
		},
	}
	return lmGen(lpppoeDesc, g, rng, tier)
}
