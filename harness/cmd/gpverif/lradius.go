package main

// Lradius: layers/radius.go codec sub-check (C19, C05, C06, C07, C01 for RADIUS).
// Ops: dec dec2 ser rt (lmisc_common.go) plus
//   new:<code>.<id>.<length>.<auth hex, 16 octets>.<attrs>,<fcd>,<payloadhex> and rtn: likewise, <attrs> = "-" or
//   attributes joined by "+", each <type>~<length>~<valuehex>.

import (
	"fmt"
	"math/rand"
	"strings"

	"github.com/gopacket/gopacket"
	"github.com/gopacket/gopacket/layers"
)

type lradius struct{}

func init() { register("Lradius", lradius{}) }

func radEAP(r *layers.RADIUS) []byte {
	var p []byte
	for _, a := range r.Attributes {
		if a.Type == layers.RADIUSAttributeTypeEAPMessage {
			p = append(p, a.Value...)
		}
	}
	return p
}

var lradiusDesc = &lmDesc{
	id: "Lradius", name: "RADIUS", ser: true,
	fresh: func() gopacket.Layer { return &layers.RADIUS{} },
	decode: func(l gopacket.Layer, data []byte, fb gopacket.DecodeFeedback) error {
		return l.(*layers.RADIUS).DecodeFromBytes(data, fb)
	},
	fields: func(l gopacket.Layer) string {
		r := l.(*layers.RADIUS)
		as := make([]string, len(r.Attributes))
		for i, a := range r.Attributes {
			as[i] = fmt.Sprintf("%d~%d~%s", uint8(a.Type), uint8(a.Length), lnHex(a.Value))
		}
		return fmt.Sprintf("code=%d;id=%d;len=%d;auth=%s;attrs=%s", uint8(r.Code), uint8(r.Identifier), uint16(r.Length), lnHex(r.Authenticator[:]), strings.Join(as, "+"))
	},
	next: func(l gopacket.Layer, _ *lmBuilder) string {
		switch t := l.(*layers.RADIUS).NextLayerType(); t {
		case layers.LayerTypeEAP:
			return "eap"
		case gopacket.LayerTypeZero:
			return "zero"
		default:
			return fmt.Sprintf("other%d", t)
		}
	},
	fromSpec: func(spec string) gopacket.Layer {
		f := strings.Split(spec, ".")
		r := &layers.RADIUS{Code: layers.RADIUSCode(lnAtoi(f[0])), Identifier: layers.RADIUSIdentifier(lnAtoi(f[1])), Length: layers.RADIUSLength(lnAtoi(f[2]))}
		copy(r.Authenticator[:], lnUnhex(f[3]))
		if f[4] != "-" {
			for _, as := range strings.Split(f[4], "+") {
				q := strings.Split(as, "~")
				r.Attributes = append(r.Attributes, layers.RADIUSAttribute{Type: layers.RADIUSAttributeType(lnAtoi(q[0])), Length: layers.RADIUSAttributeLength(lnAtoi(q[1])), Value: lnUnhex(q[2])})
			}
		}
		return r
	},
	// C06 hypothesis (with FixLengths): attribute values of 1..253 octets, packet at most 4096 octets, nothing under the layer
	// (the decoder derives Payload from the EAP-Message attributes; octets behind Length set the truncated flag)
	inDomain: func(l gopacket.Layer, payload []byte) bool {
		r := l.(*layers.RADIUS)
		n := 20
		for _, a := range r.Attributes {
			if len(a.Value) < 1 || len(a.Value) > 253 {
				return false
			}
			n += 2 + len(a.Value)
		}
		return n <= 4096 && len(payload) == 0
	},
	rtPayload: func(l gopacket.Layer, payload []byte) []byte { return radEAP(l.(*layers.RADIUS)) },
	extra: func(l gopacket.Layer) []func() {
		r := l.(*layers.RADIUS)
		return []func(){func() {
			_ = r.Payload()
			_, _ = r.Len()
			_ = r.Code.String()
			for _, a := range r.Attributes {
				_ = a.Type.String()
			}
		}}
	},
	tags: func(l gopacket.Layer, cls string, data []byte) []string {
		r := l.(*layers.RADIUS)
		var t []string
		if cls == "ok" && len(r.Attributes) > 0 {
			t = append(t, "attributes")
		}
		if cls == "ok" && len(r.BaseLayer.Payload) > 0 {
			t = append(t, "eap-payload")
		}
		if cls == "ok" && int(r.Length) < len(data) {
			t = append(t, "octets-behind-length")
		}
		if cls == "err" && len(data) >= 20 && len(r.Attributes) > 0 {
			t = append(t, "error-after-add")
		}
		if cls == "err" && len(data) >= 20 {
			t = append(t, "error-after-fields-set")
		}
		return t
	},
}

func init() {
	// round trip compares attributes by type and value, with the length FixLengths writes (value + 2)
	lradiusDesc.rtFields = func(l gopacket.Layer) string {
		r := l.(*layers.RADIUS)
		as := make([]string, len(r.Attributes))
		for i, a := range r.Attributes {
			as[i] = fmt.Sprintf("%d~%d~%s", uint8(a.Type), len(a.Value)+2, lnHex(a.Value))
		}
		return fmt.Sprintf("code=%d;id=%d;len=%d;auth=%s;attrs=%s", uint8(r.Code), uint8(r.Identifier), uint16(r.Length), lnHex(r.Authenticator[:]), strings.Join(as, "+"))
	}
}

func (lradius) Run(c Case) Result { return lmRun(lradiusDesc, c) }

// radBuild: attrs are (type, declared length octet (-1 = 2+len(value)), value); lenDelta is added to the packet length field.
type radAttr struct {
	t, decl int
	v       []byte
}

func radBuild(rng *rand.Rand, attrs []radAttr, lenDelta int, trailing int) []byte {
	h := make([]byte, 20)
	h[0] = byte(lnPick(rng, 1, 2, 3, 4, 11, 0, 255, rng.Intn(256)))
	h[1] = byte(rng.Intn(256))
	copy(h[4:], lnRandBytes(rng, 16))
	for _, a := range attrs {
		d := a.decl
		if d < 0 {
			d = 2 + len(a.v)
		}
		h = append(h, byte(a.t), byte(d))
		h = append(h, a.v...)
	}
	lmPut16(h[2:], len(h)+lenDelta)
	return append(h, lnRandBytes(rng, trailing)...)
}

func (lradius) Gen(rng *rand.Rand, tier string) []Case {
	rattrs := func(rng *rand.Rand) []radAttr {
		var as []radAttr
		for k := lnPick(rng, 0, 1, 2, 3, 5); k > 0; k-- {
			as = append(as, radAttr{lnPick(rng, 1, 2, 4, 26, 79, 79, 80, 0, 255, rng.Intn(256)), -1, lnRandBytes(rng, lnPick(rng, 1, 2, 4, 6, 16, 18, 0))})
		}
		return as
	}
	valid := func(rng *rand.Rand) []byte {
		as := rattrs(rng)
		switch rng.Intn(8) {
		case 0:
			return radBuild(rng, as, 0, lnPick(rng, 1, 4)) // octets behind Length
		case 1:
			if len(as) > 0 {
				as[len(as)-1].decl = lnPick(rng, 0, 1, 2+len(as[len(as)-1].v)+1, 255)
			}
		}
		return radBuild(rng, as, 0, 0)
	}
	g := lmGenCfg{
		valid:   valid,
		hdrLen:  func(p []byte) int { return len(p) },
		residue: func(rng *rand.Rand) []byte { return radBuild(rng, []radAttr{{1, -1, []byte("bob")}, {79, -1, []byte{2, 0, 0, 4}}, {80, -1, lnRandBytes(rng, 16)}}, 0, 0) },
		spec: func(rng *rand.Rand) string {
			var as []string
			for k := lnPick(rng, 0, 1, 2, 3); k > 0; k-- {
				v := lnRandBytes(rng, lnPick(rng, 0, 1, 4, 16, 253, 254, 255, 256))
				as = append(as, fmt.Sprintf("%d~%d~%s", lnPick(rng, 1, 79, 0, 255), lnPick(rng, 2+len(v), 0, 2, 255)%256, lnHex(v)))
			}
			a := "-"
			if len(as) > 0 {
				a = strings.Join(as, "+")
			}
			return fmt.Sprintf("%d.%d.%d.%s.%s", lnPick(rng, 1, 2, 0, 255), rng.Intn(256), lnPick(rng, 0, 20, 4096, 65535), lnHex(lnRandBytes(rng, 16)), a)
		},
		seeds: append(append(lmUDPSeeds(1812), lmUDPSeeds(1813)...), lmUDPSeeds(1645)...),
		extra: func(rng *rand.Rand, add func(ops ...string)) {
			// attribute length octet 0,1,2,3, exact, one more, 255 for the last attribute; value lengths 0,1,253
			for _, vl := range []int{0, 1, 4, 253} {
				for _, d := range []int{0, 1, 2, 3, -1, vl + 3, 255} {
					p := radBuild(rng, []radAttr{{1, -1, []byte{7, 7}}, {79, d, lnRandBytes(rng, vl)}}, 0, 0)
					add("tag:attr-length-extreme", "dec:"+lnHex(p))
					add("tag:attr-length-extreme", "dec2:"+lnHex(radBuild(rng, []radAttr{{79, -1, []byte{1, 2, 3}}}, 0, 0))+","+lnHex(p))
					add("tag:attr-length-extreme", "rt:"+lnHex(p)+",")
					add("tag:attr-length-extreme", "ser:"+lnHex(p)+","+lnFCD[rng.Intn(len(lnFCD))]+",")
				}
			}
			// packet length field: below 20, short by 1/2, exact, long by 1, 4096, 4097; data of 4096 / 4097 octets
			for _, d := range []int{-100, -3, -2, -1, 1, 4000} {
				p := radBuild(rng, []radAttr{{1, -1, []byte("alice")}}, d, 0)
				add("tag:length-extreme", "dec:"+lnHex(p))
				add("tag:length-extreme", "dec2:"+lnHex(radBuild(rng, []radAttr{{79, -1, []byte{1, 2, 3}}}, 0, 0))+","+lnHex(p))
			}
			var many []radAttr
			for len(many) < 16 {
				many = append(many, radAttr{lnPick(rng, 1, 79), -1, lnRandBytes(rng, 253)})
			}
			big := radBuild(rng, many, 0, 0) // 20 + 16*255 = 4100 > 4096
			add("tag:length-extreme", "dec:"+lnHex(big))
			add("tag:length-extreme", "dec:"+lnHex(big[:4096]))
			b2 := radBuild(rng, many[:15], 0, 0)
			add("tag:length-extreme", "dec:"+lnHex(b2))
			add("tag:length-extreme", "rt:"+lnHex(b2)+",")
			// header only; header only after a packet with attributes (the early return)
			add("tag:header-only", "dec2:"+lnHex(radBuild(rng, []radAttr{{79, -1, []byte{9, 9}}}, 0, 0))+","+lnHex(radBuild(rng, nil, 0, 0)))
			add("tag:header-only", "rt:"+lnHex(radBuild(rng, nil, 0, 0))+",")
		},
	}
	return lmGen(lradiusDesc, g, rng, tier)
}
