package main

// Ldot1q: layers/dot1q.go codec sub-check (C19, C05, C06, C07, C01 for 802.1Q).
// Ops:  dec:<hex>  dec2:<hexA>,<hexB>  ser:<hex>,<fcd>,<payloadhex>  rt:<hex>,<payloadhex>
//       new:<prio>.<dei>.<vid>.<type>,<fcd>,<payloadhex>   rtn:<prio>.<dei>.<vid>.<type>,<payloadhex>

import (
	"bytes"
	"fmt"
	"math/rand"
	"strings"

	"github.com/gopacket/gopacket"
	"github.com/gopacket/gopacket/layers"
)

type ldot1q struct{}

func init() { register("Ldot1q", ldot1q{}) }

func qFields(q *layers.Dot1Q) string {
	return fmt.Sprintf("prio=%d;dei=%s;vid=%d;ty=%d", q.Priority, lnB(q.DropEligible), q.VLANIdentifier, uint16(q.Type))
}

func qNext(q *layers.Dot1Q) (s string) {
	defer func() {
		if recover() != nil {
			s = "panic"
		}
	}()
	if q.NextLayerType() == q.Type.LayerType() {
		return fmt.Sprint(uint16(q.Type))
	}
	return fmt.Sprintf("other%d", q.NextLayerType())
}

func qObs(cls string, tr bool, q *layers.Dot1Q) string {
	return fmt.Sprintf("cls=%s;tr=%s;%s;c=%s;p=%s;next=%s;render=%s", cls, lnB(tr), qFields(q), lnHex(q.Contents), lnHex(q.Payload), qNext(q), lnRender(q))
}

func qDecode(q *layers.Dot1Q, data []byte) (string, bool) {
	fb := &lnFeedback{}
	cls := lnClass(func() error { return q.DecodeFromBytes(lnCopy(data), fb) })
	return cls, fb.tr
}

func qFromSpec(spec string) *layers.Dot1Q {
	f := strings.Split(spec, ".")
	return &layers.Dot1Q{Priority: uint8(lnAtoi(f[0])), DropEligible: f[1] == "1", VLANIdentifier: uint16(lnAtoi(f[2])), Type: layers.EthernetType(lnAtoi(f[3]))}
}

func (ldot1q) Run(c Case) (res Result) {
	for _, op := range c.Ops {
		name, a := lnOp(op)
		switch name {
		case "tag":
			res.Tags = append(res.Tags, a[0])
		case "dec":
			q := &layers.Dot1Q{}
			cls, tr := qDecode(q, lnUnhex(a[0]))
			obs := qObs(cls, tr, q)
			res.Obs = append(res.Obs, obs)
			if cls == "panic" {
				res.Oracle = append(res.Oracle, "C19:panic\tDot1Q.DecodeFromBytes panicked")
			}
			if strings.HasSuffix(obs, "render=panic") {
				res.Oracle = append(res.Oracle, "C01:render-panic\trenderer panicked after decode class "+cls)
			}
			if q.DropEligible {
				res.Tags = append(res.Tags, "drop-eligible")
			}
		case "dec2":
			q := &layers.Dot1Q{}
			qDecode(q, lnUnhex(a[0]))
			if q.DropEligible || q.Priority != 0 {
				res.Tags = append(res.Tags, "residue-flags")
			}
			cls, tr := qDecode(q, lnUnhex(a[1]))
			obs := qObs(cls, tr, q)
			res.Obs = append(res.Obs, obs)
			fr := &layers.Dot1Q{}
			fcls, ftr := qDecode(fr, lnUnhex(a[1]))
			fobs := qObs(fcls, ftr, fr)
			if cls == "panic" {
				res.Oracle = append(res.Oracle, "C19:panic\tDot1Q.DecodeFromBytes panicked on a reused object")
			} else if cls != fcls || tr != ftr || (cls == "ok" && obs != fobs) {
				res.Oracle = append(res.Oracle, fmt.Sprintf("C05:stale\treused: %s fresh: %s", obs, fobs))
			}
		case "ser", "new":
			var mk func() *layers.Dot1Q
			if name == "ser" {
				data := lnUnhex(a[0])
				mk = func() *layers.Dot1Q { q := &layers.Dot1Q{}; qDecode(q, data); return q }
			} else {
				mk = func() *layers.Dot1Q { return qFromSpec(a[0]) }
			}
			fix, csum, d := lnParseFCD(a[1])
			payload := lnUnhex(a[2])
			q := mk()
			cls, out := lnSerialize(q, d, payload, fix, csum)
			res.Obs = append(res.Obs, fmt.Sprintf("cls=%s;out=%s;%s", cls, lnHex(out), qFields(q)))
			if d == 1 {
				res.Tags = append(res.Tags, "dirty-buffer")
			}
			if !fix {
				res.Tags = append(res.Tags, "no-fixlengths")
			}
			if len(payload)%2 == 1 {
				res.Tags = append(res.Tags, "odd-payload")
			}
			res.Oracle = append(res.Oracle, lnJunkOracle(func() gopacket.SerializableLayer { return mk() }, payload, fix, csum)...)
		case "rt", "rtn":
			payload := lnUnhex(a[1])
			var q *layers.Dot1Q
			if name == "rt" {
				q = &layers.Dot1Q{}
				if cls, _ := qDecode(q, lnUnhex(a[0])); cls != "ok" {
					res.Obs = append(res.Obs, "first="+cls)
					break
				}
			} else {
				q = qFromSpec(a[0])
			}
			scls, out := lnSerialize(q, 0, payload, true, true)
			if scls != "ok" {
				res.Obs = append(res.Obs, "ser="+scls)
				if scls == "panic" {
					res.Oracle = append(res.Oracle, "C07:panic\tSerializeTo panicked")
				}
				break
			}
			res.Tags = append(res.Tags, "roundtrip")
			q2 := &layers.Dot1Q{}
			cls2, tr2 := qDecode(q2, out)
			res.Obs = append(res.Obs, qObs(cls2, tr2, q2))
			if q.Priority > 7 {
				break // out of range: the priority is a 3 bit field
			}
			switch {
			case cls2 != "ok":
				res.Oracle = append(res.Oracle, "C06:roundtrip\tsecond decode: "+cls2)
			case tr2:
				res.Oracle = append(res.Oracle, "C06:roundtrip\tsecond decode sets truncated")
			default:
				if f1, f2 := qFields(q), qFields(q2); f1 != f2 {
					res.Oracle = append(res.Oracle, fmt.Sprintf("C06:roundtrip\tfields differ: written %s read %s", f1, f2))
				}
				if !bytes.Equal(q2.Payload, payload) {
					res.Oracle = append(res.Oracle, "C06:roundtrip\tpayload differs")
				}
				c3, out3 := lnSerialize(q2, 1, payload, true, true)
				if c3 != "ok" || !bytes.Equal(out3, out) {
					res.Oracle = append(res.Oracle, "C06:fixpoint\tre-serialized bytes differ")
				}
			}
		default:
			panic("Ldot1q: unknown op " + op)
		}
	}
	return
}

func (ldot1q) Gen(rng *rand.Rand, tier string) []Case {
	var out []Case
	add := func(ops ...string) { out = append(out, Case{Prop: "Ldot1q", Ops: ops}) }
	scale := 1
	if tier == "thorough" {
		scale = 8
	}
	hx := lnHex
	payloads := func() []byte { return lnRandBytes(rng, lnPick(rng, 0, 1, 2, 3, 7, 8, 33, 64)) }
	tagged := func() []byte {
		h := []byte{byte(rng.Intn(256)), byte(rng.Intn(256)), 0, 0}
		t := lnPick(rng, 0x0800, 0x86dd, 0x8100, 0x88a8, 0x0806, 0, 5, rng.Intn(65536))
		h[2], h[3] = byte(t>>8), byte(t)
		return append(h, payloads()...)
	}
	// every value of the first byte (priority, DEI, VLAN high nibble) with boundary low bytes
	for b0 := 0; b0 < 256; b0++ {
		for _, b1 := range []int{0, 1, 0xff} {
			if b0%8 != 0 && b1 == 1 && scale == 1 {
				continue
			}
			p := []byte{byte(b0), byte(b1), 0x08, 0x00, 0x45}
			add("dec:" + hx(p))
			if b1 == 0xff {
				add("rt:" + hx(p) + "," + hx(payloads()))
			}
		}
	}
	for i := 0; i < 60*scale; i++ {
		p := tagged()
		add("dec:" + hx(p))
		add("rt:" + hx(p) + "," + hx(payloads()))
		pl := payloads()
		for _, fcd := range lnFCD[:6] {
			add("ser:" + hx(p) + "," + fcd + "," + hx(pl))
		}
		add("ser:" + hx(p) + "," + lnFCD[6+rng.Intn(6)] + "," + hx(payloads()))
		for k := 0; k <= 5 && k <= len(p); k++ {
			add("tag:truncated-prefix-of-valid", "dec:"+hx(p[:k]))
			add("tag:truncated-prefix-of-valid", "dec2:"+hx(tagged())+","+hx(p[:k]))
			add("tag:truncated-prefix-of-valid", "ser:"+hx(p[:k])+","+lnFCD[rng.Intn(len(lnFCD))]+","+hx(payloads()))
		}
		add("dec2:" + hx(tagged()) + "," + hx(p))
	}
	for i := 0; i < 200*scale; i++ {
		spec := fmt.Sprintf("%d.%d.%d.%d", lnPick(rng, 0, 1, 7, 8, 255, rng.Intn(8)), rng.Intn(2),
			lnPick(rng, 0, 1, 4094, 4095, 4096, 65535, rng.Intn(4096)), lnPick(rng, 0, 0x0800, 0x8100, 65535, rng.Intn(65536)))
		add("tag:field-extreme", "new:"+spec+","+lnFCD[rng.Intn(len(lnFCD))]+","+hx(payloads()))
		add("tag:field-extreme", "rtn:"+spec+","+hx(payloads()))
	}
	// field bounds from both sides: VLAN id 4094..4097 (12 bit, > 0xFFF refused), priority 6..9 (3 bit)
	for _, vid := range []int{4094, 4095, 4096, 4097} {
		for _, prio := range []int{0, 6, 7, 8, 9} {
			for dei := 0; dei < 2; dei++ {
				spec := fmt.Sprintf("%d.%d.%d.2048", prio, dei, vid)
				add("tag:field-extreme", "new:"+spec+","+lnFCD[rng.Intn(len(lnFCD))]+","+hx(payloads()))
				add("tag:field-extreme", "rtn:"+spec+","+hx(payloads()))
			}
		}
	}
	// seeds: 802.1Q tagged frames among the packet literals of layers/*_test.go, their tags
	n := 0
	for _, s := range lnEthSeeds(0x8100) {
		if n++; tier != "thorough" && n > 30 {
			break
		}
		if len(s) > 300 {
			s = s[:300]
		}
		add("dec:" + hx(s))
		add("rt:" + hx(s) + "," + hx(s[4:]))
		add("ser:" + hx(s) + "," + lnFCD[rng.Intn(len(lnFCD))] + "," + hx(payloads()))
	}
	for i := 0; i < 80*scale; i++ {
		q := lnRandBytes(rng, lnPick(rng, 0, 1, 3, 4, 5, rng.Intn(30)))
		add("dec:" + hx(q))
		add("dec2:" + hx(tagged()) + "," + hx(q))
	}
	return out
}
