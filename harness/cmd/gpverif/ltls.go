package main

// Ltls: layers/tls*.go codec sub-check (C19, C05, C06, C07, C01 for TLS: record walk, ChangeCipherSpec / Alert /
// AppData / Handshake records, ClientHello and server_name parsing, serializer).
// Ops: dec dec2 ser rt (lmisc_common.go) plus
//   new:<recs>,<fcd>,<payloadhex> and rtn:<recs>,<payloadhex>, <recs> = "-" or records joined by "+":
//   c~ct~ver~len~msg | h~ct~ver~len | a~ct~ver~len~payloadhex | l~ct~ver~len~level~descr~enchex
// The input slice handed to the decoder has cap = len (ClientHello.decodeFromBytes re-slices to the capacity).

import (
	"fmt"
	"math/rand"
	"strings"

	"github.com/gopacket/gopacket"
	"github.com/gopacket/gopacket/layers"
)

type ltls struct{}

func init() { register("Ltls", ltls{}) }

func tlHdr(h layers.TLSRecordHeader) string {
	return fmt.Sprintf("%d~%d~%d", uint8(h.ContentType), uint16(h.Version), h.Length)
}

func tlFields(l gopacket.Layer) string {
	t := l.(*layers.TLS)
	var c, h, a, al []string
	for _, r := range t.ChangeCipherSpec {
		c = append(c, fmt.Sprintf("%s~%d", tlHdr(r.TLSRecordHeader), uint8(r.Message)))
	}
	for _, r := range t.Handshake {
		ch := r.ClientHello
		h = append(h, fmt.Sprintf("%s~%d~%d~%d~%s~%d~%s~%d~%s~%d~%s~%d~%s~%s", tlHdr(r.TLSRecordHeader), ch.HandshakeType, ch.Length, uint16(ch.ProtocolVersion),
			lnHex(ch.Random), ch.SessionIDLength, lnHex(ch.SessionID), ch.CipherSuitsLength, lnHex(ch.CipherSuits), ch.CompressionMethodsLength,
			lnHex(ch.CompressionMethods), ch.ExtensionsLength, lnHex(ch.Extensions), lnHex(ch.SNI)))
	}
	for _, r := range t.AppData {
		a = append(a, fmt.Sprintf("%s~%s", tlHdr(r.TLSRecordHeader), lnHex(r.Payload)))
	}
	for _, r := range t.Alert {
		al = append(al, fmt.Sprintf("%s~%d~%d~%s", tlHdr(r.TLSRecordHeader), uint8(r.Level), uint8(r.Description), lnHex(r.EncryptedMsg)))
	}
	return fmt.Sprintf("ccs=%s;hs=%s;app=%s;alert=%s", strings.Join(c, "|"), strings.Join(h, "|"), strings.Join(a, "|"), strings.Join(al, "|"))
}

func tlExact(b []byte) []byte {
	c := make([]byte, len(b)) // cap = len
	copy(c, b)
	return c
}

var ltlsDesc = &lmDesc{
	id: "Ltls", name: "TLS", ser: true,
	fresh: func() gopacket.Layer { return &layers.TLS{} },
	decode: func(l gopacket.Layer, data []byte, fb gopacket.DecodeFeedback) error {
		return l.(*layers.TLS).DecodeFromBytes(tlExact(data), fb)
	},
	fields: tlFields,
	next: func(l gopacket.Layer, _ *lmBuilder) string {
		if t := l.(*layers.TLS).NextLayerType(); t != gopacket.LayerTypeZero {
			return fmt.Sprintf("other%d", t)
		}
		return "0"
	},
	fromSpec: func(spec string) gopacket.Layer {
		t := &layers.TLS{}
		if spec == "-" {
			return t
		}
		for _, rs := range strings.Split(spec, "+") {
			q := strings.Split(rs, "~")
			h := layers.TLSRecordHeader{ContentType: layers.TLSType(lnAtoi(q[1])), Version: layers.TLSVersion(lnAtoi(q[2])), Length: uint16(lnAtoi(q[3]))}
			switch q[0] {
			case "c":
				t.ChangeCipherSpec = append(t.ChangeCipherSpec, layers.TLSChangeCipherSpecRecord{TLSRecordHeader: h, Message: layers.TLSchangeCipherSpec(lnAtoi(q[4]))})
			case "h":
				t.Handshake = append(t.Handshake, layers.TLSHandshakeRecord{TLSRecordHeader: h})
			case "a":
				t.AppData = append(t.AppData, layers.TLSAppDataRecord{TLSRecordHeader: h, Payload: lnUnhex(q[4])})
			case "l":
				t.Alert = append(t.Alert, layers.TLSAlertRecord{TLSRecordHeader: h, Level: layers.TLSAlertLevel(lnAtoi(q[4])), Description: layers.TLSAlertDescr(lnAtoi(q[5])), EncryptedMsg: lnUnhex(q[6])})
			}
		}
		return t
	},
	// C06 hypothesis: no payload after the layer, at least one record, no Handshake record (SerializeTo writes only its header: "TODO" in the
	// source), content types matching the lists, ChangeCipherSpec message 1 or 255, an encrypted alert of 3..65535 octets with level and
	// description 255, application data below 2^16 octets.
	inDomain: func(l gopacket.Layer, payload []byte) bool {
		t := l.(*layers.TLS)
		if len(payload) != 0 || len(t.Handshake) != 0 || len(t.ChangeCipherSpec)+len(t.AppData)+len(t.Alert) == 0 {
			return false
		}
		for _, r := range t.ChangeCipherSpec {
			if r.ContentType != 20 || (r.Message != 1 && r.Message != 255) {
				return false
			}
		}
		for _, r := range t.AppData {
			if r.ContentType != 23 || len(r.Payload) > 65535 {
				return false
			}
		}
		for _, r := range t.Alert {
			n := len(r.EncryptedMsg)
			if r.ContentType != 21 || n == 1 || n == 2 || n > 65535 || (n > 0 && (r.Level != 255 || r.Description != 255)) {
				return false
			}
		}
		return true
	},
	rtPayload: func(l gopacket.Layer, payload []byte) []byte { return nil },
	extra: func(l gopacket.Layer) []func() {
		t := l.(*layers.TLS)
		return []func(){func() {
			_ = t.Payload()
			_ = t.CanDecode()
			for _, r := range t.Alert {
				_, _ = r.Level.String(), r.Description.String()
			}
			for _, r := range t.ChangeCipherSpec {
				_ = r.Message.String()
			}
			for _, r := range t.Handshake {
				_, _ = r.ContentType.String(), r.Version.String()
			}
		}}
	},
	tags: func(l gopacket.Layer, cls string, data []byte) []string {
		t := l.(*layers.TLS)
		var tg []string
		n := len(t.ChangeCipherSpec) + len(t.Handshake) + len(t.AppData) + len(t.Alert)
		if n > 1 {
			tg = append(tg, "multi-record")
		}
		if cls == "err" && n > 0 {
			tg = append(tg, "error-after-add")
		}
		for _, r := range t.Handshake {
			if r.ClientHello.HandshakeType == 1 {
				tg = append(tg, "clienthello")
				if len(r.ClientHello.SNI) > 0 {
					tg = append(tg, "sni")
				}
				if len(r.ClientHello.Extensions) > 0 {
					tg = append(tg, "extensions")
				}
				ch := r.ClientHello
				if 39+int(ch.SessionIDLength)+2+int(ch.CipherSuitsLength)+1+int(ch.CompressionMethodsLength)+2+int(ch.ExtensionsLength) > int(r.Length) {
					tg = append(tg, "clienthello-beyond-record")
				}
			} else if r.Length >= 16 {
				tg = append(tg, "encrypted-handshake")
			}
		}
		for _, r := range t.Alert {
			if len(r.EncryptedMsg) > 0 {
				tg = append(tg, "encrypted-alert")
			}
		}
		return tg
	},
}

// tlHasClientHello: does a walk of the records (by the harness) meet a handshake record whose first octet is 1?
func tlHasClientHello(data []byte) bool {
	for len(data) >= 5 {
		n := int(data[3])<<8 | int(data[4])
		if data[0] == 22 && len(data) > 5 && data[5] == 1 {
			return true
		}
		if 5+n > len(data) {
			return false
		}
		data = data[5+n:]
	}
	return false
}

// Run adds to the generic ops an oracle for dec: the same bytes decoded as a slice of a larger array (cap > len, the array
// continuing with zeros) must give the same result as decoded with cap = len: a decoder may not read past the slice it is given.
func (ltls) Run(c Case) Result {
	r := lmRun(ltlsDesc, c)
	for _, op := range c.Ops {
		name, a := lnOp(op)
		if name != "dec" {
			continue
		}
		data := lnUnhex(a[0])
		exact := &layers.TLS{}
		ce := lnClass(func() error { return exact.DecodeFromBytes(tlExact(data), &lnFeedback{}) })
		big := make([]byte, len(data)+96)
		copy(big, data)
		wide := &layers.TLS{}
		cw := lnClass(func() error { return wide.DecodeFromBytes(big[:len(data)], &lnFeedback{}) })
		if ce != cw || tlFields(exact) != tlFields(wide) {
			site := "other"
			if tlHasClientHello(data) {
				site = "ClientHello"
			}
			r.Oracle = append(r.Oracle, fmt.Sprintf("C05:beyond-slice\tsite=%s; decoding data[:n] of a larger array differs from decoding a slice with cap = len (%s vs %s)", site, cw, ce))
			r.Tags = append(r.Tags, "capacity-dependent")
		}
	}
	return r
}

// tlRec: one record; decl < 0 means len(body).
func tlRec(ct byte, ver int, body []byte, decl int) []byte {
	if decl < 0 {
		decl = len(body)
	}
	return append([]byte{ct, byte(ver >> 8), byte(ver), byte(decl >> 8), byte(decl)}, body...)
}

type tlCHp struct {
	sid, cs, cm, exts            []byte
	sidl, csl, cml, extl, hlen   int // declared lengths; < 0 = consistent
	noExt                        bool
	htype                        byte
}

// tlCH: the handshake message (type, 24-bit length, body) of a ClientHello and the offsets of its internal field boundaries.
func tlCH(rng *rand.Rand, p tlCHp) (msg []byte, bounds []int) {
	or := func(v, d int) int {
		if v < 0 {
			return d
		}
		return v
	}
	b := []byte{p.htype, 0, 0, 0, 3, 3}
	bounds = append(bounds, 1, 4, 6)
	b = append(b, lnRandBytes(rng, 32)...)
	bounds = append(bounds, len(b))
	b = append(b, byte(or(p.sidl, len(p.sid))))
	bounds = append(bounds, len(b))
	b = append(b, p.sid...)
	bounds = append(bounds, len(b))
	n := or(p.csl, len(p.cs))
	b = append(b, byte(n>>8), byte(n))
	bounds = append(bounds, len(b)-1, len(b))
	b = append(b, p.cs...)
	bounds = append(bounds, len(b))
	b = append(b, byte(or(p.cml, len(p.cm))))
	bounds = append(bounds, len(b))
	b = append(b, p.cm...)
	bounds = append(bounds, len(b))
	if !p.noExt {
		n = or(p.extl, len(p.exts))
		b = append(b, byte(n>>8), byte(n))
		bounds = append(bounds, len(b)-1, len(b))
		for i := 1; i <= len(p.exts); i++ { // every offset inside the extensions block is a boundary candidate
			bounds = append(bounds, len(b)+i)
		}
		b = append(b, p.exts...)
	}
	hl := or(p.hlen, len(b)-4)
	b[1], b[2], b[3] = byte(hl>>16), byte(hl>>8), byte(hl)
	return b, bounds
}

func tlExt(typ int, body []byte, decl int) []byte {
	if decl < 0 {
		decl = len(body)
	}
	return append([]byte{byte(typ >> 8), byte(typ), byte(decl >> 8), byte(decl)}, body...)
}

// tlSNI: body of a server_name extension: list length, entry type, host length, host.
func tlSNI(host []byte, snel, et, hl int) []byte {
	if snel < 0 {
		snel = len(host) + 3
	}
	if hl < 0 {
		hl = len(host)
	}
	return append([]byte{byte(snel >> 8), byte(snel), byte(et), byte(hl >> 8), byte(hl)}, host...)
}

func (ltls) Gen(rng *rand.Rand, tier string) []Case {
	var out []Case
	hx := lnHex
	add := func(tag string, ops ...string) {
		all := []string{}
		if tag != "" {
			all = append(all, "tag:"+tag)
		}
		out = append(out, Case{Prop: "Ltls", Ops: append(all, ops...)})
	}
	scale := 1
	if tier == "thorough" {
		scale = 6
	}
	ver := func() int { return lnPick(rng, 0x0301, 0x0303, 0x0303, 0x0304, 0x0200, 0, 0xffff) }
	fcd := func() string { return lnFCD[rng.Intn(len(lnFCD))] }
	randCH := func() tlCHp {
		host := []byte("example.org")[:lnPick(rng, 0, 1, 7, 11)]
		exts := append(tlExt(lnPick(rng, 10, 11, 13, 35, 65281), lnRandBytes(rng, lnPick(rng, 0, 1, 4)), -1), tlExt(0, tlSNI(host, -1, 0, -1), -1)...)
		if rng.Intn(3) == 0 {
			exts = append(exts, tlExt(16, lnRandBytes(rng, 5), -1)...)
		}
		return tlCHp{sid: lnRandBytes(rng, lnPick(rng, 0, 0, 32, 5)), cs: lnRandBytes(rng, 2*lnPick(rng, 1, 2, 8)), cm: []byte{0}, exts: exts,
			sidl: -1, csl: -1, cml: -1, extl: -1, hlen: -1, htype: 1}
	}
	chRec := func(p tlCHp) []byte { m, _ := tlCH(rng, p); return tlRec(22, 0x0301, m, -1) }
	randRec := func() []byte {
		switch rng.Intn(7) {
		case 0:
			return tlRec(20, ver(), []byte{byte(lnPick(rng, 1, 1, 0, 2, 255))}, -1)
		case 1:
			return tlRec(21, ver(), []byte{byte(lnPick(rng, 1, 2, 0, 255)), byte(lnPick(rng, 0, 40, 70, 255, 3))}, -1)
		case 2:
			return tlRec(21, ver(), lnRandBytes(rng, lnPick(rng, 3, 18, 26, 40)), -1)
		case 3:
			return chRec(randCH())
		case 4: // encrypted handshake / other plaintext handshake types
			n := lnPick(rng, 16, 20, 40)
			b := lnRandBytes(rng, n)
			if rng.Intn(2) == 0 {
				b[0], b[1], b[2], b[3] = byte(lnPick(rng, 16, 16, 2, 11, 20, 99)), 0, 0, byte(n-4)
			}
			return tlRec(22, ver(), b, -1)
		case 5:
			return tlRec(22, ver(), append([]byte{16, 0, 0, byte(lnPick(rng, 0, 4, 9))}, lnRandBytes(rng, lnPick(rng, 0, 4, 9))...), -1)
		default:
			return tlRec(23, ver(), lnRandBytes(rng, lnPick(rng, 0, 1, 2, 17, 60)), -1)
		}
	}
	randMsg := func() []byte {
		var m []byte
		for k := lnPick(rng, 1, 1, 2, 3, 5); k > 0; k-- {
			m = append(m, randRec()...)
		}
		return m
	}
	residue := func() []byte { // leaves records of every kind in the receiver
		m := tlRec(20, 0x0303, []byte{1}, -1)
		m = append(m, chRec(randCH())...)
		m = append(m, tlRec(23, 0x0303, lnRandBytes(rng, 9), -1)...)
		m = append(m, tlRec(21, 0x0303, lnRandBytes(rng, 18), -1)...)
		return append(m, tlRec(21, 0x0303, []byte{2, 40}, -1)...)
	}
	full := func(tag string, p []byte) {
		add(tag, "dec:"+hx(p))
		add(tag, "dec2:"+hx(residue())+","+hx(p))
		add(tag, "ser:"+hx(p)+","+fcd()+","+hx(lnRandBytes(rng, lnPick(rng, 0, 0, 3))))
		add(tag, "rt:"+hx(p)+",")
	}
	// (1) random record sequences
	for i := 0; i < 60*scale; i++ {
		m := randMsg()
		full("", m)
		for _, f := range lnFCD[:6] {
			add("", "ser:"+hx(m)+","+f+",")
		}
	}
	for i := 0; i < 20*scale; i++ { // the first packet fails after some records were appended
		first := append(residue(), lnRandBytes(rng, lnPick(rng, 1, 4, 9))...)
		add("", "dec2:"+hx(first)+","+hx(randMsg()))
	}
	// (2) every truncation of a multi-record message containing a ClientHello
	for i := 0; i < 3*scale; i++ {
		m := append(tlRec(20, 0x0303, []byte{1}, -1), chRec(randCH())...)
		m = append(m, tlRec(21, 0x0303, []byte{1, 0}, -1)...)
		m = append(m, tlRec(23, 0x0303, lnRandBytes(rng, 6), -1)...)
		for k := 0; k <= len(m); k++ {
			add("truncated-prefix-of-valid", "dec:"+hx(m[:k]))
			if k%3 == 0 {
				add("truncated-prefix-of-valid", "dec2:"+hx(residue())+","+hx(m[:k]))
				add("truncated-prefix-of-valid", "ser:"+hx(m[:k])+","+fcd()+",")
			}
		}
	}
	// (3) record length / content type extremes for every record kind, alone and followed by another record
	for _, ct := range []byte{20, 21, 22, 23, 0, 19, 24, 255} {
		for _, body := range [][]byte{{}, {1}, {1, 0}, {2, 40, 7}, lnRandBytes(rng, 15), lnRandBytes(rng, 16), lnRandBytes(rng, 17)} {
			for _, d := range []int{-1, 0, 1, 2, 3, len(body) - 1, len(body) + 1, 15, 16, 0xffff} {
				if d < -1 {
					continue
				}
				r := tlRec(ct, 0x0303, body, d)
				add("record-length-extreme", "dec:"+hx(r))
				r2 := append(lnCopy(r), tlRec(23, 0x0303, []byte{9, 9}, -1)...)
				add("record-length-extreme", "dec:"+hx(r2))
				if rng.Intn(4) == 0 {
					add("record-length-extreme", "dec2:"+hx(residue())+","+hx(r2))
					add("record-length-extreme", "ser:"+hx(r2)+","+fcd()+",")
				}
			}
		}
	}
	// (4) handshake records: types, the plaintext test (record length - 24-bit length = 4, known type), short records
	for _, ht := range []byte{0, 1, 2, 3, 11, 16, 20, 4, 99, 255} {
		for _, n := range []int{1, 4, 5, 15, 16, 17, 39, 40, 60} {
			for _, dl := range []int{n - 4, n - 3, n - 5, 0, 0xffffff} {
				if dl < 0 {
					continue
				}
				b := lnRandBytes(rng, n)
				b[0] = ht
				if n >= 4 {
					b[1], b[2], b[3] = byte(dl>>16), byte(dl>>8), byte(dl)
				}
				r := tlRec(22, 0x0303, b, -1)
				add("handshake-type-length", "dec:"+hx(r))
				if rng.Intn(3) == 0 {
					add("handshake-type-length", "dec:"+hx(append(lnCopy(r), lnRandBytes(rng, 50)...))) // bytes after the record: the ClientHello parser reads them
					add("handshake-type-length", "dec2:"+hx(residue())+","+hx(r))
				}
			}
		}
	}
	// (5) ClientHello inner length fields forced
	ext0 := tlExt(0, tlSNI([]byte("host.example"), -1, 0, -1), -1)
	for _, f := range []string{"sidl", "csl", "cml", "extl", "hlen"} {
		for _, v := range []int{0, 1, 2, 3, 31, 32, 33, 254, 255, 256, 0xfffe, 0xffff} {
			p := tlCHp{sid: lnRandBytes(rng, 32), cs: lnRandBytes(rng, 4), cm: []byte{0}, exts: ext0, sidl: -1, csl: -1, cml: -1, extl: -1, hlen: -1, htype: 1}
			switch f {
			case "sidl":
				p.sidl = v & 0xff
			case "csl":
				p.csl = v
			case "cml":
				p.cml = v & 0xff
			case "extl":
				p.extl = v
			case "hlen":
				p.hlen = v
			}
			m, _ := tlCH(rng, p)
			r := tlRec(22, 0x0303, m, -1)
			add("clienthello-length-extreme", "dec:"+hx(r))
			add("clienthello-length-extreme", "dec:"+hx(append(lnCopy(r), lnRandBytes(rng, 300)...)))
			// off by one around the bound the code checks: the declared length reaches exactly the end of the data, one less, one more
			for _, pad := range []int{v - 40, v - 20, v - 4, v - 3, v - 2, v - 1, v, v + 1} {
				if pad >= 0 && pad <= 400 {
					add("clienthello-length-extreme", "dec:"+hx(append(lnCopy(r), lnRandBytes(rng, pad)...)))
				}
			}
		}
	}
	// (6) extensions: declared extension length, server_name inner fields (list length, entry type, host length incl. the uint16 wrap values)
	mkCH := func(exts []byte) []byte {
		m, _ := tlCH(rng, tlCHp{sid: nil, cs: []byte{0, 47}, cm: []byte{0}, exts: exts, sidl: -1, csl: -1, cml: -1, extl: -1, hlen: -1, htype: 1})
		return tlRec(22, 0x0301, m, -1)
	}
	host := []byte("a.example.com")
	for _, hl := range []int{-1, 0, 1, len(host) - 1, len(host) + 1, len(host) + 2, 100, 0x7fff, 0xfff6, 0xfff7, 0xfff8, 0xfff9, 0xfffe, 0xffff} {
		for _, snel := range []int{-1, 0, 1} {
			for _, et := range []int{0, 1} {
				e := tlExt(0, tlSNI(host, snel, et, hl), -1)
				for _, tail := range [][]byte{nil, tlExt(11, []byte{1, 0}, -1)} {
					r := mkCH(append(lnCopy(e), tail...))
					add("sni-length-extreme", "dec:"+hx(r))
					if snel == -1 && et == 0 {
						add("sni-length-extreme", "dec2:"+hx(residue())+","+hx(r))
						add("sni-length-extreme", "ser:"+hx(r)+","+fcd()+",")
					}
				}
			}
		}
	}
	for n := 0; n <= 12; n++ { // server_name extension data of every short length
		b := tlSNI(host, -1, 0, -1)
		for _, hl := range []int{0, 1, 0xffff} {
			if n >= 5 {
				b[3], b[4] = byte(hl>>8), byte(hl)
			}
			add("sni-length-extreme", "dec:"+hx(mkCH(tlExt(0, b[:n], -1))))
			add("sni-length-extreme", "dec:"+hx(mkCH(append(tlExt(0, b[:n], -1), tlExt(10, []byte{0, 2, 0, 23}, -1)...))))
		}
	}
	for _, d := range []int{0, 1, 3, 4, 5, 17, 18, 19, 0xfffb, 0xfffc, 0xfffd, 0xffff} { // declared extension length
		e := tlExt(0, tlSNI(host, -1, 0, -1), d)
		add("extension-length-extreme", "dec:"+hx(mkCH(e)))
		add("extension-length-extreme", "dec:"+hx(mkCH(append(tlExt(13, []byte{4, 1}, -1), e...))))
		add("extension-length-extreme", "dec:"+hx(mkCH(append(lnCopy(e), tlExt(13, []byte{4, 1}, -1)...))))
	}
	// (7) consistent-length cuts: the ClientHello ends exactly at every internal boundary, with the extensions length, the 24-bit
	//     handshake length and the record length rewritten to agree; alone, and followed by another record (which the parser reads into)
	for i := 0; i < 2*scale; i++ {
		p := randCH()
		p.sid = lnRandBytes(rng, 4)
		m, bounds := tlCH(rng, p)
		extStart := len(m) - len(p.exts)
		for _, b := range bounds {
			if b > len(m) {
				continue
			}
			cut := lnCopy(m[:b])
			if b >= 4 {
				cut[1], cut[2], cut[3] = 0, byte((b-4)>>8), byte(b-4)
			}
			if b >= extStart {
				n := b - extStart
				cut[extStart-2], cut[extStart-1] = byte(n>>8), byte(n)
			}
			r := tlRec(22, 0x0303, cut, -1)
			add("consistent-length-cut", "dec:"+hx(r))
			add("consistent-length-cut", "dec:"+hx(append(lnCopy(r), tlRec(23, 0x0303, lnRandBytes(rng, 30), -1)...)))
			if i == 0 {
				add("consistent-length-cut", "dec2:"+hx(residue())+","+hx(r))
				add("consistent-length-cut", "ser:"+hx(r)+","+fcd()+",")
			}
		}
	}
	// (8) field-built layers
	for i := 0; i < 150*scale; i++ {
		var rs []string
		for k := lnPick(rng, 0, 1, 1, 2, 3, 4); k > 0; k-- {
			switch rng.Intn(4) {
			case 0:
				rs = append(rs, fmt.Sprintf("c~%d~%d~%d~%d", lnPick(rng, 20, 20, 20, 23, 0), ver(), lnPick(rng, 1, 1, 0, 7, 65535), lnPick(rng, 1, 1, 255, 0, 2)))
			case 1:
				rs = append(rs, fmt.Sprintf("h~%d~%d~%d", lnPick(rng, 22, 22, 20), ver(), lnPick(rng, 0, 1, 16, 65535)))
			case 2:
				n := lnPick(rng, 0, 1, 2, 5, 33)
				rs = append(rs, fmt.Sprintf("a~%d~%d~%d~%s", lnPick(rng, 23, 23, 23, 21), ver(), lnPick(rng, n, n, n, 0, n+1, 65535), hx(lnRandBytes(rng, n))))
			default:
				n := lnPick(rng, 0, 0, 1, 2, 3, 18)
				lv, ds := lnPick(rng, 1, 2, 255), lnPick(rng, 0, 40, 255)
				if n > 0 && rng.Intn(3) > 0 {
					lv, ds = 255, 255
				}
				rs = append(rs, fmt.Sprintf("l~%d~%d~%d~%d~%d~%s", lnPick(rng, 21, 21, 21, 22), ver(), lnPick(rng, 2, n, n, 0, 65535), lv, ds, hx(lnRandBytes(rng, n))))
			}
		}
		spec := "-"
		if len(rs) > 0 {
			spec = strings.Join(rs, "+")
		}
		add("field-extreme", "new:"+spec+","+fcd()+","+hx(lnRandBytes(rng, lnPick(rng, 0, 0, 3))))
		add("field-extreme", "rtn:"+spec+",")
	}
	// (9) large application data (second length octet), seeds, malformed stream
	for _, n := range []int{255, 256, 1400} {
		r := append(tlRec(23, 0x0303, lnRandBytes(rng, n), -1), tlRec(21, 0x0303, []byte{1, 0}, -1)...)
		add("large-record", "dec:"+hx(r))
		add("large-record", "rt:"+hx(r)+",")
	}
	ns := 0
	for _, s := range lnSeeds() {
		for _, off := range []int{0, 14 + 20 + 20, 14 + 20 + 32, 14 + 40 + 20, 14 + 40 + 32} {
			if len(s) > off+5 && s[off] >= 20 && s[off] <= 23 && s[off+1] == 3 && s[off+2] <= 4 {
				if ns++; ns > 40*scale {
					break
				}
				p := s[off:]
				add("seed", "dec:"+hx(p))
				add("seed", "dec2:"+hx(residue())+","+hx(p))
				add("seed", "ser:"+hx(p)+","+fcd()+",")
				add("seed", "rt:"+hx(p)+",")
			}
		}
	}
	for i := 0; i < 100*scale; i++ {
		q := lnRandBytes(rng, lnPick(rng, 0, 1, 4, 5, 6, 7, 9, 44, rng.Intn(120)))
		if len(q) > 5 && rng.Intn(3) > 0 {
			q[0] = byte(20 + rng.Intn(4))
			q[3], q[4] = 0, byte(len(q)-5-rng.Intn(2))
			if len(q) > 9 && rng.Intn(2) == 0 {
				q[5], q[6], q[7], q[8] = 1, 0, 0, byte(len(q)-9)
			}
		}
		add("malformed", "dec:"+hx(q))
		add("malformed", "dec2:"+hx(residue())+","+hx(q))
		add("malformed", "ser:"+hx(q)+","+fcd()+",")
	}
	return out
}
