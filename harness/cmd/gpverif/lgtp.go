package main

// Lgtp: layers/gtp.go codec sub-check (C19, C05, C06, C07, C01 for GTPv1U).
// Ops: dec dec2 ser rt (lmisc_common.go) plus
//   new:<ver>.<pt>.<reserved>.<ESN bits>.<mtype>.<mlen>.<teid>.<seq>.<npdu>.<exts>,<fcd>,<payloadhex> and rtn:, <exts> = "-" or <type>~<contenthex> joined by "+".

import (
	"fmt"
	"math/rand"
	"strings"

	"github.com/gopacket/gopacket"
	"github.com/gopacket/gopacket/layers"
)

type lgtp struct{}

func init() { register("Lgtp", lgtp{}) }

var lgtpDesc = &lmDesc{
	id: "Lgtp", name: "GTPv1U", ser: true,
	fresh: func() gopacket.Layer { return &layers.GTPv1U{} },
	decode: func(l gopacket.Layer, data []byte, fb gopacket.DecodeFeedback) error {
		return l.(*layers.GTPv1U).DecodeFromBytes(data, fb)
	},
	fields: func(l gopacket.Layer) string {
		g := l.(*layers.GTPv1U)
		es := make([]string, len(g.GTPExtensionHeaders))
		for i, e := range g.GTPExtensionHeaders {
			es[i] = fmt.Sprintf("%d~%s", e.Type, lnHex(e.Content))
		}
		return fmt.Sprintf("v=%d;pt=%d;r=%d;fl=%s%s%s;mt=%d;ml=%d;teid=%d;seq=%d;npdu=%d;exts=%s", g.Version, g.ProtocolType, g.Reserved, lnB(g.ExtensionHeaderFlag),
			lnB(g.SequenceNumberFlag), lnB(g.NPDUFlag), g.MessageType, g.MessageLength, g.TEID, g.SequenceNumber, g.NPDU, strings.Join(es, "+"))
	},
	next: func(l gopacket.Layer, _ *lmBuilder) string {
		switch t := l.(*layers.GTPv1U).NextLayerType(); t {
		case gopacket.LayerTypeZero:
			return "zero"
		case gopacket.LayerTypePayload:
			return "payload"
		case layers.LayerTypeIPv4:
			return "ip4"
		case layers.LayerTypeIPv6:
			return "ip6"
		case layers.LayerTypePPP:
			return "ppp"
		default:
			return fmt.Sprintf("other%d", t)
		}
	},
	fromSpec: func(spec string) gopacket.Layer {
		f := strings.Split(spec, ".")
		g := &layers.GTPv1U{Version: uint8(lnAtoi(f[0])), ProtocolType: uint8(lnAtoi(f[1])), Reserved: uint8(lnAtoi(f[2])), ExtensionHeaderFlag: f[3][0] == '1',
			SequenceNumberFlag: f[3][1] == '1', NPDUFlag: f[3][2] == '1', MessageType: uint8(lnAtoi(f[4])), MessageLength: uint16(lnAtoi(f[5])), TEID: uint32(lnAtoi(f[6])),
			SequenceNumber: uint16(lnAtoi(f[7])), NPDU: uint8(lnAtoi(f[8]))}
		if f[9] != "-" {
			for _, es := range strings.Split(f[9], "+") {
				q := strings.Split(es, "~")
				g.GTPExtensionHeaders = append(g.GTPExtensionHeaders, layers.GTPExtensionHeader{Type: uint8(lnAtoi(q[0])), Content: lnUnhex(q[1])})
			}
		}
		return g
	},
	// C06 hypothesis: version < 8, protocol type 1, reserved 0 (SerializeTo writes these), sequence/N-PDU numbers only with their flags,
	// extension headers of non-zero type with content of 4k+2 <= 1018 octets (and then the E flag, which SerializeTo sets), message below 2^16 octets
	inDomain: func(l gopacket.Layer, payload []byte) bool {
		g := l.(*layers.GTPv1U)
		if g.Version > 7 || g.ProtocolType != 1 || g.Reserved != 0 || (!g.SequenceNumberFlag && g.SequenceNumber != 0) || (!g.NPDUFlag && g.NPDU != 0) {
			return false
		}
		n := len(payload) + 4
		for _, e := range g.GTPExtensionHeaders {
			if e.Type == 0 || len(e.Content)%4 != 2 || len(e.Content) > 1018 {
				return false
			}
			n += len(e.Content) + 2
		}
		return n < 65536
	},
	tags: func(l gopacket.Layer, cls string, data []byte) []string {
		g := l.(*layers.GTPv1U)
		var t []string
		if cls == "ok" && len(g.GTPExtensionHeaders) > 0 {
			t = append(t, "extension-headers")
		}
		if cls == "ok" && g.ExtensionHeaderFlag && len(g.GTPExtensionHeaders) == 0 {
			t = append(t, "e-flag-next-type-0")
		}
		if cls == "err" && len(data) >= 8 {
			t = append(t, "error-after-fields-set")
		}
		return t
	},
}

func (lgtp) Run(c Case) Result { return lmRun(lgtpDesc, c) }

// gtpBuild: flags (low three bits E,S,PN), optional part, extension headers (type, length octet (-1 = right), content), payload; the message length is consistent + delta
func gtpBuild(rng *rand.Rand, flags byte, exts [][3]int, payload []byte, delta int) []byte {
	h := make([]byte, 8)
	h[0] = byte(lnPick(rng, 0x30, 0x30, 0x30, 0x20, 0x38, 0xf0, 0x00)) | flags&7
	h[1] = byte(lnPick(rng, 255, 255, 1, 26, 254, 0))
	lmPut32(h[4:], rng.Uint32())
	var body []byte
	if flags&7 != 0 {
		body = []byte{byte(rng.Intn(256)), byte(rng.Intn(256)), byte(rng.Intn(256)), 0}
		for i, e := range exts {
			if i == 0 {
				body[3] = byte(e[0])
			}
			lo := e[1]
			if lo < 0 {
				lo = (e[2] + 2) / 4
			}
			x := append([]byte{byte(lo)}, lnRandBytes(rng, e[2])...)
			nt := 0
			if i+1 < len(exts) {
				nt = exts[i+1][0]
			}
			body = append(body, append(x, byte(nt))...)
		}
	}
	body = append(body, payload...)
	lmPut16(h[2:], len(body)+delta)
	return append(h, body...)
}

func (lgtp) Gen(rng *rand.Rand, tier string) []Case {
	pl := func() []byte {
		p := lnRandBytes(rng, lnPick(rng, 0, 1, 20, 33))
		if len(p) > 0 {
			p[0] = byte(lnPick(rng, 0x45, 0x60, 0x21, 0x00, 0x01))
		}
		return p
	}
	valid := func(rng *rand.Rand) []byte {
		fl := byte(lnPick(rng, 0, 0, 2, 1, 3, 4, 6, 7))
		var exts [][3]int
		if fl&4 != 0 {
			for k := lnPick(rng, 0, 1, 1, 2, 3); k > 0; k-- {
				exts = append(exts, [3]int{lnPick(rng, 0x85, 0xc0, 1, 0x20), -1, lnPick(rng, 2, 2, 6, 10)})
			}
		}
		return gtpBuild(rng, fl, exts, pl(), lnPick(rng, 0, 0, 0, 0, -1, 1))
	}
	g := lmGenCfg{
		valid:   valid,
		hdrLen:  func(p []byte) int { if len(p) > 24 { return 24 }; return len(p) },
		residue: func(rng *rand.Rand) []byte { return gtpBuild(rng, 7, [][3]int{{0x85, -1, 2}, {0xc0, -1, 6}}, []byte{0x45, 0}, 0) },
		spec: func(rng *rand.Rand) string {
			var es []string
			for k := lnPick(rng, 0, 0, 1, 2); k > 0; k-- {
				es = append(es, fmt.Sprintf("%d~%s", lnPick(rng, 0x85, 1, 0, 255), lnHex(lnRandBytes(rng, lnPick(rng, 2, 2, 6, 0, 1, 3, 4, 1018, 1022)))))
			}
			e := "-"
			if len(es) > 0 {
				e = strings.Join(es, "+")
			}
			return fmt.Sprintf("%d.%d.%d.%d%d%d.%d.%d.%d.%d.%d.%s", lnPick(rng, 1, 0, 7, 8, 255), lnPick(rng, 1, 1, 0, 255), lnPick(rng, 0, 0, 1), rng.Intn(2), rng.Intn(2), rng.Intn(2),
				lnPick(rng, 255, 1, 0), lnPick(rng, 0, 1, 65535), rng.Int63n(1<<32), lnPick(rng, 0, 0, 7, 65535), lnPick(rng, 0, 0, 9, 255), e)
		},
		seeds: lmUDPSeeds(2152),
		extra: func(rng *rand.Rand, add func(ops ...string)) {
			for b := 0; b < 256; b++ { // every flags octet, with 12 more octets
				p := append([]byte{byte(b), 255, 0, 12, 0, 0, 0, 1}, lnRandBytes(rng, 12)...)
				p[11] = byte(lnPick(rng, 0, 0x85))
				add("tag:flags-every-value", "dec:"+lnHex(p))
				add("tag:flags-every-value", "dec2:"+lnHex(gtpBuild(rng, 7, [][3]int{{0x85, -1, 2}}, []byte{0x45}, 0))+","+lnHex(p))
				if b%8 == 0 {
					add("tag:flags-every-value", "rt:"+lnHex(p)+",4500")
				}
			}
			// extension header length octet 0, 1, right, one more, 255; next type 0 with the E flag; message length short/long
			for _, lo := range []int{0, 1, -1, 3, 255} {
				for _, n := range []int{2, 6} {
					p := gtpBuild(rng, 4, [][3]int{{0x85, lo, n}}, []byte{0x45, 0, 0, 0}, 0)
					add("tag:ext-length-extreme", "dec:"+lnHex(p))
					add("tag:ext-length-extreme", "dec2:"+lnHex(gtpBuild(rng, 6, [][3]int{{0x85, -1, 2}, {0xc0, -1, 2}}, nil, 0))+","+lnHex(p))
					add("tag:ext-length-extreme", "rt:"+lnHex(p)+",45")
				}
			}
			for _, fl := range []byte{4, 5, 6, 7} {
				p := gtpBuild(rng, fl, nil, []byte{1, 0, 0, 0, 0x45}, 0) // E flag, next extension header type 0
				add("tag:e-flag-next-type-0", "dec:"+lnHex(p))
				add("tag:e-flag-next-type-0", "rt:"+lnHex(p)+",0100000045")
			}
			for _, d := range []int{-8, -1, 1, 2, 1000} {
				p := gtpBuild(rng, 2, nil, []byte{0x45, 1, 2, 3}, d)
				add("tag:length-extreme", "dec:"+lnHex(p))
			}
			for _, k := range []int{8, 9, 10, 11, 12, 13} {
				p := gtpBuild(rng, 7, [][3]int{{0x85, -1, 2}}, nil, 0)
				q := lnCopy(p[:k])
				lmPut16(q[2:], k-8)
				add("tag:length-extreme", "dec:"+lnHex(q))
			}
		},
	}
	return lmGen(lgtpDesc, g, rng, tier)
}
