package main

// Lppp: layers/ppp.go codec sub-check (C19, C06, C07, C01 for PPP; no DecodeFromBytes, so no C05 ops).
// Ops: dec ser rt (lmisc_common.go; decoding runs the registered decoder of LayerTypePPP on a recording
// PacketBuilder), new:<type>.<pptp>,<fcd>,<payloadhex> and rtn: likewise.

import (
	"fmt"
	"math/rand"
	"strings"

	"github.com/gopacket/gopacket"
	"github.com/gopacket/gopacket/layers"
)

type lppp struct{}

func init() { register("Lppp", lppp{}) }

var lpppDesc = &lmDesc{
	id: "Lppp", name: "PPP", ser: true,
	fresh:    func() gopacket.Layer { return &layers.PPP{} },
	decodeFn: func(data []byte, b *lmBuilder) error { return layers.LayerTypePPP.Decode(data, b) },
	fields: func(l gopacket.Layer) string {
		p := l.(*layers.PPP)
		return fmt.Sprintf("ty=%d;pptp=%s", uint16(p.PPPType), lnB(p.HasPPTPHeader))
	},
	next: func(l gopacket.Layer, b *lmBuilder) string {
		if b == nil || !b.nextSet {
			return "none"
		}
		if c, ok := b.next.(layers.PPPType); ok {
			if b.link != l {
				return "link-layer-not-set"
			}
			return fmt.Sprint(uint16(c))
		}
		return fmt.Sprintf("other%T", b.next)
	},
	fromSpec: func(spec string) gopacket.Layer {
		f := strings.Split(spec, ".")
		return &layers.PPP{PPPType: layers.PPPType(lnAtoi(f[0])), HasPPTPHeader: f[1] == "1"}
	},
	// C06 hypothesis: low octet odd, high octet even (RFC 1661 protocol numbers)
	inDomain: func(l gopacket.Layer, _ []byte) bool {
		t := uint16(l.(*layers.PPP).PPPType)
		return t&1 == 1 && t&0x100 == 0
	},
	extra: func(l gopacket.Layer) []func() {
		p := l.(*layers.PPP)
		return []func(){func() { f := p.LinkFlow(); _ = f.String(); _, _ = f.Endpoints() }}
	},
	tags: func(l gopacket.Layer, cls string, data []byte) []string {
		p := l.(*layers.PPP)
		var t []string
		if cls == "ok" && p.HasPPTPHeader {
			t = append(t, "address-control-prefix")
		}
		if cls == "ok" && len(p.Contents) == 1 {
			t = append(t, "one-octet-type")
		}
		if cls == "err" && len(data) >= 2 {
			t = append(t, "invalid-type-or-short")
		}
		return t
	},
}

func (lppp) Run(c Case) Result { return lmRun(lpppDesc, c) }

func (lppp) Gen(rng *rand.Rand, tier string) []Case {
	valid := func(rng *rand.Rand) []byte {
		var h []byte
		if rng.Intn(2) == 0 {
			h = append(h, 0xff, 0x03)
		}
		switch rng.Intn(4) {
		case 0:
			h = append(h, byte(lnPick(rng, 0x21, 0x57, 0x01, 0xff, 0xfd, rng.Intn(128)*2+1)))
		case 1:
			h = append(h, byte(rng.Intn(128)*2), byte(rng.Intn(256))) // second octet even half of the time: invalid type
		default:
			t := lnPick(rng, 0x0021, 0x0057, 0xc021, 0x8021, 0xc023, 0x00ff, 0xfeff)
			h = append(h, byte(t>>8), byte(t))
		}
		return append(h, lnRandBytes(rng, lnPick(rng, 0, 1, 2, 20, 33))...)
	}
	var seeds [][]byte
	seeds = append(seeds, lnEthSeeds(0x880b)...)
	for _, s := range lnEthSeeds(0x8864) { // PPPoE session payloads
		if len(s) > 6 {
			seeds = append(seeds, s[6:])
		}
	}
	g := lmGenCfg{
		valid:  valid,
		hdrLen: func(p []byte) int { return 4 },
		spec: func(rng *rand.Rand) string {
			return fmt.Sprintf("%d.%d", lnPick(rng, 0x21, 0x57, 0xc021, 0, 1, 0xff, 0x100, 0x101, 0x121, 0xff03, 0xfe03, 0xffff, 0xfffe, rng.Intn(65536)), rng.Intn(2))
		},
		seeds: seeds,
		extra: func(rng *rand.Rand, add func(ops ...string)) {
			// every first type octet, with an odd, an even and no second octet; with and without ff 03
			for b := 0; b < 256; b++ {
				for _, pre := range [][]byte{nil, {0xff, 0x03}} {
					add("tag:type-every-value", "dec:"+lnHex(append(lnCopy(pre), byte(b))))
					add("tag:type-every-value", "dec:"+lnHex(append(lnCopy(pre), byte(b), 0x21, 0x45)))
					add("tag:type-every-value", "dec:"+lnHex(append(lnCopy(pre), byte(b), 0x20, 0x45)))
					if b%2 == 1 {
						add("tag:type-every-value", "rt:"+lnHex(append(lnCopy(pre), byte(b), 0x21, 0x45))+",4500")
					}
				}
			}
			for _, q := range []string{"ff", "ff03", "ff0300", "ff03ff", "ff03ff03", "ff0321", "03ff", "ff04", "fe03"} {
				add("tag:prefix-boundary", "dec:"+q)
				add("tag:prefix-boundary", "rt:"+q+",00")
			}
		},
	}
	return lmGen(lpppDesc, g, rng, tier)
}
