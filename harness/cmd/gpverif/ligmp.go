package main

// Ligmp: layers/igmp.go decoder sub-check (C19, C05, C01 for IGMP (v3 messages) and IGMPv1or2; no SerializeTo).
// The first op selects the type: L:v3 (objects start as &IGMP{Version: 3}) or L:v12 (&IGMPv1or2{Version: 2}); then dec / dec2.
//   pkt:<hex>   the registered packet decoder (decodeIGMP) on a recording builder: kind=v3.3|v12.<version>|none; cls

import (
	"fmt"
	"math/rand"
	"net"
	"strings"

	"github.com/gopacket/gopacket"
	"github.com/gopacket/gopacket/layers"
)

type ligmp struct{}

func init() { register("Ligmp", ligmp{}) }

func igAddrs(ips []net.IP) string {
	s := make([]string, len(ips))
	for i, ip := range ips {
		s[i] = lnHex(ip)
	}
	return strings.Join(s, "/")
}

var igmp3Desc = &lmDesc{
	id: "Ligmp", name: "IGMP",
	fresh: func() gopacket.Layer { return &layers.IGMP{Version: 3} },
	decode: func(l gopacket.Layer, data []byte, fb gopacket.DecodeFeedback) error {
		return l.(*layers.IGMP).DecodeFromBytes(data, fb)
	},
	fields: func(l gopacket.Layer) string {
		g := l.(*layers.IGMP)
		recs := make([]string, len(g.GroupRecords))
		for i, r := range g.GroupRecords {
			recs[i] = fmt.Sprintf("%d~%d~%d~%s~%s", uint8(r.Type), r.AuxDataLen, r.NumberOfSources, lnHex(r.MulticastAddress), igAddrs(r.SourceAddresses))
		}
		return fmt.Sprintf("t=%d;mrt=%d;cs=%d;grp=%s;s=%s;qrv=%d;qqi=%d;srcs=%s;ngr=%d;nsrc=%d;recs=%s;ver=%d", uint8(g.Type), int64(g.MaxResponseTime), g.Checksum,
			lnHex(g.GroupAddress), lnB(g.SupressRouterProcessing), g.RobustnessValue, int64(g.IntervalTime), igAddrs(g.SourceAddresses), g.NumberOfGroupRecords,
			g.NumberOfSources, strings.Join(recs, "+"), g.Version)
	},
	next: func(l gopacket.Layer, _ *lmBuilder) string {
		if t := l.(*layers.IGMP).NextLayerType(); t != gopacket.LayerTypeZero {
			return fmt.Sprintf("other%d", t)
		}
		return "zero"
	},
	extra: func(l gopacket.Layer) []func() {
		g := l.(*layers.IGMP)
		return []func(){func() {
			_ = g.Type.String()
			for _, r := range g.GroupRecords {
				_ = r.Type.String()
			}
		}}
	},
	tags: func(l gopacket.Layer, cls string, data []byte) []string {
		g := l.(*layers.IGMP)
		var t []string
		if cls == "ok" && len(g.GroupRecords) > 0 {
			t = append(t, "group-records")
		}
		if cls == "ok" && len(g.SourceAddresses) > 0 {
			t = append(t, "query-sources")
		}
		if cls == "err" && len(data) >= 8 {
			t = append(t, "error-after-fields-set")
		}
		if len(data) > 1 && data[1] >= 128 {
			t = append(t, "float-time-code")
		}
		return t
	},
}

var igmp12Desc = &lmDesc{
	id: "Ligmp", name: "IGMPv1or2",
	fresh: func() gopacket.Layer { return &layers.IGMPv1or2{Version: 2} },
	decode: func(l gopacket.Layer, data []byte, fb gopacket.DecodeFeedback) error {
		return l.(*layers.IGMPv1or2).DecodeFromBytes(data, fb)
	},
	fields: func(l gopacket.Layer) string {
		g := l.(*layers.IGMPv1or2)
		return fmt.Sprintf("t=%d;mrt=%d;cs=%d;grp=%s;ver=%d", uint8(g.Type), int64(g.MaxResponseTime), g.Checksum, lnHex(g.GroupAddress), g.Version)
	},
	next: func(l gopacket.Layer, _ *lmBuilder) string {
		if t := l.(*layers.IGMPv1or2).NextLayerType(); t != gopacket.LayerTypeZero {
			return fmt.Sprintf("other%d", t)
		}
		return "zero"
	},
	extra: func(l gopacket.Layer) []func() { g := l.(*layers.IGMPv1or2); return []func(){func() { _ = g.Type.String() }} },
}

func (ligmp) Run(c Case) (res Result) {
	switch {
	case c.Ops[0] == "L:v3":
		return lmRun(igmp3Desc, Case{Prop: c.Prop, Ops: c.Ops[1:]})
	case c.Ops[0] == "L:v12":
		r := lmRun(igmp12Desc, Case{Prop: c.Prop, Ops: c.Ops[1:]})
		r.Tags = append(r.Tags, "v1or2")
		return r
	case len(c.Ops) == 1 && strings.HasPrefix(c.Ops[0], "pkt:"):
		data := lnUnhex(c.Ops[0][4:])
		b := &lmBuilder{}
		cls := lnClass(func() error { return layers.LayerTypeIGMP.Decode(lnCopy(data), b) })
		kind := "none"
		if cls == "ok" && len(b.layers) > 0 {
			switch g := b.layers[0].(type) {
			case *layers.IGMP:
				kind = fmt.Sprintf("v3.%d", g.Version)
			case *layers.IGMPv1or2:
				kind = fmt.Sprintf("v12.%d", g.Version)
			}
		}
		if cls == "panic" {
			res.Oracle = append(res.Oracle, "C19:panic\tdecodeIGMP panicked")
		}
		res.Obs = append(res.Obs, fmt.Sprintf("kind=%s;cls=%s", kind, cls))
		res.Tags = append(res.Tags, "dispatch-"+strings.SplitN(kind, ".", 2)[0])
		return
	}
	panic("Ligmp: first op must be L:v3, L:v12 or a single pkt:")
}

func igQuery(rng *rand.Rand, declared, present int) []byte {
	if present < 0 {
		present = 0
	}
	h := []byte{0x11, byte(lnPick(rng, 100, 0, 127, 128, 0x90, 0xff, rng.Intn(256))), 0, 0, 224, 0, 0, byte(rng.Intn(256)), byte(rng.Intn(256)), byte(lnPick(rng, 125, 0, 128, 255)), 0, 0}
	lmPut16(h[2:], rng.Intn(65536))
	lmPut16(h[10:], declared)
	return append(h, lnRandBytes(rng, present)...)
}

func igReport(rng *rand.Rand, declared int, recs [][2]int) []byte {
	h := []byte{0x22, 0, 0, 0, 0, 0, 0, 0}
	lmPut16(h[2:], rng.Intn(65536))
	lmPut16(h[6:], declared)
	for _, r := range recs { // (declared sources, octets present after the 8-octet record header)
		rh := []byte{byte(lnPick(rng, 1, 2, 3, 4, 5, 6, 0, 255)), byte(lnPick(rng, 0, 0, 1, 255)), 0, 0, 239, 1, 2, byte(rng.Intn(256))}
		lmPut16(rh[2:], r[0])
		h = append(h, rh...)
		if r[1] > 0 {
			h = append(h, lnRandBytes(rng, r[1])...)
		}
	}
	return h
}

func (ligmp) Gen(rng *rand.Rand, tier string) []Case {
	valid3 := func(rng *rand.Rand) []byte {
		if rng.Intn(2) == 0 {
			n := lnPick(rng, 0, 1, 2, 3, 5)
			return igQuery(rng, n, 4*n+lnPick(rng, 0, 0, 0, 4, -1, -4))
		}
		k := lnPick(rng, 0, 1, 2, 3)
		var recs [][2]int
		for i := 0; i < k; i++ {
			s := lnPick(rng, 0, 1, 2, 4)
			recs = append(recs, [2]int{s, 4 * s})
		}
		return igReport(rng, k+lnPick(rng, 0, 0, 0, 1, -1), recs)
	}
	g3 := lmGenCfg{
		valid:   valid3,
		hdrLen:  func(p []byte) int { return len(p) },
		residue: func(rng *rand.Rand) []byte { if rng.Intn(2) == 0 { return igQuery(rng, 3, 12) }; return igReport(rng, 2, [][2]int{{1, 4}, {2, 8}}) },
		seeds:   lmIPSeeds(2),
		extra: func(rng *rand.Rand, add func(ops ...string)) {
			for t := 0; t < 256; t++ { // every time code (max response / querier interval) and every type
				q := igQuery(rng, 0, 0)
				q[1], q[9] = byte(t), byte(255-t)
				add("tag:time-code-every-value", "dec:"+lnHex(q))
				p := igQuery(rng, 1, 4)
				p[0] = byte(t)
				add("tag:type-every-value", "dec:"+lnHex(p))
				add("tag:type-every-value", "dec2:"+lnHex(igQuery(rng, 2, 8))+","+lnHex(p))
			}
			for _, n := range []int{0, 1, 2, 255, 256, 65535} { // number of sources / records against the octets present
				for _, d := range []int{-4, -1, 0, 1, 4} {
					pr := 4*n + d
					if pr < 0 || pr > 2000 {
						pr = 8
					}
					q := igQuery(rng, n, pr)
					add("tag:length-extreme", "dec:"+lnHex(q))
					add("tag:length-extreme", "dec2:"+lnHex(igQuery(rng, 2, 8))+","+lnHex(q))
					r := igReport(rng, 1, [][2]int{{n, pr}})
					add("tag:length-extreme", "dec:"+lnHex(r))
					add("tag:length-extreme", "dec2:"+lnHex(igReport(rng, 1, [][2]int{{1, 4}}))+","+lnHex(r))
					r2 := igReport(rng, n, [][2]int{{1, 4}, {0, 0}})
					add("tag:length-extreme", "dec:"+lnHex(r2))
				}
			}
			// query after report and report after query into one object (fields of the other message type)
			for i := 0; i < 20; i++ {
				add("tag:other-message-residue", "dec2:"+lnHex(igQuery(rng, 2, 8))+","+lnHex(igReport(rng, 1, [][2]int{{1, 4}})))
				add("tag:other-message-residue", "dec2:"+lnHex(igReport(rng, 2, [][2]int{{1, 4}, {0, 0}}))+","+lnHex(igQuery(rng, 1, 4)))
			}
		},
	}
	g12 := lmGenCfg{
		valid: func(rng *rand.Rand) []byte {
			h := []byte{byte(lnPick(rng, 0x11, 0x12, 0x16, 0x17, 0x22, 0, 255)), byte(lnPick(rng, 0, 100, 127, 128, 255)), 0, 0, 224, 0, 0, byte(rng.Intn(256))}
			lmPut16(h[2:], rng.Intn(65536))
			return append(h, lnRandBytes(rng, lnPick(rng, 0, 0, 1, 4))...)
		},
		hdrLen: func(p []byte) int { return 8 },
		n:      30,
	}
	var out []Case
	for _, c := range lmGen(igmp3Desc, g3, rng, tier) {
		out = append(out, Case{Prop: "Ligmp", Ops: append([]string{"L:v3"}, c.Ops...)})
	}
	for _, c := range lmGen(igmp12Desc, g12, rng, tier) {
		out = append(out, Case{Prop: "Ligmp", Ops: append([]string{"L:v12"}, c.Ops...)})
	}
	// the packet decoder: every type byte x lengths 0,1,7,8,9,11,12,13,16 x max-response 0 / non-zero
	for t := 0; t < 256; t++ {
		if t != 0x11 && t != 0x12 && t != 0x16 && t != 0x17 && t != 0x22 && t%16 != 0 {
			continue
		}
		for _, n := range []int{1, 7, 8, 9, 11, 12, 13, 16, 24} {
			for _, mr := range []byte{0, 1} {
				p := make([]byte, n)
				p[0] = byte(t)
				if n > 1 {
					p[1] = mr
				}
				if n > 7 {
					p[7] = 1
				}
				out = append(out, Case{Prop: "Ligmp", Ops: []string{"pkt:" + lnHex(p)}})
			}
		}
	}
	out = append(out, Case{Prop: "Ligmp", Ops: []string{"pkt:"}})
	for _, s := range lmIPSeeds(2) {
		out = append(out, Case{Prop: "Ligmp", Ops: []string{"pkt:" + lnHex(s)}})
	}
	return out
}
