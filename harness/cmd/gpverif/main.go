// gpverif: correspondence harness.  Runs the real gopacket implementation (built from
// /repo's working tree) on generated or given cases and writes, per property,
//   <dir>/cases      id \t prop \t op op op ...
//   <dir>/impl.out   id \t step \t key=value;key=value   (+ id \t tags \t t1,t2)
//   <dir>/oracle.out id \t clause \t detail               (implementation-side property oracle failures)
package main

import (
	"bufio"
	"flag"
	"fmt"
	"math/rand"
	"os"
	"runtime"
	"strconv"
	"path/filepath"
	"sort"
	"strings"
	"time"
)

// Case is one line of the interchange format.
type Case struct {
	ID   string
	Prop string
	Ops  []string
}

func (c Case) Line() string { return c.ID + "\t" + c.Prop + "\t" + strings.Join(c.Ops, " ") }

// Result of running one case on the implementation.
type Result struct {
	Obs    []string // one observation string per step
	Tags   []string // branch tags this case exercised (for the non-triviality count)
	Oracle []string // "clause\tdetail" for each failed clause of the property oracle
	Ops    []string // optional: the ops as resolved during the run (observed nondeterministic choices
	// filled in); written to the cases file instead of the generated ops so the model replays them
}

// Harness is implemented once per property.
type Harness interface {
	// Gen returns the cases for a tier ("quick"/"thorough"), all randomness from rng.
	Gen(rng *rand.Rand, tier string) []Case
	// Run executes one case on the implementation.
	Run(c Case) Result
}

var registry = map[string]Harness{}

// extra sub-commands (source-fact extractors etc.): name -> func(args)
var commands = map[string]func(args []string){}

func register(prop string, h Harness) { registry[prop] = h }

func readCases(path string) ([]Case, error) {
	f, err := os.Open(path)
	if err != nil {
		return nil, err
	}
	defer f.Close()
	var out []Case
	sc := bufio.NewScanner(f)
	sc.Buffer(make([]byte, 1<<20), 1<<28)
	for sc.Scan() {
		line := sc.Text()
		if strings.TrimSpace(line) == "" || strings.HasPrefix(line, "#") {
			continue
		}
		parts := strings.SplitN(line, "\t", 3)
		if len(parts) < 2 {
			continue
		}
		c := Case{ID: parts[0], Prop: parts[1]}
		if len(parts) == 3 {
			c.Ops = strings.Fields(parts[2])
		}
		out = append(out, c)
	}
	return out, sc.Err()
}

func main() {
	if len(os.Args) >= 2 {
		if f, ok := commands[os.Args[1]]; ok {
			f(os.Args[2:])
			return
		}
	}
	if len(os.Args) < 3 {
		fmt.Fprintln(os.Stderr, "usage: gpverif run <prop> [-seed n] [-tier quick|thorough] [-dir d] [-cases f]...")
		os.Exit(2)
	}
	if f, ok := commands[os.Args[1]]; ok {
		f(os.Args[2:])
		return
	}
	cmd, prop := os.Args[1], os.Args[2]
	fs := flag.NewFlagSet(cmd, flag.ExitOnError)
	seed := fs.Int64("seed", 1, "PRNG seed")
	tier := fs.String("tier", "quick", "quick|thorough")
	dir := fs.String("dir", ".", "output directory")
	var caseFiles multiFlag
	fs.Var(&caseFiles, "cases", "case file(s) to run first (corpus / replay); with -nogen only these run")
	nogen := fs.Bool("nogen", false, "do not generate cases")
	fs.Parse(os.Args[3:])
	h, ok := registry[prop]
	if !ok {
		fmt.Fprintln(os.Stderr, "unknown property", prop)
		os.Exit(2)
	}
	switch cmd {
	case "run":
		var cases []Case
		for _, cf := range caseFiles {
			cs, err := readCases(cf)
			if err != nil {
				fmt.Fprintln(os.Stderr, err)
				os.Exit(2)
			}
			for _, c := range cs {
				if c.Prop == prop {
					cases = append(cases, c)
				}
			}
		}
		if !*nogen {
			rng := rand.New(rand.NewSource(*seed))
			cases = append(cases, h.Gen(rng, *tier)...)
		}
		os.MkdirAll(*dir, 0o755)
		cf, _ := os.Create(filepath.Join(*dir, "cases"))
		of, _ := os.Create(filepath.Join(*dir, "impl.out"))
		orf, _ := os.Create(filepath.Join(*dir, "oracle.out"))
		cw, ow, orw := bufio.NewWriterSize(cf, 1<<20), bufio.NewWriterSize(of, 1<<20), bufio.NewWriterSize(orf, 1<<16)
		seen := map[string]bool{}
		for i := range cases {
			c := cases[i]
			if c.ID == "" || seen[c.ID] {
				c.ID = fmt.Sprintf("%s-%d-%d", prop, *seed, i)
			}
			seen[c.ID] = true
			if hungCases >= maxHung {
				break // several cases hang: stop early, what was collected is written below
			}
			res := runSafe(h, c)
			if res.Ops != nil {
				c.Ops = res.Ops
			}
			fmt.Fprintln(cw, c.Line())
			for s, o := range res.Obs {
				fmt.Fprintf(ow, "%s\t%d\t%s\n", c.ID, s, o)
			}
			if len(res.Tags) > 0 {
				sort.Strings(res.Tags)
				fmt.Fprintf(ow, "%s\ttags\t%s\n", c.ID, strings.Join(uniq(res.Tags), ","))
			}
			for _, o := range res.Oracle {
				fmt.Fprintf(orw, "%s\t%s\n", c.ID, o)
			}
		}
		cw.Flush()
		ow.Flush()
		orw.Flush()
		cf.Close()
		of.Close()
		orf.Close()
	default:
		fmt.Fprintln(os.Stderr, "unknown command", cmd)
		os.Exit(2)
	}
}

// caseTimeout is the wall-clock budget of ONE case (cases normally take milliseconds).  A harness
// may override it by implementing CaseTimeout().  A case that exceeds it is reported as a hang of
// the code under test (observation `harness-timeout`, oracle clause `hang`), its goroutine is
// abandoned, and after maxHung such cases the run stops early (outputs are still written), so that
// a change which makes the library spin can never make a check run forever.
const defaultCaseTimeout = 120 * time.Second
const maxHung = 3

var hungCases int

func runSafe(h Harness, c Case) Result {
	budget := defaultCaseTimeout
	if t, ok := h.(interface{ CaseTimeout() time.Duration }); ok {
		budget = t.CaseTimeout()
	}
	done := make(chan Result, 1)
	go func() {
		var res Result
		defer func() {
			if r := recover(); r != nil {
				res.Obs = append(res.Obs, fmt.Sprintf("harness-panic=%q", fmt.Sprint(r)))
				res.Oracle = append(res.Oracle, fmt.Sprintf("harness-panic\t%v", r))
			}
			done <- res
		}()
		res = h.Run(c)
	}()
	// the budget is wall-clock time: on a machine that is busy with other work (load above 60% of the
	// CPUs) a slow case is given up to four more budgets before it is called hung
	waited := time.Duration(0)
	for ext := 0; ; ext++ {
		select {
		case res := <-done:
			return res
		case <-time.After(budget):
			waited += budget
			if ext < 4 && machineBusy() {
				continue
			}
			hungCases++
			return Result{Obs: []string{"harness-timeout"},
				Oracle: []string{fmt.Sprintf("hang\tthe case did not finish within %s (the code under test loops or blocks)", waited)}}
		}
	}
}

// recvBusyAware waits for a value for one budget of wall-clock time, and for up to four more while the
// machine is busy with other work; ok=false means nothing arrived
func recvBusyAware[T any](ch <-chan T, budget time.Duration) (v T, ok bool) {
	for ext := 0; ; ext++ {
		select {
		case v = <-ch:
			return v, true
		case <-time.After(budget):
			if ext < 4 && machineBusy() {
				continue
			}
			return v, false
		}
	}
}

// busyDL is a wall-clock deadline that is renewed (up to four times) while the machine is busy
type busyDL struct {
	end time.Time
	d   time.Duration
	ext int
}

func newBusyDL(d time.Duration) *busyDL { return &busyDL{end: time.Now().Add(d), d: d} }
func (b *busyDL) expired() bool {
	if time.Now().Before(b.end) {
		return false
	}
	if b.ext < 4 && machineBusy() {
		b.ext++
		b.end = time.Now().Add(b.d)
		return false
	}
	return true
}

// busyScale: a time limit, five times as long while the machine is busy
func busyScale(d time.Duration) time.Duration {
	if machineBusy() {
		return 5 * d
	}
	return d
}

// machineBusy: 1-minute load average above 60% of the CPUs (Linux /proc/loadavg; false elsewhere)
func machineBusy() bool {
	b, err := os.ReadFile("/proc/loadavg")
	if err != nil {
		return false
	}
	f := strings.Fields(string(b))
	if len(f) == 0 {
		return false
	}
	l, err := strconv.ParseFloat(f[0], 64)
	return err == nil && l > 0.6*float64(runtime.NumCPU())
}

func uniq(s []string) []string {
	var out []string
	for i, x := range s {
		if i == 0 || x != s[i-1] {
			out = append(out, x)
		}
	}
	return out
}

type multiFlag []string

func (m *multiFlag) String() string     { return strings.Join(*m, ",") }
func (m *multiFlag) Set(s string) error { *m = append(*m, s); return nil }
