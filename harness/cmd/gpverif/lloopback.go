package main

// Lloopback: layers/loopback.go codec sub-check (C19, C05, C06, C07, C01 for Loopback).
// Ops: dec dec2 ser rt (lmisc_common.go) plus new:<family>,<fcd>,<payloadhex> and rtn: likewise.

import (
	"fmt"
	"math/rand"

	"github.com/gopacket/gopacket"
	"github.com/gopacket/gopacket/layers"
)

type lloopback struct{}

func init() { register("Lloopback", lloopback{}) }

var lloopbackDesc = &lmDesc{
	id: "Lloopback", name: "Loopback", ser: true,
	fresh: func() gopacket.Layer { return &layers.Loopback{} },
	decode: func(l gopacket.Layer, data []byte, fb gopacket.DecodeFeedback) error {
		return l.(*layers.Loopback).DecodeFromBytes(data, fb)
	},
	fields: func(l gopacket.Layer) string { return fmt.Sprintf("fam=%d", uint8(l.(*layers.Loopback).Family)) },
	next: func(l gopacket.Layer, _ *lmBuilder) string {
		lo := l.(*layers.Loopback)
		if lo.NextLayerType() == lo.Family.LayerType() {
			return fmt.Sprint(uint8(lo.Family))
		}
		return fmt.Sprintf("other%d", lo.NextLayerType())
	},
	fromSpec: func(spec string) gopacket.Layer { return &layers.Loopback{Family: layers.ProtocolFamily(lnAtoi(spec))} },
	tags: func(l gopacket.Layer, cls string, data []byte) []string {
		if cls == "ok" && data[0] == 0 && data[1] == 0 {
			return []string{"big-endian-family"}
		}
		if cls == "ok" {
			return []string{"little-endian-family"}
		}
		if len(data) >= 4 {
			return []string{"family-over-255"}
		}
		return nil
	},
}

func (lloopback) Run(c Case) Result { return lmRun(lloopbackDesc, c) }

func (lloopback) Gen(rng *rand.Rand, tier string) []Case {
	valid := func(rng *rand.Rand) []byte {
		f := byte(lnPick(rng, 2, 24, 28, 30, 0, 1, 255, rng.Intn(256)))
		var h []byte
		switch rng.Intn(5) {
		case 0:
			h = []byte{0, 0, 0, f}
		case 1:
			h = []byte{f, byte(rng.Intn(2)), 0, byte(rng.Intn(2))} // sometimes over 255
		default:
			h = []byte{f, 0, 0, 0}
		}
		return append(h, lnRandBytes(rng, lnPick(rng, 0, 1, 20, 33))...)
	}
	var seeds [][]byte
	for _, s := range lnSeeds() {
		if len(s) > 24 && ((s[0] != 0 && s[1] == 0 && s[2] == 0 && s[3] == 0) || (s[0] == 0 && s[1] == 0 && s[2] == 0)) {
			seeds = append(seeds, s)
		}
	}
	g := lmGenCfg{
		valid:  valid,
		hdrLen: func(p []byte) int { return 4 },
		spec:   func(rng *rand.Rand) string { return fmt.Sprint(lnPick(rng, 0, 1, 2, 30, 255, rng.Intn(256))) },
		seeds:  seeds,
		extra: func(rng *rand.Rand, add func(ops ...string)) {
			// every family byte in both byte orders, and each other byte non-zero
			for f := 0; f < 256; f++ {
				add("tag:family-every-value", "dec:"+lnHex([]byte{byte(f), 0, 0, 0, 0x45}))
				add("tag:family-every-value", "dec:"+lnHex([]byte{0, 0, 0, byte(f), 0x45}))
				add("tag:family-every-value", "rt:"+lnHex([]byte{0, 0, 0, byte(f)})+",60")
				if f%16 == 0 {
					add("tag:family-every-value", "dec:"+lnHex([]byte{0, 0, byte(f), 2}))
					add("tag:family-every-value", "dec:"+lnHex([]byte{0, byte(f), 0, 2}))
					add("tag:family-every-value", "dec2:02000000aa,"+lnHex([]byte{1, byte(f), 0, 0}))
				}
			}
		},
	}
	return lmGen(lloopbackDesc, g, rng, tier)
}
