package main

import (
	"crypto/sha256"
	"encoding/hex"
	"fmt"
	"math/rand"
	"net"
	"os"
	"os/exec"
	"path/filepath"
	"reflect"
	"runtime/debug"
	"sort"
	"strconv"
	"strings"
	"sync"
	"syscall"

	"github.com/gopacket/gopacket"
	"github.com/gopacket/gopacket/layers"
)

// C02: determinism / no side effects / shareable eager packets.
// Ops: pkt:first,hex   dec:i,opts   read:i,kind   conc:i,g   traffic:n
//   opts = bit0 lazy, bit1 nocopy, bit2 pool, bit3 DecodeStreamsAsDatagrams
// Input buffers live in mmap'ed pages that are write-protected while the library runs: ANY write to
// the caller's buffer (even one that stores the value already there) faults and is reported.
type c02 struct{}

func init() { register("C02", c02{}) }

var c02Firsts = map[string]gopacket.Decoder{
	"eth": layers.LayerTypeEthernet, "ip4": layers.LayerTypeIPv4, "ip6": layers.LayerTypeIPv6,
	"tcp": layers.LayerTypeTCP, "udp": layers.LayerTypeUDP, "dns": layers.LayerTypeDNS,
	"icmp4": layers.LayerTypeICMPv4, "gre": layers.LayerTypeGRE, "sctp": layers.LayerTypeSCTP,
}

var c02Readers = []string{"layers", "string", "dump", "verify", "flows", "gostring", "layerstring", "lookups"}

func c02Built(rng *rand.Rand) []byte {
	// a checksummed stack so that VerifyChecksums runs its full path
	// payload lengths: empty (bare ACK / header-only datagrams) and tiny ones are as frequent as ordinary ones
	pl := make([]byte, []int{0, 0, 0, 1, 2, 3, rng.Intn(60), rng.Intn(60), 100 + rng.Intn(1300)}[rng.Intn(9)])
	rng.Read(pl)
	eth := &layers.Ethernet{SrcMAC: net.HardwareAddr{2, 0, 0, 0, 0, 1}, DstMAC: net.HardwareAddr{2, 0, 0, 0, 0, 2}}
	var nl gopacket.NetworkLayer
	var sl []gopacket.SerializableLayer
	v6 := rng.Intn(3) == 0
	proto := []layers.IPProtocol{layers.IPProtocolTCP, layers.IPProtocolUDP, layers.IPProtocolICMPv4, layers.IPProtocolGRE}[rng.Intn(4)]
	if v6 && proto == layers.IPProtocolICMPv4 {
		proto = layers.IPProtocolICMPv6
	}
	if v6 {
		eth.EthernetType = layers.EthernetTypeIPv6
		ip := &layers.IPv6{Version: 6, HopLimit: 64, NextHeader: proto, SrcIP: net.ParseIP("fe80::1"), DstIP: net.ParseIP("fe80::2")}
		nl = ip
		sl = append(sl, eth, ip)
	} else {
		eth.EthernetType = layers.EthernetTypeIPv4
		ip := &layers.IPv4{Version: 4, IHL: 5, TTL: 64, Protocol: proto, SrcIP: net.IP{10, 0, 0, byte(rng.Intn(255))}, DstIP: net.IP{10, 0, 1, byte(rng.Intn(255))}}
		nl = ip
		sl = append(sl, eth, ip)
	}
	switch proto {
	case layers.IPProtocolTCP:
		t := &layers.TCP{SrcPort: layers.TCPPort(1024 + rng.Intn(60000)), DstPort: 80, Seq: rng.Uint32(), ACK: true, Window: 1000}
		t.SetNetworkLayerForChecksum(nl)
		sl = append(sl, t)
	case layers.IPProtocolUDP:
		u := &layers.UDP{SrcPort: layers.UDPPort(1024 + rng.Intn(60000)), DstPort: layers.UDPPort(9000 + rng.Intn(10))}
		u.SetNetworkLayerForChecksum(nl)
		sl = append(sl, u)
	case layers.IPProtocolICMPv4:
		sl = append(sl, &layers.ICMPv4{TypeCode: layers.CreateICMPv4TypeCode(8, 0), Id: 1, Seq: uint16(rng.Intn(100))})
	case layers.IPProtocolICMPv6:
		ic := &layers.ICMPv6{TypeCode: layers.CreateICMPv6TypeCode(128, 0)}
		ic.SetNetworkLayerForChecksum(nl)
		sl = append(sl, ic)
	case layers.IPProtocolGRE:
		sl = append(sl, &layers.GRE{ChecksumPresent: true, Protocol: layers.EthernetTypeLLC})
	}
	sl = append(sl, gopacket.Payload(pl))
	buf := gopacket.NewSerializeBuffer()
	if err := gopacket.SerializeLayers(buf, gopacket.SerializeOptions{FixLengths: true, ComputeChecksums: true}, sl...); err != nil {
		return []byte{0x45, 0, 0, 20}
	}
	return append([]byte(nil), buf.Bytes()...)
}

func (c02) Gen(rng *rand.Rand, tier string) []Case {
	lits := testPacketLiterals()
	var names []string
	for n := range lits {
		names = append(names, n)
	}
	sort.Strings(names)
	n := 300
	if tier == "thorough" {
		n = 4000
	}
	var out []Case
	for i := 0; i < n; i++ {
		var ops []string
		np := 1 + rng.Intn(3)
		for p := 0; p < np; p++ {
			var d []byte
			first := "eth"
			switch r := rng.Intn(10); {
			case r < 5 || len(names) == 0:
				d = c02Built(rng)
			case r < 8:
				d = append([]byte(nil), lits[names[rng.Intn(len(names))]]...)
			default:
				d = append([]byte(nil), lits[names[rng.Intn(len(names))]]...)
				if len(d) > 0 {
					d = d[:rng.Intn(len(d)+1)]
				}
			}
			if rng.Intn(6) == 0 && len(d) > 14 {
				d = d[14:]
				first = []string{"ip4", "ip6", "tcp", "udp", "dns", "icmp4", "gre", "sctp"}[rng.Intn(8)]
			}
			if rng.Intn(8) == 0 && len(d) > 0 {
				d[rng.Intn(len(d))] ^= byte(1 << rng.Intn(8))
			}
			ops = append(ops, fmt.Sprintf("pkt:%s,%s", first, hex.EncodeToString(d)))
		}
		steps := 3 + rng.Intn(12)
		for s := 0; s < steps; s++ {
			p := rng.Intn(np)
			switch r := rng.Intn(10); {
			case r < 4:
				ops = append(ops, fmt.Sprintf("dec:%d,%d", p, rng.Intn(16)))
			case r < 8:
				rd := c02Readers[rng.Intn(len(c02Readers))]
				if rng.Intn(3) == 0 {
					rd = "verify"
				}
				ops = append(ops, fmt.Sprintf("read:%d,%s", p, rd))
			case r < 9:
				ops = append(ops, fmt.Sprintf("traffic:%d", 1+rng.Intn(20)))
			default:
				ops = append(ops, fmt.Sprintf("conc:%d,%d", p, 2+rng.Intn(6)))
			}
		}
		if i%30 == 0 { // support run under the race detector (a separate -race binary)
			ops = append(ops, fmt.Sprintf("race:%d,%d", rng.Intn(np), 2+rng.Intn(3)))
		}
		out = append(out, Case{Prop: "C02", Ops: ops})
	}
	return out
}

// protBuf copies data into fresh anonymous pages and returns the slice plus protect/unprotect/free.
type protBuf struct {
	mapping []byte
	data    []byte
}

func newProtBuf(d []byte) *protBuf {
	pg := syscall.Getpagesize()
	n := ((len(d) + pg) / pg) * pg
	m, err := syscall.Mmap(-1, 0, n, syscall.PROT_READ|syscall.PROT_WRITE, syscall.MAP_ANON|syscall.MAP_PRIVATE)
	if err != nil {
		panic(err)
	}
	copy(m, d)
	return &protBuf{mapping: m, data: m[:len(d)]}
}
func (p *protBuf) protect()   { syscall.Mprotect(p.mapping, syscall.PROT_READ) }
func (p *protBuf) unprotect() { syscall.Mprotect(p.mapping, syscall.PROT_READ|syscall.PROT_WRITE) }
func (p *protBuf) free()      { syscall.Munmap(p.mapping) }

// guarded runs f with the buffer write-protected; a write faults, which SetPanicOnFault turns into a
// panic of type runtime.Error carrying an Addr method.  Returns (faulted, otherPanic).
func guarded(p *protBuf, f func()) (fault bool, other interface{}) {
	old := debug.SetPanicOnFault(true)
	defer debug.SetPanicOnFault(old)
	p.protect()
	defer p.unprotect()
	defer func() {
		if r := recover(); r != nil {
			if _, ok := r.(interface{ Addr() uintptr }); ok {
				fault = true
			} else {
				other = r
			}
		}
	}()
	f()
	return
}

func c02Sig(p gopacket.Packet) string {
	h := sha256.New()
	for _, l := range p.Layers() {
		fmt.Fprintf(h, "%v|%x|%x|", l.LayerType(), l.LayerContents(), l.LayerPayload())
		if _, isFail := l.(*gopacket.DecodeFailure); !isFail {
			fmt.Fprint(h, gopacket.LayerString(l))
		}
	}
	fmt.Fprintf(h, "trunc=%v err=%v", p.Metadata().Truncated, p.ErrorLayer() != nil)
	return hex.EncodeToString(h.Sum(nil))[:16]
}

func c02Read(p gopacket.Packet, kind string) string {
	switch kind {
	case "layers":
		var ts []string
		for _, l := range p.Layers() {
			ts = append(ts, strconv.Itoa(int(l.LayerType())))
		}
		return strings.Join(ts, ",")
	case "string":
		s := p.String()
		if i := strings.Index(s, "goroutine "); i >= 0 { // a recovered panic's stack text is not compared
			s = s[:i]
		}
		return s
	case "dump":
		s := p.Dump()
		if i := strings.Index(s, "goroutine "); i >= 0 {
			s = s[:i]
		}
		return s
	case "verify":
		for _, l := range p.Layers() {
			if nl, ok := l.(gopacket.NetworkLayer); ok {
				for _, m := range p.Layers() {
					if s, ok := m.(interface {
						SetNetworkLayerForChecksum(gopacket.NetworkLayer) error
					}); ok {
						_ = s // attaching is a write to the layer: done once at decode time by the harness (see attach)
					}
				}
				_ = nl
			}
		}
		err, res := p.VerifyChecksums()
		return fmt.Sprintf("%v|%v", err != nil, res)
	case "flows":
		var out []string
		if l := p.LinkLayer(); l != nil {
			out = append(out, l.LinkFlow().String())
		}
		if l := p.NetworkLayer(); l != nil {
			out = append(out, l.NetworkFlow().String())
		}
		if l := p.TransportLayer(); l != nil {
			out = append(out, l.TransportFlow().String())
		}
		return strings.Join(out, ";")
	case "gostring":
		var out []string
		for _, l := range p.Layers() {
			if _, isFail := l.(*gopacket.DecodeFailure); !isFail {
				out = append(out, gopacket.LayerGoString(l))
			}
		}
		return strings.Join(out, ";")
	case "lookups":
		// Layer(t) for every layer type id, absent ones included, in descending then ascending order:
		// the answer to one lookup must not depend on the lookups made before
		var out []string
		first := map[gopacket.LayerType]gopacket.Layer{}
		for _, l := range p.Layers() {
			if _, ok := first[l.LayerType()]; !ok {
				first[l.LayerType()] = l
			}
		}
		check := func(t gopacket.LayerType) {
			got := p.Layer(t)
			want := first[t]
			if got != want {
				out = append(out, fmt.Sprintf("MISMATCH Layer(%d)", int(t)))
			} else if got != nil {
				out = append(out, strconv.Itoa(int(t)))
			}
		}
		for t := 300; t >= 0; t-- {
			check(gopacket.LayerType(t))
		}
		for t := 0; t <= 300; t++ {
			check(gopacket.LayerType(t))
		}
		return strings.Join(out, ",")
	case "layerstring":
		var out []string
		for _, l := range p.Layers() {
			if _, isFail := l.(*gopacket.DecodeFailure); !isFail {
				out = append(out, gopacket.LayerString(l), gopacket.LayerDump(l))
			}
		}
		return strings.Join(out, ";")
	}
	return ""
}

// attach wires the network layer into the transport layers for checksum verification (a set-up
// step the user performs once, before sharing the packet).
func c02Attach(p gopacket.Packet) {
	nl := p.NetworkLayer()
	if nl == nil {
		return
	}
	for _, m := range p.Layers() {
		if s, ok := m.(interface {
			SetNetworkLayerForChecksum(gopacket.NetworkLayer) error
		}); ok {
			s.SetNetworkLayerForChecksum(nl)
		}
	}
}

func c02SafeRead(p gopacket.Packet, kind string) (s string, pan interface{}) {
	defer func() {
		if r := recover(); r != nil {
			pan = r
		}
	}()
	return c02Read(p, kind), nil
}

type c02in struct {
	first string
	pb    *protBuf
	orig  []byte
	sigs  map[int]string      // per normalised option set: first signature seen
	eager gopacket.Packet     // eager NoCopy packet over the protected buffer, for the readers
	ans   map[string]string   // first answer per reader kind
}

func (c02) Run(c Case) Result {
	var res Result
	var ins []*c02in
	tags := map[string]bool{}
	lits := testPacketLiterals()
	defer func() {
		for _, in := range ins {
			in.pb.free()
		}
	}()
	for _, op := range c.Ops {
		name, arg, _ := strings.Cut(op, ":")
		args := strings.Split(arg, ",")
		switch name {
		case "pkt":
			d, _ := hex.DecodeString(args[1])
			in := &c02in{first: args[0], pb: newProtBuf(d), orig: d, sigs: map[int]string{}, ans: map[string]string{}}
			ins = append(ins, in)
			res.Obs = append(res.Obs, "ok")
		case "dec":
			i, _ := strconv.Atoi(args[0])
			o, _ := strconv.Atoi(args[1])
			in := ins[i]
			opts := gopacket.DecodeOptions{Lazy: o&1 != 0, NoCopy: o&2 != 0, Pool: o&4 != 0, DecodeStreamsAsDatagrams: o&8 != 0}
			var sig string
			fault, other := guarded(in.pb, func() {
				p := gopacket.NewPacket(in.pb.data, c02Firsts[in.first], opts)
				sig = c02Sig(p)
				if pp, ok := p.(gopacket.PooledPacket); ok {
					pp.Dispose()
				}
			})
			// the result is a function of bytes, first layer and options: repeated decodes are compared per
			// (DecodeStreamsAsDatagrams, Lazy); NoCopy and Pool must not change it (C04); lazy vs eager is C03's
			// subject and legitimately differs on empty input
			key := o & 9
			same := 1
			if prev, ok := in.sigs[key]; ok {
				if prev != sig {
					same = 0
					res.Oracle = append(res.Oracle, fmt.Sprintf("deterministic\t%s: signature %s differs from the earlier %s for the same bytes (options %d)", op, sig, prev, o))
				}
				tags["repeat-after-traffic"] = true
			} else {
				in.sigs[key] = sig
			}
			if o&2 != 0 {
				tags["nocopy"] = true
			}
			if fault {
				res.Oracle = append(res.Oracle, fmt.Sprintf("input-untouched\t%s: decoding wrote to the caller's buffer", op))
			}
			if other != nil {
				res.Oracle = append(res.Oracle, fmt.Sprintf("no-panic\t%s: %v", op, other))
			}
			if string(in.pb.data) != string(in.orig) {
				res.Oracle = append(res.Oracle, fmt.Sprintf("input-untouched\t%s: the caller's buffer changed", op))
			}
			res.Obs = append(res.Obs, fmt.Sprintf("fault=%d;same=%d", b2i(fault), same))
		case "read":
			i, _ := strconv.Atoi(args[0])
			in := ins[i]
			if in.eager == nil {
				in.eager = gopacket.NewPacket(in.pb.data, c02Firsts[in.first], gopacket.DecodeOptions{NoCopy: true})
				c02Attach(in.eager)
			}
			var ans string
			var pan interface{}
			fault, other := guarded(in.pb, func() { ans, pan = c02SafeRead(in.eager, args[1]) })
			if pan != nil {
				if _, ok := pan.(interface{ Addr() uintptr }); ok {
					fault = true
				} else {
					other = pan
				}
			}
			if strings.Contains(ans, "MISMATCH") {
				res.Oracle = append(res.Oracle, fmt.Sprintf("readers-same-answers\t%s: Layer(t) disagrees with the first layer of that type in Layers() (%s)", op, ans[strings.Index(ans, "MISMATCH"):][:24]))
			}
			same := 1
			if prev, ok := in.ans[args[1]]; ok && !fault && other == nil {
				if prev != ans {
					same = 0
					res.Oracle = append(res.Oracle, fmt.Sprintf("readers-same-answers\t%s: answer changed between two calls", op))
				}
			} else if !fault && other == nil {
				in.ans[args[1]] = ans
			}
			if fault {
				res.Oracle = append(res.Oracle, fmt.Sprintf("readers-readonly\t%s: a read-only call wrote to the packet's buffer", op))
			}
			_ = other // panics of renderers belong to C01
			tags["shared-reader"] = true
			res.Obs = append(res.Obs, fmt.Sprintf("fault=%d;same=%d", b2i(fault), same))
		case "traffic":
			n, _ := strconv.Atoi(args[0])
			k := 0
			for _, d := range lits {
				if k >= n {
					break
				}
				k++
				p := gopacket.NewPacket(d, layers.LayerTypeEthernet, gopacket.Default)
				_ = p.String()
			}
			res.Obs = append(res.Obs, "ok")
		case "race":
			i, _ := strconv.Atoi(args[0])
			in := ins[i]
			exe := filepath.Join(filepath.Dir(os.Args[0]), "racecheck")
			races := 0
			if _, err := os.Stat(exe); err == nil {
				cmd := exec.Command(exe, in.first, hex.EncodeToString(in.orig), args[1])
				cmd.Env = append(os.Environ(), "GORACE=exitcode=66")
				out, _ := cmd.CombinedOutput()
				races = strings.Count(string(out), "WARNING: DATA RACE")
				if races > 0 {
					first := string(out)
					if k := strings.Index(first, "Previous"); k > 0 {
						first = first[:k]
					}
					res.Oracle = append(res.Oracle, fmt.Sprintf("no-data-race\t%s: the race detector reports %d race(s) between concurrent readers/decoders of one eager packet: %s", op, races, strings.Join(strings.Fields(first), " ")))
				}
				tags["race-detector"] = true
			}
			res.Obs = append(res.Obs, fmt.Sprintf("races=%d", b2i(races > 0)))
		case "conc":
			i, _ := strconv.Atoi(args[0])
			g, _ := strconv.Atoi(args[1])
			in := ins[i]
			ref := gopacket.NewPacket(in.orig, c02Firsts[in.first], gopacket.Default)
			c02Attach(ref)
			want := map[string]string{}
			for _, k := range c02Readers {
				want[k], _ = c02SafeRead(ref, k)
			}
			wantSig := c02Sig(ref)
			var wg sync.WaitGroup
			var mu sync.Mutex
			agree := 1
			for w := 0; w < g; w++ {
				wg.Add(1)
				go func(w int) {
					defer wg.Done()
					for it := 0; it < 3; it++ {
						for _, k := range c02Readers {
							got, _ := c02SafeRead(ref, k)
							if got != want[k] {
								mu.Lock()
								agree = 0
								res.Oracle = append(res.Oracle, fmt.Sprintf("readers-same-answers\t%s: concurrent reader %s got a different answer", op, k))
								mu.Unlock()
							}
						}
						// concurrent decoders of the same bytes
						p := gopacket.NewPacket(in.orig, c02Firsts[in.first], gopacket.Default)
						if s := c02Sig(p); s != wantSig {
							mu.Lock()
							agree = 0
							res.Oracle = append(res.Oracle, fmt.Sprintf("deterministic\t%s: concurrent decode differs", op))
							mu.Unlock()
						}
					}
				}(w)
			}
			wg.Wait()
			tags["concurrent"] = true
			res.Obs = append(res.Obs, fmt.Sprintf("agree=%d", agree))
		}
	}
	_ = reflect.DeepEqual
	for t := range tags {
		res.Tags = append(res.Tags, t)
	}
	return res
}

func b2i(b bool) int {
	if b {
		return 1
	}
	return 0
}
