package main

// Lague: layers/ague_var0.go codec sub-check (C19, C05, C06, C07, C01 for AGUEVar0).
// Ops: dec dec2 ser rt (lmisc_common.go) plus new:/rtn: with <spec> = version.c.protocol.flags.<exthex or ->.
// AGUEVar0 has no BaseLayer: LayerContents() re-encodes the fields and LayerPayload() is Data.

import (
	"fmt"
	"math/rand"
	"strings"

	"github.com/gopacket/gopacket"
	"github.com/gopacket/gopacket/layers"
)

type lague struct{}

func init() { register("Lague", lague{}) }

var lagueDesc = &lmDesc{
	id: "Lague", name: "AGUEVar0", ser: true,
	fresh: func() gopacket.Layer { return &layers.AGUEVar0{} },
	decode: func(l gopacket.Layer, data []byte, fb gopacket.DecodeFeedback) error {
		return l.(*layers.AGUEVar0).DecodeFromBytes(data, fb)
	},
	fields: func(l gopacket.Layer) string {
		a := l.(*layers.AGUEVar0)
		return fmt.Sprintf("v=%d;cf=%s;proto=%d;flags=%d;ext=%s", a.Version, lnB(a.C), uint8(a.Protocol), a.Flags, lnHex(a.Extensions))
	},
	next: func(l gopacket.Layer, _ *lmBuilder) string {
		a := l.(*layers.AGUEVar0)
		if a.NextLayerType() != a.Protocol.LayerType() {
			return "mismatch"
		}
		return fmt.Sprintf("t%d", uint8(a.Protocol))
	},
	fromSpec: func(spec string) gopacket.Layer {
		f := strings.Split(spec, ".")
		a := &layers.AGUEVar0{Version: uint8(lnAtoi(f[0])), C: f[1] == "1", Protocol: layers.IPProtocol(lnAtoi(f[2])), Flags: uint16(lnAtoi(f[3]))}
		if f[4] != "-" {
			a.Extensions = lnUnhex(f[4])
		}
		return a
	},
	// C06 hypothesis: 2-bit version, at most 31 extension octets (5-bit length field)
	inDomain: func(l gopacket.Layer, payload []byte) bool {
		a := l.(*layers.AGUEVar0)
		return a.Version < 4 && len(a.Extensions) < 32
	},
	extra: func(l gopacket.Layer) []func() {
		a := l.(*layers.AGUEVar0)
		return []func(){func() { v := *a; _ = gopacket.LayerString(v); _ = gopacket.LayerDump(v); _ = gopacket.LayerGoString(v); _ = v.LayerContents(); _ = v.LayerPayload(); _ = v.CanDecode(); _ = v.Protocol.String() }}
	},
	tags: func(l gopacket.Layer, cls string, data []byte) []string {
		a := l.(*layers.AGUEVar0)
		var t []string
		if cls == "ok" && len(a.Extensions) > 0 {
			t = append(t, "extensions")
		}
		if cls == "ok" && a.C {
			t = append(t, "control-flag")
		}
		if cls == "err" && len(data) >= 4 {
			t = append(t, "error-after-fields-set")
		}
		return t
	},
}

func (lague) Run(c Case) Result { return lmRun(lagueDesc, c) }

// agBuild: first octet, extension octets present, payload
func agBuild(rng *rand.Rand, b0 byte, ext int, payload int) []byte {
	h := []byte{b0, byte(lnPick(rng, 4, 41, 17, 0, 255)), byte(rng.Intn(256)), byte(rng.Intn(256))}
	h = append(h, lnRandBytes(rng, ext)...)
	return append(h, lnRandBytes(rng, payload)...)
}

func (lague) Gen(rng *rand.Rand, tier string) []Case {
	valid := func(rng *rand.Rand) []byte {
		hl := lnPick(rng, 0, 0, 4, 8, 1, 31)
		return agBuild(rng, byte(lnPick(rng, 0, 0x20, 0x80, 0xc0, 0x40))|byte(hl), hl, lnPick(rng, 0, 1, 20, 33))
	}
	g := lmGenCfg{
		valid:   valid,
		hdrLen:  func(p []byte) int { h := 4 + int(p[0]&0x1f); if h > len(p) { return len(p) }; return h },
		residue: func(rng *rand.Rand) []byte { return agBuild(rng, 0xe0|8, 8, 5) },
		spec: func(rng *rand.Rand) string {
			e := "-"
			if n := lnPick(rng, 0, 0, 1, 4, 31, 32, 33, 64, 255, 256, 300); n > 0 {
				e = lnHex(lnRandBytes(rng, n))
			}
			return fmt.Sprintf("%d.%d.%d.%d.%s", lnPick(rng, 0, 0, 1, 2, 3, 4, 255), rng.Intn(2), lnPick(rng, 4, 41, 0, 255), lnPick(rng, 0, 1, 255, 256, 65535), e)
		},
		seeds: lsUDPPayloads(666),
		extra: func(rng *rand.Rand, add func(ops ...string)) {
			// every first octet (version, C, 5-bit extension length) with exactly, one fewer and one more extension octets than it says
			for b := 0; b < 256; b++ {
				hl := b & 0x1f
				for _, d := range []int{0, -1, 1} {
					if hl+d < 0 {
						continue
					}
					p := agBuild(rng, byte(b), hl+d, 0)
					add("tag:first-octet-every-value", "dec:"+lnHex(p))
					if d == 0 {
						add("tag:first-octet-every-value", "rt:"+lnHex(p)+",45")
						add("tag:first-octet-every-value", "dec2:"+lnHex(agBuild(rng, 0xe0|8, 8, 5))+","+lnHex(p))
					}
				}
			}
			// failing second decode after a full first one (residue of Extensions/Data), then serialized
			for _, k := range []int{0, 3, 4, 5, 11} {
				p := agBuild(rng, 8, 8, 2)
				add("tag:error-residue", "dec2:"+lnHex(agBuild(rng, 0xe0|8, 8, 5))+","+lnHex(p[:k]))
				add("tag:error-residue", "ser:"+lnHex(p[:k])+",111,45")
			}
		},
	}
	return lmGen(lagueDesc, g, rng, tier)
}
