package main

// Ldot11: layers/dot11.go Dot11 (802.11 MAC header) codec sub-check (C19, C05, C06, C07, C01).
// Ops: dec dec2 ser rt (lmisc_common.go) plus
//   new:<type>.<proto>.<flags>.<dur>.<a1>.<a2>.<a3>.<a4>.<seq>.<frag>,<fcd>,<payloadhex>  and rtn: likewise
//   (addresses in hex of any length, "-" = nil; QOS and HTControl nil: SerializeTo does not look at them).

import (
	"encoding/binary"
	"fmt"
	"math/rand"
	"net"
	"regexp"
	"strings"

	"github.com/gopacket/gopacket"
	"github.com/gopacket/gopacket/layers"
)

type ldot11 struct{}

func init() { register("Ldot11", ldot11{}) }

func d11p8(p *uint8) int {
	if p == nil {
		return -1
	}
	return int(*p)
}
func d11b(b bool) int {
	if b {
		return 1
	}
	return 0
}

func d11Htc(h *layers.Dot11HTControl) string {
	if h == nil {
		return "n"
	}
	var v []int
	switch {
	case h.VHT != nil:
		t := h.VHT
		coding := -1
		if t.CodingType != nil {
			coding = int(*t.CodingType)
		}
		v = []int{d11b(h.ACConstraint), d11b(h.RDGMorePPDU), 1, d11b(t.MRQ), d11b(t.UnsolicitedMFB), d11p8(t.MSI), int(t.MFB.NumSTS), int(t.MFB.VHTMCS), int(t.MFB.BW),
			int(t.MFB.SNR), d11p8(t.CompressedMSI), d11b(t.STBCIndication), d11p8(t.MFSI), d11p8(t.GID), coding, d11b(t.FbTXBeamformed)}
	case h.HT != nil:
		t := h.HT
		la := t.LinkAdapationControl
		if la == nil {
			return "ht-nolac"
		}
		ac, ad := -1, -1
		if la.ASEL != nil {
			ac, ad = int(la.ASEL.Command), int(la.ASEL.Data)
		}
		v = []int{d11b(h.ACConstraint), d11b(h.RDGMorePPDU), 0, d11b(la.TRQ), d11b(la.MRQ), int(la.MSI), int(la.MFSI), ac, ad, d11p8(la.MFB),
			int(t.CalibrationPosition), int(t.CalibrationSequence), int(t.CSISteering), d11b(t.NDPAnnouncement), d11b(t.DEI)}
	default:
		return "empty"
	}
	s := make([]string, len(v))
	for i, x := range v {
		s[i] = fmt.Sprint(x)
	}
	return strings.Join(s, ",")
}

func d11Fields(l gopacket.Layer) string {
	d := l.(*layers.Dot11)
	q := "n"
	if d.QOS != nil {
		q = fmt.Sprintf("%d~%d~%d~%d", d.QOS.TID, d11b(d.QOS.EOSP), d.QOS.AckPolicy, d.QOS.TXOP)
	}
	return fmt.Sprintf("type=%d;proto=%d;flags=%d;dur=%d;a1=%s;a2=%s;a3=%s;a4=%s;seq=%d;frag=%d;csum=%d;qos=%s;htc=%s;dl=%d",
		d.Type, d.Proto, d.Flags, d.DurationID, lnHex(d.Address1), lnHex(d.Address2), lnHex(d.Address3), lnHex(d.Address4),
		d.SequenceNumber, d.FragmentNumber, d.Checksum, q, d11Htc(d.HTControl), d11b(d.DataLayer != nil))
}

var d11RtRe = regexp.MustCompile(`csum=\d+;|;dl=\d`)

func d11Addr(s string) net.HardwareAddr {
	if s == "-" {
		return nil
	}
	return net.HardwareAddr(lnUnhex(s))
}

func d11CtrlA2(t layers.Dot11Type) bool {
	switch t {
	case 45, 41, 57, 61, 37, 33:
		return true
	}
	return false
}

// C06 hypothesis (d11_wf of Props/Ldot11.v): field ranges, no QoS/HT control (SerializeTo does not write them),
// a supported data type, exactly the addresses the frame type carries (6 octets each), at least the 4 octets the decoder takes as FCS
func d11InDomain(l gopacket.Layer, payload []byte) bool {
	d := l.(*layers.Dot11)
	main := d.Type & 3
	if d.Type >= 64 || d.Proto >= 4 || d.Type.QOS() || d.Type == 54 || len(payload) < 4 || len(d.Address1) != 6 {
		return false
	}
	if d.Flags.Order() && main == 0 {
		return false
	}
	a2 := main == 0 || main == 2 || (main == 1 && d11CtrlA2(d.Type))
	a3 := main == 0 || main == 2
	a4 := main == 2 && d.Flags.ToDS() && d.Flags.FromDS()
	ok := func(need bool, a net.HardwareAddr) bool { return (need && len(a) == 6) || (!need && len(a) == 0) }
	if !ok(a2, d.Address2) || !ok(a3, d.Address3) || !ok(a4, d.Address4) {
		return false
	}
	if a3 {
		return d.SequenceNumber < 4096 && d.FragmentNumber < 16
	}
	return d.SequenceNumber == 0 && d.FragmentNumber == 0
}

var ldot11Desc = &lmDesc{
	id: "Ldot11", name: "Dot11", ser: true,
	fresh: func() gopacket.Layer { return &layers.Dot11{} },
	decode: func(l gopacket.Layer, data []byte, fb gopacket.DecodeFeedback) error {
		return l.(*layers.Dot11).DecodeFromBytes(data, fb)
	},
	fields: d11Fields,
	next: func(l gopacket.Layer, _ *lmBuilder) string {
		return fmt.Sprint(l.(*layers.Dot11).NextLayerType())
	},
	fromSpec: func(spec string) gopacket.Layer {
		f := strings.Split(spec, ".")
		return &layers.Dot11{Type: layers.Dot11Type(lnAtoi(f[0])), Proto: uint8(lnAtoi(f[1])), Flags: layers.Dot11Flags(lnAtoi(f[2])), DurationID: uint16(lnAtoi(f[3])),
			Address1: d11Addr(f[4]), Address2: d11Addr(f[5]), Address3: d11Addr(f[6]), Address4: d11Addr(f[7]), SequenceNumber: uint16(lnAtoi(f[8])), FragmentNumber: uint16(lnAtoi(f[9]))}
	},
	inDomain: d11InDomain,
	rtFields: func(l gopacket.Layer) string { return d11RtRe.ReplaceAllString(d11Fields(l), "") },
	// the decoder takes the last four octets of the frame as FCS
	rtPayload: func(_ gopacket.Layer, payload []byte) []byte { return payload[:len(payload)-4] },
	extra: func(l gopacket.Layer) []func() {
		d := l.(*layers.Dot11)
		return []func(){func() { d.ChecksumValid() }, func() { _ = d.Flags.String() }, func() { _ = d.Type.String() }}
	},
	tags: func(l gopacket.Layer, cls string, data []byte) []string {
		d := l.(*layers.Dot11)
		var t []string
		if d.QOS != nil {
			t = append(t, "qos")
		}
		if d.HTControl != nil {
			if d.HTControl.VHT != nil {
				t = append(t, "htc-vht")
				if d.HTControl.VHT.UnsolicitedMFB && d.HTControl.VHT.GID == nil {
					t = append(t, "htc-no-feedback")
				}
			} else {
				t = append(t, "htc-ht")
				if d.HTControl.HT.LinkAdapationControl.ASEL != nil {
					t = append(t, "htc-asel")
				}
			}
		}
		if d.Address4 != nil {
			t = append(t, "four-address")
		}
		if cls == "err" && len(data) >= 10 {
			t = append(t, "error-after-fields-set")
			if d.Type == 54 {
				t = append(t, "unsupported-data-type")
			}
		}
		if cls == "ok" && d.DataLayer != nil && d.Flags.WEP() {
			t = append(t, "wep")
		}
		if cls == "ok" && len(d.Payload) == 0 {
			t = append(t, "empty-payload")
		}
		return t
	},
}

func (ldot11) Run(c Case) Result { return lmRun(ldot11Desc, c) }

// d11Build: a frame of the given type and flags with every field the decoder will look for; returns the frame and its header length
func d11Build(rng *rand.Rand, ty int, flags byte, htc []byte, payload []byte) ([]byte, int) {
	h := []byte{byte(ty<<2 | rng.Intn(4)), flags, byte(rng.Intn(256)), byte(rng.Intn(256))}
	h = append(h, lnRandBytes(rng, 6)...)
	main := ty & 3
	switch {
	case main == 1 && d11CtrlA2(layers.Dot11Type(ty)):
		h = append(h, lnRandBytes(rng, 6)...)
	case main == 0 || main == 2:
		h = append(h, lnRandBytes(rng, 14)...)
	}
	if main == 2 && flags&3 == 3 {
		h = append(h, lnRandBytes(rng, 6)...)
	}
	qos := ty&0x23 == 0x22
	if qos {
		h = append(h, lnRandBytes(rng, 2)...)
	}
	if flags&0x80 != 0 && (qos || main == 0) {
		if htc == nil {
			htc = lnRandBytes(rng, 4)
		}
		h = append(h, htc...)
	}
	n := len(h)
	h = append(h, payload...)
	return append(h, lnRandBytes(rng, 4)...), n
}

func d11Spec(rng *rand.Rand, inDom bool) string {
	ty := rng.Intn(64)
	if !inDom && rng.Intn(4) == 0 {
		ty = lnPick(rng, 64, 255, 130, 54, 34)
	}
	fl := lnPick(rng, 0, 1, 2, 3, 0x40, 0x43, 0x80, 0xff, rng.Intn(256))
	main := ty & 3
	ad := func(need bool) string {
		n := 6
		if !need {
			n = 0
		}
		if !inDom {
			n = lnPick(rng, 0, 6, 6, 6, 1, 5, 7, 8)
		}
		if n == 0 {
			return "-"
		}
		return lnHex(lnRandBytes(rng, n))
	}
	a2 := main == 0 || main == 2 || (main == 1 && d11CtrlA2(layers.Dot11Type(ty)))
	a3 := main == 0 || main == 2
	seq, frag := 0, 0
	if a3 || !inDom {
		seq, frag = lnPick(rng, 0, 1, 4095, rng.Intn(4096)), lnPick(rng, 0, 15, rng.Intn(16))
	}
	if !inDom {
		seq, frag = lnPick(rng, seq, 4096, 65535), lnPick(rng, frag, 16, 65535)
	}
	proto := rng.Intn(4)
	if !inDom {
		proto = lnPick(rng, 0, 3, 4, 255)
	}
	a1 := lnHex(lnRandBytes(rng, 6))
	if !inDom {
		a1 = ad(true)
	}
	return fmt.Sprintf("%d.%d.%d.%d.%s.%s.%s.%s.%d.%d", ty, proto, fl, lnPick(rng, 0, 1, 65535, rng.Intn(65536)), a1, ad(a2), ad(a3), ad(main == 2 && fl&3 == 3), seq, frag)
}

func (ldot11) Gen(rng *rand.Rand, tier string) []Case {
	hx := lnHex
	flagSet := []byte{0, 1, 2, 3, 0x40, 0x43, 0x80, 0x83, 0xC3, 0xff}
	valid := func(rng *rand.Rand) []byte {
		p, _ := d11Build(rng, rng.Intn(64), flagSet[rng.Intn(len(flagSet))], nil, lnRandBytes(rng, lnPick(rng, 0, 0, 1, 3, 4, 8, 30)))
		return p
	}
	g := lmGenCfg{
		valid: valid,
		hdrLen: func(p []byte) int {
			// header length by the frame's own type/flags (independent re-computation)
			if len(p) < 2 {
				return len(p)
			}
			ty, fl := int(p[0]>>2), p[1]
			n := 10
			main := ty & 3
			if main == 1 && d11CtrlA2(layers.Dot11Type(ty)) {
				n += 6
			} else if main == 0 || main == 2 {
				n += 14
			}
			if main == 2 && fl&3 == 3 {
				n += 6
			}
			if ty&0x23 == 0x22 {
				n += 2
			}
			if fl&0x80 != 0 && (ty&0x23 == 0x22 || main == 0) {
				n += 4
			}
			return n + 4
		},
		residue: func(rng *rand.Rand) []byte { // four addresses, QoS, HT control: everything set
			p, _ := d11Build(rng, 34, 0xC3, []byte{byte(lnPick(rng, 0x39, 0x05, 0xff)), 0xff, 0xff, 0xff}, []byte{1, 2, 3})
			return p
		},
		n: 60,
		spec: func(rng *rand.Rand) string { return d11Spec(rng, rng.Intn(2) == 0) },
		extra: func(rng *rand.Rand, add func(ops ...string)) {
			// every type value with the flag combinations that change the header shape: every truncation length
			for ty := 0; ty < 64; ty++ {
				for _, fl := range []byte{0, 3, 0x80, 0x83, 0x40} {
					p, n := d11Build(rng, ty, fl, nil, []byte{0xaa, 0xbb})
					add("tag:type-flags-grid", "dec:"+hx(p))
					add("tag:type-flags-grid", "dec2:"+hx(d11Residue(rng))+","+hx(p))
					add("tag:type-flags-grid", "rt:"+hx(p)+","+hx(lnRandBytes(rng, lnPick(rng, 4, 5, 12))))
					add("tag:type-flags-grid", "ser:"+hx(p)+","+lnFCD[rng.Intn(len(lnFCD))]+",0102")
					if fl == 0 || fl == 0x83 {
						for k := 8; k <= n+4; k++ {
							add("tag:truncated-prefix-of-valid", "dec:"+hx(p[:k]))
							if k%3 == 0 {
								add("tag:truncated-prefix-of-valid", "dec2:"+hx(d11Residue(rng))+","+hx(p[:k]))
								add("tag:truncated-prefix-of-valid", "tag:error-residue", "ser:"+hx(p[:k])+","+lnFCD[rng.Intn(len(lnFCD))]+",01")
							}
						}
					}
				}
			}
			// HT control field: every first octet with extreme second/third/fourth octets, on a QoS data and a management frame
			for d0 := 0; d0 < 256; d0++ {
				for _, rest := range [][]byte{{0, 0, 0}, {0xff, 0xff, 0xff}, {0xfe, 0x80, 0x20}, {0x7e, 0x83, 0x38}, {byte(rng.Intn(256)), byte(rng.Intn(256)), byte(rng.Intn(256))}} {
					ty := lnPick(rng, 34, 32, 50, 0)
					p, _ := d11Build(rng, ty, byte(lnPick(rng, 0x80, 0x83)), append([]byte{byte(d0)}, rest...), []byte{9})
					add("tag:htc-grid", "dec:"+hx(p))
				}
			}
			// QoS control octets
			for q0 := 0; q0 < 256; q0 += 5 {
				p, n := d11Build(rng, 34, 0, nil, []byte{9})
				p[n-2] = byte(q0)
				add("tag:qos-grid", "dec:"+hx(p))
			}
			// in-domain field-built layers of every type
			for i := 0; i < 200; i++ {
				s := d11Spec(rng, true)
				add("tag:in-domain-spec", "rtn:"+s+","+hx(lnRandBytes(rng, lnPick(rng, 4, 4, 5, 20))))
			}
		},
	}
	for _, s := range lnSeeds() {
		if len(s) > 20 && s[0] == 0 && s[1] == 0 && s[3] == 0 {
			if n := int(binary.LittleEndian.Uint16(s[2:])); n >= 8 && n+10 < len(s) {
				g.seeds = append(g.seeds, s[n:])
			}
		}
	}
	return lmGen(ldot11Desc, g, rng, tier)
}

func d11Residue(rng *rand.Rand) []byte {
	p, _ := d11Build(rng, 34, 0xC3, []byte{0x39, 0xff, 0xff, 0xff}, []byte{1, 2, 3})
	return p
}
