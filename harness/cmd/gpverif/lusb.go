package main

// Lusb: layers/usb.go decoder sub-check (C19, C05, C01 for USB (usbmon header) and USBRequestBlockSetup; no SerializeTo).
// The first op selects the type: L:usb or L:setup; then dec / dec2.

import (
	"fmt"
	"math/rand"

	"github.com/gopacket/gopacket"
	"github.com/gopacket/gopacket/layers"
)

type lusb struct{}

func init() { register("Lusb", lusb{}) }

var usbDesc = &lmDesc{
	id: "Lusb", name: "USB",
	fresh: func() gopacket.Layer { return &layers.USB{} },
	decode: func(l gopacket.Layer, data []byte, fb gopacket.DecodeFeedback) error {
		return l.(*layers.USB).DecodeFromBytes(data, fb)
	},
	fields: func(l gopacket.Layer) string {
		u := l.(*layers.USB)
		sec := fmt.Sprintf("%x", uint64(u.TimestampSec))
		if u.TimestampSec < 0 {
			sec = fmt.Sprintf("-%x", uint64(-u.TimestampSec))
		}
		return fmt.Sprintf("id=%x;ev=%d;tt=%d;in=%s;ep=%d;dev=%d;bus=%d;ts=%s;tu=%d;setup=%s;data=%s;st=%d;ul=%d;udl=%d", u.ID, uint8(u.EventType), uint8(u.TransferType),
			lnB(u.Direction == layers.USBDirectionTypeIn), u.EndpointNumber, u.DeviceAddress, u.BusID, sec, u.TimestampUsec, lnB(u.Setup), lnB(u.Data), u.Status, u.UrbLength, u.UrbDataLength)
	},
	next: func(l gopacket.Layer, _ *lmBuilder) string {
		u := l.(*layers.USB)
		t := u.NextLayerType()
		if t == layers.LayerTypeUSBRequestBlockSetup {
			return "setup"
		}
		if t == u.TransferType.LayerType() {
			return fmt.Sprint(uint8(u.TransferType))
		}
		return fmt.Sprintf("other%d", t)
	},
	extra: func(l gopacket.Layer) []func() {
		u := l.(*layers.USB)
		return []func(){func() { _, _, _ = u.EventType.String(), u.TransferType.String(), u.Direction.String() }}
	},
	tags: func(l gopacket.Layer, cls string, data []byte) []string {
		u := l.(*layers.USB)
		var t []string
		if cls == "ok" && u.Setup {
			t = append(t, "setup-flag")
		}
		if cls == "ok" && u.Data && !u.Setup {
			t = append(t, "data-flag")
		}
		if cls == "err" && len(data) >= 40 {
			t = append(t, "error-after-fields-set")
		}
		return t
	},
}

var usbSetupDesc = &lmDesc{
	id: "Lusb", name: "USBRequestBlockSetup",
	fresh: func() gopacket.Layer { return &layers.USBRequestBlockSetup{} },
	decode: func(l gopacket.Layer, data []byte, fb gopacket.DecodeFeedback) error {
		return l.(*layers.USBRequestBlockSetup).DecodeFromBytes(data, fb)
	},
	fields: func(l gopacket.Layer) string {
		s := l.(*layers.USBRequestBlockSetup)
		return fmt.Sprintf("rt=%d;rq=%d;val=%d;idx=%d;len=%d", s.RequestType, uint8(s.Request), s.Value, s.Index, s.Length)
	},
	next:  lmNextConst(gopacket.LayerTypePayload, "payload", func(l gopacket.Layer) gopacket.LayerType { return l.(*layers.USBRequestBlockSetup).NextLayerType() }),
	extra: func(l gopacket.Layer) []func() { s := l.(*layers.USBRequestBlockSetup); return []func(){func() { _ = s.Request.String() }} },
}

func (lusb) Run(c Case) Result {
	switch c.Ops[0] {
	case "L:usb":
		return lmRun(usbDesc, Case{Prop: c.Prop, Ops: c.Ops[1:]})
	case "L:setup":
		r := lmRun(usbSetupDesc, Case{Prop: c.Prop, Ops: c.Ops[1:]})
		r.Tags = append(r.Tags, "setup-block")
		return r
	}
	panic("Lusb: first op must be L:usb or L:setup")
}

func usbBuild(rng *rand.Rand, b14, b15 byte, udl uint32, present int) []byte {
	h := lnRandBytes(rng, 40)
	h[9], h[14], h[15] = byte(lnPick(rng, 0, 1, 2, 3, 4, 255)), b14, b15
	if rng.Intn(4) == 0 {
		for i := 16; i < 32; i++ {
			h[i] = byte(lnPick(rng, 0, 0xff))
		}
	}
	h[36], h[37], h[38], h[39] = byte(udl), byte(udl>>8), byte(udl>>16), byte(udl>>24)
	return append(h, lnRandBytes(rng, present)...)
}

func (lusb) Gen(rng *rand.Rand, tier string) []Case {
	gu := lmGenCfg{
		valid: func(rng *rand.Rand) []byte {
			n := lnPick(rng, 0, 1, 8, 20)
			return usbBuild(rng, byte(lnPick(rng, 0, 0x2d, 1)), byte(lnPick(rng, 0, 0x3c, 1)), uint32(lnPick(rng, n, n, 0, n+1, n-1)), n)
		},
		hdrLen:  func(p []byte) int { return 40 },
		residue: func(rng *rand.Rand) []byte { return usbBuild(rng, 0, 0, 0, 8) },
		extra: func(rng *rand.Rand, add func(ops ...string)) {
			// setup / data flag octets 0 and non-zero in all combinations, after a packet that set both flags
			for _, b14 := range []byte{0, 1, 0x2d, 0xff} {
				for _, b15 := range []byte{0, 1, 0x3c, 0xff} {
					for _, udl := range []uint32{0, 1, 8, 9, 1 << 31, 1<<32 - 1} {
						p := usbBuild(rng, b14, b15, udl, 8)
						add("tag:flag-octets", "dec:"+lnHex(p))
						add("tag:flag-octets", "dec2:"+lnHex(usbBuild(rng, 0, 0, 0, 8))+","+lnHex(p))
						add("tag:flag-octets", "dec2:"+lnHex(usbBuild(rng, 1, 0, 4, 8))+","+lnHex(p))
					}
				}
			}
			for v := 0; v < 256; v++ { // every transfer type / endpoint octet
				p := usbBuild(rng, 1, 1, 0, 4)
				p[9], p[10] = byte(v), byte(255-v)
				add("tag:octet-every-value", "dec:"+lnHex(p))
			}
		},
	}
	gs := lmGenCfg{valid: lmHdrGen(8), hdrLen: func([]byte) int { return 8 }, n: 30}
	var out []Case
	for _, c := range lmGen(usbDesc, gu, rng, tier) {
		out = append(out, Case{Prop: "Lusb", Ops: append([]string{"L:usb"}, c.Ops...)})
	}
	for _, c := range lmGen(usbSetupDesc, gs, rng, tier) {
		out = append(out, Case{Prop: "Lusb", Ops: append([]string{"L:setup"}, c.Ops...)})
	}
	return out
}
