package main

// Lstp: layers/stp.go codec sub-check (C19, C05, C06, C07, C01 for STP).
// Ops: dec dec2 ser rt plus new:<pid>.<ver>.<type>.<tc>.<tca>.<rprio>.<rsys>.<rhw>.<bprio>.<bsys>.<bhw>.<cost>.<port>.<age>.<max>.<hello>.<fdelay>,<fcd>,<payloadhex> and rtn:.

import (
	"fmt"
	"math/rand"
	"net"
	"strings"

	"github.com/gopacket/gopacket"
	"github.com/gopacket/gopacket/layers"
)

type lstp struct{}

func init() { register("Lstp", lstp{}) }

var lstpDesc = &lmDesc{
	id: "Lstp", name: "STP", ser: true,
	fresh: func() gopacket.Layer { return &layers.STP{} },
	decode: func(l gopacket.Layer, data []byte, fb gopacket.DecodeFeedback) error {
		return l.(*layers.STP).DecodeFromBytes(data, fb)
	},
	fields: func(l gopacket.Layer) string {
		s := l.(*layers.STP)
		return fmt.Sprintf("pid=%d;v=%d;t=%d;tc=%s;tca=%s;r=%d.%d.%s;b=%d.%d.%s;cost=%d;port=%d;age=%d;max=%d;hello=%d;fd=%d", s.ProtocolID, s.Version, s.Type, lnB(s.TC), lnB(s.TCA),
			s.RouteID.Priority, s.RouteID.SysID, lnHex(s.RouteID.HwAddr), s.BridgeID.Priority, s.BridgeID.SysID, lnHex(s.BridgeID.HwAddr), s.Cost, s.PortID, s.MessageAge, s.MaxAge, s.HelloTime, s.FDelay)
	},
	next: lmNextConst(gopacket.LayerTypePayload, "payload", func(l gopacket.Layer) gopacket.LayerType { return l.(*layers.STP).NextLayerType() }),
	fromSpec: func(spec string) gopacket.Layer {
		f := strings.Split(spec, ".")
		s := &layers.STP{ProtocolID: uint16(lnAtoi(f[0])), Version: uint8(lnAtoi(f[1])), Type: uint8(lnAtoi(f[2])), TC: f[3] == "1", TCA: f[4] == "1", Cost: uint32(lnAtoi(f[11])),
			PortID: uint16(lnAtoi(f[12])), MessageAge: uint16(lnAtoi(f[13])), MaxAge: uint16(lnAtoi(f[14])), HelloTime: uint16(lnAtoi(f[15])), FDelay: uint16(lnAtoi(f[16]))}
		s.RouteID = layers.STPSwitchID{Priority: uint16(lnAtoi(f[5])), SysID: uint16(lnAtoi(f[6])), HwAddr: net.HardwareAddr(lmHexOrDash(f[7]))}
		s.BridgeID = layers.STPSwitchID{Priority: uint16(lnAtoi(f[8])), SysID: uint16(lnAtoi(f[9])), HwAddr: net.HardwareAddr(lmHexOrDash(f[10]))}
		return s
	},
	inDomain: func(l gopacket.Layer, _ []byte) bool {
		s := l.(*layers.STP)
		return s.RouteID.Priority%4096 == 0 && s.BridgeID.Priority%4096 == 0 && s.RouteID.SysID < 4096 && s.BridgeID.SysID < 4096 && len(s.RouteID.HwAddr) == 6 && len(s.BridgeID.HwAddr) == 6
	},
}

func (lstp) Run(c Case) Result { return lmRun(lstpDesc, c) }

func (lstp) Gen(rng *rand.Rand, tier string) []Case {
	return lmGen(lstpDesc, lmGenCfg{
		valid:  lmHdrGen(35),
		hdrLen: func([]byte) int { return 35 },
		spec: func(rng *rand.Rand) string {
			hw := func() string { return lnPick2(rng, "-", "", "0102", "010203040506", "010203040506", "01020304050607") }
			return fmt.Sprintf("%d.%d.%d.%d.%d.%d.%d.%s.%d.%d.%s.%d.%d.%d.%d.%d.%d", lnPick(rng, 0, 1, 65535), lnPick(rng, 0, 2, 255), lnPick(rng, 0, 2, 128, 255), rng.Intn(2), rng.Intn(2),
				lnPick(rng, 0, 4096, 32768, 61440, 1, 4095, 65535), lnPick(rng, 0, 1, 4095, 4096, 65535), hw(), lnPick(rng, 0, 32768, 61440, 100), lnPick(rng, 0, 1, 4095, 4096), hw(),
				lnPick(rng, 0, 4, 1<<32-1), lnPick(rng, 0, 0x8001, 65535), lnPick(rng, 0, 256, 65535), lnPick(rng, 0, 5120, 65535), lnPick(rng, 0, 512, 65535), lnPick(rng, 0, 3840, 65535))
		},
		extra: lmEveryOctet(lstpDesc, 35, []int{4, 5, 17}, true),
	}, rng, tier)
}
