package main

import (
	"bytes"
	"encoding/hex"
	"fmt"
	"math/rand"
	"strconv"
	"strings"
	"sync"
	"unsafe"

	"github.com/gopacket/gopacket"
)

// C04: data ownership.  Ops: buf:hex  new:buf,n,nocopy,pool,choice  disp:p  mut:buf,i,v  conc:g,n
// The choice field of new (which pooled block sync.Pool.Get returned: index in Put order, -1 = a new
// block) is OBSERVED during the run and written back into the case so the model replays it.
type c04 struct{}

func init() { register("C04", c04{}) }

var c04Lens = []int{0, 1, 2, 7, 64, 1499, 1500, 1501, 3000}

func (c04) Gen(rng *rand.Rand, tier string) []Case {
	n := 500
	if tier == "thorough" {
		n = 8000
	}
	var out []Case
	// dedicated concurrent stress cases: many goroutines, many iterations, a shared registry of live blocks
	stress := 3
	if tier == "thorough" {
		stress = 12
	}
	for i := 0; i < stress; i++ {
		out = append(out, Case{Prop: "C04", Ops: []string{"buf:0102030405060708", fmt.Sprintf("conc:%d,%d", 4+4*(i%4), 4000)}})
	}
	for i := 0; i < n; i++ {
		var ops []string
		nb := 1 + rng.Intn(3)
		var blens []int
		for b := 0; b < nb; b++ {
			l := c04Lens[rng.Intn(len(c04Lens))]
			if rng.Intn(4) == 0 {
				l = rng.Intn(1600)
			}
			if rng.Intn(3) == 0 { // every length in a window around the pool block size
				l = 1480 + rng.Intn(60)
			}
			if i%50 == 0 && b == 0 {
				l = 65535
			}
			d := make([]byte, l)
			for j := range d {
				d[j] = byte(1 + rng.Intn(255))
			}
			blens = append(blens, l)
			ops = append(ops, "buf:"+hex.EncodeToString(d))
		}
		np := 0
		var pooled []int
		steps := 2 + rng.Intn(14)
		if tier == "thorough" {
			steps = 2 + rng.Intn(60)
		}
		for s := 0; s < steps; s++ {
			switch r := rng.Intn(10); {
			case r < 5:
				b := rng.Intn(nb)
				l := blens[b]
				if rng.Intn(3) == 0 {
					l = rng.Intn(blens[b] + 1)
				}
				nocopy, pool := 0, 0
				switch rng.Intn(4) {
				case 0:
					nocopy = 1
				case 1, 2:
					pool = 1
				}
				if rng.Intn(8) == 0 {
					nocopy, pool = 1, 1
				}
				ops = append(ops, fmt.Sprintf("new:%d,%d,%d,%d,-1", b, l, nocopy, pool))
				if nocopy == 0 && pool == 1 && l <= 1500 {
					pooled = append(pooled, np)
				}
				np++
			case r < 7:
				if len(pooled) > 0 {
					k := rng.Intn(len(pooled))
					ops = append(ops, fmt.Sprintf("disp:%d", pooled[k]))
					pooled = append(pooled[:k], pooled[k+1:]...)
				}
			case r < 9:
				b := rng.Intn(nb)
				if blens[b] > 0 {
					ops = append(ops, fmt.Sprintf("mut:%d,%d,%d", b, rng.Intn(blens[b]), rng.Intn(256)))
				}
			default:
				if i%7 == 0 {
					ops = append(ops, fmt.Sprintf("conc:%d,%d", 2+rng.Intn(7), 20+rng.Intn(40)))
				}
			}
		}
		out = append(out, Case{Prop: "C04", Ops: ops})
	}
	return out
}

func c04Digest(full []byte) int {
	// first 48 and last 16 bytes (the model computes the same; the oracle compares all bytes)
	d := append([]byte(nil), full[:min(48, len(full))]...)
	d = append(d, full[max(0, len(full)-16):]...)
	acc := 0
	for i, b := range d {
		acc = (acc + int(b)*(i+1)) % 1000003
	}
	return acc
}

type c04pkt struct {
	p        gopacket.Packet
	orig     []byte
	nocopy   bool
	pooled   bool
	disposed bool
}

func (c04) Run(c Case) Result {
	var res Result
	var bufs [][]byte
	var pkts []*c04pkt
	var poolList []*byte
	tags := map[string]bool{}
	bad := false
	for _, op := range c.Ops {
		name, arg, _ := strings.Cut(op, ":")
		args := strings.Split(arg, ",")
		atoi := func(i int) int { v, _ := strconv.Atoi(args[i]); return v }
		resolved := op
		switch name {
		case "buf":
			d, _ := hex.DecodeString(args[0])
			bufs = append(bufs, d)
		case "new":
			b, n, nocopy, pool := atoi(0), atoi(1), atoi(2) == 1, atoi(3) == 1
			if b >= len(bufs) || n > len(bufs[b]) {
				bad = true
				break
			}
			data := bufs[b][:n]
			p := gopacket.NewPacket(data, gopacket.DecodePayload, gopacket.DecodeOptions{NoCopy: nocopy, Pool: pool})
			pk := &c04pkt{p: p, orig: append([]byte(nil), data...), nocopy: nocopy}
			_, pk.pooled = p.(gopacket.PooledPacket)
			choice := -1
			if pk.pooled {
				base := unsafe.SliceData(p.Data())
				for k, q := range poolList {
					if q == base {
						choice = k
						poolList = append(poolList[:k], poolList[k+1:]...)
						tags["dispose-then-reuse-block"] = true
						break
					}
				}
			}
			resolved = fmt.Sprintf("new:%d,%d,%d,%d,%d", b, n, atoi(2), atoi(3), choice)
			pkts = append(pkts, pk)
			if n == 1500 || n == 1501 {
				tags["len-1500/1501"] = true
			}
			if !bytes.Equal(p.Data(), data) {
				res.Oracle = append(res.Oracle, fmt.Sprintf("same-result\t%s: Data() differs from the input", op))
			}
			if pl := p.Layer(gopacket.LayerTypePayload); n > 0 && (pl == nil || !bytes.Equal(pl.LayerContents(), data)) {
				res.Oracle = append(res.Oracle, fmt.Sprintf("same-result\t%s: decoded payload layer differs from the input", op))
			}
		case "disp":
			i := atoi(0)
			if i < len(pkts) && !pkts[i].pooled {
				resolved = "skip:0" // the implementation did not hand out a PooledPacket here: nothing to dispose
				break
			}
			if i >= len(pkts) || pkts[i].disposed {
				bad = true
				break
			}
			pkts[i].p.(gopacket.PooledPacket).Dispose()
			pkts[i].disposed = true
			poolList = append(poolList, unsafe.SliceData(pkts[i].p.Data()))
		case "mut":
			b, i, v := atoi(0), atoi(1), atoi(2)
			if b >= len(bufs) {
				bad = true
				break
			}
			if i < len(bufs[b]) {
				bufs[b][i] = byte(v)
			}
			tags["mutate-after-decode"] = true
		case "conc":
			g, n := atoi(0), atoi(1)
			var wg sync.WaitGroup
			errs := make(chan string, 4*g)
			var regMu sync.Mutex
			live := map[*byte]int{} // blocks of undisposed pooled packets, across all goroutines
			claim := func(p gopacket.Packet, w int) bool {
				regMu.Lock()
				defer regMu.Unlock()
				b := unsafe.SliceData(p.Data())
				if _, dup := live[b]; dup {
					return false
				}
				live[b] = w
				return true
			}
			release := func(p gopacket.Packet) {
				regMu.Lock()
				delete(live, unsafe.SliceData(p.Data()))
				regMu.Unlock()
			}
			for w := 0; w < g; w++ {
				wg.Add(1)
				go func(w int) {
					defer wg.Done()
					src := make([]byte, 64+w)
					for i := range src {
						src[i] = byte(w*31 + i)
					}
					for it := 0; it < n; it++ {
						p1 := gopacket.NewPacket(src, gopacket.DecodePayload, gopacket.DecodeOptions{Pool: true})
						p2 := gopacket.NewPacket(src[:32], gopacket.DecodePayload, gopacket.DecodeOptions{Pool: true})
						if !claim(p1, w) || !claim(p2, w) {
							errs <- "two undisposed pooled packets (possibly of different goroutines) share a block"
							return
						}
						if !bytes.Equal(p1.Data(), src) || !bytes.Equal(p2.Data(), src[:32]) {
							errs <- "pooled packet changed while held"
							return
						}
						release(p1)
						p1.(gopacket.PooledPacket).Dispose()
						if !bytes.Equal(p2.Data(), src[:32]) {
							errs <- "pooled packet changed after another was disposed"
							return
						}
						release(p2)
						p2.(gopacket.PooledPacket).Dispose()
					}
				}(w)
			}
			wg.Wait()
			close(errs)
			for e := range errs {
				res.Oracle = append(res.Oracle, "pool-disjoint-concurrent\t"+e)
			}
			tags["concurrent"] = true
			// blocks returned by the goroutines are unknown to this case's pool list: later Gets of them count as new blocks
		}
		res.Ops = append(res.Ops, resolved)
		if name == "conc" {
			// the model treats conc as a no-op; nothing observable changes
		}
		var obs []string
		for _, pk := range pkts {
			d := pk.p.Data()
			h := d
			if len(h) > 8 {
				h = h[:8]
			}
			if pk.disposed { // the bytes of a disposed packet are no longer its own: only the length is compared
				obs = append(obs, fmt.Sprintf("%d:x:x:1", len(d)))
				continue
			}
			obs = append(obs, fmt.Sprintf("%d:%d:%s:0", len(d), c04Digest(d), hex.EncodeToString(h)))
		}
		bd := 0
		if bad {
			bd = 1
		}
		res.Obs = append(res.Obs, fmt.Sprintf("pkts=%s;bad=%d", strings.Join(obs, "|"), bd))
		if bad {
			continue
		}
		// oracle: owning packets keep their bytes; live copies are pairwise disjoint and away from caller memory
		seen := map[*byte]int{}
		for i, pk := range pkts {
			if pk.nocopy || pk.disposed {
				continue
			}
			if !bytes.Equal(pk.p.Data(), pk.orig) {
				res.Oracle = append(res.Oracle, fmt.Sprintf("copy-isolated\tafter %s packet %d no longer holds its bytes", op, i))
			}
			if len(pk.orig) == 0 && !pk.pooled {
				continue // zero-length plain copies have no backing memory to compare
			}
			base := unsafe.SliceData(pk.p.Data())
			if j, ok := seen[base]; ok {
				res.Oracle = append(res.Oracle, fmt.Sprintf("pool-disjoint\tafter %s packets %d and %d share backing memory", op, j, i))
			}
			seen[base] = i
			for _, bf := range bufs {
				if len(bf) > 0 && base == unsafe.SliceData(bf) {
					res.Oracle = append(res.Oracle, fmt.Sprintf("copy-isolated\tafter %s packet %d aliases the caller's buffer", op, i))
				}
			}
		}
	}
	for t := range tags {
		res.Tags = append(res.Tags, t)
	}
	return res
}
