package main

// Lague1: layers/ague_var1.go codec sub-check (C19, C05, C06, C07, C01 for AGUEVar1) and the dispatcher decodeAGUE
// (ague_var0.go), registered for both AGUE layer types.
// Ops: dec dec2 ser rt (lmisc_common.go), new:/rtn: with <spec> = protocol number, plus decf:<hex> — the registered decoder
// on a recording PacketBuilder; obs: cls=..;tr=..;variant=0|1|2;<AGUEVar0 fields>;proto1=..;c=..;p=..;next=none|t<protocol>

import (
	"fmt"
	"math/rand"

	"github.com/gopacket/gopacket"
	"github.com/gopacket/gopacket/layers"
)

type lague1 struct{}

func init() { register("Lague1", lague1{}) }

var lague1Desc = &lmDesc{
	id: "Lague1", name: "AGUEVar1", ser: true,
	fresh: func() gopacket.Layer { return &layers.AGUEVar1{} },
	decode: func(l gopacket.Layer, data []byte, fb gopacket.DecodeFeedback) error {
		return l.(*layers.AGUEVar1).DecodeFromBytes(data, fb)
	},
	fields: func(l gopacket.Layer) string { return fmt.Sprintf("proto=%d", uint8(l.(*layers.AGUEVar1).Protocol)) },
	next: func(l gopacket.Layer, _ *lmBuilder) string {
		a := l.(*layers.AGUEVar1)
		if a.NextLayerType() != a.Protocol.LayerType() {
			return "mismatch"
		}
		return fmt.Sprintf("t%d", uint8(a.Protocol))
	},
	fromSpec: func(spec string) gopacket.Layer { return &layers.AGUEVar1{Protocol: layers.IPProtocol(lnAtoi(spec))} },
	// C06 hypothesis: the payload announces the layer's protocol (first nibble 4 for IPv4, 6 for IPv6)
	inDomain: func(l gopacket.Layer, payload []byte) bool {
		a := l.(*layers.AGUEVar1)
		if len(payload) == 0 {
			return false
		}
		return (a.Protocol == layers.IPProtocolIPv4 && payload[0]>>4 == 4) || (a.Protocol == layers.IPProtocolIPv6 && payload[0]>>4 == 6)
	},
	extra: func(l gopacket.Layer) []func() {
		a := l.(*layers.AGUEVar1)
		return []func(){func() { v := *a; _ = gopacket.LayerString(v); _ = gopacket.LayerDump(v); _ = gopacket.LayerGoString(v); _ = v.LayerContents(); _ = v.LayerPayload(); _ = v.CanDecode(); _ = v.Protocol.String() }}
	},
}

func (lague1) Run(c Case) (res Result) {
	fn := false
	for _, op := range c.Ops {
		if name, _ := lnOp(op); name == "decf" {
			fn = true
		}
	}
	if !fn {
		return lmRun(lague1Desc, c)
	}
	for _, op := range c.Ops {
		name, a := lnOp(op)
		switch name {
		case "tag":
			res.Tags = append(res.Tags, a[0])
		case "decf":
			data := lnCopy(lnUnhex(a[0]))
			b := &lmBuilder{}
			lt := layers.LayerTypeAGUEVar0
			if len(a) > 1 && a[1] == "1" { // the same decoder is registered for LayerTypeAGUEVar1
				lt = layers.LayerTypeAGUEVar1
			}
			cls := lnClass(func() error { return lt.Decode(data, b) })
			variant := 0
			v0, v1 := &layers.AGUEVar0{}, &layers.AGUEVar1{}
			var added gopacket.Layer
			if len(b.layers) > 0 {
				added = b.layers[0]
				switch x := added.(type) {
				case layers.AGUEVar0:
					variant, v0 = 1, &x
				case layers.AGUEVar1:
					variant, v1 = 2, &x
				default:
					variant = 9
				}
			}
			var cc, pp []byte
			nx := "none"
			if added != nil {
				cc, pp = lmBase(added)
			}
			if b.nextSet {
				var pr layers.IPProtocol
				if variant == 1 {
					pr = v0.Protocol
				} else {
					pr = v1.Protocol
				}
				if b.next == gopacket.Decoder(pr.LayerType()) {
					nx = fmt.Sprintf("t%d", uint8(pr))
				} else {
					nx = fmt.Sprintf("other%v", b.next)
				}
			}
			res.Obs = append(res.Obs, fmt.Sprintf("cls=%s;tr=%s;variant=%d;%s;proto1=%d;c=%s;p=%s;next=%s", cls, lnB(b.tr), variant, lagueDesc.fields(v0), uint8(v1.Protocol), lnHex(cc), lnHex(pp), nx))
			if cls == "panic" {
				res.Oracle = append(res.Oracle, "C19:panic\tdecodeAGUE panicked")
			}
			if (cls == "ok") != (len(b.layers) == 1) {
				res.Oracle = append(res.Oracle, fmt.Sprintf("C01:error-discipline\tdecoder class %s but %d layers added", cls, len(b.layers)))
			}
			if added != nil && lnRender(added) != "ok" {
				res.Oracle = append(res.Oracle, "C01:render-panic\trenderer panicked on the layer value the decoder added")
			}
			if cls == "err" {
				res.Tags = append(res.Tags, "decode-error")
			}
			res.Tags = append(res.Tags, "registered-decoder", fmt.Sprintf("variant-%d", variant))
		default:
			panic("Lague1: op " + op + " mixed with decf")
		}
	}
	return
}

func (lague1) Gen(rng *rand.Rand, tier string) []Case {
	ip := func(rng *rand.Rand) []byte {
		p := lnRandBytes(rng, lnPick(rng, 1, 2, 20, 40))
		p[0] = byte(lnPick(rng, 0x45, 0x45, 0x60, 0x60, 0x4f, 0x6a, 0x50, 0x70, 0x00, 0xf5))
		return p
	}
	g := lmGenCfg{
		valid:  ip,
		hdrLen: func(p []byte) int { if len(p) > 3 { return 3 }; return len(p) },
		spec:   func(rng *rand.Rand) string { return fmt.Sprint(lnPick(rng, 4, 41, 0, 6, 17, 255)) },
		seeds:  lsUDPPayloads(666),
		extra: func(rng *rand.Rand, add func(ops ...string)) {
			// every first octet: DecodeFromBytes, reused object, the dispatcher under both layer types, round trip over a payload with the same first octet
			for b := 0; b < 256; b++ {
				p := append([]byte{byte(b)}, lnRandBytes(rng, lnPick(rng, 0, 3, 35))...)
				q := append([]byte{byte(b)}, lnRandBytes(rng, lnPick(rng, 0, 5))...)
				add("tag:first-octet-every-value", "dec:"+lnHex(p))
				add("tag:first-octet-every-value", "dec2:"+lnHex(ip(rng))+","+lnHex(p))
				add("tag:first-octet-every-value", "decf:"+lnHex(p)+",0")
				add("tag:first-octet-every-value", "decf:"+lnHex(p)+",1")
				add("tag:first-octet-every-value", "rt:"+lnHex(p)+","+lnHex(q))
			}
			add("tag:empty", "decf:,0")
			add("tag:empty", "decf:,1")
			// in-domain and mismatching field-built layers
			for _, pr := range []int{4, 41} {
				for _, nib := range []byte{0x45, 0x60, 0x00} {
					add("tag:field-extreme", "rtn:"+fmt.Sprint(pr)+","+lnHex(append([]byte{nib}, lnRandBytes(rng, 9)...)))
				}
			}
			// variant 0 through the dispatcher: every truncation of a header with extensions (the truncated flag does not reach the builder)
			p := append([]byte{0x20 | 6, 4, 1, 2}, lnRandBytes(rng, 10)...)
			for k := 0; k <= len(p); k++ {
				add("tag:truncated-prefix-of-valid", "decf:"+lnHex(p[:k])+",0")
			}
			for i := 0; i < 60; i++ {
				add("tag:malformed", "decf:"+lnHex(lnRandBytes(rng, lnPick(rng, 1, 2, 3, 4, 5, 12, 40)))+","+fmt.Sprint(rng.Intn(2)))
			}
		},
	}
	return lmGen(lague1Desc, g, rng, tier)
}
