package main

import (
	"bytes"
	"encoding/hex"
	"fmt"
	"math/rand"
	"strconv"
	"strings"

	"github.com/gopacket/gopacket"
)

// C18: serialize buffer.  Ops: new:p,a  pre:n,hex  app:n,hex  clr  push:t  wr:k,i,v
type c18 struct{}

func init() { register("C18", c18{}) }

var c18Sizes = []int{0, 1, 2, 3, 7, 8, 64, 1500}
var c18Hints = []int{0, 1, 8, 4096}

func c18RandOp(rng *rand.Rand, nwin int, big bool) string {
	sz := c18Sizes[rng.Intn(len(c18Sizes))]
	if big && rng.Intn(40) == 0 {
		sz = 70000
	}
	fillLen := sz
	switch rng.Intn(6) {
	case 0:
		fillLen = 0
	case 1:
		fillLen = rng.Intn(sz + 1)
	}
	fill := make([]byte, fillLen)
	for i := range fill {
		fill[i] = byte(1 + rng.Intn(255))
	}
	switch r := rng.Intn(20); {
	case r < 7:
		return fmt.Sprintf("pre:%d,%s", sz, hex.EncodeToString(fill))
	case r < 13:
		return fmt.Sprintf("app:%d,%s", sz, hex.EncodeToString(fill))
	case r < 15:
		return "clr"
	case r < 16:
		if rng.Intn(2) == 0 { // SerializeLayers / SerializePacket-style stacking, incl. the empty stack
			n := rng.Intn(4)
			var ls []string
			for j := 0; j < n; j++ {
				h := make([]byte, []int{0, 1, 2, 8, 20}[rng.Intn(5)])
				for k := range h {
					h[k] = byte(1 + rng.Intn(255))
				}
				ls = append(ls, fmt.Sprintf("%d.%s", 1+rng.Intn(200), hex.EncodeToString(h)))
			}
			return "ser:" + strings.Join(ls, "|")
		}
		if rng.Intn(3) == 0 {
			return fmt.Sprintf("oth:%d", rng.Intn(200))
		}
		return fmt.Sprintf("push:%d", rng.Intn(200))
	default:
		if nwin == 0 {
			return fmt.Sprintf("pre:%d,%s", sz, hex.EncodeToString(fill))
		}
		return fmt.Sprintf("wr:%d,%d,%d", rng.Intn(nwin), rng.Intn(9), 1+rng.Intn(255))
	}
}

func (c18) Gen(rng *rand.Rand, tier string) []Case {
	var out []Case
	n, depth := 400, 40
	if tier == "thorough" {
		n, depth = 6000, 200
	}
	// exhaustive small scope: all op-kind sequences of depth<=d over a small size set
	exd := 4
	if tier == "thorough" {
		exd = 5
	}
	small := []string{"pre:1,aa", "pre:3,b1b2b3", "app:2,c1c2", "app:8,d1d2d3d4d5d6d7d8", "clr", "wr:1,0,238", "pre:2,", "push:7", "ser:", "ser:5.e1e2|6.|7.f1", "oth:9"}
	for _, hint := range [][2]int{{0, 0}, {1, 0}, {2, 3}} {
		var rec func(prefix []string, d int)
		rec = func(prefix []string, d int) {
			if d == 0 {
				ops := append([]string{fmt.Sprintf("new:%d,%d", hint[0], hint[1])}, prefix...)
				out = append(out, Case{Prop: "C18", Ops: append([]string(nil), ops...)})
				return
			}
			for _, o := range small {
				rec(append(prefix, o), d-1)
			}
		}
		rec(nil, exd)
	}
	for i := 0; i < n; i++ {
		p, a := c18Hints[rng.Intn(len(c18Hints))], c18Hints[rng.Intn(len(c18Hints))]
		ops := []string{fmt.Sprintf("new:%d,%d", p, a)}
		d := 1 + rng.Intn(depth)
		nwin := 0
		for j := 0; j < d; j++ {
			o := c18RandOp(rng, nwin, i%10 == 0)
			if strings.HasPrefix(o, "pre:") || strings.HasPrefix(o, "app:") {
				nwin++
			}
			ops = append(ops, o)
		}
		out = append(out, Case{Prop: "C18", Ops: ops})
	}
	return out
}

// c18Layer is a serializable layer that prepends its header bytes.
type c18Layer struct {
	t   gopacket.LayerType
	hdr []byte
}

func (l c18Layer) LayerType() gopacket.LayerType { return l.t }
func (l c18Layer) SerializeTo(b gopacket.SerializeBuffer, opts gopacket.SerializeOptions) error {
	w, err := b.PrependBytes(len(l.hdr))
	if err != nil {
		return err
	}
	copy(w, l.hdr)
	return nil
}

type c18win struct {
	s     []byte
	epoch int // number of Clear calls before it was returned
}

func (c18) Run(c Case) Result {
	var res Result
	var buf gopacket.SerializeBuffer = gopacket.NewSerializeBuffer()
	other := gopacket.NewSerializeBuffer() // a second buffer alive for the whole case (op oth)
	var wantLayers []int                   // layers recorded in buf since its last Clear, per the contract
	var wins []c18win // most recent last
	// implementation-side oracle: the tape (position-ordered list of cells, -1 = indeterminate)
	var tape []int
	type twin struct{ pos, n, epoch int }
	var twins []twin
	epoch := 0
	winlen := 0
	illBehaved := false // the caller wrote through a window invalidated by Clear: outside the contract
	tags := map[string]bool{}
	for _, op := range c.Ops {
		name, arg, _ := strings.Cut(op, ":")
		args := strings.Split(arg, ",")
		panicked := false
		func() {
			defer func() {
				if r := recover(); r != nil {
					panicked = true
				}
			}()
			switch name {
			case "new":
				wantLayers = nil
				p, _ := strconv.Atoi(args[0])
				a, _ := strconv.Atoi(args[1])
				if p == 0 && a == 0 {
					buf = gopacket.NewSerializeBuffer()
				} else {
					buf = gopacket.NewSerializeBufferExpectedSize(p, a)
				}
			case "pre", "app":
				n, _ := strconv.Atoi(args[0])
				fill, _ := hex.DecodeString(args[1])
				before := buf.Bytes()
				var s []byte
				if name == "pre" {
					s, _ = buf.PrependBytes(n)
				} else {
					s, _ = buf.AppendBytes(n)
				}
				copy(s, fill)
				after := buf.Bytes()
				if len(before) > 0 && len(after) > 0 {
					moved := false
					if name == "pre" {
						moved = &before[len(before)-1] != &after[len(after)-1]
					} else {
						moved = &before[0] != &after[0]
					}
					if moved {
						tags[name+"-growth"] = true
					}
				}
				if epoch > 0 {
					tags["clear-then-reuse"] = true
				}
				wins = append(wins, c18win{s, epoch})
				winlen = len(s)
				// tape
				cells := make([]int, n)
				for i := range cells {
					cells[i] = -1
					if i < len(fill) {
						cells[i] = int(fill[i])
					}
				}
				if name == "pre" {
					tape = append(cells, tape...)
					for i := range twins {
						twins[i].pos += n
					}
					twins = append(twins, twin{0, n, epoch})
				} else {
					twins = append(twins, twin{len(tape), n, epoch})
					tape = append(tape, cells...)
				}
				if len(s) != n {
					res.Oracle = append(res.Oracle, fmt.Sprintf("window-length\twant %d got %d", n, len(s)))
				}
			case "clr":
				wantLayers = nil
				buf.Clear()
				epoch++
				tape = nil
			case "ser":
				// gopacket.SerializeLayers over harness-defined layers that prepend their header
				var sls []gopacket.SerializableLayer
				var wantBytes []byte
				var wantTypes []string
				if arg != "" {
					for _, l := range strings.Split(arg, "|") {
						ts, hs, _ := strings.Cut(l, ".")
						t, _ := strconv.Atoi(ts)
						h, _ := hex.DecodeString(hs)
						sls = append(sls, c18Layer{t: gopacket.LayerType(t), hdr: h})
						wantBytes = append(wantBytes, h...)
					}
					for i := len(sls) - 1; i >= 0; i-- {
						wantTypes = append(wantTypes, strconv.Itoa(int(sls[i].LayerType())))
					}
				}
				// the same slice is passed twice: the helper must not alter the caller's slice
				gopacket.SerializeLayers(buf, gopacket.SerializeOptions{}, sls...)
				err := gopacket.SerializeLayers(buf, gopacket.SerializeOptions{}, sls...)
				epoch++
				tape = nil
				for _, b := range wantBytes {
					tape = append(tape, int(b))
				}
				wantLayers = nil
				for i := len(sls) - 1; i >= 0; i-- {
					wantLayers = append(wantLayers, int(sls[i].LayerType()))
				}
				twins = nil // windows handed to the layers are not tracked by the harness
				wins = nil
				winlen = 0
				if err != nil {
					res.Oracle = append(res.Oracle, "stack\tSerializeLayers returned an error: "+err.Error())
				}
				var got []string
				for _, l := range buf.Layers() {
					got = append(got, strconv.Itoa(int(l)))
				}
				if strings.Join(got, ",") != strings.Join(wantTypes, ",") {
					res.Oracle = append(res.Oracle, fmt.Sprintf("stack\tafter %s: Layers() = %v, want innermost first %v", op, got, wantTypes))
				}
				if !bytes.Equal(buf.Bytes(), wantBytes) {
					res.Oracle = append(res.Oracle, fmt.Sprintf("stack\tafter %s: Bytes() = %x, want outermost first %x", op, buf.Bytes(), wantBytes))
				}
				tags["stack"] = true
			case "oth":
				// activity on ANOTHER buffer that is alive at the same time must not show in this one
				t, _ := strconv.Atoi(args[0])
				other.PushLayer(gopacket.LayerType(t))
				if t%3 == 0 {
					gopacket.SerializeLayers(other, gopacket.SerializeOptions{}, c18Layer{t: gopacket.LayerType(t), hdr: []byte{1, 2, 3}}, c18Layer{t: gopacket.LayerType(t + 1), hdr: []byte{4}})
				}
				tags["other-buffer"] = true
			case "push":
				t, _ := strconv.Atoi(args[0])
				buf.PushLayer(gopacket.LayerType(t))
				wantLayers = append(wantLayers, t)
			case "wr":
				k, _ := strconv.Atoi(args[0])
				i, _ := strconv.Atoi(args[1])
				v, _ := strconv.Atoi(args[2])
				if k < len(wins) {
					w := wins[len(wins)-1-k]
					tw := twins[len(twins)-1-k]
					if i < len(w.s) {
						// does the window still alias the buffer's contents? (observed, fed to the oracle)
						cur := buf.Bytes()
						live := false
						if tw.epoch == epoch && tw.pos+i < len(cur) && len(cur) > 0 {
							live = &cur[tw.pos+i] == &w.s[i]
						}
						w.s[i] = byte(v)
						if tw.epoch != epoch {
							illBehaved = true
						}
						if tw.epoch == epoch && live {
							tape[tw.pos+i] = v
							if k > 0 {
								tags["write-through-old-window"] = true
							}
						}
					}
				}
			}
		}()
		if name == "new" {
			continue
		}
		b := buf.Bytes()
		var ls []string
		for _, l := range buf.Layers() {
			ls = append(ls, strconv.Itoa(int(l)))
		}
		pn := 0
		if panicked {
			pn = 1
		}
		res.Obs = append(res.Obs, fmt.Sprintf("bytes=%s;win=%d;layers=%s;panic=%d", hex.EncodeToString(b), winlen, strings.Join(ls, ","), pn))
		// oracle: contents agree with the tape on written cells; length equal
		if illBehaved {
			continue
		}
		if panicked {
			res.Oracle = append(res.Oracle, "no-panic\tpanic in "+op)
		}
		if len(b) != len(tape) {
			res.Oracle = append(res.Oracle, fmt.Sprintf("length\tafter %s: want %d got %d", op, len(tape), len(b)))
		} else {
			for i, cv := range tape {
				if cv >= 0 && int(b[i]) != cv {
					res.Oracle = append(res.Oracle, fmt.Sprintf("written-cell\tafter %s: cell %d want %d got %d", op, i, cv, b[i]))
					break
				}
			}
		}
		{ // the recorded layers are exactly those pushed into THIS buffer since its last Clear
			var got []int
			for _, l := range buf.Layers() {
				got = append(got, int(l))
			}
			if fmt.Sprint(got) != fmt.Sprint(wantLayers) {
				res.Oracle = append(res.Oracle, fmt.Sprintf("layers\tafter %s: Layers() = %v, want %v", op, got, wantLayers))
			}
		}
		if name == "clr" && (len(b) != 0 || len(buf.Layers()) != 0) {
			res.Oracle = append(res.Oracle, "clear-empties\tnot empty after Clear")
		}
	}
	_ = bytes.Equal
	for t := range tags {
		res.Tags = append(res.Tags, t)
	}
	return res
}
