package main

import (
	"bytes"
	"encoding/hex"
	"fmt"
	"math/rand"
	"sort"
	"strconv"
	"strings"
	"sync"
	"sync/atomic"
	"syscall"
	"time"

	"github.com/gopacket/gopacket"
	"github.com/gopacket/gopacket/layers"
	"github.com/gopacket/gopacket/reassembly"
)

// C09: reassembly, one half-connection through the public API.
// ops:  s:hex isn:n            sender stream S and initial sequence number (oracle only)
//       cfg:mpc,mt             MaxBufferedPagesPerConnection / MaxBufferedPagesTotal
//       keep:m,x,m,x,...       KeepFrom script, one (mode,x) entry per ReassembledSG call, cyclic:
//                              0 no call, 1 KeepFrom(x), 2 KeepFrom(saved+x), 3 KeepFrom(available+x)
//       seg:seq,flags,ts,hex   one layers.TCP through AssembleWithContext; flags 1 SYN 2 FIN 4 RST 8 Accept forces *start
//       fwo:t,tc  fco:t  fall  FlushWithOptions / FlushCloseOlderThan / FlushAll
// observation per op: ev=<events joined by |>;used=<pageCache.used from Assembler.Dump()>
//   events: new/<sid>  sg/<sid>/<hex of Fetch(available)>/<start>/<end>/<skip>/<available>/<saved>  done/<sid>  panic
type c09 struct{}

func init() { register("C09", c09{}) }

// ---------------------------------------------------------------- running the implementation

type c09ctx struct{ ci gopacket.CaptureInfo }

func (c *c09ctx) GetCaptureInfo() gopacket.CaptureInfo { return c.ci }

type c09sg struct {
	sid          int
	bytes        []byte
	start, end   bool
	skip         int
	avail, saved int
	keep         int  // value given to KeepFrom
	kept         bool // KeepFrom was called
	fetchBad     string // first partial Fetch(l) that is not the prefix of Fetch(available)
}

type c09world struct {
	nstreams int
	ncalls   int
	script   [][2]int
	force    bool
	events   []string
	sgs      []c09sg // SG calls of the current op
	dones    []int
	news     []int
}

type c09stream struct {
	w   *c09world
	sid int
}

func (w *c09world) New(a, b gopacket.Flow, tcp *layers.TCP, ac reassembly.AssemblerContext) reassembly.Stream {
	w.nstreams++
	w.events = append(w.events, fmt.Sprintf("new/%d", w.nstreams))
	w.news = append(w.news, w.nstreams)
	return &c09stream{w: w, sid: w.nstreams}
}

func (s *c09stream) Accept(tcp *layers.TCP, ci gopacket.CaptureInfo, dir reassembly.TCPFlowDirection, nextSeq reassembly.Sequence, start *bool, ac reassembly.AssemblerContext) bool {
	if s.w.force {
		*start = true
	}
	return true
}

func c09b(b bool) int {
	if b {
		return 1
	}
	return 0
}

func (s *c09stream) ReassembledSG(sg reassembly.ScatterGather, ac reassembly.AssemblerContext) {
	w := s.w
	avail, saved := sg.Lengths()
	data := append([]byte(nil), sg.Fetch(avail)...)
	dir, start, end, skip := sg.Info()
	_ = dir
	rec := c09sg{sid: s.sid, bytes: data, start: start, end: end, skip: skip, avail: avail, saved: saved}
	// a stream may ask for any shorter length: Fetch(l) is the first l of the available bytes
	for l := 0; l < avail && rec.fetchBad == ""; l++ {
		if avail > 64 && l > 24 && l < avail-24 && l%7 != 0 {
			continue
		}
		if part := sg.Fetch(l); len(part) != l || !bytes.Equal(part, data[:l]) {
			rec.fetchBad = fmt.Sprintf("Fetch(%d) = %x, first %d of Fetch(%d) = %x", l, part, l, avail, data[:l])
		}
	}
	if len(w.script) > 0 {
		e := w.script[w.ncalls%len(w.script)]
		switch e[0] {
		case 1:
			rec.kept, rec.keep = true, e[1]
		case 2:
			rec.kept, rec.keep = true, saved+e[1]
		case 3:
			rec.kept, rec.keep = true, avail+e[1]
		}
		if rec.kept {
			sg.KeepFrom(rec.keep)
		}
	}
	w.ncalls++
	w.events = append(w.events, fmt.Sprintf("sg/%d/%s/%d/%d/%d/%d/%d", s.sid, hex.EncodeToString(data), c09b(start), c09b(end), skip, avail, saved))
	w.sgs = append(w.sgs, rec)
}

func (s *c09stream) ReassemblyComplete(ac reassembly.AssemblerContext) bool {
	s.w.events = append(s.w.events, fmt.Sprintf("done/%d", s.sid))
	s.w.dones = append(s.w.dones, s.sid)
	return true
}

var c09netFlow, _ = gopacket.FlowFromEndpoints(layers.NewIPEndpoint([]byte{1, 2, 3, 4}), layers.NewIPEndpoint([]byte{5, 6, 7, 8}))

func c09used(a *reassembly.Assembler) string {
	d := a.Dump() // "pageCache: used: %d:"
	i := strings.Index(d, "used: ")
	if i < 0 {
		return "?"
	}
	return strings.TrimSuffix(strings.TrimSpace(d[i+6:]), ":")
}

// oracle state per stream
type c09ost struct {
	posKnown bool
	pos      int
	startPos int
	recv     map[int]bool // offsets received by this stream (while not ended)
	minOff   int
	maxEnd   int
	any      bool
	ended    bool // an SG with end was delivered
	done     bool
	expKept  []byte
	hasPrev  bool
}

// Watchdog: the code under test may spin (a corrupted page list).  Every case runs in its own
// goroutine with a heartbeat per op.  An op is declared stuck when it has made no progress for
// c09SpinWall of wall time while the process burnt at least c09SpinCPU of CPU in that window (a
// spinning loop; an op of a case takes well under a millisecond, a goroutine that is merely starved
// on a loaded machine burns nothing), or after c09OpDeadline of wall time in any case, or when the
// case exceeds c09CaseDeadline.  The case is then recorded as stuck (observation ev=stuck, oracle
// clause C09:hang with the step) and its goroutine is abandoned.  After c09MaxStuck stuck cases the
// remaining cases are not run (observation skipped=too-many-hangs), so abandoned spinning
// goroutines cannot eat the machine and the outputs are still written.
const (
	c09SpinWall     = 300 * time.Millisecond
	c09SpinCPU      = 250 * time.Millisecond
	c09OpDeadline   = 5 * time.Second
	c09CaseDeadline = 20 * time.Second
	c09MaxStuck     = 3
)

var c09stuckCases int32

type c09guard struct {
	mu        sync.Mutex
	res       Result
	beat      int64 // unix nanos of the start of the current op
	beatCPU   int64 // process CPU nanos at that moment
	step      int
	opname    string
	abandoned bool
}

func (c09) Run(c Case) Result {
	if atomic.LoadInt32(&c09stuckCases) >= c09MaxStuck {
		return Result{Obs: []string{"skipped=too-many-hangs"}}
	}
	g := &c09guard{}
	atomic.StoreInt64(&g.beatCPU, c09cpu())
	atomic.StoreInt64(&g.beat, time.Now().UnixNano())
	done := make(chan struct{})
	go func() {
		defer close(done)
		defer func() {
			if r := recover(); r != nil {
				g.mu.Lock()
				if !g.abandoned {
					g.res.Obs = append(g.res.Obs, fmt.Sprintf("harness-panic=%q", fmt.Sprint(r)))
					g.res.Oracle = append(g.res.Oracle, fmt.Sprintf("harness-panic\t%v", r))
				}
				g.mu.Unlock()
			}
		}()
		c09run(c, g)
	}()
	start := time.Now()
	tick := time.NewTicker(20 * time.Millisecond)
	defer tick.Stop()
	for {
		select {
		case <-done:
			g.mu.Lock()
			defer g.mu.Unlock()
			return g.res
		case <-tick.C:
			idle := time.Since(time.Unix(0, atomic.LoadInt64(&g.beat)))
			// abandoned spinners of earlier cases burn CPU too: ask for more than their share
			spin := idle > c09SpinWall &&
				time.Duration(c09cpu()-atomic.LoadInt64(&g.beatCPU)) > c09SpinCPU+time.Duration(atomic.LoadInt32(&c09stuckCases))*idle
			if spin || idle > c09OpDeadline || time.Since(start) > c09CaseDeadline {
				g.mu.Lock()
				g.abandoned = true
				res := Result{Obs: append([]string(nil), g.res.Obs...), Tags: append([]string(nil), g.res.Tags...),
					Oracle: append([]string(nil), g.res.Oracle...)}
				res.Obs = append(res.Obs, "ev=stuck;used=-")
				res.Oracle = append(res.Oracle, fmt.Sprintf("C09:hang\tstep %d op %s made no progress for %v (case abandoned)", g.step, g.opname, idle.Round(10*time.Millisecond)))
				g.mu.Unlock()
				atomic.AddInt32(&c09stuckCases, 1)
				return res
			}
		}
	}
}

// CPU time (user+system) of the process, in nanoseconds
func c09cpu() int64 {
	var ru syscall.Rusage
	if syscall.Getrusage(syscall.RUSAGE_SELF, &ru) != nil {
		return 0
	}
	return ru.Utime.Nano() + ru.Stime.Nano()
}

// c09run executes the case; results are published step by step under g.mu
func c09run(c Case, g *c09guard) {
	var res Result
	publish := func() {
		g.mu.Lock()
		if !g.abandoned {
			g.res = Result{Obs: append([]string(nil), res.Obs...), Tags: append([]string(nil), res.Tags...),
				Oracle: append([]string(nil), res.Oracle...)}
		}
		g.mu.Unlock()
	}
	defer publish()
	w := &c09world{}
	pool := reassembly.NewStreamPool(w)
	asm := reassembly.NewAssembler(pool)
	var S []byte
	isn := int64(0)
	tags := map[string]bool{}
	ost := map[int]*c09ost{}
	get := func(sid int) *c09ost {
		o := ost[sid]
		if o == nil {
			o = &c09ost{recv: map[int]bool{}}
			ost[sid] = o
		}
		return o
	}
	fail := func(clause, detail string) {
		res.Oracle = append(res.Oracle, "C09:"+clause+"\t"+detail)
	}
	cur := 0 // stream currently in the pool (0: none)
	limits := false
	sawLow, sawHigh := false, false
	for step, op := range c.Ops {
		publish()
		g.mu.Lock()
		ab := g.abandoned
		g.step = step
		g.mu.Unlock()
		if ab {
			return
		}
		name, arg, _ := strings.Cut(op, ":")
		g.mu.Lock()
		g.opname = name
		g.mu.Unlock()
		atomic.StoreInt64(&g.beatCPU, c09cpu())
		atomic.StoreInt64(&g.beat, time.Now().UnixNano())
		args := strings.Split(arg, ",")
		ai := func(i int) int64 {
			if i >= len(args) {
				return 0
			}
			v, _ := strconv.ParseInt(args[i], 10, 64)
			return v
		}
		w.events, w.sgs, w.dones, w.news = nil, nil, nil, nil
		isSeg, isFlush := false, false
		var segOff, segLen int
		var segSyn bool
		panicked := false
		func() {
			defer func() {
				if r := recover(); r != nil {
					panicked = true
				}
			}()
			switch name {
			case "s":
				S, _ = hex.DecodeString(arg)
			case "isn":
				isn = ai(0)
			case "cfg":
				asm.MaxBufferedPagesPerConnection = int(ai(0))
				asm.MaxBufferedPagesTotal = int(ai(1))
				limits = ai(0) > 0 || ai(1) > 0
			case "keep":
				w.script = nil
				for i := 0; i+1 < len(args); i += 2 {
					w.script = append(w.script, [2]int{int(ai(i)), int(ai(i + 1))})
				}
			case "seg":
				isSeg = true
				fl := ai(1)
				payload, _ := hex.DecodeString(args[3])
				t := &layers.TCP{SrcPort: 1, DstPort: 2, Seq: uint32(ai(0)), SYN: fl&1 != 0, FIN: fl&2 != 0, RST: fl&4 != 0,
					BaseLayer: layers.BaseLayer{Payload: payload}}
				w.force = fl&8 != 0
				segSyn = t.SYN
				segLen = len(payload)
				d := (ai(0) - isn - 1) & 0xFFFFFFFF
				if d >= 1<<31 {
					d -= 1 << 32
				}
				segOff = int(d)
				if t.SYN {
					segOff = 0
				}
				if (ai(0)+int64(segLen)) > 0xFFFFFFFF || ai(0) < 1<<16 {
					sawLow = true
				}
				if ai(0) > 0xFFFFFFFF-(1<<16) {
					sawHigh = true
				}
				if segLen > 1900 {
					tags["big-segment"] = true
				}
				// oracle bookkeeping before the call: what this stream has been given
				if cur != 0 {
					o := get(cur)
					c09recv(o, segOff, segLen, t.SYN, w.force)
				}
				asm.AssembleWithContext(c09netFlow, t, &c09ctx{gopacket.CaptureInfo{Timestamp: time.Unix(ai(2), 0)}})
			case "fwo":
				isFlush = true
				asm.FlushWithOptions(reassembly.FlushOptions{T: time.Unix(ai(0), 0), TC: time.Unix(ai(1), 0)})
			case "fco":
				isFlush = true
				asm.FlushCloseOlderThan(time.Unix(ai(0), 0))
			case "fall":
				isFlush = true
				asm.FlushAll()
			default:
				panic("harness: unknown op " + op)
			}
		}()
		if name == "s" || name == "isn" {
			res.Obs = append(res.Obs, "ev=-;used=-")
			continue
		}
		ev := strings.Join(w.events, "|")
		if panicked {
			if ev != "" {
				ev += "|"
			}
			ev += "panic"
			res.Obs = append(res.Obs, "ev="+ev+";used=-")
			fail("panic", fmt.Sprintf("step %d op %s", step, name))
			break
		}
		if ev == "" {
			ev = "-"
		}
		res.Obs = append(res.Obs, "ev="+ev+";used="+c09used(asm))

		// ---- oracle on the events of this op
		for _, sid := range w.news {
			cur = sid
			o := get(sid)
			if isSeg {
				c09recv(o, segOff, segLen, segSyn, w.force)
			}
		}
		for _, g := range w.sgs {
			o := get(g.sid)
			if o.done {
				fail("sg-after-complete", fmt.Sprintf("step %d stream %d", step, g.sid))
			}
			if o.ended {
				fail("sg-after-end", fmt.Sprintf("step %d stream %d", step, g.sid))
			}
			if g.fetchBad != "" {
				fail("fetch-prefix", fmt.Sprintf("step %d stream %d: %s", step, g.sid, g.fetchBad))
			}
			if g.saved < 0 || g.saved > g.avail || g.avail != len(g.bytes) {
				fail("lengths", fmt.Sprintf("step %d available=%d saved=%d fetched=%d", step, g.avail, g.saved, len(g.bytes)))
				continue
			}
			newb := g.bytes[g.saved:]
			switch {
			case g.skip == -1:
				if o.posKnown {
					fail("skip-unknown-after-start", fmt.Sprintf("step %d", step))
				} else {
					o.posKnown = true
					o.pos = o.minOff
					if !o.any {
						o.pos = 0
					}
					o.startPos = o.pos
				}
			case g.skip < 0:
				fail("negative-skip", fmt.Sprintf("step %d skip=%d", step, g.skip))
			default:
				if !o.posKnown {
					fail("skip-known-before-start", fmt.Sprintf("step %d skip=%d", step, g.skip))
					o.posKnown = true
				}
				if g.skip > 0 {
					if isSeg && !limits {
						fail("gap-released-without-flush", fmt.Sprintf("step %d skip=%d", step, g.skip))
					}
					for a := o.pos; a < o.pos+g.skip; a++ {
						if o.recv[a] {
							fail("skip-covers-received-byte", fmt.Sprintf("step %d offset %d skip=%d pos=%d", step, a, g.skip, o.pos))
							break
						}
					}
					o.pos += g.skip
				}
			}
			// kept bytes: presented again, unchanged, directly in front of the next new data
			if o.hasPrev {
				if g.skip == 0 {
					if g.saved != len(o.expKept) || !bytes.Equal(g.bytes[:g.saved], o.expKept) {
						fail("kept-bytes", fmt.Sprintf("step %d want %d kept bytes, saved=%d equal=%v", step, len(o.expKept), g.saved, g.saved == len(o.expKept)))
					}
				} else if g.saved != 0 && !bytes.Equal(g.bytes[:g.saved], o.expKept) {
					fail("kept-bytes", fmt.Sprintf("step %d after a gap saved=%d differ", step, g.saved))
				}
			} else if g.saved != 0 {
				fail("kept-bytes", fmt.Sprintf("step %d saved=%d but nothing was kept", step, g.saved))
			}
			// new data is S at the absolute offset
			if o.pos < 0 || o.pos+len(newb) > len(S) {
				fail("invented-bytes", fmt.Sprintf("step %d pos=%d len=%d |S|=%d", step, o.pos, len(newb), len(S)))
			} else if !bytes.Equal(newb, S[o.pos:o.pos+len(newb)]) {
				k := 0
				for k < len(newb) && newb[k] == S[o.pos+k] {
					k++
				}
				fail("stream-content", fmt.Sprintf("step %d delivered bytes differ from S at offset %d (pos=%d len=%d skip=%d)", step, o.pos+k, o.pos, len(newb), g.skip))
			}
			o.pos += len(newb)
			o.hasPrev = true
			o.expKept = nil
			if g.kept && g.keep >= 0 && g.keep < len(g.bytes) {
				o.expKept = append([]byte(nil), g.bytes[g.keep:]...)
			}
			if g.end {
				o.ended = true
			}
		}
		for _, sid := range w.dones {
			o := get(sid)
			if o.done {
				fail("complete-twice", fmt.Sprintf("step %d stream %d", step, sid))
			}
			o.done = true
			if sid == cur {
				cur = 0
			}
		}
		if name == "fall" {
			for sid, o := range ost {
				if o.posKnown && !o.ended && o.any && o.pos != c09max(o.maxEnd, o.startPos) {
					fail("not-all-delivered", fmt.Sprintf("step %d stream %d delivered up to %d, received up to %d", step, sid, o.pos, o.maxEnd))
				}
				if !o.done {
					fail("flushall-not-complete", fmt.Sprintf("step %d stream %d", step, sid))
				}
			}
			if u := c09used(asm); u != "0" {
				tags["pages-left-after-flushall"] = true
			}
		}
		_ = isFlush
	}
	// the model side evaluates the Coq statement (C09Spec.hist_okb) on the case and prints its verdict here
	res.Obs = append(res.Obs, "spec=ok")
	if sawLow && sawHigh {
		tags["wrap-crossed"] = true
	}
	for t := range tags {
		res.Tags = append(res.Tags, t)
	}
}

func c09max(a, b int) int {
	if a > b {
		return a
	}
	return b
}

// a segment handed to a stream whose half is still open
func c09recv(o *c09ost, off, n int, syn, force bool) {
	if o.ended {
		return
	}
	if !o.posKnown {
		if syn {
			o.posKnown, o.pos, o.startPos = true, 0, 0
		} else if force {
			o.posKnown, o.pos, o.startPos = true, off, off
		}
	}
	if n == 0 {
		return
	}
	if !o.any || off < o.minOff {
		o.minOff = off
	}
	if !o.any || off+n > o.maxEnd {
		o.maxEnd = off + n
	}
	o.any = true
	for a := off; a < off+n; a++ {
		if !o.posKnown || a >= o.pos {
			o.recv[a] = true
		}
	}
}

// ---------------------------------------------------------------- generation

type c09item struct {
	off, n int // data S[off:off+n]
	syn    bool
	fin    bool
	rst    bool
	flush  string // non-empty: a flush op template ("fco", "fwo", "fall")
	cfg    string
}

var c09bounds = []int64{0, 1 << 30, 1 << 31, 3 << 30, 1 << 32}

func c09segLen(rng *rand.Rand, big bool) int {
	if big && rng.Intn(3) == 0 {
		return 1200 + rng.Intn(3300)
	}
	switch r := rng.Intn(20); {
	case r < 6:
		return 1 + rng.Intn(8)
	case r < 12:
		return 1 + rng.Intn(60)
	case r < 17:
		return 1 + rng.Intn(400)
	case r < 19 || !big:
		return 400 + rng.Intn(1100)
	default:
		return 1500 + rng.Intn(3000)
	}
}

func c09case(rng *rand.Rand, big bool) Case {
	// sender stream
	var L int
	switch r := rng.Intn(20); {
	case r < 2:
		L = rng.Intn(4)
	case r < 12:
		L = 20 + rng.Intn(300)
	case r < 18 || !big:
		L = 300 + rng.Intn(1500)
	default:
		L = 2000 + rng.Intn(4001)
	}
	S := make([]byte, L)
	for i := range S {
		S[i] = byte(rng.Intn(256))
	}
	// ISN
	var isn int64
	if rng.Intn(3) == 0 {
		isn = rng.Int63n(1 << 32)
	} else {
		b := c09bounds[rng.Intn(len(c09bounds))]
		var k int64
		switch rng.Intn(3) {
		case 0:
			k = int64(rng.Intn(L + 3))
		case 1:
			k = int64(rng.Intn(4))
		default:
			k = int64(rng.Intn(L+3)) - 1
		}
		isn = ((b-1-k)%(1<<32) + (1 << 32)) % (1 << 32)
	}
	// segmentation
	var items []c09item
	for off := 0; off < L; {
		n := c09segLen(rng, big)
		if off+n > L {
			n = L - off
		}
		items = append(items, c09item{off: off, n: n})
		off += n
	}
	finMode := rng.Intn(10) // <6: FIN on segments ending at L; 6: bare FIN; 7: RST at the end; else none
	if finMode < 6 {
		for i := range items {
			if items[i].off+items[i].n == L {
				items[i].fin = true
			}
		}
		if L == 0 {
			items = append(items, c09item{off: 0, n: 0, fin: true})
		}
	} else if finMode == 6 {
		items = append(items, c09item{off: L, n: 0, fin: true})
	} else if finMode == 7 {
		items = append(items, c09item{off: L, n: 0, rst: true})
	}
	// arrival order: bounded displacement
	d := []int{0, 0, 1, 2, 5, 20}[rng.Intn(6)]
	keys := make([]int, len(items))
	for i := range keys {
		keys[i] = 2*i + 2*rng.Intn(d+1)
	}
	idx := make([]int, len(items))
	for i := range idx {
		idx[i] = i
	}
	sort.SliceStable(idx, func(a, b int) bool { return keys[idx[a]] < keys[idx[b]] })
	arr := make([]c09item, 0, len(items)+16)
	for _, i := range idx {
		arr = append(arr, items[i])
	}
	insert := func(pos int, it c09item) {
		if pos > len(arr) {
			pos = len(arr)
		}
		if pos < 0 {
			pos = 0
		}
		arr = append(arr, c09item{})
		copy(arr[pos+1:], arr[pos:])
		arr[pos] = it
	}
	// hold an early segment back so that what follows is queued
	if len(arr) > 2 && rng.Intn(5) < 3 {
		j := rng.Intn(c09min(3, len(arr)))
		it := arr[j]
		arr = append(arr[:j], arr[j+1:]...)
		insert(j+1+rng.Intn(len(arr)-j+1), it)
	}
	// duplicates
	if L > 0 {
		for r := rng.Intn(4); r > 0; r-- {
			j := rng.Intn(len(arr))
			if arr[j].flush != "" {
				continue
			}
			insert(j+rng.Intn(len(arr)-j+1), arr[j])
		}
		// overlapping retransmissions, consistent data: targeted at a segment X (superset, tail, head, inside) or free
		for r := rng.Intn(5); r > 0; r-- {
			j := rng.Intn(len(arr))
			x := arr[j]
			if x.n == 0 {
				continue
			}
			var a, b int
			switch rng.Intn(6) {
			case 0: // superset (case 3)
				a, b = x.off-rng.Intn(10), x.off+x.n+rng.Intn(10)
			case 1: // over the tail (case 2)
				a, b = x.off+rng.Intn(x.n), x.off+x.n+1+rng.Intn(20)
			case 2: // over the head (case 4)
				a, b = x.off-1-rng.Intn(20), x.off+1+rng.Intn(x.n)
			case 3: // inside (case 6)
				a = x.off + rng.Intn(x.n)
				b = a + 1 + rng.Intn(x.off+x.n-a)
			default:
				a = rng.Intn(L)
				b = a + 1 + rng.Intn(c09min(L-a, 1+rng.Intn(600)))
			}
			if a < 0 {
				a = 0
			}
			if b > L {
				b = L
			}
			if a >= b {
				continue
			}
			it := c09item{off: a, n: b - a, fin: finMode < 6 && b == L}
			if rng.Intn(3) == 0 {
				insert(rng.Intn(len(arr)+1), it)
			} else {
				insert(j+1+rng.Intn(3), it)
			}
		}
	}
	// SYN
	synMode := rng.Intn(20) // <13 first, <16 late, <18 absent, else forced start on the first packet
	synLen := 0
	if rng.Intn(6) == 0 && L > 0 {
		synLen = 1 + rng.Intn(c09min(L, 40))
	}
	syn := c09item{off: 0, n: synLen, syn: true}
	if L == 0 && finMode < 6 && rng.Intn(2) == 0 {
		syn.fin = false
	}
	switch {
	case synMode < 13:
		insert(0, syn)
	case synMode < 16:
		insert(1+rng.Intn(len(arr)+1), syn)
	}
	if synMode < 16 && rng.Intn(5) == 0 {
		dup := syn // retransmitted SYN, possibly with a different amount of data
		if rng.Intn(2) == 0 && L > 0 {
			dup.n = rng.Intn(c09min(L, 60) + 1)
		}
		insert(rng.Intn(len(arr)+1), dup)
	}
	force := synMode >= 18
	// flushes
	nf := []int{0, 0, 1, 1, 2, 4}[rng.Intn(6)]
	for ; nf > 0; nf-- {
		kinds := []string{"fco", "fco", "fwo", "fall"}
		insert(rng.Intn(len(arr)+1), c09item{flush: kinds[rng.Intn(len(kinds))]})
	}
	if rng.Intn(10) < 8 {
		arr = append(arr, c09item{flush: "fall"})
		if rng.Intn(6) == 0 && len(items) > 0 {
			arr = append(arr, items[rng.Intn(len(items))]) // stray retransmission: a new stream
			arr = append(arr, c09item{flush: "fall"})
		}
	}
	lim := []int{0, 1, 2, 5}
	mpc, mt := 0, 0
	if rng.Intn(2) == 0 {
		mpc, mt = lim[rng.Intn(4)], lim[rng.Intn(4)]
	}
	if rng.Intn(12) == 0 && len(arr) > 1 {
		insert(1+rng.Intn(len(arr)), c09item{cfg: fmt.Sprintf("cfg:%d,%d", lim[rng.Intn(4)], lim[rng.Intn(4)])})
	}
	ops := []string{"s:" + hex.EncodeToString(S), fmt.Sprintf("isn:%d", isn), fmt.Sprintf("cfg:%d,%d", mpc, mt)}
	// KeepFrom script
	if rng.Intn(2) == 0 {
		var ks []string
		for n := 1 + rng.Intn(4); n > 0; n-- {
			switch rng.Intn(8) {
			case 0:
				ks = append(ks, "0,0")
			case 1:
				ks = append(ks, "1,0") // keep all
			case 2:
				ks = append(ks, fmt.Sprintf("1,%d", rng.Intn(60)))
			case 3:
				ks = append(ks, fmt.Sprintf("2,%d", rng.Intn(30))) // from inside the new data
			case 4:
				ks = append(ks, fmt.Sprintf("3,%d", -rng.Intn(30))) // the last x bytes
			case 5:
				ks = append(ks, "3,0") // KeepFrom(available): keep nothing
			case 6:
				ks = append(ks, fmt.Sprintf("3,%d", -1-rng.Intn(3000)))
			default:
				ks = append(ks, fmt.Sprintf("1,%d", rng.Intn(2500)))
			}
		}
		ops = append(ops, "keep:"+strings.Join(ks, ","))
	}
	ts := int64(1000)
	first := true
	for _, it := range arr {
		ts += 1
		if rng.Intn(8) == 0 {
			ts += int64(rng.Intn(30))
		}
		switch {
		case it.cfg != "":
			ops = append(ops, it.cfg)
		case it.flush == "fall":
			ops = append(ops, "fall")
		case it.flush == "fco":
			ops = append(ops, fmt.Sprintf("fco:%d", ts-int64(rng.Intn(12))))
		case it.flush == "fwo":
			tc := int64(0)
			if rng.Intn(2) == 0 {
				tc = ts - int64(rng.Intn(12))
			}
			ops = append(ops, fmt.Sprintf("fwo:%d,%d", ts-int64(rng.Intn(12)), tc))
		default:
			fl := 0
			seq := (isn + 1 + int64(it.off)) % (1 << 32)
			if it.syn {
				fl |= 1
				seq = isn
			}
			if it.fin {
				fl |= 2
			}
			if it.rst {
				fl |= 4
			}
			if force && first {
				fl |= 8
			}
			first = false
			ops = append(ops, fmt.Sprintf("seg:%d,%d,%d,%s", seq, fl, ts, hex.EncodeToString(S[it.off:it.off+it.n])))
		}
	}
	return Case{Prop: "C09", Ops: ops}
}

func c09min(a, b int) int {
	if a < b {
		return a
	}
	return b
}

// all arrival orders of a SYN and four data segments (the last with FIN) of a 12-byte stream
func c09perms(isn int64, cuts []int, flush bool) []Case {
	S := []byte{0x10, 0x21, 0x32, 0x43, 0x54, 0x65, 0x76, 0x87, 0x98, 0xa9, 0xba, 0xcb}
	type sg struct {
		off, n int
		syn    bool
	}
	segs := []sg{{0, 0, true}}
	prev := 0
	for _, c := range append(cuts, len(S)) {
		segs = append(segs, sg{prev, c - prev, false})
		prev = c
	}
	var out []Case
	idx := make([]int, len(segs))
	var rec func(k int)
	used := make([]bool, len(segs))
	rec = func(k int) {
		if k == len(segs) {
			ops := []string{"s:" + hex.EncodeToString(S), fmt.Sprintf("isn:%d", isn), "cfg:0,0"}
			for t, j := range idx {
				g := segs[j]
				fl, seq := 0, (isn+1+int64(g.off))%(1<<32)
				if g.syn {
					fl, seq = 1, isn
				}
				if !g.syn && g.off+g.n == len(S) {
					fl |= 2
				}
				ops = append(ops, fmt.Sprintf("seg:%d,%d,%d,%s", seq, fl, 1001+t, hex.EncodeToString(S[g.off:g.off+g.n])))
				if flush && t == 2 {
					ops = append(ops, "fwo:1003,0")
				}
			}
			ops = append(ops, "fall")
			out = append(out, Case{Prop: "C09", Ops: ops})
			return
		}
		for j := range segs {
			if !used[j] {
				used[j] = true
				idx[k] = j
				rec(k + 1)
				used[j] = false
			}
		}
	}
	rec(0)
	return out
}

func (c09) Gen(rng *rand.Rand, tier string) []Case {
	n := 1500
	if tier == "thorough" {
		n = 20000
	}
	var out []Case
	// exhaustive small scope: every arrival order, at the wrap (quick) and at every quarter boundary (thorough)
	out = append(out, c09perms(4294967290, []int{3, 6, 9}, false)...)
	if tier == "thorough" {
		for _, isn := range []int64{0, 1<<30 - 5, 1<<31 - 5, 3<<30 - 5, 4294967290, 4294967295} {
			for _, cuts := range [][]int{{3, 6, 9}, {1, 2, 11}, {5, 6, 7}} {
				out = append(out, c09perms(isn, cuts, false)...)
				out = append(out, c09perms(isn, cuts, true)...)
			}
		}
	}
	for i := 0; i < n; i++ {
		out = append(out, c09case(rng, i%4 == 0))
	}
	return out
}
