package main

// Lctp: layers/ctp.go decoder-chain sub-check (C19, C01 for EthernetCTP / EthernetCTPForwardData / EthernetCTPReply).
// The layers have no DecodeFromBytes and no SerializeTo: only the op dec (lmisc_common.go).  The registered decoder is run on a
// recording PacketBuilder and the chain is continued as the eager packet does (packet.go NextDecoder: the next decoder runs on
// the payload of the last layer, nothing happens when it is empty); the layers added are observed as one list.

import (
	"fmt"
	"math/rand"
	"strings"

	"github.com/gopacket/gopacket"
	"github.com/gopacket/gopacket/layers"
)

type lctp struct{}

func init() { register("Lctp", lctp{}) }

// ctpChain wraps the layers added by the chain (exported field: the reflective renderers are run on it too).
type ctpChain struct{ Ls []gopacket.Layer }


func (c *ctpChain) LayerType() gopacket.LayerType { return gopacket.LayerTypePayload }
func (c *ctpChain) LayerContents() []byte         { return nil }
func (c *ctpChain) LayerPayload() []byte          { return nil }

func ctpRunChain(data []byte, b *lmBuilder) error {
	ib := &lmBuilder{}
	err := layers.LayerTypeEthernetCTP.Decode(data, ib)
	for steps := 0; err == nil && ib.nextSet; steps++ {
		if steps > 1<<20 {
			panic("Lctp: chain does not end")
		}
		next := ib.next
		ib.nextSet = false
		if len(ib.layers) == 0 {
			err = gopacket.ErrNoLayersAdded
			break
		}
		pl := ib.layers[len(ib.layers)-1].LayerPayload()
		if len(pl) == 0 {
			break
		}
		err = next.Decode(pl, ib)
	}
	if ib.tr {
		b.SetTruncated()
	}
	b.AddLayer(&ctpChain{Ls: ib.layers})
	return err
}

func ctpLayerStr(l gopacket.Layer) string {
	switch v := l.(type) {
	case *layers.EthernetCTP:
		return fmt.Sprintf("T(skip=%d,c=%s,p=%s)", v.SkipCount, lnHex(v.Contents), lnHex(v.BaseLayer.Payload))
	case *layers.EthernetCTPForwardData:
		return fmt.Sprintf("F(fn=%d,addr=%s,c=%s,p=%s)", uint16(v.Function), lnHex(v.ForwardAddress), lnHex(v.Contents), lnHex(v.BaseLayer.Payload))
	case *layers.EthernetCTPReply:
		return fmt.Sprintf("R(fn=%d,rn=%d,data=%s,c=%s,p=%s)", uint16(v.Function), v.ReceiptNumber, lnHex(v.Data), lnHex(v.Contents), lnHex(v.BaseLayer.Payload))
	}
	return fmt.Sprintf("?%T", l)
}

var lctpDesc = &lmDesc{
	id: "Lctp", name: "EthernetCTP",
	fresh:    func() gopacket.Layer { return &ctpChain{} },
	decodeFn: ctpRunChain,
	fields: func(l gopacket.Layer) string {
		c := l.(*ctpChain)
		s := make([]string, len(c.Ls))
		for i, x := range c.Ls {
			s[i] = ctpLayerStr(x)
		}
		return fmt.Sprintf("n=%d;ls=%s", len(c.Ls), strings.Join(s, "|"))
	},
	next: func(l gopacket.Layer, b *lmBuilder) string { return "none" },
	extra: func(l gopacket.Layer) []func() {
		var fs []func()
		for _, x := range l.(*ctpChain).Ls {
			x := x
			fs = append(fs, func() {
				_ = gopacket.LayerString(x)
				_ = gopacket.LayerDump(x)
				_ = gopacket.LayerGoString(x)
				_ = x.LayerType().String()
				switch v := x.(type) {
				case *layers.EthernetCTPForwardData:
					e := v.ForwardEndpoint()
					_ = e.String()
					_ = e.Raw()
				case *layers.EthernetCTPReply:
					_ = v.Payload()
				}
			})
		}
		return fs
	},
	tags: func(l gopacket.Layer, cls string, data []byte) []string {
		c := l.(*ctpChain)
		var t []string
		nf := 0
		for _, x := range c.Ls {
			switch x.(type) {
			case *layers.EthernetCTPForwardData:
				nf++
			case *layers.EthernetCTPReply:
				if cls == "ok" {
					t = append(t, "reply-layer")
				}
			}
		}
		if nf > 0 {
			t = append(t, "forward-data-layers")
		}
		if nf > 2 {
			t = append(t, "long-chain")
		}
		if cls == "ok" && len(c.Ls) > 0 {
			if _, isReply := c.Ls[len(c.Ls)-1].(*layers.EthernetCTPReply); !isReply {
				t = append(t, "chain-ends-on-empty-payload")
			}
		}
		if cls == "err" && len(c.Ls) > 0 {
			t = append(t, "error-after-add")
		}
		return t
	},
}

func (lctp) Run(c Case) Result { return lmRun(lctpDesc, c) }

// ctpBuild: skip count, nf forward-data layers, then a tail: 0 = reply with data, 1 = nothing, 2 = unknown function, 3 = reply header only
func ctpBuild(rng *rand.Rand, skip int, nf int, tail int) []byte {
	p := []byte{byte(skip), byte(skip >> 8)}
	for i := 0; i < nf; i++ {
		p = append(p, 2, 0)
		p = append(p, lnRandBytes(rng, 6)...)
	}
	switch tail {
	case 0:
		p = append(p, 1, 0, byte(rng.Intn(256)), byte(rng.Intn(256)))
		p = append(p, lnRandBytes(rng, lnPick(rng, 0, 1, 8, 40))...)
	case 2:
		p = append(p, byte(lnPick(rng, 0, 3, 255, 1, 2)), byte(lnPick(rng, 1, 255, 1, 2)))
		p = append(p, lnRandBytes(rng, lnPick(rng, 0, 2, 9))...)
	case 3:
		p = append(p, 1, 0, byte(rng.Intn(256)), byte(rng.Intn(256)))
	}
	return p
}

func (lctp) Gen(rng *rand.Rand, tier string) []Case {
	g := lmGenCfg{
		valid: func(rng *rand.Rand) []byte {
			return ctpBuild(rng, lnPick(rng, 0, 0, 8, 16, 2, 65534, 1, 7), lnPick(rng, 0, 1, 1, 2, 3, 6), lnPick(rng, 0, 0, 0, 1, 2, 3))
		},
		hdrLen: func(p []byte) int { return len(p) },
		seeds:  lnEthSeeds(0x9000),
		noDec2: true,
		extra: func(rng *rand.Rand, add func(ops ...string)) {
			// every truncation of chains with 0..4 forward-data layers and a reply
			for nf := 0; nf <= 4; nf++ {
				p := ctpBuild(rng, 2*nf*4, nf, 0)
				for k := 0; k <= len(p); k++ {
					add("tag:truncated-prefix-of-valid", "dec:"+lnHex(p[:k]))
				}
			}
			// skip count 0, 1, max, odd/even neighbours
			for _, sk := range []int{0, 1, 2, 3, 255, 256, 257, 65534, 65535} {
				add("tag:skip-extreme", "dec:"+lnHex(ctpBuild(rng, sk, 1, 0)))
				add("tag:skip-extreme", "dec:"+lnHex(ctpBuild(rng, sk, 0, 1)))
			}
			// function code: every low octet with high octet 0 and 1, after 0 and 1 forward-data layers
			for f := 0; f < 256; f++ {
				for _, hi := range []byte{0, 1} {
					p := append(ctpBuild(rng, 0, f%2, 1), byte(f), hi)
					p = append(p, lnRandBytes(rng, lnPick(rng, 0, 1, 2, 5, 6, 7, 12))...)
					add("tag:function-every-value", "dec:"+lnHex(p))
				}
			}
			// long chains
			for _, nf := range []int{10, 50, 180} {
				add("tag:long-chain", "dec:"+lnHex(ctpBuild(rng, 0, nf, 0)))
				add("tag:long-chain", "dec:"+lnHex(ctpBuild(rng, 0, nf, 1)))
				add("tag:long-chain", "dec:"+lnHex(append(ctpBuild(rng, 0, nf, 1), 2, 0, 1, 2, 3)))
			}
		},
	}
	return lmGen(lctpDesc, g, rng, tier)
}
