// Sweep: implementation-side sweep for C01 / C19 / C06 / C07 over EVERY registered layer type,
// every exported type implementing gopacket.DecodingLayer and every gopacket.SerializableLayer.
// This is testing (exploration support), not proof: there is no Coq model and no runner for it.
//
// One case = one input for one registered layer type:   in:<layer type id>,<name>,<16-bit option mask hex>,<input hex>
// (the name is informational).  Run executes, under recover and a time limit,
//
//	C19  DecodeFromBytes on a fresh object of every DecodingLayer type whose CanDecode contains the
//	     layer type; NewPacket with SkipDecodeRecovery (eager and lazy, DecodeStreamsAsDatagrams on/off);
//	     DecodingLayerParser{IgnorePanic:true} holding a fresh object of every DecodingLayer type;
//	C01  NewPacket for every option set in the mask (bit i = Lazy<<0|NoCopy<<1|Pool<<2|Datagrams<<3), then every
//	     read-only call; the error-layer discipline;
//	C07  SerializeTo of every layer so produced: 4 option sets x {fresh, dirty, pre-sized, again};
//	C06  for every layer whose Go type is both decodable and serializable, the round trip (see sweepRoundTrip).
//
// Failures are identified by clause + site (top gopacket frame of the panic stack, or the Go type).
package main

import (
	"encoding/hex"
	"fmt"
	"os"
	"reflect"
	"runtime"
	"runtime/debug"
	"sort"
	"strconv"
	"strings"
	"sync"
	"sync/atomic"

	"github.com/gopacket/gopacket"

	"gpverif/sweepast"
)

type sweep struct{}

func init() { register("Sweep", sweep{}) }

// ---------------------------------------------------------------- domain (derived at run time)

// sweepBytesDecoder is the in-place decode method alone (EAPOLKey has it without being a DecodingLayer).
type sweepBytesDecoder interface {
	DecodeFromBytes([]byte, gopacket.DecodeFeedback) error
}

type sweepPayloader interface{ LayerPayload() []byte }

type sweepType struct {
	key  string
	ctor func() interface{}
	dec  bool // has DecodeFromBytes
	dl   bool // full gopacket.DecodingLayer
	ser  bool
	own  gopacket.LayerType // LayerType() of the zero value when it is a Layer, else -1
	rt   reflect.Type // pointer type
	can  gopacket.LayerClass
}

type sweepDom struct {
	repo       string
	registered []gopacket.LayerType
	types      []*sweepType
	byRT       map[reflect.Type]*sweepType
	decFor     map[gopacket.LayerType][]*sweepType
	pseudo     []gopacket.LayerType
	pseudoName map[gopacket.LayerType]string
	tie        []string // broken-tie oracle lines
}

var (
	sweepDomOnce sync.Once
	sweepDomVal  *sweepDom
)

func sweepRepo() string {
	if bi, ok := debug.ReadBuildInfo(); ok {
		for _, d := range bi.Deps {
			if d.Path == "github.com/gopacket/gopacket" && d.Replace != nil && strings.HasPrefix(d.Replace.Path, "/") {
				return d.Replace.Path
			}
		}
	}
	if r := os.Getenv("VERIF_REPO"); r != "" {
		return r
	}
	return "/repo"
}

func sweepDomain() *sweepDom {
	sweepDomOnce.Do(func() {
		d := &sweepDom{repo: sweepRepo(), pseudoName: map[gopacket.LayerType]string{}, byRT: map[reflect.Type]*sweepType{}, decFor: map[gopacket.LayerType][]*sweepType{}}
		// registered layer types: ids 0..maxLayerType-1 live in an array reachable through LayerType.String;
		// anything else is cross-checked through the public DecodersByLayerName map.
		names := map[string]bool{}
		for i := 0; i < 4096; i++ {
			lt := gopacket.LayerType(i)
			if s := lt.String(); s != strconv.Itoa(i) {
				if strings.HasPrefix(s, "Syn") { // synthetic layer types other harnesses of this binary register
					names[s] = true
					continue
				}
				d.registered = append(d.registered, lt)
				names[s] = true
			}
		}
		var unreach []string
		for n := range gopacket.DecodersByLayerName {
			if !names[n] && !strings.HasPrefix(n, "Syn") {
				unreach = append(unreach, n)
			}
		}
		sort.Strings(unreach)
		for _, n := range unreach {
			d.tie = append(d.tie, "tie:registry\tlayer type named "+strconv.Quote(n)+" is registered outside ids 0..4095; not swept")
		}
		// types: constructor table vs go/ast enumeration of the tree the harness was built from
		ast, err := sweepast.Enumerate(d.repo)
		if err != nil {
			d.tie = append(d.tie, "tie:enumeration\t"+sweepClean(err.Error()))
		}
		inAST := map[string]sweepast.TypeInfo{}
		for _, t := range ast {
			inAST[t.Key()] = t
			if _, ok := sweepCtors[t.Key()]; !ok {
				d.tie = append(d.tie, fmt.Sprintf("tie:missing-type\t%s (decoding=%v serializable=%v) is in the tree but not in sweep_table.go; regenerate with cmd/sweepgen", t.Key(), t.Decoding, t.Serializable))
			}
		}
		keys := make([]string, 0, len(sweepCtors))
		for k := range sweepCtors {
			keys = append(keys, k)
		}
		sort.Strings(keys)
		for _, k := range keys {
			v := sweepCtors[k]()
			st := &sweepType{key: k, ctor: sweepCtors[k], rt: reflect.TypeOf(v)}
			st.own = -1
			if _, ok := v.(sweepBytesDecoder); ok {
				st.dec = true
			}
			if ly, ok := v.(gopacket.Layer); ok {
				func() {
					defer func() { recover() }()
					st.own = ly.LayerType()
				}()
			}
			if dl, ok := v.(gopacket.DecodingLayer); ok {
				st.dl = true
				func() {
					defer func() {
						if r := recover(); r != nil {
							d.tie = append(d.tie, "tie:candecode-panics\t"+k)
							st.dl = false
						}
					}()
					st.can = dl.CanDecode()
				}()
			}
			if _, ok := v.(gopacket.SerializableLayer); ok {
				st.ser = true
			}
			if a, ok := inAST[k]; ok && err == nil && (a.Decoding != st.dec || a.DecodingLayer != st.dl || a.Serializable != st.ser) {
				d.tie = append(d.tie, fmt.Sprintf("tie:interface-mismatch\t%s ast(decode=%v,decodinglayer=%v,serializable=%v) reflect(decode=%v,decodinglayer=%v,serializable=%v)", k, a.Decoding, a.DecodingLayer, a.Serializable, st.dec, st.dl, st.ser))
			}
			d.types = append(d.types, st)
			d.byRT[st.rt] = st
		}
		for _, lt := range d.registered {
			for _, st := range d.types {
				if st.dl && st.can != nil && st.can.Contains(lt) || st.dec && !st.dl && st.own == lt {
					d.decFor[lt] = append(d.decFor[lt], st)
				}
			}
		}
		// in-place decoders that no registered layer type leads to get a pseudo layer type id (<= -1000):
		// only the direct DecodeFromBytes / C07 / C06 parts run for them
		routed := map[*sweepType]bool{}
		for _, sts := range d.decFor {
			for _, st := range sts {
				routed[st] = true
			}
		}
		for i, st := range d.types {
			if st.dec && !routed[st] {
				pid := gopacket.LayerType(-1000 - i)
				d.pseudo = append(d.pseudo, pid)
				d.pseudoName[pid] = st.key
				d.decFor[pid] = []*sweepType{st}
			}
		}
		sweepDomVal = d
	})
	return sweepDomVal
}

func sweepExact(b []byte) []byte {
	out := make([]byte, len(b))
	copy(out, b)
	return out[:len(b):len(b)]
}

// ---------------------------------------------------------------- panic capture

type sweepPanic struct {
	site, kind, msg string
}

func sweepClean(s string) string {
	s = strings.Map(func(r rune) rune {
		if r == '\t' || r == '\n' || r == '\r' || r == ';' {
			return ' '
		}
		if r < 32 || r > 126 {
			return '?'
		}
		return r
	}, s)
	if len(s) > 100 {
		s = s[:100]
	}
	return s
}

func sweepKind(msg string) string {
	switch {
	case strings.Contains(msg, "index out of range"):
		return "index"
	case strings.Contains(msg, "slice bounds out of range"):
		return "slice"
	case strings.Contains(msg, "nil pointer dereference"), strings.Contains(msg, "nil map"):
		return "nil"
	case strings.Contains(msg, "makeslice"), strings.Contains(msg, "out of memory"):
		return "makeslice"
	case strings.Contains(msg, "divide by zero"):
		return "div"
	case strings.Contains(msg, "interface conversion"):
		return "conv"
	}
	return "other"
}

const sweepMod = "github.com/gopacket/gopacket"

func sweepFuncName(line string) string {
	if i := strings.LastIndex(line, "("); i > 0 {
		line = line[:i]
	}
	line = strings.TrimSpace(line)
	if strings.HasPrefix(line, sweepMod+"/") {
		return line[len(sweepMod)+1:]
	}
	if strings.HasPrefix(line, sweepMod+".") {
		return "gopacket" + line[len(sweepMod):]
	}
	return line
}

// sweepSite: the first frame below the panic that belongs to the gopacket module.
func sweepSite(stack string, needPanicFrame bool) string {
	lines := strings.Split(stack, "\n")
	seen := !needPanicFrame
	first := ""
	for _, ln := range lines {
		if ln == "" || ln[0] == '\t' || strings.HasPrefix(ln, "goroutine ") {
			continue
		}
		if strings.HasPrefix(ln, "panic(") || strings.HasPrefix(ln, "runtime.sigpanic") || strings.HasPrefix(ln, "runtime.gopanic") {
			seen = true
			continue
		}
		if !seen || strings.HasPrefix(ln, "runtime.") || strings.HasPrefix(ln, "runtime/") {
			continue
		}
		if strings.HasPrefix(ln, sweepMod) {
			return sweepFuncName(ln)
		}
		if first == "" && !strings.HasPrefix(ln, "main.") && !strings.HasPrefix(ln, "created by") {
			first = sweepFuncName(ln)
		}
		if strings.HasPrefix(ln, "main.") {
			break
		}
	}
	if first != "" {
		return "outside:" + first
	}
	return "harness"
}

func sweepCatch(f func()) (p *sweepPanic) {
	defer func() {
		if r := recover(); r != nil {
			msg := fmt.Sprint(r)
			p = &sweepPanic{site: sweepSite(string(debug.Stack()), true), kind: sweepKind(msg), msg: sweepClean(msg)}
		}
	}()
	f()
	return nil
}

// ---------------------------------------------------------------- one case

type sweepRun struct {
	dom     *sweepDom
	phase   *atomic.Value
	oracle  []string
	seen    map[string]bool
	tags    map[string]bool
	nontriv bool
	dirty   gopacket.SerializeBuffer
}

func (r *sweepRun) fail(clause, site, kind, rest string) {
	k := clause + "|" + site + "|" + kind
	if strings.HasPrefix(rest, "src=") {
		k += "|" + strings.SplitN(rest, ";", 2)[0]
	}
	if r.seen[k] {
		return
	}
	r.seen[k] = true
	r.oracle = append(r.oracle, fmt.Sprintf("%s\tsite=%s;kind=%s;%s", clause, site, kind, rest))
}

func (r *sweepRun) setPhase(s string) {
	if r.phase != nil {
		r.phase.Store(s)
	}
}

type sweepFB struct{ trunc bool }

func (f *sweepFB) SetTruncated() { f.trunc = true }

var sweepShortRe = []string{"too short", "too small", "short", "not enough", "truncat", "less than", "invalid length", "insufficient", "too few", "at least", "minimum", "underflow", "bytes left", "need ", "incomplete", "eof"}

func sweepErrIsShort(err error) bool {
	s := strings.ToLower(err.Error())
	for _, w := range sweepShortRe {
		if strings.Contains(s, w) {
			return true
		}
	}
	return false
}

func sweepOpts(i int) gopacket.DecodeOptions {
	return gopacket.DecodeOptions{Lazy: i&1 != 0, NoCopy: i&2 != 0, Pool: i&4 != 0, DecodeStreamsAsDatagrams: i&8 != 0}
}

func sweepGoType(v interface{}) string {
	if v == nil {
		return "nil"
	}
	t := reflect.TypeOf(v)
	for t.Kind() == reflect.Ptr {
		t = t.Elem()
	}
	p := t.PkgPath()
	if i := strings.LastIndex(p, "/"); i >= 0 {
		p = p[i+1:]
	}
	return p + "." + t.Name()
}

type netSetter interface {
	SetNetworkLayerForChecksum(gopacket.NetworkLayer) error
}

func (sweep) Run(c Case) Result {
	if r, ok := sweepCacheGet(c); ok {
		return r
	}
	// uncached (corpus / replay / shrinking): run with a deadline in a goroutine of its own
	return sweep{}.runGuarded(c)
}


func sweepGoid() int64 {
	var b [64]byte
	n := runtime.Stack(b[:], false)
	f := strings.Fields(string(b[:n]))
	if len(f) >= 2 {
		v, _ := strconv.ParseInt(f[1], 10, 64)
		return v
	}
	return -1
}

func sweepHangResult(c Case, phase string, goid int64) Result {
	buf := make([]byte, 1<<22)
	n := runtime.Stack(buf, true)
	site := "unknown"
	for _, blk := range strings.Split(string(buf[:n]), "\n\n") {
		if strings.HasPrefix(blk, fmt.Sprintf("goroutine %d [", goid)) {
			site = sweepSite(blk, false)
		}
	}
	clause := "C01:hang"
	if strings.HasPrefix(phase, "C19") {
		clause = "C19:hang"
	}
	return Result{Obs: []string{"hang=1"}, Oracle: []string{fmt.Sprintf("%s\tsite=%s;kind=hang;phase=%s", clause, site, phase)}}
}

func sweepParse(c Case) (lt gopacket.LayerType, mask int, data []byte, ok bool) {
	if len(c.Ops) != 1 || !strings.HasPrefix(c.Ops[0], "in:") {
		return
	}
	f := strings.Split(c.Ops[0][3:], ",")
	if len(f) != 4 {
		return
	}
	id, err := strconv.Atoi(f[0])
	if err != nil {
		return
	}
	if id <= -1000 {
		// pseudo layer types are resolved by the Go type name, not by the number
		nm := f[1]
		if i := strings.LastIndex(nm, "/"); i >= 0 {
			nm = nm[:i]
		}
		id = 0
		for pid, pn := range sweepDomain().pseudoName {
			if pn == nm {
				id = int(pid)
			}
		}
		if id == 0 {
			return
		}
	}
	m, err := strconv.ParseUint(f[2], 16, 32)
	if err != nil {
		return
	}
	b, err := hex.DecodeString(f[3])
	if err != nil {
		return
	}
	return gopacket.LayerType(id), int(m), b, true
}

func sweepRunCase(c Case, phase *atomic.Value) Result {
	dom := sweepDomain()
	if len(c.Ops) == 1 && c.Ops[0] == "tie:" {
		return Result{Obs: []string{fmt.Sprintf("registered=%d;types=%d", len(dom.registered), len(dom.types))}, Oracle: append([]string(nil), dom.tie...)}
	}
	lt, mask, data, ok := sweepParse(c)
	if !ok {
		return Result{Obs: []string{"bad-case"}, Oracle: []string{"harness-bad-case\t" + sweepClean(strings.Join(c.Ops, " "))}}
	}
	r := &sweepRun{dom: dom, phase: phase, seen: map[string]bool{}, tags: map[string]bool{}}
	obs := r.run(lt, mask, data)
	kind := ""
	if f := strings.Split(c.Ops[0], ","); len(f) > 1 {
		if i := strings.LastIndex(f[1], "/"); i >= 0 {
			kind = f[1][i+1:]
		}
	}
	switch kind {
	case "trunc":
		if r.nontriv {
			r.tags["truncated-prefix-of-valid"] = true
		} else {
			r.tags["trunc-trivial"] = true
		}
	case "len", "force":
		if r.nontriv {
			r.tags["option-length-extreme"] = true
		}
	case "clcut":
		r.tags["consistent-length-cut"] = true
	}
	var tags []string
	for t := range r.tags {
		tags = append(tags, t)
	}
	sort.Strings(tags)
	return Result{Obs: []string{obs}, Tags: tags, Oracle: r.oracle}
}

func (r *sweepRun) run(lt gopacket.LayerType, mask int, data []byte) string {
	dom := r.dom
	ltName := sweepClean(lt.String())
	pseudo := lt <= -1000
	if pseudo {
		ltName = dom.pseudoName[lt]
	}
	// every call gets its own copy with capacity == length: a slice expression is checked against the
	// capacity, so spare capacity would turn a missing length check into a silent over-read
	cp := func() []byte { return sweepExact(data) }

	// ---- C19 (a): direct DecodeFromBytes on fresh objects
	var directs []sweepDirect
	dclass := "none"
	for _, st := range dom.decFor[lt] {
		r.setPhase("C19:direct:" + st.key)
		l := st.ctor().(sweepBytesDecoder)
		var err error
		fb := &sweepFB{}
		d := cp()
		p := sweepCatch(func() { err = l.DecodeFromBytes(d, fb) })
		if p != nil {
			r.fail("C19:panic", p.site, p.kind, fmt.Sprintf("mode=direct;type=%s;lt=%s;msg=%s", st.key, ltName, p.msg))
			dclass = "panic"
			directs = append(directs, sweepDirect{st, l, nil, true})
			continue
		}
		directs = append(directs, sweepDirect{st, l, err, false})
		if err == nil {
			r.nontriv = true
			if dclass == "none" {
				dclass = "ok"
			}
			sweepCatch(func() {
				if dl, ok := l.(gopacket.DecodingLayer); ok {
					_ = dl.NextLayerType()
					_ = dl.LayerPayload()
				}
			})
		} else {
			if !sweepErrIsShort(err) {
				r.nontriv = true
				r.tags["err-not-short"] = true
			}
			if dclass == "none" {
				dclass = "err"
			}
		}
	}

	// ---- C19 (b): NewPacket with SkipDecodeRecovery
	var skipPanic [4]bool // by Lazy | DecodeStreamsAsDatagrams<<1
	sclass := "ok"
	for i := 0; i < 4 && !pseudo; i++ {
		opts := gopacket.DecodeOptions{SkipDecodeRecovery: true, Lazy: i&1 != 0, DecodeStreamsAsDatagrams: i&2 != 0}
		r.setPhase(fmt.Sprintf("C19:skiprecovery:%d", i))
		d := cp()
		p := sweepCatch(func() {
			pk := gopacket.NewPacket(d, lt, opts)
			_ = pk.Layers()
		})
		if p != nil {
			skipPanic[i] = true
			sclass = "panic"
			r.fail("C19:panic", p.site, p.kind, fmt.Sprintf("mode=skiprecovery;lt=%s;lazy=%v;dgram=%v;msg=%s", ltName, opts.Lazy, opts.DecodeStreamsAsDatagrams, p.msg))
		}
	}

	// ---- C19 (c): DecodingLayerParser with IgnorePanic
	r.setPhase("C19:dlp")
	if !pseudo {
		var dls []gopacket.DecodingLayer
		for _, st := range dom.types {
			if st.dl {
				dls = append(dls, st.ctor().(gopacket.DecodingLayer))
			}
		}
		d := cp()
		p := sweepCatch(func() {
			dlp := gopacket.NewDecodingLayerParser(lt, dls...)
			dlp.IgnorePanic = true
			dlp.IgnoreUnsupported = true
			var decoded []gopacket.LayerType
			_ = dlp.DecodeLayers(d, &decoded)
		})
		if p != nil {
			r.fail("C19:panic", p.site, p.kind, fmt.Sprintf("mode=dlp;lt=%s;msg=%s", ltName, p.msg))
		}
	}

	// ---- C01: recovery on, every option set of the mask, every read-only call
	nLayers, hasErr := 0, 0
	firstCombo := true
	for combo := 0; combo < 16; combo++ {
		if mask&(1<<uint(combo)) == 0 || pseudo {
			continue
		}
		opts := sweepOpts(combo)
		r.setPhase(fmt.Sprintf("C01:newpacket:%d", combo))
		var pk gopacket.Packet
		d := cp()
		if p := sweepCatch(func() { pk = gopacket.NewPacket(d, lt, opts) }); p != nil {
			r.fail("C01:panic", p.site, p.kind, fmt.Sprintf("call=NewPacket;lt=%s;opts=%d;msg=%s", ltName, combo, p.msg))
			continue
		}
		ls := r.readOnly(pk, lt, ltName, combo, opts.Lazy)
		r.discipline(pk, ls, lt, ltName, combo, directs, skipPanic[combo&1|combo>>3&1<<1])
		if firstCombo {
			firstCombo = false
			nLayers = len(ls)
			if pk.ErrorLayer() != nil {
				hasErr = 1
			}
			r.packetTags(pk, ls, skipPanic[combo&1|combo>>3&1<<1])
			// ---- C07 / C06 on every layer of this packet
			var nl gopacket.NetworkLayer
			sweepCatch(func() { nl = pk.NetworkLayer() })
			for i, l := range ls {
				if i >= 12 {
					break
				}
				sl, ok := l.(gopacket.SerializableLayer)
				if !ok {
					continue
				}
				if ns, ok := l.(netSetter); ok && nl != nil {
					sweepCatch(func() { ns.SetNetworkLayerForChecksum(nl) })
				}
				r.serialize(sl, l.LayerPayload(), "packet")
				r.roundTrip(l, nl)
			}
		}
		if pp, ok := pk.(gopacket.PooledPacket); ok {
			sweepCatch(func() { pp.Dispose() })
		}
	}
	// ---- C07 on directly decoded objects (including the residue after an error)
	for _, dd := range directs {
		if dd.pan || !dd.st.ser {
			continue
		}
		src := "direct"
		if dd.err != nil {
			src = "residue"
		}
		var pl []byte
		sweepCatch(func() {
			if x, ok := dd.l.(sweepPayloader); ok {
				pl = x.LayerPayload()
			}
		})
		r.serialize(dd.l.(gopacket.SerializableLayer), pl, src)
	}
	if dclass == "ok" {
		r.tags["past-header"] = true
	}
	return fmt.Sprintf("direct=%s;skip=%s;layers=%d;err=%d", dclass, sclass, nLayers, hasErr)
}

type sweepDirect struct {
	st  *sweepType
	l   sweepBytesDecoder
	err error
	pan bool
}
