package main

// Ldot11data and Ldot11ctrl: the 802.11 data and control sub-layers of layers/dot11.go (none decodes a field: they
// store the bytes as Contents or Payload) and the chain of layers the packet decoder builds from a whole frame.
// First op L:<kind>; then dec / dec2 (lmisc_common.go), or  chain:<hex>  = the frame decoded as a packet from
// LayerTypeDot11; obs: the layers in order as <LayerType>:<len Contents>:<len Payload> as long as they are Dot11, data,
// control or WEP layers, and whether anything follows them (LLC, a management body, a decode failure).

import (
	"fmt"
	"math/rand"
	"strings"

	"github.com/gopacket/gopacket"
	"github.com/gopacket/gopacket/layers"
)

type sbKind struct {
	name  string
	ty    int // Dot11Type value, -1 for none
	fresh func() gopacket.Layer
}

var sbCtrlKinds = []sbKind{
	{"ctrl", 1, func() gopacket.Layer { return &layers.Dot11Ctrl{} }},
	{"cts", 49, func() gopacket.Layer { return &layers.Dot11CtrlCTS{} }},
	{"rts", 45, func() gopacket.Layer { return &layers.Dot11CtrlRTS{} }},
	{"blockackreq", 33, func() gopacket.Layer { return &layers.Dot11CtrlBlockAckReq{} }},
	{"blockack", 37, func() gopacket.Layer { return &layers.Dot11CtrlBlockAck{} }},
	{"pspoll", 41, func() gopacket.Layer { return &layers.Dot11CtrlPowersavePoll{} }},
	{"ack", 53, func() gopacket.Layer { return &layers.Dot11CtrlAck{} }},
	{"cfend", 57, func() gopacket.Layer { return &layers.Dot11CtrlCFEnd{} }},
	{"cfendack", 61, func() gopacket.Layer { return &layers.Dot11CtrlCFEndAck{} }},
	{"wep", -1, func() gopacket.Layer { return &layers.Dot11WEP{} }},
}

var sbDataKinds = []sbKind{
	{"data", 2, func() gopacket.Layer { return &layers.Dot11Data{} }},
	{"cfack", 6, func() gopacket.Layer { return &layers.Dot11DataCFAck{} }},
	{"cfpoll", 10, func() gopacket.Layer { return &layers.Dot11DataCFPoll{} }},
	{"cfackpoll", 14, func() gopacket.Layer { return &layers.Dot11DataCFAckPoll{} }},
	{"null", 18, func() gopacket.Layer { return &layers.Dot11DataNull{} }},
	{"cfacknodata", 22, func() gopacket.Layer { return &layers.Dot11DataCFAckNoData{} }},
	{"cfpollnodata", 26, func() gopacket.Layer { return &layers.Dot11DataCFPollNoData{} }},
	{"cfackpollnodata", 30, func() gopacket.Layer { return &layers.Dot11DataCFAckPollNoData{} }},
	{"qosdata", 34, func() gopacket.Layer { return &layers.Dot11DataQOSData{} }},
	{"qosdatacfack", 38, func() gopacket.Layer { return &layers.Dot11DataQOSDataCFAck{} }},
	{"qosdatacfpoll", 42, func() gopacket.Layer { return &layers.Dot11DataQOSDataCFPoll{} }},
	{"qosdatacfackpoll", 46, func() gopacket.Layer { return &layers.Dot11DataQOSDataCFAckPoll{} }},
	{"qosnull", 50, func() gopacket.Layer { return &layers.Dot11DataQOSNull{} }},
	{"qoscfpollnodata", 58, func() gopacket.Layer { return &layers.Dot11DataQOSCFPollNoData{} }},
	{"qoscfackpollnodata", 62, func() gopacket.Layer { return &layers.Dot11DataQOSCFAckPollNoData{} }},
}

var sbDescs = map[string]*lmDesc{}

func sbDesc(id string, k sbKind) *lmDesc {
	key := id + k.name
	if d, ok := sbDescs[key]; ok {
		return d
	}
	d := &lmDesc{
		id: id, name: "Dot11-" + k.name,
		fresh: k.fresh,
		decode: func(l gopacket.Layer, data []byte, fb gopacket.DecodeFeedback) error {
			return l.(gopacket.DecodingLayer).DecodeFromBytes(data, fb)
		},
		fields: func(gopacket.Layer) string { return "f=" },
		next:   func(l gopacket.Layer, _ *lmBuilder) string { return fmt.Sprint(l.(gopacket.DecodingLayer).NextLayerType()) },
		extra: func(l gopacket.Layer) []func() {
			return []func(){func() { _ = l.LayerType(); _ = l.(gopacket.DecodingLayer).CanDecode() }}
		},
	}
	sbDescs[key] = d
	return d
}

func sbFamily(name string) bool {
	return name == "Dot11" || name == "Dot11WEP" || strings.HasPrefix(name, "Dot11Data") || strings.HasPrefix(name, "Dot11Ctrl")
}

func sbChain(data []byte) (obs string, oracle []string) {
	var pkt gopacket.Packet
	cls := "ok"
	func() {
		defer func() {
			if recover() != nil {
				cls = "panic"
			}
		}()
		pkt = gopacket.NewPacket(lnCopy(data), layers.LayerTypeDot11, gopacket.DecodeOptions{SkipDecodeRecovery: true})
	}()
	if cls == "panic" {
		return "cls=panic", []string{"C19:panic\tdecoding an 802.11 frame as a packet panicked"}
	}
	var ls []string
	more := false
	for _, l := range pkt.Layers() {
		name := fmt.Sprint(l.LayerType())
		if !sbFamily(name) {
			more = true
			break
		}
		ls = append(ls, fmt.Sprintf("%s:%d:%d", name, len(l.LayerContents()), len(l.LayerPayload())))
	}
	if lnClassStr(func() string { return pkt.String() + pkt.Dump() }) == "panic" {
		oracle = append(oracle, "C01:render-panic\tpacket String/Dump panicked")
	}
	return fmt.Sprintf("layers=%s;more=%s", strings.Join(ls, ","), lnB(more)), oracle
}

func sbRun(id string, kinds []sbKind, c Case) (res Result) {
	if len(c.Ops) == 0 || !strings.HasPrefix(c.Ops[0], "L:") {
		panic(id + ": first op must be L:<kind>")
	}
	kind := c.Ops[0][2:]
	rest := Case{Prop: c.Prop, Ops: c.Ops[1:]}
	for _, op := range rest.Ops {
		if strings.HasPrefix(op, "chain:") {
			o, orc := sbChain(lnUnhex(op[6:]))
			res.Obs = append(res.Obs, o)
			res.Oracle = append(res.Oracle, orc...)
			res.Tags = append(res.Tags, "layer-chain")
			if strings.Contains(o, "Dot11WEP") {
				res.Tags = append(res.Tags, "wep")
			}
		} else if strings.HasPrefix(op, "tag:") && len(res.Obs) > 0 {
			res.Tags = append(res.Tags, op[4:])
		}
	}
	if len(res.Obs) > 0 {
		for _, op := range rest.Ops {
			if strings.HasPrefix(op, "tag:") {
				res.Tags = append(res.Tags, op[4:])
			}
		}
		return res
	}
	for _, k := range kinds {
		if k.name == kind {
			return lmRun(sbDesc(id, k), rest)
		}
	}
	panic(id + ": unknown kind " + kind)
}

// sbGen: per kind dec/dec2 on byte strings of every small length; frames of the kind's Dot11Type (all flag shapes, every
// truncation) decoded as packets
func sbGen(id string, kinds []sbKind, chainTypes func(ty int) bool, rng *rand.Rand, tier string) []Case {
	var out []Case
	add := func(kind string, ops ...string) {
		out = append(out, Case{Prop: id, Ops: append([]string{"L:" + kind}, ops...)})
	}
	hx := lnHex
	reps := 1
	if tier == "thorough" {
		reps = 6
	}
	for _, k := range kinds {
		for n := 0; n <= 40; n++ {
			p := lnRandBytes(rng, n)
			add(k.name, "dec:"+hx(p))
			add(k.name, "tag:residue-after-ok", "dec2:"+hx(lnRandBytes(rng, lnPick(rng, 0, 1, 9, 64)))+","+hx(p))
		}
		for i := 0; i < 10*reps; i++ {
			add(k.name, "tag:malformed", "dec:"+hx(lnRandBytes(rng, rng.Intn(300))))
		}
	}
	first := kinds[0].name
	for r := 0; r < reps; r++ {
		for ty := 0; ty < 64; ty++ {
			if !chainTypes(ty) {
				continue
			}
			for _, fl := range []byte{0, 3, 0x40, 0x43, 0x80, 0xC3} {
				for _, pl := range []int{0, 1, 8, 20} {
					p, n := d11Build(rng, ty, fl, nil, lnRandBytes(rng, pl))
					add(first, "tag:type-flags-grid", "chain:"+hx(p))
					if pl == 1 && (fl == 0 || fl == 0xC3) {
						for k := 8; k <= n+5 && k <= len(p); k++ {
							add(first, "tag:truncated-prefix-of-valid", "chain:"+hx(p[:k]))
						}
					}
				}
			}
		}
	}
	for _, s := range lnSeeds() {
		if len(s) > 20 && s[0] == 0 && s[1] == 0 && s[3] == 0 {
			if n := int(s[2]); n >= 8 && n+10 < len(s) && chainTypes(int(s[n]>>2)) {
				add(first, "tag:seed", "chain:"+hx(s[n:]))
			}
		}
	}
	for i := 0; i < 100*reps; i++ {
		add(first, "tag:malformed", "chain:"+hx(lnRandBytes(rng, rng.Intn(60))))
	}
	return out
}
