package main

import (
	"encoding/hex"
	"fmt"
	"io"
	"math/rand"
	"runtime"
	"strconv"
	"strings"
	"sync"
	"sync/atomic"
	"time"

	"github.com/gopacket/gopacket/tcpassembly"
	"github.com/gopacket/gopacket/tcpassembly/tcpreader"
)

// C20: tcpreader.ReaderStream.  One goroutine plays the assembler (Reassembled(batch)* then
// ReassemblyComplete, called directly), one the consumer (Read(n) / Close / read-until-EOF).
//
// ops:  le:0|1  ini:0|1  b:<hex>.<skip>,<hex>.<skip>,...   r:<n>  d:<n>  c   sched:<k> (model only)
//
// Observation: one line per consumer call that returned (read=n;bytes=hex;err=class | close=ok),
// then asm=done|stuck|panic;cons=done|stuck|panic;ret=<Reassembled calls that returned>.
// "stuck" = not finished and no call returned on either side during a whole watchdog period
// (200 ms, confirmed by a second, fresh run with 600 ms).
type c20 struct{}

func init() { register("C20", c20{}) }

type c20Entry struct {
	bytes []byte
	skip  int
}
type c20Op struct {
	kind byte // 'r', 'd', 'c'
	n    int
}
type c20Case struct {
	le, ini bool
	hist    [][]c20Entry
	prog    []c20Op
}

func c20Parse(c Case) (p c20Case, err error) {
	p.ini = true
	for _, op := range c.Ops {
		name, arg, _ := strings.Cut(op, ":")
		switch name {
		case "le":
			p.le = arg == "1"
		case "ini":
			p.ini = arg == "1"
		case "sched":
		case "b":
			var b []c20Entry
			if arg != "" {
				for _, es := range strings.Split(arg, ",") {
					h, k, ok := strings.Cut(es, ".")
					if !ok {
						return p, fmt.Errorf("entry %q", es)
					}
					bs, e1 := hex.DecodeString(h)
					sk, e2 := strconv.Atoi(k)
					if e1 != nil || e2 != nil {
						return p, fmt.Errorf("entry %q", es)
					}
					b = append(b, c20Entry{bs, sk})
				}
			}
			p.hist = append(p.hist, b)
		case "r", "d":
			n, e := strconv.Atoi(arg)
			if e != nil || n < 0 || (name == "d" && n < 1) {
				return p, fmt.Errorf("op %q", op)
			}
			p.prog = append(p.prog, c20Op{name[0], n})
		case "c":
			p.prog = append(p.prog, c20Op{'c', 0})
		default:
			return p, fmt.Errorf("op %q", op)
		}
	}
	return p, nil
}

type c20Read struct {
	n, k       int
	data       []byte
	cls        string
	afterClose bool // a Close had returned before this Read was called
}

type c20Run struct {
	mu     sync.Mutex
	lines  []string
	reads  []c20Read
	oracle []string
	ret    int32
	prog   int64 // calls returned on either side (watchdog: no progress = stuck)
	asm    string
	cons   string
}

const c20Sentinel = 0xEE

// one execution of the case on the real code with watchdog wd
// tight: the consumer starts only after the assembler goroutine has started (and, on one P, has
// therefore parked in its first send), so that the first Read receives from a parked sender and
// the calls that follow it run before the assembler is scheduled again.
//
// alone: the verdict "stuck" does not come from a deadline but from a certificate taken from the
// Go runtime: in one stop-the-world goroutine dump both goroutines of the case are parked in a
// channel operation (or have exited) and at least one is parked.  Only these two goroutines can
// reach the stream's channels, so nobody can ever wake them: a deadlock, however slow or loaded
// the machine is.  A goroutine that is merely starved shows as runnable/running and the run goes
// on waiting (hard cap c20HardCap).  Used for the second stage, with nothing else running.
func c20Attempt(p c20Case, wd time.Duration, tight, alone bool) *c20Run {
	run := &c20Run{asm: "stuck", cons: "stuck"}
	var started int32
	var asmGid, consGid int64
	var rs tcpreader.ReaderStream // zero value unless made by NewReaderStream
	if p.ini {
		rs = tcpreader.NewReaderStream()
	}
	rs.LossErrors = p.le
	total := 0
	entries := 0
	// the assembler owns its batches (Read advances Reassembly.Bytes in place)
	hist := make([][]tcpassembly.Reassembly, len(p.hist))
	for i, b := range p.hist {
		hist[i] = make([]tcpassembly.Reassembly, len(b))
		for j, e := range b {
			// Start/End/Seen as the assembler sets them: it reads End of the last entry again after
			// Reassembled returns (tcpassembly sendToConnection), so the reader must leave them alone
			hist[i][j] = tcpassembly.Reassembly{Bytes: append([]byte(nil), e.bytes...), Skip: e.skip,
				Start: i == 0 && j == 0, End: i == len(p.hist)-1 && j == len(b)-1, Seen: time.Unix(1600000000+int64(i), int64(j))}
			total += len(e.bytes)
			entries++
		}
	}
	asmDone := make(chan struct{})
	consDone := make(chan struct{})
	go func() { // assembler
		defer close(asmDone)
		status := "done"
		if alone {
			atomic.StoreInt64(&asmGid, c20GoID())
		}
		atomic.StoreInt32(&started, 1)
		call := func(f func()) (ok bool) {
			defer func() {
				if r := recover(); r != nil {
					ok = false
				}
			}()
			f()
			return true
		}
		for bi, b := range hist {
			b := b
			if !call(func() { rs.Reassembled(b) }) {
				status = "panic"
				break
			}
			for j := range b {
				wantS, wantE := bi == 0 && j == 0, bi == len(hist)-1 && j == len(b)-1
				if b[j].Start != wantS || b[j].End != wantE || b[j].Skip != p.hist[bi][j].skip || !b[j].Seen.Equal(time.Unix(1600000000+int64(bi), int64(j))) {
					run.mu.Lock()
					run.oracle = append(run.oracle, fmt.Sprintf("C20:delivery-metadata-altered\tbatch %d entry %d: Start/End/Skip/Seen of the assembler's Reassembly changed during Reassembled (Start=%v End=%v Skip=%d)", bi, j, b[j].Start, b[j].End, b[j].Skip))
					run.mu.Unlock()
					break
				}
			}
			atomic.AddInt32(&run.ret, 1)
			atomic.AddInt64(&run.prog, 1)
		}
		if status == "done" && !call(func() { rs.ReassemblyComplete() }) {
			status = "panic"
		}
		run.mu.Lock()
		run.asm = status
		run.mu.Unlock()
	}()
	go func() { // consumer
		defer close(consDone)
		status := "done"
		closedOnce := false
		if alone {
			atomic.StoreInt64(&consGid, c20GoID())
		}
		if tight {
			for atomic.LoadInt32(&started) == 0 {
				runtime.Gosched()
			}
			for i := 0; i < 4; i++ {
				runtime.Gosched()
			}
		}
		doRead := func(n int) (cls string, panicked bool) {
			buf := make([]byte, n+8)
			for i := range buf {
				buf[i] = c20Sentinel
			}
			var k int
			var err error
			func() {
				defer func() {
					if r := recover(); r != nil {
						panicked = true
					}
				}()
				k, err = rs.Read(buf[:n])
			}()
			if panicked {
				return "panic", true
			}
			switch err {
			case nil:
				cls = "nil"
			case io.EOF:
				cls = "eof"
			case tcpreader.DataLost:
				cls = "lost"
			default:
				cls = "other"
			}
			atomic.AddInt64(&run.prog, 1)
			run.mu.Lock()
			defer run.mu.Unlock()
			if k < 0 || k > n {
				run.lines = append(run.lines, fmt.Sprintf("read=%d;bytes=!count%d;err=%s", n, k, cls))
				run.oracle = append(run.oracle, fmt.Sprintf("C20:read-count\tRead(%d) returned n=%d", n, k))
				return cls, false
			}
			for i := k; i < len(buf); i++ {
				if buf[i] != c20Sentinel {
					run.oracle = append(run.oracle, fmt.Sprintf("C20:buffer-beyond-count\tRead(%d) returned %d but wrote at offset %d", n, k, i))
					break
				}
			}
			data := append([]byte(nil), buf[:k]...)
			run.lines = append(run.lines, fmt.Sprintf("read=%d;bytes=%s;err=%s", n, hex.EncodeToString(data), cls))
			run.reads = append(run.reads, c20Read{n, k, data, cls, closedOnce})
			return cls, false
		}
	prog:
		for _, op := range p.prog {
			switch op.kind {
			case 'r':
				if _, pn := doRead(op.n); pn {
					status = "panic"
					break prog
				}
			case 'd':
				limit := total + entries + 8
				for i := 0; ; i++ {
					cls, pn := doRead(op.n)
					if pn {
						status = "panic"
						break prog
					}
					if cls == "eof" {
						break
					}
					if i > limit {
						status = "runaway"
						break prog
					}
				}
			case 'c':
				var err error
				panicked := false
				func() {
					defer func() {
						if r := recover(); r != nil {
							panicked = true
						}
					}()
					err = rs.Close()
				}()
				if panicked {
					status = "panic"
					break prog
				}
				closedOnce = true
				atomic.AddInt64(&run.prog, 1)
				run.mu.Lock()
				if err == nil {
					run.lines = append(run.lines, "close=ok")
				} else {
					run.lines = append(run.lines, "close=err")
				}
				run.mu.Unlock()
			}
		}
		run.mu.Lock()
		run.cons = status
		run.mu.Unlock()
	}()
	a, c := asmDone, consDone
	if !alone {
		// first stage, fast: "suspect" = neither side finished and no call returned on either side for wd
		tick := time.NewTicker(wd)
		defer tick.Stop()
		last := atomic.LoadInt64(&run.prog)
		for a != nil || c != nil {
			select {
			case <-a:
				a = nil
			case <-c:
				c = nil
			case <-tick.C:
				if now := atomic.LoadInt64(&run.prog); now != last {
					last = now
				} else {
					a, c = nil, nil
				}
			}
		}
	} else {
		// second stage: wait until both sides return or the runtime certifies a deadlock
		poll := time.NewTicker(10 * time.Millisecond)
		defer poll.Stop()
		begin := time.Now()
		last, lastChange := atomic.LoadInt64(&run.prog), time.Now()
		var limit time.Duration
		for a != nil || c != nil {
			select {
			case <-a:
				a = nil
			case <-c:
				c = nil
			case <-poll.C:
				if now := atomic.LoadInt64(&run.prog); now != last {
					last, lastChange = now, time.Now()
				}
				switch c20Certify(atomic.LoadInt64(&asmGid), atomic.LoadInt64(&consGid), a == nil, c == nil) {
				case 1: // certified deadlock
					a, c = nil, nil
				case 0: // somebody is runnable: only slow
					if time.Since(begin) > c20HardCap {
						a, c = nil, nil
					}
				default: // no certificate available: a long no-progress deadline scaled by the machine's slowness
					if limit == 0 {
						limit = c20LongDeadline()
					}
					if time.Since(lastChange) > limit {
						a, c = nil, nil
					}
				}
			}
		}
	}
	// snapshot (goroutines that are stuck stay blocked; they own nothing we read unlocked)
	run.mu.Lock()
	defer run.mu.Unlock()
	snap := &c20Run{lines: append([]string(nil), run.lines...), reads: append([]c20Read(nil), run.reads...),
		oracle: append([]string(nil), run.oracle...), ret: atomic.LoadInt32(&run.ret), asm: run.asm, cons: run.cons}
	return snap
}

const c20HardCap = 120 * time.Second

// c20GoID: the id of the calling goroutine, from the header of its own stack dump.
func c20GoID() int64 {
	var b [64]byte
	n := runtime.Stack(b[:], false)
	f := strings.Fields(string(b[:n]))
	if len(f) < 2 || f[0] != "goroutine" {
		return -1
	}
	id, err := strconv.ParseInt(f[1], 10, 64)
	if err != nil {
		return -1
	}
	return id
}

var c20DumpBuf = make([]byte, 1<<20)
var c20DumpMu sync.Mutex

// c20Certify: 1 = deadlock certain (every side has exited or is parked in a channel operation, at
// least one is parked), 0 = some side is running/runnable/otherwise waiting, -1 = cannot tell.
func c20Certify(asmGid, consGid int64, asmExited, consExited bool) int {
	if (asmGid <= 0 && !asmExited) || (consGid <= 0 && !consExited) {
		return -1
	}
	c20DumpMu.Lock()
	defer c20DumpMu.Unlock()
	var dump string
	for {
		n := runtime.Stack(c20DumpBuf, true) // stops the world: one consistent snapshot
		if n < len(c20DumpBuf) {
			dump = string(c20DumpBuf[:n])
			break
		}
		c20DumpBuf = make([]byte, 2*len(c20DumpBuf))
	}
	if !strings.HasPrefix(dump, "goroutine ") {
		return -1
	}
	parked := 0
	for _, side := range []struct {
		gid    int64
		exited bool
	}{{asmGid, asmExited}, {consGid, consExited}} {
		if side.exited {
			continue
		}
		hdr := "goroutine " + strconv.FormatInt(side.gid, 10) + " ["
		i := strings.Index(dump, "\n"+hdr)
		if i < 0 && !strings.HasPrefix(dump, hdr) {
			continue // not in the dump: the goroutine has exited
		}
		st := dump[i+1+len(hdr):] // i == -1 when the header opens the dump
		j := strings.IndexByte(st, ']')
		if j < 0 {
			return -1
		}
		st = st[:j]
		if k := strings.IndexByte(st, ','); k >= 0 {
			st = st[:k]
		}
		if strings.HasPrefix(st, "chan receive") || strings.HasPrefix(st, "chan send") || strings.HasPrefix(st, "select") {
			parked++
		} else {
			return 0
		}
	}
	if parked > 0 {
		return 1
	}
	return 0
}

// c20LongDeadline: fallback when no certificate can be had: 5 s without any call returning,
// scaled up (to at most 50 s) by how slow a goroutine ping-pong is right now.
func c20LongDeadline() time.Duration {
	ch, back := make(chan int), make(chan int)
	go func() {
		for v := range ch {
			back <- v
		}
	}()
	t0 := time.Now()
	for i := 0; i < 2000; i++ {
		ch <- i
		<-back
	}
	close(ch)
	el := time.Since(t0)
	f := float64(el) / float64(2*time.Millisecond)
	if f < 1 {
		f = 1
	}
	if f > 10 {
		f = 10
	}
	return time.Duration(f * float64(5*time.Second))
}

func c20Suspect(r *c20Run) bool { return r.asm == "stuck" || r.cons == "stuck" }

// first stage (may run inside the worker pool): fast watchdog; a stuck result is only a suspicion
func c20RunFree(p c20Case) *c20Run { return c20Attempt(p, 200*time.Millisecond, false, false) }

// second stage (nothing else running): see c20Attempt, alone
func c20ConfirmFree(p c20Case) *c20Run { return c20Attempt(p, 0, false, true) }

// c20SingleP is set while the pool has pinned the process to one P.
var c20SingleP int32

// the same case on ONE P with the consumer held back until the assembler is parked in its first
// send: Read then receives from a parked sender and everything the consumer does next (more
// reads from the same batch, Close) runs before the assembler reaches <-r.done.  On one P this
// interleaving is deterministic; it is the one in which an acknowledgement that is not a
// blocking send gets lost.
func c20RunTight(p c20Case) *c20Run {
	if atomic.LoadInt32(&c20SingleP) == 0 {
		prev := runtime.GOMAXPROCS(1)
		defer runtime.GOMAXPROCS(prev)
	}
	return c20Attempt(p, 200*time.Millisecond, true, false)
}

func c20ConfirmTight(p c20Case) *c20Run {
	prev := runtime.GOMAXPROCS(1)
	defer runtime.GOMAXPROCS(prev)
	return c20Attempt(p, 0, true, true)
}

func c20Assemble(p c20Case, run, tight *c20Run) Result {
	var res Result
	res.Obs = append(res.Obs, run.lines...)
	res.Obs = append(res.Obs, fmt.Sprintf("asm=%s;cons=%s;ret=%d", run.asm, run.cons, run.ret))
	res.Oracle = append(res.Oracle, run.oracle...)
	if p.ini {
		res.Oracle = append(res.Oracle, c20Oracle(p, run)...)
	}
	if tight != nil {
		const how = " [one P, consumer calls back-to-back after receiving from a parked sender]"
		seen := map[string]bool{}
		for _, o := range res.Oracle {
			seen[strings.SplitN(o, "\t", 2)[0]] = true
		}
		fails := append([]string(nil), tight.oracle...)
		if p.ini {
			fails = append(fails, c20Oracle(p, tight)...)
		}
		for _, o := range fails {
			if cl := strings.SplitN(o, "\t", 2)[0]; !seen[cl] {
				seen[cl] = true
				res.Oracle = append(res.Oracle, o+how)
			}
		}
		same := tight.asm == run.asm && tight.cons == run.cons && tight.ret == run.ret && len(tight.lines) == len(run.lines)
		for i := 0; same && i < len(run.lines); i++ {
			same = run.lines[i] == tight.lines[i]
		}
		// only completed runs are compared: a run cut short is reported by C20:progress, not here
		if !same && p.ini && !c20Suspect(run) && !c20Suspect(tight) {
			res.Oracle = append(res.Oracle, fmt.Sprintf("C20:schedule\tfree-running: %d calls, asm=%s cons=%s ret=%d; one P: %d calls, asm=%s cons=%s ret=%d",
				len(run.lines), run.asm, run.cons, run.ret, len(tight.lines), tight.asm, tight.cons, tight.ret))
		}
	}
	return res
}

func (c20) runCase(c Case) Result {
	p, err := c20Parse(c)
	if err != nil {
		return Result{Obs: []string{"bad-case=" + err.Error()}}
	}
	free := c20RunFree(p)
	if c20Suspect(free) {
		free = c20ConfirmFree(p)
	}
	tight := c20RunTight(p)
	if c20Suspect(tight) {
		tight = c20ConfirmTight(p)
	}
	return c20Assemble(p, free, tight)
}

// c20Oracle: the property, stated on what the real code did (independent of the model).
func c20Oracle(p c20Case, run *c20Run) (fails []string) {
	// expected event stream: for every delivered Reassembly, a loss marker (256) when LossErrors and
	// Skip != 0, then its bytes
	var want []int
	nclose, ndrain := 0, 0
	for _, b := range p.hist {
		for _, e := range b {
			if p.le && e.skip != 0 {
				want = append(want, 256)
			}
			for _, x := range e.bytes {
				want = append(want, int(x))
			}
		}
	}
	for _, op := range p.prog {
		switch op.kind {
		case 'c':
			nclose++
		case 'd':
			ndrain++
		}
	}
	var got []int
	eofSeen := false
	for i, r := range run.reads {
		switch r.cls {
		case "other":
			fails = append(fails, fmt.Sprintf("C20:error-class\tread %d returned an error that is neither io.EOF nor DataLost", i))
		case "lost":
			if r.k != 0 {
				fails = append(fails, fmt.Sprintf("C20:lost-with-bytes\tread %d returned DataLost with %d bytes", i, r.k))
			}
			if !p.le {
				fails = append(fails, fmt.Sprintf("C20:loss-unasked\tread %d returned DataLost without LossErrors", i))
			}
			got = append(got, 256)
		case "nil":
			if r.k == 0 && r.n > 0 {
				fails = append(fails, fmt.Sprintf("C20:zero-nil\tread %d: Read(%d) returned 0, nil", i, r.n))
			}
		case "eof":
			if r.k != 0 {
				fails = append(fails, fmt.Sprintf("C20:eof-with-bytes\tread %d returned EOF with %d bytes", i, r.k))
			}
		}
		if (eofSeen || r.afterClose) && (r.cls != "eof" || r.k != 0) {
			fails = append(fails, fmt.Sprintf("C20:eof-forever\tread %d after EOF/Close returned %d bytes, %s", i, r.k, r.cls))
		}
		for _, x := range r.data {
			got = append(got, int(x))
		}
		if r.cls == "eof" && !r.afterClose && !eofSeen {
			// first EOF without a Close: everything delivered must have been returned
			if !c20EqInts(got, want) {
				fails = append(fails, fmt.Sprintf("C20:bytes\tEOF at read %d after %d of %d delivered events (bytes and losses)", i, len(got), len(want)))
			}
		}
		if r.cls == "eof" {
			eofSeen = true
		}
	}
	if len(got) > len(want) || !c20EqInts(got, want[:len(got)]) {
		fails = append(fails, fmt.Sprintf("C20:bytes\tbytes/losses returned are not a prefix of what was delivered (first difference at event %d)", c20FirstDiff(got, want)))
	} else if nclose == 0 && run.asm == "done" && run.cons == "done" && len(got) != len(want) {
		fails = append(fails, fmt.Sprintf("C20:bytes\tboth sides finished without Close after %d of %d delivered events", len(got), len(want)))
	}
	if run.asm == "panic" || run.cons == "panic" {
		fails = append(fails, fmt.Sprintf("C20:panic\tasm=%s cons=%s", run.asm, run.cons))
	}
	if nclose+ndrain > 0 && (run.asm != "done" || run.cons != "done") {
		fails = append(fails, fmt.Sprintf("C20:progress\tasm=%s cons=%s after %d consumer calls, %d of %d Reassembled returned", run.asm, run.cons, len(run.lines), run.ret, len(p.hist)))
	}
	if ndrain > 0 && run.cons == "done" && !eofSeen {
		fails = append(fails, "C20:eof\tread-until-EOF loop ended without EOF")
	}
	return fails
}

func c20EqInts(a, b []int) bool {
	if len(a) != len(b) {
		return false
	}
	for i := range a {
		if a[i] != b[i] {
			return false
		}
	}
	return true
}
func c20FirstDiff(a, b []int) int {
	for i := range a {
		if i >= len(b) || a[i] != b[i] {
			return i
		}
	}
	return len(a)
}

// ---- running: generated cases are executed by a pool the first time Run is called, so that
// a tree in which many cases block costs (cases x watchdog)/workers, not cases x watchdog.
var (
	c20Generated []Case
	c20Once      sync.Once
	c20Memo      map[string]Result
)

func (h c20) Run(c Case) Result {
	c20Once.Do(func() {
		c20Memo = map[string]Result{}
		if len(c20Generated) == 0 {
			return
		}
		n := len(c20Generated)
		parsed := make([]c20Case, n)
		ok := make([]bool, n)
		free := make([]*c20Run, n)
		tight := make([]*c20Run, n)
		for i, j := range c20Generated {
			p, err := c20Parse(j)
			parsed[i], ok[i] = p, err == nil
		}
		phase := func(f func(i int)) {
			jobs := make(chan int)
			var wg sync.WaitGroup
			for w := 0; w < 24; w++ {
				wg.Add(1)
				go func() {
					defer wg.Done()
					for i := range jobs {
						if ok[i] {
							f(i)
						}
					}
				}()
			}
			for i := 0; i < n; i++ {
				jobs <- i
			}
			close(jobs)
			wg.Wait()
		}
		phase(func(i int) { free[i] = c20RunFree(parsed[i]) })
		// second pass on one P (see c20RunTight)
		prev := runtime.GOMAXPROCS(1)
		atomic.StoreInt32(&c20SingleP, 1)
		phase(func(i int) { tight[i] = c20RunTight(parsed[i]) })
		atomic.StoreInt32(&c20SingleP, 0)
		runtime.GOMAXPROCS(prev)
		// second stage, pool drained: every suspect is run again alone, one at a time, and only a
		// certified deadlock is reported
		for i := 0; i < n; i++ {
			if ok[i] && c20Suspect(free[i]) {
				free[i] = c20ConfirmFree(parsed[i])
			}
		}
		for i := 0; i < n; i++ {
			if ok[i] && c20Suspect(tight[i]) {
				tight[i] = c20ConfirmTight(parsed[i])
			}
		}
		for i, j := range c20Generated {
			if ok[i] {
				c20Memo[strings.Join(j.Ops, " ")] = c20Assemble(parsed[i], free[i], tight[i])
			}
		}
	})
	if r, ok := c20Memo[strings.Join(c.Ops, " ")]; ok {
		return r
	}
	return h.runCase(c)
}

// ---- generators
var c20Lens = []int{0, 0, 0, 1, 1, 2, 3, 5, 8, 17}
var c20Skips = []int{0, 0, 0, 0, -1, 1, 7, 100000}
var c20ReadSizes = []int{0, 1, 1, 2, 3, 4, 7, 16, 100, 4096}

type c20Gen struct {
	rng *rand.Rand
	ctr int
}

func (g *c20Gen) entry(big bool) string {
	n := c20Lens[g.rng.Intn(len(c20Lens))]
	if big && g.rng.Intn(8) == 0 {
		n = []int{64, 255, 1500}[g.rng.Intn(3)]
	}
	b := make([]byte, n)
	for i := range b {
		g.ctr++
		b[i] = byte(1 + g.ctr%251) // position-identifying, never the sentinel 0xEE run
	}
	return hex.EncodeToString(b) + "." + strconv.Itoa(c20Skips[g.rng.Intn(len(c20Skips))])
}

func (g *c20Gen) history(big bool) (ops []string, firstLen int, nbytes int) {
	nb := g.rng.Intn(6)
	firstLen = -1
	for i := 0; i < nb; i++ {
		ne := g.rng.Intn(5)
		if g.rng.Intn(3) == 0 {
			ne = 1
		}
		var es []string
		for j := 0; j < ne; j++ {
			e := g.entry(big)
			l := strings.Index(e, ".") / 2
			if firstLen < 0 && l > 0 {
				firstLen = l
			}
			nbytes += l
			es = append(es, e)
		}
		ops = append(ops, "b:"+strings.Join(es, ","))
	}
	return
}

func (g *c20Gen) reads(k int) []string {
	var out []string
	for i := 0; i < k; i++ {
		out = append(out, "r:"+strconv.Itoa(c20ReadSizes[g.rng.Intn(len(c20ReadSizes))]))
	}
	return out
}

func (g *c20Gen) drain() string {
	return "d:" + strconv.Itoa([]int{1, 1, 2, 3, 5, 16, 4096}[g.rng.Intn(7)])
}

func (c20) Gen(rng *rand.Rand, tier string) []Case {
	g := &c20Gen{rng: rng}
	var out []Case
	add := func(ops ...string) { out = append(out, Case{Prop: "C20", Ops: append([]string(nil), ops...)}) }
	n := 1300
	if tier == "thorough" {
		n = 20000
	}
	// (1) exhaustive small scope: every history of <=2 batches over a small alphabet x every short
	// program of reads with a Close at every position (or none) x LossErrors
	alpha := []string{"b:", "b:0102.0", "b:.0", "b:.3", "b:03.2,0405.0", "b:0607.0,.0,08.-1"}
	var hists [][]string
	hists = append(hists, nil)
	for _, a := range alpha {
		hists = append(hists, []string{a})
		if tier == "thorough" {
			for _, b := range alpha {
				hists = append(hists, []string{a, b})
			}
		}
	}
	if tier != "thorough" {
		hists = append(hists, []string{"b:0102.0", "b:03.2,0405.0"}, []string{"b:.3", "b:0607.0,.0,08.-1"}, []string{"b:03.2,0405.0", "b:"})
	}
	progs := [][]string{{"d:1"}, {"d:3"}, {"c"}, {"c", "c"}, {"c", "r:1"}, {"d:2", "c", "r:1"}, {"d:1", "c", "c"},
		{"r:1", "c"}, {"r:1", "c", "r:1", "c"}, {"r:2", "c"}, {"r:0", "c"}, {"r:0", "d:1"}, {"r:1", "r:1", "c"}, {"r:1", "r:1", "r:1", "c"},
		{"r:2", "r:2", "c", "d:1"}, {"r:1", "d:2"}, {"r:5", "c"}, {"r:5", "r:5", "c"}, {"r:5", "r:5", "r:5", "c"}, {"r:1", "r:0", "r:0", "d:4"}}
	for _, hs := range hists {
		for _, pr := range progs {
			for _, le := range []string{"le:0", "le:1"} {
				ops := append([]string{le}, hs...)
				ops = append(ops, pr...)
				add(ops...)
			}
		}
	}
	// (2) seeded random histories x programs with the close point chosen by kind
	for i := 0; i < n; i++ {
		le := "le:" + strconv.Itoa(rng.Intn(2))
		h, firstLen, nbytes := g.history(i%5 == 0)
		ops := append([]string{le}, h...)
		if i%7 == 0 {
			ops = append(ops, "sched:4")
		}
		switch kind := rng.Intn(12); kind {
		case 0, 1, 2: // read to EOF with assorted sizes
			ops = append(ops, g.reads(rng.Intn(6))...)
			ops = append(ops, g.drain())
			if rng.Intn(3) == 0 {
				ops = append(ops, g.reads(1+rng.Intn(2))...) // reads after EOF
			}
		case 3: // close before the first read
			ops = append(ops, "c")
			ops = append(ops, g.reads(rng.Intn(3))...)
		case 4, 5: // close in the middle of a batch: a read shorter than the first non-empty slice
			if firstLen > 1 {
				ops = append(ops, "r:"+strconv.Itoa(1+rng.Intn(firstLen-1)))
			} else {
				ops = append(ops, "r:1")
			}
			ops = append(ops, "c")
			ops = append(ops, g.reads(rng.Intn(2))...)
		case 6, 7: // close after k reads (between batches / mid batch as it falls)
			ops = append(ops, g.reads(1+rng.Intn(8))...)
			ops = append(ops, "c")
			if rng.Intn(2) == 0 {
				ops = append(ops, g.reads(1)...)
			}
		case 8: // close after EOF, close twice
			ops = append(ops, g.drain(), "c")
			if rng.Intn(2) == 0 {
				ops = append(ops, "c", "r:3")
			}
		case 9: // reads that consume exactly whole slices, then close
			if nbytes > 0 {
				ops = append(ops, "r:"+strconv.Itoa(nbytes))
			}
			ops = append(ops, g.reads(rng.Intn(3))...)
			ops = append(ops, "c")
		case 10: // zero-length reads mixed in
			ops = append(ops, "r:0", "r:0")
			ops = append(ops, g.reads(rng.Intn(4))...)
			ops = append(ops, "r:0")
			if rng.Intn(2) == 0 {
				ops = append(ops, "c")
			} else {
				ops = append(ops, g.drain())
			}
		default: // close, then drain / drain, close, drain
			ops = append(ops, g.reads(rng.Intn(3))...)
			ops = append(ops, "c", g.drain())
		}
		add(ops...)
	}
	// (3) outside the property's class (compared with the model only): a consumer that stops reading
	// without Close holds the assembler up by design; a zero-value ReaderStream
	add("le:0", "b:0102.0", "b:03.0", "r:1")
	add("le:1", "b:0102.5", "b:03.0", "r:9", "r:9")
	add("le:0", "ini:0", "b:01.0", "r:1")
	add("le:0", "ini:0", "d:1")
	c20Generated = out
	return out
}
