package main

// C14ng: pcapng writer -> reader round trip, and truncation at every offset gives a true prefix.
//
// Ops (writer script):  sec:app,comment,hw,os   if:name,comment,descr,filter,os,link,tsresol,tsoffhex,snap
//                       pkt:ifidx,tshex,caplen,len,datahex,opts   stat:ifidx,last,start,end,drophex,recvhex
//                       dsb:type,hex            (the first if: is the interface of NewNgWriterInterface)
//      or a given file: raw:hex
//      reading:         ro:MES (WantMixedLinkType, ErrorOnMismatchingLinkType, SkipUnknownVersion)  mode:copy|zc
//                       full | cut:k | cutall
// opts: items joined by '/':  c.hex  f.d.r.fcs.ll  h.alg.hex  d.hex  p.hex  q.dec  v.type.hex ; '-' = none.

import (
	"bytes"
	"crypto/md5"
	"fmt"
	"math/rand"
	"strconv"
	"strings"
	"time"

	"github.com/gopacket/gopacket"
	"github.com/gopacket/gopacket/layers"
	"github.com/gopacket/gopacket/pcapgo"
)

type c14ng struct{}

func init() { register("C14ng", c14ng{}) }

type ngwIface struct {
	Name, Comment, Descr, Filter, OS []byte
	Link, TsRes                      int
	TsOff                            uint64
	Snap                             uint32
}

func (i ngwIface) toNg() pcapgo.NgInterface {
	return pcapgo.NgInterface{Name: string(i.Name), Comment: string(i.Comment), Description: string(i.Descr), Filter: string(i.Filter),
		OS: string(i.OS), LinkType: layers.LinkType(i.Link), TimestampResolution: pcapgo.NgResolution(i.TsRes), TimestampOffset: i.TsOff, SnapLength: i.Snap}
}

type ngwOp struct {
	Kind    string // if pkt stat dsb
	Iface   ngwIface
	If      int
	Ts      int64
	Cap     int
	Len     int
	Data    []byte
	Opts    pcapgo.NgPacketOptions
	Stat    pcapgo.NgInterfaceStatistics
	DsbType uint32
	Payload []byte
	OK      bool
}

func unhex(s string) []byte {
	b := make([]byte, len(s)/2)
	for i := range b {
		v, _ := strconv.ParseUint(s[2*i:2*i+2], 16, 8)
		b[i] = byte(v)
	}
	return b
}
func atoi(s string) int { n, _ := strconv.Atoi(s); return n }
func hex64(s string) uint64 {
	n, _ := strconv.ParseUint(s, 16, 64)
	return n
}

func ngParseOpts(s string) (o pcapgo.NgPacketOptions) {
	if s == "-" || s == "" {
		return
	}
	for _, it := range strings.Split(s, "/") {
		a := strings.Split(it, ".")
		switch a[0] {
		case "c":
			o.Comments = append(o.Comments, string(unhex(a[1])))
		case "f":
			o.Flags = &pcapgo.NgEpbFlags{Direction: pcapgo.NgEpbFlag(atoi(a[1])), Reception: pcapgo.NgEpbFlag(atoi(a[2])), FCSLen: pcapgo.NgEpbFlag(atoi(a[3])), LinkLayerErr: pcapgo.NgEpbFlag(atoi(a[4]))}
		case "h":
			o.Hashes = append(o.Hashes, pcapgo.NgEpbHash{Algorithm: pcapgo.NgEpbHashAlgorithm(atoi(a[1])), Hash: unhex(a[2])})
		case "d":
			v := hex64(a[1])
			o.DropCount = &v
		case "p":
			v := hex64(a[1])
			o.PacketID = &v
		case "q":
			v := uint32(atoi(a[1]))
			o.Queue = &v
		case "v":
			o.Verdicts = append(o.Verdicts, pcapgo.NgEpbVerdict{Type: pcapgo.NgEpbVerdictType(atoi(a[1])), Data: unhex(a[2])})
		}
	}
	return
}

func ngTimeArg(s string) time.Time {
	if s == "z" {
		return time.Time{}
	}
	n, _ := strconv.ParseInt(s, 16, 64)
	return time.Unix(0, n).UTC()
}

type ngScript struct {
	Sec    pcapgo.NgSectionInfo
	HasSec bool
	Ifaces []ngwIface // all interfaces in order of addition (first = constructor)
	Ops    []ngwOp
	Raw    []byte
	IsRaw  bool
	Ro     ngReadOpts
	Reads  []string
}

func ngParseScript(ops []string) (sc ngScript) {
	first := true
	for _, op := range ops {
		name, arg := op, ""
		if i := strings.IndexByte(op, ':'); i >= 0 {
			name, arg = op[:i], op[i+1:]
		}
		a := strings.Split(arg, ",")
		switch name {
		case "sec":
			sc.Sec = pcapgo.NgSectionInfo{Application: string(unhex(a[0])), Comment: string(unhex(a[1])), Hardware: string(unhex(a[2])), OS: string(unhex(a[3]))}
		case "if":
			f := ngwIface{unhex(a[0]), unhex(a[1]), unhex(a[2]), unhex(a[3]), unhex(a[4]), atoi(a[5]), atoi(a[6]), hex64(a[7]), uint32(atoi(a[8]))}
			if first {
				first = false
				sc.Ifaces = append(sc.Ifaces, f)
			} else {
				sc.Ops = append(sc.Ops, ngwOp{Kind: "if", Iface: f})
			}
		case "pkt":
			ts, _ := strconv.ParseInt(a[1], 16, 64)
			sc.Ops = append(sc.Ops, ngwOp{Kind: "pkt", If: atoi(a[0]), Ts: ts, Cap: atoi(a[2]), Len: atoi(a[3]), Data: unhex(a[4]), Opts: ngParseOpts(a[5])})
		case "stat":
			sc.Ops = append(sc.Ops, ngwOp{Kind: "stat", If: atoi(a[0]), Stat: pcapgo.NgInterfaceStatistics{LastUpdate: ngTimeArg(a[1]), StartTime: ngTimeArg(a[2]), EndTime: ngTimeArg(a[3]), PacketsDropped: hex64(a[4]), PacketsReceived: hex64(a[5])}})
		case "dsb":
			sc.Ops = append(sc.Ops, ngwOp{Kind: "dsb", DsbType: uint32(atoi(a[0])), Payload: unhex(a[1])})
		case "raw":
			sc.Raw, sc.IsRaw = unhex(arg), true
		case "ro":
			z := sc.Ro.ZeroCopy
			sc.Ro = parseRo(arg)
			sc.Ro.ZeroCopy = z
		case "mode":
			sc.Ro.ZeroCopy = arg == "zc"
		case "full", "cut", "cutall":
			sc.Reads = append(sc.Reads, op)
		}
	}
	return
}

// ngRunWriter runs the real writer; returns the file and marks which calls succeeded.
func ngRunWriter(sc *ngScript) (file []byte, wline string, panicked bool) {
	var buf bytes.Buffer
	var res []string
	defer func() {
		if x := recover(); x != nil {
			panicked = true
			wline = "w=panic"
		}
	}()
	if len(sc.Ifaces) == 0 {
		return nil, "w=noif", false
	}
	w, err := pcapgo.NewNgWriterInterface(&buf, sc.Ifaces[0].toNg(), pcapgo.NgWriterOptions{SectionInfo: sc.Sec})
	res = append(res, ngClass(err))
	if err != nil {
		return nil, "w=" + strings.Join(res, ","), false
	}
	for i := range sc.Ops {
		op := &sc.Ops[i]
		switch op.Kind {
		case "if":
			_, err = w.AddInterface(op.Iface.toNg())
			if err == nil {
				sc.Ifaces = append(sc.Ifaces, op.Iface)
			}
		case "pkt":
			err = w.WritePacketWithOptions(gopacket.CaptureInfo{Timestamp: time.Unix(0, op.Ts).UTC(), CaptureLength: op.Cap, Length: op.Len, InterfaceIndex: op.If}, op.Data, op.Opts)
		case "stat":
			err = w.WriteInterfaceStats(op.If, op.Stat)
		case "dsb":
			err = w.WriteDecryptionSecretsBlock(op.DsbType, op.Payload)
		}
		op.OK = err == nil
		res = append(res, ngClass(err))
		w.Flush()
	}
	w.Flush()
	file = append([]byte(nil), buf.Bytes()...)
	return file, "w=" + strings.Join(res, ",") + ";file=" + hx(file), false
}

func ngNormFlags(o pcapgo.NgPacketOptions) pcapgo.NgPacketOptions {
	if o.Flags != nil {
		f := *o.Flags
		f.Direction &= pcapgo.NgEpbFlagDirectionMask
		f.Reception &= pcapgo.NgEpbFlagReceptionTypeMask
		f.FCSLen &= pcapgo.NgEpbFlagFCSLengthMask
		f.LinkLayerErr &= pcapgo.NgEpbFlagLinkLayerDependentErrorMask
		o.Flags = &f
	}
	return o
}

// expected packets of a script for given read options: indices into sc.Ops, and whether the
// sequence ends with an error at op index stopAt (-1: none): ErrNgLinkTypeMismatch ("mismatch"), or
// a packet the writer accepted although its capture length exceeds the snap length of its
// interface, which the reader refuses ("snaplen"; outside the round-trip precondition)
func ngExpected(sc *ngScript) (idx []int, stopAt int, kind string) {
	stopAt = -1
	links := []int{sc.Ifaces[0].Link}
	snaps := []uint32{sc.Ifaces[0].Snap}
	for i := range sc.Ops {
		op := &sc.Ops[i]
		if op.Kind == "if" && op.OK {
			links = append(links, op.Iface.Link)
			snaps = append(snaps, op.Iface.Snap)
		}
		if op.Kind == "pkt" && op.OK {
			if snaps[op.If] != 0 && uint32(op.Cap) > snaps[op.If] {
				return idx, i, "snaplen"
			}
			if !sc.Ro.Mixed && links[op.If] != links[0] {
				if sc.Ro.ErrMis {
					return idx, i, "mismatch"
				}
				continue
			}
			idx = append(idx, i)
		}
	}
	return
}

// compare a packet read back with the packet handed to the writer; "" when equal
func ngComparePacket(sc *ngScript, op *ngwOp, p *ngPacket) string {
	if !bytes.Equal(p.Data, op.Data) {
		return fmt.Sprintf("data %x != %x", p.Data, op.Data)
	}
	if p.CI.CaptureLength != op.Cap || p.CI.Length != op.Len || p.CI.InterfaceIndex != op.If {
		return fmt.Sprintf("caplen/len/if %d/%d/%d != %d/%d/%d", p.CI.CaptureLength, p.CI.Length, p.CI.InterfaceIndex, op.Cap, op.Len, op.If)
	}
	if got, want := ngOptsString(p.Opts), ngOptsString(ngNormFlags(op.Opts)); got != want {
		return fmt.Sprintf("options %s != %s", got, want)
	}
	if len(p.Opts.Comments) != len(op.Opts.Comments) {
		return "comment count"
	}
	if got := p.CI.Timestamp.UnixNano(); got != op.Ts {
		off := sc.Ifaces[op.If].TsOff
		if off != 0 && got == op.Ts+int64(off)*1e9 {
			return "ts-shifted-by-if_tsoffset"
		}
		return fmt.Sprintf("timestamp %d != %d", got, op.Ts)
	}
	if sc.Ro.Mixed && (len(p.CI.AncillaryData) != 1 || ngAncil(p.CI.AncillaryData[0]) != sc.Ifaces[op.If].Link) {
		return "ancillary link type"
	}
	return ""
}

func ngSummary(k int, r *ngSessionResult) string {
	var ls []string
	for _, p := range r.Pkts {
		ls = append(ls, p.Line)
	}
	end := r.End
	if r.New != "ok" {
		end = r.New
	}
	return fmt.Sprintf("cut=%d;new=%s;n=%d;end=%s;h=%x", k, r.New, len(r.Pkts), end, md5.Sum([]byte(strings.Join(ls, "\n"))))
}

func (c14ng) Run(c Case) (res Result) {
	sc := ngParseScript(c.Ops)
	tags := map[string]bool{}
	var file []byte
	if sc.IsRaw {
		file = sc.Raw
		if len(file) >= 12 && file[8] == 0x1A {
			tags["big-endian"] = true
		}
	} else {
		var wline string
		var p bool
		file, wline, p = ngRunWriter(&sc)
		res.Obs = append(res.Obs, wline)
		if p {
			res.Oracle = append(res.Oracle, "C14:roundtrip\twriter panicked")
			return
		}
		if file == nil {
			return
		}
		// tags from the script
		if len(sc.Ifaces) > 1 {
			tags["multi-interface"] = true
		}
		for i := range sc.Ops {
			if op := &sc.Ops[i]; op.Kind == "pkt" && op.OK {
				var lens []int
				for _, cm := range op.Opts.Comments {
					lens = append(lens, len(cm))
					if cm == "" {
						tags["empty-string-option"] = true
					}
				}
				for _, h := range op.Opts.Hashes {
					lens = append(lens, 1+len(h.Hash))
				}
				for _, h := range op.Opts.Verdicts {
					lens = append(lens, 1+len(h.Data))
				}
				for _, l := range lens {
					if l >= 65531 {
						tags["option-length-16bit-boundary"] = true
					}
					if l%4 != 0 {
						tags[fmt.Sprintf("option-pad-%d", 4-l%4)] = true
					}
				}
			}
		}
	}
	ends, types := ngWalkBlocks(file)
	isEnd := map[int]bool{0: true}
	for _, e := range ends {
		isEnd[e] = true
	}
	// packet-block layout for the cut tags: start, data start, data end, block end
	type span struct{ start, dstart, dend, end int }
	var spans []span
	{
		st := 0
		for i, e := range ends {
			if types[i] == 6 && e-st >= 32 {
				cl := int(uint32(file[st+20]) | uint32(file[st+21])<<8 | uint32(file[st+22])<<16 | uint32(file[st+23])<<24)
				if file[8] == 0x1A {
					cl = int(uint32(file[st+23]) | uint32(file[st+22])<<8 | uint32(file[st+21])<<16 | uint32(file[st+20])<<24)
				}
				de := st + 28 + (cl+3)/4*4
				if de <= e-4 {
					spans = append(spans, span{st, st + 28, de, e})
				}
			}
			st = e
		}
	}
	cutTag := func(k int) {
		if isEnd[k] {
			tags["cut-at-boundary"] = true
			return
		}
		for _, s := range spans {
			if k > s.start && k < s.end {
				switch {
				case k < s.dstart:
					tags["cut-in-header"] = true
				case k < s.dend:
					tags["cut-in-data"] = true
				case k < s.end-4:
					tags["cut-in-options"] = true
				default:
					tags["cut-in-header"] = true
				}
			}
		}
	}

	var fullRes *ngSessionResult
	getFull := func() *ngSessionResult {
		if fullRes == nil {
			fullRes = ngSession(bytes.NewReader(file), sc.Ro, -1)
		}
		return fullRes
	}
	var expIdx []int
	stopAt, stopKind := -1, ""
	opStart := map[int]int{}
	var pktEnds []int // block end of every successful pkt op, by op index
	opEnd := map[int]int{}
	if !sc.IsRaw {
		expIdx, stopAt, stopKind = ngExpected(&sc)
		// the i-th block of type 6 belongs to the i-th successful pkt op
		var e6 []int
		for i, e := range ends {
			if types[i] == 6 {
				e6 = append(e6, e)
			}
		}
		j := 0
		for i := range sc.Ops {
			if sc.Ops[i].Kind == "pkt" && sc.Ops[i].OK {
				if j < len(e6) {
					opEnd[i] = e6[j]
					for q, e := range ends {
						if e == e6[j] && q > 0 {
							opStart[i] = ends[q-1]
						}
					}
				} else {
					opEnd[i] = 1 << 40
				}
				j++
			}
		}
		if j != len(e6) || (len(ends) > 0 && ends[len(ends)-1] != len(file)) || len(ends) == 0 {
			res.Oracle = append(res.Oracle, fmt.Sprintf("C14:framing\twritten file is not a sequence of well-formed blocks (%d packet blocks for %d packets, %d/%d bytes framed)", len(e6), j, lastOr0(ends), len(file)))
		}
		_ = pktEnds
	}

	// the prefix oracle for a script: what must come out of the first k bytes
	checkCut := func(k int, r *ngSessionResult) {
		if len(r.Later) > 0 {
			res.Oracle = append(res.Oracle, fmt.Sprintf("C14:later-read-alters-earlier\tcut=%d %s", k, r.Later[0]))
		}
		if sc.IsRaw {
			f := getFull()
			if len(r.Pkts) > len(f.Pkts) {
				res.Oracle = append(res.Oracle, fmt.Sprintf("C14:prefix\tcut=%d more packets (%d) than the whole file (%d)", k, len(r.Pkts), len(f.Pkts)))
				return
			}
			for i := range r.Pkts {
				if r.Pkts[i].Line != f.Pkts[i].Line {
					res.Oracle = append(res.Oracle, fmt.Sprintf("C14:prefix\tcut=%d packet %d altered", k, i))
					return
				}
			}
			// one packet per packet block, when the whole file reads cleanly with mixed link types
			np := 0
			var pe []int
			for i, e := range ends {
				if types[i] == 2 || types[i] == 3 || types[i] == 6 {
					np++
					pe = append(pe, e)
				}
			}
			if sc.Ro.Mixed && f.New == "ok" && f.End == "eof" && np == len(f.Pkts) && len(ends) > 0 && ends[len(ends)-1] == len(file) {
				want := 0
				for _, e := range pe {
					if e <= k {
						want++
					}
				}
				wantEnd := "ueof"
				if isEnd[k] {
					wantEnd = "eof"
				}
				gotEnd := r.End
				if r.New != "ok" {
					gotEnd = r.New
				}
				if k >= ends[0] && r.New != "ok" {
					res.Oracle = append(res.Oracle, fmt.Sprintf("C14:prefix\tcut=%d NewNgReader failed (%s) although the section header is complete", k, r.New))
				} else if len(r.Pkts) != want || gotEnd != wantEnd {
					res.Oracle = append(res.Oracle, fmt.Sprintf("C14:prefix\tcut=%d got %d packets then %s, want %d then %s", k, len(r.Pkts), gotEnd, want, wantEnd))
				}
			}
			return
		}
		need := ends[0]
		if !sc.Ro.Mixed && len(ends) > 1 {
			need = ends[1]
		}
		wantEnd := "ueof"
		if isEnd[k] {
			wantEnd = "eof"
		}
		if k < need {
			if r.New != wantEnd || len(r.Pkts) != 0 {
				res.Oracle = append(res.Oracle, fmt.Sprintf("C14:prefix\tcut=%d NewNgReader gave %s, want %s", k, r.New, wantEnd))
			}
			return
		}
		if r.New != "ok" {
			res.Oracle = append(res.Oracle, fmt.Sprintf("C14:prefix\tcut=%d NewNgReader gave %s, want ok", k, r.New))
			return
		}
		var want []int
		for _, i := range expIdx {
			if opEnd[i] <= k {
				want = append(want, i)
			}
		}
		if stopAt >= 0 && opEnd[stopAt] <= k {
			wantEnd = "err"
		}
		if stopAt >= 0 && stopKind == "snaplen" && k > opStart[stopAt] && r.End == "err" {
			wantEnd = "err" // refused as soon as its header is read
		}
		if len(r.Pkts) != len(want) || r.End != wantEnd {
			res.Oracle = append(res.Oracle, fmt.Sprintf("C14:prefix\tcut=%d got %d packets then %s, want %d then %s", k, len(r.Pkts), r.End, len(want), wantEnd))
			return
		}
		for j, i := range want {
			if d := ngComparePacket(&sc, &sc.Ops[i], &r.Pkts[j]); d != "" && d != "ts-shifted-by-if_tsoffset" {
				res.Oracle = append(res.Oracle, fmt.Sprintf("C14:prefix\tcut=%d packet %d altered: %s", k, j, d))
				return
			}
		}
	}

	for _, rd := range sc.Reads {
		switch {
		case rd == "full":
			r := getFull()
			res.Obs = append(res.Obs, r.Lines()...)
			if r.New == "panic" || r.End == "panic" {
				res.Oracle = append(res.Oracle, "C14:roundtrip\treader panicked on the written file")
			}
			for _, l := range r.Later {
				res.Oracle = append(res.Oracle, "C14:later-read-alters-earlier\t"+l)
				break
			}
			if !sc.Ro.ZeroCopy && sc.Ro.Mixed && len(r.Pkts) >= 2 {
				lts := map[int]bool{}
				for _, p := range r.Pkts {
					if len(p.CI.AncillaryData) > 0 {
						lts[ngAncil(p.CI.AncillaryData[0])] = true
					}
				}
				if len(lts) >= 2 {
					tags["kept-across-reads"] = true
				}
			}
			if sc.IsRaw {
				continue
			}
			if r.New != "ok" {
				res.Oracle = append(res.Oracle, "C14:roundtrip\tNewNgReader failed on the written file: "+r.New)
				continue
			}
			wantEnd := "eof"
			if stopAt >= 0 {
				wantEnd = "err"
			}
			if len(r.Pkts) != len(expIdx) || r.End != wantEnd {
				res.Oracle = append(res.Oracle, fmt.Sprintf("C14:roundtrip\tgot %d packets then %s, want %d then %s", len(r.Pkts), r.End, len(expIdx), wantEnd))
			} else {
				for j, i := range expIdx {
					if d := ngComparePacket(&sc, &sc.Ops[i], &r.Pkts[j]); d != "" {
						res.Oracle = append(res.Oracle, fmt.Sprintf("C14:roundtrip\tpacket %d: %s", j, d))
						break
					}
				}
			}
			// section and interface descriptions (only when the whole file was consumed)
			if r.End == "eof" && r.Reader != nil {
				si := r.Reader.SectionInfo()
				if si != sc.Sec {
					res.Oracle = append(res.Oracle, fmt.Sprintf("C14:roundtrip\tsection info %+v != %+v", si, sc.Sec))
				}
				if r.Reader.NInterfaces() != len(sc.Ifaces) {
					res.Oracle = append(res.Oracle, fmt.Sprintf("C14:roundtrip\t%d interfaces read, %d written", r.Reader.NInterfaces(), len(sc.Ifaces)))
				} else {
					for i, w := range sc.Ifaces {
						g, _ := r.Reader.Interface(i)
						if g.Name != string(w.Name) || g.Comment != string(w.Comment) || g.Description != string(w.Descr) || g.Filter != string(w.Filter) ||
							g.OS != string(w.OS) || int(g.LinkType) != w.Link&0xffff || g.SnapLength != w.Snap || g.TimestampOffset != w.TsOff || g.TimestampResolution != 9 {
							res.Oracle = append(res.Oracle, fmt.Sprintf("C14:roundtrip\tinterface %d read back differently: %+v", i, g))
							break
						}
					}
					// statistics: the last successful stat op per interface
					last := map[int]*ngwOp{}
					for i := range sc.Ops {
						if sc.Ops[i].Kind == "stat" && sc.Ops[i].OK {
							last[sc.Ops[i].If] = &sc.Ops[i]
						}
					}
					for id, op := range last {
						g, _ := r.Reader.Interface(id)
						if sc.Ifaces[id].TsOff != 0 {
							continue
						}
						bad := g.Statistics.PacketsDropped != op.Stat.PacketsDropped || g.Statistics.PacketsReceived != op.Stat.PacketsReceived
						if !op.Stat.LastUpdate.IsZero() && !g.Statistics.LastUpdate.Equal(op.Stat.LastUpdate) {
							bad = true
						}
						if !g.Statistics.StartTime.Equal(op.Stat.StartTime) || !g.Statistics.EndTime.Equal(op.Stat.EndTime) {
							bad = true
						}
						if bad {
							res.Oracle = append(res.Oracle, fmt.Sprintf("C14:roundtrip\tstatistics of interface %d read back differently: %+v want %+v", id, g.Statistics, op.Stat))
						}
					}
				}
			}
		case rd == "cutall":
			for k := 0; k <= len(file); k++ {
				r := ngSession(bytes.NewReader(file[:k]), sc.Ro, -1)
				res.Obs = append(res.Obs, ngSummary(k, r))
				cutTag(k)
				if len(ends) > 0 {
					checkCut(k, r)
				}
			}
		case strings.HasPrefix(rd, "cut:"):
			k := atoi(rd[4:])
			if k > len(file) {
				k = len(file)
			}
			r := ngSession(bytes.NewReader(file[:k]), sc.Ro, -1)
			res.Obs = append(res.Obs, ngSummary(k, r))
			cutTag(k)
			if len(ends) > 0 {
				checkCut(k, r)
			}
		}
	}
	// keep the oracle output bounded
	if len(res.Oracle) > 6 {
		res.Oracle = res.Oracle[:6]
	}
	for t := range tags {
		res.Tags = append(res.Tags, t)
	}
	return
}

func lastOr0(a []int) int {
	if len(a) == 0 {
		return 0
	}
	return a[len(a)-1]
}

// ---------------------------------------------------------------- generator

var ngLinks = []int{1, 1, 1, 101, 113, 0, 228}
var ngSnaps = []int{0, 0, 64, 96, 65535, 262144}

func ngRandBytes(rng *rand.Rand, n int) []byte {
	b := make([]byte, n)
	for i := range b {
		b[i] = byte(rng.Intn(256))
	}
	return b
}
func ngRandText(rng *rand.Rand, n int) []byte {
	b := make([]byte, n)
	for i := range b {
		b[i] = byte('a' + rng.Intn(26))
	}
	return b
}
func ngStrLen(rng *rand.Rand) int {
	switch rng.Intn(8) {
	case 0:
		return 0
	case 1:
		return 1 + rng.Intn(3)
	case 2:
		return 4
	case 3:
		return 5 + rng.Intn(3)
	default:
		return rng.Intn(20)
	}
}

var ngLastSnap int

func ngGenIface(rng *rand.Rand, link int, tsoff uint64) string {
	ngLastSnap = ngSnaps[rng.Intn(len(ngSnaps))]
	s := func() string {
		if rng.Intn(3) == 0 {
			return ""
		}
		return hx(ngRandText(rng, ngStrLen(rng)))
	}
	return fmt.Sprintf("if:%s,%s,%s,%s,%s,%d,%d,%x,%d", s(), s(), s(), s(), s(), link, []int{0, 6, 9, 3}[rng.Intn(4)], tsoff, ngLastSnap)
}

func ngGenOpts(rng *rand.Rand, rich bool) string {
	if !rich && rng.Intn(3) == 0 {
		return "-"
	}
	var it []string
	for n := rng.Intn(4); n > 0; n-- {
		it = append(it, "c."+hx(ngRandText(rng, ngStrLen(rng))))
	}
	if rng.Intn(3) == 0 {
		it = append(it, fmt.Sprintf("f.%d.%d.%d.%d", rng.Intn(4), rng.Intn(8)*4, rng.Intn(32)*32, rng.Intn(65536)*65536))
	}
	for n := rng.Intn(3); n > 0 && rng.Intn(2) == 0; n-- {
		it = append(it, fmt.Sprintf("h.%d.%s", rng.Intn(6), hx(ngRandBytes(rng, []int{0, 1, 2, 3, 4, 16, 20}[rng.Intn(7)]))))
	}
	if rng.Intn(4) == 0 {
		it = append(it, "d."+strconv.FormatUint(rng.Uint64()>>uint(rng.Intn(64)), 16))
	}
	if rng.Intn(4) == 0 {
		it = append(it, "p."+strconv.FormatUint(rng.Uint64()>>uint(rng.Intn(64)), 16))
	}
	if rng.Intn(4) == 0 {
		it = append(it, fmt.Sprintf("q.%d", rng.Uint32()>>uint(rng.Intn(32))))
	}
	for n := rng.Intn(3); n > 0 && rng.Intn(2) == 0; n-- {
		it = append(it, fmt.Sprintf("v.%d.%s", rng.Intn(3), hx(ngRandBytes(rng, []int{0, 1, 2, 3, 8}[rng.Intn(5)]))))
	}
	if len(it) == 0 {
		return "-"
	}
	return strings.Join(it, "/")
}

func ngGenTs(rng *rand.Rand) int64 {
	switch rng.Intn(6) {
	case 0:
		return int64(rng.Intn(2000))
	case 1:
		return (1<<32)*int64(1+rng.Intn(5)) - int64(rng.Intn(3))
	case 2:
		return 1<<62 + rng.Int63n(1<<62)
	default:
		return 1500000000e9 + rng.Int63n(400000000e9)
	}
}

// ngGenScript returns the writer ops of a random script
func ngGenScript(rng *rand.Rand, npkt int, maxData int, allowTsOff bool, errors bool) []string {
	var ops []string
	s := func() string {
		if rng.Intn(3) == 0 {
			return ""
		}
		return hx(ngRandText(rng, ngStrLen(rng)))
	}
	ops = append(ops, fmt.Sprintf("sec:%s,%s,%s,%s", s(), s(), s(), s()))
	link0 := ngLinks[rng.Intn(len(ngLinks))]
	tsoff := func() uint64 {
		if allowTsOff && rng.Intn(2) == 0 {
			return uint64(1 + rng.Intn(100000))
		}
		return 0
	}
	ops = append(ops, ngGenIface(rng, link0, tsoff()))
	snaps := []int{ngLastSnap}
	nif := 1
	for i := 0; i < npkt; i++ {
		if rng.Intn(6) == 0 && nif < 4 {
			l := link0
			if rng.Intn(2) == 0 {
				l = ngLinks[rng.Intn(len(ngLinks))]
			}
			ops = append(ops, ngGenIface(rng, l, tsoff()))
			snaps = append(snaps, ngLastSnap)
			nif++
		}
		if rng.Intn(10) == 0 {
			tm := func() string {
				if rng.Intn(3) == 0 {
					return "z"
				}
				return strconv.FormatInt(ngGenTs(rng), 16)
			}
			cnt := func() string {
				if rng.Intn(3) == 0 {
					return "ffffffffffffffff"
				}
				return strconv.FormatUint(uint64(rng.Intn(100000)), 16)
			}
			ops = append(ops, fmt.Sprintf("stat:%d,%s,%s,%s,%s,%s", rng.Intn(nif), strconv.FormatInt(ngGenTs(rng), 16), tm(), tm(), cnt(), cnt()))
		}
		if rng.Intn(14) == 0 {
			ops = append(ops, fmt.Sprintf("dsb:%d,%s", []uint32{pcapgo.DSB_SECRETS_TYPE_TLS, pcapgo.DSB_SECRETS_TYPE_SSH, 7}[rng.Intn(3)], hx(ngRandBytes(rng, rng.Intn(11)))))
		}
		n := rng.Intn(maxData + 1)
		if rng.Intn(5) == 0 {
			n = rng.Intn(5)
		}
		ifid := rng.Intn(nif)
		if sn := snaps[ifid]; sn != 0 && n > sn && !(errors && rng.Intn(12) == 0) {
			n = rng.Intn(sn + 1)
		}
		if sn := snaps[ifid]; sn != 0 && sn <= 100 && rng.Intn(4) == 0 {
			n = sn // capture length exactly the snap length
		}
		cl, ol := n, n
		if rng.Intn(3) == 0 {
			ol = n + rng.Intn(2000)
		}
		if errors && rng.Intn(12) == 0 {
			switch rng.Intn(3) {
			case 0:
				ifid = nif + rng.Intn(2)
			case 1:
				cl = n + 1
				ol = n + 1
			default:
				ol = n - 1
			}
		}
		ops = append(ops, fmt.Sprintf("pkt:%d,%x,%d,%d,%s,%s", ifid, ngGenTs(rng), cl, ol, hx(ngRandBytes(rng, n)), ngGenOpts(rng, false)))
	}
	return ops
}

func (c14ng) Gen(rng *rand.Rand, tier string) []Case {
	var out []Case
	add := func(ops []string, extra ...string) {
		out = append(out, Case{Prop: "C14ng", Ops: append(append([]string(nil), ops...), extra...)})
	}
	ros := []string{"100", "000", "010", "110", "001"}
	// (a) targeted scripts: option lengths of every residue, empty comments, several interfaces
	base := []string{"sec:,,,", "if:" + hx([]byte("eth0")) + ",,,,,1,9,0,0"}
	for l := 0; l <= 9; l++ {
		ops := append([]string(nil), base...)
		ops = append(ops, fmt.Sprintf("pkt:0,%x,%d,%d,%s,c.%s/c./c.%s/h.2.%s/v.0.%s", int64(1600000000e9)+int64(l), l, l, hx(ngRandBytes(rng, l)),
			hx(ngRandText(rng, l)), hx(ngRandText(rng, (l+2)%7)), hx(ngRandBytes(rng, l)), hx(ngRandBytes(rng, (l+1)%5))))
		ops = append(ops, fmt.Sprintf("pkt:0,%x,1,60,aa,c./c.", int64(1600000001e9)))
		add(ops, "ro:100", "mode:copy", "full", "cutall")
		add(ops, "ro:000", "mode:zc", "full", "cutall")
	}
	// (a2) several interfaces of different link types, packets alternating between them, all link
	// types wanted, copying read: everything returned is kept and compared after the last read
	na2 := 16
	if tier == "thorough" {
		na2 = 200
	}
	for i := 0; i < na2; i++ {
		dl := []int{1, 101, 113, 0, 228}
		lks := rng.Perm(len(dl))
		ops := []string{"sec:,,,", fmt.Sprintf("if:%s,,,,,%d,9,0,0", hx([]byte("i0")), dl[lks[0]])}
		nif := 2 + rng.Intn(2)
		for j := 1; j < nif; j++ {
			ops = append(ops, fmt.Sprintf("if:%s,,,,,%d,9,0,0", hx([]byte(fmt.Sprintf("i%d", j))), dl[lks[j]]))
		}
		for j, np := 0, 3+rng.Intn(6); j < np; j++ {
			n := 1 + rng.Intn(12)
			ops = append(ops, fmt.Sprintf("pkt:%d,%x,%d,%d,%s,%s", (j+rng.Intn(2))%nif, ngGenTs(rng), n, n+rng.Intn(3), hx(ngRandBytes(rng, n)), ngGenOpts(rng, j%2 == 0)))
		}
		add(ops, "ro:100", "mode:copy", "full")
		if i%4 == 0 {
			add(ops, "ro:110", "mode:copy", "full", "cutall")
		}
	}
	// (b) random scripts
	n := 36
	if tier == "thorough" {
		n = 500
	}
	for i := 0; i < n; i++ {
		ops := ngGenScript(rng, 1+rng.Intn(8), 40, i%12 == 11, true)
		ro := ros[rng.Intn(len(ros))]
		mode := []string{"mode:copy", "mode:zc"}[rng.Intn(2)]
		add(ops, "ro:"+ro, mode, "full", "cutall")
		if i%3 == 0 {
			add(ops, "ro:100", "mode:copy", "full")
			add(ops, "ro:000", "mode:zc", "full")
		}
	}
	// (c) files of about 4 KiB cut at every offset, larger ones at random offsets
	nb := 1
	if tier == "thorough" {
		nb = 30
	}
	for i := 0; i < nb; i++ {
		ops := ngGenScript(rng, 25+rng.Intn(10), 100, false, false)
		add(ops, "ro:100", []string{"mode:copy", "mode:zc"}[i%2], "full", "cutall")
	}
	for i := 0; i < nb; i++ {
		ops := ngGenScript(rng, 40, 1500, false, false)
		ex := []string{"ro:100", "mode:copy", "full"}
		for j := 0; j < 150; j++ {
			ex = append(ex, fmt.Sprintf("cut:%d", rng.Intn(40000)))
		}
		add(ops, ex...)
	}
	// (e) option values at the 16-bit length boundary (65531..65535 octets), never the last option of
	// their block: the padded length must not be computed in 16 bits
	for i, l := range []int{65531, 65532, 65533, 65534, 65535} {
		if tier != "thorough" && i%2 == 1 {
			continue
		}
		long := hx(ngRandText(rng, l))
		ops := []string{"sec:,,,", "if:" + hx([]byte("eth0")) + ",,,,,1,9,0,0",
			fmt.Sprintf("pkt:0,%x,4,4,01020304,c.%s/c.%s", int64(1600000000e9), long, hx([]byte("tail"))),
			fmt.Sprintf("pkt:0,%x,1,60,aa,c.", int64(1600000001e9))}
		add(ops, "ro:100", []string{"mode:copy", "mode:zc"}[i%2], "full", fmt.Sprintf("cut:%d", 200+l/2), fmt.Sprintf("cut:%d", l+150))
		if i%2 == 0 {
			ops2 := []string{"sec:,,,", "if:" + long + "," + hx([]byte("cmt")) + ",,,,1,9,0,0",
				fmt.Sprintf("pkt:0,%x,2,2,0102,-", int64(1600000002e9))}
			add(ops2, "ro:100", "mode:copy", "full")
		}
	}
	// (d) golden files from the repository as seeds: whole, and cut
	for _, g := range ngGoldenFiles() {
		if len(g.Data) > 20000 {
			continue // too long for the Peano fuel of the extracted model; read by C15ng's oracle-only cases
		}
		ops := []string{"raw:" + hx(g.Data)}
		if len(g.Data) <= 1500 || (tier == "thorough" && len(g.Data) <= 4096) {
			add(ops, "ro:100", "mode:copy", "full", "cutall")
		} else {
			ex := []string{"ro:100", "mode:zc", "full"}
			nc := 60
			if tier == "thorough" {
				nc = 600
			}
			for j := 0; j < nc; j++ {
				ex = append(ex, fmt.Sprintf("cut:%d", rng.Intn(len(g.Data)+1)))
			}
			add(ops, ex...)
		}
		add(ops, "ro:000", "mode:copy", "full")
	}
	return out
}
