package main

import (
	"bytes"
	"encoding/binary"
	"encoding/hex"
	"fmt"
	"math"
	"math/rand"
	"strconv"
	"strings"

	"github.com/gopacket/gopacket"
	"github.com/gopacket/gopacket/layers"
)

// C17: endpoints and flows as values; per-layer flow constructors.
//
// Ops (register file: a list of endpoints and a list of flows, both append-only):
//   ep:t,hex        NewEndpoint(t, raw)                     t = signed hex int64
//   fl:t,src,dst    NewFlow(t, src, dst)
//   ffe:i,j         FlowFromEndpoints(eps[i], eps[j])
//   eps:k src:k dst:k rev:k   Endpoints/Src/Dst/Reverse of fls[k]
//   inv             pushes InvalidEndpoint and InvalidFlow
//   cmpe:i,j        ==, LessThan both ways, map insert/lookup
//   cmpf:k,l        ==, map insert/lookup, FastHash equal
//   pk:hex          decode hex eagerly from Ethernet (default options); push the link, network and
//                   transport flows that are present
//   seq:kind,mode,hex,hex,...   DecodeFromBytes of each packet in turn into ONE layer object, the flow
//                   accessor called after every decode; mode = f (fresh slice per packet) or r (one
//                   capture buffer overwritten in place) followed by the number of accessor calls per step
//   lf:kind,hex     decode hex as a packet whose first layer is <kind> (lazy, no recovery) and
//                   push the flow its link/network/transport layer reports
type c17 struct{}

func init() { register("C17", c17{}) }

// ---------------------------------------------------------------- layer table (oracle side)

type c17Kind struct {
	name   string
	lt     func() gopacket.LayerType
	slot   int // 0 link, 1 network, 2 transport
	etype  func() gopacket.EndpointType
	so, do int // offsets of src / dst field; w = width; w == 0: not a table kind
	w      int
	minHdr int
	dfb    func() c17Decoder // layer object with DecodeFromBytes, or nil
}

type c17Decoder interface {
	DecodeFromBytes(data []byte, df gopacket.DecodeFeedback) error
}

var c17Kinds = []c17Kind{
	{"eth", func() gopacket.LayerType { return layers.LayerTypeEthernet }, 0, func() gopacket.EndpointType { return layers.EndpointMAC }, 6, 0, 6, 14, func() c17Decoder { return &layers.Ethernet{} }},
	{"fddi", func() gopacket.LayerType { return layers.LayerTypeFDDI }, 0, func() gopacket.EndpointType { return layers.EndpointMAC }, 1, 7, 6, 13, nil},
	{"ip4", func() gopacket.LayerType { return layers.LayerTypeIPv4 }, 1, func() gopacket.EndpointType { return layers.EndpointIPv4 }, 12, 16, 4, 20, func() c17Decoder { return &layers.IPv4{} }},
	{"ip6", func() gopacket.LayerType { return layers.LayerTypeIPv6 }, 1, func() gopacket.EndpointType { return layers.EndpointIPv6 }, 8, 24, 16, 40, func() c17Decoder { return &layers.IPv6{} }},
	{"sll", func() gopacket.LayerType { return layers.LayerTypeLinuxSLL }, 0, func() gopacket.EndpointType { return layers.EndpointMAC }, 0, 0, 0, 16, func() c17Decoder { return &layers.LinuxSLL{} }},
	{"sll2", func() gopacket.LayerType { return layers.LayerTypeLinuxSLL2 }, 0, func() gopacket.EndpointType { return layers.EndpointMAC }, 0, 0, 0, 20, func() c17Decoder { return &layers.LinuxSLL2{} }},
	{"ppp", func() gopacket.LayerType { return layers.LayerTypePPP }, 0, func() gopacket.EndpointType { return layers.EndpointPPP }, 0, 0, 0, 1, nil},
	{"rudp", func() gopacket.LayerType { return layers.LayerTypeRUDP }, 2, func() gopacket.EndpointType { return layers.EndpointRUDPPort }, 2, 3, 1, 18, nil},
	{"sctp", func() gopacket.LayerType { return layers.LayerTypeSCTP }, 2, func() gopacket.EndpointType { return layers.EndpointSCTPPort }, 0, 2, 2, 12, func() c17Decoder { return &layers.SCTP{} }},
	{"tcp", func() gopacket.LayerType { return layers.LayerTypeTCP }, 2, func() gopacket.EndpointType { return layers.EndpointTCPPort }, 0, 2, 2, 20, func() c17Decoder { return &layers.TCP{} }},
	{"udp", func() gopacket.LayerType { return layers.LayerTypeUDP }, 2, func() gopacket.EndpointType { return layers.EndpointUDPPort }, 0, 2, 2, 8, func() c17Decoder { return &layers.UDP{} }},
	{"udplite", func() gopacket.LayerType { return layers.LayerTypeUDPLite }, 2, func() gopacket.EndpointType { return layers.EndpointUDPLitePort }, 0, 2, 2, 8, nil},
}

func c17KindByName(n string) *c17Kind {
	for i := range c17Kinds {
		if c17Kinds[i].name == n {
			return &c17Kinds[i]
		}
	}
	return nil
}

// c17LayerFlow decodes data with kind's decoder as first layer of a lazy packet without panic
// recovery and returns (class, flow): class ok = layer present.
func c17LayerFlow(k *c17Kind, data []byte) (cls string, f gopacket.Flow) {
	cls = "panic"
	stage := "decode"
	defer func() {
		if r := recover(); r != nil {
			cls = "panic"
			if stage == "flow" {
				cls = "panic-in-flow"
			}
		}
	}()
	p := gopacket.NewPacket(data, k.lt(), gopacket.DecodeOptions{Lazy: true, SkipDecodeRecovery: true})
	switch k.slot {
	case 0:
		l := p.LinkLayer()
		if l == nil {
			break
		}
		stage = "flow"
		return "ok", l.LinkFlow()
	case 1:
		l := p.NetworkLayer()
		if l == nil {
			break
		}
		stage = "flow"
		return "ok", l.NetworkFlow()
	case 2:
		l := p.TransportLayer()
		if l == nil {
			break
		}
		stage = "flow"
		return "ok", l.TransportFlow()
	}
	if p.ErrorLayer() != nil {
		return "err", f
	}
	return "none", f
}

// flow of a layer decoded directly with DecodeFromBytes
func c17DirectFlow(k *c17Kind, data []byte) (ok bool, err error, f gopacket.Flow) {
	defer func() {
		if r := recover(); r != nil {
			ok = false
		}
	}()
	d := k.dfb()
	buf := make([]byte, len(data))
	copy(buf, data)
	err = d.DecodeFromBytes(buf, gopacket.NilDecodeFeedback)
	switch l := d.(type) {
	case gopacket.LinkLayer:
		f = l.LinkFlow()
	case gopacket.NetworkLayer:
		f = l.NetworkFlow()
	case gopacket.TransportLayer:
		f = l.TransportFlow()
	}
	return true, err, f
}

func c17Swap(k *c17Kind, data []byte) []byte {
	out := append([]byte(nil), data...)
	if k.w == 0 || len(data) < k.so+k.w || len(data) < k.do+k.w {
		return out
	}
	copy(out[k.so:k.so+k.w], data[k.do:k.do+k.w])
	copy(out[k.do:k.do+k.w], data[k.so:k.so+k.w])
	return out
}

// inputs whose handling is outside the model (see Model/C17Model.v tcp_in_scope, LIPv6)
func c17InScope(kind string, d []byte) bool {
	switch kind {
	case "ip6":
		return len(d) < 40 || d[6] != 0
	case "tcp":
		if len(d) < 20 {
			return true
		}
		doff := int(d[12] >> 4)
		if doff < 5 || doff*4 > len(d) {
			return true
		}
		return !bytes.Contains(d[20:doff*4], []byte{30})
	}
	return true
}

func c17Scope(kind string, d []byte) []byte {
	if c17InScope(kind, d) {
		return d
	}
	switch kind {
	case "ip6":
		d[6] = 59
	case "tcp":
		doff := int(d[12] >> 4)
		for i := 20; i < doff*4; i++ {
			if d[i] == 30 {
				d[i] = 1
			}
		}
	}
	return d
}

// ---------------------------------------------------------------- formatting

func c17T(t gopacket.EndpointType) string { return strconv.FormatInt(int64(t), 16) }
func c17E(e gopacket.Endpoint) string {
	return fmt.Sprintf("%s/%s/%s", c17T(e.EndpointType()), hex.EncodeToString(e.Raw()), strconv.FormatUint(e.FastHash(), 16))
}
func c17F(f gopacket.Flow) string {
	s, d := f.Endpoints()
	return fmt.Sprintf("%s/%s/%s/%s", c17T(f.EndpointType()), hex.EncodeToString(s.Raw()), hex.EncodeToString(d.Raw()), strconv.FormatUint(f.FastHash(), 16))
}
func c17B(b bool) int {
	if b {
		return 1
	}
	return 0
}

// reference lexicographic comparison written out (not bytes.Compare)
func c17Lex(a, b []byte) int {
	for i := 0; i < len(a) && i < len(b); i++ {
		if a[i] < b[i] {
			return -1
		}
		if a[i] > b[i] {
			return 1
		}
	}
	switch {
	case len(a) < len(b):
		return -1
	case len(a) > len(b):
		return 1
	}
	return 0
}

// reference FNV-1a based hashes with math/big-free explicit uint64 arithmetic
func c17Fnv(s []byte) uint64 {
	var h uint64 = 14695981039346656037
	for _, b := range s {
		h ^= uint64(b)
		h *= 1099511628211
	}
	return h
}

// ---------------------------------------------------------------- Run

func (c17) Run(c Case) Result {
	var res Result
	var eps []gopacket.Endpoint
	var fls []gopacket.Flow
	tags := map[string]bool{}
	fail := func(clause, format string, a ...interface{}) {
		res.Oracle = append(res.Oracle, clause+"\t"+fmt.Sprintf(format, a...))
	}
	checkEndpoint := func(op string, e gopacket.Endpoint, t gopacket.EndpointType, raw []byte) {
		if e.EndpointType() != t || !bytes.Equal(e.Raw(), raw) {
			fail("C17:faithful", "%s: endpoint is %s want type %s raw %x", op, c17E(e), c17T(t), raw)
		}
		e2 := gopacket.NewEndpoint(t, append([]byte(nil), raw...))
		if e2 != e {
			fail("C17:eq-iff", "%s: endpoint %s != fresh NewEndpoint of its own type and Raw()", op, c17E(e))
		}
		m := map[gopacket.Endpoint]int{e: 1}
		if m[e2] != 1 {
			fail("C17:map-key", "%s: endpoint %s not found under an equal key", op, c17E(e))
		}
		if e.FastHash() != e2.FastHash() || e.FastHash() != e.FastHash() {
			fail("C17:hash-deterministic", "%s: endpoint %s hash differs from equal endpoint", op, c17E(e))
		}
		want := (c17Fnv(raw) ^ uint64(t)) * 1099511628211
		if e.FastHash() != want {
			fail("C17:hash-value", "%s: endpoint hash %x want %x", op, e.FastHash(), want)
		}
	}
	checkFlow := func(op string, f gopacket.Flow, t gopacket.EndpointType, src, dst []byte) {
		s, d := f.Endpoints()
		if f.EndpointType() != t || !bytes.Equal(s.Raw(), src) || !bytes.Equal(d.Raw(), dst) || s.EndpointType() != t || d.EndpointType() != t {
			fail("C17:faithful", "%s: flow is %s want type %s %x>%x", op, c17F(f), c17T(t), src, dst)
		}
		if f.Src() != s || f.Dst() != d {
			fail("C17:faithful", "%s: Src/Dst differ from Endpoints", op)
		}
		f2 := gopacket.NewFlow(t, append([]byte(nil), src...), append([]byte(nil), dst...))
		if f2 != f {
			fail("C17:eq-iff", "%s: flow %s != fresh NewFlow of its own type and addresses", op, c17F(f))
		}
		m := map[gopacket.Flow]int{f: 1}
		if m[f2] != 1 {
			fail("C17:map-key", "%s: flow %s not found under an equal key", op, c17F(f))
		}
		f3, err := gopacket.FlowFromEndpoints(s, d)
		if err != nil || f3 != f {
			fail("C17:roundtrip", "%s: FlowFromEndpoints(Endpoints(f)) != f for %s", op, c17F(f))
		}
		r := f.Reverse()
		if r.Reverse() != f {
			fail("C17:reverse-involution", "%s: Reverse(Reverse(f)) != f for %s", op, c17F(f))
		}
		if r.Src() != d || r.Dst() != s || r.EndpointType() != t {
			fail("C17:reverse-swaps", "%s: Reverse(%s) = %s", op, c17F(f), c17F(r))
		}
		if r.FastHash() != f.FastHash() {
			fail("C17:hash-symmetric", "%s: FastHash(%s)=%x but reverse %x", op, c17F(f), f.FastHash(), r.FastHash())
		}
		want := ((c17Fnv(src) + c17Fnv(dst)) ^ uint64(t)) * 1099511628211
		if f.FastHash() != want {
			fail("C17:hash-value", "%s: flow hash %x want %x", op, f.FastHash(), want)
		}
	}
	for _, op := range c.Ops {
		name, arg, _ := strings.Cut(op, ":")
		args := strings.Split(arg, ",")
		geti := func(k int) int { v, _ := strconv.Atoi(args[k]); return v }
		gett := func(k int) gopacket.EndpointType {
			v, _ := strconv.ParseInt(args[k], 16, 64)
			return gopacket.EndpointType(v)
		}
		getb := func(k int) []byte { b, _ := hex.DecodeString(args[k]); return b }
		switch name {
		case "ep":
			t, raw := gett(0), getb(1)
			var e gopacket.Endpoint
			panicked := c17Recover(func() { e = gopacket.NewEndpoint(t, append([]byte(nil), raw...)) })
			if len(raw) > gopacket.MaxEndpointSize {
				tags["len-17-reject"] = true
				if !panicked {
					fail("C17:reject-17", "%s: NewEndpoint accepted %d bytes", op, len(raw))
					res.Obs = append(res.Obs, "cls=accepted-oversize")
					continue
				}
			} else if panicked {
				fail("C17:accept-16", "%s: NewEndpoint panicked on %d bytes", op, len(raw))
			}
			if panicked {
				res.Obs = append(res.Obs, "cls=panic")
				continue
			}
			eps = append(eps, e)
			res.Obs = append(res.Obs, "cls=ok;e="+c17E(e))
			checkEndpoint(op, e, t, raw)
		case "fl":
			t, src, dst := gett(0), getb(1), getb(2)
			var f gopacket.Flow
			panicked := c17Recover(func() {
				f = gopacket.NewFlow(t, append([]byte(nil), src...), append([]byte(nil), dst...))
			})
			if len(src) > gopacket.MaxEndpointSize || len(dst) > gopacket.MaxEndpointSize {
				tags["len-17-reject"] = true
				if !panicked {
					fail("C17:reject-17", "%s: NewFlow accepted %d/%d bytes", op, len(src), len(dst))
					res.Obs = append(res.Obs, "cls=accepted-oversize")
					continue
				}
			} else if panicked {
				fail("C17:accept-16", "%s: NewFlow panicked on %d/%d bytes", op, len(src), len(dst))
			}
			if panicked {
				res.Obs = append(res.Obs, "cls=panic")
				continue
			}
			fls = append(fls, f)
			res.Obs = append(res.Obs, "cls=ok;f="+c17F(f))
			checkFlow(op, f, t, src, dst)
		case "ffe":
			i, j := geti(0), geti(1)
			if i >= len(eps) || j >= len(eps) {
				res.Obs = append(res.Obs, "skip")
				continue
			}
			a, b := eps[i], eps[j]
			f, err := gopacket.FlowFromEndpoints(a, b)
			if (err != nil) != (a.EndpointType() != b.EndpointType()) {
				fail("C17:mismatch-error", "%s: FlowFromEndpoints(%s,%s) err=%v", op, c17E(a), c17E(b), err)
			}
			if err != nil {
				res.Obs = append(res.Obs, "cls=err")
				continue
			}
			fls = append(fls, f)
			res.Obs = append(res.Obs, "cls=ok;f="+c17F(f))
			if f.Src() != a || f.Dst() != b {
				fail("C17:roundtrip", "%s: Endpoints(FlowFromEndpoints(a,b)) != (a,b): %s from %s,%s", op, c17F(f), c17E(a), c17E(b))
			}
			checkFlow(op, f, a.EndpointType(), a.Raw(), b.Raw())
		case "eps", "src", "dst":
			k := geti(0)
			if k >= len(fls) {
				res.Obs = append(res.Obs, "skip")
				continue
			}
			f := fls[k]
			var out []gopacket.Endpoint
			switch name {
			case "eps":
				a, b := f.Endpoints()
				out = []gopacket.Endpoint{a, b}
			case "src":
				out = []gopacket.Endpoint{f.Src()}
			case "dst":
				out = []gopacket.Endpoint{f.Dst()}
			}
			var ss []string
			for _, e := range out {
				eps = append(eps, e)
				ss = append(ss, c17E(e))
				checkEndpoint(op, e, f.EndpointType(), e.Raw())
			}
			res.Obs = append(res.Obs, "cls=ok;e="+strings.Join(ss, ","))
		case "rev":
			k := geti(0)
			if k >= len(fls) {
				res.Obs = append(res.Obs, "skip")
				continue
			}
			f := fls[k]
			r := f.Reverse()
			fls = append(fls, r)
			tags["reversed-pair"] = true
			res.Obs = append(res.Obs, "cls=ok;f="+c17F(r))
			s, d := f.Endpoints()
			checkFlow(op, r, f.EndpointType(), d.Raw(), s.Raw())
		case "inv":
			eps = append(eps, gopacket.InvalidEndpoint)
			fls = append(fls, gopacket.InvalidFlow)
			res.Obs = append(res.Obs, "cls=ok;e="+c17E(gopacket.InvalidEndpoint)+";f="+c17F(gopacket.InvalidFlow))
			checkEndpoint(op, gopacket.InvalidEndpoint, gopacket.EndpointInvalid, nil)
			checkFlow(op, gopacket.InvalidFlow, gopacket.EndpointInvalid, nil, nil)
		case "cmpe":
			i, j := geti(0), geti(1)
			if i >= len(eps) || j >= len(eps) {
				res.Obs = append(res.Obs, "skip")
				continue
			}
			a, b := eps[i], eps[j]
			eq, lt, gt := a == b, a.LessThan(b), b.LessThan(a)
			m := map[gopacket.Endpoint]int{}
			m[a] = 1
			_, look := m[b]
			res.Obs = append(res.Obs, fmt.Sprintf("eq=%d;lt=%d;gt=%d;look=%d", c17B(eq), c17B(lt), c17B(gt), c17B(look)))
			sameT, sameR := a.EndpointType() == b.EndpointType(), bytes.Equal(a.Raw(), b.Raw())
			if sameR && !sameT {
				tags["equal-bytes-different-type"] = true
			}
			if len(a.Raw()) != len(b.Raw()) && (bytes.HasPrefix(a.Raw(), b.Raw()) || bytes.HasPrefix(b.Raw(), a.Raw())) {
				tags["unequal-length-shared-prefix"] = true
			}
			if eq != (sameT && sameR) {
				fail("C17:eq-iff", "%s: %s == %s is %v", op, c17E(a), c17E(b), eq)
			}
			if look != eq {
				fail("C17:map-key", "%s: lookup of %s under key %s found=%v but ==%v", op, c17E(b), c17E(a), look, eq)
			}
			if c17B(eq)+c17B(lt)+c17B(gt) != 1 {
				fail("C17:order-trichotomy", "%s: %s vs %s: eq=%v lt=%v gt=%v", op, c17E(a), c17E(b), eq, lt, gt)
			}
			wantLt := int64(a.EndpointType()) < int64(b.EndpointType()) || (sameT && c17Lex(a.Raw(), b.Raw()) < 0)
			if lt != wantLt {
				fail("C17:order-type-then-bytes", "%s: %s < %s is %v want %v", op, c17E(a), c17E(b), lt, wantLt)
			}
			if eq && a.FastHash() != b.FastHash() {
				fail("C17:hash-deterministic", "%s: equal endpoints, different hash", op)
			}
		case "cmpf":
			k, l := geti(0), geti(1)
			if k >= len(fls) || l >= len(fls) {
				res.Obs = append(res.Obs, "skip")
				continue
			}
			a, b := fls[k], fls[l]
			eq := a == b
			m := map[gopacket.Flow]int{}
			m[a] = 1
			_, look := m[b]
			heq := a.FastHash() == b.FastHash()
			res.Obs = append(res.Obs, fmt.Sprintf("eq=%d;look=%d;heq=%d", c17B(eq), c17B(look), c17B(heq)))
			as, ad := a.Endpoints()
			bs, bd := b.Endpoints()
			same := a.EndpointType() == b.EndpointType() && bytes.Equal(as.Raw(), bs.Raw()) && bytes.Equal(ad.Raw(), bd.Raw())
			rev := a.EndpointType() == b.EndpointType() && bytes.Equal(as.Raw(), bd.Raw()) && bytes.Equal(ad.Raw(), bs.Raw())
			if rev {
				tags["reversed-pair"] = true
			}
			if eq != same {
				fail("C17:eq-iff", "%s: %s == %s is %v", op, c17F(a), c17F(b), eq)
			}
			if look != eq {
				fail("C17:map-key", "%s: flow lookup found=%v but ==%v", op, look, eq)
			}
			if (same || rev) && !heq {
				fail("C17:hash-symmetric", "%s: %s and %s hash differently", op, c17F(a), c17F(b))
			}
			if rev && b != a.Reverse() {
				fail("C17:reverse-swaps", "%s: %s is the reverse of %s but != Reverse()", op, c17F(b), c17F(a))
			}
		case "pk":
			data := getb(0)
			var fl [3]*gopacket.Flow
			panicked := c17Recover(func() { fl = c17Stack(data) })
			if panicked {
				res.Obs = append(res.Obs, "cls=panic")
				fail("C17:layer-flow-panics", "%s: decoding or a flow constructor panicked", op)
				continue
			}
			o := "cls=ok"
			for i, nm := range []string{"l", "n", "t"} {
				if fl[i] == nil {
					o += ";" + nm + "=-"
				} else {
					o += ";" + nm + "=" + c17F(*fl[i])
					fls = append(fls, *fl[i])
					tags["layer-flow"] = true
				}
			}
			res.Obs = append(res.Obs, o)
			c17StackOracle(op, data, fl, fail)
		case "seq":
			k := c17KindByName(args[0])
			mode := args[1]
			reuse := strings.HasPrefix(mode, "r")
			if len(args) > 3 {
				if reuse {
					tags["reused-layer-reused-buffer"] = true
				} else {
					tags["reused-layer-fresh-buffer"] = true
				}
			}
			res.Obs = append(res.Obs, "seq="+strings.Join(c17Seq(op, k, mode, reuse, args[2:], fail), "|"))
		case "lf":
			k := c17KindByName(args[0])
			data := getb(1)
			cls, f := c17LayerFlow(k, data)
			if cls == "panic-in-flow" {
				fail("C17:layer-flow-panics", "%s: the layer decoded but its flow constructor panicked", op)
			}
			if cls != "ok" {
				res.Obs = append(res.Obs, "cls="+cls)
			} else {
				fls = append(fls, f)
				tags["layer-flow"] = true
				res.Obs = append(res.Obs, "cls=ok;f="+c17F(f))
			}
			c17LayerOracle(op, k, data, cls, f, fail)
		}
	}
	// order axioms over every pair / triple of the endpoints this case produced
	n := len(eps)
	if n > 14 {
		n = 14
	}
	for i := 0; i < n; i++ {
		if eps[i].LessThan(eps[i]) {
			fail("C17:order-irreflexive", "%s < itself", c17E(eps[i]))
		}
		for j := 0; j < n; j++ {
			a, b := eps[i], eps[j]
			if c17B(a == b)+c17B(a.LessThan(b))+c17B(b.LessThan(a)) != 1 {
				fail("C17:order-trichotomy", "%s vs %s", c17E(a), c17E(b))
			}
			for k := 0; k < n; k++ {
				if a.LessThan(b) && b.LessThan(eps[k]) && !a.LessThan(eps[k]) {
					fail("C17:order-transitive", "%s < %s < %s but not first < last", c17E(a), c17E(b), c17E(eps[k]))
				}
			}
		}
	}
	for t := range tags {
		res.Tags = append(res.Tags, t)
	}
	return res
}

func c17Recover(f func()) (panicked bool) {
	defer func() {
		if r := recover(); r != nil {
			panicked = true
		}
	}()
	f()
	return false
}

// c17LayerOracle: the layer's flow carries exactly that layer's addresses; the packet with
// swapped address fields gives the reversed flow with equal FastHash; DecodeFromBytes agrees.
func c17LayerOracle(op string, k *c17Kind, data []byte, cls string, f gopacket.Flow, fail func(string, string, ...interface{})) {
	var directErr error
	haveDirect := false
	if k.dfb != nil {
		ok, err, df := c17DirectFlow(k, data)
		if ok {
			haveDirect, directErr = true, err
			if cls == "ok" && df != f {
				fail("C17:layer-direct-agrees", "%s: packet flow %s, DecodeFromBytes flow %s", op, c17F(f), c17F(df))
			}
			if cls != "ok" && err == nil && len(data) > 0 {
				fail("C17:layer-direct-agrees", "%s: DecodeFromBytes succeeded but the packet has no such layer (%s)", op, cls)
			}
		}
	}
	if cls != "ok" {
		return
	}
	// did the layer decode without error?  (for layers without DecodeFromBytes the layer is only added on success)
	decodedOK := !haveDirect || directErr == nil
	if f.EndpointType() != k.etype() {
		fail("C17:layer-addresses", "%s: flow type %s want %s", op, c17T(f.EndpointType()), c17T(k.etype()))
	}
	s, d := f.Endpoints()
	switch {
	case k.w > 0:
		if decodedOK {
			if len(data) < k.minHdr {
				fail("C17:layer-addresses", "%s: layer decoded from %d < %d bytes", op, len(data), k.minHdr)
				return
			}
			ws, wd := data[k.so:k.so+k.w], data[k.do:k.do+k.w]
			if !bytes.Equal(s.Raw(), ws) || !bytes.Equal(d.Raw(), wd) {
				fail("C17:layer-addresses", "%s: flow %s, header has src %x dst %x", op, c17F(f), ws, wd)
			}
		}
		// other direction
		sw := c17Swap(k, data)
		cls2, f2 := c17LayerFlow(k, sw)
		if cls2 != cls {
			fail("C17:layer-reverse", "%s: swapped-address packet gives class %s", op, cls2)
			return
		}
		if f2 != f.Reverse() {
			fail("C17:layer-reverse", "%s: swapped-address packet gives %s, want reverse of %s", op, c17F(f2), c17F(f))
		}
		if f2.FastHash() != f.FastHash() {
			fail("C17:layer-hash", "%s: two directions hash %x and %x", op, f.FastHash(), f2.FastHash())
		}
	case k.name == "sll":
		al := int(binary.BigEndian.Uint16(data[4:6]))
		want := data[6 : 6+al]
		if len(want) > 16 {
			want = want[:16]
		}
		if !bytes.Equal(s.Raw(), want) || len(d.Raw()) != 0 {
			fail("C17:layer-addresses", "%s: flow %s, header address %x", op, c17F(f), want)
		}
	case k.name == "sll2":
		al := int(data[11])
		want := data[12 : 12+al]
		if len(want) > 16 {
			want = want[:16]
		}
		if !bytes.Equal(s.Raw(), want) || len(d.Raw()) != 0 {
			fail("C17:layer-addresses", "%s: flow %s, header address %x", op, c17F(f), want)
		}
	case k.name == "ppp":
		if f != layers.PPPFlow {
			fail("C17:layer-addresses", "%s: PPP flow %s", op, c17F(f))
		}
	}
}

func c17FlowOf(d c17Decoder) (f gopacket.Flow) {
	switch l := d.(type) {
	case gopacket.LinkLayer:
		f = l.LinkFlow()
	case gopacket.NetworkLayer:
		f = l.NetworkFlow()
	case gopacket.TransportLayer:
		f = l.TransportFlow()
	}
	return
}

// c17Seq decodes the packets one after the other into ONE layer object and reports the flow
// after every decode.  Oracle (per step, independent of the model): when DecodeFromBytes
// returned nil the flow carries exactly the CURRENT packet's address bytes, and repeated calls
// of the accessor agree.
func c17Seq(op string, k *c17Kind, mode string, reuse bool, hexes []string, fail func(string, string, ...interface{})) (steps []string) {
	d := k.dfb()
	capture := make([]byte, 4096)
	for i, h := range hexes {
		pkt, _ := hex.DecodeString(h)
		var data []byte
		if reuse {
			data = capture[:copy(capture, pkt)]
		} else {
			data = append(make([]byte, 0, len(pkt)), pkt...)
		}
		calls := 1
		if len(mode) > 1+i && mode[1+i] >= '1' && mode[1+i] <= '9' {
			calls = int(mode[1+i] - '0')
		}
		var err error
		var f gopacket.Flow
		stage := "decode"
		if c17Recover(func() {
			err = d.DecodeFromBytes(data, gopacket.NilDecodeFeedback)
			stage = "flow"
			f = c17FlowOf(d)
			for c := 1; c < calls; c++ {
				if f2 := c17FlowOf(d); f2 != f {
					fail("C17:layer-accessor-stable", "%s: step %d: call %d of the flow accessor gives %s, first call %s", op, i, c+1, c17F(f2), c17F(f))
				}
			}
		}) {
			steps = append(steps, "panic")
			if stage == "flow" {
				fail("C17:layer-flow-panics", "%s: step %d: the flow accessor panicked", op, i)
			}
			continue
		}
		steps = append(steps, "ok:"+c17F(f))
		if err != nil {
			continue
		}
		// the layer decoded: its flow must carry the current header's addresses
		var ws, wd []byte
		switch {
		case k.w > 0:
			if len(pkt) < k.minHdr {
				fail("C17:layer-addresses", "%s: step %d: decoded from %d < %d bytes", op, i, len(pkt), k.minHdr)
				continue
			}
			ws, wd = pkt[k.so:k.so+k.w], pkt[k.do:k.do+k.w]
		case k.name == "sll":
			al := int(binary.BigEndian.Uint16(pkt[4:6]))
			if 6+al > len(pkt) {
				fail("C17:layer-addresses", "%s: step %d: address length %d beyond the data", op, i, al)
				continue
			}
			ws = pkt[6 : 6+al]
		case k.name == "sll2":
			al := int(pkt[11])
			if 12+al > len(pkt) {
				fail("C17:layer-addresses", "%s: step %d: address length %d beyond the data", op, i, al)
				continue
			}
			ws = pkt[12 : 12+al]
		}
		if len(ws) > 16 {
			ws = ws[:16]
		}
		sE, dE := f.Endpoints()
		if f.EndpointType() != k.etype() || !bytes.Equal(sE.Raw(), ws) || !bytes.Equal(dE.Raw(), wd) {
			fail("C17:layer-addresses", "%s: step %d (%s buffer): flow %s, current header has src %x dst %x", op, i, map[bool]string{true: "reused", false: "fresh"}[reuse], c17F(f), ws, wd)
		}
	}
	return
}

// c17Stack: flows of the link, network and transport layer of an eagerly decoded packet
func c17Stack(data []byte) (fl [3]*gopacket.Flow) {
	p := gopacket.NewPacket(data, layers.LayerTypeEthernet, gopacket.Default)
	if l := p.LinkLayer(); l != nil {
		f := l.LinkFlow()
		fl[0] = &f
	}
	if l := p.NetworkLayer(); l != nil {
		f := l.NetworkFlow()
		fl[1] = &f
	}
	if l := p.TransportLayer(); l != nil {
		f := l.TransportFlow()
		fl[2] = &f
	}
	return
}

// offsets of the address fields of an Ethernet / IPv4|IPv6 / TCP|UDP|SCTP packet, as far as
// they lie inside the data: {src, dst, width} per level, -1 when absent
func c17StackFields(d []byte) (f [3][3]int) {
	f = [3][3]int{{-1, -1, 0}, {-1, -1, 0}, {-1, -1, 0}}
	if len(d) < 14 {
		return
	}
	f[0] = [3]int{6, 0, 6}
	et := binary.BigEndian.Uint16(d[12:14])
	tr := -1
	switch et {
	case 0x0800:
		if len(d) >= 34 {
			f[1] = [3]int{26, 30, 4}
			tr = 14 + int(d[14]&0xf)*4
		}
	case 0x86dd:
		if len(d) >= 54 {
			f[1] = [3]int{22, 38, 16}
			tr = 54
		}
	}
	if tr >= 34 && len(d) >= tr+4 {
		f[2] = [3]int{tr, tr + 2, 2}
	}
	return
}

func c17StackReverse(d []byte) []byte {
	out := append([]byte(nil), d...)
	for _, f := range c17StackFields(d) {
		if f[0] >= 0 {
			copy(out[f[0]:f[0]+f[2]], d[f[1]:f[1]+f[2]])
			copy(out[f[1]:f[1]+f[2]], d[f[0]:f[0]+f[2]])
		}
	}
	return out
}

func c17StackOracle(op string, data []byte, fl [3]*gopacket.Flow, fail func(string, string, ...interface{})) {
	fields := c17StackFields(data)
	names := []string{"link", "network", "transport"}
	if len(data) >= 14 && fl[0] == nil {
		fail("C17:layer-addresses", "%s: no link layer for a %d byte Ethernet frame", op, len(data))
	}
	for i := 0; i < 3; i++ {
		if fl[i] == nil {
			continue
		}
		s, d := fl[i].Endpoints()
		if len(s.Raw()) == 0 && len(d.Raw()) == 0 && i > 0 {
			continue // layer object whose decoding failed before the addresses were assigned
		}
		f := fields[i]
		if f[0] < 0 {
			fail("C17:layer-addresses", "%s: %s flow %s but the header is not inside the data", op, names[i], c17F(*fl[i]))
			continue
		}
		if !bytes.Equal(s.Raw(), data[f[0]:f[0]+f[2]]) || !bytes.Equal(d.Raw(), data[f[1]:f[1]+f[2]]) {
			fail("C17:layer-addresses", "%s: %s flow %s, header has src %x dst %x", op, names[i], c17F(*fl[i]), data[f[0]:f[0]+f[2]], data[f[1]:f[1]+f[2]])
		}
	}
	// the other direction of the same conversation
	var fr [3]*gopacket.Flow
	if c17Recover(func() { fr = c17Stack(c17StackReverse(data)) }) {
		fail("C17:layer-flow-panics", "%s: reverse direction panicked", op)
		return
	}
	for i := 0; i < 3; i++ {
		if (fl[i] == nil) != (fr[i] == nil) {
			fail("C17:layer-reverse", "%s: %s layer present in one direction only", op, names[i])
			continue
		}
		if fl[i] == nil {
			continue
		}
		if *fr[i] != fl[i].Reverse() {
			fail("C17:layer-reverse", "%s: %s flow %s, other direction %s", op, names[i], c17F(*fl[i]), c17F(*fr[i]))
		}
		if fr[i].FastHash() != fl[i].FastHash() {
			fail("C17:layer-hash", "%s: %s flows of the two directions hash %x and %x", op, names[i], fl[i].FastHash(), fr[i].FastHash())
		}
	}
}

// rewrite a packet so that it lies in the modelled scope (EtherType IPv4/IPv6, protocol
// TCP/UDP/SCTP, no MPTCP option kind byte, no IPv6 extension headers)
func c17PkScope(d []byte) []byte {
	if len(d) < 14 {
		return d
	}
	et := binary.BigEndian.Uint16(d[12:14])
	if et != 0x0800 && et != 0x86dd {
		binary.BigEndian.PutUint16(d[12:14], 0x0800)
		et = 0x0800
	}
	pi, from := 23, 34
	if et == 0x86dd {
		pi, from = 20, 54
	}
	if len(d) > pi {
		if d[pi] != 6 && d[pi] != 17 && d[pi] != 132 {
			d[pi] = 17
		}
		if d[pi] == 6 {
			for i := from; i < len(d); i++ {
				if d[i] == 30 {
					d[i] = 31
				}
			}
		}
	}
	return d
}

func c17Packet(rng *rand.Rand) []byte {
	tk := []string{"tcp", "udp", "sctp"}[rng.Intn(3)]
	proto := map[string]byte{"tcp": 6, "udp": 17, "sctp": 132}[tk]
	tr := c17Header(rng, tk)
	var ip []byte
	et := uint16(0x0800)
	if rng.Intn(2) == 0 {
		ip = c17Header(rng, "ip4")
		hl := int(ip[0]&0xf) * 4
		ip = ip[:hl]
		ip[9] = proto
		tot := hl + len(tr)
		switch rng.Intn(8) {
		case 0:
			tot = 0 // TSO
		case 1:
			tot -= rng.Intn(len(tr) + 1) // trailing bytes beyond the IP length
		case 2:
			tot += 1 + rng.Intn(8) // truncated capture
		case 3:
			ip[6] |= 0x20 // more fragments
		case 4:
			ip[7] = byte(1 + rng.Intn(255)) // fragment offset
		}
		binary.BigEndian.PutUint16(ip[2:], uint16(tot))
	} else {
		et = 0x86dd
		ip = c17Header(rng, "ip6")[:40]
		ip[6] = proto
		pl := len(tr)
		switch rng.Intn(6) {
		case 0:
			pl = 0
		case 1:
			pl -= rng.Intn(len(tr) + 1)
		case 2:
			pl += 1 + rng.Intn(8)
		}
		binary.BigEndian.PutUint16(ip[4:], uint16(pl))
	}
	d := c17RandBytes(rng, 12)
	d = append(d, byte(et>>8), byte(et))
	d = append(d, ip...)
	d = append(d, tr...)
	return d
}

// ---------------------------------------------------------------- Gen

var c17Types = []int64{0, 1, 2, 3, 4, 5, 9, 1000, -1, -2, math.MinInt64, math.MaxInt64, 1 << 32, -(1 << 32)}

func c17RandBytes(rng *rand.Rand, n int) []byte {
	b := make([]byte, n)
	switch rng.Intn(4) {
	case 0: // small alphabet incl. zero: makes prefixes/equalities and trailing zeros likely
		for i := range b {
			b[i] = byte(rng.Intn(3))
		}
	case 1:
		for i := range b {
			b[i] = byte(rng.Intn(2) * 255)
		}
	default:
		rng.Read(b)
	}
	return b
}

func c17Ep(t int64, raw []byte) string {
	return "ep:" + strconv.FormatInt(t, 16) + "," + hex.EncodeToString(raw)
}
func c17Fl(t int64, s, d []byte) string {
	return "fl:" + strconv.FormatInt(t, 16) + "," + hex.EncodeToString(s) + "," + hex.EncodeToString(d)
}
func c17Lf(kind string, d []byte) string { return "lf:" + kind + "," + hex.EncodeToString(d) }

// a variation of raw: prefix, extension (also by zero bytes), one byte changed, equal
func c17Vary(rng *rand.Rand, raw []byte) []byte {
	out := append([]byte(nil), raw...)
	switch rng.Intn(7) {
	case 0:
		if len(out) > 0 {
			out = out[:rng.Intn(len(out))]
		}
	case 1:
		out = append(out, 0)
	case 2:
		out = append(out, c17RandBytes(rng, 1+rng.Intn(3))...)
	case 3:
		if len(out) > 0 {
			out[rng.Intn(len(out))] ^= byte(1 << uint(rng.Intn(8)))
		}
	case 4:
		if len(out) > 0 {
			out[len(out)-1] = 0
		}
	case 5:
		for len(out) > 0 && out[len(out)-1] == 0 {
			out = out[:len(out)-1]
		}
	}
	if len(out) > 18 {
		out = out[:18]
	}
	return out
}

func c17AllCmpE(n int) []string {
	var ops []string
	for i := 0; i < n; i++ {
		for j := 0; j < n; j++ {
			ops = append(ops, fmt.Sprintf("cmpe:%d,%d", i, j))
		}
	}
	return ops
}

// valid header of a table kind with the given addresses (src, dst of width k.w), no payload
func c17Header(rng *rand.Rand, kind string) []byte {
	switch kind {
	case "eth":
		d := c17RandBytes(rng, 14)
		binary.BigEndian.PutUint16(d[12:], []uint16{0x0800, 0x86dd, 0x0806, 0x1234, 0x0100}[rng.Intn(5)])
		return append(d, c17RandBytes(rng, rng.Intn(40))...)
	case "fddi":
		return c17RandBytes(rng, 13+rng.Intn(20))
	case "ip4":
		ihl := 5
		var opts []byte
		if rng.Intn(3) == 0 {
			opts = c17IP4Opts(rng)
			ihl = 5 + len(opts)/4
		}
		pl := rng.Intn(30)
		d := c17RandBytes(rng, 20)
		d[0] = 0x40 | byte(ihl)
		binary.BigEndian.PutUint16(d[2:], uint16(ihl*4+pl))
		d[6], d[7] = 0, 0
		d[9] = []byte{6, 17, 132, 1, 250}[rng.Intn(5)]
		d = append(d, opts...)
		return append(d, c17RandBytes(rng, pl)...)
	case "ip6":
		pl := 1 + rng.Intn(30)
		d := c17RandBytes(rng, 40)
		d[0] = 0x60
		binary.BigEndian.PutUint16(d[4:], uint16(pl))
		d[6] = []byte{6, 17, 132, 59, 250}[rng.Intn(5)]
		return append(d, c17RandBytes(rng, pl)...)
	case "tcp":
		var opts []byte
		if rng.Intn(3) == 0 {
			opts = c17TCPOpts(rng)
		}
		d := c17RandBytes(rng, 20)
		d[12] = byte((5+len(opts)/4)<<4) | (d[12] & 1)
		d = append(d, opts...)
		return append(d, c17RandBytes(rng, rng.Intn(30))...)
	case "udp":
		pl := rng.Intn(30)
		d := c17RandBytes(rng, 8)
		binary.BigEndian.PutUint16(d[4:], uint16(8+pl))
		// ports that do not select an application decoder
		return append(d, c17RandBytes(rng, pl)...)
	case "udplite":
		return c17RandBytes(rng, 8+rng.Intn(30))
	case "sctp":
		return c17RandBytes(rng, 12)
	case "rudp":
		d := c17RandBytes(rng, 18)
		d[0] &^= 0xa0 // neither SYN nor EACK
		extra := rng.Intn(4)
		switch rng.Intn(3) {
		case 0:
			d[0] |= 0x80
			extra = 3
		case 1:
			d[0] |= 0x20
			extra = 2 * rng.Intn(3)
		}
		d[1] = byte(9 + extra)
		pl := rng.Intn(20)
		binary.BigEndian.PutUint16(d[4:], uint16(pl))
		d = append(d, c17RandBytes(rng, 2*extra)...)
		return append(d, c17RandBytes(rng, pl)...)
	case "sll":
		d := c17RandBytes(rng, 16+rng.Intn(30))
		al := []int{0, 1, 6, 8, 8, 6, 10, 11, 16, 17, 20}[rng.Intn(11)]
		if al+6 > len(d) {
			al = len(d) - 6
		}
		binary.BigEndian.PutUint16(d[4:], uint16(al))
		return d
	case "sll2":
		d := c17RandBytes(rng, 20+rng.Intn(30))
		al := []int{0, 1, 6, 8, 8, 6, 9, 16, 17, 20}[rng.Intn(10)]
		if al+12 > len(d) {
			al = len(d) - 12
		}
		d[11] = byte(al)
		return d
	case "ppp":
		switch rng.Intn(4) {
		case 0:
			return append([]byte{0xff, 0x03, 0x00, 0x21}, c17RandBytes(rng, rng.Intn(10))...)
		case 1:
			return append([]byte{0x21}, c17RandBytes(rng, rng.Intn(10))...)
		case 2:
			return append([]byte{0xc0, 0x21}, c17RandBytes(rng, rng.Intn(10))...)
		}
		return c17RandBytes(rng, 1+rng.Intn(8))
	}
	return nil
}

func c17IP4Opts(rng *rand.Rand) []byte {
	var o []byte
	for n := rng.Intn(4); n >= 0; n-- {
		switch rng.Intn(4) {
		case 0:
			o = append(o, 1)
		case 1:
			l := 3 + rng.Intn(6)
			o = append(o, byte(2+rng.Intn(200)), byte(l))
			o = append(o, c17RandBytes(rng, l-2)...)
		case 2:
			o = append(o, 0)
		case 3: // possibly malformed length
			o = append(o, byte(2+rng.Intn(200)), byte(rng.Intn(12)))
			o = append(o, c17RandBytes(rng, rng.Intn(4))...)
		}
	}
	for len(o)%4 != 0 {
		o = append(o, byte(rng.Intn(2)))
	}
	if len(o) > 40 {
		o = o[:40]
	}
	return o
}

func c17TCPOpts(rng *rand.Rand) []byte {
	var o []byte
	for n := rng.Intn(4); n >= 0; n-- {
		switch rng.Intn(4) {
		case 0:
			o = append(o, 1)
		case 1:
			o = append(o, 2, 4, byte(rng.Intn(256)), byte(rng.Intn(256)))
		case 2:
			o = append(o, 0)
		case 3:
			kind := byte(rng.Intn(256))
			if kind == 30 {
				kind = 8
			}
			o = append(o, kind, byte(rng.Intn(8)))
			o = append(o, c17RandBytes(rng, rng.Intn(6))...)
		}
	}
	for len(o)%4 != 0 {
		o = append(o, 1)
	}
	if len(o) > 40 {
		o = o[:40]
	}
	for i := range o {
		if o[i] == 30 {
			o[i] = 31
		}
	}
	return o
}

func (c17) Gen(rng *rand.Rand, tier string) []Case {
	var out []Case
	add := func(ops ...string) { out = append(out, Case{Prop: "C17", Ops: ops}) }
	scale := 1
	if tier == "thorough" {
		scale = 12
	}
	// 1. every type x every length 0..18: construct, construct an equal copy, compare; flows likewise
	for rep := 0; rep < scale; rep++ {
		for _, t := range c17Types {
			for n := 0; n <= 18; n++ {
				raw := c17RandBytes(rng, n)
				add(c17Ep(t, raw), c17Ep(t, raw), "cmpe:0,1", "ffe:0,1", "eps:0", "cmpe:0,2", "rev:0", "cmpf:0,1")
				m := rng.Intn(19)
				add(c17Fl(t, raw, c17RandBytes(rng, m)), c17Fl(t, c17RandBytes(rng, m), raw), "rev:0", "cmpf:0,2", "cmpf:1,2", "eps:0", "src:1", "dst:1", "cmpe:0,3", "cmpe:1,2")
			}
		}
	}
	// 2. pairs: shared prefixes, unequal lengths, zero extension, equal bytes different type
	for i := 0; i < 500*scale; i++ {
		t1 := c17Types[rng.Intn(len(c17Types))]
		t2 := t1
		if rng.Intn(3) == 0 {
			t2 = c17Types[rng.Intn(len(c17Types))]
		}
		a := c17RandBytes(rng, rng.Intn(17))
		b := c17Vary(rng, a)
		if t1 != t2 && rng.Intn(2) == 0 {
			b = a
		}
		add(c17Ep(t1, a), c17Ep(t2, b), "cmpe:0,1", "cmpe:1,0", "ffe:0,1", "ffe:1,0", "cmpf:0,1", "rev:0", "cmpf:1,2", "eps:2", "cmpe:0,3", "cmpe:1,2")
	}
	// 3. triples from a dense pool: order axioms
	for i := 0; i < 250*scale; i++ {
		base := c17RandBytes(rng, rng.Intn(17))
		ts := []int64{c17Types[rng.Intn(len(c17Types))], c17Types[rng.Intn(len(c17Types))]}
		var ops []string
		n := 3 + rng.Intn(3)
		for j := 0; j < n; j++ {
			r := base
			for v := rng.Intn(3); v > 0; v-- {
				r = c17Vary(rng, r)
			}
			ops = append(ops, c17Ep(ts[rng.Intn(1+rng.Intn(2))], r))
		}
		ops = append(ops, c17AllCmpE(n)...)
		add(ops...)
	}
	// 4. chains
	for i := 0; i < 300*scale; i++ {
		var ops []string
		ne, nf := 0, 0
		t := c17Types[rng.Intn(len(c17Types))]
		base := c17RandBytes(rng, rng.Intn(17))
		for d := 5 + rng.Intn(25); d > 0; d-- {
			tt := t
			if rng.Intn(6) == 0 {
				tt = c17Types[rng.Intn(len(c17Types))]
			}
			switch r := rng.Intn(14); {
			case r < 2 || ne == 0 && r < 5:
				ops = append(ops, c17Ep(tt, c17Vary(rng, base)))
				ne++
			case r < 4:
				ops = append(ops, c17Fl(tt, c17Vary(rng, base), c17Vary(rng, base)))
				nf++
			case r < 6:
				ops = append(ops, fmt.Sprintf("ffe:%d,%d", rng.Intn(ne+1), rng.Intn(ne+1)))
				nf++ // may be an over-estimate (error / skip): indices beyond the end are skipped
			case r < 7:
				ops = append(ops, fmt.Sprintf("eps:%d", rng.Intn(nf+1)))
				ne += 2
			case r < 8:
				ops = append(ops, fmt.Sprintf("%s:%d", []string{"src", "dst"}[rng.Intn(2)], rng.Intn(nf+1)))
				ne++
			case r < 10:
				ops = append(ops, fmt.Sprintf("rev:%d", rng.Intn(nf+1)))
				nf++
			case r < 11:
				ops = append(ops, "inv")
				ne++
				nf++
			case r < 12:
				ops = append(ops, fmt.Sprintf("cmpe:%d,%d", rng.Intn(ne+1), rng.Intn(ne+1)))
			default:
				ops = append(ops, fmt.Sprintf("cmpf:%d,%d", rng.Intn(nf+1), rng.Intn(nf+1)))
			}
		}
		add(ops...)
	}
	// 5. rejection above 16
	for i := 0; i < 40*scale; i++ {
		t := c17Types[rng.Intn(len(c17Types))]
		big := c17RandBytes(rng, []int{17, 17, 18, 32, 255}[rng.Intn(5)])
		small := c17RandBytes(rng, rng.Intn(17))
		add(c17Ep(t, big), c17Fl(t, big, small), c17Fl(t, small, big), c17Fl(t, big, big), c17Ep(t, small), "cmpe:0,0", c17Fl(t, small, small[:len(small)/2]), "rev:0", "cmpf:0,1")
	}
	// 6. layer flow constructors
	for _, k := range c17Kinds {
		kind := k.name
		for i := 0; i < 60*scale; i++ {
			d := c17Scope(kind, c17Header(rng, kind))
			ops := []string{c17Lf(kind, d)}
			if k.w > 0 {
				sw := c17Swap(&k, d)
				ops = append(ops, c17Lf(kind, sw), "rev:0", "cmpf:1,2", "cmpf:0,1", "eps:0", "eps:1", "cmpe:0,3", "cmpe:1,2")
			} else {
				ops = append(ops, "eps:0", "rev:0", "cmpf:0,1")
			}
			add(ops...)
			// truncations and field mutations of the same packet
			switch rng.Intn(3) {
			case 0:
				cut := rng.Intn(len(d) + 1)
				if rng.Intn(2) == 0 && k.minHdr > 0 {
					cut = k.minHdr - 1 + rng.Intn(3)
					if cut > len(d) {
						cut = len(d)
					}
				}
				add(c17Lf(kind, c17Scope(kind, append([]byte(nil), d[:cut]...))), "rev:0", "cmpf:0,1")
			case 1:
				m := append([]byte(nil), d...)
				for x := 1 + rng.Intn(3); x > 0 && len(m) > 0; x-- {
					pos := rng.Intn(len(m))
					if rng.Intn(2) == 0 && len(m) > 12 {
						pos = rng.Intn(13) // header fields
					}
					m[pos] = []byte{0, 1, 0xff, 0x0f, 0xf0, byte(rng.Intn(256))}[rng.Intn(6)]
				}
				add(c17Lf(kind, c17Scope(kind, m)), "rev:0", "cmpf:0,1")
			case 2:
				add(c17Lf(kind, c17Scope(kind, c17RandBytes(rng, rng.Intn(64)))), "rev:0", "cmpf:0,1")
			}
		}
		// every short length
		for n := 0; n <= k.minHdr+1; n++ {
			add(c17Lf(kind, c17Scope(kind, c17RandBytes(rng, n))))
		}
	}
	// 7. whole packets Ethernet / IPv4|IPv6 / TCP|UDP|SCTP, both directions
	for i := 0; i < 300*scale; i++ {
		d := c17Packet(rng)
		switch rng.Intn(5) {
		case 0:
			d = d[:rng.Intn(len(d)+1)]
		case 1:
			for x := 1 + rng.Intn(3); x > 0; x-- {
				d[rng.Intn(len(d))] = []byte{0, 1, 0xff, 0x0f, 0xf0, byte(rng.Intn(256))}[rng.Intn(6)]
			}
		}
		d = c17PkScope(d)
		r := c17StackReverse(d)
		add("pk:"+hex.EncodeToString(d), "pk:"+hex.EncodeToString(r), "rev:0", "rev:1", "rev:2", "cmpf:0,3", "cmpf:1,4", "cmpf:2,5", "eps:2", "eps:5", "cmpe:0,3", "cmpe:1,2")
	}
	// 8. one layer object reused for 2-4 packets, fresh slices and one reused capture buffer
	for _, k := range c17Kinds {
		if k.dfb == nil {
			continue
		}
		kind := k.name
		for i := 0; i < 50*scale; i++ {
			n := 2 + rng.Intn(3)
			var pk [][]byte
			for j := 0; j < n; j++ {
				var d []byte
				switch r := rng.Intn(10); {
				case r < 5 || j == 0:
					d = c17Header(rng, kind) // another conversation
				case r < 7:
					d = c17Swap(&k, pk[j-1]) // the reply
				case r < 8:
					d = append([]byte(nil), pk[rng.Intn(j)]...) // the same conversation again
				case r < 9: // too short to decode: the object keeps its earlier fields
					d = c17Header(rng, kind)
					d = d[:rng.Intn(k.minHdr)]
				default:
					d = c17RandBytes(rng, rng.Intn(64))
				}
				pk = append(pk, c17Scope(kind, d))
			}
			modes := []string{"f", "r"}
			if i%5 == 0 {
				modes = []string{[]string{"f", "r"}[rng.Intn(2)]}
			}
			calls := ""
			for j := 0; j < n; j++ {
				calls += strconv.Itoa(1 + rng.Intn(2))
			}
			for _, m := range modes {
				o := "seq:" + kind + "," + m + calls
				for _, d := range pk {
					o += "," + hex.EncodeToString(d)
				}
				add(o)
			}
		}
	}
	// targeted: SLL address length wrap / beyond data, SLL2 beyond data
	for _, al := range []int{65535, 65530, 65529, 100, 40, 11, 10, 9} {
		d := c17RandBytes(rng, 16+rng.Intn(8))
		binary.BigEndian.PutUint16(d[4:], uint16(al))
		add(c17Lf("sll", d))
	}
	for _, al := range []int{255, 100, 21, 9, 8, 16, 17} {
		d := c17RandBytes(rng, 20+rng.Intn(14))
		d[11] = byte(al)
		add(c17Lf("sll2", d))
	}
	return out
}
