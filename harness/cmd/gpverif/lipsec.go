package main

// Lipsec: layers/ipsec.go decoder sub-check (C19, C05, C01 for IPSecAH and IPSecESP; neither has SerializeTo,
// so there are no ser/rt ops).  The first op of a case selects the layer: L:ah or L:esp; then dec / dec2.

import (
	"fmt"
	"math/rand"

	"github.com/gopacket/gopacket"
	"github.com/gopacket/gopacket/layers"
)

type lipsec struct{}

func init() { register("Lipsec", lipsec{}) }

var ahDesc = &lmDesc{
	id: "Lipsec", name: "IPSecAH",
	fresh: func() gopacket.Layer { return &layers.IPSecAH{} },
	decode: func(l gopacket.Layer, data []byte, fb gopacket.DecodeFeedback) error {
		return l.(*layers.IPSecAH).DecodeFromBytes(data, fb)
	},
	fields: func(l gopacket.Layer) string {
		a := l.(*layers.IPSecAH)
		return fmt.Sprintf("nh=%d;hl=%d;al=%d;rsv=%d;spi=%d;seq=%d;auth=%s", uint8(a.NextHeader), a.HeaderLength, a.ActualLength, a.Reserved, a.SPI, a.Seq, lnHex(a.AuthenticationData))
	},
	next: func(l gopacket.Layer, _ *lmBuilder) string {
		a := l.(*layers.IPSecAH)
		if a.NextLayerType() == a.NextHeader.LayerType() {
			return fmt.Sprint(uint8(a.NextHeader))
		}
		return fmt.Sprintf("other%d", a.NextLayerType())
	},
	tags: func(l gopacket.Layer, cls string, data []byte) []string {
		var t []string
		if cls == "err" && len(data) >= 12 {
			t = append(t, "error-after-fields-set")
			if data[1] == 0 {
				t = append(t, "header-length-zero")
			}
		}
		if cls == "ok" && len(l.(*layers.IPSecAH).AuthenticationData) == 0 {
			t = append(t, "empty-auth-data")
		}
		return t
	},
}

var espDesc = &lmDesc{
	id: "Lipsec", name: "IPSecESP",
	fresh: func() gopacket.Layer { return &layers.IPSecESP{} },
	decode: func(l gopacket.Layer, data []byte, fb gopacket.DecodeFeedback) error {
		return l.(*layers.IPSecESP).DecodeFromBytes(data, fb)
	},
	fields: func(l gopacket.Layer) string {
		e := l.(*layers.IPSecESP)
		return fmt.Sprintf("spi=%d;seq=%d;enc=%s", e.SPI, e.Seq, lnHex(e.Encrypted))
	},
	next: func(l gopacket.Layer, _ *lmBuilder) string {
		if t := l.(*layers.IPSecESP).NextLayerType(); t != gopacket.LayerTypePayload {
			return fmt.Sprintf("other%d", t)
		}
		return "payload"
	},
}

func (lipsec) Run(c Case) Result {
	switch c.Ops[0] {
	case "L:ah":
		return lmRun(ahDesc, Case{Prop: c.Prop, Ops: c.Ops[1:]})
	case "L:esp":
		r := lmRun(espDesc, Case{Prop: c.Prop, Ops: c.Ops[1:]})
		r.Tags = append(r.Tags, "esp")
		return r
	}
	panic("Lipsec: first op must be L:ah or L:esp")
}

func ahBuild(rng *rand.Rand, hl, present int, payload []byte) []byte {
	if present < 0 {
		present = 0
	}
	h := make([]byte, 12)
	h[0] = byte(lnPick(rng, 6, 17, 4, 41, 50, 0, 255, rng.Intn(256)))
	h[1] = byte(hl)
	lmPut16(h[2:], lnPick(rng, 0, 0, 65535, rng.Intn(65536)))
	lmPut32(h[4:], uint32(lnPick(rng, 0, 1, 0x7fffffff, rng.Int())))
	lmPut32(h[8:], rng.Uint32())
	h = append(h, lnRandBytes(rng, present)...)
	return append(h, payload...)
}

func (lipsec) Gen(rng *rand.Rand, tier string) []Case {
	ga := lmGenCfg{
		valid: func(rng *rand.Rand) []byte {
			hl := lnPick(rng, 1, 4, 4, 4, 2, 0, 7, 255, rng.Intn(16))
			return ahBuild(rng, hl, (hl+2)*4-12+lnPick(rng, 0, 0, 0, -1, 3), lnRandBytes(rng, lnPick(rng, 0, 1, 20)))
		},
		hdrLen:  func(p []byte) int { if len(p) < 2 { return len(p) }; return (int(p[1]) + 2) * 4 },
		residue: func(rng *rand.Rand) []byte { return ahBuild(rng, 4, 12, []byte{1, 2, 3}) },
		seeds:   lmIPSeeds(51),
		extra: func(rng *rand.Rand, add func(ops ...string)) {
			// header length 0,1,2,max and the bytes present one less / exact / one more than it announces
			for _, hl := range []int{0, 1, 2, 3, 4, 127, 254, 255} {
				al := (hl + 2) * 4
				for _, n := range []int{12, al - 1, al, al + 1} {
					if n < 12 {
						continue
					}
					p := ahBuild(rng, hl, n-12, nil)
					add("tag:length-extreme", "dec:"+lnHex(p))
					add("tag:length-extreme", "dec2:"+lnHex(ahBuild(rng, 4, 12, []byte{9}))+","+lnHex(p))
				}
			}
		},
	}
	ge := lmGenCfg{
		valid: func(rng *rand.Rand) []byte {
			h := make([]byte, 8)
			lmPut32(h, uint32(lnPick(rng, 0, 1, 0x7fffffff, rng.Int())))
			lmPut32(h[4:], rng.Uint32())
			return append(h, lnRandBytes(rng, lnPick(rng, 0, 1, 16, 33))...)
		},
		hdrLen: func(p []byte) int { return 8 },
		seeds:  lmIPSeeds(50),
		n:      40,
	}
	var out []Case
	for _, c := range lmGen(ahDesc, ga, rng, tier) {
		out = append(out, Case{Prop: "Lipsec", Ops: append([]string{"L:ah"}, c.Ops...)})
	}
	for _, c := range lmGen(espDesc, ge, rng, tier) {
		out = append(out, Case{Prop: "Lipsec", Ops: append([]string{"L:esp"}, c.Ops...)})
	}
	return out
}
