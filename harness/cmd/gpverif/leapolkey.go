package main

// Leapolkey: EAPOL-Key frame codec of layers/eapol.go (C19, C05, C06, C07, C01 for EAPOLKey).
// Ops: dec dec2 ser rt (lmisc_common.go) plus new:/rtn: with <spec> =
//   kdt.ver.kt.ki.<8 flag bits: install ack mic secure micerr request enc smk>.klen.rc.nonce.iv.rsc.id.mic.kdl.ekd
// (rc, rsc, id in hex; nonce, iv, mic, ekd hex or -).

import (
	"fmt"
	"math/rand"
	"strings"

	"github.com/gopacket/gopacket"
	"github.com/gopacket/gopacket/layers"
)

type leapolkey struct{}

func init() { register("Leapolkey", leapolkey{}) }

func ekFlags(k *layers.EAPOLKey) string {
	return lnB(k.Install) + lnB(k.KeyACK) + lnB(k.KeyMIC) + lnB(k.Secure) + lnB(k.MICError) + lnB(k.Request) + lnB(k.HasEncryptedKeyData) + lnB(k.SMKMessage)
}

func ekHexOrDash(s string) []byte {
	if s == "-" {
		return nil
	}
	return lnUnhex(s)
}

var leapolkeyDesc = &lmDesc{
	id: "Leapolkey", name: "EAPOLKey", ser: true,
	fresh: func() gopacket.Layer { return &layers.EAPOLKey{} },
	decode: func(l gopacket.Layer, data []byte, fb gopacket.DecodeFeedback) error {
		return l.(*layers.EAPOLKey).DecodeFromBytes(data, fb)
	},
	fields: func(l gopacket.Layer) string {
		k := l.(*layers.EAPOLKey)
		return fmt.Sprintf("kdt=%d;ver=%d;kt=%d;ki=%d;fl=%s;klen=%d;rc=%x;nonce=%s;iv=%s;rsc=%x;id=%x;mic=%s;kdl=%d;ekd=%s", uint8(k.KeyDescriptorType), uint8(k.KeyDescriptorVersion),
			uint8(k.KeyType), k.KeyIndex, ekFlags(k), k.KeyLength, k.ReplayCounter, lnHex(k.Nonce), lnHex(k.IV), k.RSC, k.ID, lnHex(k.MIC), k.KeyDataLength, lnHex(k.EncryptedKeyData))
	},
	next: func(l gopacket.Layer, _ *lmBuilder) string {
		switch t := l.(*layers.EAPOLKey).NextLayerType(); t {
		case layers.LayerTypeDot11InformationElement:
			return "dot11ie"
		case gopacket.LayerTypePayload:
			return "payload"
		default:
			return fmt.Sprintf("other%d", t)
		}
	},
	fromSpec: func(spec string) gopacket.Layer {
		f := strings.Split(spec, ".")
		fl := f[4]
		return &layers.EAPOLKey{KeyDescriptorType: layers.EAPOLKeyDescriptorType(lnAtoi(f[0])), KeyDescriptorVersion: layers.EAPOLKeyDescriptorVersion(lnAtoi(f[1])),
			KeyType: layers.EAPOLKeyType(lnAtoi(f[2])), KeyIndex: uint8(lnAtoi(f[3])), Install: fl[0] == '1', KeyACK: fl[1] == '1', KeyMIC: fl[2] == '1', Secure: fl[3] == '1',
			MICError: fl[4] == '1', Request: fl[5] == '1', HasEncryptedKeyData: fl[6] == '1', SMKMessage: fl[7] == '1', KeyLength: uint16(lnAtoi(f[5])), ReplayCounter: apU64(f[6]),
			Nonce: ekHexOrDash(f[7]), IV: ekHexOrDash(f[8]), RSC: apU64(f[9]), ID: apU64(f[10]), MIC: ekHexOrDash(f[11]), KeyDataLength: uint16(lnAtoi(f[12])), EncryptedKeyData: ekHexOrDash(f[13])}
	},
	// C06 hypothesis: 3-bit version, 1-bit key type, 2-bit key index; 32-octet nonce, 16-octet IV and MIC; encrypted key data of exactly
	// KeyDataLength octets, or no EncryptedKeyData and a payload of at least KeyDataLength octets (unencrypted key data is the payload)
	inDomain: func(l gopacket.Layer, payload []byte) bool {
		k := l.(*layers.EAPOLKey)
		if k.KeyDescriptorVersion > 7 || k.KeyType > 1 || k.KeyIndex > 3 || len(k.Nonce) != 32 || len(k.IV) != 16 || len(k.MIC) != 16 {
			return false
		}
		if k.HasEncryptedKeyData {
			return int(k.KeyDataLength) == len(k.EncryptedKeyData)
		}
		return len(k.EncryptedKeyData) == 0 && int(k.KeyDataLength) <= len(payload)
	},
	extra: func(l gopacket.Layer) []func() {
		k := l.(*layers.EAPOLKey)
		return []func(){func() { _ = k.KeyDescriptorType.String(); _ = k.KeyDescriptorVersion.String(); _ = k.KeyType.String(); _ = k.CanDecode() }}
	},
	tags: func(l gopacket.Layer, cls string, data []byte) []string {
		k := l.(*layers.EAPOLKey)
		var t []string
		if cls == "ok" && k.HasEncryptedKeyData && len(k.EncryptedKeyData) > 0 {
			t = append(t, "encrypted-key-data")
		}
		if cls == "ok" && !k.HasEncryptedKeyData && k.KeyDataLength > 0 {
			t = append(t, "plain-key-data")
		}
		if cls == "err" && len(data) >= 95 {
			t = append(t, "error-after-fields-set")
		}
		return t
	},
}

func (leapolkey) Run(c Case) Result { return lmRun(leapolkeyDesc, c) }

// ekBuild: key information word, key data length field = kd + delta, kd key data octets, trailing octets
func ekBuild(rng *rand.Rand, info int, kd int, delta int, trail int) []byte {
	h := lnRandBytes(rng, 95)
	h[0] = byte(lnPick(rng, 2, 254, 1, 0))
	lmPut16(h[1:], info)
	v := kd + delta
	if v < 0 {
		v = 0
	}
	lmPut16(h[93:], v)
	h = append(h, lnRandBytes(rng, kd)...)
	return append(h, lnRandBytes(rng, trail)...)
}

func (leapolkey) Gen(rng *rand.Rand, tier string) []Case {
	infos := []int{0x008a, 0x010a, 0x13ca, 0x030a, 0x1382, 0x0000, 0xffff, 0x1000, 0x2008, 0xc000}
	valid := func(rng *rand.Rand) []byte {
		return ekBuild(rng, infos[rng.Intn(len(infos))], lnPick(rng, 0, 0, 6, 22, 56), lnPick(rng, 0, 0, 0, 0, 1, -1), lnPick(rng, 0, 0, 0, 4))
	}
	hexn := func(n int) string {
		if n == 0 {
			return "-"
		}
		return lnHex(lnRandBytes(rng, n))
	}
	u64 := func() string {
		return fmt.Sprintf("%x", []uint64{0, 1, 1 << 32, 1<<63 - 1, 1<<64 - 1, rng.Uint64()}[rng.Intn(6)])
	}
	g := lmGenCfg{
		valid:   valid,
		hdrLen:  func(p []byte) int { if len(p) > 97 { return 97 }; return len(p) },
		residue: func(rng *rand.Rand) []byte { return ekBuild(rng, 0x13ca, 24, 0, 3) },
		spec: func(rng *rand.Rand) string {
			enc := rng.Intn(2)
			ekd := lnPick(rng, 0, 0, 1, 16, 40)
			kdl := ekd
			if rng.Intn(4) == 0 {
				kdl = lnPick(rng, 0, 1, ekd+1, 65535)
			}
			return fmt.Sprintf("%d.%d.%d.%d.%d%d%d%d%d%d%d%d.%d.%s.%s.%s.%s.%s.%s.%d.%s", lnPick(rng, 2, 254, 0, 255), lnPick(rng, 1, 2, 3, 7, 8, 255), lnPick(rng, 0, 1, 1, 2, 255),
				lnPick(rng, 0, 1, 3, 4, 255), rng.Intn(2), rng.Intn(2), rng.Intn(2), rng.Intn(2), rng.Intn(2), rng.Intn(2), enc, rng.Intn(2), lnPick(rng, 0, 16, 32, 65535), u64(),
				hexn(lnPick(rng, 32, 32, 32, 0, 31, 33)), hexn(lnPick(rng, 16, 16, 16, 0, 15, 17)), u64(), u64(), hexn(lnPick(rng, 16, 16, 16, 0, 1, 20)), kdl, hexn(ekd))
		},
		seeds: ekSeeds(),
		extra: func(rng *rand.Rand, add func(ops ...string)) {
			res := func() string { return lnHex(ekBuild(rng, 0x13ca, 24, 0, 3)) }
			// every bit of the key information word alone, all set, none set; with and without key data
			for _, kd := range []int{0, 10} {
				for b := -2; b < 16; b++ {
					info := 0
					switch {
					case b == -2:
						info = 0xffff
					case b >= 0:
						info = 1 << b
					}
					p := ekBuild(rng, info, kd, 0, 0)
					add("tag:info-every-bit", "dec:"+lnHex(p))
					add("tag:info-every-bit", "dec2:"+res()+","+lnHex(p))
					add("tag:info-every-bit", "rt:"+lnHex(p)+","+lnHex(lnRandBytes(rng, 12)))
				}
			}
			// key data length 0, 1, right, off by one, 65535 against the octets present, encrypted and not
			for _, info := range []int{0x13ca, 0x008a} {
				for _, kd := range []int{0, 1, 16} {
					for _, lf := range []int{0, 1, kd - 1, kd, kd + 1, kd + 5, 255, 256, 65535} {
						if lf < 0 {
							continue
						}
						p := ekBuild(rng, info, kd, 0, 0)
						lmPut16(p[93:], lf)
						add("tag:key-data-length-extreme", "dec:"+lnHex(p))
						add("tag:key-data-length-extreme", "dec2:"+res()+","+lnHex(p))
						add("tag:key-data-length-extreme", "ser:"+lnHex(p)+",111,4500")
					}
				}
			}
			// stale key data: encrypted then plain / none
			for i := 0; i < 20; i++ {
				add("tag:residue-key-data", "dec2:"+res()+","+lnHex(ekBuild(rng, 0x008a, lnPick(rng, 0, 6, 22), 0, 0)))
				add("tag:residue-key-data", "dec2:"+res()+","+lnHex(ekBuild(rng, 0x13ca, 0, 0, 0)))
			}
			// lengths around the 95-octet frame
			for k := 92; k <= 98; k++ {
				add("tag:length-extreme", "dec:"+lnHex(lnRandBytes(rng, k)))
				add("tag:length-extreme", "dec2:"+res()+","+lnHex(lnRandBytes(rng, k)))
			}
			// each 64-bit field at its extremes
			for _, off := range []int{5, 61, 69} {
				for _, v := range []byte{0x00, 0xff, 0x80} {
					p := ekBuild(rng, 0x008a, 0, 0, 0)
					for i := 0; i < 8; i++ {
						p[off+i] = v
					}
					add("tag:field-byte-extreme", "dec:"+lnHex(p))
					add("tag:field-byte-extreme", "rt:"+lnHex(p)+",")
				}
			}
		},
	}
	return lmGen(leapolkeyDesc, g, rng, tier)
}

// ekSeeds: the EAPOL-Key bodies (EAPOL type 3, behind the 4-octet EAPOL header) of the EAPOL frames in the test files,
// directly over Ethernet or behind LLC/SNAP
func ekSeeds() [][]byte {
	var out [][]byte
	for _, s := range append(lnEthSeeds(0x888e), lsSnapSeeds(0x888e)...) {
		if len(s) > 4 && s[1] == 3 {
			out = append(out, s[4:])
		}
	}
	for _, s := range lnSeeds() { // packets that start at the EAPOL header
		if len(s) >= 99 && s[0] >= 1 && s[0] <= 3 && s[1] == 3 && 4+(int(s[2])<<8|int(s[3])) == len(s) {
			out = append(out, s[4:])
		}
	}
	return out
}
