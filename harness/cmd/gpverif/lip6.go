package main

// Lip6: IPv6 fixed header incl. jumbograms, hop-by-hop and destination-options extension headers
// with their TLV options (layers/ip6.go).  One sub-check serving C19, C05, C06, C07, C01.
//
// kinds: ip6 hbh dst
// ops:
//   dec:<k>,<hex>                     DecodeFromBytes into a fresh object, render, flow
//   dec2:<k>,<hexA>,<hexB>            decode A then B into the same object
//   ser:<k>,<hex>,<fcd>,<payload>     decode (may fail: residue), SerializeTo over payload
//   rt:<k>,<hex>,<payload>            decode, serialize with fix+csum, decode again
//   nser:<k>,<fcd>,<payload>,<fields> SerializeTo of a value built from public fields
//   nrt:<k>,<payload>,<fields>        round trip of a value built from public fields
//   nlt:<p>                           IPProtocol(p).LayerType()
//   seq:<d>,<spec>+<spec>+...         stacks written one after the other with gopacket.SerializeLayers /
//                                     SerializePacket (FixLengths+ComputeChecksums) into ONE reused buffer (mode d):
//        P<hex>                 SerializePacket of NewPacket(hex) (a hop-by-hop header is a layer of its own there)
//        L<ip6 fields>^<payload>   SerializeLayers(ip6, Payload): the hop-by-hop header only as IPv6.HopByHop
//        H<ip6 fields>^<payload>   SerializeLayers(ip6, ip6.HopByHop, Payload): the header also as its own layer
// <payload> = hex or *<n>x<hexbyte>.
// <fields>: ext  next!hlen!alen!opts   with opts = type~olen~alen~datahex~ax~ay|...
//           ip6  ver.tc.flow.len.nh.hop.srchex.dsthex.<ext fields or ->

import (
	"fmt"
	"math/rand"
	"net"
	"strings"

	"github.com/gopacket/gopacket"
	"github.com/gopacket/gopacket/layers"
)

type lip6 struct{}

func init() { register("Lip6", lip6{}) }

type lip6Obj struct {
	k   string
	ip  *layers.IPv6
	hbh *layers.IPv6HopByHop
	dst *layers.IPv6Destination
}

func lip6New(k string) *lip6Obj {
	o := &lip6Obj{k: k}
	switch k {
	case "ip6":
		o.ip = &layers.IPv6{}
	case "hbh":
		o.hbh = &layers.IPv6HopByHop{}
	case "dst":
		o.dst = &layers.IPv6Destination{}
	default:
		panic("bad kind " + k)
	}
	return o
}

func (o *lip6Obj) decode(data []byte, df gopacket.DecodeFeedback) error {
	switch o.k {
	case "ip6":
		return o.ip.DecodeFromBytes(data, df)
	case "hbh":
		return o.hbh.DecodeFromBytes(data, df)
	}
	return o.dst.DecodeFromBytes(data, df)
}

func (o *lip6Obj) serializable() gopacket.SerializableLayer {
	switch o.k {
	case "ip6":
		return o.ip
	case "hbh":
		return o.hbh
	}
	return o.dst
}

func (o *lip6Obj) layer() gopacket.Layer {
	switch o.k {
	case "ip6":
		return o.ip
	case "hbh":
		return o.hbh
	}
	return o.dst
}

type lip6Tlv struct {
	t, ol  uint8
	al     int
	d      []byte
	ax, ay uint8
}

func lip6TlvStr(ts []lip6Tlv) string {
	var parts []string
	for _, t := range ts {
		parts = append(parts, fmt.Sprintf("%d~%d~%d~%s~%d~%d", t.t, t.ol, t.al, n6hex(t.d), t.ax, t.ay))
	}
	return strings.Join(parts, "|")
}

func lip6HbhTlvs(h *layers.IPv6HopByHop) []lip6Tlv {
	var ts []lip6Tlv
	for _, p := range h.Options {
		ts = append(ts, lip6Tlv{p.OptionType, p.OptionLength, p.ActualLength, p.OptionData, p.OptionAlignment[0], p.OptionAlignment[1]})
	}
	return ts
}

func lip6DstTlvs(h *layers.IPv6Destination) []lip6Tlv {
	var ts []lip6Tlv
	for _, p := range h.Options {
		ts = append(ts, lip6Tlv{p.OptionType, p.OptionLength, p.ActualLength, p.OptionData, p.OptionAlignment[0], p.OptionAlignment[1]})
	}
	return ts
}

// non-padding options as type~data (what C06 compares)
func lip6Nonpad(ts []lip6Tlv) string {
	var parts []string
	for _, t := range ts {
		if t.t != 0 && t.t != 1 {
			parts = append(parts, fmt.Sprintf("%d~%s", t.t, n6hex(t.d)))
		}
	}
	return strings.Join(parts, "|")
}

func lip6HbhState(h *layers.IPv6HopByHop, sep string) string {
	return fmt.Sprintf("next=%d%shlen=%d%salen=%d%sopts=%s%sc=%s%sp=%s", uint8(h.NextHeader), sep, h.HeaderLength, sep, h.ActualLength, sep,
		lip6TlvStr(lip6HbhTlvs(h)), sep, n6big(h.Contents), sep, n6big(h.Payload))
}

func (o *lip6Obj) state() string {
	switch o.k {
	case "hbh":
		return lip6HbhState(o.hbh, ";")
	case "dst":
		h := o.dst
		return fmt.Sprintf("next=%d;hlen=%d;alen=%d;opts=%s;c=%s;p=%s", uint8(h.NextHeader), h.HeaderLength, h.ActualLength,
			lip6TlvStr(lip6DstTlvs(h)), n6big(h.Contents), n6big(h.Payload))
	}
	ip := o.ip
	hs := "-"
	if ip.HopByHop != nil {
		hs = lip6HbhState(ip.HopByHop, "!")
	}
	return fmt.Sprintf("ver=%d;tc=%d;flow=%d;len=%d;nh=%d;hop=%d;src=%s;dst=%s;hbh=%s;c=%s;p=%s;next=%d", ip.Version, ip.TrafficClass,
		ip.FlowLabel, ip.Length, uint8(ip.NextHeader), ip.HopLimit, n6hex(ip.SrcIP), n6hex(ip.DstIP), hs, n6big(ip.Contents), n6big(ip.Payload),
		int(ip.NextLayerType()))
}

// c06: the fields the round trip must preserve (padding options, ActualLength and alignment
// requests are not carried by the wire format)
func (o *lip6Obj) c06() string {
	switch o.k {
	case "hbh":
		return fmt.Sprintf("next=%d;hlen=%d;opts=%s", uint8(o.hbh.NextHeader), o.hbh.HeaderLength, lip6Nonpad(lip6HbhTlvs(o.hbh)))
	case "dst":
		return fmt.Sprintf("next=%d;hlen=%d;opts=%s", uint8(o.dst.NextHeader), o.dst.HeaderLength, lip6Nonpad(lip6DstTlvs(o.dst)))
	}
	ip := o.ip
	hs := "-"
	if ip.HopByHop != nil {
		hs = fmt.Sprintf("next=%d!hlen=%d!opts=%s", uint8(ip.HopByHop.NextHeader), ip.HopByHop.HeaderLength, lip6Nonpad(lip6HbhTlvs(ip.HopByHop)))
	}
	return fmt.Sprintf("ver=%d;tc=%d;flow=%d;len=%d;nh=%d;hop=%d;src=%s;dst=%s;hbh=%s", ip.Version, ip.TrafficClass, ip.FlowLabel, ip.Length,
		uint8(ip.NextHeader), ip.HopLimit, n6hex(ip.SrcIP), n6hex(ip.DstIP), hs)
}

func (o *lip6Obj) payload() []byte {
	switch o.k {
	case "hbh":
		return o.hbh.Payload
	case "dst":
		return o.dst.Payload
	}
	return o.ip.Payload
}

// render: LayerString, LayerDump, LayerGoString, NetworkFlow
func (o *lip6Obj) render() string {
	r := n6layerRender(o.layer())
	fl := "ok"
	if o.k == "ip6" {
		fl = n6render(func() { _ = o.ip.NetworkFlow() })
	}
	return "render=" + strings.Join(append(r, fl), ",")
}

func lip6ParseTlvs(s string) []lip6Tlv {
	var ts []lip6Tlv
	if s == "" {
		return ts
	}
	for _, p := range strings.Split(s, "|") {
		f := strings.Split(p, "~")
		t := lip6Tlv{t: uint8(n6atoi(f[0])), ol: uint8(n6atoi(f[1])), al: n6atoi(f[2]), ax: uint8(n6atoi(f[4])), ay: uint8(n6atoi(f[5]))}
		if f[3] != "" {
			t.d = n6unhex(f[3])
		}
		ts = append(ts, t)
	}
	return ts
}

func lip6BuildHbh(fields string) *layers.IPv6HopByHop {
	f := strings.Split(fields, "!")
	h := &layers.IPv6HopByHop{}
	h.NextHeader = layers.IPProtocol(n6atoi(f[0]))
	h.HeaderLength = uint8(n6atoi(f[1]))
	h.ActualLength = n6atoi(f[2])
	for _, t := range lip6ParseTlvs(f[3]) {
		h.Options = append(h.Options, &layers.IPv6HopByHopOption{OptionType: t.t, OptionLength: t.ol, ActualLength: t.al, OptionData: t.d, OptionAlignment: [2]uint8{t.ax, t.ay}})
	}
	return h
}

func lip6Build(k, fields string) *lip6Obj {
	o := lip6New(k)
	switch k {
	case "hbh":
		o.hbh = lip6BuildHbh(fields)
	case "dst":
		f := strings.Split(fields, "!")
		h := o.dst
		h.NextHeader = layers.IPProtocol(n6atoi(f[0]))
		h.HeaderLength = uint8(n6atoi(f[1]))
		h.ActualLength = n6atoi(f[2])
		for _, t := range lip6ParseTlvs(f[3]) {
			h.Options = append(h.Options, &layers.IPv6DestinationOption{OptionType: t.t, OptionLength: t.ol, ActualLength: t.al, OptionData: t.d, OptionAlignment: [2]uint8{t.ax, t.ay}})
		}
	case "ip6":
		f := strings.SplitN(fields, ".", 9)
		ip := o.ip
		ip.Version, ip.TrafficClass, ip.FlowLabel = uint8(n6atoi(f[0])), uint8(n6atoi(f[1])), uint32(n6atoi(f[2]))
		ip.Length, ip.NextHeader, ip.HopLimit = uint16(n6atoi(f[3])), layers.IPProtocol(n6atoi(f[4])), uint8(n6atoi(f[5]))
		if f[6] != "" {
			ip.SrcIP = net.IP(n6unhex(f[6]))
		}
		if f[7] != "" {
			ip.DstIP = net.IP(n6unhex(f[7]))
		}
		if f[8] != "-" {
			ip.HopByHop = lip6BuildHbh(f[8])
		}
	}
	return o
}

// ---------------------------------------------------------------- Run

func (lip6) Run(c Case) Result {
	var res Result
	tags := map[string]bool{}
	for _, op := range c.Ops {
		name, a := n6args(op)
		if lip6xRun(name, a, op, &res, tags) {
			continue
		}
		switch name {
		case "seq":
			lip6Seq(a, &res, tags)
		case "nlt":
			res.Obs = append(res.Obs, fmt.Sprintf("lt=%d", int(layers.IPProtocol(n6atoi(a[0])).LayerType())))
			tags["dispatch-table"] = true
		case "dec":
			k, data := a[0], n6unhex(a[1])
			o := lip6New(k)
			df := &n6fb{}
			cls := n6decode(func() error { return o.decode(data, df) })
			rend := o.render()
			res.Obs = append(res.Obs, fmt.Sprintf("cls=%s;trunc=%d;%s;%s", cls, n6b2i(df.t), o.state(), rend))
			if cls == "panic" || cls == "stuck" {
				res.Oracle = append(res.Oracle, n6oracle("C19:"+cls, "%s DecodeFromBytes: %s on %s", k, cls, a[1]))
			}
			if strings.Contains(rend, "panic") {
				res.Oracle = append(res.Oracle, n6oracle("C01:render", "%s renderer panics after decoding %s (%s)", k, a[1], rend))
			}
			if cls == "err" && df.t {
				tags["truncated-prefix-of-valid"] = true
			}
			if cls == "err" {
				if (k == "ip6" && o.ip.HopByHop != nil) || (k == "hbh" && len(o.hbh.Options) > 0) || (k == "dst" && len(o.dst.Options) > 0) {
					tags["error-after-add"] = true
				}
			}
			lip6DataTags(k, data, tags)
		case "dec2":
			k, da, db := a[0], n6unhex(a[1]), n6unhex(a[2])
			o := lip6New(k)
			clsA := n6decode(func() error { return o.decode(da, &n6fb{}) })
			if (k == "ip6" && o.ip.HopByHop != nil) || (k == "hbh" && len(o.hbh.Options) > 0) || (k == "dst" && len(o.dst.Options) > 0) {
				tags["residue-options"] = true
			}
			df := &n6fb{}
			cls := n6decode(func() error { return o.decode(db, df) })
			rend := o.render()
			res.Obs = append(res.Obs, fmt.Sprintf("cls=%s;trunc=%d;%s;%s", cls, n6b2i(df.t), o.state(), rend))
			fo := lip6New(k)
			fdf := &n6fb{}
			fcls := n6decode(func() error { return fo.decode(n6clip(db), fdf) })
			if cls != fcls || df.t != fdf.t || (fcls == "ok" && o.state() != fo.state()) {
				res.Oracle = append(res.Oracle, n6oracle("C05:stale", "%s after %s (%s): reused %s;%s fresh %s;%s", k, a[1], clsA, cls, o.state(), fcls, fo.state()))
			}
			if cls == "panic" || cls == "stuck" {
				res.Oracle = append(res.Oracle, n6oracle("C19:"+cls, "%s DecodeFromBytes: %s on %s after %s", k, cls, a[2], a[1]))
			}
			if strings.Contains(rend, "panic") {
				res.Oracle = append(res.Oracle, n6oracle("C01:render", "%s renderer panics after decoding %s then %s", k, a[1], a[2]))
			}
		case "ser", "nser":
			var k, fcd string
			var payload []byte
			var mk func() *lip6Obj
			if name == "ser" {
				k, fcd, payload = a[0], a[2], n6payload(a[3])
				data := n6unhex(a[1])
				mk = func() *lip6Obj {
					o := lip6New(k)
					n6decode(func() error { return o.decode(n6clip(data), &n6fb{}) })
					return o
				}
				if n6decode(func() error { return lip6New(k).decode(n6clip(data), &n6fb{}) }) != "ok" {
					tags["error-residue"] = true
				}
			} else {
				k, fcd, payload = a[0], a[1], n6payload(a[2])
				mk = func() *lip6Obj { return lip6Build(k, a[3]) }
			}
			fix, csum, mode := n6flags(fcd)
			o := mk()
			cls, out := n6serialize(o.serializable(), payload, fix, csum, mode)
			res.Obs = append(res.Obs, fmt.Sprintf("cls=%s;out=%s;%s", cls, n6big(out), o.state()))
			if cls == "panic" {
				res.Oracle = append(res.Oracle, n6oracle("C07:panic", "%s SerializeTo panics: %s", k, op[:min(len(op), 300)]))
			}
			for m := 0; m < 3; m++ {
				o2 := mk()
				cls2, out2 := n6serialize(o2.serializable(), payload, fix, csum, m)
				if cls2 != cls || string(out2) != string(out) {
					res.Oracle = append(res.Oracle, n6oracle("C07:junk-dependence", "%s buffer mode %d gives %s %s, mode %d gives %s %s", k, mode, cls, n6big(out), m, cls2, n6big(out2)))
					break
				}
				cls3, out3 := n6serialize(o2.serializable(), payload, fix, csum, m)
				if cls3 != cls2 || string(out3) != string(out2) {
					res.Oracle = append(res.Oracle, n6oracle("C07:repeat", "%s second SerializeTo gives %s %s, first %s %s", k, cls3, n6big(out3), cls2, n6big(out2)))
					break
				}
			}
			if mode == 1 {
				tags["dirty-buffer"] = true
			}
			if !fix {
				tags["no-fixlengths"] = true
			}
			if len(payload)%2 == 1 {
				tags["odd-payload"] = true
			}
			if len(payload) > 65535 {
				tags["jumbo"] = true
			}
			if cls == "ok" && len(out) > len(payload) {
				hl := len(out) - len(payload)
				if k == "ip6" {
					hl -= 40
				}
				if hl > 0 {
					tags[fmt.Sprintf("pad-residue")] = true
				}
			}
		case "rt", "nrt":
			var k string
			var payload []byte
			var o *lip6Obj
			first := "ok"
			if name == "rt" {
				k, payload = a[0], n6payload(a[2])
				o = lip6New(k)
				first = n6decode(func() error { return o.decode(n6unhex(a[1]), &n6fb{}) })
			} else {
				k, payload = a[0], n6payload(a[1])
				o = lip6Build(k, a[2])
			}
			scls, out := n6serialize(o.serializable(), payload, true, true, 0)
			o2 := lip6New(k)
			df2 := &n6fb{}
			cls2 := "err"
			if scls == "ok" {
				cls2 = n6decode(func() error { return o2.decode(n6clip(out), df2) })
			}
			rend := o2.render()
			res.Obs = append(res.Obs, fmt.Sprintf("scls=%s;cls=%s;trunc=%d;%s;%s", scls, cls2, n6b2i(df2.t), o2.state(), rend))
			if scls == "panic" {
				res.Oracle = append(res.Oracle, n6oracle("C07:panic", "%s SerializeTo panics: %s", k, op[:min(len(op), 300)]))
			}
			// oracle C06: decoded without error (rt) or built in range (nrt): serialization must succeed ...
			if first == "ok" && scls == "err" {
				res.Oracle = append(res.Oracle, n6oracle("C06:serialize-error", "%s SerializeTo with FixLengths fails on a decoded / in-range value (payload %d octets)", k, len(payload)))
			}
			// ... and the decoder must give the value back
			if first == "ok" && scls == "ok" {
				jumbo := k == "ip6" && len(payload) > 65535
				if k == "ip6" && len(payload) == 0 && o.ip.HopByHop == nil && cls2 == "err" {
					// known finding: Length 0 without a hop-by-hop header is rejected (0 is reserved for jumbograms)
					res.Oracle = append(res.Oracle, n6oracle("C06:zero-length-rejected", "ip6 without payload and hop-by-hop header wrote %s, which its decoder rejects", n6big(out)))
				} else if cls2 != "ok" || df2.t || o2.c06() != o.c06() {
					res.Oracle = append(res.Oracle, n6oracle("C06:roundtrip", "%s wrote %s; got %s trunc=%d %s; want %s", k, n6big(out), cls2, n6b2i(df2.t), o2.c06(), o.c06()))
				} else if string(o2.payload()) != string(payload) {
					clause := "C06:roundtrip"
					if jumbo {
						clause = "C06:jumbo-payload"
					}
					res.Oracle = append(res.Oracle, n6oracle(clause, "%s payload after the round trip is %s, written %s", k, n6big(o2.payload()), n6big(payload)))
				} else {
					cls3, out3 := n6serialize(o2.serializable(), payload, true, true, 0)
					if cls3 != "ok" || string(out3) != string(out) {
						res.Oracle = append(res.Oracle, n6oracle("C06:fixpoint", "%s re-serializing the decoded layer gives %s %s, first %s", k, cls3, n6big(out3), n6big(out)))
					}
				}
				if jumbo {
					tags["jumbo"] = true
				}
			}
			if len(payload)%2 == 1 {
				tags["odd-payload"] = true
			}
			if scls == "ok" {
				tags["pad-residue"] = true
			}
		default:
			panic("Lip6: unknown op " + op)
		}
	}
	res.Tags = n6tagset(tags)
	return res
}

// lip6Seq: packets written into one reused buffer; every output goes through the round-trip oracle.
func lip6Seq(a []string, res *Result, tags map[string]bool) {
	mode := n6atoi(a[0])
	buf := n6buffer(mode, nil)
	opts := gopacket.SerializeOptions{FixLengths: true, ComputeChecksums: true}
	var obs []string
	tags["reused-buffer-layers"] = true
	for i, spec := range strings.Split(a[1], "+") {
		var ip *layers.IPv6
		var stack []gopacket.SerializableLayer
		var wantPayload []byte
		switch spec[0] {
		case 'P':
			p := gopacket.NewPacket(n6unhex(spec[1:]), layers.LayerTypeIPv6, gopacket.Default)
			if p.ErrorLayer() != nil {
				obs = append(obs, "x")
				continue
			}
			for _, l := range p.Layers() {
				sl, ok := l.(gopacket.SerializableLayer)
				if !ok {
					stack = nil
					break
				}
				stack = append(stack, sl)
			}
			ip, _ = p.Layer(layers.LayerTypeIPv6).(*layers.IPv6)
			if ip == nil || stack == nil {
				obs = append(obs, "x")
				continue
			}
			wantPayload = append([]byte(nil), ip.Payload...)
		case 'L', 'H':
			f, pl, _ := strings.Cut(spec[1:], "^")
			payload := n6payload(pl)
			ip = lip6Build("ip6", f).ip
			stack = []gopacket.SerializableLayer{ip}
			if spec[0] == 'H' && ip.HopByHop != nil {
				stack = append(stack, ip.HopByHop)
			}
			stack = append(stack, gopacket.Payload(payload))
			wantPayload = payload
		default:
			panic("Lip6 seq spec " + spec)
		}
		cls := n6call(func() error { return gopacket.SerializeLayers(buf, opts, stack...) })
		var out []byte
		if cls == "ok" {
			out = n6clip(buf.Bytes())
		}
		obs = append(obs, cls+":"+n6big(out))
		if cls == "panic" {
			res.Oracle = append(res.Oracle, n6oracle("C07:panic", "packet %d of a sequence on a reused buffer: SerializeLayers panics (%s)", i, spec[:min(len(spec), 120)]))
		}
		if cls != "ok" {
			continue
		}
		// C06 on every packet of the sequence: the bytes decode to the layer as FixLengths left it
		o := &lip6Obj{k: "ip6", ip: ip}
		o2 := lip6New("ip6")
		df := &n6fb{}
		cls2 := n6decode(func() error { return o2.decode(n6clip(out), df) })
		jumbo := len(wantPayload) > 65535
		if cls2 != "ok" || df.t || o2.c06() != o.c06() {
			res.Oracle = append(res.Oracle, n6oracle("C06:roundtrip", "packet %d (%c) of a sequence on a reused buffer wrote %s; got %s trunc=%d %s; want %s", i, spec[0], n6big(out), cls2, n6b2i(df.t), o2.c06(), o.c06()))
		} else if string(o2.payload()) != string(wantPayload) {
			clause := "C06:roundtrip"
			if jumbo {
				clause = "C06:jumbo-payload"
			}
			res.Oracle = append(res.Oracle, n6oracle(clause, "ip6 packet %d of a sequence: payload after the round trip is %s, written %s", i, n6big(o2.payload()), n6big(wantPayload)))
		}
		if jumbo {
			tags["jumbo"] = true
		}
	}
	res.Obs = append(res.Obs, "seq="+strings.Join(obs, "#"))
}

func lip6DataTags(k string, data []byte, tags map[string]bool) {
	off := 0
	if k == "ip6" {
		if len(data) < 42 || data[6] != 0 {
			return
		}
		off = 40
	}
	if len(data) < off+2 {
		return
	}
	al := int(data[off+1])*8 + 8
	if off+al > len(data) || data[off+1] == 255 {
		tags["option-length-extreme"] = true
		return
	}
	n := 0
	for i := off + 2; i < off+al; {
		if data[i] == 0 {
			i++
			continue
		}
		if i+1 >= len(data) || i+2+int(data[i+1]) > off+al {
			tags["option-length-extreme"] = true
			return
		}
		i += 2 + int(data[i+1])
		n++
	}
	if n >= 2 {
		tags["multi-option"] = true
	}
}

// ---------------------------------------------------------------- generators

// one TLV option on the wire
func lip6WireOpt(rng *rand.Rand) []byte {
	switch rng.Intn(8) {
	case 0:
		return []byte{0} // Pad1
	case 1:
		n := rng.Intn(6)
		return append([]byte{1, byte(n)}, make([]byte, n)...) // PadN
	}
	n := n6pick(rng, 0, 1, 2, 2, 4, 4, 6, 11)
	t := byte(n6pick(rng, 5, 5, 7, 0x1e, 0x3e, 0x63, 0x8b, 0xc2, 2+rng.Intn(250)))
	if t == 0xc2 && rng.Intn(3) > 0 {
		n = 4
	}
	return append([]byte{t, byte(n)}, n6randBytes(rng, n)...)
}

// a valid extension header: options padded to a multiple of 8
func lip6ValidExt(rng *rand.Rand, nopts int, next byte) []byte {
	b := []byte{next, 0}
	for i := 0; i < nopts; i++ {
		b = append(b, lip6WireOpt(rng)...)
	}
	for len(b)%8 != 0 {
		pad := 8 - len(b)%8
		if pad == 1 || rng.Intn(4) == 0 {
			b = append(b, 0)
		} else {
			b = append(b, 1, byte(pad-2))
			b = append(b, make([]byte, pad-2)...)
		}
	}
	b[1] = byte(len(b)/8 - 1)
	return b
}

func lip6FixedHeader(rng *rand.Rand, nh byte, plen int) []byte {
	b := n6randBytes(rng, 40)
	b[0] = 0x60 | b[0]&0x0f
	b[4], b[5] = byte(plen>>8), byte(plen)
	b[6] = nh
	return b
}

// a valid IPv6 packet: header, optional hop-by-hop header, payload
func lip6ValidPacket(rng *rand.Rand, withHbh bool, nopts int, plen int) []byte {
	nh := byte(n6pick(rng, 6, 17, 58, 59, 43, 44, 60, 47, 41, 4, rng.Intn(256)))
	if nh == 0 {
		nh = 59
	}
	var ext []byte
	if withHbh {
		ext = lip6ValidExt(rng, nopts, nh)
		// no jumbo option in an ordinary packet
		for i := 2; i < len(ext); {
			if ext[i] == 0 {
				i++
				continue
			}
			if ext[i] == 0xc2 {
				ext[i] = 0x3e
			}
			i += 2 + int(ext[i+1])
		}
		nh = 0
	}
	b := lip6FixedHeader(rng, nh, len(ext)+plen)
	b = append(b, ext...)
	return append(b, n6randBytes(rng, plen)...)
}

func lip6RandTlvFields(rng *rand.Rand, inRange bool) string {
	t := n6pick(rng, 5, 7, 0x1e, 0xc2, 0x63, 2+rng.Intn(250))
	dl := n6pick(rng, 0, 1, 2, 4, 4, 6, 8, 13)
	ol, al, ax, ay := dl, dl+2, 0, 0
	if rng.Intn(3) == 0 {
		ax = n6pick(rng, 2, 4, 8, 8, 4)
		ay = rng.Intn(ax)
	}
	if !inRange {
		switch rng.Intn(6) {
		case 0:
			t = n6pick(rng, 0, 1) // padding types built by hand
		case 1:
			ol = n6pick(rng, 0, dl+1, dl+3, 255) // OptionLength not matching the data
		case 2:
			dl = n6pick(rng, 255, 256, 300)
			ol = dl % 256
		case 3:
			ax, ay = n6pick(rng, 1, 3, 8, 255), n6pick(rng, 0, 7, 9, 255)
		case 4:
			al = rng.Intn(10)
		}
	}
	return fmt.Sprintf("%d~%d~%d~%s~%d~%d", t, ol, al, n6hex(n6randBytes(rng, dl)), ax, ay)
}

func lip6ExtFields(rng *rand.Rand, nopts int, inRange bool) string {
	var os []string
	for i := 0; i < nopts; i++ {
		f := lip6RandTlvFields(rng, inRange)
		if inRange && strings.HasPrefix(f, "194~") { // a jumbo option belongs to jumbograms only
			f = "30" + f[3:]
		}
		os = append(os, f)
	}
	nh := n6pick(rng, 6, 17, 58, 59, 60)
	return fmt.Sprintf("%d!%d!%d!%s", nh, rng.Intn(4), rng.Intn(40), strings.Join(os, "|"))
}

func lip6Ip6Fields(rng *rand.Rand, hbh string, inRange bool) string {
	sl, dl := 16, 16
	flow := rng.Intn(1 << 20)
	ver := 6
	if !inRange {
		sl, dl = n6pick(rng, 0, 4, 16, 16, 17), n6pick(rng, 0, 16, 16, 20)
		flow = int(rng.Uint32())
		ver = rng.Intn(256)
	}
	nh := n6pick(rng, 6, 17, 58, 59)
	if hbh != "-" && (inRange || rng.Intn(2) == 0) {
		nh = 0
	}
	return fmt.Sprintf("%d.%d.%d.%d.%d.%d.%s.%s.%s", ver, rng.Intn(256), flow, rng.Intn(65536), nh, rng.Intn(256),
		n6hex(n6randBytes(rng, sl)), n6hex(n6randBytes(rng, dl)), hbh)
}

func lip6Payload(rng *rand.Rand) string {
	return n6hex(n6randBytes(rng, n6pick(rng, 0, 0, 1, 2, 3, 8, 21, 64, 65, 1451)))
}

func (lip6) Gen(rng *rand.Rand, tier string) []Case {
	var out []Case
	add := func(ops ...string) { out = append(out, Case{Prop: "Lip6", Ops: ops}) }
	scale := 1
	if tier == "thorough" {
		scale = 10
	}
	// the dispatch table: all 256 protocol numbers
	for p := 0; p < 256; p += 16 {
		var ops []string
		for q := p; q < p+16; q++ {
			ops = append(ops, fmt.Sprintf("nlt:%d", q))
		}
		add(ops...)
	}
	// seeds: the IPv6 layers (and their extension headers) of the test-suite's packet literals
	seeds := n6seedLayers(layers.LayerTypeIPv6)
	for i, b := range seeds {
		add("dec:ip6," + n6hex(b))
		add(fmt.Sprintf("rt:ip6,%s,%s", n6hex(b), n6hex(b[min(len(b), 40):])))
		if i < 12*scale {
			for cut := 0; cut <= min(len(b), 80); cut++ {
				add("dec:ip6," + n6hex(b[:cut]))
			}
			for _, pos := range []int{4, 5, 6, 40, 41, 42, 43} {
				if pos < len(b) {
					for _, v := range []byte{0, 1, 255, b[pos] + 1, b[pos] - 1} {
						m := append([]byte(nil), b...)
						m[pos] = v
						add("dec:ip6," + n6hex(m))
					}
				}
			}
		}
	}
	for _, lt := range []gopacket.LayerType{layers.LayerTypeIPv6HopByHop, layers.LayerTypeIPv6Destination} {
		for _, b := range n6seedLayers(lt) {
			for _, k := range []string{"hbh", "dst"} {
				add(fmt.Sprintf("dec:%s,%s", k, n6hex(b)))
				add(fmt.Sprintf("rt:%s,%s,", k, n6hex(b)))
				for cut := 0; cut < min(len(b), 40); cut++ {
					add(fmt.Sprintf("dec:%s,%s", k, n6hex(b[:cut])))
				}
			}
		}
	}
	// extension headers built by the harness
	for _, k := range []string{"hbh", "dst"} {
		for rep := 0; rep < 3*scale; rep++ {
			for nopts := 0; nopts <= 5; nopts++ {
				b := lip6ValidExt(rng, nopts, byte(n6pick(rng, 6, 17, 58, 59, 60)))
				withPl := append(append([]byte(nil), b...), n6randBytes(rng, n6pick(rng, 0, 0, 1, 9))...)
				add(fmt.Sprintf("dec:%s,%s", k, n6hex(withPl)))
				add(fmt.Sprintf("rt:%s,%s,%s", k, n6hex(withPl), lip6Payload(rng)))
				if rep == 0 {
					for cut := 0; cut < len(b); cut++ {
						add(fmt.Sprintf("dec:%s,%s", k, n6hex(b[:cut])))
					}
				}
				// header length and every option length forced to 0, 1, max, off by one
				for _, v := range []int{0, 1, 255, int(b[1]) + 1, int(b[1]) - 1} {
					m := append([]byte(nil), withPl...)
					m[1] = byte(v)
					add(fmt.Sprintf("dec:%s,%s", k, n6hex(m)))
				}
				for i := 2; i < len(b); {
					if b[i] == 0 {
						i++
						continue
					}
					l := int(b[i+1])
					for _, v := range []int{0, 1, 255, l + 1, l - 1, len(b) - i - 2, len(b) - i - 1} {
						m := append([]byte(nil), withPl...)
						m[i+1] = byte(v)
						add(fmt.Sprintf("dec:%s,%s", k, n6hex(m)))
						if rng.Intn(5) == 0 {
							add(fmt.Sprintf("ser:%s,%s,%d%d%d,%s", k, n6hex(m), rng.Intn(2), rng.Intn(2), rng.Intn(3), lip6Payload(rng)))
						}
					}
					i += 2 + l
				}
				for _, fcd := range []string{"000", "110", "111", "102", "011"} {
					add(fmt.Sprintf("ser:%s,%s,%s,%s", k, n6hex(withPl), fcd, lip6Payload(rng)))
				}
			}
		}
	}
	// IPv6 packets built by the harness
	for rep := 0; rep < 4*scale; rep++ {
		for nopts := -1; nopts <= 4; nopts++ {
			plen := n6pick(rng, 0, 1, 8, 20, 33, 100)
			b := lip6ValidPacket(rng, nopts >= 0, max(nopts, 0), plen)
			add("dec:ip6," + n6hex(b))
			add(fmt.Sprintf("rt:ip6,%s,%s", n6hex(b), lip6Payload(rng)))
			add("dec:ip6," + n6hex(append(append([]byte(nil), b...), 0xee, 0xee, 0xee, 0xee, 0xee, 0xee, 0xee, 0xee, 0xee))) // trailer
			if rep == 0 {
				for cut := 0; cut < len(b); cut++ {
					add("dec:ip6," + n6hex(b[:cut]))
				}
			}
			// length field and next header to the extremes and around the bounds the code checks
			hl := len(b) - 40 - plen
			for _, v := range []int{0, 1, 65535, len(b) - 40, len(b) - 39, len(b) - 41, hl, hl - 1, hl + 1} {
				if v < 0 {
					continue
				}
				m := append([]byte(nil), b...)
				m[4], m[5] = byte(v>>8), byte(v)
				add("dec:ip6," + n6hex(m))
			}
			for _, fcd := range []string{"000", "110", "111", "102", "011"} {
				add(fmt.Sprintf("ser:ip6,%s,%s,%s", n6hex(b), fcd, lip6Payload(rng)))
			}
		}
	}
	// jumbograms: length 0 + jumbo option; wrong combinations
	jumboHbh := func(l uint32, optlen byte) []byte {
		return []byte{59, 0, 0xc2, optlen, byte(l >> 24), byte(l >> 16), byte(l >> 8), byte(l)}
	}
	for _, tc := range []struct {
		length int
		jl     uint32
		ol     byte
		plen   int
	}{{0, 70000, 4, 16}, {0, 65536, 4, 16}, {0, 65535, 4, 16}, {0, 8, 4, 0}, {24, 70000, 4, 16}, {0, 70000, 3, 16}, {0, 70000, 2, 16}, {0, 70000, 0, 16}, {0, 0xffffffff, 4, 3}} {
		b := append(lip6FixedHeader(rng, 0, tc.length), jumboHbh(tc.jl, tc.ol)...)
		b = append(b, n6randBytes(rng, tc.plen)...)
		add("dec:ip6," + n6hex(b))
		add(fmt.Sprintf("ser:ip6,%s,111,%s", n6hex(b), lip6Payload(rng)))
		add(fmt.Sprintf("ser:ip6,%s,111,*65536xab", n6hex(b))) // residue or decoded jumbo option over a jumbo payload
		add(fmt.Sprintf("ser:ip6,%s,001,*65536xab", n6hex(b)))
	}
	// the jumbo option VALUE swept over the bounds the decoder compares and slices with, for IPv6 Length
	// zero / nonzero, with no payload bytes, a few, and a real jumbo-sized payload
	for _, plen := range []int{0, 16, 65600} {
		avail := uint32(8 + plen)
		for _, v := range []uint32{0, 1, 7, 8, 9, 65535, 65536, 65537, avail - 1, avail, avail + 1, 0xffffffff} {
			for _, length := range []int{0, 24} {
				b := append(lip6FixedHeader(rng, 0, length), jumboHbh(v, 4)...)
				if plen == 65600 {
					b = append(b, make([]byte, plen)...)
				} else {
					b = append(b, n6randBytes(rng, plen)...)
				}
				add("dec:ip6," + n6hex(b))
				if plen != 65600 {
					add(fmt.Sprintf("dec2:ip6,%s,%s", n6hex(lip6ValidPacket(rng, true, 2, 9)), n6hex(b)))
				}
			}
		}
	}
	for _, v := range []uint32{0, 8, 16, 17, 65535, 65536, 70000} { // the jumbo option behind padding / another option, 16-octet header
		for _, length := range []int{0, 16} {
			b := lip6FixedHeader(rng, 0, length)
			b = append(b, 59, 1, 1, 0, 0xc2, 4, byte(v>>24), byte(v>>16), byte(v>>8), byte(v), 5, 2, 0, 0, 0, 0)
			add("dec:ip6," + n6hex(append(b, n6randBytes(rng, 5)...)))
			add("dec:ip6," + n6hex(b))
		}
	}
	// reuse: a packet with a hop-by-hop header of 8/16/24 octets first, then plain packets (and ones whose
	// hop-by-hop decode fails) with every small payload length around that header length, with the announced
	// bytes present, missing, or with a trailer
	for _, hl := range []int{0, 1, 2} {
		first := lip6FixedHeader(rng, 0, hl*8+8+5)
		ext := append([]byte{59, byte(hl)}, make([]byte, hl*8+6)...)
		for i := 2; i < len(ext); i += 2 + 4 { // PadN options of 6 octets, then whatever fits
			if len(ext)-i >= 6 {
				ext[i], ext[i+1] = 1, 4
			} else if len(ext)-i >= 2 {
				ext[i], ext[i+1] = 1, byte(len(ext)-i-2)
				break
			}
		}
		first = append(append(first, ext...), 1, 2, 3, 4, 5)
		al := hl*8 + 8
		for _, length := range []int{0, 1, 2, al - 4, al - 1, al, al + 1, al + 8, 100} {
			for _, have := range []int{length, length / 2, length + 3} {
				second := append(lip6FixedHeader(rng, byte(n6pick(rng, 59, 6, 17)), length), n6randBytes(rng, have)...)
				add(fmt.Sprintf("dec2:ip6,%s,%s", n6hex(first), n6hex(second)))
			}
		}
		// second packet announces a hop-by-hop header that does not decode (too long / cut): the embedded header is touched, the field is not
		bad := append(lip6FixedHeader(rng, 0, 30), 59, 9, 0, 0)
		add(fmt.Sprintf("dec2:ip6,%s,%s", n6hex(first), n6hex(bad)))
		add(fmt.Sprintf("dec2:ip6,%s,%s", n6hex(bad), n6hex(append(lip6FixedHeader(rng, 59, 3), 1, 2, 3))))
		add(fmt.Sprintf("dec2:ip6,%s,%s", n6hex(append(lip6FixedHeader(rng, 59, 3), 1, 2, 3)), n6hex(first)))
	}
	{ // a real jumbogram, whole and cut
		b := append(lip6FixedHeader(rng, 0, 0), jumboHbh(70008, 4)...)
		full := append(append([]byte(nil), b...), make([]byte, 70000)...)
		add("dec:ip6," + n6hex(full))
		add("dec:ip6," + n6hex(full[:60000]))
		add("dec:ip6," + n6hex(append(append([]byte(nil), full...), 1, 2, 3)))
	}
	hdr := lip6ValidPacket(rng, false, 0, 0)
	hdrH := lip6ValidPacket(rng, true, 2, 0)
	for _, pl := range []string{"*65535x00", "*65536xfe", "*65528x01", "*70001xab"} {
		add(fmt.Sprintf("rt:ip6,%s,%s", n6hex(hdr), pl))
		add(fmt.Sprintf("rt:ip6,%s,%s", n6hex(hdrH), pl))
		add(fmt.Sprintf("ser:ip6,%s,001,%s", n6hex(hdr), pl))
		add(fmt.Sprintf("ser:ip6,%s,011,%s", n6hex(hdrH), pl))
	}
	// a hop-by-hop header of 256 octets or more in a jumbogram
	{
		var os []string
		for i := 0; i < 20; i++ {
			os = append(os, fmt.Sprintf("30~13~15~%s~0~0", n6hex(n6randBytes(rng, 13))))
		}
		add(fmt.Sprintf("nrt:ip6,*65600x5a,%s", lip6Ip6Fields(rng, "17!0!0!"+strings.Join(os, "|"), true)))
	}
	// reuse
	for _, k := range []string{"ip6", "hbh", "dst"} {
		for rep := 0; rep < 8*scale; rep++ {
			mk := func(nopts int) []byte {
				if k == "ip6" {
					return lip6ValidPacket(rng, nopts >= 0, max(nopts, 0), rng.Intn(20))
				}
				return append(lip6ValidExt(rng, max(nopts, 0), 59), n6randBytes(rng, rng.Intn(9))...)
			}
			a := mk(2 + rng.Intn(3))
			var b []byte
			switch rep % 8 {
			case 0:
				b = mk(-1)
			case 1:
				b = mk(0)
			case 2:
				b = mk(1)
			case 3:
				b = mk(3)
				b = b[:len(b)-1-rng.Intn(min(len(b)-1, 12))]
			case 4:
				b = mk(1)
				b = b[:rng.Intn(min(len(b), 41))]
			case 5:
				b = mk(2)
				if k == "ip6" {
					b[41] = 200 // hop-by-hop header longer than the packet
				} else {
					b[1] = 200
				}
			case 6:
				m3 := mk(3)
				b, a = a, m3[:min(len(m3), 47)]
			case 7:
				b = mk(2)
				if k == "ip6" {
					b[4], b[5] = 0, 0 // length 0 without jumbo option: error after the hop-by-hop layer was attached
				}
			}
			add(fmt.Sprintf("dec2:%s,%s,%s", k, n6hex(a), n6hex(b)))
		}
	}
	// values built from public fields
	for rep := 0; rep < 10*scale; rep++ {
		for _, k := range []string{"hbh", "dst"} {
			add(fmt.Sprintf("nrt:%s,%s,%s", k, lip6Payload(rng), lip6ExtFields(rng, rng.Intn(5), true)))
			add(fmt.Sprintf("nser:%s,%d%d%d,%s,%s", k, rng.Intn(2), rng.Intn(2), rng.Intn(3), lip6Payload(rng), lip6ExtFields(rng, rng.Intn(5), rng.Intn(2) == 0)))
			add(fmt.Sprintf("nser:%s,0%d1,%s,%s", k, rng.Intn(2), lip6Payload(rng), lip6ExtFields(rng, 1+rng.Intn(3), false)))
		}
		hb := "-"
		if rep%2 == 1 {
			hb = lip6ExtFields(rng, rng.Intn(4), true)
		}
		add(fmt.Sprintf("nrt:ip6,%s,%s", lip6Payload(rng), lip6Ip6Fields(rng, hb, true)))
		hb2 := "-"
		if rng.Intn(2) == 0 {
			hb2 = lip6ExtFields(rng, rng.Intn(4), rng.Intn(2) == 0)
		}
		add(fmt.Sprintf("nser:ip6,%d%d%d,%s,%s", rng.Intn(2), rng.Intn(2), rng.Intn(3), lip6Payload(rng), lip6Ip6Fields(rng, hb2, rng.Intn(2) == 0)))
	}
	// every pad residue: one option of data length 0..13 alone and behind an aligned option
	for dl := 0; dl <= 13; dl++ {
		for _, k := range []string{"hbh", "dst"} {
			add(fmt.Sprintf("nrt:%s,,59!0!0!5~%d~%d~%s~0~0", k, dl, dl+2, n6hex(n6randBytes(rng, dl))))
			add(fmt.Sprintf("nrt:%s,01,59!0!0!5~%d~%d~%s~0~0|7~4~6~01020304~8~%d", k, dl, dl+2, n6hex(n6randBytes(rng, dl)), dl%8))
		}
		add(fmt.Sprintf("nrt:ip6,,%s", lip6Ip6Fields(rng, fmt.Sprintf("59!0!0!5~%d~%d~%s~4~%d", dl, dl+2, n6hex(n6randBytes(rng, dl)), dl%4), true)))
	}
	// malformed stream
	for i := 0; i < 200*scale; i++ {
		k := []string{"ip6", "hbh", "dst"}[rng.Intn(3)]
		var b []byte
		if k == "ip6" {
			b = lip6FixedHeader(rng, byte(n6pick(rng, 0, 0, 0, 59, 6)), rng.Intn(80))
			b = append(b, n6randBytes(rng, rng.Intn(60))...)
			if len(b) > 41 && rng.Intn(2) == 0 {
				b[41] = byte(rng.Intn(4))
			}
		} else {
			b = n6randBytes(rng, rng.Intn(50))
			if len(b) > 1 {
				b[1] = byte(rng.Intn(5))
			}
		}
		add(fmt.Sprintf("dec:%s,%s", k, n6hex(b)))
		if i%3 == 0 {
			add(fmt.Sprintf("ser:%s,%s,%d%d%d,%s", k, n6hex(b), rng.Intn(2), rng.Intn(2), rng.Intn(3), lip6Payload(rng)))
		}
	}
	// sequences of stacks on one reused SerializeBuffer: decoded stacks (hop-by-hop header as a layer of
	// its own), built IPv6 with the header as a field only, both, FixLengths jumbograms; every order
	{
		addr := "fe800000000000000000000000000001.fe800000000000000000000000000002"
		mkL := func(kind byte, hbh string, pl string) string {
			nh := 59
			if hbh != "-" {
				nh = 0
			}
			return fmt.Sprintf("%c6.%d.%d.0.%d.%d.%s.%s^%s", kind, rng.Intn(256), rng.Intn(1<<20), nh, rng.Intn(256), addr, hbh, pl)
		}
		mkP := func(withHbh bool, plen int) string {
			ext := []byte(nil)
			nh := byte(59)
			if withHbh {
				ext = lip6ValidExt(rng, 1+rng.Intn(3), 59)
				for i := 2; i < len(ext); {
					if ext[i] == 0 {
						i++
						continue
					}
					if ext[i] == 0xc2 {
						ext[i] = 0x3e
					}
					i += 2 + int(ext[i+1])
				}
				nh = 0
			}
			b := lip6FixedHeader(rng, nh, len(ext)+plen)
			b = append(b, ext...)
			return "P" + n6hex(append(b, n6randBytes(rng, plen)...))
		}
		hbhF := func() string { return "59!0!0!" + fmt.Sprintf("5~2~4~%s~0~0", n6hex(n6randBytes(rng, 2))) + "|" + lip6RandTlvFields(rng, true) }
		for rep := 0; rep < 6*scale; rep++ {
			specs := [][]string{
				{mkP(true, 9), mkL('L', hbhF(), lip6Payload(rng)), mkL('L', "-", "*65536xab")},
				{mkL('L', hbhF(), lip6Payload(rng)), mkP(true, 5), mkL('L', hbhF(), "0102")},
				{mkL('H', hbhF(), lip6Payload(rng)), mkL('L', hbhF(), lip6Payload(rng)), mkP(false, 7), mkL('L', hbhF(), "01")},
				{mkL('L', "-", "*65540x01"), mkP(true, 3), mkL('L', "-", "*65536xcd"), mkL('L', hbhF(), "")},
				{mkP(true, 1), mkL('H', hbhF(), "0102"), mkL('L', "-", "01"), mkL('L', hbhF(), "0304")},
			}
			for _, sp := range specs {
				for k, x := range sp { // the jumbo specs keep a clean option list
					sp[k] = strings.Replace(x, "|194~", "|30~", -1)
				}
				add(fmt.Sprintf("seq:%d,%s", rng.Intn(3), strings.Join(sp, "+")))
			}
		}
	}
	lip6xGen(rng, scale, add)
	// the largest extension header: 2048 octets of Pad1, and of one-octet options
	{
		b := append([]byte{59, 255}, make([]byte, 2046)...)
		add("dec:hbh," + n6hex(b))
		add(fmt.Sprintf("rt:hbh,%s,", n6hex(b)))
		add("dec:dst," + n6hex(b[:2047]))
	}
	return out
}
