package main

// Lenip, Lcip: layers/enip.go and layers/cip.go decoder sub-checks (C19, C05, C01; neither layer has a SerializeTo, so C06 and C07
// do not apply and there are no ser/rt ops).  Ops: dec dec2 (lmisc_common.go).

import (
	"fmt"
	"math/rand"
	"strings"

	"github.com/gopacket/gopacket"
	"github.com/gopacket/gopacket/layers"
)

type lenip struct{}
type lcip struct{}

func init() { register("Lenip", lenip{}); register("Lcip", lcip{}) }

var lenipDesc = &lmDesc{
	id: "Lenip", name: "ENIP",
	fresh: func() gopacket.Layer { return &layers.ENIP{} },
	decode: func(l gopacket.Layer, data []byte, fb gopacket.DecodeFeedback) error {
		return l.(*layers.ENIP).DecodeFromBytes(data, fb)
	},
	fields: func(l gopacket.Layer) string {
		e := l.(*layers.ENIP)
		return fmt.Sprintf("cmd=%d;len=%d;sess=%d;st=%d;sctx=%s;opts=%d;cscmd=%d;csdata=%s", uint16(e.Command), e.Length, e.SessionHandle, e.Status, lnHex(e.SenderContext),
			e.Options, uint16(e.CommandSpecific.Cmd), lnHex(e.CommandSpecific.Data))
	},
	next: func(l gopacket.Layer, _ *lmBuilder) string {
		switch t := l.(*layers.ENIP).NextLayerType(); t {
		case layers.LayerTypeCIP:
			return "1"
		case gopacket.LayerTypePayload:
			return "0"
		default:
			return fmt.Sprintf("other%d", t)
		}
	},
	extra: func(l gopacket.Layer) []func() {
		e := l.(*layers.ENIP)
		return []func(){func() { _, _, _ = e.Command.String(), layers.ENIPStatus(e.Status).String(), e.CommandSpecific.NextLayer() }}
	},
	tags: func(l gopacket.Layer, cls string, data []byte) []string {
		e := l.(*layers.ENIP)
		var t []string
		if cls == "ok" {
			switch e.Command {
			case 0x65:
				t = append(t, "register-session")
			case 0x6f, 0x70:
				t = append(t, "send-data")
				if e.NextLayerType() == layers.LayerTypeCIP {
					t = append(t, "next-cip")
				}
			default:
				t = append(t, "other-command")
			}
		} else if cls == "err" && len(data) >= 24 {
			t = append(t, "error-after-fields-set")
		}
		return t
	},
}

var lcipDesc = &lmDesc{
	id: "Lcip", name: "CIP",
	fresh: func() gopacket.Layer { return &layers.CIP{} },
	decode: func(l gopacket.Layer, data []byte, fb gopacket.DecodeFeedback) error {
		return l.(*layers.CIP).DecodeFromBytes(data, fb)
	},
	fields: func(l gopacket.Layer) string {
		c := l.(*layers.CIP)
		as := make([]string, len(c.AdditionalStatus))
		for i, a := range c.AdditionalStatus {
			as[i] = fmt.Sprint(a)
		}
		return fmt.Sprintf("resp=%s;svc=%d;class=%d;inst=%d;st=%d;adds=%s;data=%s", lnB(c.Response), c.ServiceID, c.ClassID, c.InstanceID, c.Status, strings.Join(as, "|"), lnHex(c.Data))
	},
	next: func(l gopacket.Layer, _ *lmBuilder) string {
		if t := l.(*layers.CIP).NextLayerType(); t != gopacket.LayerTypePayload {
			return fmt.Sprintf("other%d", t)
		}
		return "0"
	},
	extra: func(l gopacket.Layer) []func() {
		c := l.(*layers.CIP)
		return []func(){func() {
			_, _ = layers.CIPService(c.ServiceID).String(), layers.CIPStatus(c.Status).String()
			_, _, _ = c.IsRequest(), c.IsResponse(), c.IsSuccess()
		}}
	},
	tags: func(l gopacket.Layer, cls string, data []byte) []string {
		c := l.(*layers.CIP)
		var t []string
		if cls == "ok" {
			if c.Response {
				t = append(t, "response")
				if len(c.AdditionalStatus) > 0 {
					t = append(t, "additional-status")
				}
			} else {
				t = append(t, "request")
			}
			if len(c.Data) == 0 {
				t = append(t, "no-data")
			}
		} else if cls == "err" && len(data) >= 2 {
			t = append(t, "error-after-fields-set")
		}
		return t
	},
}

func (lenip) Run(c Case) Result { return lmRun(lenipDesc, c) }
func (lcip) Run(c Case) Result  { return lmRun(lcipDesc, c) }

func enLE16(v int) []byte { return []byte{byte(v), byte(v >> 8)} }

// enHdr: 24-octet encapsulation header.
func enHdr(rng *rand.Rand, cmd, length int) []byte {
	h := append(enLE16(cmd), enLE16(length)...)
	return append(h, lnRandBytes(rng, 20)...)
}

// enItem: one common-packet-format item: type id, and for 0x00a1 / others its declared length and data.
func enItem(id int, data []byte, decl int) []byte {
	if decl < 0 {
		decl = len(data)
	}
	return append(append(enLE16(id), enLE16(decl)...), data...)
}

// enSend: SendRRData/SendUnitData body: interface handle (4), timeout (2), item count (2), items.
func enSend(rng *rand.Rand, iface uint32, count int, items []byte) []byte {
	b := []byte{byte(iface), byte(iface >> 8), byte(iface >> 16), byte(iface >> 24), byte(rng.Intn(256)), 0}
	return append(append(b, enLE16(count)...), items...)
}

func (lenip) Gen(rng *rand.Rand, tier string) []Case {
	var out []Case
	hx := lnHex
	add := func(tag string, ops ...string) {
		all := []string{}
		if tag != "" {
			all = append(all, "tag:"+tag)
		}
		out = append(out, Case{Prop: "Lenip", Ops: append(all, ops...)})
	}
	scale := 1
	if tier == "thorough" {
		scale = 6
	}
	ids := []int{0, 0x0c, 0xa1, 0xb1, 0xb2, 0x100, 0x8000, 0x8001, 0x8002}
	randItem := func() []byte {
		id := ids[rng.Intn(len(ids))]
		switch id {
		case 0xa1:
			return enItem(id, lnRandBytes(rng, lnPick(rng, 0, 4, 9)), -1)
		case 0x0c:
			return append(enLE16(id), lnRandBytes(rng, 6)...)
		case 0xb1:
			return append(enLE16(id), lnRandBytes(rng, 4)...)
		case 0x8001, 0x8002:
			return enLE16(id)
		default:
			return append(enLE16(id), 0, 0)
		}
	}
	valid := func() []byte {
		switch rng.Intn(4) {
		case 0:
			return append(enHdr(rng, 0x65, 4), append([]byte{1, 0, 0, 0}, lnRandBytes(rng, lnPick(rng, 0, 0, 5))...)...)
		case 1:
			return append(enHdr(rng, lnPick(rng, 0, 4, 0x63, 0x64, 0x66, 0x72, 0x73, 0xffff), 0), lnRandBytes(rng, lnPick(rng, 0, 3, 30))...)
		default:
			var items []byte
			k := lnPick(rng, 0, 1, 2, 2, 3)
			for i := 0; i < k; i++ {
				items = append(items, randItem()...)
			}
			b := enSend(rng, uint32(lnPick(rng, 0, 0, 1)), k, items)
			for len(b) < 12 {
				b = append(b, byte(rng.Intn(256)))
			}
			return append(append(enHdr(rng, lnPick(rng, 0x6f, 0x70), len(b)), b...), lnRandBytes(rng, lnPick(rng, 0, 6, 20))...)
		}
	}
	residue := func() []byte { // leaves CommandSpecific.Data / Contents / Payload behind
		b := enSend(rng, 0, 2, append(enItem(0, nil, 0), enItem(0xa1, lnRandBytes(rng, 12), -1)...))
		return append(append(enHdr(rng, 0x6f, len(b)), b...), lnRandBytes(rng, 9)...)
	}
	full := func(tag string, p []byte) {
		add(tag, "dec:"+hx(p))
		add(tag, "dec2:"+hx(residue())+","+hx(p))
		add(tag, "dec2:"+hx(p)+","+hx(valid()))
	}
	for i := 0; i < 80*scale; i++ {
		full("", valid())
	}
	// every truncation of each command kind
	for i := 0; i < 4*scale; i++ {
		p := valid()
		for k := 0; k <= len(p); k++ {
			add("truncated-prefix-of-valid", "dec:"+hx(p[:k]))
			if k%3 == 0 {
				add("truncated-prefix-of-valid", "dec2:"+hx(residue())+","+hx(p[:k]))
			}
		}
	}
	// item count against the items present; connected-data item length 0, exact, +-1, beyond, 0xffff; unknown ids; consistent cuts: the data
	// ends exactly at every boundary inside the item list (after each id, each length, each item)
	for _, cmd := range []int{0x6f, 0x70} {
		items := [][]byte{enItem(0, nil, 0), enItem(0xb1, []byte{1, 2}, 2), enItem(0xa1, []byte{9, 8, 7, 6, 5}, -1), enLE16(0x8001), append(enLE16(0x0c), 1, 2, 3, 4, 5, 6)}
		var all []byte
		for _, it := range items {
			all = append(all, it...)
		}
		for _, cnt := range []int{0, 1, 2, 3, 4, 5, 6, 7, 255, 256, 65535} {
			b := enSend(rng, 0, cnt, all)
			full("item-count-extreme", append(enHdr(rng, cmd, len(b)), b...))
		}
		for k := 0; k <= len(all); k++ {
			for _, cnt := range []int{1, 3, 5, 6} {
				b := enSend(rng, 0, cnt, all[:k])
				add("consistent-length-cut", "dec:"+hx(append(enHdr(rng, cmd, len(b)), b...)))
			}
		}
		for _, decl := range []int{0, 1, 4, 5, 6, 7, 100, 0xfffb, 0xfffc, 0xffff} {
			for _, tail := range [][]byte{nil, {0, 0, 0, 0}, lnRandBytes(rng, 3)} {
				b := enSend(rng, 0, 2, append(enItem(0xa1, []byte{9, 8, 7, 6, 5}, decl), tail...))
				full("item-length-extreme", append(enHdr(rng, cmd, len(b)), b...))
			}
		}
		for _, id := range []int{1, 0x0b, 0xa2, 0xb3, 0x101, 0x7fff, 0x8003, 0xffff} {
			b := enSend(rng, 0, 2, append(enItem(0, nil, 0), enItem(id, lnRandBytes(rng, 4), -1)...))
			full("unknown-item", append(enHdr(rng, cmd, len(b)), b...))
		}
		for _, iface := range []uint32{0, 1, 0x100, 0xffffffff} { // interface handle 0 selects CIP as the next layer
			b := enSend(rng, iface, 1, enItem(0xb2, nil, 0))
			full("next-layer", append(enHdr(rng, cmd, len(b)), b...))
		}
	}
	for i := 0; i < 100*scale; i++ {
		q := lnRandBytes(rng, lnPick(rng, 0, 1, 23, 24, 25, 27, 28, 35, 36, 37, rng.Intn(90)))
		if len(q) >= 2 && rng.Intn(3) > 0 {
			q[0], q[1] = byte(lnPick(rng, 0x65, 0x6f, 0x70, 0x6f)), 0
		}
		full("malformed", q)
	}
	ns := 0
	for _, s := range lnSeeds() {
		for _, off := range []int{0, 14 + 20 + 20, 14 + 20 + 8} {
			if len(s) >= off+24 && s[off+1] == 0 && (s[off] == 0x65 || s[off] == 0x6f || s[off] == 0x70 || s[off] == 0x63) && int(s[off+2])|int(s[off+3])<<8 == len(s)-off-24 {
				if ns++; ns <= 30*scale {
					full("seed", s[off:])
				}
			}
		}
	}
	return out
}

func (lcip) Gen(rng *rand.Rand, tier string) []Case {
	var out []Case
	hx := lnHex
	add := func(tag string, ops ...string) {
		all := []string{}
		if tag != "" {
			all = append(all, "tag:"+tag)
		}
		out = append(out, Case{Prop: "Lcip", Ops: append(all, ops...)})
	}
	scale := 1
	if tier == "thorough" {
		scale = 6
	}
	// request: service, path size (words), class segment (0x20 id8 | 0x21 pad? id16 — the code reads the id right after the type octet), instance segment, data
	req := func(svc, ps int, cseg, iseg, data []byte) []byte {
		return append(append(append([]byte{byte(svc & 0x7f), byte(ps)}, cseg...), iseg...), data...)
	}
	resp := func(svc, status int, adds []int, asz int, data []byte) []byte {
		if asz < 0 {
			asz = len(adds)
		}
		b := []byte{byte(svc | 0x80), 0, byte(status), byte(asz)}
		for _, a := range adds {
			b = append(b, enLE16(a)...)
		}
		return append(b, data...)
	}
	csegs := [][]byte{{0x20, 6}, {0x21, 0x34, 0x12}, {0x20}, {0x21, 1}, {0x21}, {0x28, 1}, {}}
	isegs := [][]byte{{0x24, 1}, {0x25, 0x78, 0x56}, {0x24}, {0x25, 1}, {0x25}, {0x30, 3}, {}}
	valid := func() []byte {
		if rng.Intn(2) == 0 {
			c, i := csegs[rng.Intn(2)], isegs[rng.Intn(2)]
			return req(lnPick(rng, 1, 0x0e, 0x52, 0x54, 0x4e), (len(c)+len(i)+1)/2, c, i, lnRandBytes(rng, lnPick(rng, 0, 0, 2, 9)))
		}
		var adds []int
		for k := lnPick(rng, 0, 0, 1, 2); k > 0; k-- {
			adds = append(adds, rng.Intn(65536))
		}
		return resp(lnPick(rng, 1, 0x0e, 0x54), lnPick(rng, 0, 1, 5, 0xff), adds, -1, lnRandBytes(rng, lnPick(rng, 0, 0, 3, 8)))
	}
	residue := func() []byte { // leaves ClassID, InstanceID, Status, AdditionalStatus and Data behind (two packets would be needed for all: pick one)
		if rng.Intn(2) == 0 {
			return req(0x0e, 3, []byte{0x21, 0x34, 0x12}, []byte{0x25, 0x78, 0x56}, lnRandBytes(rng, 6))
		}
		return resp(0x0e, 5, []int{0x1111, 0x2222}, -1, lnRandBytes(rng, 6))
	}
	full := func(tag string, p []byte) {
		add(tag, "dec:"+hx(p))
		add(tag, "dec2:"+hx(residue())+","+hx(p))
		add(tag, "dec2:"+hx(p)+","+hx(valid()))
	}
	for i := 0; i < 80*scale; i++ {
		full("", valid())
	}
	// every class/instance segment shape x path size 0..3, 127, 128, 255 x data 0/1/5 octets (consistent cuts: the request ends exactly
	// after each segment octet) and every truncation
	for _, c := range csegs {
		for _, i := range isegs {
			for _, ps := range []int{0, 1, 2, 3, (len(c) + len(i) + 1) / 2, 127, 128, 255} {
				for _, dl := range []int{0, 1, 5} {
					full("segment-shape", req(0x0e, ps, c, i, lnRandBytes(rng, dl)))
				}
			}
		}
	}
	for n := 0; n < 3*scale; n++ {
		p := valid()
		for k := 0; k <= len(p); k++ {
			full("truncated-prefix-of-valid", p[:k])
		}
	}
	p127 := req(1, 127, []byte{0x20, 1}, []byte{0x24, 1}, lnRandBytes(rng, 260))
	for _, k := range []int{255, 256, 257, len(p127)} { // 2 + 2*127 = 256 is the bound the code checks
		add("path-size-extreme", "dec:"+hx(p127[:k]))
	}
	// response: additional status size 0,1,2,3,127,128,255 against the words present (consistent cuts at every octet), data after it or not
	for _, asz := range []int{0, 1, 2, 3, 127, 128, 255} {
		for _, have := range []int{0, 1, 2, 3} {
			for _, odd := range []int{0, 1} {
				var adds []int
				for k := 0; k < have; k++ {
					adds = append(adds, 0x1000+k)
				}
				b := resp(0x0e, 1, adds, asz, lnRandBytes(rng, odd))
				full("additional-status-extreme", b)
			}
		}
	}
	big := resp(1, 0, nil, 255, lnRandBytes(rng, 520))
	for _, k := range []int{4 + 509, 4 + 510, 4 + 511, len(big)} {
		add("additional-status-extreme", "dec:"+hx(big[:k]))
		add("additional-status-extreme", "dec2:"+hx(residue())+","+hx(big[:k]))
	}
	for i := 0; i < 100*scale; i++ {
		full("malformed", lnRandBytes(rng, lnPick(rng, 0, 1, 2, 3, 4, 5, 6, rng.Intn(40))))
	}
	return out
}
