package main

// Lllc: layers/llc.go codec sub-check (C19, C05, C06, C07, C01 for LLC and SNAP).
// The first op of a case selects the layer: L:llc or L:snap; then dec dec2 ser rt (lmisc_common.go) plus
//   LLC  new:<dsap>.<ig>.<ssap>.<cr>.<control>,<fcd>,<payloadhex>   rtn: likewise
//   SNAP new:<ouihex|->.<type>,<fcd>,<payloadhex>                     rtn: likewise

import (
	"fmt"
	"math/rand"
	"strings"

	"github.com/gopacket/gopacket"
	"github.com/gopacket/gopacket/layers"
)

type lllc struct{}

func init() { register("Lllc", lllc{}) }

var llcDesc = &lmDesc{
	id: "Lllc", name: "LLC", ser: true,
	fresh: func() gopacket.Layer { return &layers.LLC{} },
	decode: func(l gopacket.Layer, data []byte, fb gopacket.DecodeFeedback) error {
		return l.(*layers.LLC).DecodeFromBytes(data, fb)
	},
	fields: func(l gopacket.Layer) string {
		c := l.(*layers.LLC)
		return fmt.Sprintf("dsap=%d;ig=%s;ssap=%d;cr=%s;ctl=%d", c.DSAP, lnB(c.IG), c.SSAP, lnB(c.CR), c.Control)
	},
	next: func(l gopacket.Layer, _ *lmBuilder) string {
		switch t := l.(*layers.LLC).NextLayerType(); t {
		case layers.LayerTypeSNAP:
			return "1"
		case layers.LayerTypeSTP:
			return "2"
		case gopacket.LayerTypeZero:
			return "0"
		default:
			return fmt.Sprintf("other%d", t)
		}
	},
	fromSpec: func(spec string) gopacket.Layer {
		f := strings.Split(spec, ".")
		return &layers.LLC{DSAP: uint8(lnAtoi(f[0])), IG: f[1] == "1", SSAP: uint8(lnAtoi(f[2])), CR: f[3] == "1", Control: uint16(lnAtoi(f[4]))}
	},
	// C06 hypothesis: SAPs without the flag bit; a two byte control value whose first byte is not U-format
	inDomain: func(l gopacket.Layer, _ []byte) bool {
		c := l.(*layers.LLC)
		return c.DSAP&1 == 0 && c.SSAP&1 == 0 && (c.Control < 256 || (c.Control>>8)&3 != 3)
	},
	tags: func(l gopacket.Layer, cls string, data []byte) []string {
		c := l.(*layers.LLC)
		var t []string
		if cls == "ok" && len(c.Contents) == 4 {
			t = append(t, "control-two-bytes")
			if c.Control < 256 {
				t = append(t, "control-two-bytes-small")
			}
		}
		if cls == "ok" && len(c.Contents) == 3 {
			t = append(t, "control-one-byte")
		}
		if cls == "err" && len(data) == 3 {
			t = append(t, "error-after-fields-set")
		}
		return t
	},
}

var snapDesc = &lmDesc{
	id: "Lllc", name: "SNAP", ser: true,
	fresh: func() gopacket.Layer { return &layers.SNAP{} },
	decode: func(l gopacket.Layer, data []byte, fb gopacket.DecodeFeedback) error {
		return l.(*layers.SNAP).DecodeFromBytes(data, fb)
	},
	fields: func(l gopacket.Layer) string {
		s := l.(*layers.SNAP)
		return fmt.Sprintf("oui=%s;ty=%d", lnHex(s.OrganizationalCode), uint16(s.Type))
	},
	next: func(l gopacket.Layer, _ *lmBuilder) string {
		s := l.(*layers.SNAP)
		if s.NextLayerType() == s.Type.LayerType() {
			return fmt.Sprint(uint16(s.Type))
		}
		return fmt.Sprintf("other%d", s.NextLayerType())
	},
	fromSpec: func(spec string) gopacket.Layer {
		f := strings.Split(spec, ".")
		return &layers.SNAP{OrganizationalCode: lmHexOrDash(f[0]), Type: layers.EthernetType(lnAtoi(f[1]))}
	},
	inDomain: func(l gopacket.Layer, _ []byte) bool { return len(l.(*layers.SNAP).OrganizationalCode) == 3 },
	tags: func(l gopacket.Layer, cls string, data []byte) []string { return nil },
}

func (lllc) Run(c Case) Result {
	switch c.Ops[0] {
	case "L:llc":
		return lmRun(llcDesc, Case{Prop: c.Prop, Ops: c.Ops[1:]})
	case "L:snap":
		r := lmRun(snapDesc, Case{Prop: c.Prop, Ops: c.Ops[1:]})
		r.Tags = append(r.Tags, "snap")
		return r
	}
	panic("Lllc: first op must be L:llc or L:snap")
}

func (lllc) Gen(rng *rand.Rand, tier string) []Case {
	// LLC: first control byte classes: I-format (bit0 = 0), S-format (01), U-format (11)
	llcValid := func(rng *rand.Rand) []byte {
		sap := func() byte { return byte(lnPick(rng, 0xaa, 0xab, 0x42, 0x43, 0, 0xff, 0xfe, rng.Intn(256))) }
		h := []byte{sap(), sap(), byte(lnPick(rng, 0x03, 0x00, 0x01, 0x02, 0xff, 0xfe, 0xfd, rng.Intn(256)))}
		if rng.Intn(3) == 0 {
			h[1] = h[0]
		}
		pl := lnRandBytes(rng, lnPick(rng, 0, 1, 2, 9, 33))
		if rng.Intn(3) == 0 && len(pl) > 0 {
			pl[0] = byte(lnPick(rng, 0, 3, 1, 255))
		}
		return append(h, pl...)
	}
	gl := lmGenCfg{
		valid:  llcValid,
		hdrLen: func(p []byte) int { return 4 },
		spec: func(rng *rand.Rand) string {
			return fmt.Sprintf("%d.%d.%d.%d.%d", lnPick(rng, 0xaa, 0x42, 0, 1, 254, 255, rng.Intn(256)), rng.Intn(2), lnPick(rng, 0xaa, 0x42, 0, 1, 254, 255, rng.Intn(256)), rng.Intn(2),
				lnPick(rng, 0, 1, 2, 3, 0xff, 0xfe, 0xfd, 0x100, 0x103, 0x300, 0x3ff, 0x0103, 0xffff, 0xfffe, rng.Intn(65536), rng.Intn(256)))
		},
		extra: func(rng *rand.Rand, add func(ops ...string)) {
			// every first control byte, with a second byte 0 / 3 / 0xff, and cut to 3 bytes
			for c := 0; c < 256; c++ {
				for _, c2 := range []byte{0, 3, 0xff} {
					p := []byte{0xaa, 0xaa, byte(c), c2, 0x11, 0x22}
					add("tag:control-every-value", "dec:"+lnHex(p))
					add("tag:control-every-value", "rt:"+lnHex(p)+",1122")
				}
				add("tag:control-every-value", "dec:"+lnHex([]byte{0x42, 0x43, byte(c)}))
				add("tag:control-every-value", "dec2:aaab0003ff,"+lnHex([]byte{0x42, 0x43, byte(c)}))
				add("tag:control-every-value", "ser:"+lnHex([]byte{0x42, 0x43, byte(c)})+","+lnFCD[rng.Intn(len(lnFCD))]+",99")
			}
		},
	}
	var llcSeeds, snapSeeds [][]byte
	for _, s := range lnSeeds() {
		if len(s) > 22 && int(s[12])<<8|int(s[13]) <= 1500 {
			llcSeeds = append(llcSeeds, s[14:])
			if s[14] == 0xaa && s[15] == 0xaa && s[16] == 3 {
				snapSeeds = append(snapSeeds, s[17:])
			}
		}
	}
	gl.seeds = llcSeeds
	gs := lmGenCfg{
		valid: func(rng *rand.Rand) []byte {
			h := lnRandBytes(rng, 5)
			lmPut16(h[3:], lnPick(rng, 0x0800, 0x2000, 0x0806, 0, 65535, rng.Intn(65536)))
			return append(h, lnRandBytes(rng, lnPick(rng, 0, 1, 2, 9, 33))...)
		},
		hdrLen: func(p []byte) int { return 5 },
		spec: func(rng *rand.Rand) string {
			return fmt.Sprintf("%s.%d", lnPick2(rng, "-", "", "00", "0000", "00000c", "aabbcc", "aabbccdd"), lnPick(rng, 0, 0x0800, 65535, rng.Intn(65536)))
		},
		seeds: snapSeeds,
		n:     30,
	}
	var out []Case
	for _, c := range lmGen(llcDesc, gl, rng, tier) {
		out = append(out, Case{Prop: "Lllc", Ops: append([]string{"L:llc"}, c.Ops...)})
	}
	for _, c := range lmGen(snapDesc, gs, rng, tier) {
		out = append(out, Case{Prop: "Lllc", Ops: append([]string{"L:snap"}, c.Ops...)})
	}
	return out
}

func lnPick2(rng *rand.Rand, xs ...string) string { return xs[rng.Intn(len(xs))] }
