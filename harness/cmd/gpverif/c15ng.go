package main

// C15ng: the pcapng reader on hostile input.
//
// Ops: raw:hex  ro:MES  mode:copy|zc  chunk:n (every Read returns at most n bytes)  chunks:a.b.c (cycled)
//      fail:pos (injected I/O error after pos bytes)  dataerr (the error / EOF accompanies the last bytes)
//      gz (the stream is the gzip compression of raw)  gzcut:k (gzip stream cut at k; implementation only)
// Observations: new=<class>[, packets, end=<class>, reader state] exactly as in C14ng "full".

import (
	"bytes"
	"compress/gzip"
	"fmt"
	"io"
	"math/rand"
	"strings"
	"time"
)

type c15ng struct{}

func init() { register("C15ng", c15ng{}) }

type ng15Case struct {
	Raw     []byte
	Ro      ngReadOpts
	Sizes   []int
	FailAt  int
	DataErr bool
	Gz      bool
	GzCut   int
	NoModel bool
	CmpModes bool
}

func ng15Parse(ops []string) (c ng15Case) {
	c.FailAt, c.GzCut = -1, -1
	for _, op := range ops {
		name, arg := op, ""
		if i := strings.IndexByte(op, ':'); i >= 0 {
			name, arg = op[:i], op[i+1:]
		}
		switch name {
		case "raw":
			c.Raw = unhex(arg)
		case "ro":
			z := c.Ro.ZeroCopy
			c.Ro = parseRo(arg)
			c.Ro.ZeroCopy = z
		case "mode":
			c.Ro.ZeroCopy = arg == "zc"
		case "chunk":
			c.Sizes = []int{atoi(arg)}
		case "chunks":
			for _, s := range strings.Split(arg, ".") {
				c.Sizes = append(c.Sizes, atoi(s))
			}
		case "fail":
			c.FailAt = atoi(arg)
		case "dataerr":
			c.DataErr = true
		case "gz":
			c.Gz = true
		case "gzcut":
			c.Gz = true
			c.GzCut = atoi(arg)
		case "nomodel":
			c.NoModel = true
		case "cmpmodes":
			c.CmpModes = true
		}
	}
	return
}

func ngGzip(b []byte) []byte {
	var buf bytes.Buffer
	w := gzip.NewWriter(&buf)
	w.Write(b)
	w.Close()
	return buf.Bytes()
}

// ngTimed runs a session with a wall-clock limit; nil on timeout
func ngTimed(rd io.Reader, ro ngReadOpts, bound int64) *ngSessionResult {
	ch := make(chan *ngSessionResult, 1)
	go func() { ch <- ngSession(rd, ro, bound) }()
	r, _ := recvBusyAware(ch, 30*time.Second)
	return r
}

// does some block declare more bytes than the stream holds? (the one mechanism by which the
// repaired reader can still be made to allocate out of proportion, see known finding)
func ngDeclaredBeyondStream(f []byte) bool {
	ends, _ := ngWalkBlocks(f)
	return lastOr0(ends) < len(f) || len(ends) == 0
}

func (c15ng) Run(c Case) (res Result) {
	k := ng15Parse(c.Ops)
	tags := map[string]bool{}
	for _, op := range c.Ops {
		if strings.HasPrefix(op, "tag:") {
			tags[op[4:]] = true
		}
	}
	stream := k.Raw
	slack := int64(80 << 10) // one option value (16-bit length) + bufio buffer and reader structures
	if k.Gz {
		stream = ngGzip(k.Raw)
		slack = 512 << 10 // the inflater's window and tables
		tags["gzip"] = true
		if k.GzCut >= 0 && k.GzCut < len(stream) {
			stream = stream[:k.GzCut]
		}
	}
	if len(k.Sizes) > 0 {
		tags["short-read-chunking"] = true
	}
	if k.FailAt >= 0 {
		tags["injected-error"] = true
	}
	var rd io.Reader = bytes.NewReader(stream)
	if len(k.Sizes) > 0 || k.FailAt >= 0 || k.DataErr {
		rd = &ngChunkReader{data: stream, sizes: k.Sizes, failAt: k.FailAt, dataErr: k.DataErr}
	}
	r := ngTimed(rd, k.Ro, int64(len(k.Raw))+slack)
	if r == nil {
		res.Obs = []string{"new=hang"}
		res.Oracle = append(res.Oracle, "C15:hang\tno result within 30 s")
	} else {
		if k.NoModel {
			res.Obs = []string{"nomodel"}
		} else if k.GzCut >= 0 {
			res.Obs = []string{"gzcut"} // not modelled: only the oracle clauses below apply
		} else {
			res.Obs = r.Lines()
		}
		if r.New == "panic" {
			res.Oracle = append(res.Oracle, "C15:panic\tNewNgReader panicked")
		}
		if r.End == "panic" {
			res.Oracle = append(res.Oracle, fmt.Sprintf("C15:panic\tread call #%d panicked", len(r.Pkts)))
		}
		for _, s := range r.Shape {
			res.Oracle = append(res.Oracle, "C15:shape\t"+s)
		}
		for _, s := range r.Allocs {
			why := "well-framed-stream"
			if ngDeclaredBeyondStream(k.Raw) {
				why = "declared-block-length-exceeds-stream"
			}
			res.Oracle = append(res.Oracle, "C15:alloc\t"+why+" "+s)
			break
		}
		// the zero-copy and the copying call must return the same packets (each looked at right after its read)
		if k.CmpModes {
			oro := k.Ro
			oro.ZeroCopy = !oro.ZeroCopy
			other := ngTimed(bytes.NewReader(stream), oro, -1)
			if other == nil {
				res.Oracle = append(res.Oracle, "C15:hang\tno result within 30 s (other read call)")
			} else {
				if other.New == "panic" || other.End == "panic" {
					res.Oracle = append(res.Oracle, fmt.Sprintf("C15:panic\tthe %s call panicked at read #%d", map[bool]string{true: "zero-copy", false: "copying"}[oro.ZeroCopy], len(other.Pkts)))
				}
				a, b := r.Lines(), other.Lines()
				if strings.Join(a, "\n") != strings.Join(b, "\n") {
					d := 0
					for d < len(a) && d < len(b) && a[d] == b[d] {
						d++
					}
					g, w := "<none>", "<none>"
					if d < len(a) {
						g = a[d]
					}
					if d < len(b) {
						w = b[d]
					}
					res.Oracle = append(res.Oracle, fmt.Sprintf("C15:zero-copy-equals-copy\tline %d: this call %.90s, the other call %.90s", d, g, w))
				}
			}
		}
		// chunking / injected error: same result as the plain read of the bytes delivered
		if k.GzCut < 0 && (len(k.Sizes) > 0 || k.FailAt >= 0 || k.DataErr || k.Gz) {
			pre := k.Raw
			if k.FailAt >= 0 && k.FailAt < len(pre) && !k.Gz {
				pre = pre[:k.FailAt]
			}
			ref := ngTimed(bytes.NewReader(pre), k.Ro, -1)
			if ref != nil {
				want := ref.Lines()
				if k.FailAt >= 0 && !k.Gz {
					for i, l := range want {
						if l == "new=eof" || l == "new=ueof" {
							want[i] = "new=err"
						}
						if l == "end=eof" || l == "end=ueof" {
							want[i] = "end=err"
						}
					}
				}
				got := r.Lines()
				if strings.Join(got, "\n") != strings.Join(want, "\n") {
					d := 0
					for d < len(got) && d < len(want) && got[d] == want[d] {
						d++
					}
					g, w := "<none>", "<none>"
					if d < len(got) {
						g = got[d]
					}
					if d < len(want) {
						w = want[d]
					}
					if len(g) > 80 {
						g = g[:80]
					}
					if len(w) > 80 {
						w = w[:80]
					}
					res.Oracle = append(res.Oracle, fmt.Sprintf("C15:chunking\tline %d: got %s, plain read of the same bytes gives %s", d, g, w))
				}
			}
		}
	}
	for t := range tags {
		res.Tags = append(res.Tags, t)
	}
	return
}

// ---------------------------------------------------------------- generator

func ng15Base(which int) *ngBuilder {
	switch which {
	case 0:
		b := newNgBuilder(false)
		b.shb([]ngOpt{{2, []byte("x86")}, {3, []byte("linux")}, {4, []byte("verif")}, {1, []byte("c")}})
		b.idb(1, 0, []ngOpt{{2, []byte("eth0")}, {3, []byte("desc")}, {11, []byte("\x00tcp")}, {12, []byte("os")}, {9, []byte{6}}, {14, []byte{5, 0, 0, 0, 0, 0, 0, 0}}})
		b.idb(1, 96, []ngOpt{{9, []byte{9}}})
		b.epb(0, 1600000000123456, 5, 60, []byte{1, 2, 3, 4, 5}, []ngOpt{{1, []byte("hello")}, {1, nil}, {2, []byte{1, 0, 0, 0}}, {3, []byte{2, 0xde, 0xad, 0xbe, 0xef}},
			{4, []byte{7, 0, 0, 0, 0, 0, 0, 0}}, {5, []byte{9, 0, 0, 0, 0, 0, 0, 0}}, {6, []byte{3, 0, 0, 0}}, {7, []byte{1, 1, 2, 3, 4, 5, 6, 7, 8}}}, true)
		b.epb(1, 1600000000123456789, 4, 4, []byte{9, 8, 7, 6}, nil, false)
		b.spb(3, []byte{1, 2, 3})
		b.pb(1, 77, 2, 2, []byte{5, 6})
		b.nrb([]ngNameRec{{1, append([]byte{10, 0, 0, 1}, []byte("a.example\x00b\x00")...)}, {2, append(make([]byte, 16), []byte("six\x00")...)},
			{3, append([]byte{1, 2, 3, 4, 5, 6}, []byte("mac\x00")...)}, {9, []byte("unknown")}}, true)
		b.isb(0, 1600000001000000, []ngOpt{{1, []byte("stats")}, {2, []byte{0, 0, 0, 1, 0, 0, 0, 2}}, {3, []byte{0, 0, 0, 1, 0, 0, 0, 3}}, {4, []byte{10, 0, 0, 0, 0, 0, 0, 0}}, {5, []byte{1, 0, 0, 0, 0, 0, 0, 0}}})
		b.other(0x0bad, []byte{1, 2, 3, 4, 5, 6, 7, 8})
		b.dsb(0x544c534b, []byte("secret"))
		b.epb(0, 1600000002000000, 1, 1, []byte{0xff}, []ngOpt{{1, []byte("x")}}, true)
		return b
	case 1:
		b := newNgBuilder(true)
		b.shb([]ngOpt{{4, []byte("be-writer")}})
		b.dsb(0x544c534b, []byte("early secret"))
		b.nrb([]ngNameRec{{1, append([]byte{10, 0, 0, 2}, []byte("n\x00")...)}}, true)
		b.idb(101, 64, []ngOpt{{2, []byte("be0")}, {9, []byte{0x8a}}})
		b.epb(0, 5000, 3, 3, []byte{1, 2, 3}, []ngOpt{{1, []byte("be")}, {2, []byte{2, 0, 0, 0}}}, true)
		b.isb(0, 6000, nil)
		b.spb(2, []byte{7, 7})
		return b
	default:
		b := newNgBuilder(false)
		b.shb(nil)
		b.idb(1, 0, nil)
		b.epb(0, 1000, 2, 2, []byte{1, 2}, nil, false)
		// a section of another version, then a normal one with another link type
		b.block(0x0A0D0D0A, func() {
			b.u32(0x1A2B3C4D, "bom")
			b.u16(2, "version")
			b.u16(0, "version")
			b.raw([]byte{0xff, 0xff, 0xff, 0xff, 0xff, 0xff, 0xff, 0xff}, "")
		})
		b.idb(1, 0, nil)
		b.epb(0, 1000, 1, 1, []byte{3}, nil, false)
		b.shb([]ngOpt{{1, []byte("second")}})
		b.idb(113, 0, nil)
		b.idb(1, 0, nil)
		b.epb(0, 2000, 2, 2, []byte{4, 5}, nil, false)
		b.epb(1, 3000, 2, 2, []byte{6, 7}, []ngOpt{{1, []byte("two")}}, true)
		return b
	}
}

func ng15Values(f ngField, orig uint64) []uint64 {
	switch f.Size {
	case 2:
		v := []uint64{0, 1, 3, 4, 5, 7, 8, 0xffff, 0x8000, orig - 1, orig + 1, orig + 3, orig + 4, orig - 4}
		return v
	case 4:
		v := []uint64{0, 1, 3, 4, 7, 8, 11, 12, 16, 20, 24, 28, 32, 0xffffffff, 0x7fffffff, 0x80000000, 0xfffffffc, orig - 1, orig + 1, orig + 3, orig + 4, orig - 4, orig + 8, orig - 8}
		if f.Class == "snaplen" {
			// the zero-copy call allocates the declared snap length up front (allowed by the property):
			// keep the declared value small enough for the harness itself
			v = []uint64{0, 1, 3, 4, 0x100000, orig + 1}
			if orig > 0 {
				v = append(v, orig-1)
			}
		}
		return v
	}
	return nil
}

func (c15ng) Gen(rng *rand.Rand, tier string) []Case {
	var out []Case
	add := func(raw []byte, extra ...string) {
		ops := []string{"raw:" + hx(raw)}
		for _, e := range extra {
			if e != "" {
				ops = append(ops, e)
			}
		}
		out = append(out, Case{Prop: "C15ng", Ops: ops})
	}
	ros := []string{"000", "100", "011", "111", "010"}
	thorough := tier == "thorough"
	// (a) every field of every block header, option and record forced to boundary values
	for which := 0; which < 3; which++ {
		b := ng15Base(which)
		add(b.buf, "ro:000", "mode:copy")
		add(b.buf, "ro:101", "mode:zc")
		add(b.buf, "ro:011", "mode:copy")
		for fi, f := range b.fields {
			if f.Size != 2 && f.Size != 4 {
				// variable-size values: flip the first and the last byte
				if f.Class == "optval" || f.Class == "tsoff" {
					for _, pos := range []int{f.Off, f.Off + f.Size - 1} {
						m := append([]byte(nil), b.buf...)
						m[pos] ^= 0xff
						add(m, "ro:"+ros[(fi+pos)%len(ros)], "mode:copy", "tag:mut-"+f.Class)
					}
				}
				continue
			}
			var orig uint64
			if f.Size == 2 {
				orig = uint64(b.bo.Uint16(b.buf[f.Off:]))
			} else {
				orig = uint64(b.bo.Uint32(b.buf[f.Off:]))
			}
			seen := map[uint64]bool{orig: true}
			for vi, v := range ng15Values(f, orig) {
				if f.Size == 2 {
					v &= 0xffff
				} else {
					v &= 0xffffffff
				}
				if seen[v] {
					continue
				}
				seen[v] = true
				if !thorough && (fi+vi)%2 == 1 && f.Class != "blocklen" && f.Class != "optlen" && f.Class != "caplen" {
					continue
				}
				m := append([]byte(nil), b.buf...)
				if f.Size == 2 {
					b.bo.PutUint16(m[f.Off:], uint16(v))
				} else {
					b.bo.PutUint32(m[f.Off:], uint32(v))
				}
				cl := f.Class
				if cl == "blocklen2" {
					cl = "blocklen"
				}
				mode := "mode:copy"
				if (fi+vi)%5 == 0 {
					mode = "mode:zc"
				}
				add(m, "ro:"+ros[(fi+vi)%len(ros)], mode, "tag:mut-"+cl)
			}
		}
	}
	// (b) if_tsresol: all 256 values, little and big endian
	for v := 0; v < 256; v++ {
		b := newNgBuilder(v%2 == 1)
		b.shb(nil)
		b.idb(1, 0, []ngOpt{{9, []byte{byte(v)}}})
		b.epb(0, 0xfedcba9876543210>>uint(v%23), 1, 1, []byte{1}, nil, false)
		b.isb(0, 1<<63|uint64(v), []ngOpt{{2, []byte{0, 0, 0, 1, 0, 0, 0, 2}}})
		add(b.buf, "ro:000", "mode:copy", "tag:mut-tsresol")
	}
	// (c) golden files cut at every offset (small ones), at a stride (larger ones)
	gold := ngGoldenFiles()
	for gi, g := range gold {
		stride := 1
		if !thorough {
			if len(g.Data) > 400 {
				stride = 1 + len(g.Data)/60
			} else if gi%3 != 0 {
				stride = 7
			}
		} else if len(g.Data) > 400 {
			stride = 1 + len(g.Data)/400
		}
		nomodel := ""
		if len(g.Data) > 20000 {
			// too long for the Peano fuel of the extracted model: implementation-side oracle only, thorough tier
			if !thorough {
				continue
			}
			nomodel = "nomodel"
			stride = 1 + len(g.Data)/40
		}
		for k := gi % stride; k <= len(g.Data); k += stride {
			add(g.Data[:k], "ro:"+ros[(gi+k)%2], []string{"mode:copy", "mode:zc"}[k%2], "tag:truncated-golden", nomodel)
		}
		add(g.Data, "ro:000", "mode:copy", "tag:golden", nomodel)
		if nomodel != "" {
			continue
		}
		// length-like bytes of a golden file forced to extremes
		nm := 12
		if thorough {
			nm = 120
		}
		for j := 0; j < nm; j++ {
			m := append([]byte(nil), g.Data...)
			p := rng.Intn(len(m))
			m[p] = []byte{0, 1, 3, 4, 0x7f, 0x80, 0xff, m[p] + 1, m[p] - 1}[rng.Intn(9)]
			if len(m) > 20 {
				// keep a declared snap length small (bytes 12..15 of the first IDB are not located here; zero-copy off)
			}
			add(m, "ro:"+ros[rng.Intn(len(ros))], "mode:copy", "tag:golden-byte")
		}
	}
	// (d) random garbage: pure, after a valid header, and block-structured
	ng := 150
	if thorough {
		ng = 3000
	}
	for i := 0; i < ng; i++ {
		switch i % 3 {
		case 0:
			g := ngRandBytes(rng, rng.Intn(200))
			if len(g) >= 2 && g[0] == 0x1f && g[1] == 0x8b {
				g[0] = 0
			}
			add(g, "ro:"+ros[rng.Intn(len(ros))], "mode:copy", "tag:garbage")
		case 1:
			b := newNgBuilder(rng.Intn(2) == 0)
			b.shb(nil)
			b.idb(1, uint32(rng.Intn(3))*64, nil)
			add(append(b.buf, ngRandBytes(rng, rng.Intn(200))...), "ro:"+ros[rng.Intn(len(ros))], "mode:copy", "tag:garbage")
		default:
			b := newNgBuilder(rng.Intn(2) == 0)
			b.shb(nil)
			b.idb(1, uint32(rng.Intn(3))*64, nil)
			for n := 1 + rng.Intn(6); n > 0; n-- {
				typ := []uint32{1, 2, 3, 4, 5, 6, 6, 6, 10, 0x0A0D0D0A, 99}[rng.Intn(11)]
				body := ngRandBytes(rng, rng.Intn(60))
				// small numbers are more likely to pass the first checks
				for q := 0; q+4 <= len(body); q += 4 {
					if rng.Intn(2) == 0 {
						body[q], body[q+1], body[q+2], body[q+3] = byte(rng.Intn(40)), 0, 0, 0
						if b.bo.String() == "BigEndian" {
							body[q], body[q+3] = 0, body[q]
						}
					}
				}
				b.other(typ, body)
			}
			add(b.buf, "ro:"+ros[rng.Intn(len(ros))], []string{"mode:copy", "mode:zc"}[rng.Intn(2)], "tag:garbage")
		}
	}
	// (e) chunkings of small files; (f) an injected error at every position
	small := [][]byte{ng15Base(2).buf}
	{
		b := newNgBuilder(false)
		b.shb([]ngOpt{{1, []byte("s")}})
		b.idb(1, 0, []ngOpt{{2, []byte("e")}})
		b.nrb([]ngNameRec{{1, append([]byte{10, 0, 0, 1}, []byte("nm\x00")...)}}, true)
		b.epb(0, 1000, 3, 3, []byte{1, 2, 3}, []ngOpt{{1, []byte("abc")}, {1, nil}}, true)
		small = append(small, b.buf)
	}
	for si, s := range small {
		for n := 1; n <= 40 && n <= len(s); n++ {
			add(s, "ro:100", "mode:copy", fmt.Sprintf("chunk:%d", n))
		}
		add(s, "ro:000", "mode:zc", "chunk:1", "dataerr")
		step := 1
		if !thorough && si == 0 {
			step = 3
		}
		for p := 1; p < len(s); p += step {
			add(s, "ro:100", "mode:copy", fmt.Sprintf("chunks:%d.%d", p, len(s)))
		}
		nr := 40
		if thorough {
			nr = 1000
		}
		for i := 0; i < nr; i++ {
			var sz []string
			for n := 1 + rng.Intn(8); n > 0; n-- {
				sz = append(sz, fmt.Sprint(1+rng.Intn(17)))
			}
			add(s, "ro:"+ros[rng.Intn(len(ros))], "mode:copy", "chunks:"+strings.Join(sz, "."))
		}
		if thorough && si == 1 {
			for p := 1; p < len(s); p++ {
				for q := p + 1; q < len(s); q += 3 {
					add(s, "ro:100", "mode:copy", fmt.Sprintf("chunks:%d.%d.%d", p, q-p, len(s)))
				}
			}
		}
		for p := 0; p <= len(s); p += step {
			add(s, "ro:100", "mode:copy", fmt.Sprintf("fail:%d", p))
			if p%4 == 1 {
				add(s, "ro:000", "mode:zc", fmt.Sprintf("fail:%d", p), "dataerr", "chunk:5")
			}
		}
	}
	// (h) valid files with large packets: capture lengths around powers of two and round sizes, on
	// interfaces with snap length 0 and with a large snap length; a smaller packet in between (buffer
	// reuse) and a larger one after a smaller one (buffer growth); read with both calls
	bigSizes := []int{65535, 65536, 65537, 262144, 262145}
	oracleOnly := []int{1048577}
	if thorough {
		bigSizes = append(bigSizes, 262143, 131072, 300000, 524288)
		oracleOnly = []int{1048575, 1048576, 1048577, 4194305}
	}
	bigFile := func(n int, snap uint32, be bool) []byte {
		b := newNgBuilder(be)
		b.shb(nil)
		b.idb(1, snap, []ngOpt{{9, []byte{9}}})
		b.epb(0, 1600000000000000000, 1000, 1000, ngRandBytes(rng, 1000), nil, false)
		d := ngRandBytes(rng, n)
		b.epb(0, 1600000001000000000, uint32(n), uint32(n), d, []ngOpt{{1, []byte("big")}}, true)
		b.epb(0, 1600000002000000000, 3, 3, []byte{1, 2, 3}, nil, false)
		b.epb(0, 1600000003000000000, uint32(n), uint32(n)+5, d, nil, false)
		return b.buf
	}
	for i, n := range bigSizes {
		snap := uint32(0)
		if i%2 == 1 || thorough {
			snap = 2 << 20
		}
		f := bigFile(n, snap, i%3 == 2)
		add(f, "ro:000", "mode:zc", "cmpmodes", "tag:big-packet")
		if n >= 262145 || thorough {
			add(bigFile(n, 0, false), "ro:100", "mode:copy", "cmpmodes", "tag:big-packet")
		}
		if thorough {
			add(bigFile(n, uint32(n), false), "ro:000", "mode:zc", "cmpmodes", "chunk:4096", "tag:big-packet")
		}
	}
	for _, n := range oracleOnly {
		add(bigFile(n, 0, false), "ro:000", "mode:zc", "cmpmodes", "tag:big-packet", "nomodel")
		if thorough {
			add(bigFile(n, 8<<20, true), "ro:000", "mode:copy", "cmpmodes", "tag:big-packet", "nomodel")
		}
	}
	// (g) gzip-wrapped: valid, mutated, cut
	for which := 0; which < 3; which++ {
		b := ng15Base(which)
		add(b.buf, "ro:100", "mode:copy", "gz")
		add(b.buf, "ro:000", "mode:zc", "gz", "chunk:7")
		for j := 0; j < 8; j++ {
			m := append([]byte(nil), b.buf...)
			f := b.fields[rng.Intn(len(b.fields))]
			if f.Size == 4 && f.Class != "snaplen" {
				b.bo.PutUint32(m[f.Off:], []uint32{0, 1, 4, 0xffffffff, 12}[rng.Intn(5)])
			} else if f.Size == 2 {
				b.bo.PutUint16(m[f.Off:], []uint16{0, 1, 4, 0xffff}[rng.Intn(4)])
			}
			add(m, "ro:100", "mode:copy", "gz")
		}
		z := ngGzip(b.buf)
		for k := 0; k < len(z); k += 1 + len(z)/25 {
			add(b.buf, "ro:100", "mode:copy", fmt.Sprintf("gzcut:%d", k))
		}
	}
	return out
}
