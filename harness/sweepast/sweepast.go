// Package sweepast derives the domains of the Sweep check from the gopacket working tree
// with go/ast (nothing of the tree is imported here):
//   - every exported type of package gopacket / gopacket/layers whose pointer method set
//     (declared methods plus methods promoted from embedded struct fields) contains the
//     methods of gopacket.DecodingLayer and/or gopacket.SerializableLayer;
//   - every `[]byte{...}` literal made of constants in layers/*_test.go (seed packets).
package sweepast

import (
	"fmt"
	"go/ast"
	"go/build"
	"go/parser"
	"go/token"
	"os"
	"path/filepath"
	"sort"
	"strconv"
	"strings"
)

// TypeInfo is one exported named type.
type TypeInfo struct {
	Pkg, Name    string
	Decoding      bool // has DecodeFromBytes (in-place decoder; may lack the rest of the interface)
	DecodingLayer bool // DecodeFromBytes, CanDecode (returning LayerClass), NextLayerType, LayerPayload
	Serializable  bool // SerializeTo, LayerType
}

// Key is "pkg.Name", e.g. "layers.TCP".
func (t TypeInfo) Key() string { return t.Pkg + "." + t.Name }

type typeDecl struct {
	pkg, name string
	embedded  []string // keys of embedded types
	methods   map[string]bool
	results   map[string]string // method -> printed result type list
	isStruct  bool
	isIface   bool
}

func parseDir(fset *token.FileSet, dir, pkgName string, tests bool) ([]*ast.File, error) {
	ents, err := os.ReadDir(dir)
	if err != nil {
		return nil, err
	}
	var out []*ast.File
	for _, e := range ents {
		n := e.Name()
		if e.IsDir() || !strings.HasSuffix(n, ".go") {
			continue
		}
		isTest := strings.HasSuffix(n, "_test.go")
		if isTest != tests {
			continue
		}
		if ok, err := build.Default.MatchFile(dir, n); err != nil || !ok {
			continue
		}
		f, err := parser.ParseFile(fset, filepath.Join(dir, n), nil, parser.SkipObjectResolution)
		if err != nil {
			return nil, err
		}
		if !tests && f.Name.Name != pkgName {
			continue
		}
		out = append(out, f)
	}
	return out, nil
}

func recvBase(e ast.Expr) string {
	for {
		switch x := e.(type) {
		case *ast.StarExpr:
			e = x.X
		case *ast.ParenExpr:
			e = x.X
		case *ast.IndexExpr:
			e = x.X
		case *ast.Ident:
			return x.Name
		default:
			return ""
		}
	}
}

func embeddedKey(pkg string, e ast.Expr) string {
	for {
		switch x := e.(type) {
		case *ast.StarExpr:
			e = x.X
		case *ast.Ident:
			return pkg + "." + x.Name
		case *ast.SelectorExpr:
			if id, ok := x.X.(*ast.Ident); ok {
				return id.Name + "." + x.Sel.Name
			}
			return ""
		default:
			return ""
		}
	}
}

func typeString(pkg string, e ast.Expr) string {
	switch x := e.(type) {
	case *ast.ArrayType:
		if x.Len == nil {
			return "[]" + typeString(pkg, x.Elt)
		}
		return "[n]" + typeString(pkg, x.Elt)
	case *ast.StarExpr:
		return "*" + typeString(pkg, x.X)
	case *ast.Ident:
		if ast.IsExported(x.Name) {
			return pkg + "." + x.Name
		}
		return x.Name
	case *ast.SelectorExpr:
		if id, ok := x.X.(*ast.Ident); ok {
			return id.Name + "." + x.Sel.Name
		}
	}
	return "?"
}

// Enumerate lists the exported types of the two packages with the interfaces they satisfy (by method names).
func Enumerate(repo string) ([]TypeInfo, error) {
	fset := token.NewFileSet()
	decls := map[string]*typeDecl{}
	for _, p := range []struct{ dir, pkg string }{{repo, "gopacket"}, {filepath.Join(repo, "layers"), "layers"}} {
		files, err := parseDir(fset, p.dir, p.pkg, false)
		if err != nil {
			return nil, err
		}
		if len(files) == 0 {
			return nil, fmt.Errorf("no Go files of package %s in %s", p.pkg, p.dir)
		}
		get := func(name string) *typeDecl {
			k := p.pkg + "." + name
			d := decls[k]
			if d == nil {
				d = &typeDecl{pkg: p.pkg, name: name, methods: map[string]bool{}, results: map[string]string{}}
				decls[k] = d
			}
			return d
		}
		for _, f := range files {
			for _, dcl := range f.Decls {
				switch x := dcl.(type) {
				case *ast.GenDecl:
					if x.Tok != token.TYPE {
						continue
					}
					for _, s := range x.Specs {
						ts := s.(*ast.TypeSpec)
						d := get(ts.Name.Name)
						switch st := ts.Type.(type) {
						case *ast.StructType:
							d.isStruct = true
							for _, fld := range st.Fields.List {
								if len(fld.Names) == 0 {
									if k := embeddedKey(p.pkg, fld.Type); k != "" {
										d.embedded = append(d.embedded, k)
									}
								}
							}
						case *ast.InterfaceType:
							d.isIface = true
						}
					}
				case *ast.FuncDecl:
					if x.Recv == nil || len(x.Recv.List) != 1 {
						continue
					}
					if b := recvBase(x.Recv.List[0].Type); b != "" {
						get(b).methods[x.Name.Name] = true
						res := ""
						if x.Type.Params != nil {
							for _, r := range x.Type.Params.List {
								n := len(r.Names)
								if n == 0 {
									n = 1
								}
								for ; n > 0; n-- {
									res += typeString(p.pkg, r.Type) + ","
								}
							}
						}
						res += "->"
						if x.Type.Results != nil {
							for _, r := range x.Type.Results.List {
								res += typeString(p.pkg, r.Type) + ";"
							}
						}
						get(b).results[x.Name.Name] = res
					}
				}
			}
		}
	}
	// method name -> result types; a method declared on the type itself shadows promoted ones
	var methodSet func(k string, depth int) map[string]string
	methodSet = func(k string, depth int) map[string]string {
		out := map[string]string{}
		d := decls[k]
		if d == nil || depth > 8 {
			return out
		}
		for _, e := range d.embedded {
			for m, r := range methodSet(e, depth+1) {
				out[m] = r
			}
		}
		for m := range d.methods {
			out[m] = d.results[m]
		}
		return out
	}
	var out []TypeInfo
	for k, d := range decls {
		if !ast.IsExported(d.name) || d.isIface {
			continue
		}
		ms := methodSet(k, 0)
		ti := TypeInfo{Pkg: d.pkg, Name: d.name}
		ti.Decoding = ms["DecodeFromBytes"] == "[]byte,gopacket.DecodeFeedback,->error;"
		ti.DecodingLayer = ti.Decoding && ms["CanDecode"] == "->gopacket.LayerClass;" && ms["NextLayerType"] == "->gopacket.LayerType;" && ms["LayerPayload"] == "->[]byte;"
		ti.Serializable = ms["SerializeTo"] == "gopacket.SerializeBuffer,gopacket.SerializeOptions,->error;" && ms["LayerType"] == "->gopacket.LayerType;"
		if ti.Decoding || ti.Serializable {
			out = append(out, ti)
		}
	}
	sort.Slice(out, func(i, j int) bool { return out[i].Key() < out[j].Key() })
	return out, nil
}

// Seed is a byte literal found in a test file.
type Seed struct {
	Name string
	Data []byte
}

func litBytes(cl *ast.CompositeLit) ([]byte, bool) {
	at, ok := cl.Type.(*ast.ArrayType)
	if !ok || at.Len != nil {
		return nil, false
	}
	id, ok := at.Elt.(*ast.Ident)
	if !ok || (id.Name != "byte" && id.Name != "uint8") {
		return nil, false
	}
	out := make([]byte, 0, len(cl.Elts))
	for _, e := range cl.Elts {
		bl, ok := e.(*ast.BasicLit)
		if !ok {
			return nil, false
		}
		switch bl.Kind {
		case token.INT:
			v, err := strconv.ParseUint(strings.ReplaceAll(bl.Value, "_", ""), 0, 8)
			if err != nil {
				return nil, false
			}
			out = append(out, byte(v))
		case token.CHAR:
			s, err := strconv.Unquote(bl.Value)
			if err != nil || len(s) != 1 {
				return nil, false
			}
			out = append(out, s[0])
		default:
			return nil, false
		}
	}
	return out, true
}

// TestLiterals returns every constant []byte literal (>= 4 bytes) of the package's test files.
func TestLiterals(dir string) ([]Seed, error) {
	fset := token.NewFileSet()
	files, err := parseDir(fset, dir, "", true)
	if err != nil {
		return nil, err
	}
	var out []Seed
	for _, f := range files {
		ast.Inspect(f, func(n ast.Node) bool {
			cl, ok := n.(*ast.CompositeLit)
			if !ok {
				return true
			}
			if b, ok := litBytes(cl); ok {
				if len(b) >= 4 {
					pos := fset.Position(cl.Pos())
					out = append(out, Seed{Name: fmt.Sprintf("%s:%d", filepath.Base(pos.Filename), pos.Line), Data: b})
				}
				return false
			}
			return true
		})
	}
	sort.SliceStable(out, func(i, j int) bool { return out[i].Name < out[j].Name })
	return out, nil
}
