#!/bin/sh
# Build the framework from files on disk only (offline): Go harness against the repository,
# kernels regenerated from it (go2v), Coq development (full .vo build), extraction + OCaml runner.
set -e
cd "$(dirname "$0")"
export GOFLAGS=-mod=mod GOPROXY=off
REPO=${VERIF_REPO:-/repo}
mkdir -p harness/bin runner/gen
sed "s#@REPO@#$REPO#" harness/go.mod.tmpl > harness/bin/go.mod
cp $REPO/go.sum harness/bin/go.sum
cp $REPO/go.sum harness/go.sum
(cd harness && timeout 1800 go build -modfile bin/go.mod -tags verif -o bin/gpverif ./cmd/gpverif)
(cd harness && timeout 1800 go build -race -modfile bin/go.mod -o bin/racecheck ./cmd/racecheck || true)
(cd harness && VERIF_REPO=$REPO ./bin/gpverif go2v ../coq/Gen/Kernels.v.new && (cmp -s ../coq/Gen/Kernels.v.new ../coq/Gen/Kernels.v || mv ../coq/Gen/Kernels.v.new ../coq/Gen/Kernels.v); rm -f ../coq/Gen/Kernels.v.new)
(cd coq && timeout 6000 ./mk.sh)
coq/Extract/gen.sh
runner/genall.sh
(cd runner/gen && timeout 1200 coqc -Q ../../coq GP ../../coq/Extract/Extract.v && echo ok > .stamp)
(cd runner && timeout 1200 dune build ./main.exe)
./check --warm
echo setup done
