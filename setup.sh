#!/bin/sh
# Build the framework from files on disk only (offline): Coq development (full .vo build),
# extraction + OCaml runner, Go harness against /repo.
set -e
cd "$(dirname "$0")"
export GOFLAGS=-mod=mod GOPROXY=off
(cd coq && timeout 3000 ./mk.sh)
mkdir -p runner/gen
(cd runner/gen && timeout 1200 coqc -Q ../../coq GP ../../coq/Extract/Extract.v && echo ok > .stamp)
(cd runner && timeout 1200 dune build ./main.exe)
cp /repo/go.sum harness/go.sum
(cd harness && timeout 1800 go build -tags verif -o bin/gpverif ./cmd/gpverif)
echo setup done
