#!/bin/sh
# Build the framework from files on disk only (offline): Coq development (full .vo build),
# extraction + OCaml runner, Go harness against /repo.
set -e
cd "$(dirname "$0")"
export GOFLAGS=-mod=mod GOPROXY=off
(cd coq && timeout 3000 ./mk.sh)
mkdir -p runner/gen
coq/Extract/gen.sh
runner/genall.sh
(cd runner/gen && timeout 1200 coqc -Q ../../coq GP ../../coq/Extract/Extract.v && echo ok > .stamp)
(cd runner && timeout 1200 dune build ./main.exe)
REPO=${VERIF_REPO:-/repo}
mkdir -p harness/bin
sed "s#@REPO@#$REPO#" harness/go.mod.tmpl > harness/bin/go.mod
cp $REPO/go.sum harness/bin/go.sum
cp $REPO/go.sum harness/go.sum
(cd harness && timeout 1800 go build -modfile bin/go.mod -tags verif -o bin/gpverif ./cmd/gpverif)
(cd harness && timeout 1800 go build -race -modfile bin/go.mod -o bin/racecheck ./cmd/racecheck || true)
./check --warm
echo setup done
