(* Helpers of agent lsmall: reading a field back out of `pre ++ field ++ post` (for round-trip proofs of headers that
   contain variable-length or symbolic parts), 64-bit big-endian fields, a completely written PrependBytes region, and
   the bit-field arithmetic of flag words assembled with |.  Names are prefixed `sl_`. *)
From GP Require Import Base ListX Codec CodecBits MiscLib.
From Coq Require Import Lia ZifyBool ZifyNat.
Open Scope Z_scope.
Ltac Zify.zify_post_hook ::= Z.div_mod_to_equations.

(* binary.BigEndian.Uint64(data[i:i+8]) / PutUint64 *)
Definition sl_rd64 (l : list Z) (i : Z) : outcome Z :=
  obind (ml_rd32 l i) (fun a => obind (ml_rd32 l (i + 4)) (fun b => Ok (a * 4294967296 + b))).
Definition sl_put64 (x : Z) : list Z := ml_put32 (x / 4294967296) ++ ml_put32 x.

(* copy(buf[a:a+n], x): min(n, len x) octets of x, the rest of the n octets keep the zero written before *)
Definition sl_pad (n : nat) (x : list Z) : list Z := firstn n x ++ repeat 0 (n - length x).

(* one PrependBytes region, completely written with vs *)
Definition sl_region (n : Z) (junk : list Z) (vs : list Z) : outcome (list Z) := ml_wrc (cd_region n junk) 0 vs.

Lemma sl_region_ok n junk vs : zlen vs = n -> sl_region n junk vs = Ok vs.
Proof.
  intros H. unfold sl_region. pose proof (zlen_nonneg vs). pose proof (ml_tile_init n junk ltac:(lia)) as T.
  destruct (ml_tile_wrc _ _ vs _ 0 T eq_refl ltac:(change (zlen []) with 0; lia)) as [b [E T']].
  rewrite E. apply ml_tile_done in T'; [|cbn [app]; exact H]. subst b. reflexivity.
Qed.

Lemma sl_pad_len n x : length (sl_pad n x) = n.
Proof. unfold sl_pad. rewrite app_length, firstn_length, repeat_length. lia. Qed.

Lemma sl_pad_exact n x : length x = n -> sl_pad n x = x.
Proof. intros H. unfold sl_pad. rewrite firstn_all2 by lia. replace (n - length x)%nat with 0%nat by lia. apply app_nil_r. Qed.

Lemma sl_idx_at pre x post i : i = zlen pre -> cd_idx (pre ++ x :: post) i = Ok x.
Proof.
  intros ->. pose proof (zlen_nonneg pre). pose proof (zlen_nonneg post).
  rewrite cd_idx_ok by (rewrite zlen_app, zlen_cons; lia). f_equal. unfold zlen. rewrite Nat2Z.id.
  rewrite app_nth2 by lia. rewrite Nat.sub_diag. reflexivity.
Qed.

Lemma sl_rd16_at pre x post i : i = zlen pre -> 0 <= x < 65536 -> cd_rd16 (pre ++ cd_put16 x ++ post) i = Ok x.
Proof.
  intros Hi Hx. unfold cd_rd16, cd_put16. cbn [app]. rewrite (sl_idx_at pre _ _ i Hi). cbn [obind].
  change (pre ++ (x / 256) mod 256 :: x mod 256 :: post) with (pre ++ [(x / 256) mod 256] ++ x mod 256 :: post).
  rewrite app_assoc. rewrite (sl_idx_at (pre ++ [(x / 256) mod 256]) _ _ (i + 1)) by (rewrite zlen_app; change (zlen [_]) with 1; lia).
  cbn [obind]. f_equal. lia.
Qed.

Lemma sl_put32_split x : ml_put32 x = cd_put16 (x / 65536) ++ cd_put16 (x mod 65536).
Proof. unfold ml_put32, cd_put16. cbn [app]. apply (f_equal2 cons); [lia|]. apply (f_equal2 cons); [lia|]. apply (f_equal2 cons); [lia|]. apply (f_equal2 cons); [lia|reflexivity]. Qed.

Lemma sl_rd32_at pre x post i : i = zlen pre -> 0 <= x < 4294967296 -> ml_rd32 (pre ++ ml_put32 x ++ post) i = Ok x.
Proof.
  intros Hi Hx. unfold ml_rd32. rewrite sl_put32_split. rewrite <- app_assoc.
  rewrite (sl_rd16_at pre (x / 65536) _ i Hi) by lia. cbn [obind].
  rewrite app_assoc. rewrite (sl_rd16_at (pre ++ cd_put16 (x / 65536)) (x mod 65536) post (i + 2)) by (try (rewrite zlen_app; change (zlen (cd_put16 _)) with 2); lia).
  cbn [obind]. f_equal. lia.
Qed.

Lemma sl_rd64_at pre x post i : i = zlen pre -> 0 <= x < 18446744073709551616 -> sl_rd64 (pre ++ sl_put64 x ++ post) i = Ok x.
Proof.
  intros Hi Hx. unfold sl_rd64, sl_put64. rewrite <- app_assoc.
  rewrite (sl_rd32_at pre (x / 4294967296) _ i Hi) by lia. cbn [obind].
  assert (E : ml_put32 x = ml_put32 (x mod 4294967296)).
  { unfold ml_put32. apply (f_equal2 cons); [lia|]. apply (f_equal2 cons); [lia|]. apply (f_equal2 cons); [lia|]. apply (f_equal2 cons); [lia|reflexivity]. }
  rewrite E. rewrite app_assoc.
  rewrite (sl_rd32_at (pre ++ ml_put32 (x / 4294967296)) (x mod 4294967296) post (i + 4)) by (try (rewrite zlen_app; change (zlen (ml_put32 _)) with 4); lia).
  cbn [obind]. f_equal. lia.
Qed.

Lemma sl_slc_at pre m post a b : a = zlen pre -> b = zlen pre + zlen m -> cd_slc (pre ++ m ++ post) a b = Ok m.
Proof.
  intros -> ->. pose proof (zlen_nonneg pre). pose proof (zlen_nonneg m). pose proof (zlen_nonneg post).
  rewrite cd_slc_ok by (rewrite ?zlen_app; lia). f_equal. apply slice_at; unfold zlen; lia.
Qed.

Lemma sl_slc_tail pre post a b : a = zlen pre -> b = zlen pre + zlen post -> cd_slc (pre ++ post) a b = Ok post.
Proof. intros Ha Hb. rewrite <- (app_nil_r post) at 1. apply sl_slc_at; assumption. Qed.

Lemma sl_slc_head pre post b : b = zlen pre -> cd_slc (pre ++ post) 0 b = Ok pre.
Proof. intros Hb. change (pre ++ post) with ([] ++ pre ++ post). apply sl_slc_at; [reflexivity|]. change (zlen []) with 0. lia. Qed.

(* flag words: `if f then info |= 2^k` on a word below 2^k adds the bit *)
Definition sl_bz (b : bool) : Z := if b then 1 else 0.
Lemma sl_bz_range b : 0 <= sl_bz b <= 1. Proof. destruct b; cbn; lia. Qed.
Lemma sl_lor_flag x k (b : bool) : 0 <= k -> 0 <= x < 2 ^ k -> (if b then Z.lor x (2 ^ k) else x) = x + sl_bz b * 2 ^ k.
Proof.
  intros Hk Hx. destruct b; cbn [sl_bz]; [|lia]. rewrite cd_lor_bit; [lia|exact Hk|]. rewrite Z.div_small by lia. reflexivity.
Qed.
Lemma sl_bz_eqb b : (sl_bz b =? 1) = b. Proof. destruct b; reflexivity. Qed.
