(* list lemmas used across the development *)
From GP Require Import Base.
Open Scope nat_scope.

Lemma nth_error_upd {A} (l : list A) j v i :
  nth_error (upd l j v) i =
  if i =? j then (if j <? length l then Some v else None) else nth_error l i.
Proof.
  revert j i; induction l as [|h t IH]; intros j i.
  - cbn. destruct (i =? j); destruct i; reflexivity.
  - destruct j as [|j]; destruct i as [|i]; cbn [upd nth_error length]; try reflexivity.
    rewrite IH. change (S i =? S j) with (i =? j). change (S j <? S (length t)) with (j <? length t).
    reflexivity.
Qed.

Lemma upd_length {A} (l : list A) j v : length (upd l j v) = length l.
Proof. revert j; induction l as [|h t IH]; intros [|j]; cbn; auto. Qed.

Lemma slice_length {A} (l : list A) a b : b <= length l -> length (slice l a b) = b - a.
Proof. intros H. unfold slice. rewrite skipn_length, firstn_length. lia. Qed.

Lemma nth_error_skipn {A} (l : list A) a i : nth_error (skipn a l) i = nth_error l (a + i).
Proof.
  revert l; induction a as [|a IH]; intros l; cbn; [reflexivity|].
  destruct l as [|h t]; cbn; [destruct i; reflexivity|apply IH].
Qed.

Lemma nth_error_firstn {A} (l : list A) b i : i < b -> nth_error (firstn b l) i = nth_error l i.
Proof.
  revert l i; induction b as [|b IH]; intros l i H; [lia|].
  destruct l as [|h t]; cbn; [reflexivity|]. destruct i as [|i]; cbn; [reflexivity|]. apply IH; lia.
Qed.

Lemma nth_error_slice {A} (l : list A) a b i :
  a + i < b -> nth_error (slice l a b) i = nth_error l (a + i).
Proof. intros H. unfold slice. rewrite nth_error_skipn. apply nth_error_firstn; assumption. Qed.

Lemma nth_error_repeat {A} (x : A) n i : i < n -> nth_error (repeat x n) i = Some x.
Proof. revert i; induction n as [|n IH]; intros i H; [lia|]. destruct i; cbn; [reflexivity|apply IH; lia]. Qed.

Lemma nth_error_ext {A} (l1 l2 : list A) :
  (forall i, nth_error l1 i = nth_error l2 i) -> l1 = l2.
Proof.
  revert l2; induction l1 as [|h t IH]; intros [|h2 t2] H; try reflexivity.
  - specialize (H 0); discriminate.
  - specialize (H 0); discriminate.
  - f_equal. + specialize (H 0); cbn in H; congruence.
    + apply IH. intros i. exact (H (S i)).
Qed.

Lemma nth_error_Some_lt {A} (l : list A) i x : nth_error l i = Some x -> i < length l.
Proof. intros H. apply nth_error_Some. congruence. Qed.

Lemma nth_error_None_ge {A} (l : list A) i : length l <= i -> nth_error l i = None.
Proof. apply nth_error_None. Qed.
