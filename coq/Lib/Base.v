(* Common conventions (DESIGN.md section 3): bytes are Z, byte strings are list Z,
   machine integers are Z with the wrap written out, panics are outcomes. *)
From Coq Require Export List ZArith Lia Bool Arith.
Export ListNotations.

Open Scope Z_scope.

Definition byte_ok (b : Z) : Prop := 0 <= b < 256.
Definition bytes_ok (l : list Z) : Prop := Forall byte_ok l.
Definition byte_okb (b : Z) : bool := (0 <=? b) && (b <? 256).
Definition bytes_okb (l : list Z) : bool := forallb byte_okb l.

Definition wrap (w : Z) (x : Z) : Z := x mod (2 ^ w).
Definition u8 (x : Z) := x mod 256.
Definition u16 (x : Z) := x mod 65536.
Definition u32 (x : Z) := x mod 4294967296.
Definition u64 (x : Z) := x mod 18446744073709551616.

(* signed reinterpretation of an unsigned w-bit value *)
Definition sint (w : Z) (x : Z) : Z :=
  let m := 2 ^ w in let y := x mod m in if y <? m / 2 then y else y - m.

(* outcomes: a Go function either returns normally, returns an error, or panics *)
Inductive outcome (A : Type) : Type :=
| Ok (v : A)
| Err (cls : Z)      (* error class; the text of errors is never compared *)
| Panic (site : Z).  (* site: a small number identifying the checked operation *)
Arguments Ok {A} v.
Arguments Err {A} cls.
Arguments Panic {A} site.

Definition is_panic {A} (o : outcome A) : bool :=
  match o with Panic _ => true | _ => false end.

Definition obind {A B} (o : outcome A) (f : A -> outcome B) : outcome B :=
  match o with Ok v => f v | Err c => Err c | Panic s => Panic s end.

(* list update at a nat index; out-of-range leaves the list unchanged *)
Fixpoint upd {A} (l : list A) (i : nat) (v : A) : list A :=
  match l, i with
  | [], _ => []
  | _ :: t, O => v :: t
  | h :: t, S i' => h :: upd t i' v
  end.

(* write a block of values starting at index i *)
Fixpoint upd_range {A} (l : list A) (i : nat) (vs : list A) : list A :=
  match vs with
  | [] => l
  | v :: vs' => upd_range (upd l i v) (S i) vs'
  end.

(* slice l[a:b] *)
Definition slice {A} (l : list A) (a b : nat) : list A := skipn a (firstn b l).

(* big-endian / little-endian decoding of byte lists *)
Definition be_val (l : list Z) : Z := fold_left (fun acc b => acc * 256 + b) l 0.
Fixpoint le_val (l : list Z) : Z :=
  match l with [] => 0 | b :: t => b + 256 * le_val t end.

(* big-endian encoding of x into n bytes (low n bytes of x) *)
Fixpoint be_bytes (n : nat) (x : Z) : list Z :=
  match n with
  | O => []
  | S n' => be_bytes n' (x / 256) ++ [x mod 256]
  end.
Fixpoint le_bytes (n : nat) (x : Z) : list Z :=
  match n with
  | O => []
  | S n' => (x mod 256) :: le_bytes n' (x / 256)
  end.

Definition nthZ (l : list Z) (i : nat) : Z := nth i l 0.
