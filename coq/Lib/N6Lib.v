(* Shared helpers of the lnet6 layer models (ICMPv6/NDP, IPv6, GRE): checked indexing and
   slicing, big-endian fields, Go's copy(), the junk region returned by PrependBytes, and the
   Internet checksum with its uint32 accumulator.  Names are prefixed n6_ to avoid collisions
   with the other layer engineers' libraries.  Definitions first, lemmas after. *)
From GP Require Import Base ListX.
From Coq Require Import Lia ZifyBool ZifyNat.
Open Scope Z_scope.

(* ---------------------------------------------------------------- definitions *)

Definition n6_len (l : list Z) : Z := Z.of_nat (length l).

(* data[i]; None = Go panics (index out of range) *)
Definition n6_idx (l : list Z) (i : Z) : option Z :=
  if (0 <=? i) && (i <? n6_len l) then Some (nthZ l (Z.to_nat i)) else None.

(* data[a:b]; None = Go panics (slice bounds out of range) *)
Definition n6_slice (l : list Z) (a b : Z) : option (list Z) :=
  if (0 <=? a) && (a <=? b) && (b <=? n6_len l)
  then Some (slice l (Z.to_nat a) (Z.to_nat b)) else None.

(* data[a:] *)
Definition n6_from (l : list Z) (a : Z) : option (list Z) := n6_slice l a (n6_len l).

(* Go's copy(dst[off:], src) on a dst of fixed length, off <= len dst:
   min(len dst - off, len src) bytes are overwritten, the rest of dst keeps its content *)
Definition n6_put (dst : list Z) (off : nat) (src : list Z) : list Z :=
  firstn off dst ++ firstn (length dst - off) src ++ skipn (off + length src) dst.

(* The region PrependBytes(n)/AppendBytes(n) returns is NOT zeroed: its prior content is the
   junk argument of the serializers.  Each request takes the next n junk bytes (zeroes once the
   junk is used up: fresh memory from make() is zeroed). *)
Definition n6_take (n : nat) (junk : list Z) : list Z * list Z :=
  (firstn n (junk ++ repeat 0 n), skipn n junk).

(* checksum.go:36-51 ComputeChecksum, uint32 accumulator: the loop adds data[i]<<8 and data[i+1]
   for i = 0,2,.. < len-1, then the odd last byte <<8 *)
Fixpoint n6_csum (data : list Z) (csum : Z) : Z :=
  match data with
  | [] => csum
  | [a] => u32 (csum + a * 256)
  | a :: b :: t => n6_csum t (u32 (u32 (csum + a * 256) + b))
  end.

(* checksum.go:54-59 FoldChecksum: for csum > 0xffff { csum = csum>>16 + csum&0xffff }; ^uint16(csum).
   Two rounds are enough for a uint32 (lemma n6_fold_rounds). *)
Definition n6_fold1 (c : Z) : Z := if 65535 <? c then c / 65536 + c mod 65536 else c.
Definition n6_fold (c : Z) : Z := 65535 - (n6_fold1 (n6_fold1 (n6_fold1 c))) mod 65536.

(* fuel exhaustion is reported as this panic site (class "stuck" in the observations) *)
Definition N6_FUEL : Z := 999.

(* the class of an outcome as printed by harness and runner: 0 ok, 1 err, 2 panic, 3 stuck *)
Definition n6_class {A} (o : outcome A) : Z :=
  match o with Ok _ => 0 | Err _ => 1 | Panic s => if s =? N6_FUEL then 3 else 2 end.

Definition n6_is_ok {A} (o : outcome A) : bool := match o with Ok _ => true | _ => false end.

(* consecutive writes of segments into a region returned by PrependBytes, starting at off; a
   write past the end of the region would be an index panic (None) *)
Fixpoint write_segs (region : list Z) (off : nat) (segs : list (list Z)) : option (list Z) :=
  match segs with
  | [] => Some region
  | s :: t =>
      if Nat.leb (off + length s) (length region)
      then write_segs (n6_put region off s) (off + length s) t
      else None
  end.


(* ---------------------------------------------------------------- lemmas *)
Ltac Zify.zify_post_hook ::= Z.div_mod_to_equations.

Lemma n6_len_nonneg l : 0 <= n6_len l.
Proof. unfold n6_len; lia. Qed.

Lemma n6_len_app a b : n6_len (a ++ b) = n6_len a + n6_len b.
Proof. unfold n6_len; rewrite app_length; lia. Qed.

Lemma n6_len_cons a l : n6_len (a :: l) = 1 + n6_len l.
Proof. unfold n6_len. cbn [length]. lia. Qed.

Lemma n6_idx_some l i : 0 <= i < n6_len l -> exists v, n6_idx l i = Some v.
Proof. intros H. unfold n6_idx. destruct ((0 <=? i) && (i <? n6_len l)) eqn:E; [eauto|lia]. Qed.

Lemma n6_slice_some l a b : 0 <= a <= b -> b <= n6_len l -> exists v, n6_slice l a b = Some v.
Proof. intros H1 H2. unfold n6_slice. destruct ((0 <=? a) && (a <=? b) && (b <=? n6_len l)) eqn:E; [eauto|lia]. Qed.

Lemma n6_slice_eq l a b : 0 <= a <= b -> b <= n6_len l ->
  n6_slice l a b = Some (slice l (Z.to_nat a) (Z.to_nat b)).
Proof. intros H1 H2. unfold n6_slice. destruct ((0 <=? a) && (a <=? b) && (b <=? n6_len l)) eqn:E; [reflexivity|lia]. Qed.

Lemma n6_idx_eq l i : 0 <= i < n6_len l -> n6_idx l i = Some (nthZ l (Z.to_nat i)).
Proof. intros H. unfold n6_idx. destruct ((0 <=? i) && (i <? n6_len l)) eqn:E; [reflexivity|lia]. Qed.

Lemma n6_from_eq l a : 0 <= a <= n6_len l -> n6_from l a = Some (skipn (Z.to_nat a) l).
Proof.
  intros H. unfold n6_from. rewrite n6_slice_eq by lia. f_equal. unfold slice, n6_len.
  rewrite Nat2Z.id, firstn_all. reflexivity.
Qed.

Lemma n6_slice_len l a b v : n6_slice l a b = Some v -> n6_len v = b - a.
Proof.
  unfold n6_slice. destruct ((0 <=? a) && (a <=? b) && (b <=? n6_len l)) eqn:E; [|discriminate].
  intros [= <-]. unfold n6_len in *. rewrite slice_length by lia. lia.
Qed.

Lemma slice_app_l (l r : list Z) a b : (b <= length l)%nat -> slice (l ++ r) a b = slice l a b.
Proof. intros H. unfold slice. rewrite firstn_app. replace (b - length l)%nat with 0%nat by lia. cbn. rewrite app_nil_r. reflexivity. Qed.

Lemma slice_app_r (l r : list Z) a b : (length l <= a)%nat ->
  slice (l ++ r) a b = slice r (a - length l) (b - length l).
Proof.
  intros H. unfold slice.
  destruct (Nat.le_ge_cases b (length l)) as [Hb|Hb].
  - rewrite (skipn_all2 (firstn b (l ++ r))) by (rewrite firstn_length; lia).
    replace (b - length l)%nat with 0%nat by lia. cbn [firstn]. rewrite skipn_nil. reflexivity.
  - rewrite firstn_app, skipn_app, firstn_all2 by lia.
    rewrite (skipn_all2 l) by lia. reflexivity.
Qed.

Lemma slice_0_all (l : list Z) : slice l 0 (length l) = l.
Proof. unfold slice. cbn. apply firstn_all. Qed.

Lemma slice_0 (l : list Z) b : slice l 0 b = firstn b l.
Proof. reflexivity. Qed.

Lemma n6_put_length dst off src : (off <= length dst)%nat -> length (n6_put dst off src) = length dst.
Proof.
  intros H. unfold n6_put. rewrite !app_length, !firstn_length, skipn_length. lia.
Qed.

(* a copy that covers the whole destination *)
Lemma n6_put_full dst src : length src = length dst -> n6_put dst 0 src = src.
Proof.
  intros H. unfold n6_put. cbn [firstn app Nat.add]. rewrite Nat.sub_0_r, <- H, firstn_all.
  rewrite H, skipn_all. apply app_nil_r.
Qed.

Lemma n6_take_length n junk : length (fst (n6_take n junk)) = n.
Proof.
  unfold n6_take. cbn [fst]. rewrite firstn_length, app_length, repeat_length. lia.
Qed.

Lemma be_bytes_length n x : length (be_bytes n x) = n.
Proof. revert x; induction n as [|n IH]; intros x; cbn; [reflexivity|]. rewrite app_length, IH. cbn. lia. Qed.

Lemma be_val_app a b : be_val (a ++ b) = be_val a * 256 ^ (Z.of_nat (length b)) + be_val b.
Proof.
  unfold be_val. rewrite fold_left_app. generalize (fold_left (fun acc b0 => acc * 256 + b0) a 0).
  induction b as [|h t IH]; intros z.
  - cbn. lia.
  - cbn [fold_left length]. rewrite IH. rewrite (IH (0 * 256 + h)).
    rewrite Nat2Z.inj_succ, Z.pow_succ_r by lia. ring.
Qed.

Lemma be_val_be_bytes n x : be_val (be_bytes n x) = x mod 256 ^ (Z.of_nat n).
Proof.
  revert x; induction n as [|n IH]; intros x.
  - cbn. rewrite Z.mod_1_r. reflexivity.
  - cbn [be_bytes]. rewrite be_val_app, IH.
    replace (Z.of_nat (S n)) with (Z.succ (Z.of_nat n)) by lia.
    rewrite Z.pow_succ_r by lia.
    change (Z.of_nat (length [x mod 256])) with 1. change (256 ^ 1) with 256.
    change (be_val [x mod 256]) with (0 * 256 + x mod 256).
    assert (P : 0 < 256 ^ Z.of_nat n) by (apply Z.pow_pos_nonneg; lia).
    rewrite Z.rem_mul_r by lia. lia.
Qed.

Lemma be_bytes_ok n x : bytes_ok (be_bytes n x).
Proof.
  revert x; induction n as [|n IH]; intros x; cbn; [constructor|].
  apply Forall_app; split; [apply IH|]. constructor; [|constructor]. unfold byte_ok. lia.
Qed.

Lemma n6_fold_range c : 0 <= n6_fold c < 65536.
Proof. unfold n6_fold. lia. Qed.

(* FoldChecksum's loop terminates within two rounds on a uint32: the third round is the identity *)
Lemma n6_fold_rounds c : 0 <= c < 4294967296 -> n6_fold1 (n6_fold1 c) <= 65535.
Proof.
  intros H. unfold n6_fold1. destruct (65535 <? c) eqn:E1.
  - destruct (65535 <? c / 65536 + c mod 65536) eqn:E2; lia.
  - rewrite E1. lia.
Qed.

Lemma n6_csum_range data c : 0 <= c < 4294967296 -> 0 <= n6_csum data c < 4294967296.
Proof.
  assert (G : forall d, (forall c, 0 <= c < 4294967296 -> 0 <= n6_csum d c < 4294967296) /\
                        (forall a c, 0 <= c < 4294967296 -> 0 <= n6_csum (a :: d) c < 4294967296)).
  { intros d. induction d as [|b t IH].
    - split; intros; cbn [n6_csum]; unfold u32; lia.
    - destruct IH as [IH1 IH2]. split; intros.
      + apply IH2; assumption.
      + cbn [n6_csum]. apply IH1. unfold u32. lia. }
  apply G; assumption.
Qed.

Lemma bytes_ok_app a b : bytes_ok a -> bytes_ok b -> bytes_ok (a ++ b).
Proof. intros. apply Forall_app; split; assumption. Qed.

Lemma In_firstn' {A} n (l : list A) x : In x (firstn n l) -> In x l.
Proof. revert l; induction n as [|n IH]; intros l H; [destruct H|]. destruct l; [destruct H|]. destruct H as [H|H]; [left; exact H|right; apply IH, H]. Qed.

Lemma bytes_ok_firstn n l : bytes_ok l -> bytes_ok (firstn n l).
Proof. intros H. apply Forall_forall. intros x Hx. eapply Forall_forall in H; [exact H|]. eapply In_firstn'; eauto. Qed.

Lemma In_skipn {A} n (l : list A) x : In x (skipn n l) -> In x l.
Proof. revert l; induction n as [|n IH]; intros l H; [exact H|]. destruct l; [destruct H|]. right. apply IH, H. Qed.

Lemma bytes_ok_skipn n l : bytes_ok l -> bytes_ok (skipn n l).
Proof. intros H. apply Forall_forall. intros x Hx. eapply Forall_forall in H; [exact H|]. eapply In_skipn; eauto. Qed.

Lemma bytes_ok_slice l a b : bytes_ok l -> bytes_ok (slice l a b).
Proof. intros H. unfold slice. apply bytes_ok_skipn, bytes_ok_firstn, H. Qed.

Lemma nthZ_ok l i : bytes_ok l -> (i < length l)%nat -> byte_ok (nthZ l i).
Proof. intros H Hi. unfold nthZ. eapply Forall_forall in H; [exact H|]. apply nth_In, Hi. Qed.

Lemma bytes_okb_ok l : bytes_okb l = true <-> bytes_ok l.
Proof.
  unfold bytes_okb, bytes_ok. rewrite forallb_forall, Forall_forall.
  split; intros H x Hx; specialize (H x Hx); unfold byte_okb, byte_ok in *; lia.
Qed.

Lemma n6_put_eq (r : list Z) off s : (off + length s <= length r)%nat ->
  n6_put r off s = firstn off r ++ s ++ skipn (off + length s) r.
Proof. intros H. unfold n6_put. rewrite (firstn_all2 s) by lia. reflexivity. Qed.

Lemma skipn_skipn' {A} (l : list A) n m : skipn n (skipn m l) = skipn (m + n) l.
Proof. revert l; induction m as [|m IH]; intros l; [reflexivity|]. destruct l; [rewrite !skipn_nil; reflexivity|]. cbn. apply IH. Qed.

Lemma n6_put_app (pre rest s : list Z) : (length s <= length rest)%nat ->
  n6_put (pre ++ rest) (length pre) s = pre ++ s ++ skipn (length s) rest.
Proof.
  intros H. rewrite n6_put_eq by (rewrite app_length; lia).
  rewrite firstn_app, Nat.sub_diag, firstn_all. cbn [firstn]. rewrite app_nil_r.
  rewrite skipn_app, (skipn_all2 pre) by lia. cbn [app].
  replace (length pre + length s - length pre)%nat with (length s) by lia. reflexivity.
Qed.

Lemma write_segs_app segs : forall pre rest, (length (concat segs) <= length rest)%nat ->
  write_segs (pre ++ rest) (length pre) segs = Some (pre ++ concat segs ++ skipn (length (concat segs)) rest).
Proof.
  induction segs as [|s t IH]; intros pre rest H; [reflexivity|].
  cbn [write_segs concat] in *. rewrite app_length in H.
  replace (Nat.leb (length pre + length s) (length (pre ++ rest))) with true
    by (symmetry; apply Nat.leb_le; rewrite app_length; lia).
  rewrite n6_put_app by lia. rewrite app_assoc.
  replace (length pre + length s)%nat with (length (pre ++ s)) by (rewrite app_length; reflexivity).
  rewrite IH by (rewrite skipn_length; lia).
  rewrite skipn_skipn', app_length, <- !app_assoc. reflexivity.
Qed.

Lemma write_segs_ok segs region : length (concat segs) = length region ->
  write_segs region 0 segs = Some (concat segs).
Proof.
  intros H. pose proof (write_segs_app segs [] region ltac:(lia)) as P. cbn [app length] in P.
  rewrite P, H, skipn_all, app_nil_r. reflexivity.
Qed.

