(* Strong confluence (diamond property) of a transition relation: every maximal run from a
   state has the same length and ends in the same state.  Used for schedule independence of
   deterministic processes communicating by rendezvous (C20). *)
From Coq Require Import Arith Lia.

Section Diamond.
  Variable St : Type.
  Variable R : St -> St -> Prop.

  Definition nf (s : St) : Prop := forall s', ~ R s s'.

  Inductive steps : nat -> St -> St -> Prop :=
  | steps_O : forall s, steps 0 s s
  | steps_S : forall n s u t, R s u -> steps n u t -> steps (S n) s t.

  Definition diamond : Prop :=
    forall s s1 s2, R s s1 -> R s s2 -> s1 = s2 \/ exists s3, R s1 s3 /\ R s2 s3.

  Lemma steps_trans : forall n s u, steps n s u -> forall m t, steps m u t -> steps (n + m) s t.
  Proof.
    induction 1 as [s | n s u t Hr Hs IH]; intros m t' Hm; cbn.
    - exact Hm.
    - eapply steps_S; [exact Hr | apply IH; exact Hm].
  Qed.

  Lemma steps_snoc : forall n s u t, steps n s u -> R u t -> steps (S n) s t.
  Proof.
    intros n s u t Hs Hr.
    replace (S n) with (n + 1) by lia.
    eapply steps_trans; [exact Hs | eapply steps_S; [exact Hr | apply steps_O]].
  Qed.

  Hypothesis Hd : diamond.

  (* a run to a normal form can be re-rooted at any successor of its start *)
  Lemma steps_shift : forall n s t, steps n s t -> nf t ->
    forall s1, R s s1 -> exists m, n = S m /\ steps m s1 t.
  Proof.
    induction n as [|n IH]; intros s t Hs Hnf s1 Hr.
    - inversion Hs; subst. exfalso. exact (Hnf _ Hr).
    - inversion Hs as [|n' s' u t' Hsu Hut]; subst.
      destruct (Hd _ _ _ Hsu Hr) as [Heq | [w [Huw Hs1w]]].
      + subst. exists n. split; [reflexivity | exact Hut].
      + destruct (IH _ _ Hut Hnf _ Huw) as [m [Hm Hwt]].
        exists n. split; [reflexivity|]. subst n. eapply steps_S; [exact Hs1w | exact Hwt].
  Qed.

  Theorem nf_unique : forall n1 s t1, steps n1 s t1 -> nf t1 ->
    forall n2 t2, steps n2 s t2 -> nf t2 -> t1 = t2 /\ n1 = n2.
  Proof.
    induction n1 as [|n1 IH]; intros s t1 H1 Hnf1 n2 t2 H2 Hnf2.
    - inversion H1; subst. inversion H2 as [|n' s' u t' Hsu Hut]; subst.
      + split; reflexivity.
      + exfalso. exact (Hnf1 _ Hsu).
    - inversion H1 as [|n' s' u t' Hsu Hut]; subst.
      destruct (steps_shift _ _ _ H2 Hnf2 _ Hsu) as [m [Hm Hm2]].
      destruct (IH _ _ Hut Hnf1 _ _ Hm2 Hnf2) as [Ht Hn]. subst. split; reflexivity.
  Qed.

  (* every run (maximal or not) is no longer than a run to a normal form *)
  Lemma steps_le : forall n1 s t1, steps n1 s t1 -> nf t1 -> forall n2 t2, steps n2 s t2 -> n2 <= n1.
  Proof.
    induction n1 as [|n1 IH]; intros s t1 H1 Hnf1 n2 t2 H2.
    - inversion H1; subst. inversion H2 as [|n' s' u t' Hsu Hut]; subst; [lia|].
      exfalso. exact (Hnf1 _ Hsu).
    - inversion H2 as [|n' s' u t' Hsu Hut]; subst; [lia|].
      destruct (steps_shift _ _ _ H1 Hnf1 _ Hsu) as [m [Hm Hm2]].
      injection Hm as Hm. subst m.
      specialize (IH _ _ Hm2 Hnf1 _ _ Hut). lia.
  Qed.
End Diamond.

Arguments nf {St} R s.
Arguments steps {St} R n s t.
Arguments diamond {St} R.
