(* Shared helpers of the layer codecs modelled by `lnet4` (IPv4, UDP, Ethernet, Dot1Q, ICMPv4):
   checked indexing/slicing (panic = outcome), big-endian 16-bit fields, in-place writes into
   the region returned by PrependBytes, the Internet checksum as written in /repo/checksum.go.
   Definitions only plus their elementary lemmas (all closed). Names are prefixed `cd_`. *)
From GP Require Import Base ListX.
From Coq Require Import Lia ZifyBool ZifyNat.
Open Scope Z_scope.

Definition zlen (l : list Z) : Z := Z.of_nat (length l).

(* data[i]: Go panics when i is outside [0,len) *)
Definition cd_idx (l : list Z) (i : Z) : outcome Z :=
  if (0 <=? i) && (i <? zlen l) then Ok (nth (Z.to_nat i) l 0) else Panic 1.

(* data[a:b]: Go panics when not 0 <= a <= b <= cap.  We check against len, which is
   stricter (len <= cap): a model without Panic implies a program without panic. *)
Definition cd_slc (l : list Z) (a b : Z) : outcome (list Z) :=
  if (0 <=? a) && (a <=? b) && (b <=? zlen l)
  then Ok (slice l (Z.to_nat a) (Z.to_nat b)) else Panic 2.

(* binary.BigEndian.Uint16(data[i:i+2]) *)
Definition cd_rd16 (l : list Z) (i : Z) : outcome Z :=
  obind (cd_idx l i) (fun a => obind (cd_idx l (i + 1)) (fun b => Ok (a * 256 + b))).

(* binary.BigEndian.PutUint16 of a uint16 value *)
Definition cd_put16 (x : Z) : list Z := [(x / 256) mod 256; x mod 256].

(* in-place write of vs at offset i of the array b (caller has checked the range) *)
Definition cd_wr (b : list Z) (i : Z) (vs : list Z) : list Z := upd_range b (Z.to_nat i) vs.

(* the n bytes PrependBytes/AppendBytes return: prior content (junk), whatever it is *)
Definition cd_region (n : Z) (junk : list Z) : list Z :=
  firstn (Z.to_nat n) (junk ++ repeat 0 (Z.to_nat n)).

(* checksum.go:34-51 ComputeChecksum — uint32 accumulator, wrap written out *)
Fixpoint cd_csum (data : list Z) (acc : Z) : Z :=
  match data with
  | a :: b :: t => cd_csum t (u32 (u32 (acc + a * 256) + b))
  | [a] => u32 (acc + a * 256)
  | [] => acc
  end.

(* checksum.go:53-58 FoldChecksum: `for csum > 0xffff { csum = csum>>16 + csum&0xffff }`.
   Explicit fuel; cd_fold_fuel_enough shows 2 rounds suffice for a uint32. *)
Fixpoint cd_fold_loop (fuel : nat) (c : Z) : option Z :=
  if c >? 65535 then
    match fuel with O => None | S f => cd_fold_loop f (c / 65536 + c mod 65536) end
  else Some c.
Definition cd_fold (c : Z) : Z :=
  match cd_fold_loop 4 c with
  | Some r => 65535 - r mod 65536      (* ^uint16(csum) *)
  | None => -1                          (* out of fuel: excluded by cd_fold_fuel_enough *)
  end.

(* ---------------------------------------------------------------- lemmas *)
Ltac Zify.zify_post_hook ::= Z.div_mod_to_equations.

Lemma cd_idx_ok l i : 0 <= i < zlen l -> cd_idx l i = Ok (nth (Z.to_nat i) l 0).
Proof. intros H. unfold cd_idx. destruct (0 <=? i) eqn:A, (i <? zlen l) eqn:B; try reflexivity; lia. Qed.

Lemma cd_idx_no_panic_iff l i : is_panic (cd_idx l i) = false <-> 0 <= i < zlen l.
Proof. unfold cd_idx. destruct (0 <=? i) eqn:A, (i <? zlen l) eqn:B; cbn; split; intros; try lia; try discriminate; reflexivity. Qed.

Lemma cd_slc_ok l a b : 0 <= a <= b -> b <= zlen l ->
  cd_slc l a b = Ok (slice l (Z.to_nat a) (Z.to_nat b)).
Proof.
  intros H1 H2. unfold cd_slc.
  destruct (0 <=? a) eqn:A, (a <=? b) eqn:B, (b <=? zlen l) eqn:C; try reflexivity; lia.
Qed.

Lemma cd_rd16_ok l i : 0 <= i -> i + 1 < zlen l ->
  cd_rd16 l i = Ok (nth (Z.to_nat i) l 0 * 256 + nth (Z.to_nat (i + 1)) l 0).
Proof. intros. unfold cd_rd16. rewrite !cd_idx_ok by lia. reflexivity. Qed.

Lemma cd_region_length n junk : 0 <= n -> zlen (cd_region n junk) = n.
Proof.
  intros H. unfold zlen, cd_region. rewrite firstn_length, app_length, repeat_length. lia.
Qed.

Lemma upd_range_length {A} (vs : list A) : forall l i, length (upd_range l i vs) = length l.
Proof. induction vs as [|v vs IH]; intros l i; cbn; [reflexivity|]. rewrite IH, upd_length. reflexivity. Qed.

Lemma cd_wr_length b i vs : zlen (cd_wr b i vs) = zlen b.
Proof. unfold zlen, cd_wr. rewrite upd_range_length. reflexivity. Qed.

Lemma upd_app_l {A} (a b : list A) i v : (i < length a)%nat -> upd (a ++ b) i v = upd a i v ++ b.
Proof.
  revert i; induction a as [|h t IH]; intros i H; cbn in *; [lia|].
  destruct i; cbn; [reflexivity|]. rewrite IH by lia. reflexivity.
Qed.

Lemma upd_app_r {A} (a b : list A) i v : upd (a ++ b) (length a + i) v = a ++ upd b i v.
Proof. induction a as [|h t IH]; cbn; [reflexivity|]. rewrite IH. reflexivity. Qed.

Lemma upd_range_app_l {A} (vs : list A) : forall (a b : list A) i,
  (i + length vs <= length a)%nat -> upd_range (a ++ b) i vs = upd_range a i vs ++ b.
Proof.
  induction vs as [|v vs IH]; intros a b i H; cbn in *; [reflexivity|].
  rewrite upd_app_l by lia. apply IH. rewrite upd_length. lia.
Qed.

Lemma upd_range_app_r {A} (vs : list A) : forall (a b : list A) i,
  upd_range (a ++ b) (length a + i) vs = a ++ upd_range b i vs.
Proof.
  induction vs as [|v vs IH]; intros a b i; cbn; [reflexivity|].
  rewrite upd_app_r. replace (S (length a + i)) with (length a + S i)%nat by lia. apply IH.
Qed.

(* writing a whole prefix replaces it, whatever it held *)
Lemma upd_range_prefix {A} (vs : list A) : forall (a b : list A),
  length a = length vs -> upd_range (a ++ b) 0 vs = vs ++ b.
Proof.
  induction vs as [|v vs IH]; intros a b H; destruct a as [|x a]; cbn in *; try discriminate; [reflexivity|].
  inversion H as [H']. change (x :: a ++ b) with ([x] ++ (a ++ b)).
  change (v :: a ++ b) with ([v] ++ (a ++ b)).
  change 1%nat with (length [v] + 0)%nat. rewrite upd_range_app_r. cbn. f_equal. apply IH. exact H'.
Qed.

Lemma cd_csum_range : forall data acc, 0 <= acc < 4294967296 -> 0 <= cd_csum data acc < 4294967296.
Proof.
  fix IH 1. intros data acc H. destruct data as [|a [|b t]]; cbn [cd_csum].
  - exact H.
  - unfold u32. lia.
  - apply IH. unfold u32. lia.
Qed.

Lemma cd_fold_fuel_enough c : 0 <= c < 4294967296 -> exists r, cd_fold_loop 4 c = Some r /\ 0 <= r <= 65535.
Proof.
  intros H. cbn [cd_fold_loop].
  destruct (c >? 65535) eqn:A; [|exists c; split; [reflexivity|lia]].
  set (c1 := c / 65536 + c mod 65536). assert (0 <= c1 <= 131070) by (unfold c1; lia).
  destruct (c1 >? 65535) eqn:B; [|exists c1; split; [reflexivity|lia]].
  set (c2 := c1 / 65536 + c1 mod 65536). assert (0 <= c2 <= 65535) by (unfold c2; lia).
  destruct (c2 >? 65535) eqn:C; [lia|]. exists c2; split; [reflexivity|lia].
Qed.

Lemma cd_fold_range c : 0 <= c < 4294967296 -> 0 <= cd_fold c < 65536.
Proof.
  intros H. destruct (cd_fold_fuel_enough c H) as [r [E R]]. unfold cd_fold. rewrite E. lia.
Qed.

Lemma cd_put16_be x : 0 <= x < 65536 -> (x / 256) mod 256 * 256 + x mod 256 = x.
Proof. intros; lia. Qed.
