(* little/big-endian encode/decode round trips and ranges (Base.le_val, be_val, le_bytes, be_bytes) *)
From GP Require Import Base.
From Coq Require Import Lia ZifyBool ZifyNat.
Open Scope Z_scope.

Lemma le_bytes_length n x : length (le_bytes n x) = n.
Proof. revert x; induction n as [|n IH]; intros x; cbn [le_bytes length]; [reflexivity|]. now rewrite IH. Qed.

Lemma be_bytes_length n x : length (be_bytes n x) = n.
Proof.
  revert x; induction n as [|n IH]; intros x; cbn [be_bytes]; [reflexivity|].
  rewrite app_length, IH. cbn. lia.
Qed.

Lemma le_val_le_bytes n x : le_val (le_bytes n x) = x mod 256 ^ Z.of_nat n.
Proof.
  revert x; induction n as [|n IH]; intros x.
  - cbn. now rewrite Z.mod_1_r.
  - cbn [le_bytes le_val]. rewrite IH.
    replace (Z.of_nat (S n)) with (Z.of_nat n + 1) by lia.
    rewrite Z.pow_add_r, Z.pow_1_r by lia.
    assert (Hp : 0 < 256 ^ Z.of_nat n) by (apply Z.pow_pos_nonneg; lia).
    rewrite (Z.mul_comm (256 ^ Z.of_nat n) 256).
    rewrite Z.rem_mul_r by lia. lia.
Qed.

Lemma be_val_app l b : be_val (l ++ [b]) = be_val l * 256 + b.
Proof. unfold be_val. now rewrite fold_left_app. Qed.

Lemma be_val_be_bytes n x : be_val (be_bytes n x) = x mod 256 ^ Z.of_nat n.
Proof.
  revert x; induction n as [|n IH]; intros x.
  - cbn. now rewrite Z.mod_1_r.
  - cbn [be_bytes]. rewrite be_val_app, IH.
    replace (Z.of_nat (S n)) with (Z.of_nat n + 1) by lia.
    rewrite Z.pow_add_r, Z.pow_1_r by lia.
    assert (Hp : 0 < 256 ^ Z.of_nat n) by (apply Z.pow_pos_nonneg; lia).
    rewrite (Z.mul_comm (256 ^ Z.of_nat n) 256).
    rewrite Z.rem_mul_r by lia. lia.
Qed.

Lemma le_val_range l : Forall byte_ok l -> 0 <= le_val l < 256 ^ Z.of_nat (length l).
Proof.
  induction 1 as [|b t Hb Ht IH].
  - cbn. lia.
  - cbn [le_val length]. replace (Z.of_nat (S (length t))) with (Z.of_nat (length t) + 1) by lia.
    rewrite Z.pow_add_r, Z.pow_1_r by lia. unfold byte_ok in Hb. lia.
Qed.

Lemma be_val_range l : Forall byte_ok l -> 0 <= be_val l < 256 ^ Z.of_nat (length l).
Proof.
  induction l as [|b t IH] using rev_ind; intros H.
  - cbn. lia.
  - apply Forall_app in H as [Ht Hb]. inversion Hb as [|? ? Hb' _]; subst.
    rewrite be_val_app, app_length. cbn [length].
    replace (Z.of_nat (length t + 1)) with (Z.of_nat (length t) + 1) by lia.
    rewrite Z.pow_add_r, Z.pow_1_r by lia. specialize (IH Ht). unfold byte_ok in Hb'. lia.
Qed.

Lemma le_bytes_ok n x : Forall byte_ok (le_bytes n x).
Proof.
  revert x; induction n as [|n IH]; intros x; cbn [le_bytes]; constructor; [|apply IH].
  unfold byte_ok. apply Z.mod_pos_bound. lia.
Qed.

Lemma be_bytes_ok n x : Forall byte_ok (be_bytes n x).
Proof.
  revert x; induction n as [|n IH]; intros x; cbn [be_bytes]; [constructor|].
  apply Forall_app; split; [apply IH|]. constructor; [|constructor].
  unfold byte_ok. apply Z.mod_pos_bound. lia.
Qed.

(* slices of concatenations *)
Lemma slice_app_mid {A} (a b c : list A) n m :
  n = length a -> m = (length a + length b)%nat -> slice (a ++ b ++ c) n m = b.
Proof.
  intros -> ->. unfold slice.
  rewrite app_assoc, firstn_app.
  replace (length a + length b - length (a ++ b))%nat with 0%nat by (rewrite app_length; lia).
  rewrite firstn_O, app_nil_r.
  rewrite firstn_all2 by (rewrite app_length; lia).
  rewrite skipn_app, skipn_all, Nat.sub_diag. reflexivity.
Qed.

Lemma firstn_app_exact {A} (a b : list A) n : n = length a -> firstn n (a ++ b) = a.
Proof. intros ->. rewrite firstn_app, Nat.sub_diag, firstn_O, app_nil_r. apply firstn_all. Qed.

Lemma skipn_app_exact {A} (a b : list A) n : n = length a -> skipn n (a ++ b) = b.
Proof. intros ->. rewrite skipn_app, Nat.sub_diag, skipn_all. reflexivity. Qed.
