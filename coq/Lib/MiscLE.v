(* Little-endian reads and NUL-terminated strings shared by the layer models of `lmisc` (Prism, Pktap, LCM...).  Prefix `ml_`. *)
From GP Require Import Base ListX Codec MiscLib.
From Coq Require Import Lia ZifyBool ZifyNat.
Open Scope Z_scope.

(* binary.LittleEndian.Uint16(data[i:]) (only the first two octets of the slice are read) *)
Definition ml_rd16le (l : list Z) (i : Z) : outcome Z :=
  obind (cd_idx l i) (fun a => obind (cd_idx l (i + 1)) (fun b => Ok (a + b * 256))).
(* binary.LittleEndian.Uint32(data[i:i+4]) *)
Definition ml_rd32le (l : list Z) (i : Z) : outcome Z :=
  obind (ml_rd16le l i) (fun a => obind (ml_rd16le l (i + 2)) (fun b => Ok (a + b * 65536))).
(* s[:strings.Index(s, "\x00")] when there is a NUL, else s *)
Fixpoint ml_cstr (l : list Z) : list Z :=
  match l with [] => [] | x :: r => if x =? 0 then [] else x :: ml_cstr r end.

Lemma ml_rd16le_ok l i : 0 <= i -> i + 1 < zlen l ->
  ml_rd16le l i = Ok (nth (Z.to_nat i) l 0 + nth (Z.to_nat (i + 1)) l 0 * 256).
Proof. intros. unfold ml_rd16le. rewrite !cd_idx_ok by lia. reflexivity. Qed.
Lemma ml_rd32le_ok l i : 0 <= i -> i + 3 < zlen l ->
  ml_rd32le l i = Ok ((nth (Z.to_nat i) l 0 + nth (Z.to_nat (i + 1)) l 0 * 256) +
                      (nth (Z.to_nat (i + 2)) l 0 + nth (Z.to_nat (i + 2 + 1)) l 0 * 256) * 65536).
Proof. intros. unfold ml_rd32le. rewrite !ml_rd16le_ok by lia. reflexivity. Qed.
