(* Helpers shared by the small layer codecs modelled by `lmisc` (ARP, LLC/SNAP, VXLAN, MPLS, PPPoE,
   PPP, Loopback, EAPOL, IPSec, VRRP, Geneve): the decode binder, 32-bit big-endian reads/writes,
   checked in-place writes, and the "tiling" lemma (contiguous writes that cover the region
   returned by PrependBytes overwrite every junk byte).  Names are prefixed `ml_`. *)
From GP Require Import Base ListX Codec.
From Coq Require Import Lia ZifyBool ZifyNat.
Open Scope Z_scope.
Ltac Zify.zify_post_hook ::= Z.div_mod_to_equations.

(* decode result: receiver state left behind, outcome, truncated flag *)
Definition ml_bind {A T} (o : outcome A) (st : T) (tr : bool)
    (f : A -> T * outcome unit * bool) : T * outcome unit * bool :=
  match o with Ok v => f v | Err c => (st, Err c, tr) | Panic s => (st, Panic s, tr) end.

(* binary.BigEndian.Uint32(data[i:i+4]) *)
Definition ml_rd32 (l : list Z) (i : Z) : outcome Z :=
  obind (cd_rd16 l i) (fun a => obind (cd_rd16 l (i + 2)) (fun b => Ok (a * 65536 + b))).

(* binary.BigEndian.PutUint32 of a uint32 value *)
Definition ml_put32 (x : Z) : list Z := [(x / 16777216) mod 256; (x / 65536) mod 256; (x / 256) mod 256; x mod 256].

(* a write of vs at b[i..]: Go panics when the destination is out of range *)
Definition ml_wrc (b : list Z) (i : Z) (vs : list Z) : outcome (list Z) :=
  if (0 <=? i) && (i + zlen vs <=? zlen b) then Ok (cd_wr b i vs) else Panic 3.

(* copy(b[i:], vs): b[i:] panics when i > len b; copy writes min(len b - i, len vs) bytes *)
Definition ml_copy (b : list Z) (i : Z) (vs : list Z) : outcome (list Z) :=
  if (0 <=? i) && (i <=? zlen b) then Ok (cd_wr b i (firstn (Z.to_nat (zlen b - i)) vs)) else Panic 4.

(* ---------------------------------------------------------------- lemmas *)
Lemma zlen_nonneg l : 0 <= zlen l.
Proof. unfold zlen. lia. Qed.

Lemma zlen_app (a b : list Z) : zlen (a ++ b) = zlen a + zlen b.
Proof. unfold zlen. rewrite app_length. lia. Qed.

Lemma zlen_cons (a : Z) b : zlen (a :: b) = 1 + zlen b.
Proof. unfold zlen. cbn [length]. lia. Qed.

Lemma zlen_nil : zlen [] = 0.
Proof. reflexivity. Qed.

Lemma ml_rd32_ok l i : 0 <= i -> i + 3 < zlen l ->
  ml_rd32 l i = Ok ((nth (Z.to_nat i) l 0 * 256 + nth (Z.to_nat (i + 1)) l 0) * 65536 +
                    (nth (Z.to_nat (i + 2)) l 0 * 256 + nth (Z.to_nat (i + 2 + 1)) l 0)).
Proof. intros. unfold ml_rd32. rewrite !cd_rd16_ok by lia. reflexivity. Qed.

Lemma ml_wrc_ok b i vs : 0 <= i -> i + zlen vs <= zlen b -> ml_wrc b i vs = Ok (cd_wr b i vs).
Proof. intros. unfold ml_wrc. destruct (0 <=? i) eqn:A, (i + zlen vs <=? zlen b) eqn:B; try reflexivity; lia. Qed.

Lemma bytes_ok_nth data i : bytes_ok data -> 0 <= nth i data 0 < 256.
Proof.
  intros Hb. destruct (Nat.lt_ge_cases i (length data)) as [L|L].
  - unfold bytes_ok in Hb. rewrite Forall_forall in Hb. apply Hb. apply nth_In. exact L.
  - rewrite nth_overflow by lia. lia.
Qed.

Lemma bytes_ok_app a b : bytes_ok (a ++ b) <-> bytes_ok a /\ bytes_ok b.
Proof. unfold bytes_ok. apply Forall_app. Qed.

Lemma bytes_ok_firstn n l : bytes_ok l -> bytes_ok (firstn n l).
Proof.
  unfold bytes_ok. revert n. induction l as [|x l IH]; intros [|n] H; cbn [firstn]; try constructor.
  - inversion H; assumption.
  - apply IH. inversion H; assumption.
Qed.
Lemma bytes_ok_skipn n l : bytes_ok l -> bytes_ok (skipn n l).
Proof.
  unfold bytes_ok. revert n. induction l as [|x l IH]; intros [|n] H; cbn [skipn]; try assumption.
  apply IH. inversion H; assumption.
Qed.
Lemma bytes_ok_slice a b l : bytes_ok l -> bytes_ok (slice l a b).
Proof. intros. unfold slice. apply bytes_ok_skipn, bytes_ok_firstn. assumption. Qed.

(* tiling: writing vs right after an already written prefix, inside the region *)
Lemma upd_range_tile (vs : list Z) : forall pre reg,
  (length vs <= length reg)%nat ->
  upd_range (pre ++ reg) (length pre) vs = (pre ++ vs) ++ skipn (length vs) reg.
Proof.
  intros pre reg H.
  rewrite <- (firstn_skipn (length vs) reg) at 1.
  replace (length pre) with (length pre + 0)%nat by lia.
  rewrite upd_range_app_r.
  rewrite upd_range_prefix by (rewrite firstn_length; lia).
  rewrite <- app_assoc. reflexivity.
Qed.

Lemma ml_wrc_tile pre reg i vs : i = zlen pre -> zlen vs <= zlen reg ->
  ml_wrc (pre ++ reg) i vs = Ok ((pre ++ vs) ++ skipn (length vs) reg).
Proof.
  intros -> H. rewrite ml_wrc_ok; [|apply zlen_nonneg|rewrite zlen_app; lia].
  unfold cd_wr, zlen. rewrite Nat2Z.id. rewrite upd_range_tile by (unfold zlen in H; lia). reflexivity.
Qed.

Lemma ml_copy_tile pre reg i vs : i = zlen pre -> zlen vs <= zlen reg ->
  ml_copy (pre ++ reg) i vs = Ok ((pre ++ vs) ++ skipn (length vs) reg).
Proof.
  intros -> H. unfold ml_copy.
  pose proof (zlen_nonneg pre). pose proof (zlen_nonneg reg). rewrite zlen_app.
  destruct (0 <=? zlen pre) eqn:A; [|lia]. destruct (zlen pre <=? zlen pre + zlen reg) eqn:B; [|lia].
  cbn [andb]. rewrite firstn_all2 by (unfold zlen in *; lia).
  unfold cd_wr, zlen. rewrite Nat2Z.id. rewrite upd_range_tile by (unfold zlen in H; lia). reflexivity.
Qed.

Lemma skipn_zlen_all (l : list Z) n : (length l <= n)%nat -> skipn n l = [].
Proof. apply skipn_all2. Qed.

(* the slices of a header ++ payload byte string *)
Lemma slice_app_head (h p : list Z) : slice (h ++ p) 0 (length h) = h.
Proof. unfold slice. rewrite firstn_app, firstn_all, Nat.sub_diag. cbn. rewrite app_nil_r. reflexivity. Qed.

Lemma slice_app_tail (h p : list Z) : slice (h ++ p) (length h) (length h + length p) = p.
Proof.
  unfold slice. replace (length h + length p)%nat with (length (h ++ p)) by (rewrite app_length; lia).
  rewrite firstn_all. rewrite skipn_app, skipn_all, Nat.sub_diag. reflexivity.
Qed.

Lemma slice_app_mid (a m b : list Z) : slice (a ++ m ++ b) (length a) (length a + length m) = m.
Proof.
  unfold slice. rewrite firstn_app. rewrite firstn_all2 by lia.
  replace (length a + length m - length a)%nat with (length m) by lia.
  rewrite firstn_app, firstn_all, Nat.sub_diag. cbn [firstn]. rewrite app_nil_r.
  rewrite skipn_app, skipn_all, Nat.sub_diag. reflexivity.
Qed.

Lemma nth_app_head (h p : list Z) i : (i < length h)%nat -> nth i (h ++ p) 0 = nth i h 0.
Proof. intros. apply app_nth1. assumption. Qed.

Lemma ml_put32_be x : 0 <= x < 4294967296 ->
  (((x / 16777216) mod 256 * 256 + (x / 65536) mod 256) * 65536 + ((x / 256) mod 256 * 256 + x mod 256)) = x.
Proof. intros; lia. Qed.

Lemma cd_region_nil junk : cd_region 0 junk = [].
Proof. reflexivity. Qed.

(* ---- tiling invariant: b (the PrependBytes region being filled) starts with `pre`, the bytes
   written so far, and has total length n.  Contiguous writes extend `pre`; when `pre` reaches n
   nothing of the prior content (junk) is left. *)
Definition ml_tiled (b pre : list Z) (n : Z) : Prop := (exists rest, b = pre ++ rest) /\ zlen b = n.

Lemma ml_tile_init n junk : 0 <= n -> ml_tiled (cd_region n junk) [] n.
Proof. intros H. split; [exists (cd_region n junk); reflexivity|apply cd_region_length; exact H]. Qed.

Lemma ml_tile_wrc b pre vs n i : ml_tiled b pre n -> i = zlen pre -> zlen pre + zlen vs <= n ->
  exists b', ml_wrc b i vs = Ok b' /\ ml_tiled b' (pre ++ vs) n.
Proof.
  intros [[rest ->] Hn] -> Hle. rewrite zlen_app in Hn.
  rewrite ml_wrc_tile by lia. eexists; split; [reflexivity|]. split.
  - eexists; reflexivity.
  - rewrite !zlen_app. unfold zlen in *. rewrite skipn_length. lia.
Qed.

Lemma ml_tile_copy b pre vs n i : ml_tiled b pre n -> i = zlen pre -> zlen pre + zlen vs <= n ->
  exists b', ml_copy b i vs = Ok b' /\ ml_tiled b' (pre ++ vs) n.
Proof.
  intros [[rest ->] Hn] -> Hle. rewrite zlen_app in Hn.
  rewrite ml_copy_tile by lia. eexists; split; [reflexivity|]. split.
  - eexists; reflexivity.
  - rewrite !zlen_app. unfold zlen in *. rewrite skipn_length. lia.
Qed.

Lemma ml_tile_done b pre n : ml_tiled b pre n -> zlen pre = n -> b = pre.
Proof.
  intros [[rest ->] Hn] Hp. rewrite zlen_app in Hn. assert (zlen rest = 0) by lia.
  destruct rest; [apply app_nil_r|rewrite zlen_cons in *; pose proof (zlen_nonneg rest); lia].
Qed.

Lemma zlen_put16 x : zlen (cd_put16 x) = 2. Proof. reflexivity. Qed.
Lemma zlen_put32 x : zlen (ml_put32 x) = 4. Proof. reflexivity. Qed.
Lemma zlen_one (x : Z) : zlen [x] = 1. Proof. reflexivity. Qed.

(* one step of a tiled write chain: finds the outermost checked write on a closed buffer *)
Ltac ml_tile_step T :=
  match goal with
  | |- context [ml_wrc ?b ?i ?vs] =>
    let b' := fresh "b" in let E := fresh "E" in let T' := fresh "T" in
    destruct (ml_tile_wrc b _ vs _ i T) as [b' [E T']];
    [ rewrite ?zlen_app, ?zlen_put16, ?zlen_put32, ?zlen_one, ?zlen_nil; try lia
    | rewrite ?zlen_app, ?zlen_put16, ?zlen_put32, ?zlen_one, ?zlen_nil; try lia
    | rewrite E; cbn [obind]; clear E; try clear T; rename T' into T ]
  | |- context [ml_copy ?b ?i ?vs] =>
    let b' := fresh "b" in let E := fresh "E" in let T' := fresh "T" in
    destruct (ml_tile_copy b _ vs _ i T) as [b' [E T']];
    [ rewrite ?zlen_app, ?zlen_put16, ?zlen_put32, ?zlen_one, ?zlen_nil; try lia
    | rewrite ?zlen_app, ?zlen_put16, ?zlen_put32, ?zlen_one, ?zlen_nil; try lia
    | rewrite E; cbn [obind]; clear E; try clear T; rename T' into T ]
  end.

Lemma slice_at (pre m post : list Z) a b : a = length pre -> b = (length pre + length m)%nat ->
  slice (pre ++ m ++ post) a b = m.
Proof. intros -> ->. apply slice_app_mid. Qed.

Lemma slice_to_end (pre post : list Z) a b : a = length pre -> b = (length pre + length post)%nat ->
  slice (pre ++ post) a b = post.
Proof. intros -> ->. apply slice_app_tail. Qed.

Lemma slice_from_start (pre post : list Z) b : b = length pre -> slice (pre ++ post) 0 b = pre.
Proof. intros ->. apply slice_app_head. Qed.
