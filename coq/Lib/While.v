(* the fuelled loop combinator used by the generated kernels (Gen/Kernels.v) *)
From Coq Require Import List ZArith.

Fixpoint while {St : Type} (fuel : nat) (c : St -> bool) (b : St -> St) (s : St) : St :=
  match fuel with
  | O => s
  | S f => if c s then while f c b (b s) else s
  end.

Lemma while_unfold {St : Type} f (c : St -> bool) b s :
  while (S f) c b s = if c s then while f c b (b s) else s.
Proof. reflexivity. Qed.

Lemma while_false {St : Type} f (c : St -> bool) b s : c s = false -> while f c b s = s.
Proof. intros H. destruct f; cbn; [reflexivity|rewrite H; reflexivity]. Qed.
