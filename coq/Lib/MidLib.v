(* Helpers shared by the mid-size layer codecs modelled by `lmid` (TLS, LLDP, OSPF, ENIP/CIP):
   a chunked writer into the region returned by PrependBytes/AppendBytes — a list of contiguous
   checked writes (indexed stores / PutUintNN: panic when out of range; copy: panics when the start is
   beyond the length, truncates otherwise) — with the lemma that chunks which exactly tile the region
   overwrite every byte of it (the result is the concatenation of the chunks, whatever the junk), and
   24-bit / little-endian reads.  Names are prefixed `md_`. *)
From GP Require Import Base ListX Codec MiscLib.
From Coq Require Import Lia ZifyBool ZifyNat.
Open Scope Z_scope.
Ltac Zify.zify_post_hook ::= Z.div_mod_to_equations.

(* a chunk: (is_copy, bytes) *)
Definition md_chunk := (bool * list Z)%type.

Fixpoint md_write (b : list Z) (off : Z) (cs : list md_chunk) : outcome (list Z) :=
  match cs with
  | [] => Ok b
  | (cp, vs) :: t =>
    obind (if cp then ml_copy b off vs else ml_wrc b off vs)
          (fun b' => md_write b' (off + zlen vs) t)
  end.

Definition md_flat (cs : list md_chunk) : list Z := concat (map snd cs).

(* serialize into a fresh region of exactly the chunks' total length *)
Definition md_emit (cs : list md_chunk) (junk : list Z) : outcome (list Z) :=
  md_write (cd_region (zlen (md_flat cs)) junk) 0 cs.

(* binary.BigEndian 24-bit read as the layers write it (three index reads) *)
Definition md_rd24 (l : list Z) (i : Z) : outcome Z :=
  obind (cd_idx l i) (fun a => obind (cd_rd16 l (i + 1)) (fun b => Ok (a * 65536 + b))).

(* binary.LittleEndian.Uint16 / Uint32 *)
Definition md_rd16le (l : list Z) (i : Z) : outcome Z :=
  obind (cd_idx l i) (fun a => obind (cd_idx l (i + 1)) (fun b => Ok (b * 256 + a))).
Definition md_rd32le (l : list Z) (i : Z) : outcome Z :=
  obind (md_rd16le l i) (fun a => obind (md_rd16le l (i + 2)) (fun b => Ok (b * 65536 + a))).
Definition md_put16le (x : Z) : list Z := [x mod 256; (x / 256) mod 256].
Definition md_put32le (x : Z) : list Z := [x mod 256; (x / 256) mod 256; (x / 65536) mod 256; (x / 16777216) mod 256].

(* ---------------------------------------------------------------- lemmas *)
Lemma md_flat_cons c t : md_flat (c :: t) = snd c ++ md_flat t.
Proof. reflexivity. Qed.

Lemma md_flat_app a b : md_flat (a ++ b) = md_flat a ++ md_flat b.
Proof. unfold md_flat. rewrite map_app, concat_app. reflexivity. Qed.

Lemma md_write_tiled : forall cs b pre n, ml_tiled b pre n -> zlen pre + zlen (md_flat cs) <= n ->
  exists b', md_write b (zlen pre) cs = Ok b' /\ ml_tiled b' (pre ++ md_flat cs) n.
Proof.
  induction cs as [|[cp vs] t IH]; intros b pre n T Hle.
  - exists b. split; [reflexivity|]. cbn. rewrite app_nil_r. exact T.
  - rewrite md_flat_cons in *. cbn [snd] in *. rewrite zlen_app in Hle. pose proof (zlen_nonneg (md_flat t)).
    cbn [md_write]. destruct cp.
    + destruct (ml_tile_copy b pre vs n (zlen pre) T eq_refl ltac:(lia)) as [b1 [E T1]]. rewrite E. cbn [obind].
      destruct (IH b1 (pre ++ vs) n T1 ltac:(rewrite zlen_app; lia)) as [b2 [E2 T2]].
      rewrite zlen_app in E2. exists b2. split; [exact E2|]. rewrite app_assoc. exact T2.
    + destruct (ml_tile_wrc b pre vs n (zlen pre) T eq_refl ltac:(lia)) as [b1 [E T1]]. rewrite E. cbn [obind].
      destruct (IH b1 (pre ++ vs) n T1 ltac:(rewrite zlen_app; lia)) as [b2 [E2 T2]].
      rewrite zlen_app in E2. exists b2. split; [exact E2|]. rewrite app_assoc. exact T2.
Qed.

(* the chunks tile the region exactly: every junk byte is overwritten *)
Lemma md_emit_ok cs junk : md_emit cs junk = Ok (md_flat cs).
Proof.
  unfold md_emit. pose proof (zlen_nonneg (md_flat cs)) as Hn.
  destruct (md_write_tiled cs _ [] _ (ml_tile_init _ junk Hn) ltac:(rewrite zlen_nil; lia)) as [b' [E T]].
  rewrite zlen_nil in E. rewrite E. f_equal. cbn [app] in T. apply (ml_tile_done _ _ _ T). reflexivity.
Qed.

Lemma md_rd24_ok l i : 0 <= i -> i + 2 < zlen l ->
  md_rd24 l i = Ok (nth (Z.to_nat i) l 0 * 65536 + (nth (Z.to_nat (i + 1)) l 0 * 256 + nth (Z.to_nat (i + 1 + 1)) l 0)).
Proof. intros. unfold md_rd24. rewrite cd_idx_ok, cd_rd16_ok by lia. reflexivity. Qed.

Lemma md_rd16le_ok l i : 0 <= i -> i + 1 < zlen l ->
  md_rd16le l i = Ok (nth (Z.to_nat (i + 1)) l 0 * 256 + nth (Z.to_nat i) l 0).
Proof. intros. unfold md_rd16le. rewrite !cd_idx_ok by lia. reflexivity. Qed.

Lemma md_rd32le_ok l i : 0 <= i -> i + 3 < zlen l -> exists v, md_rd32le l i = Ok v.
Proof. intros. unfold md_rd32le. rewrite !md_rd16le_ok by lia. eexists; reflexivity. Qed.

Lemma md_zlen_slice (l : list Z) a b : 0 <= a <= b -> b <= zlen l -> zlen (slice l (Z.to_nat a) (Z.to_nat b)) = b - a.
Proof. intros H1 H2. unfold zlen in *. rewrite slice_length by lia. lia. Qed.

Lemma md_rd16_range l i : bytes_ok l -> 0 <= i -> i + 1 < zlen l -> exists v, cd_rd16 l i = Ok v /\ 0 <= v < 65536.
Proof.
  intros Hb H1 H2. rewrite cd_rd16_ok by lia. eexists; split; [reflexivity|].
  pose proof (bytes_ok_nth l (Z.to_nat i) Hb). pose proof (bytes_ok_nth l (Z.to_nat (i + 1)) Hb). lia.
Qed.

Lemma md_idx_range l i : bytes_ok l -> 0 <= i < zlen l -> exists v, cd_idx l i = Ok v /\ 0 <= v < 256.
Proof.
  intros Hb H1. rewrite cd_idx_ok by lia. eexists; split; [reflexivity|]. apply bytes_ok_nth; assumption.
Qed.

(* ---------------------------------------------------------------- generic fuelled loop
   `body s` = one round of a Go for-loop in state s: Ok None = the loop condition is false (exit),
   Ok (Some (a, s')) = one element produced, next state; Err / Panic leave the function.
   Err 99 = out of fuel (excluded by md_loop_good under a decreasing measure). *)
Fixpoint md_loop {St A : Type} (fuel : nat) (body : St -> outcome (option (A * St))) (s : St) : outcome (list A) :=
  match fuel with
  | O => Err 99
  | S f =>
    match body s with
    | Ok None => Ok []
    | Ok (Some (a, s')) => match md_loop f body s' with Ok l => Ok (a :: l) | Err e => Err e | Panic p => Panic p end
    | Err e => Err e
    | Panic p => Panic p
    end
  end.

Definition md_good {A} (o : outcome A) : Prop := is_panic o = false /\ o <> Err 99.
Lemma md_good_ok {A} (v : A) : md_good (Ok v). Proof. split; [reflexivity|discriminate]. Qed.
Lemma md_good_err {A} e : e <> 99 -> md_good (@Err A e). Proof. intros H. split; [reflexivity|congruence]. Qed.
Lemma md_good_bind {A B} (o : outcome A) (f : A -> outcome B) : md_good o -> (forall v, o = Ok v -> md_good (f v)) -> md_good (obind o f).
Proof.
  intros [G1 G2] H. destruct o as [v|e|s]; cbn [obind]; [apply H; reflexivity|split; [reflexivity|intros E; apply G2; inversion E; reflexivity]|discriminate].
Qed.

Lemma md_loop_good {St A : Type} (body : St -> outcome (option (A * St))) (I : St -> Prop) (m : St -> Z) :
  (forall s, I s -> 0 <= m s) ->
  (forall s, I s -> md_good (body s) /\ forall a s', body s = Ok (Some (a, s')) -> I s' /\ m s' < m s) ->
  forall fuel s, I s -> m s < Z.of_nat fuel -> md_good (md_loop fuel body s).
Proof.
  intros H0 H. induction fuel as [|f IH]; intros s Hi Hm; [specialize (H0 s Hi); lia|].
  cbn [md_loop]. destruct (H s Hi) as [[G1 G2] Hs].
  destruct (body s) as [[[a s']|]|e|p] eqn:Eb; [|apply md_good_ok|apply md_good_err; intros ->; apply G2; reflexivity|discriminate].
  destruct (Hs a s' eq_refl) as [Hi' Hm'].
  destruct (IH s' Hi' ltac:(lia)) as [L1 L2].
  destruct (md_loop f body s') as [l|e|p]; [apply md_good_ok|apply md_good_err; intros ->; apply L2; reflexivity|discriminate].
Qed.
