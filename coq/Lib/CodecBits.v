(* `|` of disjoint bit ranges is `+` (used for Version|IHL, Flags|FragOffset, Priority|DEI|VLAN id). *)
From Coq Require Import ZArith Lia Bool.
Open Scope Z_scope.

Lemma cd_land_disjoint a b k : 0 <= k -> 0 <= b < 2 ^ k -> Z.land (a * 2 ^ k) b = 0.
Proof.
  intros Hk Hb. apply Z.bits_inj'. intros n Hn. rewrite Z.land_spec, Z.bits_0.
  destruct (Z.lt_ge_cases n k) as [L|L].
  - rewrite Z.mul_pow2_bits_low by lia. reflexivity.
  - destruct (Z.eq_dec b 0) as [->|Nz]; [rewrite Z.bits_0; apply andb_false_r|].
    rewrite (Z.bits_above_log2 b n); [apply andb_false_r|lia|].
    apply Z.lt_le_trans with k; [apply Z.log2_lt_pow2; lia|lia].
Qed.

Lemma cd_lor_disjoint a b k : 0 <= k -> 0 <= b < 2 ^ k -> Z.lor (a * 2 ^ k) b = a * 2 ^ k + b.
Proof.
  intros Hk Hb. pose proof (cd_land_disjoint a b k Hk Hb) as L.
  rewrite (Z.add_nocarry_lxor _ _ L). symmetry. apply Z.lxor_lor. exact L.
Qed.

(* setting a bit that is clear adds its weight *)
Lemma cd_lor_bit x k : 0 <= k -> (x / 2 ^ k) mod 2 = 0 -> Z.lor x (2 ^ k) = x + 2 ^ k.
Proof.
  intros Hk Hbit.
  assert (L : Z.land x (2 ^ k) = 0).
  { apply Z.bits_inj'. intros n Hn. rewrite Z.land_spec, Z.bits_0. rewrite Z.pow2_bits_eqb by lia.
    destruct (Z.eqb_spec k n) as [->|Ne]; [|apply andb_false_r].
    assert (T : Z.testbit x n = false) by (apply Z.testbit_false; [lia|exact Hbit]).
    rewrite T. reflexivity. }
  rewrite (Z.add_nocarry_lxor _ _ L). symmetry. apply Z.lxor_lor. exact L.
Qed.
