(* Boundary-grid comparison of the regenerated kernels (Gen/Kernels.v) with the hand-written
   models, by vm_compute.  Used only when an equivalence LEMMA of KernelsEquiv.v no longer
   checks: if a grid point differs, the kernel's semantics changed (hard violation, the point is
   the witness); if the whole grid agrees, the lemma's proof script was broken by a harmless
   restructuring and the property stays tied to the code by the correspondence run (soft). *)
From GP Require Import Base While Kernels.
From GP Require C08Model C09Model C10Model C17Model.
Open Scope Z_scope.

Definition seq_pts : list Z :=
  [0; 1; 2; 1073741822; 1073741823; 1073741824; 1073741825; 2147483647; 2147483648; 2147483649;
   3221225471; 3221225472; 3221225473; 3221225474; 4294967293; 4294967294; 4294967295].
Definition pairs {A} (l : list A) : list (A * A) := flat_map (fun a => map (fun b => (a, b)) l) l.

Example grid_tcpassembly_Difference :
  forallb (fun '(s, t) => go_tcpassembly_Difference s t =? C10Model.difference s t) (pairs seq_pts) = true.
Proof. vm_compute. reflexivity. Qed.
Example grid_reassembly_Difference :
  forallb (fun '(s, t) => go_reassembly_Difference s t =? C09Model.diff s t) (pairs seq_pts) = true.
Proof. vm_compute. reflexivity. Qed.
Example grid_Add :
  forallb (fun '(s, t) => (go_tcpassembly_Add s t =? C10Model.seq_add s t) && (go_reassembly_Add s t =? C09Model.sadd s t))
          (pairs (seq_pts ++ [-1; -2; -1073741824; 4294967296; 8589934591])) = true.
Proof. vm_compute. reflexivity. Qed.

Definition acc_pts : list Z :=
  [0; 1; 65534; 65535; 65536; 65537; 131070; 131071; 131072; 196605; 4294901760; 4294901761; 4294967294; 4294967295;
   2147483647; 2147483648; 305419896].
Example grid_FoldChecksum :
  forallb (fun c => go_FoldChecksum c =? C08Model.FoldChecksum c) acc_pts = true.
Proof. vm_compute. reflexivity. Qed.

Definition byte_strs : list (list Z) :=
  [[]; [0]; [255]; [1; 2]; [255; 255]; [1; 2; 3]; [255; 255; 255]; [0; 0; 0; 1]; [18; 52; 86; 120; 154];
   repeat 255 64; repeat 255 65; map (fun k => Z.of_nat k mod 256) (seq 0 300); map (fun k => Z.of_nat (k * 7) mod 256) (seq 0 301)].
Example grid_ComputeChecksum :
  forallb (fun bs => forallb (fun c => go_ComputeChecksum bs c =? C08Model.ComputeChecksum bs c) acc_pts) byte_strs = true.
Proof. vm_compute. reflexivity. Qed.
Example grid_fnvHash :
  forallb (fun bs => go_fnvHash bs =? C17Model.fnv_hash bs) byte_strs = true.
Proof. vm_compute. reflexivity. Qed.
