(* Equivalence of the second group of kernels REGENERATED from the repository on every run
   (Gen/Kernels.v, written by `gpverif go2v`) with the hand-written model functions used by the
   pcapng model (NgModel: block/option padding, timestamp resolution) and the SCTP layer model
   (chunk padding), plus direct specifications of RadioTap's `align` and the assemblers' `min`. *)
From Coq Require Import Lia ZifyBool List.
From GP Require Import Base While Kernels NgModel LsctpModel LradiotapModel.
Import ListNotations.
Open Scope Z_scope.

Ltac Zify.zify_post_hook ::= Z.div_mod_to_equations.

(* ---- pcapgo: paddingBytes32b (ngread_nrb.go) = NgModel.pad4 on lengths (non-negative) ---- *)
Lemma go_pcapgo_paddingBytes32b_eq n : 0 <= n -> go_pcapgo_paddingBytes32b n = NgModel.pad4 n.
Proof.
  intros Hn. unfold go_pcapgo_paddingBytes32b, NgModel.pad4. cbv zeta.
  rewrite Z.rem_mod_nonneg by lia. rewrite Z.gtb_ltb.
  destruct (0 <? n mod 4) eqn:E; lia.
Qed.

(* ---- pcapgo: NgResolution.Binary / Exponent (pcapng.go) as NgModel's read_idb uses them ---- *)
Lemma land_ones7 x : Z.land x 127 = x mod 128.
Proof. change 127 with (Z.ones 7). rewrite Z.land_ones by lia. reflexivity. Qed.

Lemma go_NgResolution_Exponent_eq r : 0 <= r < 256 -> go_NgResolution_Exponent r = r mod 128.
Proof.
  intros Hr. unfold go_NgResolution_Exponent. cbv zeta. rewrite land_ones7.
  unfold u8. rewrite (Z.mod_small r) by lia. reflexivity.
Qed.

Lemma bit7 r : 0 <= r < 256 -> Z.land r 128 = if 128 <=? r then 128 else 0.
Proof.
  intros Hr.
  assert (H : forallb (fun k => Z.land k 128 =? (if 128 <=? k then 128 else 0)) (map Z.of_nat (seq 0 256)) = true)
    by (vm_compute; reflexivity).
  rewrite forallb_forall in H. specialize (H r).
  rewrite Z.eqb_eq in H. apply H. apply in_map_iff. exists (Z.to_nat r). split; [lia|]. apply in_seq. lia.
Qed.

Lemma go_NgResolution_Binary_eq r : 0 <= r < 256 -> go_NgResolution_Binary r = (128 <=? r).
Proof.
  intros Hr. unfold go_NgResolution_Binary. cbv zeta. rewrite bit7 by exact Hr.
  destruct (128 <=? r); reflexivity.
Qed.

(* ---- layers/sctp.go: roundUpToNearest4 = LsctpModel.roundup4 on lengths ---- *)
Lemma go_sctp_roundUpToNearest4_eq i : 0 <= i -> go_sctp_roundUpToNearest4 i = LsctpModel.roundup4 i.
Proof.
  intros Hi. unfold go_sctp_roundUpToNearest4, LsctpModel.roundup4. cbv zeta.
  rewrite !Z.rem_mod_nonneg by lia. reflexivity.
Qed.

(* ---- reassembly / tcpassembly: min ---- *)
Lemma go_reassembly_min_eq a b : go_reassembly_min a b = Z.min a b.
Proof. unfold go_reassembly_min. cbv zeta. destruct (a <? b) eqn:E; lia. Qed.
Lemma go_tcpassembly_min_eq a b : go_tcpassembly_min a b = Z.min a b.
Proof. unfold go_tcpassembly_min. cbv zeta. destruct (a <? b) eqn:E; lia. Qed.

(* ---- layers/radiotap.go: align (uint16 arithmetic, widths are the powers of two RadioTap uses) ----
   The returned skip is the least one that makes the offset a multiple of the width (modulo the
   uint16 wrap of the offset).  Finite domain: every uint16 offset, checked exhaustively. *)
Fixpoint zrange (n : nat) (s : Z) : list Z := match n with O => [] | S k => s :: zrange k (s + 1) end.
Lemma in_zrange n : forall s x, s <= x < s + Z.of_nat n -> In x (zrange n s).
Proof.
  induction n as [|n IH]; intros s x Hx; [lia|]. cbn [zrange].
  destruct (Z.eq_dec s x) as [->|Hne]; [left; reflexivity|right]. apply IH. lia.
Qed.

Definition align_ok (w o : Z) : bool :=
  let a := go_radiotap_align o w in
  (0 <=? a) && (a <? w) && ((o + a) mod w =? 0).

Lemma go_radiotap_align_spec o w :
  0 <= o < 65536 -> In w [1; 2; 4; 8] ->
  0 <= go_radiotap_align o w < w /\ (o + go_radiotap_align o w) mod w = 0.
Proof.
  intros Ho Hw.
  assert (H : forallb (fun w => forallb (align_ok w) (zrange (Z.to_nat 65536) 0)) [1; 2; 4; 8] = true)
    by (vm_compute; reflexivity).
  rewrite forallb_forall in H. specialize (H w Hw). rewrite forallb_forall in H.
  assert (Hin : In o (zrange (Z.to_nat 65536) 0)) by (apply in_zrange; lia).
  specialize (H o Hin). unfold align_ok in H. cbv zeta in H.
  apply andb_prop in H as [H1 H3]. apply andb_prop in H1 as [H1 H2]. rewrite Z.eqb_eq in H3.
  split; [lia|exact H3].
Qed.

(* ... and it is the RadioTap model's alignment step: `offset += align(offset, w)` in uint16 arithmetic *)
Lemma go_radiotap_align_eq o w :
  0 <= o < 65536 -> In w [1; 2; 4; 8] -> u16 (o + go_radiotap_align o w) = LradiotapModel.rt_align o w.
Proof.
  intros Ho Hw.
  assert (H : forallb (fun w => forallb (fun o => u16 (o + go_radiotap_align o w) =? LradiotapModel.rt_align o w)
                                        (zrange (Z.to_nat 65536) 0)) [1; 2; 4; 8] = true)
    by (vm_compute; reflexivity).
  rewrite forallb_forall in H. specialize (H w Hw). rewrite forallb_forall in H.
  assert (Hin : In o (zrange (Z.to_nat 65536) 0)) by (apply in_zrange; lia).
  specialize (H o Hin). apply Z.eqb_eq in H. exact H.
Qed.
