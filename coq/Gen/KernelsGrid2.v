(* Boundary-grid comparison (vm_compute) of the second group of regenerated kernels with the
   model functions; used only when a lemma of KernelsEquiv2.v no longer checks (see KernelsGrid.v). *)
From GP Require Import Base While Kernels.
From GP Require NgModel LsctpModel LradiotapModel.
Open Scope Z_scope.

Definition len_pts : list Z :=
  [0; 1; 2; 3; 4; 5; 6; 7; 8; 9; 15; 16; 17; 18; 19; 255; 256; 257; 65531; 65532; 65533; 65534; 65535; 65536; 65537;
   2147483644; 2147483645; 2147483646; 2147483647; 4294967292; 4294967293; 4294967294; 4294967295].
Example grid_paddingBytes32b :
  forallb (fun n => go_pcapgo_paddingBytes32b n =? NgModel.pad4 n) len_pts = true.
Proof. vm_compute. reflexivity. Qed.
Example grid_roundUpToNearest4 :
  forallb (fun n => go_sctp_roundUpToNearest4 n =? LsctpModel.roundup4 n) len_pts = true.
Proof. vm_compute. reflexivity. Qed.
Example grid_NgResolution :
  forallb (fun r => (go_NgResolution_Exponent r =? r mod 128) && Bool.eqb (go_NgResolution_Binary r) (128 <=? r))
          (map Z.of_nat (seq 0 256)) = true.
Proof. vm_compute. reflexivity. Qed.
Example grid_min :
  forallb (fun a => forallb (fun b => (go_reassembly_min a b =? Z.min a b) && (go_tcpassembly_min a b =? Z.min a b))
                            (len_pts ++ [-1; -2])) (len_pts ++ [-1; -2]) = true.
Proof. vm_compute. reflexivity. Qed.
Example grid_align :
  forallb (fun w => forallb (fun o => let a := go_radiotap_align o w in (0 <=? a) && (a <? w) && ((o + a) mod w =? 0))
                            [0; 1; 2; 3; 4; 5; 6; 7; 8; 9; 15; 16; 17; 31; 33; 255; 256; 257; 65528; 65529; 65533; 65534; 65535])
          [1; 2; 4; 8] = true.
Proof. vm_compute. reflexivity. Qed.
Example grid_align_model :
  forallb (fun w => forallb (fun o => u16 (o + go_radiotap_align o w) =? LradiotapModel.rt_align o w)
                            [0; 1; 2; 3; 4; 5; 6; 7; 8; 9; 15; 16; 17; 31; 33; 255; 256; 257; 65528; 65529; 65533; 65534; 65535])
          [1; 2; 4; 8] = true.
Proof. vm_compute. reflexivity. Qed.
