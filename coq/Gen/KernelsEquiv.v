(* Equivalence of the kernels REGENERATED from the repository on every run (Gen/Kernels.v,
   written by `gpverif go2v`) with the hand-written models the property theorems are about.
   A semantic change to one of these Go functions changes Kernels.v and breaks a lemma here
   deterministically (no random case has to hit the one point in 2^32 where it matters). *)
From Coq Require Import Lia ZifyBool.
From GP Require Import Base While Kernels C09Model C17Model.
Open Scope Z_scope.

(* ---- Sequence.Difference / Add ---- *)
Lemma go_reassembly_Difference_eq s t : go_reassembly_Difference s t = C09Model.diff s t.
Proof.
  unfold go_reassembly_Difference, C09Model.diff, QHI, QLO, M32.
  rewrite !Z.gtb_ltb. destruct ((3221225472 <? s) && (t <? 1073741823)); [lia|].
  destruct ((3221225472 <? t) && (s <? 1073741823)); lia.
Qed.

Lemma land_ones32 x : Z.land x 4294967295 = x mod 4294967296.
Proof. change 4294967295 with (Z.ones 32). rewrite Z.land_ones by lia. reflexivity. Qed.

Lemma go_reassembly_Add_eq s t : go_reassembly_Add s t = C09Model.sadd s t.
Proof. unfold go_reassembly_Add, C09Model.sadd, M32. apply land_ones32. Qed.

(* the classic assembler's arithmetic: the window lemma directly on the generated code *)
Lemma go_tcpassembly_Difference_window s d :
  0 <= s < 4294967296 -> - 1073741824 < d < 1073741824 ->
  go_tcpassembly_Difference s ((s + d) mod 4294967296) = d.
Proof.
  intros Hs Hd. unfold go_tcpassembly_Difference. rewrite !Z.gtb_ltb.
  assert (H : (s + d) mod 4294967296 = s + d \/ (s + d) mod 4294967296 = s + d - 4294967296
              \/ (s + d) mod 4294967296 = s + d + 4294967296).
  { destruct (Z_lt_dec (s + d) 0); [right; right|destruct (Z_lt_dec (s + d) 4294967296); [left|right; left]].
    - rewrite <- (Z.mod_add _ 1) by lia. rewrite Z.mod_small by lia. lia.
    - apply Z.mod_small; lia.
    - rewrite <- (Z.mod_add _ (-1)) by lia. rewrite Z.mod_small by lia. lia. }
  assert (Ht : 0 <= (s + d) mod 4294967296 < 4294967296) by (apply Z.mod_pos_bound; lia).
  set (t := (s + d) mod 4294967296) in *.
  destruct (3221225472 <? s) eqn:E1; destruct (t <? 1073741824) eqn:E2;
  destruct (3221225472 <? t) eqn:E3; destruct (s <? 1073741824) eqn:E4; cbn [andb]; cbv zeta; lia.
Qed.

Lemma go_tcpassembly_Add_eq s t : go_tcpassembly_Add s t = (s + t) mod 4294967296.
Proof. unfold go_tcpassembly_Add. apply land_ones32. Qed.

(* ---- FoldChecksum ---- *)
Definition oc (n : Z) : Z := if n =? 0 then 0 else (n - 1) mod 65535 + 1.

Lemma shiftr16 x : Z.shiftr x 16 = x / 65536.
Proof. rewrite Z.shiftr_div_pow2 by lia. reflexivity. Qed.
Lemma land16 x : Z.land x 65535 = x mod 65536.
Proof. change 65535 with (Z.ones 16). rewrite Z.land_ones by lia. reflexivity. Qed.

Ltac Zify.zify_post_hook ::= Z.div_mod_to_equations.

Lemma go_FoldChecksum_spec c : 0 <= c < 4294967296 -> go_FoldChecksum c = 65535 - oc c.
Proof.
  intros Hc. unfold go_FoldChecksum.
  assert (Hw : while 64 (fun v_csum : Z => v_csum >? 65535)
                 (fun v_csum : Z => u32 (Z.shiftr v_csum 16 + Z.land v_csum 65535)) c = oc c).
  { unfold oc. destruct (Z_le_dec c 65535) as [Hle|Hgt].
    - rewrite while_false by (rewrite Z.gtb_ltb; lia).
      destruct (Z.eqb_spec c 0); [lia|]. lia.
    - rewrite while_unfold. rewrite Z.gtb_ltb. destruct (Z.ltb_spec 65535 c); [|lia].
      rewrite shiftr16, land16. unfold u32.
      set (c1 := (c / 65536 + c mod 65536) mod 4294967296).
      assert (Hc1 : c1 = c / 65536 + c mod 65536) by (unfold c1; lia).
      destruct (Z_le_dec c1 65535) as [Hle1|Hgt1].
      + rewrite while_false by (rewrite Z.gtb_ltb; lia).
        destruct (Z.eqb_spec c 0); [lia|]. lia.
      + rewrite while_unfold. rewrite Z.gtb_ltb. destruct (Z.ltb_spec 65535 c1); [|lia].
        rewrite shiftr16, land16. unfold u32.
        set (c2 := (c1 / 65536 + c1 mod 65536) mod 4294967296).
        assert (Hc2 : c2 = c1 / 65536 + c1 mod 65536) by (unfold c2; lia).
        rewrite while_false by (rewrite Z.gtb_ltb; lia).
        destruct (Z.eqb_spec c 0); [lia|]. lia. }
  rewrite Hw. unfold u16. unfold oc. destruct (Z.eqb_spec c 0); lia.
Qed.

(* ---- fnvHash ---- *)
Lemma nthZ_app_mid (pre : list Z) x t : nthZ (pre ++ x :: t) (length pre) = x.
Proof. unfold nthZ. rewrite app_nth2 by lia. rewrite Nat.sub_diag. reflexivity. Qed.

Lemma fnv_loop : forall rest pre h fuel,
  (length rest <= fuel)%nat ->
  while fuel (fun '(v_h, v_i) => v_i <? Z.of_nat (length (pre ++ rest)))
    (fun '(v_h, v_i) => (u64 (Z.lxor v_h (u64 (nthZ (pre ++ rest) (Z.to_nat v_i))) * 1099511628211), v_i + 1))
    (h, Z.of_nat (length pre)) =
  (fold_left (fun h b => u64 (Z.lxor h (u64 b) * 1099511628211)) rest h, Z.of_nat (length (pre ++ rest))).
Proof.
  induction rest as [|x t IH]; intros pre h fuel Hf.
  - rewrite app_nil_r. rewrite while_false by (apply Z.ltb_ge; lia). reflexivity.
  - destruct fuel as [|fuel]; [cbn in Hf; lia|]. rewrite while_unfold.
    destruct (Z.ltb_spec (Z.of_nat (length pre)) (Z.of_nat (length (pre ++ x :: t)))) as [_|Hge];
      [|rewrite app_length in Hge; cbn in Hge; lia].
    rewrite Nat2Z.id, nthZ_app_mid. cbn [fold_left].
    replace (pre ++ x :: t) with ((pre ++ [x]) ++ t) by (rewrite <- app_assoc; reflexivity).
    replace (Z.of_nat (length pre) + 1) with (Z.of_nat (length (pre ++ [x]))) by (rewrite app_length; cbn; lia).
    apply IH. cbn in Hf. lia.
Qed.

Lemma go_fnvHash_eq s : bytes_ok s -> go_fnvHash s = C17Model.fnv_hash s.
Proof.
  intros Hb. unfold go_fnvHash.
  pose proof (fnv_loop s [] (u64 14695981039346656037) (length s + 64)%nat ltac:(lia)) as H.
  cbn [app length] in H. cbn [Z.of_nat] in H.
  match goal with |- (let '(_, _) := ?w in _) = _ => replace w with
    (fold_left (fun h b => u64 (Z.lxor h (u64 b) * 1099511628211)) s (u64 14695981039346656037), Z.of_nat (length s)) end.
  unfold C17Model.fnv_hash, fnv_basis.
  assert (G : forall l h, bytes_ok l ->
     fold_left (fun h b => u64 (Z.lxor h (u64 b) * 1099511628211)) l h = fold_left fnv_step l h).
  { induction l as [|b l IHl]; intros h Hl; cbn; [reflexivity|]. inversion Hl; subst.
    rewrite IHl by assumption. f_equal. unfold fnv_step, fnv_prime, two64, u64.
    rewrite (Z.mod_small b) by (unfold byte_ok in *; lia). reflexivity. }
  rewrite G by exact Hb. reflexivity.
Qed.

(* ---- ComputeChecksum / FoldChecksum against the C08 model ---- *)
From GP Require C08Model C08Proofs C10Model.

Lemma go_FoldChecksum_eq c : 0 <= c < 4294967296 -> go_FoldChecksum c = C08Model.FoldChecksum c.
Proof.
  intros Hc. rewrite go_FoldChecksum_spec by exact Hc.
  rewrite (C08Proofs.fold_correct c Hc). reflexivity.
Qed.

Lemma pair_ind {A} (P : list A -> Prop) :
  P [] -> (forall a, P [a]) -> (forall a b t, P t -> P (a :: b :: t)) -> forall l, P l.
Proof.
  intros H0 H1 H2. assert (H : forall l, P l /\ forall a, P (a :: l)).
  { induction l as [|x l [IH1 IH2]]; split; auto. }
  intros l. apply H.
Qed.

Lemma nthZ_app_mid1 (pre : list Z) x y t : nthZ (pre ++ x :: y :: t) (S (length pre)) = y.
Proof. unfold nthZ. rewrite app_nth2 by lia. replace (S (length pre) - length pre)%nat with 1%nat by lia. reflexivity. Qed.

Lemma shiftl8 a : Z.shiftl a 8 = a * 256.
Proof. rewrite Z.shiftl_mul_pow2 by lia. reflexivity. Qed.

Lemma u32_byte a : byte_ok a -> u32 a = a.
Proof. unfold byte_ok, u32. intros H. apply Z.mod_small. lia. Qed.

Section CC.
  Variable data : list Z.
  Let cond := (fun '(v_csum, v_i) => (v_i : Z) <? Z.of_nat (length data) - 1) : Z * Z -> bool.
  Let body := (fun '(v_csum, v_i) =>
      (u32 (u32 (v_csum + u32 (Z.shiftl (u32 (nthZ data (Z.to_nat v_i))) 8)) + u32 (nthZ data (Z.to_nat (v_i + 1)))), v_i + 2)) : Z * Z -> Z * Z.
  Let final := (fun '(v_csum, v_i) =>
      if Z.rem (Z.of_nat (length data)) 2 =? 1
      then u32 (v_csum + u32 (Z.shiftl (u32 (nthZ data (Z.to_nat (Z.of_nat (length data) - 1)))) 8))
      else v_csum) : Z * Z -> Z.

  Lemma cc_loop : forall rest pre c fuel,
    data = pre ++ rest -> Nat.even (length pre) = true -> bytes_ok rest ->
    (length rest <= fuel)%nat ->
    final (while fuel cond body (c, Z.of_nat (length pre))) = C08Model.ComputeChecksum rest c.
  Proof.
    intros rest. induction rest as [| a | a b t IH] using pair_ind; intros pre c fuel Hd Hev Hb Hf.
    - rewrite while_false.
      2:{ unfold cond. apply Z.ltb_ge. rewrite Hd, app_nil_r. lia. }
      unfold final. rewrite Hd, app_nil_r.
      assert (Hr : Z.rem (Z.of_nat (length pre)) 2 = 0).
      { rewrite Z.rem_mod_nonneg by lia. apply Nat.even_spec in Hev. destruct Hev as [k Hk]. rewrite Hk. lia. }
      rewrite Hr. reflexivity.
    - rewrite while_false.
      2:{ unfold cond. apply Z.ltb_ge. rewrite Hd, app_length. cbn. lia. }
      unfold final.
      assert (Hr : Z.rem (Z.of_nat (length data)) 2 = 1).
      { rewrite Z.rem_mod_nonneg by lia. rewrite Hd, app_length. cbn [length].
        apply Nat.even_spec in Hev. destruct Hev as [k Hk]. rewrite Hk. lia. }
      rewrite Hr. cbn [Z.eqb Pos.eqb].
      replace (Z.to_nat (Z.of_nat (length data) - 1)) with (length pre) by (rewrite Hd, app_length; cbn; lia).
      rewrite Hd, nthZ_app_mid. unfold bytes_ok in Hb. inversion Hb as [|? ? Ha ?]; subst.
      cbn [C08Model.ComputeChecksum]. rewrite (u32_byte a) by assumption. rewrite shiftl8. reflexivity.
    - destruct fuel as [|fuel]; [cbn in Hf; lia|]. rewrite while_unfold.
      assert (Hc : cond (c, Z.of_nat (length pre)) = true).
      { unfold cond. apply Z.ltb_lt. rewrite Hd, app_length. cbn [length]. lia. }
      rewrite Hc. unfold body at 2.
      rewrite Nat2Z.id. replace (Z.to_nat (Z.of_nat (length pre) + 1)) with (S (length pre)) by lia.
      rewrite Hd at 1 2. rewrite nthZ_app_mid, nthZ_app_mid1.
      unfold bytes_ok in Hb. inversion Hb as [|? ? Ha Hb']; subst. inversion Hb' as [|? ? Hbb Hb'']; subst.
      rewrite (u32_byte a) by assumption. rewrite (u32_byte b) by assumption. rewrite shiftl8.
      cbn [C08Model.ComputeChecksum].
      replace (Z.of_nat (length pre) + 2) with (Z.of_nat (length (pre ++ [a; b]))) by (rewrite app_length; cbn; lia).
      apply IH.
      + rewrite <- app_assoc. reflexivity.
      + rewrite app_length. cbn [length]. rewrite Nat.add_comm. cbn [Nat.add Nat.even]. exact Hev.
      + assumption.
      + cbn in Hf. lia.
  Qed.
End CC.

Lemma go_ComputeChecksum_eq data c : bytes_ok data -> go_ComputeChecksum data c = C08Model.ComputeChecksum data c.
Proof.
  intros Hb. unfold go_ComputeChecksum. cbv zeta.
  pose proof (cc_loop data data [] c (length data + 64)%nat eq_refl eq_refl Hb ltac:(lia)) as H.
  cbn [length Z.of_nat] in H. rewrite <- H. reflexivity.
Qed.

(* ---- tcpassembly Sequence against the C10 model ---- *)
Lemma go_tcpassembly_Difference_eq s t : go_tcpassembly_Difference s t = C10Model.difference s t.
Proof.
  unfold go_tcpassembly_Difference, C10Model.difference.
  change (C10Model.uint32Size - C10Model.quarter) with 3221225472. change C10Model.quarter with 1073741824.
  change C10Model.uint32Size with 4294967296.
  destruct ((s >? 3221225472) && (t <? 1073741824)); [cbv zeta; lia|].
  destruct ((t >? 3221225472) && (s <? 1073741824)); cbv zeta; lia.
Qed.

Lemma go_tcpassembly_Add_model_eq s t : go_tcpassembly_Add s t = C10Model.seq_add s t.
Proof. reflexivity. Qed.
