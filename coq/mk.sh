#!/bin/sh
# regenerate _CoqProject + Makefile and build everything (full .vo build)
cd "$(dirname "$0")"
(echo "-Q . GP"; echo "-arg -w -arg -notation-overridden"; find Lib Model Proofs Props Gen -name '*.v' 2>/dev/null | sort) > _CoqProject
coq_makefile -f _CoqProject -o Makefile >/dev/null 2>&1
exec make -j16 "$@"
