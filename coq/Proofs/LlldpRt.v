(* LLDP: serialize then decode gives back ChassisID, PortID, TTL and Values (C06). *)
From GP Require Import Base ListX Codec MiscLib MidLib LlldpModel LlldpProofs.
From Coq Require Import Lia ZifyBool ZifyNat.
Open Scope Z_scope.
Ltac Zify.zify_post_hook ::= Z.div_mod_to_equations.

(* (type << 9) | length = type * 512 + length for a 7-bit type and a 9-bit length: by exhaustive evaluation *)
Lemma lor_table : forallb (fun t => forallb (fun l => Z.lor (t * 512) l =? t * 512 + l) (map Z.of_nat (seq 0 512))) (map Z.of_nat (seq 0 128)) = true.
Proof. vm_compute. reflexivity. Qed.

Lemma ll_idlen_add ty len : 0 <= ty < 128 -> 0 <= len < 512 -> ll_idlen ty len = ty * 512 + len.
Proof.
  intros Ht Hl. unfold ll_idlen. replace ((ty * 512) mod 65536) with (ty * 512) by lia. replace (len mod 65536) with len by lia.
  pose proof lor_table as T. rewrite forallb_forall in T.
  specialize (T ty). rewrite forallb_forall in T.
  apply Z.eqb_eq. apply T.
  - apply in_map_iff. exists (Z.to_nat ty). split; [lia|apply in_seq; lia].
  - apply in_map_iff. exists (Z.to_nat len). split; [lia|apply in_seq; lia].
Qed.

Definition tlv (ty : Z) (value : list Z) : list Z := cd_put16 (ty * 512 + zlen value) ++ value.

Lemma ll_walk_tlv f ty value rest : 0 < ty < 128 -> zlen value <= 511 ->
  ll_walk (S f) (tlv ty value ++ rest) =
  match ll_walk f rest with (Ok l, tr) => (Ok (mkLv ty (zlen value) value :: l), tr) | r => r end.
Proof.
  intros Ht Hl. pose proof (zlen_nonneg value) as Hv. pose proof (zlen_nonneg rest) as Hr.
  unfold tlv, cd_put16. set (L := zlen value) in *.
  set (b0 := ((ty * 512 + L) / 256) mod 256). set (b1 := (ty * 512 + L) mod 256).
  cbn [app]. set (data := b0 :: b1 :: value ++ rest).
  assert (Hn : zlen data = 2 + L + zlen rest) by (unfold data; rewrite !zlen_cons, zlen_app; fold L; lia).
  cbn [ll_walk]. destruct (zlen data =? 0) eqn:C0; [lia|]. destruct (zlen data <? 2) eqn:C1; [lia|].
  rewrite !cd_idx_ok by lia. change (nth (Z.to_nat 0) data 0) with b0. change (nth (Z.to_nat 1) data 0) with b1.
  cbv zeta. replace (b0 / 2) with ty by (unfold b0; lia). replace (b0 mod 2 * 256 + b1) with L by (unfold b0, b1; lia).
  replace ((L + 2) mod 65536) with (L + 2) by lia. replace ((2 + L) mod 65536) with (2 + L) by lia.
  destruct ((0 <? L) && (zlen data <? L + 2)) eqn:C2; [lia|].
  assert (Ev : (if 0 <? L then cd_slc data 2 (L + 2) else Ok []) = Ok value).
  { destruct (0 <? L) eqn:C3.
    - rewrite cd_slc_ok by lia. f_equal. unfold data. change (b0 :: b1 :: value ++ rest) with ([b0; b1] ++ value ++ rest).
      apply slice_at; [reflexivity|]. cbn [length]. unfold L, zlen. lia.
    - f_equal. symmetry. destruct value; [reflexivity|unfold L in C3; rewrite zlen_cons in C3; pose proof (zlen_nonneg value); lia]. }
  rewrite Ev. destruct (ty =? 0) eqn:C4; [lia|]. destruct (zlen data <? 2 + L) eqn:C5; [lia|].
  rewrite cd_slc_ok by lia.
  assert (Es : slice data (Z.to_nat (2 + L)) (Z.to_nat (zlen data)) = rest).
  { rewrite Hn. unfold data. change (b0 :: b1 :: value ++ rest) with (([b0; b1] ++ value) ++ rest).
    apply slice_to_end; rewrite app_length; cbn [length]; unfold L, zlen; lia. }
  rewrite Es. reflexivity.
Qed.

Definition okv (v : lval) : Prop := 4 <= lv_type v <= 127 /\ lv_len v = zlen (lv_value v) /\ lv_len v <= 511.
Definition tlvv (v : lval) : list Z := tlv (lv_type v) (lv_value v).

Lemma ll_walk_vals : forall vs f rest, Forall okv vs ->
  ll_walk (length vs + f) (concat (map tlvv vs) ++ rest) =
  match ll_walk f rest with (Ok l, tr) => (Ok (vs ++ l), tr) | r => r end.
Proof.
  induction vs as [|v t IH]; intros f rest HF.
  - cbn. destruct (ll_walk f rest) as [[l|e|s] tr]; reflexivity.
  - inversion HF as [|? ? [Ht [Hl Hb]] HF']; subst. cbn [map concat length Nat.add]. rewrite <- app_assoc.
    unfold tlvv at 1. rewrite ll_walk_tlv by lia. rewrite IH by exact HF'.
    destruct (ll_walk f rest) as [[l|e|s] tr]; try reflexivity.
    cbn [app]. do 3 f_equal. destruct v as [ty len val]; cbn [lv_type lv_len lv_value] in *. subst len. reflexivity.
Qed.

(* the mandatory-TLV pass sends every value of type 4..127 to Values *)
Lemma ll_mand_vals : forall vs rest c ge, Forall okv vs ->
  ll_mand (vs ++ rest) c ge =
  ll_mand rest (mkLl (ll_contents c) (ll_payload c) (ll_csub c) (ll_cid c) (ll_psub c) (ll_pid c) (ll_ttl c) (ll_values c ++ vs) (ll_info c) (ll_added c)) ge.
Proof.
  induction vs as [|v t IH]; intros rest c ge HF.
  - cbn [app]. rewrite app_nil_r. destruct c; reflexivity.
  - inversion HF as [|? ? [Ht _] HF']; subst. cbn [app ll_mand]. cbv zeta.
    destruct (lv_type v =? 0) eqn:C0; [lia|]. destruct (lv_type v =? 1) eqn:C1; [lia|].
    destruct (lv_type v =? 2) eqn:C2; [lia|]. destruct (lv_type v =? 3) eqn:C3; [lia|].
    rewrite IH by exact HF'. cbn [ll_contents ll_payload ll_csub ll_cid ll_psub ll_pid ll_ttl ll_values ll_info ll_added].
    rewrite <- app_assoc. reflexivity.
Qed.

Lemma ll_vals_flat : forall vs off reg, Forall okv vs ->
  md_flat (ll_vals_chunks true vs off reg) = concat (map tlvv vs).
Proof.
  induction vs as [|v t IH]; intros off reg HF; [reflexivity|]. inversion HF as [|? ? [Ht [Hl Hb]] HF']; subst.
  cbn [ll_vals_chunks map concat]. cbv zeta. rewrite md_flat_app, IH by exact HF'. f_equal.
  pose proof (zlen_nonneg (lv_value v)) as Hn.
  replace (lv_len v mod 65536) with (zlen (lv_value v)) by lia.
  unfold ll_val_chunks. cbv zeta. replace (lv_len v mod 65536) with (zlen (lv_value v)) by lia.
  rewrite firstn_all2 by (unfold zlen; lia). rewrite Z.sub_diag. change (Z.to_nat 0) with 0%nat. cbn [firstn].
  unfold md_flat. cbn [map concat snd]. rewrite !app_nil_r. unfold tlvv, tlv.
  rewrite ll_idlen_add by lia. reflexivity.
Qed.

Definition lldp_wf (l : lldp) : Prop :=
  0 < ll_csub l < 256 /\ 0 < ll_psub l < 256 /\ 1 <= zlen (ll_cid l) <= 510 /\ 1 <= zlen (ll_pid l) <= 510 /\
  0 <= ll_ttl l < 65536 /\ Forall okv (ll_values l) /\
  snd (ll_info_pass false (ll_values l) li_zero) = Ok tt.

Lemma ll_id_flat ty sub id : 0 <= ty < 128 -> 0 <= sub < 256 -> zlen id <= 510 ->
  md_flat (ll_id_chunks ty sub id) = tlv ty (sub :: id).
Proof.
  intros Ht Hs Hl. pose proof (zlen_nonneg id). unfold ll_id_chunks, md_flat. cbn [map concat snd]. rewrite app_nil_r.
  rewrite ll_idlen_add by lia. unfold tlv. rewrite zlen_cons. replace (sub mod 256) with sub by lia.
  replace (zlen id + 1) with (1 + zlen id) by lia. reflexivity.
Qed.

Lemma ll_roundtrip : forall l csum junk bytes l' old,
  lldp_wf l -> ll_serialize l [] true csum junk = (Ok bytes, l') ->
  exists d, ll_decode_into old bytes = (d, Ok tt, false) /\
    ll_csub d = ll_csub l /\ ll_cid d = ll_cid l /\ ll_psub d = ll_psub l /\ ll_pid d = ll_pid l /\
    ll_ttl d = ll_ttl l /\ ll_values d = ll_values l /\ ll_contents d = bytes /\ ll_payload d = [] /\ l' = l.
Proof.
  intros l csum junk bytes l' old [Hcs [Hps [Hci [Hpi [Httl [HF Hinfo]]]]]] Hs.
  unfold ll_serialize in Hs. destruct (ll_serialize_eq true l [] true csum junk) as [cs [E Hc]]. rewrite E in Hs.
  inversion Hs as [[Hb Hl']]. clear Hs E. specialize (Hc eq_refl). cbn [app]. subst bytes l'.
  set (vs := ll_values l) in *.
  set (ttlb := cd_put16 (ll_ttl l mod 65536)).
  assert (Hbytes : md_flat cs = tlv 1 (ll_csub l :: ll_cid l) ++ tlv 2 (ll_psub l :: ll_pid l) ++ tlv 3 ttlb ++ concat (map tlvv vs) ++ [0; 0]).
  { rewrite Hc. rewrite !md_flat_app. rewrite ll_vals_flat by exact HF. rewrite !ll_id_flat by lia. reflexivity. }
  rewrite Hbytes. set (data := tlv 1 _ ++ _).
  unfold ll_decode_into, ll_decode_gen.
  assert (Hfuel : exists k, S (length data) = S (S (S (length vs + S k)))).
  { exists (length data - 3 - length vs)%nat.
    assert (length vs + 4 <= length data)%nat; [|lia].
    unfold data. rewrite !app_length. unfold tlv. rewrite !app_length. cbn [length cd_put16].
    assert (length vs <= length (concat (map tlvv vs)))%nat; [|lia].
    clear. induction vs as [|v t IH]; cbn [map concat length]; [lia|]. rewrite app_length. unfold tlvv at 1, tlv. rewrite app_length. cbn [length cd_put16]. lia. }
  destruct Hfuel as [k Ek]. rewrite Ek. unfold data.
  rewrite ll_walk_tlv by (try rewrite zlen_cons; lia).
  rewrite ll_walk_tlv by (try rewrite zlen_cons; lia).
  rewrite ll_walk_tlv by (unfold ttlb; cbn; lia).
  rewrite ll_walk_vals by exact HF.
  change (ll_walk (S k) [0; 0]) with (Ok [mkLv 0 0 []], false).
  cbv iota. fold data.
  set (v1 := mkLv 1 _ _). set (v2 := mkLv 2 _ _). set (v3 := mkLv 3 _ _).
  destruct (Z.of_nat (length (v1 :: v2 :: v3 :: vs ++ [mkLv 0 0 []])) <? 4) eqn:C4; [cbn [length] in C4; rewrite app_length in C4; cbn [length] in C4; lia|].
  (* mandatory pass *)
  assert (Em : ll_mand (v1 :: v2 :: v3 :: vs ++ [mkLv 0 0 []]) ll_fresh false =
               Ok (mkLl [] [] (ll_csub l) (ll_cid l) (ll_psub l) (ll_pid l) (ll_ttl l) vs li_zero 0, true)).
  { unfold v1, v2, v3. cbn [ll_mand lv_type lv_value Z.eqb Pos.eqb]. cbv zeta.
    pose proof (zlen_nonneg (ll_cid l)). pose proof (zlen_nonneg (ll_pid l)).
    rewrite !zlen_cons.
    destruct (1 + zlen (ll_cid l) <? 2) eqn:A1; [lia|]. rewrite cd_idx_ok by (rewrite ?zlen_cons; lia). cbn [obind].
    rewrite cd_slc_ok by (rewrite ?zlen_cons; lia). cbn [obind].
    replace (slice (ll_csub l :: ll_cid l) (Z.to_nat 1) (Z.to_nat (1 + zlen (ll_cid l)))) with (ll_cid l)
      by (symmetry; change (ll_csub l :: ll_cid l) with ([ll_csub l] ++ ll_cid l); apply slice_to_end; cbn [length]; unfold zlen; lia).
    destruct (1 + zlen (ll_pid l) <? 2) eqn:A2; [lia|]. rewrite cd_idx_ok by (rewrite ?zlen_cons; lia). cbn [obind].
    rewrite cd_slc_ok by (rewrite ?zlen_cons; lia). cbn [obind].
    replace (slice (ll_psub l :: ll_pid l) (Z.to_nat 1) (Z.to_nat (1 + zlen (ll_pid l)))) with (ll_pid l)
      by (symmetry; change (ll_psub l :: ll_pid l) with ([ll_psub l] ++ ll_pid l); apply slice_to_end; cbn [length]; unfold zlen; lia).
    change (zlen ttlb) with 2. change (2 <? 2) with false. cbv iota.
    rewrite cd_rd16_ok by (change (zlen ttlb) with 2; lia). cbn [obind].
    change (nth (Z.to_nat 0) (ll_csub l :: ll_cid l) 0) with (ll_csub l).
    change (nth (Z.to_nat 0) (ll_psub l :: ll_pid l) 0) with (ll_psub l).
    change (nth (Z.to_nat 0) ttlb 0) with ((ll_ttl l mod 65536 / 256) mod 256).
    change (nth (Z.to_nat (0 + 1)) ttlb 0) with ((ll_ttl l mod 65536) mod 256).
    replace (_ * 256 + (ll_ttl l mod 65536) mod 256) with (ll_ttl l) by lia.
    rewrite ll_mand_vals by exact HF. cbn. reflexivity. }
  rewrite Em. cbn [ll_csub ll_psub ll_cid ll_pid ll_ttl ll_values ll_info].
  destruct ((ll_csub l =? 0) || (ll_psub l =? 0) || negb true) eqn:C5; [lia|].
  destruct (ll_info_pass false vs li_zero) as [info o] eqn:Ei. cbn [snd] in Hinfo. subst o.
  eexists. split; [reflexivity|]. cbn [ll_csub ll_psub ll_cid ll_pid ll_ttl ll_values ll_contents ll_payload]. repeat split; reflexivity.
Qed.

(* SerializeTo reads only ChassisID, PortID, TTL and Values *)
Lemma ll_serialize_fields l1 l2 payload fixl csum junk :
  ll_csub l1 = ll_csub l2 -> ll_cid l1 = ll_cid l2 -> ll_psub l1 = ll_psub l2 -> ll_pid l1 = ll_pid l2 ->
  ll_ttl l1 = ll_ttl l2 -> ll_values l1 = ll_values l2 ->
  fst (ll_serialize l1 payload fixl csum junk) = fst (ll_serialize l2 payload fixl csum junk).
Proof.
  intros H1 H2 H3 H4 H5 H6. destruct l1 as [a1 a2 a3 a4 a5 a6 a7 a8 a9 a10], l2 as [b1 b2 b3 b4 b5 b6 b7 b8 b9 b10]. cbn [ll_csub ll_cid ll_psub ll_pid ll_ttl ll_values] in *. subst.
  unfold ll_serialize, ll_serialize_gen, ll_total. cbn [ll_csub ll_cid ll_psub ll_pid ll_ttl ll_values].
  destruct (md_emit _ junk); reflexivity.
Qed.

(* re-serializing the decoded layer gives the same bytes *)
Lemma ll_fixpoint : forall l csum junk bytes l' old d junk2,
  lldp_wf l -> ll_serialize l [] true csum junk = (Ok bytes, l') -> ll_decode_into old bytes = (d, Ok tt, false) ->
  fst (ll_serialize d [] true csum junk2) = Ok bytes.
Proof.
  intros l csum junk bytes l' old d junk2 W S D.
  destruct (ll_roundtrip l csum junk bytes l' old W S) as [d' [D' [E1 [E2 [E3 [E4 [E5 [E6 _]]]]]]]].
  rewrite D in D'. inversion D'; subst d'.
  rewrite (ll_serialize_fields d l [] true csum junk2 E1 E2 E3 E4 E5 E6).
  rewrite (ll_serialize_junk_free l [] true csum junk2 junk), S. reflexivity.
Qed.
