(* Lemmas about the Diameter codec model: reused object = fresh object; serializer closed form. *)
From GP Require Import Base ListX Codec MiscLib LdiameterModel LdiameterProofs.
From Coq Require Import Lia ZifyBool ZifyNat.
Open Scope Z_scope.
Ltac Zify.zify_post_hook ::= Z.div_mod_to_equations.

Ltac dstep :=
  match goal with
  | |- context [ml_bind ?o _ _ _] => destruct o eqn:?; cbn [ml_bind]
  | |- context [if ?c then _ else _] => destruct c eqn:?
  | |- context [let '(a, b) := dm_walk ?i ?f ?d in _] => destruct (dm_walk i f d) as [? ?]
  | |- context [match ?o with Ok _ => _ | Err _ => _ | Panic _ => _ end] => destruct o
  | |- context [match ?p with xH => _ | xO _ => _ | xI _ => _ end] => destruct p
  | |- context [match ?z with Z0 => _ | Zpos _ => _ | Zneg _ => _ end] => destruct z
  end.

Lemma dm_decode_fresh isg old data :
  let r1 := dm_decode_into isg old data in
  let r2 := dm_decode_into isg dm_fresh data in
  snd (fst r1) = snd (fst r2) /\ snd r1 = snd r2 /\
  (snd (fst r1) = Ok tt -> fst (fst r1) = fst (fst r2)).
Proof.
  cbv zeta. unfold dm_decode_into. cbv zeta.
  repeat (dstep; try solve [cbn [fst snd]; split; [reflexivity | split; [reflexivity | try (intros X; discriminate X); try reflexivity]]]).
  all: try (cbn [fst snd]; split; [reflexivity | split; [reflexivity | intros _; reflexivity]]).
Qed.

(* ---------------------------------------------------------------- serializer *)
Definition dm_alen (l : list davp) : Z := fold_left (fun a x => a + zlen (dm_avp_bytes x)) l 0.

Lemma dm_fold_shift l : forall a, fold_left (fun a x => a + zlen (dm_avp_bytes x)) l a = a + dm_alen l.
Proof.
  unfold dm_alen. induction l as [|x t IH]; intros a; cbn [fold_left]; [lia|]. rewrite IH, (IH (0 + _)). lia.
Qed.
Lemma dm_alen_cons x t : dm_alen (x :: t) = zlen (dm_avp_bytes x) + dm_alen t.
Proof. unfold dm_alen at 1. cbn [fold_left]. rewrite dm_fold_shift. lia. Qed.
Lemma dm_alen_nonneg l : 0 <= dm_alen l.
Proof. induction l as [|x t IH]; [unfold dm_alen; cbn; lia|]. rewrite dm_alen_cons. pose proof (zlen_nonneg (dm_avp_bytes x)). lia. Qed.
Lemma dm_concat_len l : zlen (concat (map dm_avp_bytes l)) = dm_alen l.
Proof. induction l as [|x t IH]; [reflexivity|]. cbn [map concat]. rewrite zlen_app, IH, dm_alen_cons. reflexivity. Qed.

Lemma dm_copy_avps_tile : forall l b pre n off, ml_tiled b pre n -> off = zlen pre -> zlen pre + dm_alen l <= n ->
  exists b', dm_copy_avps b off l = Ok b' /\ ml_tiled b' (pre ++ concat (map dm_avp_bytes l)) n.
Proof.
  induction l as [|x t IH]; intros b pre n off T Ho Hle; cbn [dm_copy_avps map concat].
  - exists b. split; [reflexivity|]. rewrite app_nil_r. exact T.
  - rewrite dm_alen_cons in Hle. pose proof (dm_alen_nonneg t). pose proof (zlen_nonneg (dm_avp_bytes x)).
    destruct (ml_tile_copy b pre (dm_avp_bytes x) n off T Ho ltac:(lia)) as [b1 [E T1]]. rewrite E. cbn [obind].
    destruct (IH b1 (pre ++ dm_avp_bytes x) n (off + zlen (dm_avp_bytes x)) T1) as [b2 [E2 T2]].
    + rewrite zlen_app. lia.
    + rewrite zlen_app. lia.
    + exists b2. split; [exact E2|]. rewrite <- app_assoc in T2. exact T2.
Qed.

Definition dm_l1 (fixl : bool) (l : diameter) : diameter :=
  if fixl then mkDm (dm_contents l) (dm_payload l) (dm_version l) ((20 + dm_alen (dm_avps l)) mod 4294967296) (dm_req l) (dm_prox l) (dm_err l)
                    (dm_retr l) (dm_cmd l) (dm_app l) (dm_hbh l) (dm_e2e l) (dm_avps l) else l.

Definition dm_hdr20 (l1 : diameter) : list Z :=
  [dm_version l1 mod 256] ++ [(dm_mlen l1 / 65536) mod 256; (dm_mlen l1 / 256) mod 256; dm_mlen l1 mod 256] ++
  [(if dm_req l1 then 128 else 0) + (if dm_prox l1 then 64 else 0) + (if dm_err l1 then 32 else 0) + (if dm_retr l1 then 16 else 0)] ++
  [(dm_cmd l1 / 65536) mod 256; (dm_cmd l1 / 256) mod 256; dm_cmd l1 mod 256] ++
  ml_put32 (dm_app l1 mod 4294967296) ++ ml_put32 (dm_hbh l1 mod 4294967296) ++ ml_put32 (dm_e2e l1 mod 4294967296).

Lemma dm_l1_avps fixl l : dm_avps (dm_l1 fixl l) = dm_avps l.
Proof. destruct fixl; reflexivity. Qed.

Lemma dm_serialize_spec l payload fixl csum junk :
  dm_serialize l payload fixl csum junk =
  (Ok ((dm_hdr20 (dm_l1 fixl l) ++ concat (map dm_avp_bytes (dm_avps l))) ++ payload), dm_l1 fixl l).
Proof.
  unfold dm_serialize. cbv zeta. rewrite dm_fold_shift. fold (dm_l1 fixl l). set (l1 := dm_l1 fixl l).
  pose proof (dm_alen_nonneg (dm_avps l)) as Hn.
  pose proof (ml_tile_init (20 + dm_alen (dm_avps l)) junk ltac:(lia)) as T.
  assert (Z3 : forall a b c : Z, zlen [a; b; c] = 3) by reflexivity.
  ml_tile_step T. ml_tile_step T; [rewrite ?zlen_app, ?zlen_one, ?Z3; lia|]. ml_tile_step T; [rewrite ?zlen_app, ?zlen_one, ?Z3; lia..|].
  ml_tile_step T; [rewrite ?zlen_app, ?zlen_one, ?Z3; lia..|].
  ml_tile_step T; [rewrite ?zlen_app, ?zlen_one, ?Z3, ?zlen_put32; lia..|].
  ml_tile_step T; [rewrite ?zlen_app, ?zlen_one, ?Z3, ?zlen_put32; lia..|].
  ml_tile_step T; [rewrite ?zlen_app, ?zlen_one, ?Z3, ?zlen_put32; lia..|].
  match type of T with ml_tiled ?bb ?p _ => set (bcur := bb) in *; set (pre := p) in * end.
  assert (Hpre : zlen pre = 20) by reflexivity.
  destruct (dm_copy_avps_tile (dm_avps l1) bcur pre _ 20 T ltac:(lia)) as [bfin [E T3]].
  { unfold l1. rewrite dm_l1_avps. lia. }
  rewrite E. apply ml_tile_done in T3; [|unfold l1; rewrite zlen_app, dm_concat_len, dm_l1_avps; lia].
  subst bfin. unfold l1 at 1. rewrite dm_l1_avps. unfold dm_hdr20. fold l1. subst pre. rewrite <- ?app_assoc. reflexivity.
Qed.

Lemma dm_serialize_junk_free l payload fixl csum junk1 junk2 :
  dm_serialize l payload fixl csum junk1 = dm_serialize l payload fixl csum junk2.
Proof. rewrite !dm_serialize_spec. reflexivity. Qed.

Lemma dm_serialize_no_panic l payload fixl csum junk : is_panic (fst (dm_serialize l payload fixl csum junk)) = false.
Proof. rewrite dm_serialize_spec. reflexivity. Qed.
