(* Lsflow — proofs about coq/Model/LsflowModel.v: no read of the sFlow decoder is out of range, every loop
   driven by a count from the wire consumes input on each round (fuel never exhausted), reused = fresh. *)
From GP Require Import Base Codec LsflowModel.
From Coq Require Import Lia ZifyBool ZifyNat.
Open Scope Z_scope.

(* ------------------------------------------------------------------ primitives *)
Lemma sf_short_spec : forall n d, sf_short n d = (length d <? n)%nat.
Proof.
  induction n as [|n IH]; intros [|x t]; cbn [sf_short length]; try reflexivity.
  exact (IH t).
Qed.
Lemma short_false n d : sf_short n d = false -> (n <= length d)%nat.
Proof. rewrite sf_short_spec. intros H. apply Nat.ltb_ge in H. exact H. Qed.

Lemma p_u32_ok_r : forall d, (4 <= length d)%nat -> exists v, 0 <= v < 4294967296 /\ p_u32 d = Ok (v, skipn 4 d).
Proof.
  intros [|a [|b [|c [|e r]]]] H; cbn [length] in H; try lia. eexists; split; [|reflexivity].
  unfold u32. apply Z.mod_pos_bound. lia.
Qed.
Lemma p_u32_ok : forall d, (4 <= length d)%nat -> exists v, p_u32 d = Ok (v, skipn 4 d).
Proof. intros d H. destruct (p_u32_ok_r d H) as [v [_ Hv]]. exists v. exact Hv. Qed.

Lemma sf_split_ok : forall n d, (n <= length d)%nat -> sf_split n d = Some (firstn n d, skipn n d).
Proof.
  induction n as [|n IH]; intros d H; [reflexivity|].
  destruct d as [|x t]; cbn [length] in H; [lia|].
  cbn [sf_split firstn skipn]. rewrite IH by lia. reflexivity.
Qed.

Lemma p_take_ok n d : 0 <= n <= zlen d -> p_take n d = Ok (firstn (Z.to_nat n) d, skipn (Z.to_nat n) d).
Proof. intros H. unfold p_take. destruct (0 <=? n) eqn:A, (n <=? zlen d) eqn:B; try reflexivity; lia. Qed.

Lemma pad32_nonneg n : 0 <= pad32 n.
Proof. unfold pad32. apply Z.mod_pos_bound. lia. Qed.

Lemma sf_skipn_skipn {A} : forall n m (l : list A), skipn n (skipn m l) = skipn (m + n) l.
Proof.
  intros n m. revert n. induction m as [|m IH]; intros n l; [reflexivity|].
  destruct l as [|x t]; cbn [skipn Nat.add]; [destruct n; reflexivity|]. apply IH.
Qed.

(* ------------------------------------------------------------------ fixed consumption *)
Definition fixp {A} (c : nat) (p : P A) := forall d, (c <= length d)%nat -> exists a, p d = Ok (a, skipn c d).

Lemma fixp_ret {A} (a : A) : fixp 0 (pret a).
Proof. intros d _. exists a. reflexivity. Qed.
Lemma fixp_u32 : fixp 4 p_u32.
Proof. exact p_u32_ok. Qed.
Lemma fixp_bytes n : fixp n (p_bytes n).
Proof. intros d H. unfold p_bytes. rewrite sf_split_ok by exact H. eexists; reflexivity. Qed.
Lemma fixp_bind {A B} (c1 c2 c : nat) (p : P A) (f : A -> P B) :
  fixp c1 p -> (forall a, fixp c2 (f a)) -> c = (c1 + c2)%nat -> fixp c (pbind p f).
Proof.
  intros Hp Hf -> d Hd. unfold pbind. destruct (Hp d) as [a Ha]; [lia|]. rewrite Ha.
  destruct (Hf a (skipn c1 d)) as [b Hb]; [rewrite skipn_length; lia|]. exists b. rewrite Hb.
  rewrite sf_skipn_skipn. reflexivity.
Qed.

Fixpoint shsize (sh : list fspec) : nat := match sh with [] => 0%nat | f :: t => (fsize f + shsize t)%nat end.

Lemma fixp_field f : fixp (fsize f) (p_field f).
Proof.
  destruct f; cbn [p_field fsize].
  - eapply (fixp_bind 4 0); [apply fixp_u32 | intros; apply fixp_ret | reflexivity].
  - eapply (fixp_bind 4 0); [apply fixp_u32 | intros; apply fixp_ret | reflexivity].
  - eapply (fixp_bind 4 4); [apply fixp_u32 | | reflexivity]. intros.
    eapply (fixp_bind 4 0); [apply fixp_u32 | intros; apply fixp_ret | reflexivity].
  - eapply (fixp_bind 4 4); [apply fixp_u32 | | reflexivity]. intros.
    eapply (fixp_bind 4 0); [apply fixp_u32 | intros; apply fixp_ret | reflexivity].
  - eapply (fixp_bind n 0); [apply fixp_bytes | intros; apply fixp_ret | lia].
  - eapply (fixp_bind n 0); [apply fixp_bytes | intros; apply fixp_ret | lia].
Qed.

Lemma fixp_shape sh : fixp (shsize sh) (p_shape sh).
Proof.
  induction sh as [|f t IH]; cbn [p_shape shsize]; [apply fixp_ret|].
  eapply fixp_bind; [apply fixp_field | | reflexivity]. intros vs.
  eapply (fixp_bind (shsize t) 0); [exact IH | intros; apply fixp_ret | lia].
Qed.

Lemma fixp_words n : fixp (4 * n) (p_words n).
Proof.
  induction n as [|n IH]; cbn [p_words]; [apply fixp_ret|].
  eapply (fixp_bind 4 (4 * n)); [apply fixp_u32 | | lia]. intros v.
  eapply (fixp_bind (4 * n) 0); [exact IH | intros; apply fixp_ret | lia].
Qed.

(* ------------------------------------------------------------------ the invariant of a parser:
   with at least k octets left it does not panic, does not run out of fuel, and leaves at least c octets fewer *)
Definition good {A} (k c : nat) (p : P A) := forall d, (k <= length d)%nat ->
  match p d with Ok (_, r) => (length r + c <= length d)%nat | Err e => e <> 99 | Panic _ => False end.

Lemma good_weaken {A} (k c k' c' : nat) (p : P A) : good k c p -> (k <= k')%nat -> (c' <= c)%nat -> good k' c' p.
Proof.
  intros H Hk Hc d Hd. specialize (H d ltac:(lia)). destruct (p d) as [[a r]|e|s]; auto. lia.
Qed.
Lemma good_ret {A} (a : A) : good 0 0 (pret a).
Proof. intros d _. cbn. lia. Qed.
Lemma good_err {A} e : e <> 99 -> good 0 0 (@perr A e).
Proof. intros H d _. exact H. Qed.
Lemma good_of_fixp {A} c (p : P A) : fixp c p -> good c c p.
Proof. intros H d Hd. destruct (H d Hd) as [a Ha]. rewrite Ha. rewrite skipn_length. lia. Qed.

Lemma good_fix_bind {A B} (k c1 c : nat) (p : P A) (f : A -> P B) :
  fixp c1 p -> (c1 <= k)%nat -> (c <= c1)%nat -> (forall a, good (k - c1) 0 (f a)) -> good k c (pbind p f).
Proof.
  intros Hp Hk Hc Hf d Hd. unfold pbind. destruct (Hp d) as [a Ha]; [lia|]. rewrite Ha.
  specialize (Hf a (skipn c1 d)). rewrite skipn_length in Hf. specialize (Hf ltac:(lia)).
  destruct (f a (skipn c1 d)) as [[b r]|e|s]; auto. lia.
Qed.
Lemma good_bind0 {A B} (k c1 c : nat) (p : P A) (f : A -> P B) :
  good k c1 p -> (c <= c1)%nat -> (forall a, good 0 0 (f a)) -> good k c (pbind p f).
Proof.
  intros Hp Hc Hf d Hd. unfold pbind. specialize (Hp d Hd). destruct (p d) as [[a r]|e|s]; auto.
  specialize (Hf a r ltac:(lia)). destruct (f a r) as [[b r']|e|s]; auto. lia.
Qed.
Lemma good_short {A} (k c n : nat) e (f : unit -> P A) :
  e <> 99 -> (forall u, good (Nat.max k n) c (f u)) -> good k c (pbind (p_short n e) f).
Proof.
  intros He Hf d Hd. unfold pbind, p_short. destruct (sf_short n d) eqn:E; [exact He|].
  apply short_false in E. apply Hf. lia.
Qed.
Lemma good_pw {A} (k c : nat) e (f : Z -> P A) :
  e <> 99 -> (c <= 4)%nat -> (forall v, good (k - 4) 0 (f v)) -> good k c (pbind (p_w e) f).
Proof.
  intros He Hc Hf d Hd. unfold pbind, p_w. destruct (sf_short 4 d) eqn:E; [exact He|].
  apply short_false in E. destruct (p_u32_ok d E) as [v Hv]. rewrite Hv.
  specialize (Hf v (skipn 4 d)). rewrite skipn_length in Hf. specialize (Hf ltac:(lia)).
  destruct (f v (skipn 4 d)) as [[b r]|e'|s]; auto. lia.
Qed.
Lemma good_pw_r {A} (k c : nat) e (f : Z -> P A) :
  e <> 99 -> (c <= 4)%nat -> (forall v, 0 <= v < 4294967296 -> good (k - 4) 0 (f v)) -> good k c (pbind (p_w e) f).
Proof.
  intros He Hc Hf d Hd. unfold pbind, p_w. destruct (sf_short 4 d) eqn:E; [exact He|].
  apply short_false in E. destruct (p_u32_ok_r d E) as [v [Hr Hv]]. rewrite Hv.
  specialize (Hf v Hr (skipn 4 d)). rewrite skipn_length in Hf. specialize (Hf ltac:(lia)).
  destruct (f v (skipn 4 d)) as [[b r]|e'|s]; auto. lia.
Qed.
Lemma good_fixed_bind {A} (k c m : nat) sh (f : list sv -> P A) :
  (shsize sh <= m)%nat -> (c <= shsize sh)%nat -> (forall a, good (Nat.max k m - shsize sh) 0 (f a)) ->
  good k c (pbind (p_fixed m sh) f).
Proof.
  intros Hm Hc Hf d Hd. unfold pbind, p_fixed, pbind, p_short. destruct (sf_short m d) eqn:E; [lia|].
  apply short_false in E. destruct (fixp_shape sh d) as [a Ha]; [lia|]. rewrite Ha.
  specialize (Hf a (skipn (shsize sh) d)). rewrite skipn_length in Hf. specialize (Hf ltac:(lia)).
  destruct (f a (skipn (shsize sh) d)) as [[b r]|e'|s]; auto. lia.
Qed.
Lemma good_fixed m sh : (shsize sh <= m)%nat -> good 0 (shsize sh) (p_fixed m sh).
Proof.
  intros Hm d Hd. unfold p_fixed, pbind, p_short. destruct (sf_short m d) eqn:E; [lia|].
  apply short_false in E. destruct (fixp_shape sh d) as [a Ha]; [lia|]. rewrite Ha. rewrite skipn_length. lia.
Qed.

(* a final `if too long then Err else take n` step *)
Lemma good_take {A} n d (g : list Z -> list Z -> A) : 0 <= n <= zlen d ->
  match (match p_take n d with Ok (x, r) => Ok (g x r, r) | Err e => Err e | Panic s => Panic s end) with
  | Ok (_, r) => (length r + 0 <= length d)%nat | Err e => e <> 99 | Panic _ => False end.
Proof. intros H. rewrite p_take_ok by exact H. rewrite skipn_length. lia. Qed.

(* ------------------------------------------------------------------ record decoders *)
Lemma skip_good : good 0 8 p_skip.
Proof.
  intros d _. unfold p_skip. destruct (sf_short 8 d) eqn:E; [lia|]. apply short_false in E.
  destruct (p_u32_ok (skipn 4 d)) as [rl Hr]; [rewrite skipn_length; lia|]. rewrite Hr.
  set (skip := rl + Z.rem (4 - rl) 4 + 8).
  destruct ((skip <? 8) || (skip >? zlen d)) eqn:C; [lia|].
  rewrite p_take_ok by lia. rewrite skipn_length. unfold zlen in C. lia.
Qed.
Lemma skip_err_good {A} e : e <> 99 -> good 0 8 (@p_skip_err A e).
Proof.
  intros He d Hd. unfold p_skip_err. pose proof (skip_good d Hd) as H.
  destruct (p_skip d) as [[u r]|e'|s]; auto.
Qed.

Lemma raw_good : good 0 20 p_raw.
Proof.
  unfold p_raw. apply good_fixed_bind; [cbn; lia | cbn; lia |]. intros a. cbn [shsize fsize Nat.max Nat.add Nat.sub].
  eapply (good_fix_bind _ 4); [apply fixp_u32 | cbn; lia | lia |]. intros hl d _.
  cbv zeta. destruct ((hl >? zlen d) || (pad32 hl >? zlen d)) eqn:C; [lia|].
  apply (good_take (pad32 hl) d (fun hdr r => a ++ [SU hl; SB hdr])). pose proof (pad32_nonneg hl). lia.
Qed.

Lemma router_good : good 0 8 p_router.
Proof.
  unfold p_router. apply good_fixed_bind; [cbn; lia | cbn; lia |]. intros a. cbn [shsize fsize Nat.max Nat.add Nat.sub].
  eapply (good_fix_bind _ 4); [apply fixp_u32 | cbn; lia | lia |]. intros at_.
  apply good_short; [lia|]. intros _.
  eapply good_fix_bind; [apply fixp_shape | cbn; lia | apply Nat.le_0_l |]. intros b.
  eapply good_weaken; [apply good_ret | lia | lia].
Qed.

Lemma cnt_ok c d : cnt_too_big c d = false -> (4 * Z.to_nat c <= length d)%nat.
Proof. unfold cnt_too_big, zlen. intros H. lia. Qed.

Lemma path_good : good 0 4 p_path.
Proof.
  unfold p_path. apply good_short; [lia|]. intros _.
  eapply (good_fix_bind _ 4); [apply fixp_u32 | cbn; lia | lia |]. intros ty.
  eapply (good_fix_bind _ 4); [apply fixp_u32 | cbn; lia | lia |]. intros c d _.
  destruct (cnt_too_big c d) eqn:C; [lia|]. apply cnt_ok in C.
  destruct (fixp_words (Z.to_nat c) d C) as [ms Hm]. rewrite Hm. rewrite skipn_length. lia.
Qed.

Lemma paths_good : forall fuel cnt d, (length d < fuel)%nat ->
  match p_paths fuel cnt d with Ok (_, r) => (length r <= length d)%nat | Err e => e <> 99 | Panic _ => False end.
Proof.
  induction fuel as [|f IH]; intros cnt d Hf; [lia|].
  cbn [p_paths]. destruct (cnt <=? 0); [lia|].
  pose proof (path_good d ltac:(lia)) as Hp. destruct (p_path d) as [[x r]|e|s]; auto.
  specialize (IH (cnt - 1) r ltac:(lia)). destruct (p_paths f (cnt - 1) r) as [[l r']|e|s]; auto. lia.
Qed.

Lemma gateway_good : good 0 8 p_gateway.
Proof.
  unfold p_gateway. apply good_fixed_bind; [cbn; lia | cbn; lia |]. intros a. cbn [shsize fsize Nat.max Nat.add Nat.sub].
  eapply (good_fix_bind _ 4); [apply fixp_u32 | cbn; lia | lia |]. intros at_.
  apply good_short; [lia|]. intros _.
  eapply good_fix_bind; [apply fixp_shape | cbn; lia | apply Nat.le_0_l |]. intros b.
  eapply (good_fix_bind _ 4); [apply fixp_u32 | cbn; lia | apply Nat.le_0_l |]. intros pc d _.
  pose proof (paths_good (S (length d)) pc d ltac:(lia)) as Hp.
  destruct (p_paths (S (length d)) pc d) as [[paths r]|e|s]; auto.
  assert (G : good 0 0 (pbind (p_w 35) (fun cl d2 =>
     if cnt_too_big cl d2 then Err 36 else
     match p_words (Z.to_nat cl) d2 with
     | Ok (cs, r2) => pbind (p_w 37) (fun lp => pret (a ++ b ++ [SU pc; SL paths; SL cs; SU lp])) r2
     | Err e => Err e | Panic s => Panic s
     end))).
  { apply good_pw; [lia | lia |]. intros cl d2 _.
    destruct (cnt_too_big cl d2) eqn:C; [lia|]. apply cnt_ok in C.
    destruct (fixp_words (Z.to_nat cl) d2 C) as [cs Hc]. rewrite Hc.
    assert (G2 : good 0 0 (pbind (p_w 37) (fun lp => pret (a ++ b ++ [SU pc; SL paths; SL cs; SU lp])))).
    { apply good_pw; [lia | lia |]. intros lp. eapply good_weaken; [apply good_ret | lia | lia]. }
    specialize (G2 (skipn (4 * Z.to_nat cl) d2) ltac:(lia)).
    destruct (pbind (p_w 37) (fun lp => pret (a ++ b ++ [SU pc; SL paths; SL cs; SU lp])) (skipn (4 * Z.to_nat cl) d2)) as [[x r2]|e|s]; auto.
    rewrite skipn_length in G2. lia. }
  specialize (G r ltac:(lia)).
  match goal with |- match ?t with _ => _ end => destruct t as [[x r2]|e|s] end; auto. lia.
Qed.

Lemma good_xstr_bind {A} n extra e (f : sv -> P A) : e <> 99 -> 0 <= extra ->
  (forall a, good (Z.to_nat extra) 0 (f a)) -> good 0 0 (pbind (p_xstr n extra e) f).
Proof.
  intros He Hx Hf d _. unfold pbind, p_xstr. cbv zeta.
  destruct ((n >? zlen d) || (pad32 n + extra >? zlen d)) eqn:C; [exact He|].
  pose proof (pad32_nonneg n) as Hp.
  rewrite p_take_ok by lia.
  specialize (Hf (SB (firstn (Z.to_nat n) d)) (skipn (Z.to_nat (pad32 n)) d)).
  rewrite skipn_length in Hf. unfold zlen in C. specialize (Hf ltac:(lia)).
  destruct (f (SB (firstn (Z.to_nat n) d)) (skipn (Z.to_nat (pad32 n)) d)) as [[b r]|e'|s]; auto. lia.
Qed.

Lemma url_good : good 0 12 p_url.
Proof.
  unfold p_url. apply good_fixed_bind; [cbn; lia | cbn; lia |]. intros a. cbn [shsize fsize Nat.max Nat.add Nat.sub].
  eapply (good_fix_bind _ 4); [apply fixp_u32 | cbn; lia | lia |]. intros ul.
  apply good_xstr_bind; [lia | lia |]. intros url.
  eapply (good_fix_bind _ 4); [apply fixp_u32 | cbn; lia | lia |]. intros hl.
  eapply good_weaken; [|apply Nat.le_0_l | apply Nat.le_refl].
  apply good_xstr_bind; [lia | lia |]. intros host. apply good_ret.
Qed.

Lemma user_good : good 0 12 p_user.
Proof.
  unfold p_user. apply good_fixed_bind; [cbn; lia | cbn; lia |]. intros a. cbn [shsize fsize Nat.max Nat.add Nat.sub].
  eapply (good_fix_bind _ 4); [apply fixp_u32 | cbn; lia | lia |]. intros sl.
  apply good_xstr_bind; [lia | lia |]. intros su.
  eapply (good_fix_bind _ 4); [apply fixp_u32 | cbn; lia | lia |]. intros dcs.
  eapply (good_fix_bind _ 4); [apply fixp_u32 | cbn; lia | lia |]. intros dl.
  eapply good_weaken; [|apply Nat.le_0_l | apply Nat.le_refl].
  apply good_xstr_bind; [lia | lia |]. intros du. apply good_ret.
Qed.

Lemma tunnel_good m sh : (shsize sh <= m)%nat -> good 0 8 (p_tunnel m sh).
Proof.
  intros Hm. unfold p_tunnel. apply good_fixed_bind; [cbn; lia | cbn; lia |]. intros a.
  eapply good_weaken; [|apply Nat.le_0_l | apply Nat.le_refl].
  apply (good_fixed_bind 0 0); [exact Hm | lia |]. intros b.
  eapply good_weaken; [apply good_ret | lia | lia].
Qed.

Lemma flow_fixed_ok ty m sh : flow_fixed ty = Some (m, sh) -> (shsize sh <= m)%nat /\ (4 <= shsize sh)%nat.
Proof.
  unfold flow_fixed.
  repeat match goal with |- context [if ?b then _ else _] => destruct b end;
    intros H; try discriminate; inversion H; subst; cbn; lia.
Qed.
Lemma counter_fixed_ok ty m sh : counter_fixed ty = Some (m, sh) -> (shsize sh <= m)%nat /\ (4 <= shsize sh)%nat.
Proof.
  unfold counter_fixed.
  repeat match goal with |- context [if ?b then _ else _] => destruct b end;
    intros H; try discriminate; inversion H; subst; cbn; lia.
Qed.

Ltac wk H := eapply good_weaken; [apply H | lia | lia].

Lemma flow_record_good ty : good 0 4 (p_flow_record ty).
Proof.
  unfold p_flow_record. destruct (flow_fixed ty) as [[m sh]|] eqn:E.
  - apply flow_fixed_ok in E. destruct E as [E1 E2]. eapply good_weaken; [apply good_fixed; exact E1 | lia | lia].
  - repeat match goal with |- context [if ?b then _ else _] => destruct b end.
    + wk raw_good.
    + wk router_good.
    + wk gateway_good.
    + wk user_good.
    + wk url_good.
    + eapply good_weaken; [apply tunnel_good | lia | lia]. cbn; lia.
    + eapply good_weaken; [apply tunnel_good | lia | lia]. cbn; lia.
    + eapply good_weaken; [apply (skip_err_good 42) | lia | lia]. lia.
    + intros d _. cbn. lia.
Qed.

Lemma frecs_good : forall fuel cnt d, (length d < fuel)%nat ->
  match p_frecs fuel cnt d with Ok (_, r) => (length r <= length d)%nat | Err e => e <> 99 | Panic _ => False end.
Proof.
  induction fuel as [|f IH]; intros cnt d Hf; [lia|].
  cbn [p_frecs]. destruct (cnt <=? 0); [lia|].
  destruct (sf_short 4 d) eqn:E; [lia|]. apply short_false in E.
  destruct (p_u32_ok d E) as [tag Ht]. rewrite Ht.
  destruct (tag / 4096 =? 0).
  - pose proof (flow_record_good (tag mod 4096) d ltac:(lia)) as Hp.
    destruct (p_flow_record (tag mod 4096) d) as [[x r]|e|s]; auto.
    specialize (IH (cnt - 1) r ltac:(lia)). destruct (p_frecs f (cnt - 1) r) as [[l r']|e|s]; auto. lia.
  - pose proof (skip_good d ltac:(lia)) as Hp.
    destruct (p_skip d) as [[x r]|e|s]; auto.
    specialize (IH (cnt - 1) r ltac:(lia)). destruct (p_frecs f (cnt - 1) r) as [[l r']|e|s]; auto. lia.
Qed.

Ltac pw := apply good_pw; [lia | lia |]; intros ?.
Ltac pu := eapply (good_fix_bind _ 4); [apply fixp_u32 | cbn; lia | lia |]; intros ?.

Lemma flow_sample_good ex : good 4 4 (p_flow_sample ex).
Proof.
  unfold p_flow_sample. pu. cbn [Nat.sub].
  pw. pw.
  assert (T : forall (io : list sv) (ci : Z * Z) sdf slen seq, good 0 0 (pbind (p_w 45) (fun rate => pbind (p_w 45) (fun pool => pbind (p_w 45) (fun drop =>
    pbind (if ex
         then pbind (p_w 45) (fun a => pbind (p_w 45) (fun b => pbind (p_w 45) (fun c => pbind (p_w 45) (fun e => pret [SU a; SU b; SU c; SU e]))))
         else pbind (p_w 45) (fun b => pbind (p_w 45) (fun e => pret [SU 0; SU b; SU 0; SU e]))) (fun io =>
    pbind (p_w 45) (fun rc => fun d =>
    match p_frecs (S (length d)) rc d with
    | Ok (recs, r) =>
      Ok (SL ([SU (sdf / 4096); SU (sdf mod 4096); SU slen; SU seq; SU (fst ci); SU (snd ci); SU rate; SU pool; SU drop]
            ++ io ++ [SU rc; SL recs]), r)
    | Err e => Err e
    | Panic s => Panic s
    end))))))).
  { intros _ ci sdf slen seq. pw. pw. pw.
    assert (L : forall io rate pool drop, good 0 0 (pbind (p_w 45) (fun rc => fun d =>
      match p_frecs (S (length d)) rc d with
      | Ok (recs, r) =>
        Ok (SL ([SU (sdf / 4096); SU (sdf mod 4096); SU slen; SU seq; SU (fst ci); SU (snd ci); SU rate; SU pool; SU drop]
              ++ io ++ [SU rc; SL recs]), r)
      | Err e => Err e
      | Panic s => Panic s
      end))).
    { intros io rate pool drop. apply good_pw; [lia | lia |]. intros rc d _.
      pose proof (frecs_good (S (length d)) rc d ltac:(lia)) as Hp.
      destruct (p_frecs (S (length d)) rc d) as [[recs r]|e|s]; auto. lia. }
    destruct ex.
    - eapply (good_bind0 0 0); [ | lia | intros io; apply L]. pw. pw. pw. pw. apply good_ret.
    - eapply (good_bind0 0 0); [ | lia | intros io; apply L]. pw. pw. apply good_ret. }
  destruct ex.
  - eapply (good_bind0 0 0); [ | lia | intros ci; apply (T [])]. pw. pw. apply good_ret.
  - eapply (good_bind0 0 0); [ | lia | intros ci; apply (T [])]. pw. apply good_ret.
Qed.

(* ------------------------------------------------------------------ counter records *)
Lemma words_err_good n e : e <> 99 -> good 0 0 (p_words_err n e).
Proof.
  intros He. induction n as [|n IH]; cbn [p_words_err]; [apply good_ret|].
  apply good_pw; [exact He | lia |]. intros v. cbn [Nat.sub].
  eapply (good_bind0 0 0); [exact IH | lia |]. intros l. apply good_ret.
Qed.

Lemma ethc_good : good 4 4 p_ethc.
Proof.
  unfold p_ethc. eapply (good_fix_bind _ 4); [apply (fixp_field FFmt) | lia | lia |]. intros a. cbn [Nat.sub].
  eapply (good_bind0 0 0); [apply words_err_good; lia | lia |]. intros b. apply good_ret.
Qed.

Lemma portname_good : good 0 8 p_portname.
Proof.
  unfold p_portname. apply good_fixed_bind; [cbn; lia | cbn; lia |]. intros a. cbn [shsize fsize Nat.max Nat.add Nat.sub].
  eapply good_weaken; [|apply Nat.le_0_l | apply Nat.le_refl].
  apply good_pw_r; [lia | lia |]. intros n Hn d _. cbv zeta.
  destruct ((n + 3) / 4 * 4 >? zlen d) eqn:C; [lia|].
  set (np := if n mod 4 =? 0 then n else (n + (4 - n mod 4)) mod 4294967296).
  apply (good_take np d (fun _ r => a ++ [SU np; SB (firstn (Z.to_nat n) d)])).
  unfold np. destruct (n mod 4 =? 0) eqn:M; lia.
Qed.

Lemma counter_record_good ty : good 4 4 (p_counter_record ty).
Proof.
  unfold p_counter_record. destruct (counter_fixed ty) as [[m sh]|] eqn:E.
  - apply counter_fixed_ok in E. destruct E as [E1 E2]. eapply good_weaken; [apply good_fixed; exact E1 | lia | lia].
  - repeat match goal with |- context [if ?b then _ else _] => destruct b end.
    + apply ethc_good.
    + wk portname_good.
    + eapply good_weaken; [apply (skip_err_good 53) | lia | lia]. lia.
    + intros d _. cbn. lia.
Qed.

Lemma crecs_good : forall fuel cnt d, (length d < fuel)%nat ->
  match p_crecs fuel cnt d with Ok (_, r) => (length r <= length d)%nat | Err e => e <> 99 | Panic _ => False end.
Proof.
  induction fuel as [|f IH]; intros cnt d Hf; [lia|].
  cbn [p_crecs]. destruct (cnt <=? 0); [lia|].
  destruct (sf_short 4 d) eqn:E; [lia|]. apply short_false in E.
  destruct (p_u32_ok d E) as [tag Ht]. rewrite Ht.
  pose proof (counter_record_good (tag mod 4096) d E) as Hp.
  destruct (p_counter_record (tag mod 4096) d) as [[x r]|e|s]; auto.
  specialize (IH (cnt - 1) r ltac:(lia)). destruct (p_crecs f (cnt - 1) r) as [[l r']|e|s]; auto. lia.
Qed.

Lemma counter_sample_good ex : good 0 4 (p_counter_sample ex).
Proof.
  unfold p_counter_sample. apply good_short; [lia|]. intros _.
  assert (K : (20 <= Nat.max 0 (if ex then 24 else 20))%nat) by (destruct ex; cbn; lia).
  assert (K2 : ex = true -> (24 <= Nat.max 0 (if ex then 24 else 20))%nat) by (intros ->; cbn; lia).
  set (k := Nat.max 0 (if ex then 24 else 20)) in *.
  eapply (good_fix_bind _ 4); [apply fixp_u32 | lia | lia |]; intros sdf.
  eapply (good_fix_bind _ 4); [apply fixp_u32 | lia | lia |]; intros slen.
  eapply (good_fix_bind _ 4); [apply fixp_u32 | lia | lia |]; intros seq.
  assert (L : forall ci : Z * Z, good 4 0 (pbind p_u32 (fun rc => fun d =>
    match p_crecs (S (length d)) rc d with
    | Ok (recs, r) =>
      Ok (SL [SU (sdf / 4096); SU (sdf mod 4096); SU slen; SU seq; SU (fst ci); SU (snd ci); SU rc; SL recs], r)
    | Err e => Err e
    | Panic s => Panic s
    end))).
  { intros ci. eapply (good_fix_bind _ 4); [apply fixp_u32 | lia | lia |]. intros rc d _.
    pose proof (crecs_good (S (length d)) rc d ltac:(lia)) as Hp.
    destruct (p_crecs (S (length d)) rc d) as [[recs r]|e|s]; auto. lia. }
  destruct ex.
  - specialize (K2 eq_refl).
    assert (F : fixp 8 (pbind p_u32 (fun c => pbind p_u32 (fun i => pret (c / 1073741824, i mod 1073741824))))).
    { eapply (fixp_bind 4 4); [apply fixp_u32 | | reflexivity]. intros c.
      eapply (fixp_bind 4 0); [apply fixp_u32 | intros; apply fixp_ret | reflexivity]. }
    eapply (good_fix_bind _ 8); [exact F | lia | lia |]. intros ci.
    eapply good_weaken; [apply L | lia | lia].
  - assert (F : fixp 4 (pbind p_u32 (fun v => pret (src_compact v)))).
    { eapply (fixp_bind 4 0); [apply fixp_u32 | intros; apply fixp_ret | reflexivity]. }
    eapply (good_fix_bind _ 4); [exact F | lia | lia |]. intros ci.
    eapply good_weaken; [apply L | lia | lia].
Qed.

(* ------------------------------------------------------------------ the datagram *)
Definition fine (o : outcome unit) : Prop := match o with Panic _ => False | Err e => e <> 99 | Ok _ => True end.

Lemma samples_fine : forall fuel cnt fs cs d, (length d < fuel)%nat ->
  fine (snd (fst (sf_samples fuel cnt fs cs d))).
Proof.
  induction fuel as [|f IH]; intros cnt fs cs d Hf; [lia|].
  cbn [sf_samples]. destruct (cnt <=? 0); [exact I|].
  destruct (sf_short 4 d) eqn:E; [cbn; lia|]. apply short_false in E.
  destruct (p_u32_ok d E) as [tag Ht]. rewrite Ht. cbv zeta.
  destruct ((tag mod 4096 =? 1) || (tag mod 4096 =? 3)).
  - pose proof (flow_sample_good (tag mod 4096 =? 3) d E) as Hp.
    destruct (p_flow_sample (tag mod 4096 =? 3) d) as [[x r]|e|s]; cbn [fst snd fine]; auto.
    apply IH. lia.
  - destruct ((tag mod 4096 =? 2) || (tag mod 4096 =? 4)); [|cbn; lia].
    pose proof (counter_sample_good (tag mod 4096 =? 4) d ltac:(lia)) as Hp.
    destruct (p_counter_sample (tag mod 4096 =? 4) d) as [[x r]|e|s]; cbn [fst snd fine]; auto.
    apply IH. lia.
Qed.

Lemma sf_decode_fine reset old data : fine (snd (fst (sf_decode_gen reset old data))).
Proof.
  unfold sf_decode_gen. cbv zeta.
  destruct (sf_short 8 data) eqn:E; [cbn; lia|]. apply short_false in E.
  destruct (p_u32_ok data ltac:(lia)) as [ver Hv]. rewrite Hv.
  destruct (p_u32_ok (skipn 4 data)) as [at_ Ha]; [rewrite skipn_length; lia|]. rewrite Ha.
  rewrite sf_skipn_skipn. cbn [Nat.add].
  set (d2 := skipn 8 data).
  destruct (sf_short (ip_len at_ + 16) d2) eqn:E2; [cbn; lia|]. apply short_false in E2.
  unfold p_bytes. rewrite sf_split_ok by lia.
  set (d3 := skipn (ip_len at_) d2). assert (L3 : (16 <= length d3)%nat) by (unfold d3; rewrite skipn_length; lia).
  destruct (p_u32_ok d3 ltac:(lia)) as [sub Hs]. rewrite Hs.
  destruct (p_u32_ok (skipn 4 d3)) as [seq Hq]; [rewrite skipn_length; lia|]. rewrite Hq.
  destruct (p_u32_ok (skipn 4 (skipn 4 d3))) as [up Hu]; [rewrite !skipn_length; lia|]. rewrite Hu.
  destruct (p_u32_ok (skipn 4 (skipn 4 (skipn 4 d3)))) as [cnt Hc]; [rewrite !skipn_length; lia|]. rewrite Hc.
  destruct (cnt <? 1); [cbn; lia|].
  set (d7 := skipn 4 (skipn 4 (skipn 4 (skipn 4 d3)))).
  pose proof (samples_fine (S (length d7)) cnt
    (sf_fs (if reset then mkSf (sf_ver old) (sf_agent old) (sf_sub old) (sf_seq old) (sf_up old) (sf_cnt old) [] [] else old))
    (sf_cs (if reset then mkSf (sf_ver old) (sf_agent old) (sf_sub old) (sf_seq old) (sf_up old) (sf_cnt old) [] [] else old))
    d7 ltac:(lia)) as Hp.
  destruct (sf_samples (S (length d7)) cnt _ _ d7) as [[[fs cs] o] tr]. exact Hp.
Qed.

Lemma sf_decode_no_panic old data : is_panic (snd (fst (sf_decode_into old data))) = false.
Proof.
  pose proof (sf_decode_fine true old data) as H. unfold sf_decode_into.
  destruct (snd (fst (sf_decode_gen true old data))); cbn in *; [reflexivity | reflexivity | contradiction].
Qed.
Lemma sf_decode_fuel old data : snd (fst (sf_decode_into old data)) <> Err 99.
Proof.
  pose proof (sf_decode_fine true old data) as H. unfold sf_decode_into.
  destruct (snd (fst (sf_decode_gen true old data))); cbn in *; try discriminate. intros X. inversion X. lia.
Qed.
Lemma sf_decode_orig_no_panic old data : is_panic (snd (fst (sf_decode_into_orig old data))) = false.
Proof.
  pose proof (sf_decode_fine false old data) as H. unfold sf_decode_into_orig.
  destruct (snd (fst (sf_decode_gen false old data))); cbn in *; [reflexivity | reflexivity | contradiction].
Qed.

(* reused = fresh: the outcome and the truncated flag never depend on the receiver; the sample lists
   never depend on it; after a successful decode nothing does *)
Lemma sf_decode_fresh old data :
  let r1 := sf_decode_into old data in
  let r2 := sf_decode_into sf_fresh data in
  snd (fst r1) = snd (fst r2) /\ snd r1 = snd r2 /\
  sf_fs (fst (fst r1)) = sf_fs (fst (fst r2)) /\ sf_cs (fst (fst r1)) = sf_cs (fst (fst r2)) /\
  (snd (fst r1) = Ok tt -> fst (fst r1) = fst (fst r2)).
Proof.
  cbv zeta. unfold sf_decode_into, sf_decode_gen. cbv zeta. cbn [sf_fs sf_cs sf_fresh].
  destruct (sf_short 8 data); [cbn; repeat split; discriminate|].
  destruct (p_u32 data) as [[ver d1]|e|s]; [|cbn; repeat split; discriminate ..].
  destruct (p_u32 d1) as [[at_ d2]|e|s]; [|cbn; repeat split; discriminate ..].
  destruct (sf_short (ip_len at_ + 16) d2); [cbn; repeat split; discriminate|].
  destruct (p_bytes (ip_len at_) d2) as [[agent d3]|e|s]; [|cbn; repeat split; discriminate ..].
  destruct (p_u32 d3) as [[sub d4]|e|s]; [|cbn; repeat split; discriminate ..].
  destruct (p_u32 d4) as [[seq d5]|e|s]; [|cbn; repeat split; discriminate ..].
  destruct (p_u32 d5) as [[up d6]|e|s]; [|cbn; repeat split; discriminate ..].
  destruct (p_u32 d6) as [[cnt d7]|e|s]; [|cbn; repeat split; discriminate ..].
  destruct (cnt <? 1); [cbn; repeat split; discriminate|].
  destruct (sf_samples (S (length d7)) cnt [] [] d7) as [[[fs cs] o] tr]. cbn. repeat split.
Qed.
