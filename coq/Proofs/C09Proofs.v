(* C09: the in-order path (overlapExisting) and the queue invariant of checkOverlap,
   for the repaired arithmetic (variant fixedv), inside the window hypothesis. *)
From GP Require Import Base C09Model C09Seq.
From Coq Require Import Lia ZifyBool ZifyNat.
Ltac Zify.zify_post_hook ::= Z.div_mod_to_equations.
Open Scope Z_scope.

(* ---------------------------------------------------------------- (ii) in-order path *)

Lemma sq_not_invalid : forall i o, (sq i o =? INVALID) = false.
Proof. intros. pose proof (sq_range i o). unfold INVALID. lia. Qed.

Lemma inorder_path : forall S i pos o n,
  0 <= o -> 0 <= n -> o + n <= zlen S -> o <= pos -> pos - o < HALFW ->
  let k := Z.min (pos - o) n in
  overlap_existing fixedv (sq i pos) (sq i o) (sub S o n) = (sub S (o + k) (n - k), sq i pos, false).
Proof.
  intros S i pos o n Ho Hn Hlen Hle Hw k. unfold overlap_existing.
  rewrite sq_not_invalid. unfold diffv. cbn [v_diff fixedv].
  rewrite diff_sq by (unfold HALFW in *; lia).
  rewrite zlen_sub by lia.
  destruct (pos - o =? 0) eqn:E0.
  - assert (pos = o) by lia. subst pos. replace k with 0 by lia.
    rewrite Z.add_0_r, Z.sub_0_r. reflexivity.
  - destruct (pos - o >=? n) eqn:E1.
    + replace k with n by lia.
      destruct (n <? 0) eqn:E2; [lia|]. rewrite zskip_sub by lia. reflexivity.
    + replace k with (pos - o) by lia.
      destruct (pos - o <? 0) eqn:E2; [lia|]. rewrite zskip_sub by lia. reflexivity.
Qed.

(* ---------------------------------------------------------------- (iii) checkOverlap *)

Definition plen (p : page) : Z := zlen (pbytes p).

(* page p holds S[o, o + plen p) and carries the sequence number of offset o *)
Definition pg (S : list Z) (i o : Z) (p : page) : Prop :=
  0 <= o /\ 0 < plen p /\ o + plen p <= zlen S /\ pseq p = sq i o /\ pbytes p = sub S o (plen p).

(* queue in list order: sorted by offset, pairwise disjoint, every page consistent with S,
   everything inside [lo, hi] *)
Fixpoint qok (S : list Z) (i lo hi : Z) (q : list page) : Prop :=
  match q with
  | [] => lo <= hi
  | p :: t => exists o, lo <= o /\ o + plen p <= hi /\ pg S i o p /\ qok S i (o + plen p) hi t
  end.

(* the same for a reversed list (the part of the queue left of the cursor, head = cur) *)
Fixpoint rok (S : list Z) (i lo hi : Z) (l : list page) : Prop :=
  match l with
  | [] => True
  | p :: t => exists o, lo <= o /\ o + plen p <= hi /\ pg S i o p /\ rok S i lo o t
  end.

Ltac ex4 o := exists o; split; [|split; [|split]].

Lemma qok_bounds : forall S i q lo hi, qok S i lo hi q -> lo <= hi.
Proof.
  induction q as [|p t IH]; intros lo hi H; cbn [qok] in H; [assumption|].
  destruct H as (o & H1 & H2 & (H3 & H4 & _) & H5). lia.
Qed.

Lemma qok_weaken : forall S i q lo hi lo' hi', qok S i lo hi q -> lo' <= lo -> hi <= hi' -> qok S i lo' hi' q.
Proof.
  induction q as [|p t IH]; intros lo hi lo' hi' H Hl Hh; cbn [qok] in *; [lia|].
  destruct H as (o & H1 & H2 & H3 & H4). ex4 o; try lia; try assumption.
  eapply IH; eauto; lia.
Qed.

Lemma rok_weaken : forall S i l lo hi lo' hi', rok S i lo hi l -> lo' <= lo -> hi <= hi' -> rok S i lo' hi' l.
Proof.
  induction l as [|p t IH]; intros lo hi lo' hi' H Hl Hh; cbn [rok] in *; [exact I|].
  destruct H as (o & H1 & H2 & H3 & H4). ex4 o; try lia; try assumption.
  eapply IH; eauto; lia.
Qed.

Lemma qok_app : forall S i a b lo mid hi, qok S i lo mid a -> qok S i mid hi b -> qok S i lo hi (a ++ b).
Proof.
  induction a as [|p t IH]; intros b lo mid hi Ha Hb; cbn [qok app] in *.
  - eapply qok_weaken; eauto; lia.
  - destruct Ha as (o & H1 & H2 & H3 & H4). pose proof (qok_bounds _ _ _ _ _ Hb).
    ex4 o; try lia; try assumption. eapply IH; eauto.
Qed.

(* zipper -> list *)
Lemma zip_ok : forall S i l r lo m m' hi,
  rok S i lo m l -> qok S i m' hi r -> m <= m' -> lo <= m' -> qok S i lo hi (rev l ++ r).
Proof.
  induction l as [|p t IH]; intros r lo m m' hi Hl Hr Hm Hlo; cbn [rev app rok] in *.
  - eapply qok_weaken; eauto; lia.
  - destruct Hl as (o & H1 & H2 & H3 & H4). rewrite <- app_assoc. cbn [app].
    pose proof (qok_bounds _ _ _ _ _ Hr).
    eapply (IH (p :: r) lo o o hi); try lia; try assumption.
    cbn [qok]. ex4 o; try lia; try assumption.
    eapply qok_weaken; eauto; lia.
Qed.

(* list -> zipper *)
Lemma unzip_ok_gen : forall S i q acc lo0 lo hi m,
  qok S i lo hi q -> rok S i lo0 m acc -> m <= lo -> lo0 <= lo -> rok S i lo0 hi (rev q ++ acc).
Proof.
  induction q as [|p t IH]; intros acc lo0 lo hi m Hq Ha Hm Hlo; cbn [rev app qok] in *.
  - eapply rok_weaken; eauto; lia.
  - destruct Hq as (o & H1 & H2 & H3 & H4). rewrite <- app_assoc. cbn [app].
    eapply (IH (p :: acc) lo0 (o + plen p) hi (o + plen p)); try lia; try assumption.
    + cbn [rok]. ex4 o; try lia; try assumption.
      eapply rok_weaken; eauto; lia.
    + destruct H3 as (? & ? & _). lia.
Qed.

Lemma unzip_ok : forall S i q lo hi, qok S i lo hi q -> rok S i lo hi (rev q).
Proof.
  intros. rewrite <- (app_nil_r (rev q)).
  eapply (unzip_ok_gen S i q [] lo lo hi lo); try lia; try assumption. exact I.
Qed.

(* ---- one iteration of the cursor loop, expressed on offsets *)
Section Step.
  Variables (S : list Z) (i w : Z).
  Local Notation hi := (w + (HALFW - 1)).
  Variables (s e cs : Z) (cur : page).
  Hypothesis Hs : w <= s.
  Hypothesis Hse : s <= e.
  Hypothesis He : e <= hi.
  Hypothesis Hcs : w <= cs.
  Hypothesis Hcur : pg S i cs cur.
  Hypothesis Hce : cs + plen cur <= hi.
  Local Notation ce := (cs + plen cur).

  Lemma cur_end_seq : sadd (pseq cur) (zlen (pbytes cur)) = sq i ce.
  Proof. destruct Hcur as (_ & _ & _ & Hq & _). rewrite Hq. apply sadd_sq. Qed.

  Ltac win := pose proof Hs as Hs'; pose proof Hse as Hse'; pose proof He as He'; pose proof Hcs as Hcs';
              pose proof Hce as Hce'; pose proof (zlen_nonneg _ (pbytes cur)); unfold HALFW, plen in *; lia.

  Lemma d_end_cs : diffv fixedv (sq i e) (pseq cur) = cs - e.
  Proof. destruct Hcur as (_ & _ & _ & Hq & _). rewrite Hq. unfold diffv; cbn [v_diff fixedv]. apply diff_sq. win. Qed.
  Lemma d_start_ce : diffv fixedv (sq i s) (sq i ce) = ce - s.
  Proof. destruct Hcur as (_ & Hp & _). unfold diffv; cbn [v_diff fixedv]. apply diff_sq. win. Qed.
  Lemma d_start_cs : diffv fixedv (sq i s) (pseq cur) = cs - s.
  Proof. destruct Hcur as (_ & _ & _ & Hq & _). rewrite Hq. unfold diffv; cbn [v_diff fixedv]. apply diff_sq. win. Qed.
  Lemma d_end_ce : diffv fixedv (sq i e) (sq i ce) = ce - e.
  Proof. destruct Hcur as (_ & Hp & _). unfold diffv; cbn [v_diff fixedv]. apply diff_sq. win. Qed.

  (* the decision tree of one iteration with every Difference replaced by offset subtraction *)
  Lemma co_step : forall rest right bytes rel tags,
    co_loop fixedv (sq i s) (sq i e) (cur :: rest) right bytes rel tags =
    if cs - e >? 0 then co_loop fixedv (sq i s) (sq i e) rest (cur :: right) bytes rel (5 :: tags)
    else if ce - s <=? 0 then mkCores (cur :: rest) right bytes rel (1 :: tags) false
    else if (ce - e <=? 0) && (cs - s >=? 0) then co_loop fixedv (sq i s) (sq i e) rest right bytes (rel + 1) (3 :: tags)
    else if (ce - e <? 0) && (ce - s >? 0) then
      let n := - (cs - s) in
      if (0 <=? n) && (n <=? plen cur) then
        mkCores (set_bytes cur (ztake n (pbytes cur)) :: rest) right bytes rel (2 :: tags) false
      else mkCores (cur :: rest) right bytes rel tags true
    else if (cs - s >? 0) && (cs - e <? 0) then
      let k := - (cs - e) in
      if (0 <=? k) && (k <=? plen cur) then
        co_loop fixedv (sq i s) (sq i e) rest
          (mkPage (zskip k (pbytes cur)) (sadd (pseq cur) k) (pseen cur) (pend cur) :: right) bytes rel (4 :: tags)
      else mkCores (cur :: rest) right bytes rel tags true
    else if (ce - e >=? 0) && (cs - s <=? 0) then
      let a := - (cs - s) in
      let b := a + zlen bytes in
      if (0 <=? a) && (b <=? plen cur) then
        co_loop fixedv (sq i s) (sq i e) rest
          (set_bytes cur (ztake a (pbytes cur) ++ bytes ++ zskip b (pbytes cur)) :: right) [] rel (6 :: tags)
      else mkCores (cur :: rest) right bytes rel tags true
    else co_loop fixedv (sq i s) (sq i e) rest (cur :: right) bytes rel tags.
  Proof.
    intros. cbn [co_loop]. rewrite cur_end_seq.
    rewrite d_end_cs, d_start_ce, d_start_cs, d_end_ce. reflexivity.
  Qed.

  (* the six cases (and the two "move on" branches) one by one *)
  Lemma co_case5 : forall rest right bytes rel tags, e < cs ->
    co_loop fixedv (sq i s) (sq i e) (cur :: rest) right bytes rel tags =
    co_loop fixedv (sq i s) (sq i e) rest (cur :: right) bytes rel (5 :: tags).
  Proof. intros. rewrite co_step. destruct (cs - e >? 0) eqn:E; [reflexivity|lia]. Qed.

  Lemma co_case1 : forall rest right bytes rel tags, cs <= e -> ce <= s ->
    co_loop fixedv (sq i s) (sq i e) (cur :: rest) right bytes rel tags =
    mkCores (cur :: rest) right bytes rel (1 :: tags) false.
  Proof.
    intros. rewrite co_step. destruct (cs - e >? 0) eqn:E; [lia|].
    destruct (ce - s <=? 0) eqn:E1; [reflexivity|lia].
  Qed.

  Lemma co_case3 : forall rest right bytes rel tags, s < ce -> s <= cs -> ce <= e ->
    co_loop fixedv (sq i s) (sq i e) (cur :: rest) right bytes rel tags =
    co_loop fixedv (sq i s) (sq i e) rest right bytes (rel + 1) (3 :: tags).
  Proof.
    intros. destruct Hcur as (_ & Hp & _). rewrite co_step.
    destruct (cs - e >? 0) eqn:E; [win|].
    destruct (ce - s <=? 0) eqn:E1; [lia|].
    destruct ((ce - e <=? 0) && (cs - s >=? 0)) eqn:E2; [reflexivity|lia].
  Qed.

  Lemma co_case2 : forall rest right bytes rel tags, cs < s -> s < ce -> ce < e ->
    co_loop fixedv (sq i s) (sq i e) (cur :: rest) right bytes rel tags =
    mkCores (set_bytes cur (ztake (s - cs) (pbytes cur)) :: rest) right bytes rel (2 :: tags) false.
  Proof.
    intros. rewrite co_step.
    destruct (cs - e >? 0) eqn:E; [lia|].
    destruct (ce - s <=? 0) eqn:E1; [lia|].
    destruct ((ce - e <=? 0) && (cs - s >=? 0)) eqn:E2; [lia|].
    destruct ((ce - e <? 0) && (ce - s >? 0)) eqn:E3; [|lia].
    cbv zeta. replace (- (cs - s)) with (s - cs) by lia.
    destruct ((0 <=? s - cs) && (s - cs <=? plen cur)) eqn:E4; [reflexivity|win].
  Qed.

  Lemma co_case4 : forall rest right bytes rel tags, s < cs -> cs < e -> e < ce ->
    co_loop fixedv (sq i s) (sq i e) (cur :: rest) right bytes rel tags =
    co_loop fixedv (sq i s) (sq i e) rest
      (mkPage (zskip (e - cs) (pbytes cur)) (sq i e) (pseen cur) (pend cur) :: right) bytes rel (4 :: tags).
  Proof.
    intros. rewrite co_step.
    destruct (cs - e >? 0) eqn:E; [lia|].
    destruct (ce - s <=? 0) eqn:E1; [lia|].
    destruct ((ce - e <=? 0) && (cs - s >=? 0)) eqn:E2; [lia|].
    destruct ((ce - e <? 0) && (ce - s >? 0)) eqn:E3; [lia|].
    destruct ((cs - s >? 0) && (cs - e <? 0)) eqn:E4; [|lia].
    cbv zeta. replace (- (cs - e)) with (e - cs) by lia.
    destruct ((0 <=? e - cs) && (e - cs <=? plen cur)) eqn:E5; [|win].
    destruct Hcur as (_ & _ & _ & Hq & _). rewrite Hq, sadd_sq.
    replace (cs + (e - cs)) with e by lia. reflexivity.
  Qed.

  Lemma co_case6 : forall rest right bytes rel tags, cs <= s -> e <= ce -> (cs < s \/ e < ce) -> s < ce ->
    zlen bytes = e - s \/ bytes = [] ->
    co_loop fixedv (sq i s) (sq i e) (cur :: rest) right bytes rel tags =
    co_loop fixedv (sq i s) (sq i e) rest
      (set_bytes cur (ztake (s - cs) (pbytes cur) ++ bytes ++ zskip (s - cs + zlen bytes) (pbytes cur)) :: right)
      [] rel (6 :: tags).
  Proof.
    intros rest right bytes rel tags H1 H2 H3 H4 Hb. rewrite co_step.
    assert (Hz : 0 <= zlen bytes <= e - s).
    { destruct Hb as [Hb|Hb]; [lia|]. subst bytes. cbn. lia. }
    destruct (cs - e >? 0) eqn:E; [win|].
    destruct (ce - s <=? 0) eqn:E1; [lia|].
    destruct ((ce - e <=? 0) && (cs - s >=? 0)) eqn:E2; [lia|].
    destruct ((ce - e <? 0) && (ce - s >? 0)) eqn:E3; [lia|].
    destruct ((cs - s >? 0) && (cs - e <? 0)) eqn:E4; [lia|].
    destruct ((ce - e >=? 0) && (cs - s <=? 0)) eqn:E5; [|lia].
    cbv zeta. replace (- (cs - s)) with (s - cs) by lia.
    destruct ((0 <=? s - cs) && (s - cs + zlen bytes <=? plen cur)) eqn:E6; [reflexivity|win].
  Qed.

  Lemma co_case0 : forall rest right bytes rel tags, s < cs -> e = cs ->
    co_loop fixedv (sq i s) (sq i e) (cur :: rest) right bytes rel tags =
    co_loop fixedv (sq i s) (sq i e) rest (cur :: right) bytes rel tags.
  Proof.
    intros. destruct Hcur as (_ & Hp & _). rewrite co_step.
    destruct (cs - e >? 0) eqn:E; [lia|].
    destruct (ce - s <=? 0) eqn:E1; [win|].
    destruct ((ce - e <=? 0) && (cs - s >=? 0)) eqn:E2; [win|].
    destruct ((ce - e <? 0) && (ce - s >? 0)) eqn:E3; [win|].
    destruct ((cs - s >? 0) && (cs - e <? 0)) eqn:E4; [lia|].
    destruct ((ce - e >=? 0) && (cs - s <=? 0)) eqn:E5; [lia|]. reflexivity.
  Qed.

  (* the geometry is exhaustive: one of the eight situations always applies *)
  Lemma co_cases_exhaustive :
    e < cs \/ (cs <= e /\ ce <= s) \/ (s < ce /\ s <= cs /\ ce <= e /\ cs <= e) \/
    (cs < s /\ s < ce /\ ce < e) \/ (s < cs /\ cs < e /\ e < ce) \/
    (cs <= s /\ e <= ce /\ (cs < s \/ e < ce) /\ s < ce) \/ (s < cs /\ e = cs).
  Proof. destruct Hcur as (_ & Hp & _). unfold plen in *. lia. Qed.

  (* what the page operations of cases 2, 4 and 6 do to a consistent page *)
  Lemma case2_page : cs < s -> s < ce -> pg S i cs (set_bytes cur (ztake (s - cs) (pbytes cur))).
  Proof.
    intros. destruct Hcur as (H1 & H2 & H3 & H4 & H5). unfold pg, plen, set_bytes in *. cbn [pbytes pseq].
    rewrite zlen_ztake by (unfold plen in *; lia).
    split; [lia|]. split; [lia|]. split; [lia|]. split; [assumption|].
    rewrite H5 at 1. apply ztake_sub. lia.
  Qed.

  Lemma case4_page : cs < e -> e < ce ->
    pg S i e (mkPage (zskip (e - cs) (pbytes cur)) (sq i e) (pseen cur) (pend cur)) /\
    e + plen (mkPage (zskip (e - cs) (pbytes cur)) (sq i e) (pseen cur) (pend cur)) = ce.
  Proof.
    intros. destruct Hcur as (H1 & H2 & H3 & H4 & H5). unfold pg, plen in *. cbn [pbytes pseq].
    rewrite zlen_zskip by (unfold plen in *; lia).
    split; [|lia]. split; [lia|]. split; [lia|]. split; [lia|]. split; [reflexivity|].
    rewrite H5 at 1. rewrite zskip_sub by lia. f_equal; lia.
  Qed.

  Lemma case6_same : forall bytes, cs <= s -> e <= ce -> bytes = sub S s (e - s) \/ bytes = [] ->
    ztake (s - cs) (pbytes cur) ++ bytes ++ zskip (s - cs + zlen bytes) (pbytes cur) = pbytes cur.
  Proof.
    intros bytes H1 H2 Hb. destruct Hcur as (G1 & G2 & G3 & G4 & G5). unfold plen in *.
    set (cl := zlen (pbytes cur)) in *.
    destruct Hb as [Hb|Hb]; subst bytes.
    - rewrite zlen_sub by lia. rewrite G5.
      rewrite ztake_sub by lia. rewrite zskip_sub by lia.
      replace (cs + (s - cs + (e - s))) with (s + (e - s)) by lia.
      rewrite sub_app by lia.
      replace s with (cs + (s - cs)) at 2 by lia.
      rewrite sub_app by lia. f_equal. lia.
    - cbn [app]. replace (s - cs + zlen (@nil Z)) with (s - cs) by (cbn; lia). apply ztake_zskip.
  Qed.
End Step.

(* ---- the whole loop *)
Definition HI (w : Z) : Z := w + (HALFW - 1).

Lemma set_bytes_same : forall p, set_bytes p (pbytes p) = p.
Proof. destruct p; reflexivity. Qed.

Lemma co_loop_inv : forall S i w s e,
  w <= s -> s <= e -> e <= HI w -> 0 <= s -> e <= zlen S ->
  forall left right bytes rel tags m,
  w <= m -> rok S i w m left -> qok S i m (HI w) right ->
  (bytes = [] \/ (bytes = sub S s (e - s) /\ e <= m)) ->
  let r := co_loop fixedv (sq i s) (sq i e) left right bytes rel tags in
  co_panic r = false /\
  exists m1 m2, m1 <= m2 /\ w <= m2 /\ rok S i w m1 (co_left r) /\ qok S i m2 (HI w) (co_right r) /\
    (co_bytes r = [] \/ (co_bytes r = sub S s (e - s) /\ m1 <= s /\ e <= m2)).
Proof.
  intros S i w s e Hs Hse He Hs0 HeS.
  induction left as [|cur rest IH]; intros right bytes rel tags m Hwm Hl Hr Hb r.
  - subst r. cbn [co_loop co_panic co_left co_right co_bytes]. split; [reflexivity|].
    pose proof (qok_bounds _ _ _ _ _ Hr).
    exists (Z.min s m), m. repeat split; try lia; try exact I; try assumption.
    destruct Hb as [Hb|[Hb Hm]]; [left; assumption|right; repeat split; try assumption; lia].
  - cbn [rok] in Hl. destruct Hl as (cs & Hcs & Hce & Hcur & Hrest).
    pose proof (qok_bounds _ _ _ _ _ Hr) as Hmhi.
    assert (Hce' : cs + plen cur <= w + (HALFW - 1)) by (unfold HI in *; lia).
    assert (He' : e <= w + (HALFW - 1)) by (unfold HI in *; lia).
    assert (Hbz : zlen bytes = e - s \/ bytes = []).
    { destruct Hb as [Hb|[Hb _]]; [right; assumption|left]. subst bytes. apply zlen_sub; lia. }
    assert (Hbs : bytes = sub S s (e - s) \/ bytes = []) by (destruct Hb as [Hb|[Hb _]]; auto).
    assert (Hex := co_cases_exhaustive S i s e cs cur Hcur).
    pose proof Hcur as Hcur'. destruct Hcur' as (Hc0 & Hcl & HcS & Hcq & Hcb).
    destruct Hex as [C5|[C1|[C3|[C2|[C4|[C6|C0]]]]]].
    + (* case 5 *)
      subst r. rewrite (co_case5 S i w s e cs cur) by (try assumption; lia).
      apply (IH (cur :: right) bytes rel (5 :: tags) cs); try assumption; try lia.
      * cbn [qok]. ex4 cs; try lia; try assumption.
        eapply qok_weaken; eauto; lia.
      * destruct Hb as [Hb|[Hb Hm]]; [left; assumption|right; split; [assumption|lia]].
    + (* case 1 *)
      subst r. rewrite (co_case1 S i w s e cs cur) by (try assumption; lia).
      cbn [co_panic co_left co_right co_bytes]. split; [reflexivity|].
      destruct Hb as [Hb|[Hb Hm]].
      * exists m, m. repeat split; try lia; try assumption; [|left; assumption].
        cbn [rok]. ex4 cs; try lia; assumption.
      * exists s, m. repeat split; try lia; try assumption.
        -- cbn [rok]. ex4 cs; try lia; assumption.
        -- right. repeat split; try assumption; lia.
    + (* case 3 *)
      subst r. rewrite (co_case3 S i w s e cs cur) by (try assumption; lia).
      apply (IH right bytes (rel + 1) (3 :: tags) m); try assumption; try lia.
      eapply rok_weaken; eauto; lia.
    + (* case 2 *)
      subst r. rewrite (co_case2 S i w s e cs cur) by (try assumption; lia).
      cbn [co_panic co_left co_right co_bytes]. split; [reflexivity|].
      assert (Hp2' : pg S i cs (set_bytes cur (ztake (s - cs) (pbytes cur)))) by (apply case2_page; try assumption; lia).
      assert (Hl2 : plen (set_bytes cur (ztake (s - cs) (pbytes cur))) = s - cs).
      { unfold plen, set_bytes. cbn [pbytes]. apply zlen_ztake. unfold plen in *. lia. }
      destruct Hb as [Hb|[Hb Hm]].
      * exists m, m. repeat split; try lia; try assumption; [|left; assumption].
        cbn [rok]. rewrite Hl2. ex4 cs; try lia; assumption.
      * exists s, m. repeat split; try lia; try assumption.
        -- cbn [rok]. rewrite Hl2. ex4 cs; try lia; assumption.
        -- right. repeat split; try assumption; lia.
    + (* case 4 *)
      subst r. rewrite (co_case4 S i w s e cs cur) by (try assumption; lia).
      assert (H4 := case4_page S i e cs cur).
      destruct H4 as (Hp4 & Hl4); try assumption; try lia.
      apply (IH _ bytes rel (4 :: tags) e); try assumption; try lia.
      * eapply rok_weaken; eauto; lia.
      * cbn [qok]. ex4 e; try rewrite Hl4; try lia; try assumption.
        eapply qok_weaken; eauto; lia.
      * destruct Hb as [Hb|[Hb Hm]]; [left; assumption|right; split; [assumption|lia]].
    + (* case 6 *)
      subst r. rewrite (co_case6 S i w s e cs cur) by (try assumption; lia).
      rewrite (case6_same S i s e cs cur) by (try assumption; lia).
      rewrite set_bytes_same.
      apply (IH (cur :: right) [] rel (6 :: tags) cs); try assumption; try lia.
      * cbn [qok]. ex4 cs; try lia; try assumption.
        eapply qok_weaken; eauto; lia.
      * left; reflexivity.
    + (* no overlap: e = cs *)
      subst r. rewrite (co_case0 S i w s e cs cur) by (try assumption; lia).
      apply (IH (cur :: right) bytes rel tags cs); try assumption; try lia.
      * cbn [qok]. ex4 cs; try lia; try assumption.
        eapply qok_weaken; eauto; lia.
      * destruct Hb as [Hb|[Hb Hm]]; [left; assumption|right; split; [assumption|lia]].
Qed.

(* ---- convertToPages: a consistent segment becomes consecutive consistent pages *)
Lemma split_pages_ok : forall S i ts fl f s n,
  0 <= s -> 0 < n -> s + n <= zlen S -> n <= PAGE * Z.of_nat f ->
  qok S i s (s + n) (split_pages f (sq i s) ts fl (sub S s n)).
Proof.
  intros S i ts fl. induction f as [|f IH]; intros s n Hs Hn HS Hf.
  - unfold PAGE in *. lia.
  - cbn [split_pages]. rewrite zlen_sub by lia.
    destruct (Z.le_gt_cases n PAGE) as [Hle|Hgt].
    + replace (Z.min n PAGE) with n by lia.
      rewrite zskip_sub by lia. replace (n - n) with 0 by lia. rewrite sub_nil.
      rewrite ztake_sub by lia. cbn [qok].
      assert (Hl : plen (mkPage (sub S s n) (sq i s) ts fl) = n) by (unfold plen; cbn [pbytes]; apply zlen_sub; lia).
      ex4 s; try rewrite Hl; try lia.
      unfold pg. rewrite Hl. cbn [pseq pbytes]. repeat split; try lia.
    + replace (Z.min n PAGE) with PAGE by lia.
      assert (Hp : 0 < PAGE) by (unfold PAGE; lia).
      rewrite zskip_sub by lia. rewrite ztake_sub by lia.
      destruct (sub S (s + PAGE) (n - PAGE)) eqn:Er.
      * assert (Hz : zlen (sub S (s + PAGE) (n - PAGE)) = n - PAGE) by (apply zlen_sub; lia).
        rewrite Er in Hz. cbn in Hz. lia.
      * rewrite <- Er. cbn [qok].
        assert (Hl : plen (mkPage (sub S s PAGE) (sq i s) ts false) = PAGE) by (unfold plen; cbn [pbytes]; apply zlen_sub; lia).
        ex4 s; try rewrite Hl; try lia.
        -- unfold pg. rewrite Hl. cbn [pseq pbytes]. repeat split; try lia.
        -- rewrite sadd_sq. replace (s + n) with ((s + PAGE) + (n - PAGE)) by lia.
           apply IH; try lia.
Qed.

Lemma to_pages_ok : forall S i ts fl s n,
  0 <= s -> 0 < n -> s + n <= zlen S -> qok S i s (s + n) (to_pages (sq i s) ts fl (sub S s n)).
Proof.
  intros. unfold to_pages. apply split_pages_ok; try lia.
  rewrite zlen_sub by lia. unfold PAGE. lia.
Qed.

(* ---- checkOverlap as a whole: the queue stays sorted, disjoint and consistent with S;
   no panic; what is left of the new bytes is all of them, or nothing (case 6) *)
Lemma check_overlap_inv : forall S i w q s n ts fl doq,
  qok S i w (HI w) q -> w <= s -> 0 <= s -> 0 <= n -> s + n <= HI w -> s + n <= zlen S ->
  let r := check_overlap fixedv q (sub S s n) (sq i s) ts fl doq in
  c2_panic r = false /\ qok S i w (HI w) (c2_queue r) /\
  (c2_bytes r = [] \/ c2_bytes r = sub S s n).
Proof.
  intros S i w q s n ts fl doq Hq Hws Hs Hn Hhi HS r. subst r. unfold check_overlap.
  rewrite zlen_sub by lia. rewrite sadd_sq.
  pose proof (qok_bounds _ _ _ _ _ Hq) as Hb.
  assert (Hinv := co_loop_inv S i w s (s + n) Hws ltac:(lia) Hhi Hs HS (rev q) [] (sub S s n) 0 [] (HI w)).
  replace (s + n - s) with n in Hinv by lia.
  destruct Hinv as (Hp & m1 & m2 & H12 & Hw2 & Hl & Hr & Hby).
  - lia.
  - apply unzip_ok. assumption.
  - cbn [qok]. lia.
  - right. split; [reflexivity|lia].
  - rewrite Hp.
    destruct ((0 <? zlen (co_bytes (co_loop fixedv (sq i s) (sq i (s + n)) (rev q) [] (sub S s n) 0 []))) && doq) eqn:E.
    + cbn [c2_panic c2_queue c2_bytes]. split; [reflexivity|].
      destruct Hby as [Hby|(Hby & Hm1 & Hm2)].
      * rewrite Hby in E. cbn in E. discriminate.
      * rewrite Hby in *. rewrite zlen_sub in E by lia.
        split; [|right; reflexivity].
        eapply (zip_ok S i _ _ w m1 s (HI w)); try lia; try assumption.
        eapply qok_app; [apply to_pages_ok; lia|].
        eapply qok_weaken; eauto; lia.
    + cbn [c2_panic c2_queue c2_bytes]. split; [reflexivity|]. split.
      * eapply (zip_ok S i _ _ w m1 m2 (HI w)); try lia; assumption.
      * destruct Hby as [Hby|(Hby & _)]; [left|right]; assumption.
Qed.
