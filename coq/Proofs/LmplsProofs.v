(* Lemmas about the MPLS codec model (Model/LmplsModel.v). *)
From GP Require Import Base ListX Codec CodecBits MiscLib LmplsModel.
From Coq Require Import Lia ZifyBool ZifyNat.
Open Scope Z_scope.
Ltac Zify.zify_post_hook ::= Z.div_mod_to_equations.

Lemma mpls_decode_no_panic data : is_panic (snd (fst (mpls_decode data))) = false.
Proof.
  unfold mpls_decode. cbv zeta. destruct (zlen data <? 4) eqn:Hn; [reflexivity|].
  rewrite ml_rd32_ok by lia. rewrite !cd_slc_ok by lia. reflexivity.
Qed.

Lemma mpls_guess_no_panic data : is_panic (mpls_guess data) = false.
Proof.
  unfold mpls_guess, mpls_guess_gen. cbn [negb andb]. destruct (zlen data =? 0) eqn:E; [reflexivity|].
  pose proof (zlen_nonneg data). rewrite cd_idx_ok by lia. cbn [obind].
  repeat match goal with |- context [if ?c then _ else _] => destruct c end; reflexivity.
Qed.

Lemma mpls_guess_orig_panics : mpls_guess_orig [] = Panic 1.
Proof. reflexivity. Qed.

Definition mpls_ser_spec (l : mpls) (payload : list Z) : outcome (list Z) * mpls :=
  (Ok (ml_put32 (mpls_encoded l) ++ payload), l).

Lemma mpls_serialize_spec l payload fixl csum junk : mpls_serialize l payload fixl csum junk = mpls_ser_spec l payload.
Proof.
  unfold mpls_serialize, mpls_ser_spec.
  pose proof (ml_tile_init 4 junk ltac:(lia)) as T.
  destruct (ml_tile_wrc _ _ (ml_put32 (mpls_encoded l)) _ 0 T eq_refl ltac:(rewrite zlen_put32, zlen_nil; lia)) as [b [E T']].
  rewrite E. apply ml_tile_done in T'; [|reflexivity]. subst b. reflexivity.
Qed.

Lemma mpls_serialize_junk_free l payload fixl csum junk1 junk2 :
  mpls_serialize l payload fixl csum junk1 = mpls_serialize l payload fixl csum junk2.
Proof. rewrite !mpls_serialize_spec. reflexivity. Qed.

Lemma mpls_serialize_no_panic l payload fixl csum junk : is_panic (fst (mpls_serialize l payload fixl csum junk)) = false.
Proof. rewrite mpls_serialize_spec. reflexivity. Qed.

(* C06 hypothesis: 20-bit label, 3-bit traffic class, 8-bit TTL *)
Definition mpls_wf (l : mpls) : Prop := 0 <= m_label l < 1048576 /\ 0 <= m_tc l < 8 /\ 0 <= m_ttl l < 256.

Lemma mpls_encoded_val l : mpls_wf l ->
  mpls_encoded l = m_label l * 4096 + m_tc l * 512 + (if m_bottom l then 256 else 0) + m_ttl l.
Proof.
  intros [Hl [Ht Httl]]. unfold mpls_encoded. cbv zeta.
  rewrite (Z.mod_small (m_label l * 4096)) by lia. rewrite (Z.mod_small (m_tc l * 512)) by lia.
  change 4096 with (2 ^ 12). rewrite cd_lor_disjoint by (change (2 ^ 12) with 4096; lia). change (2 ^ 12) with 4096.
  replace (m_label l * 4096 + m_tc l * 512) with ((m_label l * 8 + m_tc l) * 2 ^ 9) by (change (2 ^ 9) with 512; lia).
  rewrite cd_lor_disjoint by (change (2 ^ 9) with 512; lia). change (2 ^ 9) with 512.
  destruct (m_bottom l); [|lia].
  change 256 with (2 ^ 8) at 1. rewrite cd_lor_bit; change (2 ^ 8) with 256; lia.
Qed.

Lemma mpls_roundtrip l payload fixl csum junk bytes l' :
  mpls_wf l -> mpls_serialize l payload fixl csum junk = (Ok bytes, l') ->
  l' = l /\ bytes = ml_put32 (mpls_encoded l) ++ payload /\
  mpls_decode bytes =
    (mkMpls (ml_put32 (mpls_encoded l)) payload (m_label l) (m_tc l) (m_bottom l) (m_ttl l), Ok tt, false).
Proof.
  intros Hwf. pose proof (mpls_encoded_val l Hwf) as Ev. destruct Hwf as [Hl [Ht Httl]].
  rewrite mpls_serialize_spec. unfold mpls_ser_spec. intros X.
  assert (E1 : bytes = ml_put32 (mpls_encoded l) ++ payload) by congruence. assert (E2 : l' = l) by congruence. clear X.
  split; [exact E2|]. split; [exact E1|]. subst bytes l'.
  set (e := mpls_encoded l) in *.
  assert (He : 0 <= e < 4294967296) by (destruct (m_bottom l); lia).
  pose proof (zlen_nonneg payload) as Np.
  remember (ml_put32 e) as h eqn:Hh. remember (h ++ payload) as data eqn:Hdata.
  assert (Hlh : length h = 4%nat) by (subst h; reflexivity).
  assert (Hn : zlen data = 4 + zlen payload) by (subst data; rewrite zlen_app; unfold zlen at 1; rewrite Hlh; reflexivity).
  assert (Hnth : forall k, (k < 4)%nat -> nth k data 0 = nth k h 0) by (intros; subst data; apply app_nth1; lia).
  unfold mpls_decode. cbv zeta. destruct (zlen data <? 4) eqn:C1; [lia|].
  rewrite ml_rd32_ok by lia. rewrite !cd_slc_ok by lia. cbn [ml_bind].
  assert (S1 : slice data (Z.to_nat 0) (Z.to_nat 4) = h) by (subst data; apply slice_from_start; rewrite Hlh; reflexivity).
  assert (S2 : slice data (Z.to_nat 4) (Z.to_nat (zlen data)) = payload).
  { rewrite Hn. subst data. apply slice_to_end; [rewrite Hlh; reflexivity|]. rewrite Hlh. unfold zlen. lia. }
  rewrite S1, S2.
  change (Z.to_nat 0) with 0%nat; change (Z.to_nat (0 + 1)) with 1%nat; change (Z.to_nat (0 + 2)) with 2%nat; change (Z.to_nat (0 + 2 + 1)) with 3%nat.
  rewrite !Hnth by lia. subst h. cbn [nth ml_put32]. rewrite ml_put32_be by lia.
  f_equal. f_equal. f_equal.
  - destruct (m_bottom l); lia.
  - destruct (m_bottom l); lia.
  - destruct (m_bottom l); lia.
  - destruct (m_bottom l); lia.
Qed.

Lemma mpls_decoded_wf data l tr : bytes_ok data -> mpls_decode data = (l, Ok tt, tr) -> mpls_wf l.
Proof.
  intros Hb. unfold mpls_decode. cbv zeta. destruct (zlen data <? 4) eqn:Hn; [discriminate|].
  rewrite ml_rd32_ok by lia. rewrite !cd_slc_ok by lia. cbn [ml_bind]. intros X.
  match type of X with (?t, _, _) = _ => assert (El : l = t) by congruence end. subst l. clear X.
  unfold mpls_wf. cbn [m_label m_tc m_ttl].
  pose proof (bytes_ok_nth data (Z.to_nat 0) Hb). pose proof (bytes_ok_nth data (Z.to_nat (0 + 1)) Hb).
  pose proof (bytes_ok_nth data (Z.to_nat (0 + 2)) Hb). pose proof (bytes_ok_nth data (Z.to_nat (0 + 2 + 1)) Hb).
  lia.
Qed.
