(* Lemmas about the LLDP codec model (Model/LlldpModel.v): decoder safety and fuel, serializer. *)
From GP Require Import Base ListX Codec MiscLib MidLib LlldpModel.
From Coq Require Import Lia ZifyBool ZifyNat.
Open Scope Z_scope.
Ltac Zify.zify_post_hook ::= Z.div_mod_to_equations.

Definition vb (x : lval) : Prop := bytes_ok (lv_value x).
Definition lgood {A} (o : outcome A) : Prop := is_panic o = false /\ o <> Err 99.
Lemma lgood_ok {A} (v : A) : lgood (Ok v). Proof. split; [reflexivity|discriminate]. Qed.
Lemma lgood_err {A} e : e <> 99 -> lgood (@Err A e). Proof. intros H. split; [reflexivity|congruence]. Qed.

Lemma ll_walk_safe : forall fuel v, bytes_ok v -> zlen v < Z.of_nat fuel ->
  match fst (ll_walk fuel v) with Ok l => Forall vb l | Err e => e <> 99 | Panic _ => False end.
Proof.
  induction fuel as [|f IH]; intros v Hb Hf; [pose proof (zlen_nonneg v); lia|].
  cbn [ll_walk]. destruct (zlen v =? 0) eqn:C0; [cbn; constructor|].
  destruct (zlen v <? 2) eqn:C1; [cbn; lia|].
  destruct (md_idx_range v 0 Hb ltac:(lia)) as [b0 [E0 R0]]. destruct (md_idx_range v 1 Hb ltac:(lia)) as [b1 [E1 R1]].
  rewrite E0, E1. cbv zeta. set (len := b0 mod 2 * 256 + b1). assert (Hl : 0 <= len < 512) by (unfold len; lia).
  replace ((len + 2) mod 65536) with (len + 2) by lia. replace ((2 + len) mod 65536) with (2 + len) by lia.
  destruct ((0 <? len) && (zlen v <? len + 2)) eqn:C2; [cbn; lia|].
  assert (Hv : exists value, (if 0 <? len then cd_slc v 2 (len + 2) else Ok []) = Ok value /\ bytes_ok value).
  { destruct (0 <? len) eqn:C3; [|exists []; split; [reflexivity|constructor]].
    rewrite cd_slc_ok by lia. eexists; split; [reflexivity|apply bytes_ok_slice; exact Hb]. }
  destruct Hv as [value [Ev Bv]]. rewrite Ev.
  destruct (b0 / 2 =? 0); [cbn; repeat constructor; exact Bv|].
  destruct (zlen v <? 2 + len) eqn:C4; [cbn; lia|].
  rewrite cd_slc_ok by lia.
  specialize (IH (slice v (Z.to_nat (2 + len)) (Z.to_nat (zlen v))) (bytes_ok_slice _ _ _ Hb) ltac:(rewrite md_zlen_slice by lia; lia)).
  destruct (ll_walk f _) as [[l|e|s] tr]; cbn [fst] in *; [constructor; [exact Bv|exact IH]|exact IH|exact IH].
Qed.

Lemma ll_mand_safe : forall vals c ge, Forall vb vals -> Forall vb (ll_values c) ->
  match ll_mand vals c ge with Ok (c', _) => Forall vb (ll_values c') | Err e => e <> 99 | Panic _ => False end.
Proof.
  induction vals as [|v t IH]; intros c ge HF Hc; [exact Hc|]. inversion HF as [|? ? Hv HF']; subst.
  cbn [ll_mand]. cbv zeta. pose proof (zlen_nonneg (lv_value v)) as Hn.
  destruct (lv_type v =? 0); [apply IH; assumption|].
  destruct (lv_type v =? 1).
  { destruct (zlen (lv_value v) <? 2) eqn:C; [lia|]. rewrite cd_idx_ok, cd_slc_ok by lia. cbn [obind]. apply IH; assumption. }
  destruct (lv_type v =? 2).
  { destruct (zlen (lv_value v) <? 2) eqn:C; [lia|]. rewrite cd_idx_ok, cd_slc_ok by lia. cbn [obind]. apply IH; assumption. }
  destruct (lv_type v =? 3).
  { destruct (zlen (lv_value v) <? 2) eqn:C; [lia|]. rewrite cd_rd16_ok by lia. cbn [obind]. apply IH; assumption. }
  apply IH; [assumption|]. cbn [ll_values]. apply Forall_app. split; [exact Hc|constructor; [exact Hv|constructor]].
Qed.

Lemma ll_mgmt_good i val : bytes_ok val -> lgood (snd (ll_mgmt false i val)).
Proof.
  intros Hb. unfold ll_mgmt. cbv zeta. cbn [wrap8 negb andb].
  destruct (zlen val <? 9) eqn:C0; [apply lgood_err; lia|].
  destruct (md_idx_range val 0 Hb ltac:(lia)) as [mlen [E0 R0]]. rewrite E0.
  destruct (mlen <? 1) eqn:C1; [apply lgood_err; lia|].
  destruct (zlen val <? mlen + 7) eqn:C2; [apply lgood_err; lia|].
  rewrite cd_idx_ok by lia. rewrite cd_slc_ok by lia. rewrite cd_idx_ok by lia. rewrite cd_slc_ok by lia. cbn [obind].
  rewrite ml_rd32_ok by (try rewrite md_zlen_slice by lia; lia).
  destruct (md_idx_range val (mlen + 6) Hb ltac:(lia)) as [olen [E1 R1]]. rewrite E1.
  destruct (zlen val <? mlen + 7 + olen) eqn:C3; [apply lgood_err; lia|].
  rewrite cd_slc_ok by lia. apply lgood_ok.
Qed.

Lemma ll_info_good : forall vals i, Forall vb vals -> lgood (snd (ll_info_pass false vals i)).
Proof.
  induction vals as [|v t IH]; intros i HF; [apply lgood_ok|]. inversion HF as [|? ? Hv HF']; subst. unfold vb in Hv.
  cbn [ll_info_pass]. cbv zeta.
  destruct (lv_type v =? 4); [apply IH; exact HF'|]. destruct (lv_type v =? 5); [apply IH; exact HF'|].
  destruct (lv_type v =? 6); [apply IH; exact HF'|].
  destruct (lv_type v =? 7).
  { destruct (zlen (lv_value v) <? 4) eqn:C; [apply lgood_err; lia|]. rewrite !cd_rd16_ok by lia. apply IH; exact HF'. }
  destruct (lv_type v =? 8).
  { pose proof (ll_mgmt_good i (lv_value v) Hv) as G. destruct (ll_mgmt false i (lv_value v)) as [i' [u|e|s]]; cbn [snd] in *; [apply IH; exact HF'|exact G|exact G]. }
  destruct (lv_type v =? 127).
  { destruct (zlen (lv_value v) <? 4) eqn:C; [apply lgood_err; lia|].
    rewrite md_rd24_ok, cd_idx_ok, cd_slc_ok by lia. apply IH; exact HF'. }
  apply IH; exact HF'.
Qed.

Lemma ll_decode_good old data : bytes_ok data -> lgood (snd (fst (ll_decode_into old data))).
Proof.
  intros Hb. unfold ll_decode_into, ll_decode_gen.
  pose proof (ll_walk_safe (S (length data)) data Hb ltac:(unfold zlen; lia)) as W.
  destruct (ll_walk (S (length data)) data) as [[vals|e|s] tr]; cbn [fst snd] in *; [|apply lgood_err; exact W|contradiction].
  destruct (Z.of_nat (length vals) <? 4); [apply lgood_err; lia|].
  pose proof (ll_mand_safe vals ll_fresh false W ltac:(constructor)) as M.
  destruct (ll_mand vals ll_fresh false) as [[c ge]|e|s]; cbn [fst snd]; [|apply lgood_err; exact M|contradiction].
  destruct ((ll_csub c =? 0) || (ll_psub c =? 0) || negb ge); [apply lgood_err; lia|].
  pose proof (ll_info_good (ll_values c) li_zero M) as G.
  destruct (ll_info_pass false (ll_values c) li_zero) as [info o]. cbn [fst snd] in *. exact G.
Qed.

(* -------- serializer *)
Lemma ll_vals_chunks_zf : forall vs off reg reg', ll_vals_chunks true vs off reg = ll_vals_chunks true vs off reg'.
Proof. induction vs as [|v t IH]; intros off reg reg'; [reflexivity|]. cbn [ll_vals_chunks]. cbv zeta. rewrite (IH _ reg reg'). reflexivity. Qed.

Lemma ll_serialize_eq zf l payload fixl csum junk : exists cs,
  ll_serialize_gen zf l payload fixl csum junk = (Ok (payload ++ md_flat cs), l) /\
  (zf = true -> cs = ll_id_chunks 1 (ll_csub l) (ll_cid l) ++ ll_id_chunks 2 (ll_psub l) (ll_pid l) ++
              [(false, cd_put16 (3 * 512 + 2)); (false, cd_put16 (ll_ttl l mod 65536))] ++
              ll_vals_chunks true (ll_values l) (zlen (md_flat (ll_id_chunks 1 (ll_csub l) (ll_cid l) ++ ll_id_chunks 2 (ll_psub l) (ll_pid l) ++
                 [(false, cd_put16 (3 * 512 + 2)); (false, cd_put16 (ll_ttl l mod 65536))]))) [] ++ [(false, [0; 0])]).
Proof.
  unfold ll_serialize_gen. cbv zeta. eexists. rewrite md_emit_ok. split; [reflexivity|].
  intros ->. rewrite (ll_vals_chunks_zf (ll_values l) _ (cd_region (ll_total l) junk) []). rewrite <- !app_assoc. reflexivity.
Qed.

Lemma ll_serialize_no_panic zf l payload fixl csum junk : is_panic (fst (ll_serialize_gen zf l payload fixl csum junk)) = false.
Proof. destruct (ll_serialize_eq zf l payload fixl csum junk) as [cs [E _]]. rewrite E. reflexivity. Qed.

Lemma ll_serialize_junk_free l payload fixl csum junk1 junk2 :
  ll_serialize l payload fixl csum junk1 = ll_serialize l payload fixl csum junk2.
Proof.
  unfold ll_serialize.
  destruct (ll_serialize_eq true l payload fixl csum junk1) as [cs1 [E1 C1]].
  destruct (ll_serialize_eq true l payload fixl csum junk2) as [cs2 [E2 C2]].
  rewrite E1, E2, (C1 eq_refl), (C2 eq_refl). reflexivity.
Qed.
